import TR.Model.Hedge
/-!
# Hedge — invariants of `TR.Model.Hedge` (C12)

Per-request invariant `CallInv = StartInv ∧ ChanInv ∧ ResInv`, preserved by every helper of the
model, lifted to all requests of a reachable state (`inv_reachable`).
-/
namespace TR.Hedge

/-- start instants, newest first -/
def starts (cl : Call) : List Nat := cl.attempts.map (·.startAt)

/-- observed completion instant (0 while running) -/
def finT (a : Attempt) : Nat := a.fin.getD 0

/-- finished with an error -/
def finErr (a : Attempt) : Bool := a.fin.isSome && isErr a.out

/-- spacing of a newest-first list of start instants (milliseconds; delays are microseconds): in
latency mode attempt number `n` starts at least `delay n` after attempt `n - 1`; in parallel mode
(`delay 1 = 0`) all at once -/
def SpacedT (cfg : Cfg) : List Nat → Prop
  | [] => True
  | [_] => True
  | b :: a :: tl =>
      (if cfg.delay 1 = 0 then b = a else a * 1000 + cfg.delay (tl.length + 1) ≤ b * 1000) ∧
        SpacedT cfg (a :: tl)

/-- the timer never fires before the configured delay has passed -/
theorem delay_le_timer (cfg : Cfg) (n : Nat) : cfg.delay n ≤ timerMs cfg n * 1000 := by
  unfold timerMs; omega

/-! ## markFin / finishCall -/

theorem markFin_some {now k : Nat} {l : List Attempt} {a' : Attempt} {l' : List Attempt}
    (h : markFin now k l = some (a', l')) :
    ∃ pre a post, l = pre ++ a :: post ∧ l' = pre ++ a' :: post ∧ a.fin = none ∧ a.k = k ∧
      a.doneAt ≤ now ∧ a.out ≠ .never ∧ a' = { a with fin := some now } := by
  induction l generalizing a' l' with
  | nil => simp [markFin] at h
  | cons x tl ih =>
    unfold markFin at h
    split at h
    · rename_i hc
      simp only [Option.some.injEq, Prod.mk.injEq] at h
      exact ⟨[], x, tl, rfl, by simp [← h.2, ← h.1], hc.2.1, hc.1, hc.2.2.1, hc.2.2.2.1, h.1.symm⟩
    · split at h
      · rename_i a2 tl2 heq
        simp only [Option.some.injEq, Prod.mk.injEq] at h
        obtain ⟨pre, a, post, h1, h2, h3⟩ := ih heq
        exact ⟨x :: pre, a, post, by simp [h1], by simp [← h.2, h2, h.1], by rw [← h.1]; exact h3⟩
      · simp at h

/-- the two shapes of a completion step -/
theorem finishCall_cases (now k c : Nat) (cl : Call) :
    finishCall now k c cl = (cl, []) ∨
    ∃ pre a post, cl.attempts = pre ++ a :: post ∧ a.fin = none ∧ a.doneAt ≤ now ∧ a.out ≠ .never ∧ a.k = k ∧
      finishCall now k c cl =
        (if live cl.phase && sendable a.out then
            { cl with attempts := pre ++ { a with fin := some now } :: post,
                      chan := cl.chan ++ [{ a with fin := some now }] }
         else { cl with attempts := pre ++ { a with fin := some now } :: post },
         [.innerDone c a.k a.out]) := by
  unfold finishCall
  split
  · left; rfl
  · rename_i a' l' heq
    obtain ⟨pre, a, post, h1, h2, h3, h4, h5, h6, h7⟩ := markFin_some heq
    right
    refine ⟨pre, a, post, h1, h3, h5, h6, h4, ?_⟩
    subst h7; subst h2; rfl

/-! ## the invariant -/

structure StartInv (cfg : Cfg) (now : Nat) (cl : Call) : Prop where
  bound : (starts cl).length ≤ cfg.max
  spaced : SpacedT cfg (starts cl)
  startLe : ∀ t ∈ starts cl, t ≤ now
  lat : cl.phase = .latency → cfg.delay 1 ≠ 0 ∧ ∃ t tl, starts cl = t :: tl ∧
        (tl.length + 1 < cfg.max → cl.nextHedgeAt = t + timerMs cfg (tl.length + 1))
  drain : cl.phase = .drain → (starts cl).length = cfg.max
  /-- outside parallel mode the attempt whose delay is never due is not started -/
  nev : 1 < cfg.max → cfg.delay 1 ≠ 0 → ∀ n, 1 ≤ n → cfg.never n = true → (starts cl).length ≤ n
  /-- the drain phase is entered only when the mode test fails (`max = 1` or `delay 1 = 0`) -/
  drainMode : cl.phase = .drain → ¬ (1 < cfg.max ∧ cfg.delay 1 ≠ 0)

structure ChanInv (cfg : Cfg) (now : Nat) (cl : Call) : Prop where
  finOk : ∀ a ∈ cl.attempts, ∀ tf, a.fin = some tf → a.doneAt ≤ tf ∧ tf ≤ now ∧ a.out ≠ .never
  sorted : cl.chan.Pairwise (fun x y => finT x ≤ finT y)
  chanMem : ∀ m ∈ cl.chan, m ∈ cl.attempts ∧ m.fin.isSome = true ∧ sendable m.out = true
  okIn : live cl.phase = true → ∀ a ∈ cl.attempts, a.out = .ok → a.fin.isSome = true → a ∈ cl.chan
  recvdErr : live cl.phase = true → ∀ m ∈ cl.recvd, isErr m.out = true
  count : cl.phase = .latency →
    cl.errors + cl.chan.countP (fun m => isErr m.out) = cl.attempts.countP finErr ∧ cl.errors < cfg.max
  fresh : cl.phase = .fresh → cl.attempts = [] ∧ cl.chan = [] ∧ cl.errors = 0 ∧ cl.recvd = []
  /-- every completed attempt that produces a message has sent it: it is queued or has been received -/
  sentIn : live cl.phase = true → ∀ a ∈ cl.attempts, sendable a.out = true → a.fin.isSome = true →
    a ∈ cl.chan ∨ a ∈ cl.recvd
  /-- drain phase: while `primary_error` is unset nothing has been received -/
  noErrYet : cl.phase = .drain → cl.firstErr = none → cl.recvd = []

/-- what a result means -/
def ResOk (cfg : Cfg) (cl : Call) (t : Nat) : Res → Prop
  | .ok v => ∃ a ∈ cl.attempts, a.k = v ∧ a.out = .ok ∧ ∃ tf, a.fin = some tf ∧ a.doneAt ≤ tf ∧ tf ≤ t ∧
      ∀ b ∈ cl.attempts, b.out = .ok → ∀ tb, b.fin = some tb → tf ≤ tb
  | .allFailed _ _ => (cl.attempts.length = cfg.max ∧
      ∀ a ∈ cl.attempts, ∃ tf, a.fin = some tf ∧ tf ≤ t ∧ isFail a.out = true) ∧
      -- latency mode counts *errors received*: there, every attempt has ended with an error (none panicked)
      (1 < cfg.max → cfg.delay 1 ≠ 0 → ∀ a ∈ cl.attempts, isErr a.out = true)
  -- the drain phase's `expect`: channel closed and no error ever received — never in latency mode, and only when
  -- every attempt the call can start was started and every one of them panicked
  | .panic => ¬ (1 < cfg.max ∧ cfg.delay 1 ≠ 0) ∧ cl.attempts.length = cfg.max ∧
      ∀ a ∈ cl.attempts, a.out = .panic ∧ ∃ tf, a.fin = some tf ∧ tf ≤ t
  -- a call resolves with a response, with all-attempts-failed, or by the drain phase's panic — with nothing else
  -- (in particular never with `HedgeError::Inner`: that is the answer to a failed readiness poll, `Op.refused`)
  | _ => False

structure ResInv (cfg : Cfg) (now : Nat) (cl : Call) : Prop where
  noRes : cl.phase ≠ .done → cl.result = none
  res : cl.phase = .done → ∃ t r, cl.result = some (t, r) ∧ t ≤ now ∧ (∀ s ∈ starts cl, s ≤ t) ∧ ResOk cfg cl t r

structure CallInv (cfg : Cfg) (now : Nat) (cl : Call) : Prop where
  st : StartInv cfg now cl
  ch : ChanInv cfg now cl
  rs : ResInv cfg now cl

/-! ## completion of one attempt -/

def finMove (now : Nat) (cl : Call) (pre : List Attempt) (a : Attempt) (post : List Attempt) : Call :=
  if live cl.phase && sendable a.out then
    { cl with attempts := pre ++ { a with fin := some now } :: post,
              chan := cl.chan ++ [{ a with fin := some now }] }
  else { cl with attempts := pre ++ { a with fin := some now } :: post }

theorem finMove_phase (now cl pre a post) : (finMove now cl pre a post).phase = cl.phase := by
  unfold finMove; split <;> rfl
theorem finMove_result (now cl pre a post) : (finMove now cl pre a post).result = cl.result := by
  unfold finMove; split <;> rfl
theorem finMove_nextHedgeAt (now cl pre a post) : (finMove now cl pre a post).nextHedgeAt = cl.nextHedgeAt := by
  unfold finMove; split <;> rfl
theorem finMove_attempts (now cl pre a post) :
    (finMove now cl pre a post).attempts = pre ++ { a with fin := some now } :: post := by
  unfold finMove; split <;> rfl
theorem finMove_starts (now cl pre a post) (h : cl.attempts = pre ++ a :: post) :
    starts (finMove now cl pre a post) = starts cl := by
  simp [starts, finMove_attempts, h]
theorem finMove_plan (now cl pre a post) : (finMove now cl pre a post).plan = cl.plan := by
  unfold finMove; split <;> rfl

theorem StartInv.congr {cfg now} {cl cl' : Call} (h : StartInv cfg now cl)
    (hp : cl'.phase = cl.phase) (hs : starts cl' = starts cl) (hn : cl'.nextHedgeAt = cl.nextHedgeAt) :
    StartInv cfg now cl' := by
  constructor
  · rw [hs]; exact h.bound
  · rw [hs]; exact h.spaced
  · rw [hs]; exact h.startLe
  · rw [hp, hs, hn]; exact h.lat
  · rw [hp, hs]; exact h.drain
  · rw [hs]; exact h.nev
  · rw [hp]; exact h.drainMode

theorem ChanInv_finMove {cfg now} {cl : Call} {pre a post} (h : ChanInv cfg now cl)
    (hatt : cl.attempts = pre ++ a :: post) (hfin : a.fin = none) (hdue : a.doneAt ≤ now)
    (hnv : a.out ≠ .never) : ChanInv cfg now (finMove now cl pre a post) := by
  have memOld : ∀ b, b ∈ pre ∨ b ∈ post → b ∈ cl.attempts := by
    intro b hb; rw [hatt]; simp only [List.mem_append, List.mem_cons]
    rcases hb with hb | hb
    · exact Or.inl hb
    · exact Or.inr (Or.inr hb)
  have oldSplit : ∀ b ∈ cl.attempts, b.fin.isSome = true → b ∈ pre ∨ b ∈ post := by
    intro b hb hs; rw [hatt] at hb; simp only [List.mem_append, List.mem_cons] at hb
    rcases hb with hb | hb | hb
    · exact Or.inl hb
    · subst hb; simp [hfin] at hs
    · exact Or.inr hb
  have finErr_a : finErr a = false := by simp [finErr, hfin]
  have cntOld : cl.attempts.countP finErr = pre.countP finErr + post.countP finErr := by
    rw [hatt]; simp [List.countP_append, finErr_a]
  unfold finMove
  split
  · rename_i hc
    simp only [Bool.and_eq_true] at hc
    constructor
    · intro b hb tf hbf
      simp only [List.mem_append, List.mem_cons] at hb
      rcases hb with hb | hb | hb
      · exact h.finOk b (memOld b (Or.inl hb)) tf hbf
      · subst hb; simp at hbf; subst hbf; exact ⟨hdue, Nat.le_refl _, hnv⟩
      · exact h.finOk b (memOld b (Or.inr hb)) tf hbf
    · show (cl.chan ++ [_]).Pairwise _
      rw [List.pairwise_append]
      refine ⟨h.sorted, by simp, ?_⟩
      intro x hx y hy
      simp only [List.mem_singleton] at hy; subst hy
      obtain ⟨hxa, hxs, _⟩ := h.chanMem x hx
      obtain ⟨tf, htf⟩ := Option.isSome_iff_exists.mp hxs
      have := (h.finOk x hxa tf htf).2.1
      simp [finT, htf]; exact this
    · intro m hm
      show m ∈ pre ++ _ :: post ∧ _
      simp only [List.mem_append, List.mem_singleton] at hm
      rcases hm with hm | hm
      · obtain ⟨h1, h2, h3⟩ := h.chanMem m hm
        refine ⟨?_, h2, h3⟩
        simp only [List.mem_append, List.mem_cons]
        rcases oldSplit m h1 h2 with q | q
        · exact Or.inl q
        · exact Or.inr (Or.inr q)
      · subst hm; exact ⟨by simp, by simp, hc.2⟩
    · intro hl b hb hok hbs
      show b ∈ cl.chan ++ [_]
      simp only [List.mem_append, List.mem_cons] at hb
      simp only [List.mem_append, List.mem_singleton]
      rcases hb with hb | hb | hb
      · exact Or.inl (h.okIn hl b (memOld b (Or.inl hb)) hok hbs)
      · exact Or.inr hb
      · exact Or.inl (h.okIn hl b (memOld b (Or.inr hb)) hok hbs)
    · exact h.recvdErr
    · intro hp
      obtain ⟨h1, h2⟩ := h.count hp
      refine ⟨?_, h2⟩
      show cl.errors + (cl.chan ++ [_]).countP _ = (pre ++ _ :: post).countP finErr
      rw [cntOld] at h1
      simp only [List.countP_append, List.countP_cons, List.countP_nil]
      simp only [finErr, Option.isSome_some, Bool.true_and]
      split <;> omega
    · intro hp; rw [hp] at hc; simp [live] at hc
    · intro hl b hb hsd hbs
      show b ∈ cl.chan ++ [_] ∨ b ∈ cl.recvd
      simp only [List.mem_append, List.mem_cons] at hb
      simp only [List.mem_append, List.mem_singleton]
      rcases hb with hb | hb | hb
      · rcases h.sentIn hl b (memOld b (Or.inl hb)) hsd hbs with q | q
        · exact Or.inl (Or.inl q)
        · exact Or.inr q
      · exact Or.inl (Or.inr hb)
      · rcases h.sentIn hl b (memOld b (Or.inr hb)) hsd hbs with q | q
        · exact Or.inl (Or.inl q)
        · exact Or.inr q
    · exact h.noErrYet
  · rename_i hc
    constructor
    · intro b hb tf hbf
      simp only [List.mem_append, List.mem_cons] at hb
      rcases hb with hb | hb | hb
      · exact h.finOk b (memOld b (Or.inl hb)) tf hbf
      · subst hb; simp at hbf; subst hbf; exact ⟨hdue, Nat.le_refl _, hnv⟩
      · exact h.finOk b (memOld b (Or.inr hb)) tf hbf
    · exact h.sorted
    · intro m hm
      obtain ⟨h1, h2, h3⟩ := h.chanMem m hm
      refine ⟨?_, h2, h3⟩
      show m ∈ pre ++ _ :: post
      simp only [List.mem_append, List.mem_cons]
      rcases oldSplit m h1 h2 with q | q
      · exact Or.inl q
      · exact Or.inr (Or.inr q)
    · intro hl b hb hok hbs
      show b ∈ cl.chan
      have hl' : live cl.phase = true := hl
      simp only [List.mem_append, List.mem_cons] at hb
      rcases hb with hb | hb | hb
      · exact h.okIn hl b (memOld b (Or.inl hb)) hok hbs
      · subst hb; simp only at hok; simp [hl', hok, sendable] at hc
      · exact h.okIn hl b (memOld b (Or.inr hb)) hok hbs
    · exact h.recvdErr
    · intro hp
      have hp' : cl.phase = .latency := hp
      obtain ⟨h1, h2⟩ := h.count hp'
      refine ⟨?_, h2⟩
      show cl.errors + cl.chan.countP _ = (pre ++ _ :: post).countP finErr
      rw [cntOld] at h1
      have hne : isErr a.out = false := by
        cases ho : a.out <;> simp_all [live, sendable, isErr]
      simp only [List.countP_append, List.countP_cons]
      simp only [finErr, hne]
      simp; omega
    · intro hp
      have hp' : cl.phase = .fresh := hp
      have := (h.fresh hp').1; rw [hatt] at this; simp at this
    · intro hl b hb hsd hbs
      show b ∈ cl.chan ∨ b ∈ cl.recvd
      have hl' : live cl.phase = true := hl
      simp only [List.mem_append, List.mem_cons] at hb
      rcases hb with hb | hb | hb
      · exact h.sentIn hl b (memOld b (Or.inl hb)) hsd hbs
      · subst hb; simp only at hsd; simp [hl', hsd] at hc
      · exact h.sentIn hl b (memOld b (Or.inr hb)) hsd hbs
    · exact h.noErrYet

theorem ResInv_finMove {cfg now} {cl : Call} {pre a post} (h : ResInv cfg now cl)
    (hatt : cl.attempts = pre ++ a :: post) (hfin : a.fin = none) :
    ResInv cfg now (finMove now cl pre a post) := by
  constructor
  · rw [finMove_phase, finMove_result]; exact h.noRes
  · rw [finMove_phase, finMove_result, finMove_starts _ _ _ _ _ hatt]
    intro hp
    obtain ⟨t, r, h1, h2, h3, h4⟩ := h.res hp
    refine ⟨t, r, h1, h2, h3, ?_⟩
    (cases r <;> try exact trivial) <;> try exact h4
    · -- ok
      rename_i v
      obtain ⟨w, hw, hk, ho, tf, hwf, hd, htf, hmin⟩ := h4
      refine ⟨w, ?_, hk, ho, tf, hwf, hd, htf, ?_⟩
      · rw [finMove_attempts]
        rw [hatt] at hw
        simp only [List.mem_append, List.mem_cons] at hw ⊢
        rcases hw with q | q | q
        · exact Or.inl q
        · subst q; simp [hfin] at hwf
        · exact Or.inr (Or.inr q)
      · intro b hb hbo tb hbt
        rw [finMove_attempts] at hb
        simp only [List.mem_append, List.mem_cons] at hb
        have old : ∀ b, b ∈ pre ∨ b ∈ post → b ∈ cl.attempts := by
          intro b hb; rw [hatt]; simp only [List.mem_append, List.mem_cons]
          rcases hb with hb | hb
          · exact Or.inl hb
          · exact Or.inr (Or.inr hb)
        rcases hb with q | q | q
        · exact hmin b (old b (Or.inl q)) hbo tb hbt
        · subst q; simp at hbt; omega
        · exact hmin b (old b (Or.inr q)) hbo tb hbt
    · -- panic: every attempt had finished already
      obtain ⟨_, _, hall⟩ := h4
      obtain ⟨_, tf, htf, _⟩ := hall a (by rw [hatt]; simp)
      simp [hfin] at htf
    · -- allFailed: every attempt had finished already
      obtain ⟨⟨_, hall⟩, _⟩ := h4
      obtain ⟨tf, htf, _⟩ := hall a (by rw [hatt]; simp)
      simp [hfin] at htf

theorem CallInv_finishCall {cfg now} {cl : Call} (k c : Nat) (h : CallInv cfg now cl) :
    CallInv cfg now (finishCall now k c cl).1 := by
  rcases finishCall_cases now k c cl with he | ⟨pre, a, post, hatt, hfin, hdue, hnv, _, he⟩
  · rw [he]; exact h
  · have : (finishCall now k c cl).1 = finMove now cl pre a post := by rw [he]; rfl
    rw [this]
    exact ⟨h.st.congr (finMove_phase ..) (finMove_starts _ _ _ _ _ hatt) (finMove_nextHedgeAt ..),
           ChanInv_finMove h.ch hatt hfin hdue hnv, ResInv_finMove h.rs hatt hfin⟩

theorem finishCall_phase (now k c : Nat) (cl : Call) : (finishCall now k c cl).1.phase = cl.phase := by
  rcases finishCall_cases now k c cl with he | ⟨pre, a, post, _, _, _, _, _, he⟩
  · rw [he]
  · have : (finishCall now k c cl).1 = finMove now cl pre a post := by rw [he]; rfl
    rw [this, finMove_phase]

theorem finishCall_starts (now k c : Nat) (cl : Call) : starts (finishCall now k c cl).1 = starts cl := by
  rcases finishCall_cases now k c cl with he | ⟨pre, a, post, hatt, _, _, _, _, he⟩
  · rw [he]
  · have : (finishCall now k c cl).1 = finMove now cl pre a post := by rw [he]; rfl
    rw [this, finMove_starts _ _ _ _ _ hatt]

theorem finishCall_nextHedgeAt (now k c : Nat) (cl : Call) :
    (finishCall now k c cl).1.nextHedgeAt = cl.nextHedgeAt := by
  rcases finishCall_cases now k c cl with he | ⟨pre, a, post, _, _, _, _, _, he⟩
  · rw [he]
  · have : (finishCall now k c cl).1 = finMove now cl pre a post := by rw [he]; rfl
    rw [this, finMove_nextHedgeAt]

theorem finishCall_plan (now k c : Nat) (cl : Call) : (finishCall now k c cl).1.plan = cl.plan := by
  rcases finishCall_cases now k c cl with he | ⟨pre, a, post, _, _, _, _, _, he⟩
  · rw [he]
  · have : (finishCall now k c cl).1 = finMove now cl pre a post := by rw [he]; rfl
    rw [this, finMove_plan]

theorem finishCall_result (now k c : Nat) (cl : Call) : (finishCall now k c cl).1.result = cl.result := by
  rcases finishCall_cases now k c cl with he | ⟨pre, a, post, _, _, _, _, _, he⟩
  · rw [he]
  · have : (finishCall now k c cl).1 = finMove now cl pre a post := by rw [he]; rfl
    rw [this, finMove_result]

theorem finishCall_length (now k c : Nat) (cl : Call) :
    (finishCall now k c cl).1.attempts.length = cl.attempts.length := by
  have := congrArg List.length (finishCall_starts now k c cl)
  simpa [starts] using this

/-! ## generic transfer lemmas -/

/-- a call that is neither waiting nor fresh only needs the phase-independent clauses -/
theorem ChanInv_dead {cfg now} {cl cl' : Call} (h : ChanInv cfg now cl)
    (ha : cl'.attempts = cl.attempts) (hc : cl'.chan.Sublist cl.chan)
    (hl : live cl'.phase = false) (hf : cl'.phase ≠ .fresh) : ChanInv cfg now cl' := by
  constructor
  · rw [ha]; exact h.finOk
  · exact h.sorted.sublist hc
  · intro m hm; rw [ha]; exact h.chanMem m (hc.subset hm)
  · intro hl'; rw [hl] at hl'; cases hl'
  · intro hl'; rw [hl] at hl'; cases hl'
  · intro hp; rw [hp] at hl; simp [live] at hl
  · intro hp; exact absurd hp hf
  · intro hl'; rw [hl] at hl'; cases hl'
  · intro hp; rw [hp] at hl; simp [live] at hl

theorem StartInv_dead {cfg now} {cl cl' : Call} (h : StartInv cfg now cl)
    (hs : starts cl' = starts cl) (hl : live cl'.phase = false) : StartInv cfg now cl' := by
  constructor
  · rw [hs]; exact h.bound
  · rw [hs]; exact h.spaced
  · rw [hs]; exact h.startLe
  · intro hp; rw [hp] at hl; simp [live] at hl
  · intro hp; rw [hp] at hl; simp [live] at hl
  · rw [hs]; exact h.nev
  · intro hp; rw [hp] at hl; simp [live] at hl

theorem sendable_cases {o : Out} (h : sendable o = true) : o = .ok ∨ ∃ kd, o = .err kd := by
  cases o <;> simp [sendable] at h ⊢

/-- receiving an error message and staying in the same phase -/
theorem ChanInv_pop_err {cfg now} {cl : Call} {m : Attempt} {rest : List Attempt}
    (h : ChanInv cfg now cl) (hc : cl.chan = m :: rest) (hl : live cl.phase = true)
    (hm : isErr m.out = true) (fe : Option (Nat × Nat)) (e' : Nat)
    (he : cl.phase = .latency → e' = cl.errors + 1 ∧ e' < cfg.max)
    (hfe : cl.phase = .drain → fe ≠ none) :
    ChanInv cfg now { cl with chan := rest, recvd := cl.recvd ++ [m], firstErr := fe, errors := e' } := by
  have hsorted := h.sorted
  rw [hc] at hsorted
  constructor
  · exact h.finOk
  · exact (List.pairwise_cons.mp hsorted).2
  · intro x hx; exact h.chanMem x (by rw [hc]; exact List.mem_cons_of_mem _ hx)
  · intro _ a ha hok hs
    have := h.okIn hl a ha hok hs
    rw [hc] at this
    rcases List.mem_cons.mp this with q | q
    · subst q; rw [hok] at hm; simp [isErr] at hm
    · exact q
  · intro _ x hx
    show isErr x.out = true
    rcases List.mem_append.mp hx with q | q
    · exact h.recvdErr hl x q
    · simp at q; subst q; exact hm
  · intro hp
    obtain ⟨h1, h2⟩ := h.count hp
    obtain ⟨h3, h4⟩ := he hp
    rw [hc] at h1
    simp only [List.countP_cons, hm] at h1
    refine ⟨?_, h4⟩
    show e' + rest.countP _ = cl.attempts.countP finErr
    simp at h1; omega
  · intro hp
    have hp' : cl.phase = .fresh := hp
    rw [hp'] at hl; simp [live] at hl
  · intro _ a ha hsd hs
    show a ∈ rest ∨ a ∈ cl.recvd ++ [m]
    rcases h.sentIn hl a ha hsd hs with q | q
    · rw [hc] at q
      rcases List.mem_cons.mp q with q | q
      · subst q; exact Or.inr (by simp)
      · exact Or.inl q
    · exact Or.inr (List.mem_append_left _ q)
  · intro hp hn
    exact absurd hn (hfe hp)

/-- the first `Ok` in the channel resolves the call -/
theorem CallInv_resolve_ok {cfg now} {cl : Call} {m : Attempt} {rest : List Attempt}
    (h : CallInv cfg now cl) (hc : cl.chan = m :: rest) (hl : live cl.phase = true) (hm : m.out = .ok)
    (fe : Option (Nat × Nat)) (e' : Nat) :
    CallInv cfg now (resolve now (.ok m.k)
      { cl with chan := rest, recvd := cl.recvd ++ [m], firstErr := fe, errors := e' }) := by
  refine ⟨StartInv_dead h.st rfl rfl, ChanInv_dead h.ch rfl ?_ rfl (by simp [resolve]), ?_⟩
  · show rest.Sublist cl.chan
    rw [hc]; exact List.sublist_cons_self _ _
  · constructor
    · intro hp; simp [resolve] at hp
    · intro _
      obtain ⟨hma, hms, _⟩ := h.ch.chanMem m (by rw [hc]; simp)
      obtain ⟨tf, htf⟩ := Option.isSome_iff_exists.mp hms
      obtain ⟨hd, hle, _⟩ := h.ch.finOk m hma tf htf
      refine ⟨now, .ok m.k, rfl, Nat.le_refl _, h.st.startLe, m, hma, rfl, hm, tf, htf, hd, hle, ?_⟩
      intro b hb hbo tb hbt
      have hbc := h.ch.okIn hl b hb hbo (by simp [hbt])
      rw [hc] at hbc
      rcases List.mem_cons.mp hbc with q | q
      · subst q; rw [htf] at hbt; cases hbt; exact Nat.le_refl _
      · have hs := h.ch.sorted
        rw [hc] at hs
        have := (List.pairwise_cons.mp hs).1 b q
        simpa [finT, htf, hbt] using this

theorem length_eq_starts (cl : Call) : cl.attempts.length = (starts cl).length := by simp [starts]

/-- latency mode: the `max`-th error received means every attempt was started and has failed -/
theorem CallInv_resolve_allFailed_lat {cfg now} {cl : Call} {m : Attempt} {rest : List Attempt}
    (h : CallInv cfg now cl) (hc : cl.chan = m :: rest) (hp : cl.phase = .latency)
    (hm : isErr m.out = true) (hmax : cfg.max ≤ cl.errors + 1) (fe : Option (Nat × Nat)) (x y : Nat) :
    CallInv cfg now (resolve now (.allFailed x y)
      { cl with chan := rest, recvd := cl.recvd ++ [m], firstErr := fe, errors := cl.errors + 1 }) := by
  refine ⟨StartInv_dead h.st rfl rfl, ChanInv_dead h.ch rfl ?_ rfl (by simp [resolve]), ?_⟩
  · show rest.Sublist cl.chan
    rw [hc]; exact List.sublist_cons_self _ _
  · constructor
    · intro hq; simp [resolve] at hq
    · intro _
      obtain ⟨h1, _⟩ := h.ch.count hp
      rw [hc] at h1
      simp only [List.countP_cons, hm] at h1
      have hle : cl.attempts.countP finErr ≤ cl.attempts.length := List.countP_le_length
      have hb := h.st.bound
      rw [← length_eq_starts] at hb
      have heq : cl.attempts.countP finErr = cl.attempts.length := by simp at h1; omega
      have hall := List.countP_eq_length.mp heq
      refine ⟨now, .allFailed x y, rfl, Nat.le_refl _, h.st.startLe, ⟨?_, ?_⟩, ?_⟩
      · show cl.attempts.length = cfg.max
        simp at h1; omega
      · intro a ha
        have hfe := hall a ha
        simp only [finErr, Bool.and_eq_true] at hfe
        obtain ⟨tf, htf⟩ := Option.isSome_iff_exists.mp hfe.1
        refine ⟨tf, htf, (h.ch.finOk a ha tf htf).2.1, ?_⟩
        cases ho : a.out <;> simp [ho, isErr] at hfe <;> simp [isFail]
      · intro _ _ a ha
        have hfe := hall a ha
        simp only [finErr, Bool.and_eq_true] at hfe
        exact hfe.2

theorem recvLat_inv (cfg : Cfg) (now c : Nat) : ∀ (msgs : List Attempt) (cl : Call),
    cl.chan = msgs → cl.phase = .latency → CallInv cfg now cl →
    CallInv cfg now (recvLat cfg now c msgs cl).1 ∧
      ((recvLat cfg now c msgs cl).1.phase = .latency ∨ (recvLat cfg now c msgs cl).1.phase = .done) := by
  intro msgs
  induction msgs with
  | nil => intro cl _ hp h; exact ⟨h, Or.inl hp⟩
  | cons m rest ih =>
    intro cl hc hp h
    have hl : live cl.phase = true := by rw [hp]; rfl
    obtain ⟨_, _, hsend⟩ := h.ch.chanMem m (by rw [hc]; simp)
    unfold recvLat
    split
    · rename_i hok
      exact ⟨CallInv_resolve_ok h hc hl hok _ _, Or.inr rfl⟩
    · rename_i kd herr
      have hm : isErr m.out = true := by rw [herr]; rfl
      split
      · rename_i hmax
        exact ⟨CallInv_resolve_allFailed_lat h hc hp hm hmax _ _ _, Or.inr rfl⟩
      · rename_i hmax
        refine ih _ rfl hp ?_
        · refine ⟨h.st.congr rfl rfl rfl, ChanInv_pop_err h.ch hc hl hm _ _ ?_ ?_, ⟨h.rs.noRes, h.rs.res⟩⟩
          · intro _; exact ⟨rfl, by omega⟩
          · intro hq
            have hq' : cl.phase = .drain := hq
            rw [hp] at hq'; cases hq'
    · rename_i h1 h2
      rcases sendable_cases hsend with q | ⟨kd, q⟩
      · exact absurd q h1
      · exact absurd q (h2 kd)

/-- drain phase: channel empty and closed means every attempt has ended without success -/
theorem CallInv_resolve_closed {cfg now} {cl : Call} (h : CallInv cfg now cl) (hp : cl.phase = .drain)
    (hc : cl.chan = []) (hall : cl.attempts.all (fun a => a.fin.isSome) = true) (r : Res)
    (hr : (∃ x y, r = .allFailed x y) ∨ (r = .panic ∧ cl.firstErr = none)) :
    CallInv cfg now (resolve now r cl) := by
  have hl : live cl.phase = true := by rw [hp]; rfl
  refine ⟨StartInv_dead h.st rfl rfl, ChanInv_dead h.ch rfl (List.Sublist.refl _) rfl (by simp [resolve]), ?_⟩
  constructor
  · intro hq; simp [resolve] at hq
  · intro _
    refine ⟨now, r, rfl, Nat.le_refl _, h.st.startLe, ?_⟩
    rcases hr with ⟨x, y, hr⟩ | hr
    · subst hr
      refine ⟨⟨?_, ?_⟩, ?_⟩
      · show cl.attempts.length = cfg.max
        rw [length_eq_starts]; exact h.st.drain hp
      · intro a ha
        have hs : a.fin.isSome = true := (List.all_eq_true.mp hall) a ha
        obtain ⟨tf, htf⟩ := Option.isSome_iff_exists.mp hs
        obtain ⟨_, hle, hnv⟩ := h.ch.finOk a ha tf htf
        refine ⟨tf, htf, hle, ?_⟩
        cases ho : a.out with
        | ok => have := h.ch.okIn hl a ha ho hs; rw [hc] at this; cases this
        | err kd => rfl
        | panic => rfl
        | never => exact absurd ho hnv
      · intro h1 h2; exact absurd ⟨h1, h2⟩ (h.st.drainMode hp)
    · obtain ⟨hr, hfe⟩ := hr
      subst hr
      have hrecv : cl.recvd = [] := h.ch.noErrYet hp hfe
      refine ⟨h.st.drainMode hp, ?_, ?_⟩
      · show cl.attempts.length = cfg.max
        rw [length_eq_starts]; exact h.st.drain hp
      · intro a ha
        have hs : a.fin.isSome = true := (List.all_eq_true.mp hall) a ha
        obtain ⟨tf, htf⟩ := Option.isSome_iff_exists.mp hs
        obtain ⟨_, hle, hnv⟩ := h.ch.finOk a ha tf htf
        refine ⟨?_, tf, htf, hle⟩
        -- an attempt that sends a message would still be queued or have been received: neither
        have hns : sendable a.out = false := by
          cases hsd : sendable a.out with
          | false => rfl
          | true =>
            rcases h.ch.sentIn hl a ha hsd hs with q | q
            · rw [hc] at q; cases q
            · rw [hrecv] at q; cases q
        cases ho : a.out with
        | ok => rw [ho] at hns; cases hns
        | err kd => rw [ho] at hns; cases hns
        | panic => rfl
        | never => exact absurd ho hnv

theorem recvDrain_inv (cfg : Cfg) (now c : Nat) : ∀ (msgs : List Attempt) (cl : Call),
    cl.chan = msgs → cl.phase = .drain → CallInv cfg now cl →
    CallInv cfg now (recvDrain now c msgs cl).1 := by
  intro msgs
  induction msgs with
  | nil =>
    intro cl hc hp h
    unfold recvDrain
    split
    · rename_i hall
      split
      · exact CallInv_resolve_closed h hp hc hall _ (Or.inl ⟨_, _, rfl⟩)
      · rename_i hfe
        exact CallInv_resolve_closed h hp hc hall _ (Or.inr ⟨rfl, hfe⟩)
    · exact h
  | cons m rest ih =>
    intro cl hc hp h
    have hl : live cl.phase = true := by rw [hp]; rfl
    obtain ⟨_, _, hsend⟩ := h.ch.chanMem m (by rw [hc]; simp)
    unfold recvDrain
    split
    · rename_i hok
      exact CallInv_resolve_ok h hc hl hok _ _
    · rename_i kd herr
      have hm : isErr m.out = true := by rw [herr]; rfl
      refine ih _ rfl hp ?_
      refine ⟨h.st.congr rfl rfl rfl, ChanInv_pop_err h.ch hc hl hm _ _ ?_ ?_, ⟨h.rs.noRes, h.rs.res⟩⟩
      · intro hq
        have hq' : cl.phase = .latency := hq
        rw [hp] at hq'; cases hq'
      · intro _
        unfold firstErrOf
        split <;> simp
    · rename_i h1 h2
      rcases sendable_cases hsend with q | ⟨kd, q⟩
      · exact absurd q h1
      · exact absurd q (h2 kd)

theorem ChanInv_finishCall {cfg now} {cl : Call} (k c : Nat) (h : ChanInv cfg now cl) :
    ChanInv cfg now (finishCall now k c cl).1 := by
  rcases finishCall_cases now k c cl with he | ⟨pre, a, post, hatt, hfin, hdue, hnv, _, he⟩
  · rw [he]; exact h
  · have : (finishCall now k c cl).1 = finMove now cl pre a post := by rw [he]; rfl
    rw [this]; exact ChanInv_finMove h hatt hfin hdue hnv

theorem ResInv_finishCall {cfg now} {cl : Call} (k c : Nat) (h : ResInv cfg now cl) :
    ResInv cfg now (finishCall now k c cl).1 := by
  rcases finishCall_cases now k c cl with he | ⟨pre, a, post, hatt, hfin, _, _, _, he⟩
  · rw [he]; exact h
  · have : (finishCall now k c cl).1 = finMove now cl pre a post := by rw [he]; rfl
    rw [this]; exact ResInv_finMove h hatt hfin

/-! ## starting attempts -/

def callOf (c : Nat) : Ev → Option Nat
  | .innerCall c' k => if c' = c then some k else none
  | _ => none

/-- serials of the `inner_call c _` events of a log, in order -/
def callsOf (c : Nat) (log : List Ev) : List Nat := log.filterMap (callOf c)


theorem ChanInv_push {cfg now} {cl : Call} {a : Attempt} (h : ChanInv cfg now cl)
    (hp : cl.phase ≠ .fresh) (ha : a.fin = none) :
    ChanInv cfg now { cl with attempts := a :: cl.attempts } := by
  have hfe : finErr a = false := by simp [finErr, ha]
  constructor
  · intro b hb tf hbf
    rcases List.mem_cons.mp hb with q | q
    · subst q; rw [ha] at hbf; cases hbf
    · exact h.finOk b q tf hbf
  · exact h.sorted
  · intro m hm
    obtain ⟨h1, h2, h3⟩ := h.chanMem m hm
    exact ⟨List.mem_cons_of_mem _ h1, h2, h3⟩
  · intro hl b hb hok hs
    rcases List.mem_cons.mp hb with q | q
    · subst q; rw [ha] at hs; cases hs
    · exact h.okIn hl b q hok hs
  · exact h.recvdErr
  · intro hq
    obtain ⟨h1, h2⟩ := h.count hq
    refine ⟨?_, h2⟩
    show cl.errors + cl.chan.countP _ = (a :: cl.attempts).countP finErr
    simp [hfe]; exact h1
  · intro hq; exact absurd hq hp
  · intro hl b hb hsd hs
    rcases List.mem_cons.mp hb with q | q
    · subst q; rw [ha] at hs; cases hs
    · exact h.sentIn hl b q hsd hs
  · exact h.noErrYet

theorem ResInv_push {cfg now} {cl : Call} {a : Attempt} (h : ResInv cfg now cl) (hp : cl.phase ≠ .done) :
    ResInv cfg now { cl with attempts := a :: cl.attempts } :=
  ⟨h.noRes, fun hq => absurd hq hp⟩

theorem callAttempt_cl (now c : Nat) (w : W) :
    (callAttempt now c w).cl =
      if (w.cl.plan.getD (nCalled w.cl) ⟨0, .ok⟩).lat = 0
      then (finishCall now w.serial c (pushAttempt now w).cl).1 else (pushAttempt now w).cl := by
  unfold callAttempt
  split <;> simp_all

theorem callAttempt_spec {cfg now} (c : Nat) {w : W} (h1 : ChanInv cfg now w.cl) (h2 : ResInv cfg now w.cl)
    (hl : live w.cl.phase = true) :
    ChanInv cfg now (callAttempt now c w).cl ∧ ResInv cfg now (callAttempt now c w).cl ∧
    (callAttempt now c w).cl.phase = w.cl.phase ∧
    starts (callAttempt now c w).cl = now :: starts w.cl ∧
    (callAttempt now c w).cl.nextHedgeAt = w.cl.nextHedgeAt ∧
    (callAttempt now c w).cl.plan = w.cl.plan := by
  have hnf : w.cl.phase ≠ .fresh := by intro hq; rw [hq] at hl; cases hl
  have hnd : w.cl.phase ≠ .done := by intro hq; rw [hq] at hl; cases hl
  have p1 : ChanInv cfg now (pushAttempt now w).cl := ChanInv_push h1 hnf rfl
  have p2 : ResInv cfg now (pushAttempt now w).cl := ResInv_push h2 hnd
  have p3 : (pushAttempt now w).cl.phase = w.cl.phase := rfl
  have p4 : starts (pushAttempt now w).cl = now :: starts w.cl := rfl
  have p5 : (pushAttempt now w).cl.nextHedgeAt = w.cl.nextHedgeAt := rfl
  have p6 : (pushAttempt now w).cl.plan = w.cl.plan := rfl
  rw [callAttempt_cl]
  split
  · exact ⟨ChanInv_finishCall _ _ p1, ResInv_finishCall _ _ p2, by rw [finishCall_phase, p3],
      by rw [finishCall_starts, p4], by rw [finishCall_nextHedgeAt, p5], by rw [finishCall_plan, p6]⟩
  · exact ⟨p1, p2, p3, p4, p5, p6⟩

theorem pushWaiting_spec {cfg now} (wt : Wait) {w : W} (h1 : ChanInv cfg now w.cl) (h2 : ResInv cfg now w.cl)
    (hl : live w.cl.phase = true) :
    ChanInv cfg now (pushWaiting now wt w).cl ∧ ResInv cfg now (pushWaiting now wt w).cl ∧
    (pushWaiting now wt w).cl.phase = w.cl.phase ∧
    starts (pushWaiting now wt w).cl = now :: starts w.cl ∧
    (pushWaiting now wt w).cl.nextHedgeAt = w.cl.nextHedgeAt ∧
    (pushWaiting now wt w).cl.plan = w.cl.plan := by
  have hnf : w.cl.phase ≠ .fresh := by intro hq; rw [hq] at hl; cases hl
  have hnd : w.cl.phase ≠ .done := by intro hq; rw [hq] at hl; cases hl
  exact ⟨ChanInv_push h1 hnf rfl, ResInv_push h2 hnd, rfl, rfl, rfl, rfl⟩

/-- a readiness failure is "push an unfinished attempt, then complete it with its error" -/
theorem failAttempt_cl (now : Nat) (w : W) :
    (failAttempt now w).cl =
      finMove now { w.cl with attempts := failedAttempt now w.cl.attempts.length :: w.cl.attempts } []
        (failedAttempt now w.cl.attempts.length) w.cl.attempts := rfl

theorem failAttempt_spec {cfg now} {w : W} (h1 : ChanInv cfg now w.cl) (h2 : ResInv cfg now w.cl)
    (hl : live w.cl.phase = true) :
    ChanInv cfg now (failAttempt now w).cl ∧ ResInv cfg now (failAttempt now w).cl ∧
    (failAttempt now w).cl.phase = w.cl.phase ∧
    starts (failAttempt now w).cl = now :: starts w.cl ∧
    (failAttempt now w).cl.nextHedgeAt = w.cl.nextHedgeAt ∧
    (failAttempt now w).cl.plan = w.cl.plan := by
  have hnf : w.cl.phase ≠ .fresh := by intro hq; rw [hq] at hl; cases hl
  have hnd : w.cl.phase ≠ .done := by intro hq; rw [hq] at hl; cases hl
  have p1 : ChanInv cfg now { w.cl with attempts := failedAttempt now w.cl.attempts.length :: w.cl.attempts } :=
    ChanInv_push h1 hnf rfl
  have p2 : ResInv cfg now { w.cl with attempts := failedAttempt now w.cl.attempts.length :: w.cl.attempts } :=
    ResInv_push h2 hnd
  rw [failAttempt_cl]
  refine ⟨ChanInv_finMove p1 rfl rfl (Nat.le_refl _) (by simp [failedAttempt]), ResInv_finMove p2 rfl rfl,
    by rw [finMove_phase], ?_, by rw [finMove_nextHedgeAt], by rw [finMove_plan]⟩
  rw [finMove_starts _ _ _ _ _ rfl]
  rfl

/-- the shapes of starting an attempt: called at once (after an optional readiness event), waiting, or over at once
because its clone failed the readiness poll -/
theorem startAttempt_cases (now c : Nat) (w : W) :
    (∃ evs, startAttempt now c w = callAttempt now c { w with evs := w.evs ++ evs } ∧
        ∀ c', callsOf c' evs = []) ∨
    (∃ wt e, wt ≠ Wait.no ∧
        startAttempt now c w = pushWaiting now wt { w with evs := w.evs ++ [Ev.raw e] }) ∨
    (∃ e, startAttempt now c w = failAttempt now { w with evs := w.evs ++ [Ev.raw e] }) := by
  unfold startAttempt
  split
  · left; exact ⟨[], by simp, fun _ => rfl⟩
  · rename_i d _
    split
    · left; exact ⟨[warmEv c w.cl.attempts.length (.after d)], rfl, fun _ => rfl⟩
    · right; left; exact ⟨.till (now + d), _, by simp, rfl⟩
  · right; left; exact ⟨.forever, _, by simp, rfl⟩
  · right; right; exact ⟨_, rfl⟩

theorem startAttempt_spec {cfg now} (c : Nat) {w : W} (h1 : ChanInv cfg now w.cl) (h2 : ResInv cfg now w.cl)
    (hl : live w.cl.phase = true) :
    ChanInv cfg now (startAttempt now c w).cl ∧ ResInv cfg now (startAttempt now c w).cl ∧
    (startAttempt now c w).cl.phase = w.cl.phase ∧
    starts (startAttempt now c w).cl = now :: starts w.cl ∧
    (startAttempt now c w).cl.nextHedgeAt = w.cl.nextHedgeAt ∧
    (startAttempt now c w).cl.plan = w.cl.plan := by
  rcases startAttempt_cases now c w with ⟨evs, he, _⟩ | ⟨wt, e, _, he⟩ | ⟨e, he⟩
  · rw [he]; exact callAttempt_spec (cfg := cfg) c (w := { w with evs := w.evs ++ evs }) h1 h2 hl
  · rw [he]; exact pushWaiting_spec (cfg := cfg) wt (w := { w with evs := w.evs ++ [Ev.raw e] }) h1 h2 hl
  · rw [he]; exact failAttempt_spec (cfg := cfg) (w := { w with evs := w.evs ++ [Ev.raw e] }) h1 h2 hl

theorem SpacedT_const (cfg : Cfg) (now : Nat) : ∀ l : List Nat, (∀ t ∈ l, t = now) →
    (cfg.delay 1 = 0 ∨ l.length ≤ 1) → SpacedT cfg l
  | [], _, _ => trivial
  | [_], _, _ => trivial
  | b :: a :: tl, hall, hc => by
    have hd : cfg.delay 1 = 0 := by
      rcases hc with q | q
      · exact q
      · simp at q
    refine ⟨?_, SpacedT_const cfg now (a :: tl) (fun t ht => hall t (List.mem_cons_of_mem _ ht)) (Or.inl hd)⟩
    rw [if_pos hd, hall b (by simp), hall a (by simp)]

theorem spawnLat_inv (cfg : Cfg) (now c : Nat) : ∀ (fuel : Nat) (w : W),
    CallInv cfg now w.cl → w.cl.phase = .latency →
    CallInv cfg now (spawnLat cfg now c fuel w).cl ∧ (spawnLat cfg now c fuel w).cl.phase = .latency := by
  intro fuel
  induction fuel with
  | zero => intro w h hp; exact ⟨h, hp⟩
  | succ fuel ih =>
    intro w h hp
    unfold spawnLat
    split
    · rename_i hg
      have hl : live w.cl.phase = true := by rw [hp]; rfl
      obtain ⟨q1, q2, q3, q4, q5, _⟩ := startAttempt_spec (cfg := cfg) c h.ch h.rs hl
      obtain ⟨hd, t, tl, hst, hnh⟩ := h.st.lat hp
      have hlen : w.cl.attempts.length = tl.length + 1 := by rw [length_eq_starts, hst]; rfl
      have hn : (startAttempt now c w).cl.attempts.length = tl.length + 2 := by
        rw [length_eq_starts, q4, hst]; rfl
      have hdue : t * 1000 + cfg.delay (tl.length + 1) ≤ now * 1000 := by
        have := hnh (by omega)
        have := delay_le_timer cfg (tl.length + 1)
        omega
      have hsp : SpacedT cfg (now :: t :: tl) := by
        refine ⟨?_, by rw [← hst]; exact h.st.spaced⟩
        rw [if_neg hd]; exact hdue
      have hle : ∀ x ∈ now :: t :: tl, x ≤ now := by
        intro x hx
        rcases List.mem_cons.mp hx with q | q
        · omega
        · exact h.st.startLe x (by rw [hst]; exact q)
      have hnev : 1 < cfg.max → cfg.delay 1 ≠ 0 → ∀ n, 1 ≤ n → cfg.never n = true →
          (now :: t :: tl).length ≤ n := by
        intro h1 h2 n hn1 hnv
        have hold := h.st.nev h1 h2 n hn1 hnv
        rw [hst] at hold
        have hne : n ≠ tl.length + 1 := by
          intro he; subst he
          have hf := hg.2.2
          rw [hlen, hnv] at hf; cases hf
        simp only [List.length_cons] at hold ⊢; omega
      apply ih
      · split
        · refine ⟨?_, ⟨q1.finOk, q1.sorted, q1.chanMem, q1.okIn, q1.recvdErr, q1.count, q1.fresh, q1.sentIn,
            q1.noErrYet⟩, ⟨q2.noRes, q2.res⟩⟩
          constructor
          · show (starts (startAttempt now c w).cl).length ≤ cfg.max
            rw [q4, hst]; simp; omega
          · show SpacedT cfg (starts (startAttempt now c w).cl)
            rw [q4, hst]; exact hsp
          · show ∀ x ∈ starts (startAttempt now c w).cl, x ≤ now
            rw [q4, hst]; exact hle
          · intro _
            refine ⟨hd, now, t :: tl, by show starts (startAttempt now c w).cl = _; rw [q4, hst], ?_⟩
            intro _
            show now + timerMs cfg (startAttempt now c w).cl.attempts.length = now + timerMs cfg ((t :: tl).length + 1)
            rw [hn]; rfl
          · intro hq
            have hq' : (startAttempt now c w).cl.phase = .drain := hq
            rw [q3, hp] at hq'; cases hq'
          · show 1 < cfg.max → cfg.delay 1 ≠ 0 → ∀ n, 1 ≤ n → cfg.never n = true →
              (starts (startAttempt now c w).cl).length ≤ n
            rw [q4, hst]; exact hnev
          · intro hq
            have hq' : (startAttempt now c w).cl.phase = .drain := hq
            rw [q3, hp] at hq'; cases hq'
        · rename_i hnm
          refine ⟨?_, q1, q2⟩
          constructor
          · rw [q4, hst]; simp; omega
          · rw [q4, hst]; exact hsp
          · rw [q4, hst]; exact hle
          · intro _
            refine ⟨hd, now, t :: tl, by rw [q4, hst], ?_⟩
            intro hlt
            exfalso; apply hnm; rw [hn]; simpa using hlt
          · intro hq; rw [q3, hp] at hq; cases hq
          · rw [q4, hst]; exact hnev
          · intro hq; rw [q3, hp] at hq; cases hq
      · split
        · show (startAttempt now c w).cl.phase = .latency
          rw [q3, hp]
        · rw [q3, hp]
    · exact ⟨h, hp⟩

theorem startN_spec {cfg now} (c : Nat) : ∀ (n : Nat) (w : W), ChanInv cfg now w.cl → ResInv cfg now w.cl →
    live w.cl.phase = true →
    ChanInv cfg now (startN now c n w).cl ∧ ResInv cfg now (startN now c n w).cl ∧
    (startN now c n w).cl.phase = w.cl.phase ∧
    starts (startN now c n w).cl = List.replicate n now ++ starts w.cl := by
  intro n
  induction n with
  | zero => intro w h1 h2 _; exact ⟨h1, h2, rfl, by simp [startN]⟩
  | succ n ih =>
    intro w h1 h2 hl
    obtain ⟨q1, q2, q3, q4, _, _⟩ := startAttempt_spec (cfg := cfg) c h1 h2 hl
    obtain ⟨r1, r2, r3, r4⟩ := ih (startAttempt now c w) q1 q2 (by rw [q3]; exact hl)
    unfold startN
    refine ⟨r1, r2, by rw [r3, q3], ?_⟩
    rw [r4, q4, List.replicate_succ']
    simp

theorem pollFresh_inv {cfg : Cfg} {now : Nat} (c : Nat) {w : W} (hmax : 1 ≤ cfg.max)
    (h : CallInv cfg now w.cl) (hp : w.cl.phase = .fresh) : CallInv cfg now (pollFresh cfg now c w).cl := by
  obtain ⟨ha, hc, he, hr⟩ := h.ch.fresh hp
  have hres : w.cl.result = none := h.rs.noRes (by rw [hp]; simp)
  have hst : starts w.cl = [] := by simp [starts, ha]
  unfold pollFresh
  split
  · rename_i hg
    have c0 : ChanInv cfg now { w.cl with phase := .latency, nextHedgeAt := now + timerMs cfg 1 } := by
      constructor
      · intro a hx; rw [ha] at hx; cases hx
      · show w.cl.chan.Pairwise _; rw [hc]; exact List.Pairwise.nil
      · intro m hm; rw [hc] at hm; cases hm
      · intro _ a hx; rw [ha] at hx; cases hx
      · intro _ m hm; rw [hr] at hm; cases hm
      · intro _
        show w.cl.errors + w.cl.chan.countP _ = w.cl.attempts.countP finErr ∧ w.cl.errors < cfg.max
        rw [ha, hc, he]; simp; omega
      · intro hq; cases hq
      · intro _ a hx; rw [ha] at hx; cases hx
      · intro hq; cases hq
    have r0 : ResInv cfg now { w.cl with phase := .latency, nextHedgeAt := now + timerMs cfg 1 } :=
      ⟨fun _ => hres, fun hq => by cases hq⟩
    obtain ⟨q1, q2, q3, q4, q5, _⟩ :=
      startAttempt_spec (cfg := cfg) c
        (w := { w with cl := { w.cl with phase := .latency, nextHedgeAt := now + timerMs cfg 1 } }) c0 r0 rfl
    have q4' : starts (startAttempt now c
        { w with cl := { w.cl with phase := .latency, nextHedgeAt := now + timerMs cfg 1 } }).cl = [now] := by
      rw [q4]; show now :: starts w.cl = [now]; rw [hst]
    refine ⟨?_, q1, q2⟩
    constructor
    · rw [q4']; simpa using hmax
    · rw [q4']; trivial
    · rw [q4']; intro x hx; simp at hx; omega
    · intro _
      refine ⟨hg.2, now, [], q4', ?_⟩
      intro _; rw [q5]; rfl
    · intro hq; rw [q3] at hq; cases hq
    · rw [q4']; intro _ _ n hn1 _; simpa using hn1
    · intro hq; rw [q3] at hq; cases hq
  · rename_i hg
    have c0 : ChanInv cfg now { w.cl with phase := .drain } := by
      constructor
      · intro a hx; rw [ha] at hx; cases hx
      · show w.cl.chan.Pairwise _; rw [hc]; exact List.Pairwise.nil
      · intro m hm; rw [hc] at hm; cases hm
      · intro _ a hx; rw [ha] at hx; cases hx
      · intro _ m hm; rw [hr] at hm; cases hm
      · intro hq; cases hq
      · intro hq; cases hq
      · intro _ a hx; rw [ha] at hx; cases hx
      · intro _ _; exact hr
    have r0 : ResInv cfg now { w.cl with phase := .drain } :=
      ⟨fun _ => hres, fun hq => by cases hq⟩
    obtain ⟨q1, q2, q3, q4, _, _⟩ :=
      startAttempt_spec (cfg := cfg) c (w := { w with cl := { w.cl with phase := .drain } }) c0 r0 rfl
    obtain ⟨r1, r2, r3, r4⟩ := startN_spec (cfg := cfg) c (cfg.max - 1) _ q1 q2 (by rw [q3]; rfl)
    have r4' : starts (startN now c (cfg.max - 1)
        (startAttempt now c { w with cl := { w.cl with phase := .drain } })).cl
          = List.replicate cfg.max now := by
      rw [r4, q4]; show _ ++ now :: starts w.cl = _; rw [hst]
      have : cfg.max = (cfg.max - 1) + 1 := by omega
      conv => rhs; rw [this, List.replicate_succ']
    refine ⟨?_, r1, r2⟩
    constructor
    · rw [r4']; simp
    · rw [r4']
      apply SpacedT_const cfg now
      · intro t ht; exact (List.mem_replicate.mp ht).2
      · simp only [List.length_replicate]
        by_cases hd : cfg.delay 1 = 0
        · exact Or.inl hd
        · right; by_cases hm : 1 < cfg.max
          · exact absurd ⟨hm, hd⟩ hg
          · omega
    · rw [r4']; intro t ht; rw [(List.mem_replicate.mp ht).2]; exact Nat.le_refl _
    · intro hq; rw [r3, q3] at hq; cases hq
    · intro _; rw [r4']; simp
    · intro h1 h2; exact absurd ⟨h1, h2⟩ hg
    · intro _; exact hg

/-! ## one poll, one drop, time -/

theorem pollCall_inv {cfg : Cfg} {now : Nat} (c : Nat) {w : W} (hmax : 1 ≤ cfg.max)
    (h : CallInv cfg now w.cl) : CallInv cfg now (pollCall cfg now c w).cl := by
  unfold pollCall
  split
  · rename_i hp; exact pollFresh_inv c hmax h hp
  · rename_i hp
    unfold pollLatency
    obtain ⟨h1, h2⟩ := recvLat_inv cfg now c w.cl.chan w.cl rfl hp h
    dsimp only
    split
    · rename_i hq
      exact (spawnLat_inv cfg now c cfg.max
        { w with cl := (recvLat cfg now c w.cl.chan w.cl).1, evs := w.evs ++ (recvLat cfg now c w.cl.chan w.cl).2 }
        h1 hq).1
    · exact h1
  · rename_i hp
    exact recvDrain_inv cfg now c w.cl.chan w.cl rfl hp h
  · exact h

theorem dropCall_inv {cfg : Cfg} {now : Nat} {cl : Call} (h : CallInv cfg now cl) :
    CallInv cfg now (dropCall cl) := by
  unfold dropCall
  split
  · exact h
  · rename_i hnd
    refine ⟨StartInv_dead h.st rfl rfl, ChanInv_dead h.ch rfl (List.Sublist.refl _) rfl (by simp), ?_⟩
    exact ⟨fun _ => h.rs.noRes hnd, fun hq => by cases hq⟩

theorem CallInv.mono {cfg : Cfg} {now now' : Nat} {cl : Call} (h : CallInv cfg now cl) (hle : now ≤ now') :
    CallInv cfg now' cl := by
  refine ⟨⟨h.st.bound, h.st.spaced, fun t ht => Nat.le_trans (h.st.startLe t ht) hle, h.st.lat, h.st.drain, h.st.nev,
      h.st.drainMode⟩,
    ⟨?_, h.ch.sorted, h.ch.chanMem, h.ch.okIn, h.ch.recvdErr, h.ch.count, h.ch.fresh, h.ch.sentIn, h.ch.noErrYet⟩,
    ⟨h.rs.noRes, ?_⟩⟩
  · intro a ha tf htf
    obtain ⟨q1, q2, q3⟩ := h.ch.finOk a ha tf htf
    exact ⟨q1, Nat.le_trans q2 hle, q3⟩
  · intro hp
    obtain ⟨t, r, q1, q2, q3, q4⟩ := h.rs.res hp
    exact ⟨t, r, q1, Nat.le_trans q2 hle, q3, q4⟩

theorem CallInv_new (cfg : Cfg) (now : Nat) (plan : List Step) (warm : List Ready) :
    CallInv cfg now { plan := plan, warm := warm } := by
  refine ⟨⟨Nat.zero_le _, trivial, ?_, ?_, ?_, fun _ _ n _ _ => Nat.zero_le n, (fun hq => nomatch hq)⟩,
    ⟨?_, List.Pairwise.nil, ?_, ?_, ?_, ?_, ?_, (fun _ a ha => nomatch ha), (fun hq => nomatch hq)⟩, ⟨fun _ => rfl, ?_⟩⟩
  · intro t ht; cases ht
  · intro hq; cases hq
  · intro hq; cases hq
  · intro a ha; cases ha
  · intro m hm; cases hm
  · intro hq; cases hq
  · intro hq; cases hq
  · intro hq; cases hq
  · intro _; exact ⟨rfl, rfl, rfl, rfl⟩
  · intro hq; cases hq

/-! ## all requests of a reachable state -/

def Inv (cfg : Cfg) (s : State) : Prop := ∀ p ∈ s.calls, CallInv cfg s.now p.2

theorem lookup_mem {α : Type} {l : List (Nat × α)} {c : Nat} {v : α} (h : lookup l c = some v) :
    ∃ c', (c', v) ∈ l := by
  induction l with
  | nil => simp [lookup] at h
  | cons p tl ih =>
    obtain ⟨k, x⟩ := p
    unfold lookup at h
    split at h
    · cases h; exact ⟨k, by simp⟩
    · obtain ⟨c', hc⟩ := ih h; exact ⟨c', List.mem_cons_of_mem _ hc⟩

theorem Inv_setCall {cfg : Cfg} {s : State} {c : Nat} {v : Call} (h : Inv cfg s) (hv : CallInv cfg s.now v)
    (calls' : List (Nat × Call)) (hc : calls' = setCall s.calls c v) (s' : State)
    (hs : s'.calls = calls') (hn : s'.now = s.now) : Inv cfg s' := by
  intro p hp
  rw [hs, hc] at hp
  rw [hn]
  unfold setCall at hp
  obtain ⟨q, hq, rfl⟩ := List.mem_map.mp hp
  split
  · exact hv
  · exact h q hq

theorem pollS_inv {cfg : Cfg} {s : State} (c : Nat) (hmax : 1 ≤ cfg.max) (h : Inv cfg s) :
    Inv cfg (pollS cfg s c) := by
  unfold pollS
  split
  · exact h
  · rename_i cl hl
    obtain ⟨c', hm⟩ := lookup_mem hl
    exact Inv_setCall h (pollCall_inv c hmax (h _ hm)) _ rfl _ rfl rfl

theorem dropS_inv {cfg : Cfg} {s : State} (c : Nat) (h : Inv cfg s) : Inv cfg (dropS s c) := by
  unfold dropS
  split
  · exact h
  · rename_i cl hl
    obtain ⟨c', hm⟩ := lookup_mem hl
    exact Inv_setCall h (dropCall_inv (h _ hm)) _ rfl _ rfl rfl

theorem finishOne_now (s : State) (k : Nat) : (finishOne s k).now = s.now := rfl

theorem finishOne_inv {cfg : Cfg} {s : State} (k : Nat) (h : Inv cfg s) : Inv cfg (finishOne s k) := by
  intro p hp
  rw [finishOne_now]
  obtain ⟨q, hq, rfl⟩ := List.mem_map.mp hp
  have hq' := h q hq
  exact ⟨hq'.st.congr (finishCall_phase ..) (finishCall_starts ..) (finishCall_nextHedgeAt ..),
    ChanInv_finishCall _ _ hq'.ch, ResInv_finishCall _ _ hq'.rs⟩

/-! ## a waiting attempt calls the inner service -/

theorem markCall_some {now i k : Nat} {st : Step} {l l' : List Attempt} (h : markCall now i k st l = some l') :
    ∃ pre a post, l = pre ++ a :: post ∧ a.fin = none ∧ a.wait ≠ .no ∧
      l' = pre ++ a.call now k st :: post := by
  induction l generalizing l' with
  | nil => simp [markCall] at h
  | cons x tl ih =>
    unfold markCall at h
    split at h
    · rename_i hc
      simp only [Option.some.injEq] at h
      refine ⟨[], x, tl, rfl, hc.2.2, ?_, by simp [← h]⟩
      intro hw; rw [hw] at hc; simp [readyBy] at hc
    · split at h
      · rename_i tl2 heq
        simp only [Option.some.injEq] at h
        obtain ⟨pre, a, post, h1, h2, h3, h4⟩ := ih heq
        exact ⟨x :: pre, a, post, by simp [h1], h2, h3, by simp [← h, h4]⟩
      · simp at h

/-- an attempt that has not finished is replaced by another one that has not finished -/
theorem ChanInv_swap {cfg now} {cl : Call} {pre post : List Attempt} {a a' : Attempt} (h : ChanInv cfg now cl)
    (hatt : cl.attempts = pre ++ a :: post) (hf : a.fin = none) (hf' : a'.fin = none) :
    ChanInv cfg now { cl with attempts := pre ++ a' :: post } := by
  have memOld : ∀ b, b ∈ pre ∨ b ∈ post → b ∈ cl.attempts := by
    intro b hb; rw [hatt]; simp only [List.mem_append, List.mem_cons]
    rcases hb with hb | hb
    · exact Or.inl hb
    · exact Or.inr (Or.inr hb)
  have oldSplit : ∀ b ∈ cl.attempts, b.fin.isSome = true → b ∈ pre ∨ b ∈ post := by
    intro b hb hs; rw [hatt] at hb; simp only [List.mem_append, List.mem_cons] at hb
    rcases hb with hb | hb | hb
    · exact Or.inl hb
    · subst hb; simp [hf] at hs
    · exact Or.inr hb
  have newSplit : ∀ b ∈ pre ++ a' :: post, b.fin.isSome = true → b ∈ pre ∨ b ∈ post := by
    intro b hb hs; simp only [List.mem_append, List.mem_cons] at hb
    rcases hb with hb | hb | hb
    · exact Or.inl hb
    · subst hb; simp [hf'] at hs
    · exact Or.inr hb
  have memNew : ∀ b, b ∈ pre ∨ b ∈ post → b ∈ pre ++ a' :: post := by
    intro b hb; simp only [List.mem_append, List.mem_cons]
    rcases hb with hb | hb
    · exact Or.inl hb
    · exact Or.inr (Or.inr hb)
  have fa : finErr a = false := by simp [finErr, hf]
  have fa' : finErr a' = false := by simp [finErr, hf']
  have cnt : (pre ++ a' :: post).countP finErr = cl.attempts.countP finErr := by
    rw [hatt]; simp [List.countP_append, fa, fa']
  constructor
  · intro b hb tf hbf
    exact h.finOk b (memOld b (newSplit b hb (by simp [hbf]))) tf hbf
  · exact h.sorted
  · intro m hm
    obtain ⟨h1, h2, h3⟩ := h.chanMem m hm
    exact ⟨memNew m (oldSplit m h1 h2), h2, h3⟩
  · intro hl b hb hok hs
    exact h.okIn hl b (memOld b (newSplit b hb hs)) hok hs
  · exact h.recvdErr
  · intro hp
    obtain ⟨h1, h2⟩ := h.count hp
    refine ⟨?_, h2⟩
    show cl.errors + cl.chan.countP _ = (pre ++ a' :: post).countP finErr
    rw [cnt]; exact h1
  · intro hp
    have := (h.fresh hp).1; rw [hatt] at this; simp at this
  · intro hl b hb hsd hs
    exact h.sentIn hl b (memOld b (newSplit b hb hs)) hsd hs
  · exact h.noErrYet

theorem starts_swap {cl : Call} {pre post : List Attempt} {a a' : Attempt}
    (hatt : cl.attempts = pre ++ a :: post) (hs : a'.startAt = a.startAt) :
    starts { cl with attempts := pre ++ a' :: post } = starts cl := by
  simp [starts, hatt, hs]

theorem ResInv_swap {cfg now} {cl : Call} {pre post : List Attempt} {a a' : Attempt} (h : ResInv cfg now cl)
    (hatt : cl.attempts = pre ++ a :: post) (hf : a.fin = none) (hf' : a'.fin = none)
    (hs : a'.startAt = a.startAt) : ResInv cfg now { cl with attempts := pre ++ a' :: post } := by
  constructor
  · exact h.noRes
  · intro hp
    obtain ⟨t, r, h1, h2, h3, h4⟩ := h.res hp
    refine ⟨t, r, h1, h2, by rw [starts_swap hatt hs]; exact h3, ?_⟩
    (cases r <;> try exact trivial) <;> try exact h4
    · rename_i v
      obtain ⟨w, hw, hk, ho, tf, hwf, hd, htf, hmin⟩ := h4
      refine ⟨w, ?_, hk, ho, tf, hwf, hd, htf, ?_⟩
      · show w ∈ pre ++ a' :: post
        rw [hatt] at hw
        simp only [List.mem_append, List.mem_cons] at hw ⊢
        rcases hw with q | q | q
        · exact Or.inl q
        · subst q; simp [hf] at hwf
        · exact Or.inr (Or.inr q)
      · intro b hb hbo tb hbt
        have hb' : b ∈ pre ++ a' :: post := hb
        simp only [List.mem_append, List.mem_cons] at hb'
        refine hmin b ?_ hbo tb hbt
        rw [hatt]; simp only [List.mem_append, List.mem_cons]
        rcases hb' with q | q | q
        · exact Or.inl q
        · subst q; simp [hf'] at hbt
        · exact Or.inr (Or.inr q)
    · obtain ⟨_, _, hall⟩ := h4
      obtain ⟨_, tf, htf, _⟩ := hall a (by rw [hatt]; simp)
      simp [hf] at htf
    · obtain ⟨⟨_, hall⟩, _⟩ := h4
      obtain ⟨tf, htf, _⟩ := hall a (by rw [hatt]; simp)
      simp [hf] at htf

/-- the two shapes of a readiness step -/
theorem readyCall_cases (now c i : Nat) (w : W) :
    readyCall now c i w = w ∨
    ∃ pre a post a', w.cl.attempts = pre ++ a :: post ∧ a.fin = none ∧ a.wait ≠ .no ∧ a'.fin = none ∧
      a'.startAt = a.startAt ∧ a'.wait = .no ∧ a'.k = w.serial ∧
      (readyCall now c i w).serial = w.serial + 1 ∧
      ((readyCall now c i w).cl = { w.cl with attempts := pre ++ a' :: post } ∧
         (readyCall now c i w).evs = w.evs ++ [.innerCall c w.serial] ∨
       (readyCall now c i w).cl = (finishCall now w.serial c { w.cl with attempts := pre ++ a' :: post }).1 ∧
         (readyCall now c i w).evs = w.evs ++ [.innerCall c w.serial] ++
           (finishCall now w.serial c { w.cl with attempts := pre ++ a' :: post }).2) := by
  unfold readyCall
  dsimp only
  split
  · left; rfl
  · rename_i l' heq
    obtain ⟨pre, a, post, h1, h2, h3, h4⟩ := markCall_some heq
    right
    subst h4
    refine ⟨pre, a, post, a.call now w.serial (w.cl.plan.getD (nCalled w.cl) ⟨0, .ok⟩),
      h1, h2, h3, h2, rfl, rfl, rfl, rfl, ?_⟩
    split
    · right; exact ⟨rfl, rfl⟩
    · left; exact ⟨rfl, by simp⟩

theorem readyCall_inv {cfg now} (c i : Nat) {w : W} (h : CallInv cfg now w.cl) :
    CallInv cfg now (readyCall now c i w).cl ∧ (readyCall now c i w).cl.phase = w.cl.phase ∧
    starts (readyCall now c i w).cl = starts w.cl ∧ (readyCall now c i w).cl.result = w.cl.result := by
  rcases readyCall_cases now c i w with he | ⟨pre, a, post, a', hatt, hf, _, hf', hs, _, _, _, he⟩
  · rw [he]; exact ⟨h, rfl, rfl, rfl⟩
  · have hst := starts_swap (cl := w.cl) (a' := a') hatt hs
    have h0 : CallInv cfg now { w.cl with attempts := pre ++ a' :: post } :=
      ⟨h.st.congr rfl hst rfl, ChanInv_swap h.ch hatt hf hf', ResInv_swap h.rs hatt hf hf' hs⟩
    rcases he with ⟨he, _⟩ | ⟨he, _⟩
    · rw [he]; exact ⟨h0, rfl, hst, rfl⟩
    · rw [he]
      exact ⟨CallInv_finishCall _ _ h0, by rw [finishCall_phase], by rw [finishCall_starts, hst],
        by rw [finishCall_result]⟩

theorem readyOne_now (s : State) (c i : Nat) : (readyOne s c i).now = s.now := by
  unfold readyOne; split <;> rfl

theorem readyOne_inv {cfg : Cfg} {s : State} (c i : Nat) (h : Inv cfg s) : Inv cfg (readyOne s c i) := by
  unfold readyOne
  split
  · exact h
  · rename_i cl hl
    obtain ⟨c', hm⟩ := lookup_mem hl
    exact Inv_setCall h (readyCall_inv (w := { cl := cl, serial := s.serial }) c i (h _ hm)).1 _ rfl _ rfl rfl

theorem fireOne_inv {cfg : Cfg} {s : State} (f : Fire) (h : Inv cfg s) : Inv cfg (fireOne s f) := by
  cases f with
  | done k => exact finishOne_inv k h
  | rdy c i => exact readyOne_inv c i h

theorem foldl_fireOne_inv {cfg : Cfg} (ks : List Fire) : ∀ s : State, Inv cfg s → Inv cfg (ks.foldl fireOne s) := by
  induction ks with
  | nil => intro s h; exact h
  | cons k tl ih => intro s h; exact ih _ (fireOne_inv k h)

theorem advS_inv {cfg : Cfg} {s : State} (ms : Nat) (order : List Fire) (h : Inv cfg s) :
    Inv cfg (advS s ms order) := by
  have h1 : Inv cfg { s with now := s.now + ms } := fun p hp => (h p hp).mono (Nat.le_add_right _ _)
  unfold advS
  dsimp only
  split
  · exact foldl_fireOne_inv _ _ h1
  · exact foldl_fireOne_inv _ _ h1

theorem arriveS_inv {cfg : Cfg} {s : State} (c : Nat) (plan : List Step) (warm : List Ready)
    (h : Inv cfg s) : Inv cfg (arriveS s c plan warm) := by
  unfold arriveS
  split
  · exact h
  · intro p hp
    rcases List.mem_append.mp hp with q | q
    · exact h p q
    · simp at q; subst q; exact CallInv_new cfg s.now plan warm

theorem stepS_inv {cfg : Cfg} {s : State} (op : Op) (hmax : 1 ≤ cfg.max) (h : Inv cfg s) :
    Inv cfg (stepS cfg s op) := by
  cases op with
  | arrive c plan warm => exact arriveS_inv c plan warm h
  | poll c => exact pollS_inv c hmax h
  | drop c => exact dropS_inv c h
  | adv ms order => exact advS_inv ms order h
  | refused c kind v => exact h

theorem foldl_stepS_inv {cfg : Cfg} (hmax : 1 ≤ cfg.max) (ops : List Op) :
    ∀ s : State, Inv cfg s → Inv cfg (ops.foldl (stepS cfg) s) := by
  induction ops with
  | nil => intro s h; exact h
  | cons op tl ih => intro s h; exact ih _ (stepS_inv op hmax h)

/-- every request of every reachable state satisfies the invariant -/
theorem inv_reachable (cfg : Cfg) (hmax : 1 ≤ cfg.max) (ops : List Op) : Inv cfg (run cfg ops) :=
  foldl_stepS_inv hmax ops init (fun _ hp => by cases hp)

/-! ## spacing by attempt number -/

/-- newest-first index form of `SpacedT`: position `j` holds attempt number `l.length - 1 - j` -/
theorem SpacedT_index (cfg : Cfg) : ∀ (l : List Nat), SpacedT cfg l → ∀ j, j + 1 < l.length →
    if cfg.delay 1 = 0 then l.getD j 0 = l.getD (j + 1) 0
    else l.getD (j + 1) 0 * 1000 + cfg.delay (l.length - 1 - j) ≤ l.getD j 0 * 1000
  | [], _, j, hj => by simp at hj
  | [_], _, j, hj => by simp at hj
  | b :: a :: tl, h, j, hj => by
    cases j with
    | zero =>
      have := h.1
      simp only [List.getD_cons_zero, List.getD_cons_succ, List.length_cons] at this ⊢
      have e : tl.length + 1 + 1 - 1 - 0 = tl.length + 1 := by omega
      rw [e]; exact this
    | succ j =>
      have ih := SpacedT_index cfg (a :: tl) h.2 j (by simp at hj ⊢; omega)
      simp only [List.getD_cons_succ, List.length_cons] at ih ⊢
      have e : tl.length + 1 + 1 - 1 - (j + 1) = tl.length + 1 - 1 - j := by omega
      rw [e]; exact ih

/-- start instants in start order (attempt number = position) -/
def startsAsc (cl : Call) : List Nat := (starts cl).reverse

theorem spaced_asc (cfg : Cfg) (l : List Nat) (h : SpacedT cfg l) (n : Nat) (hn : n + 1 < l.length) :
    if cfg.delay 1 = 0 then l.reverse.getD (n + 1) 0 = l.reverse.getD n 0
    else l.reverse.getD n 0 * 1000 + cfg.delay (n + 1) ≤ l.reverse.getD (n + 1) 0 * 1000 := by
  have key := SpacedT_index cfg l h (l.length - 2 - n) (by omega)
  have e1 : l.reverse.getD (n + 1) 0 = l.getD (l.length - 2 - n) 0 := by
    simp only [List.getD_eq_getElem?_getD]
    rw [List.getElem?_reverse (by omega)]
    congr 2; omega
  have e2 : l.reverse.getD n 0 = l.getD (l.length - 2 - n + 1) 0 := by
    simp only [List.getD_eq_getElem?_getD]
    rw [List.getElem?_reverse (by omega)]
    congr 2; omega
  have e3 : l.length - 1 - (l.length - 2 - n) = n + 1 := by omega
  rw [e1, e2]; rw [e3] at key; exact key

/-! ## association-list lemmas -/

theorem lookup_cons {α : Type} (k : Nat) (x : α) (tl : List (Nat × α)) (c : Nat) :
    lookup ((k, x) :: tl) c = if k = c then some x else lookup tl c := by
  rw [lookup]

theorem lookup_setCall (l : List (Nat × Call)) (c c' : Nat) (v : Call) :
    lookup (setCall l c v) c' = if c' = c then (lookup l c).map (fun _ => v) else lookup l c' := by
  induction l with
  | nil => simp [setCall, lookup]
  | cons p tl ih =>
    obtain ⟨k, x⟩ := p
    unfold setCall at ih ⊢
    simp only [List.map_cons]
    by_cases hk : k = c
    · subst hk
      simp only [if_true, lookup_cons]
      by_cases hc : c' = k
      · subst hc; simp
      · have : ¬ k = c' := fun e => hc e.symm
        simp only [this, if_false, hc]
        rw [ih]; simp [hc]
    · simp only [hk, if_false, lookup_cons]
      by_cases hc : k = c'
      · subst hc; simp [hk]
      · simp only [hc, if_false]; exact ih

theorem lookup_map_snd (l : List (Nat × Call)) (f : Nat → Call → Call) (c : Nat) :
    lookup (l.map (fun p => (p.1, f p.1 p.2))) c = (lookup l c).map (f c) := by
  induction l with
  | nil => simp [lookup]
  | cons p tl ih =>
    obtain ⟨k, x⟩ := p
    simp only [List.map_cons, lookup_cons]
    by_cases hk : k = c
    · subst hk; simp
    · simp only [hk, if_false]; exact ih

theorem lookup_append_some {l : List (Nat × Call)} {c : Nat} {v : Call} (h : lookup l c = some v)
    (l2 : List (Nat × Call)) : lookup (l ++ l2) c = some v := by
  induction l with
  | nil => simp [lookup] at h
  | cons p tl ih =>
    obtain ⟨k, x⟩ := p
    simp only [List.cons_append, lookup_cons] at h ⊢
    split
    · rename_i hk; simp only [hk, if_true] at h; exact h
    · rename_i hk; simp only [hk, if_false] at h; exact ih h

theorem lookup_append_none {l : List (Nat × Call)} {c : Nat} (h : lookup l c = none)
    (l2 : List (Nat × Call)) : lookup (l ++ l2) c = lookup l2 c := by
  induction l with
  | nil => rfl
  | cons p tl ih =>
    obtain ⟨k, x⟩ := p
    simp only [List.cons_append, lookup_cons] at h ⊢
    split
    · rename_i hk; simp only [hk, if_true] at h; cases h
    · rename_i hk; simp only [hk, if_false] at h; exact ih h

/-! ## "as soon as it is available": a success in the channel resolves the call at the next poll -/

theorem recvLat_first_ok (cfg : Cfg) (now c : Nat) (m : Attempt) (rest : List Attempt) (hm : m.out = .ok) :
    ∀ (errs : List Attempt) (cl : Call), (∀ x ∈ errs, x.out ≠ .ok) →
      cl.errors + errs.countP (fun x => isErr x.out) < cfg.max →
      (recvLat cfg now c (errs ++ m :: rest) cl).1.result = some (now, .ok m.k) ∧
      (recvLat cfg now c (errs ++ m :: rest) cl).1.phase = .done ∧
      (recvLat cfg now c (errs ++ m :: rest) cl).2 = [.result c (.ok m.k)] := by
  intro errs
  induction errs with
  | nil =>
    intro cl _ _
    simp only [List.nil_append]
    unfold recvLat
    split
    · exact ⟨rfl, rfl, rfl⟩
    · rename_i kd he; rw [hm] at he; cases he
    · rename_i h1 _; exact absurd hm h1
  | cons e errs ih =>
    intro cl hne hcnt
    have hne' : ∀ x ∈ errs, x.out ≠ .ok := fun x hx => hne x (List.mem_cons_of_mem _ hx)
    simp only [List.cons_append]
    unfold recvLat
    split
    · rename_i hok; exact absurd hok (hne e (by simp))
    · rename_i kd he
      have hie : isErr e.out = true := by rw [he]; rfl
      simp only [List.countP_cons, hie] at hcnt
      split
      · rename_i hmax; simp at hcnt; omega
      · exact ih _ hne' (by show cl.errors + 1 + _ < _; simp at hcnt; omega)
    · refine ih _ hne' ?_
      show cl.errors + _ < _
      have := List.countP_cons (p := fun x => isErr x.out) (a := e) (l := errs)
      rw [this] at hcnt
      omega

theorem recvDrain_first_ok (now c : Nat) (m : Attempt) (rest : List Attempt) (hm : m.out = .ok) :
    ∀ (errs : List Attempt) (cl : Call), (∀ x ∈ errs, x.out ≠ .ok) →
      (recvDrain now c (errs ++ m :: rest) cl).1.result = some (now, .ok m.k) ∧
      (recvDrain now c (errs ++ m :: rest) cl).2 = [.result c (.ok m.k)] := by
  intro errs
  induction errs with
  | nil =>
    intro cl _
    simp only [List.nil_append]
    unfold recvDrain
    split
    · exact ⟨rfl, rfl⟩
    · rename_i kd he; rw [hm] at he; cases he
    · rename_i h1 _; exact absurd hm h1
  | cons e errs ih =>
    intro cl hne
    have hne' : ∀ x ∈ errs, x.out ≠ .ok := fun x hx => hne x (List.mem_cons_of_mem _ hx)
    simp only [List.cons_append]
    unfold recvDrain
    split
    · rename_i hok; exact absurd hok (hne e (by simp))
    · exact ih _ hne'
    · exact ih _ hne'

/-- a live call with a success in its channel: one poll resolves it with the first such success -/
theorem pollCall_first_ok {cfg : Cfg} {now : Nat} (c : Nat) {w : W} (h : CallInv cfg now w.cl)
    (hl : live w.cl.phase = true) (m : Attempt)
    (hm : w.cl.chan.find? (fun a => decide (a.out = .ok)) = some m) :
    (pollCall cfg now c w).cl.result = some (now, .ok m.k) ∧
    (pollCall cfg now c w).evs = w.evs ++ [.result c (.ok m.k)] := by
  obtain ⟨hmo, errs, rest, hch, hne⟩ := List.find?_eq_some_iff_append.mp hm
  have hmo' : m.out = .ok := by simpa using hmo
  have hne' : ∀ x ∈ errs, x.out ≠ .ok := by
    intro x hx; have := hne x hx; simpa using this
  unfold pollCall
  split
  · rename_i hp; rw [hp] at hl; cases hl
  · rename_i hp
    obtain ⟨h1, h2⟩ := h.ch.count hp
    obtain ⟨hma, _, _⟩ := h.ch.chanMem m (by rw [hch]; simp)
    have hlt : w.cl.attempts.countP finErr < w.cl.attempts.length := by
      have hle : w.cl.attempts.countP finErr ≤ w.cl.attempts.length := List.countP_le_length
      have hneq : w.cl.attempts.countP finErr ≠ w.cl.attempts.length := by
        intro heq
        have := List.countP_eq_length.mp heq m hma
        simp [finErr, hmo', isErr] at this
      omega
    have hb := h.st.bound
    rw [← length_eq_starts] at hb
    have hcnt : w.cl.errors + errs.countP (fun x => isErr x.out) < cfg.max := by
      rw [hch, List.countP_append] at h1; omega
    obtain ⟨r1, r2, r3⟩ := recvLat_first_ok cfg now c m rest hmo' errs w.cl hne' hcnt
    unfold pollLatency
    dsimp only
    rw [hch]
    split
    · rename_i hq; rw [r2] at hq; cases hq
    · exact ⟨r1, by rw [r3]⟩
  · obtain ⟨r1, r3⟩ := recvDrain_first_ok now c m rest hmo' errs w.cl hne'
    unfold pollDrain
    dsimp only
    rw [hch]
    exact ⟨r1, by rw [r3]⟩
  · rename_i h1 h2 h3
    cases hp : w.cl.phase <;> simp_all [live]

/-! ## a finished call never starts anything (one step, any state) -/

/-- request `c` still has the phase, the start instants and the result of `cl` -/
def Same (c : Nat) (cl : Call) (s : State) : Prop :=
  ∃ cl', lookup s.calls c = some cl' ∧ cl'.phase = cl.phase ∧ starts cl' = starts cl ∧ cl'.result = cl.result

theorem Same_finishOne {c : Nat} {cl : Call} {s : State} (k : Nat) (h : Same c cl s) :
    Same c cl (finishOne s k) := by
  obtain ⟨cl', h1, h2, h3, h4⟩ := h
  refine ⟨(finishCall s.now k c cl').1, ?_, by rw [finishCall_phase, h2], by rw [finishCall_starts, h3],
    by rw [finishCall_result, h4]⟩
  show lookup (s.calls.map (fun p => (p.1, (finishCall s.now k p.1 p.2).1))) c = _
  rw [lookup_map_snd s.calls (fun c cl => (finishCall s.now k c cl).1) c, h1]; rfl

/-- phase, start instants and result of a call are untouched by a readiness step, whatever the state -/
theorem readyCall_same (now c i : Nat) (w : W) :
    (readyCall now c i w).cl.phase = w.cl.phase ∧ starts (readyCall now c i w).cl = starts w.cl ∧
    (readyCall now c i w).cl.result = w.cl.result := by
  rcases readyCall_cases now c i w with he | ⟨pre, a, post, a', hatt, _, _, _, hs, _, _, _, he⟩
  · rw [he]; exact ⟨rfl, rfl, rfl⟩
  · have hst := starts_swap (cl := w.cl) (a' := a') hatt hs
    rcases he with ⟨he, _⟩ | ⟨he, _⟩
    · rw [he]; exact ⟨rfl, hst, rfl⟩
    · rw [he]; exact ⟨by rw [finishCall_phase], by rw [finishCall_starts, hst], by rw [finishCall_result]⟩

theorem Same_readyOne {c : Nat} {cl : Call} {s : State} (c' i : Nat) (h : Same c cl s) :
    Same c cl (readyOne s c' i) := by
  unfold readyOne
  split
  · exact h
  · rename_i cl0 hl0
    obtain ⟨cl', h1, h2, h3, h4⟩ := h
    by_cases hc : c = c'
    · subst hc
      rw [h1] at hl0; cases hl0
      obtain ⟨r1, r2, r3⟩ := readyCall_same s.now c i { cl := cl0, serial := s.serial }
      refine ⟨(readyCall s.now c i { cl := cl0, serial := s.serial }).cl,
        by show lookup (setCall s.calls c _) c = _; rw [lookup_setCall, h1]; simp, ?_, ?_, ?_⟩
      · rw [r1]; exact h2
      · rw [r2]; exact h3
      · rw [r3]; exact h4
    · exact ⟨cl', by show lookup (setCall s.calls c' _) c = _; rw [lookup_setCall, if_neg hc, h1], h2, h3, h4⟩

theorem Same_foldl_fireOne {c : Nat} {cl : Call} (ks : List Fire) :
    ∀ s : State, Same c cl s → Same c cl (ks.foldl fireOne s) := by
  induction ks with
  | nil => intro s h; exact h
  | cons k tl ih =>
    intro s h
    apply ih
    cases k with
    | done k => exact Same_finishOne k h
    | rdy c' i => exact Same_readyOne c' i h

theorem pollCall_finished (cfg : Cfg) (now c : Nat) (w : W)
    (hf : w.cl.phase = .done ∨ w.cl.phase = .dropped) : pollCall cfg now c w = w := by
  unfold pollCall
  rcases hf with hf | hf <;> rw [hf]

theorem stepS_frozen (cfg : Cfg) (s : State) (op : Op) (c : Nat) (cl : Call)
    (h : lookup s.calls c = some cl) (hf : cl.phase = .done ∨ cl.phase = .dropped) :
    Same c cl (stepS cfg s op) := by
  have h0 : Same c cl s := ⟨cl, h, rfl, rfl, rfl⟩
  cases op with
  | arrive c' plan warm =>
    show Same c cl (arriveS s c' plan warm)
    unfold arriveS
    split
    · exact h0
    · exact ⟨cl, lookup_append_some h _, rfl, rfl, rfl⟩
  | poll c' =>
    show Same c cl (pollS cfg s c')
    unfold pollS
    split
    · exact h0
    · rename_i cl0 hl0
      by_cases hc : c = c'
      · subst hc
        rw [h] at hl0; cases hl0
        rw [pollCall_finished cfg s.now c _ hf]
        exact ⟨cl, by show lookup (setCall s.calls c cl) c = _; rw [lookup_setCall, h]; simp, rfl, rfl, rfl⟩
      · exact ⟨cl, by show lookup (setCall s.calls c' _) c = _; rw [lookup_setCall, if_neg hc, h], rfl, rfl, rfl⟩
  | drop c' =>
    show Same c cl (dropS s c')
    unfold dropS
    split
    · exact h0
    · rename_i cl0 hl0
      by_cases hc : c = c'
      · subst hc
        rw [h] at hl0; cases hl0
        refine ⟨dropCall cl, by show lookup (setCall s.calls c _) c = _; rw [lookup_setCall, h]; simp, ?_, ?_, ?_⟩
        · unfold dropCall; rcases hf with hf | hf <;> rw [hf] <;> simp [hf]
        · unfold dropCall; split <;> rfl
        · unfold dropCall; split <;> rfl
      · exact ⟨cl, by show lookup (setCall s.calls c' _) c = _; rw [lookup_setCall, if_neg hc, h], rfl, rfl, rfl⟩
  | adv ms order =>
    show Same c cl (advS s ms order)
    unfold advS
    dsimp only
    split
    · exact Same_foldl_fireOne _ _ h0
    · exact Same_foldl_fireOne _ _ h0
  | refused c' kind v => exact h0

/-! ## the attempts of a request are exactly its `inner_call` events in the log -/

/-- serials of the attempts of a request that have called the inner service, by attempt number -/
def serialsAsc (cl : Call) : List Nat := ((cl.attempts.filter isCalled).map (·.k)).reverse

theorem callsOf_append (c : Nat) (a b : List Ev) : callsOf c (a ++ b) = callsOf c a ++ callsOf c b := by
  simp [callsOf, List.filterMap_append]

theorem callsOf_nil_of_forall {c : Nat} {l : List Ev} (h : ∀ e ∈ l, callOf c e = none) : callsOf c l = [] := by
  unfold callsOf
  exact List.filterMap_eq_nil_iff.mpr h

theorem finishCall_serials (now k c : Nat) (cl : Call) : serialsAsc (finishCall now k c cl).1 = serialsAsc cl := by
  rcases finishCall_cases now k c cl with he | ⟨pre, a, post, hatt, _, _, _, _, he⟩
  · rw [he]
  · have : (finishCall now k c cl).1 = finMove now cl pre a post := by rw [he]; rfl
    rw [this]
    have hc : isCalled { a with fin := some now } = isCalled a := rfl
    simp only [serialsAsc, finMove_attempts, hatt, List.filter_append, List.filter_cons, hc]
    split <;> simp

theorem finishCall_evs (now k c c' : Nat) (cl : Call) : callsOf c' (finishCall now k c cl).2 = [] := by
  rcases finishCall_cases now k c cl with he | ⟨pre, a, post, _, _, _, _, _, he⟩
  · rw [he]; rfl
  · rw [he]; rfl

/-- log bookkeeping while one call is polled -/
def WL (c : Nat) (base : List Nat) (w : W) : Prop :=
  (∀ c', c' ≠ c → callsOf c' w.evs = []) ∧ serialsAsc w.cl = base ++ callsOf c w.evs

theorem WL_callAttempt {now c : Nat} {base : List Nat} {w : W} (h : WL c base w) : WL c base (callAttempt now c w) := by
  obtain ⟨h1, h2⟩ := h
  have hpush : serialsAsc (pushAttempt now w).cl = serialsAsc w.cl ++ [w.serial] := by
    simp [serialsAsc, pushAttempt, isCalled]
  have hcl : serialsAsc (callAttempt now c w).cl = serialsAsc w.cl ++ [w.serial] := by
    rw [callAttempt_cl]; split
    · rw [finishCall_serials, hpush]
    · exact hpush
  have hev : ∀ c', callsOf c' (callAttempt now c w).evs
      = callsOf c' w.evs ++ (if c = c' then [w.serial] else []) := by
    intro c'
    unfold callAttempt
    dsimp only
    rw [callsOf_append, callsOf_append]
    have : callsOf c' [Ev.innerCall c w.serial] = if c = c' then [w.serial] else [] := by
      simp only [callsOf, List.filterMap_cons, callOf, List.filterMap_nil]
      split <;> simp_all
    rw [this]
    have hfin : callsOf c' (if (w.cl.plan.getD (nCalled w.cl) ⟨0, .ok⟩).lat = 0
        then finishCall now w.serial c (pushAttempt now w).cl else ((pushAttempt now w).cl, [])).2 = [] := by
      split
      · exact finishCall_evs ..
      · rfl
    rw [hfin, List.append_nil]
  constructor
  · intro c' hc
    rw [hev c', h1 c' hc]
    have : ¬ c = c' := fun e => hc e.symm
    simp [this]
  · rw [hcl, hev c, h2]; simp

theorem WL_evs {c : Nat} {base : List Nat} {w : W} (h : WL c base w) (evs : List Ev)
    (he : ∀ c', callsOf c' evs = []) : WL c base { w with evs := w.evs ++ evs } := by
  constructor
  · intro c' hc; show callsOf c' (w.evs ++ evs) = []; rw [callsOf_append, h.1 c' hc, he c']; rfl
  · show serialsAsc w.cl = base ++ callsOf c (w.evs ++ evs)
    rw [callsOf_append, he c, List.append_nil]; exact h.2

theorem WL_startAttempt {now c : Nat} {base : List Nat} {w : W} (h : WL c base w) : WL c base (startAttempt now c w) := by
  rcases startAttempt_cases now c w with ⟨evs, he, hn⟩ | ⟨wt, e, hwt, he⟩ | ⟨e, he⟩
  · rw [he]; exact WL_callAttempt (WL_evs h evs hn)
  · rw [he]
    have h' := WL_evs h [Ev.raw e] (fun _ => rfl)
    refine ⟨h'.1, ?_⟩
    have : serialsAsc (pushWaiting now wt { w with evs := w.evs ++ [Ev.raw e] }).cl = serialsAsc w.cl := by
      simp [serialsAsc, pushWaiting, isCalled, hwt]
    rw [this]; exact h'.2
  · rw [he]
    have h' := WL_evs h [Ev.raw e] (fun _ => rfl)
    refine ⟨h'.1, ?_⟩
    -- the attempt that failed its readiness poll never called: it contributes no serial
    have : serialsAsc (failAttempt now { w with evs := w.evs ++ [Ev.raw e] }).cl = serialsAsc w.cl := by
      rw [failAttempt_cl]
      simp [serialsAsc, finMove_attempts, isCalled, failedAttempt]
    rw [this]; exact h'.2

theorem recvLat_attempts (cfg : Cfg) (now c : Nat) : ∀ (msgs : List Attempt) (cl : Call),
    (recvLat cfg now c msgs cl).1.attempts = cl.attempts ∧
    ∀ c', callsOf c' (recvLat cfg now c msgs cl).2 = [] := by
  intro msgs
  induction msgs with
  | nil => intro cl; exact ⟨rfl, fun _ => rfl⟩
  | cons m rest ih =>
    intro cl
    unfold recvLat
    split
    · exact ⟨rfl, fun _ => rfl⟩
    · split
      · exact ⟨rfl, fun _ => rfl⟩
      · exact ih _
    · exact ih _

theorem recvDrain_attempts (now c : Nat) : ∀ (msgs : List Attempt) (cl : Call),
    (recvDrain now c msgs cl).1.attempts = cl.attempts ∧
    ∀ c', callsOf c' (recvDrain now c msgs cl).2 = [] := by
  intro msgs
  induction msgs with
  | nil =>
    intro cl
    unfold recvDrain
    split
    · split <;> exact ⟨rfl, fun _ => rfl⟩
    · exact ⟨rfl, fun _ => rfl⟩
  | cons m rest ih =>
    intro cl
    unfold recvDrain
    split
    · exact ⟨rfl, fun _ => rfl⟩
    · exact ih _
    · exact ih _

theorem WL_spawnLat {cfg : Cfg} {now c : Nat} {base : List Nat} : ∀ (fuel : Nat) (w : W),
    WL c base w → WL c base (spawnLat cfg now c fuel w) := by
  intro fuel
  induction fuel with
  | zero => intro w h; exact h
  | succ fuel ih =>
    intro w h
    unfold spawnLat
    split
    · apply ih
      have := WL_startAttempt (now := now) h
      split
      · exact this
      · exact this
    · exact h

theorem WL_startN {now c : Nat} {base : List Nat} : ∀ (n : Nat) (w : W),
    WL c base w → WL c base (startN now c n w) := by
  intro n
  induction n with
  | zero => intro w h; exact h
  | succ n ih => intro w h; unfold startN; exact ih _ (WL_startAttempt h)

theorem WL_pollCall {cfg : Cfg} {now c : Nat} {base : List Nat} {w : W} (h : WL c base w) :
    WL c base (pollCall cfg now c w) := by
  unfold pollCall
  split
  · unfold pollFresh
    split
    · exact WL_startAttempt h
    · exact WL_startN _ _ (WL_startAttempt h)
  · unfold pollLatency
    dsimp only
    obtain ⟨r1, r2⟩ := recvLat_attempts cfg now c w.cl.chan w.cl
    have h' : WL c base { w with cl := (recvLat cfg now c w.cl.chan w.cl).1,
                                 evs := w.evs ++ (recvLat cfg now c w.cl.chan w.cl).2 } := by
      constructor
      · intro c' hc; show callsOf c' (w.evs ++ _) = []; rw [callsOf_append, h.1 c' hc, r2]; rfl
      · show serialsAsc _ = base ++ callsOf c (w.evs ++ _)
        rw [callsOf_append, r2, List.append_nil, ← h.2]; simp [serialsAsc, r1]
    split
    · exact WL_spawnLat _ _ h'
    · exact h'
  · unfold pollDrain
    dsimp only
    obtain ⟨r1, r2⟩ := recvDrain_attempts now c w.cl.chan w.cl
    constructor
    · intro c' hc; show callsOf c' (w.evs ++ _) = []; rw [callsOf_append, h.1 c' hc, r2]; rfl
    · show serialsAsc _ = base ++ callsOf c (w.evs ++ _)
      rw [callsOf_append, r2, List.append_nil, ← h.2]; simp [serialsAsc, r1]
  · exact h

/-- the serials a request's record accounts for -/
def serialsOf (calls : List (Nat × Call)) (c : Nat) : List Nat :=
  match lookup calls c with
  | some cl => serialsAsc cl
  | none => []

/-- for every request id: its `inner_call` events in the log are exactly (as a multiset — with
readiness plans the calls need not come in attempt order) the serials of its attempts that have
called the inner service -/
def LogInv (s : State) : Prop := ∀ c, (callsOf c s.log).Perm (serialsOf s.calls c)

theorem serialsOf_setCall (calls : List (Nat × Call)) (c' c : Nat) (cl v : Call) (hl : lookup calls c' = some cl) :
    serialsOf (setCall calls c' v) c = if c = c' then serialsAsc v else serialsOf calls c := by
  unfold serialsOf
  rw [lookup_setCall]
  by_cases hc : c = c'
  · subst hc; rw [if_pos rfl, if_pos rfl, hl]; rfl
  · rw [if_neg hc, if_neg hc]

theorem LogInv_finishOne {s : State} (k : Nat) (h : LogInv s) : LogInv (finishOne s k) := by
  intro c
  have hev : callsOf c (s.calls.flatMap (fun p => (finishCall s.now k p.1 p.2).2)) = [] := by
    apply callsOf_nil_of_forall
    intro e he
    obtain ⟨p, _, hp⟩ := List.mem_flatMap.mp he
    have := finishCall_evs s.now k p.1 c p.2
    unfold callsOf at this
    exact List.filterMap_eq_nil_iff.mp this e hp
  show (callsOf c (s.log ++ _)).Perm (serialsOf (s.calls.map (fun p => (p.1, (finishCall s.now k p.1 p.2).1))) c)
  have hs : serialsOf (s.calls.map (fun p => (p.1, (finishCall s.now k p.1 p.2).1))) c = serialsOf s.calls c := by
    unfold serialsOf
    rw [lookup_map_snd s.calls (fun c cl => (finishCall s.now k c cl).1) c]
    cases lookup s.calls c with
    | none => rfl
    | some cl => simp [finishCall_serials]
  rw [callsOf_append, hev, List.append_nil, hs]
  exact h c

/-- a readiness step: one more `inner_call` of this request, one more called attempt -/
theorem readyCall_serials (now c i : Nat) (w : W) :
    (readyCall now c i w = w) ∨
    ((serialsAsc (readyCall now c i w).cl).Perm (serialsAsc w.cl ++ [w.serial]) ∧
      ∀ c', callsOf c' (readyCall now c i w).evs = callsOf c' w.evs ++ (if c = c' then [w.serial] else [])) := by
  rcases readyCall_cases now c i w with he | ⟨pre, a, post, a', hatt, _, hw, _, _, hw', hk, _, he⟩
  · left; exact he
  · right
    have hca : isCalled a = false := by simp [isCalled, hw]
    have hca' : isCalled a' = true := by simp [isCalled, hw']
    have hperm : (serialsAsc { w.cl with attempts := pre ++ a' :: post }).Perm (serialsAsc w.cl ++ [w.serial]) := by
      simp only [serialsAsc, hatt, List.filter_append, List.filter_cons, hca, hca', if_true,
        Bool.false_eq_true, if_false]
      simp only [List.map_append, List.map_cons, List.reverse_append, List.reverse_cons, hk]
      simp only [List.append_assoc]
      exact List.Perm.append_left _ List.perm_append_comm
    have hcall : ∀ c', callsOf c' [Ev.innerCall c w.serial] = if c = c' then [w.serial] else [] := by
      intro c'
      simp only [callsOf, List.filterMap_cons, callOf, List.filterMap_nil]
      split <;> simp_all
    rcases he with ⟨he1, he2⟩ | ⟨he1, he2⟩
    · refine ⟨by rw [he1]; exact hperm, ?_⟩
      intro c'; rw [he2, callsOf_append, hcall]
    · refine ⟨by rw [he1, finishCall_serials]; exact hperm, ?_⟩
      intro c'; rw [he2, callsOf_append, callsOf_append, hcall, finishCall_evs, List.append_nil]

theorem LogInv_readyOne {s : State} (c' i : Nat) (h : LogInv s) : LogInv (readyOne s c' i) := by
  unfold readyOne
  split
  · exact h
  · rename_i cl hl
    rcases readyCall_serials s.now c' i { cl := cl, serial := s.serial } with he | ⟨hp, hev⟩
    · rw [he]
      intro c
      show (callsOf c (s.log ++ [])).Perm (serialsOf (setCall s.calls c' cl) c)
      rw [List.append_nil, serialsOf_setCall _ _ _ _ _ hl]
      by_cases hc : c = c'
      · subst hc; rw [if_pos rfl]; have := h c; unfold serialsOf at this; rw [hl] at this; exact this
      · rw [if_neg hc]; exact h c
    · intro c
      show (callsOf c (s.log ++ _)).Perm (serialsOf (setCall s.calls c' _) c)
      rw [callsOf_append, serialsOf_setCall _ _ _ _ _ hl, hev c]
      by_cases hc : c = c'
      · subst hc
        rw [if_pos rfl, if_pos rfl]
        have := h c; unfold serialsOf at this; rw [hl] at this
        exact (List.Perm.append_right _ this).trans hp.symm
      · have hc' : ¬ c' = c := fun e => hc e.symm
        rw [if_neg hc, if_neg hc']
        show (callsOf c s.log ++ ([] ++ [])).Perm _
        simpa using h c

theorem LogInv_foldl_fireOne (ks : List Fire) : ∀ s : State, LogInv s → LogInv (ks.foldl fireOne s) := by
  induction ks with
  | nil => intro s h; exact h
  | cons k tl ih =>
    intro s h
    apply ih
    cases k with
    | done k => exact LogInv_finishOne k h
    | rdy c i => exact LogInv_readyOne c i h

theorem LogInv_stepS (cfg : Cfg) {s : State} (op : Op) (h : LogInv s) : LogInv (stepS cfg s op) := by
  cases op with
  | arrive c' plan warm =>
    show LogInv (arriveS s c' plan warm)
    unfold arriveS
    split
    · exact h
    · rename_i hn
      intro c
      have hc := h c
      show (callsOf c s.log).Perm (serialsOf (s.calls ++ [(c', { plan := plan, warm := warm })]) c)
      unfold serialsOf at hc ⊢
      cases hl : lookup s.calls c with
      | some cl => rw [lookup_append_some hl]; rw [hl] at hc; exact hc
      | none =>
        rw [lookup_append_none hl, lookup_cons]; rw [hl] at hc
        by_cases hcc : c' = c
        · rw [if_pos hcc]; exact hc
        · rw [if_neg hcc]; exact hc
  | poll c' =>
    show LogInv (pollS cfg s c')
    unfold pollS
    split
    · exact h
    · rename_i cl hl
      have hw : WL c' (serialsAsc cl) (pollCall cfg s.now c' { cl := cl, serial := s.serial }) :=
        WL_pollCall ⟨fun _ _ => rfl, by simp [callsOf]⟩
      intro c
      show (callsOf c (s.log ++ _)).Perm (serialsOf (setCall s.calls c' _) c)
      rw [callsOf_append, serialsOf_setCall _ _ _ _ _ hl]
      by_cases hc : c = c'
      · subst hc
        have hcc := h c
        unfold serialsOf at hcc
        rw [hl] at hcc
        rw [if_pos rfl, hw.2]
        exact List.Perm.append_right _ hcc
      · rw [if_neg hc, hw.1 c hc, List.append_nil]; exact h c
  | drop c' =>
    show LogInv (dropS s c')
    unfold dropS
    split
    · exact h
    · rename_i cl hl
      intro c
      show (callsOf c s.log).Perm (serialsOf (setCall s.calls c' _) c)
      rw [serialsOf_setCall _ _ _ _ _ hl]
      by_cases hc : c = c'
      · subst hc
        have hcc := h c
        unfold serialsOf at hcc
        rw [hl] at hcc
        rw [if_pos rfl]
        have : serialsAsc (dropCall cl) = serialsAsc cl := by unfold dropCall; split <;> rfl
        rw [this]; exact hcc
      · rw [if_neg hc]; exact h c
  | adv ms order =>
    show LogInv (advS s ms order)
    unfold advS
    dsimp only
    split
    · exact LogInv_foldl_fireOne _ _ h
    · apply LogInv_foldl_fireOne
      intro c
      show (callsOf c (s.log ++ [Ev.raw "choice-not-allowed"])).Perm _
      rw [callsOf_append]
      have : callsOf c [Ev.raw "choice-not-allowed"] = [] := rfl
      rw [this, List.append_nil]; exact h c
  | refused c' kind v =>
    intro c
    show (callsOf c (s.log ++ [Ev.result c' (.inner kind v)])).Perm _
    rw [callsOf_append]
    have : callsOf c [Ev.result c' (.inner kind v)] = [] := rfl
    rw [this, List.append_nil]; exact h c

theorem loginv_reachable (cfg : Cfg) (ops : List Op) : LogInv (run cfg ops) := by
  unfold run
  suffices ∀ s : State, LogInv s → LogInv (ops.foldl (stepS cfg) s) from this init (fun _ => List.Perm.refl _)
  induction ops with
  | nil => intro s h; exact h
  | cons op tl ih => intro s h; exact ih _ (LogInv_stepS cfg op h)

/-! ## request ids are unique: `(c, cl) ∈ calls ↔ lookup calls c = some cl` -/

def keys (l : List (Nat × Call)) : List Nat := l.map (·.1)

theorem lookup_none_iff (l : List (Nat × Call)) (c : Nat) : lookup l c = none ↔ c ∉ keys l := by
  induction l with
  | nil => simp [lookup, keys]
  | cons p tl ih =>
    obtain ⟨k, x⟩ := p
    rw [lookup_cons]
    by_cases hk : k = c
    · subst hk; simp [keys]
    · simp only [hk, if_false, ih]
      simp [keys]
      intro _; exact fun e => hk e.symm

theorem mem_iff_lookup_of_nodup {l : List (Nat × Call)} (hn : (keys l).Nodup) (c : Nat) (cl : Call) :
    (c, cl) ∈ l ↔ lookup l c = some cl := by
  induction l with
  | nil => simp [lookup]
  | cons p tl ih =>
    obtain ⟨k, x⟩ := p
    have hn' : (keys tl).Nodup := (List.nodup_cons.mp hn).2
    have hk' : k ∉ keys tl := (List.nodup_cons.mp hn).1
    rw [lookup_cons, List.mem_cons]
    by_cases hk : k = c
    · subst hk
      simp only [if_true, Option.some.injEq, Prod.mk.injEq, true_and]
      constructor
      · rintro (h | h)
        · exact h.symm
        · exact absurd (List.mem_map.mpr ⟨(k, cl), h, rfl⟩) hk'
      · intro h; exact Or.inl h.symm
    · simp only [hk, if_false]
      rw [← ih hn']
      constructor
      · rintro (h | h)
        · cases h; exact absurd rfl hk
        · exact h
      · intro h; exact Or.inr h

theorem keys_setCall (l : List (Nat × Call)) (c : Nat) (v : Call) : keys (setCall l c v) = keys l := by
  unfold keys setCall
  rw [List.map_map]
  apply List.map_congr_left
  intro p _
  simp only [Function.comp]
  split <;> rfl

theorem keys_finishOne (s : State) (k : Nat) : keys (finishOne s k).calls = keys s.calls := by
  unfold keys finishOne
  simp [List.map_map, Function.comp]

theorem keys_readyOne (s : State) (c i : Nat) : keys (readyOne s c i).calls = keys s.calls := by
  unfold readyOne
  split
  · rfl
  · exact keys_setCall ..

theorem keys_fireOne (s : State) (f : Fire) : keys (fireOne s f).calls = keys s.calls := by
  cases f with
  | done k => exact keys_finishOne s k
  | rdy c i => exact keys_readyOne s c i

theorem keys_foldl_fireOne (ks : List Fire) : ∀ s : State, keys (ks.foldl fireOne s).calls = keys s.calls := by
  induction ks with
  | nil => intro s; rfl
  | cons k tl ih => intro s; rw [List.foldl_cons, ih, keys_fireOne]

theorem keys_nodup_stepS (cfg : Cfg) {s : State} (op : Op) (h : (keys s.calls).Nodup) :
    (keys (stepS cfg s op).calls).Nodup := by
  cases op with
  | arrive c plan warm =>
    show (keys (arriveS s c plan warm).calls).Nodup
    unfold arriveS
    split
    · exact h
    · rename_i hn
      have hnone : lookup s.calls c = none := by
        cases hl : lookup s.calls c with
        | none => rfl
        | some v => rw [hl] at hn; simp at hn
      have := (lookup_none_iff _ _).mp hnone
      show (keys (s.calls ++ [(c, _)])).Nodup
      unfold keys at *
      rw [List.map_append, List.nodup_append]
      refine ⟨h, by simp, ?_⟩
      intro a ha b hb
      simp at hb; subst hb
      intro e; subst e; exact this ha
  | poll c =>
    show (keys (pollS cfg s c).calls).Nodup
    unfold pollS
    split
    · exact h
    · show (keys (setCall s.calls c _)).Nodup
      rw [keys_setCall]; exact h
  | drop c =>
    show (keys (dropS s c).calls).Nodup
    unfold dropS
    split
    · exact h
    · show (keys (setCall s.calls c _)).Nodup
      rw [keys_setCall]; exact h
  | adv ms order =>
    show (keys (advS s ms order).calls).Nodup
    unfold advS
    dsimp only
    split
    · rw [keys_foldl_fireOne]; exact h
    · rw [keys_foldl_fireOne]; exact h
  | refused c kind v => exact h

theorem keys_nodup_reachable (cfg : Cfg) (ops : List Op) : (keys (run cfg ops).calls).Nodup := by
  unfold run
  suffices ∀ s : State, (keys s.calls).Nodup → (keys (ops.foldl (stepS cfg) s).calls).Nodup from
    this init List.nodup_nil
  induction ops with
  | nil => intro s h; exact h
  | cons op tl ih => intro s h; exact ih _ (keys_nodup_stepS cfg op h)

/-! ## a polled call leaves no due hedge unstarted (a zero delay for a later hedge does not end the hedging) -/

theorem callAttempt_shape (now c : Nat) (w : W) :
    starts (callAttempt now c w).cl = now :: starts w.cl ∧
    (callAttempt now c w).cl.nextHedgeAt = w.cl.nextHedgeAt := by
  have p4 : starts (pushAttempt now w).cl = now :: starts w.cl := rfl
  have p5 : (pushAttempt now w).cl.nextHedgeAt = w.cl.nextHedgeAt := rfl
  rw [callAttempt_cl]
  split
  · exact ⟨by rw [finishCall_starts, p4], by rw [finishCall_nextHedgeAt, p5]⟩
  · exact ⟨p4, p5⟩

theorem startAttempt_shape (now c : Nat) (w : W) :
    starts (startAttempt now c w).cl = now :: starts w.cl ∧
    (startAttempt now c w).cl.nextHedgeAt = w.cl.nextHedgeAt := by
  rcases startAttempt_cases now c w with ⟨evs, he, _⟩ | ⟨wt, e, _, he⟩ | ⟨e, he⟩
  · rw [he]; exact callAttempt_shape now c { w with evs := w.evs ++ evs }
  · rw [he]; exact ⟨rfl, rfl⟩
  · rw [he, failAttempt_cl]
    exact ⟨by rw [finMove_starts _ _ _ _ _ rfl]; rfl, by rw [finMove_nextHedgeAt]⟩

/-- the select loop's second arm is enabled: an attempt is left to start, its timer has elapsed (and is one that can
elapse at all) -/
def HedgeDue (cfg : Cfg) (now : Nat) (cl : Call) : Prop :=
  cl.attempts.length < cfg.max ∧ cl.nextHedgeAt ≤ now ∧ cfg.never cl.attempts.length = false

theorem spawnLat_no_due (cfg : Cfg) (now c : Nat) : ∀ (fuel : Nat) (w : W),
    cfg.max ≤ w.cl.attempts.length + fuel → ¬ HedgeDue cfg now (spawnLat cfg now c fuel w).cl := by
  intro fuel
  induction fuel with
  | zero =>
    intro w h
    unfold spawnLat
    intro hd
    have := hd.1
    omega
  | succ n ih =>
    intro w h
    unfold spawnLat
    split
    · apply ih
      have hl : (startAttempt now c w).cl.attempts.length = w.cl.attempts.length + 1 := by
        rw [length_eq_starts, (startAttempt_shape now c w).1, List.length_cons, ← length_eq_starts]
      dsimp only
      split
      · show cfg.max ≤ (startAttempt now c w).cl.attempts.length + n
        omega
      · omega
    · rename_i hg
      exact hg

/-- a poll of a call in latency mode that leaves it in latency mode has started every hedge that was due -/
theorem pollCall_no_due (cfg : Cfg) (now c : Nat) (w : W) (hp : w.cl.phase = .latency)
    (hq : (pollCall cfg now c w).cl.phase = .latency) : ¬ HedgeDue cfg now (pollCall cfg now c w).cl := by
  unfold pollCall at hq ⊢
  rw [hp] at hq ⊢
  dsimp only at hq ⊢
  unfold pollLatency at hq ⊢
  dsimp only at hq ⊢
  split
  · apply spawnLat_no_due
    omega
  · rename_i hn
    rw [if_neg hn] at hq
    exact absurd hq hn

end TR.Hedge
