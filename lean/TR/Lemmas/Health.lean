import TR.Model.Health
/-!
# Health check: helper lemmas for C18

A. counters vs. history of completed checks (`Counts`, maximality, threshold reached ⇒ status)
B. selection (`availFrom`, soundness, none-iff-none, round-robin rotation)
C. the timed model: every reachable slot is the fold of its own history
-/
namespace TR.Health

/-! ## A. thresholds -/

/-- the completed checks that delivered a result other than `unknown` -/
def knownOf (os : List Outcome) : List Outcome := os.filter Outcome.known

theorem knownOf_snoc_unknown (os : List Outcome) : knownOf (os ++ [.unknown]) = knownOf os := by
  simp [knownOf, List.filter_append, Outcome.known]

theorem knownOf_snoc_known (os : List Outcome) (o : Outcome) (h : o.known = true) :
    knownOf (os ++ [o]) = knownOf os ++ [o] := by
  simp [knownOf, List.filter_append, h]

theorem runRes_snoc (sth fth : Nat) (os : List Outcome) (o : Outcome) :
    runRes sth fth (os ++ [o]) = stepRes sth fth (runRes sth fth os) o := by
  simp [runRes, List.foldl_append]

@[simp] theorem onHealthy_fails (sth : Nat) (c : Ctx) : (onHealthy sth c).fails = 0 := by
  unfold onHealthy recordSuccess; simp only; split <;> rfl
@[simp] theorem onHealthy_succs (sth : Nat) (c : Ctx) : (onHealthy sth c).succs = c.succs + 1 := by
  unfold onHealthy recordSuccess; simp only; split <;> rfl
@[simp] theorem onDegraded_fails (c : Ctx) : (onDegraded c).fails = 0 := rfl
@[simp] theorem onDegraded_succs (c : Ctx) : (onDegraded c).succs = c.succs + 1 := rfl
@[simp] theorem onDegraded_status (c : Ctx) : (onDegraded c).status = .degraded := rfl
@[simp] theorem onFailure_fails (fth : Nat) (c : Ctx) : (onFailure fth c).fails = c.fails + 1 := by
  unfold onFailure recordFailure; simp only; split <;> rfl
@[simp] theorem onFailure_succs (fth : Nat) (c : Ctx) : (onFailure fth c).succs = 0 := by
  unfold onFailure recordFailure; simp only; split <;> rfl

theorem onHealthy_status (sth : Nat) (c : Ctx) :
    (onHealthy sth c).status = if c.succs + 1 ≥ sth then .healthy else c.status := by
  unfold onHealthy recordSuccess; simp only; split <;> rfl

theorem onFailure_status (fth : Nat) (c : Ctx) :
    (onFailure fth c).status = if c.fails + 1 ≥ fth then .unhealthy else c.status := by
  unfold onFailure recordFailure; simp only; split <;> rfl

/-- a suffix of the known history, all of whose members satisfy `p`, of length `k` -/
def HasRun (p : Outcome → Bool) (os : List Outcome) (k : Nat) : Prop :=
  ∃ pre run, knownOf os = pre ++ run ∧ run.length = k ∧ ∀ x ∈ run, p x = true

theorem HasRun.zero (p : Outcome → Bool) (os : List Outcome) : HasRun p os 0 :=
  ⟨knownOf os, [], by simp, rfl, by simp⟩

/-- a run can be shortened from the left -/
theorem HasRun.shorten {p : Outcome → Bool} {os : List Outcome} {k m : Nat} (h : HasRun p os k)
    (hm : m ≤ k) : HasRun p os m := by
  obtain ⟨pre, run, he, hl, hp⟩ := h
  refine ⟨pre ++ run.take (k - m), run.drop (k - m), ?_, ?_, ?_⟩
  · rw [List.append_assoc, List.take_append_drop]; exact he
  · simp [List.length_drop]; omega
  · intro x hx; exact hp x (List.mem_of_mem_drop hx)

theorem HasRun.snoc {p : Outcome → Bool} {os : List Outcome} {k : Nat} (o : Outcome)
    (h : HasRun p os k) (hk : o.known = true) (hp : p o = true) : HasRun p (os ++ [o]) (k + 1) := by
  obtain ⟨pre, run, he, hl, hpr⟩ := h
  refine ⟨pre, run ++ [o], ?_, by simp [hl], ?_⟩
  · rw [knownOf_snoc_known os o hk, he, List.append_assoc]
  · intro x hx
    rcases List.mem_append.1 hx with hx | hx
    · exact hpr x hx
    · simp at hx; subst hx; exact hp

theorem HasRun.snoc_unknown {p : Outcome → Bool} {os : List Outcome} {k : Nat}
    (h : HasRun p os k) : HasRun p (os ++ [.unknown]) k := by
  obtain ⟨pre, run, he, hl, hpr⟩ := h
  exact ⟨pre, run, by rw [knownOf_snoc_unknown]; exact he, hl, hpr⟩

/-- the counters are witnessed by the history: the last `fails` known results all failed, the
last `succs` known results were all healthy or degraded -/
structure Counts (os : List Outcome) (c : Ctx) : Prop where
  fails : HasRun Outcome.failing os c.fails
  succs : HasRun Outcome.passing os c.succs

theorem counts_step (sth fth : Nat) (os : List Outcome) (c : Ctx) (o : Outcome) (h : Counts os c) :
    Counts (os ++ [o]) (stepRes sth fth c o) := by
  cases o with
  | unknown => exact ⟨h.fails.snoc_unknown, h.succs.snoc_unknown⟩
  | healthy =>
    refine ⟨?_, ?_⟩
    · simp only [stepRes, onHealthy_fails]; exact HasRun.zero _ _
    · simp only [stepRes, onHealthy_succs]; exact h.succs.snoc _ rfl rfl
  | degraded =>
    refine ⟨?_, ?_⟩
    · simp only [stepRes, onDegraded_fails]; exact HasRun.zero _ _
    · simp only [stepRes, onDegraded_succs]; exact h.succs.snoc _ rfl rfl
  | unhealthy =>
    refine ⟨?_, ?_⟩
    · simp only [stepRes, onFailure_fails]; exact h.fails.snoc _ rfl rfl
    · simp only [stepRes, onFailure_succs]; exact HasRun.zero _ _
  | timedOut =>
    refine ⟨?_, ?_⟩
    · simp only [stepRes, onFailure_fails]; exact h.fails.snoc _ rfl rfl
    · simp only [stepRes, onFailure_succs]; exact HasRun.zero _ _

theorem counts_foldl (sth fth : Nat) (os hist : List Outcome) (c : Ctx) (h : Counts hist c) :
    Counts (hist ++ os) (os.foldl (stepRes sth fth) c) := by
  induction os generalizing hist c with
  | nil => simpa using h
  | cons o tl ih =>
    have := ih (hist ++ [o]) (stepRes sth fth c o) (counts_step sth fth hist c o h)
    simpa [List.append_assoc] using this

theorem counts_run (sth fth : Nat) (os : List Outcome) : Counts os (runRes sth fth os) := by
  have := counts_foldl sth fth os [] {} ⟨HasRun.zero _ _, HasRun.zero _ _⟩
  simpa [runRes] using this

/-- a step that newly publishes `unhealthy` is a failing one that brings the counter to the threshold -/
theorem step_to_unhealthy (sth fth : Nat) (c : Ctx) (o : Outcome)
    (h0 : c.status ≠ .unhealthy) (h1 : (stepRes sth fth c o).status = .unhealthy) :
    o.failing = true ∧ fth ≤ (stepRes sth fth c o).fails := by
  cases o with
  | unknown => exact absurd h1 h0
  | healthy =>
    simp only [stepRes, onHealthy_status] at h1
    split at h1
    · cases h1
    · exact absurd h1 h0
  | degraded => simp [stepRes] at h1
  | unhealthy =>
    simp only [stepRes, onFailure_status] at h1
    split at h1
    · exact ⟨rfl, by simp only [stepRes, onFailure_fails]; omega⟩
    · exact absurd h1 h0
  | timedOut =>
    simp only [stepRes, onFailure_status] at h1
    split at h1
    · exact ⟨rfl, by simp only [stepRes, onFailure_fails]; omega⟩
    · exact absurd h1 h0

/-- a step that newly publishes `healthy` is a healthy one that brings the counter to the threshold -/
theorem step_to_healthy (sth fth : Nat) (c : Ctx) (o : Outcome)
    (h0 : c.status ≠ .healthy) (h1 : (stepRes sth fth c o).status = .healthy) :
    o = .healthy ∧ sth ≤ (stepRes sth fth c o).succs := by
  cases o with
  | unknown => exact absurd h1 h0
  | healthy =>
    simp only [stepRes, onHealthy_status] at h1
    split at h1
    · exact ⟨rfl, by simp only [stepRes, onHealthy_succs]; omega⟩
    · exact absurd h1 h0
  | degraded => simp [stepRes] at h1
  | unhealthy =>
    simp only [stepRes, onFailure_status] at h1
    split at h1
    · cases h1
    · exact absurd h1 h0
  | timedOut =>
    simp only [stepRes, onFailure_status] at h1
    split at h1
    · cases h1
    · exact absurd h1 h0

/-! ### maximality of the counters, and "threshold reached ⇒ published" -/

theorem split_snoc {α : Type} {pre run K : List α} {o : α} (h : pre ++ run = K ++ [o]) :
    run = [] ∨ ∃ run', run = run' ++ [o] ∧ pre ++ run' = K := by
  induction pre generalizing K with
  | nil => exact Or.inr ⟨K, by simpa using h, rfl⟩
  | cons a p ih =>
    cases K with
    | nil =>
      simp at h
      exact Or.inl h.2.2
    | cons b K' =>
      simp at h
      rcases ih h.2 with h' | ⟨r', hr, hk⟩
      · exact Or.inl h'
      · exact Or.inr ⟨r', hr, by simp [h.1, hk]⟩

/-- no run of `p`-results at the end of the known history is longer than `k` -/
def MaxRun (p : Outcome → Bool) (os : List Outcome) (k : Nat) : Prop :=
  ∀ pre run, knownOf os = pre ++ run → (∀ x ∈ run, p x = true) → run.length ≤ k

theorem MaxRun.snoc_unknown {p : Outcome → Bool} {os : List Outcome} {k : Nat} (h : MaxRun p os k) :
    MaxRun p (os ++ [.unknown]) k := by
  intro pre run he; rw [knownOf_snoc_unknown] at he; exact h pre run he

theorem MaxRun.snoc_hit {p : Outcome → Bool} {os : List Outcome} {k : Nat} (o : Outcome)
    (h : MaxRun p os k) (hk : o.known = true) : MaxRun p (os ++ [o]) (k + 1) := by
  intro pre run he hp
  rw [knownOf_snoc_known os o hk] at he
  rcases split_snoc he.symm with h' | ⟨r', hr, hK⟩
  · simp [h']
  · have := h pre r' hK.symm (fun x hx => hp x (by rw [hr]; exact List.mem_append_left _ hx))
    rw [hr]; simp; omega

theorem MaxRun.snoc_miss {p : Outcome → Bool} {os : List Outcome} (o : Outcome)
    (hk : o.known = true) (hp : p o = false) : MaxRun p (os ++ [o]) 0 := by
  intro pre run he hall
  rw [knownOf_snoc_known os o hk] at he
  rcases split_snoc he.symm with h' | ⟨r', hr, _⟩
  · simp [h']
  · have := hall o (by rw [hr]; simp)
    rw [hp] at this; cases this

structure Exact (os : List Outcome) (c : Ctx) : Prop where
  fails : MaxRun Outcome.failing os c.fails
  succs : MaxRun Outcome.passing os c.succs

theorem exact_step (sth fth : Nat) (os : List Outcome) (c : Ctx) (o : Outcome) (h : Exact os c) :
    Exact (os ++ [o]) (stepRes sth fth c o) := by
  cases o with
  | unknown => exact ⟨h.fails.snoc_unknown, h.succs.snoc_unknown⟩
  | healthy =>
    refine ⟨?_, ?_⟩
    · simp only [stepRes, onHealthy_fails]; exact MaxRun.snoc_miss _ rfl rfl
    · simp only [stepRes, onHealthy_succs]; exact h.succs.snoc_hit _ rfl
  | degraded =>
    refine ⟨?_, ?_⟩
    · simp only [stepRes, onDegraded_fails]; exact MaxRun.snoc_miss _ rfl rfl
    · simp only [stepRes, onDegraded_succs]; exact h.succs.snoc_hit _ rfl
  | unhealthy =>
    refine ⟨?_, ?_⟩
    · simp only [stepRes, onFailure_fails]; exact h.fails.snoc_hit _ rfl
    · simp only [stepRes, onFailure_succs]; exact MaxRun.snoc_miss _ rfl rfl
  | timedOut =>
    refine ⟨?_, ?_⟩
    · simp only [stepRes, onFailure_fails]; exact h.fails.snoc_hit _ rfl
    · simp only [stepRes, onFailure_succs]; exact MaxRun.snoc_miss _ rfl rfl

theorem exact_foldl (sth fth : Nat) (os hist : List Outcome) (c : Ctx) (h : Exact hist c) :
    Exact (hist ++ os) (os.foldl (stepRes sth fth) c) := by
  induction os generalizing hist c with
  | nil => simpa using h
  | cons o tl ih =>
    have := ih (hist ++ [o]) (stepRes sth fth c o) (exact_step sth fth hist c o h)
    simpa [List.append_assoc] using this

theorem exact_run (sth fth : Nat) (os : List Outcome) : Exact os (runRes sth fth os) := by
  have h0 : Exact [] {} := ⟨fun pre run he _ => by simp [knownOf] at he; simp [he.2],
                            fun pre run he _ => by simp [knownOf] at he; simp [he.2]⟩
  have := exact_foldl sth fth os [] {} h0
  simpa [runRes] using this

/-- `fail`: while the failure counter is positive and has reached the threshold the published
status is `unhealthy`. `pass`: an `unhealthy` status with a positive success counter means that
counter is still below the success threshold (a success run that reached it would have been
published — by a healthy check as `healthy`, by a degraded one as `degraded`). -/
structure Published (sth fth : Nat) (c : Ctx) : Prop where
  fail : 0 < c.fails → fth ≤ c.fails → c.status = .unhealthy
  pass : 0 < c.succs → c.status = .unhealthy → c.succs < sth

theorem published_step (sth fth : Nat) (c : Ctx) (o : Outcome) (h : Published sth fth c) :
    Published sth fth (stepRes sth fth c o) := by
  cases o with
  | unknown => exact h
  | healthy =>
    refine ⟨by simp [stepRes], ?_⟩
    simp only [stepRes, onHealthy_succs, onHealthy_status]
    intro _ hs
    split at hs
    · cases hs
    · omega
  | degraded => exact ⟨by simp [stepRes], by simp [stepRes]⟩
  | unhealthy =>
    refine ⟨?_, by simp [stepRes]⟩
    simp only [stepRes, onFailure_fails, onFailure_status]
    intro _ hf; simp [hf]
  | timedOut =>
    refine ⟨?_, by simp [stepRes]⟩
    simp only [stepRes, onFailure_fails, onFailure_status]
    intro _ hf; simp [hf]

theorem published_run (sth fth : Nat) (os : List Outcome) : Published sth fth (runRes sth fth os) := by
  unfold runRes
  have : ∀ c, Published sth fth c → Published sth fth (os.foldl (stepRes sth fth) c) := by
    induction os with
    | nil => intro c h; exact h
    | cons o tl ih => intro c h; exact ih _ (published_step sth fth c o h)
  exact this {} ⟨by simp, by simp⟩

/-! ## B. selection -/

theorem isHealthy_iff (s : St) : s.isHealthy = true ↔ s = .healthy := by cases s <;> simp [St.isHealthy]
theorem usable_iff (s : St) : s.usable = true ↔ s = .healthy ∨ s = .degraded := by cases s <;> simp [St.usable]
theorem isHealthy_false_iff (s : St) : s.isHealthy = false ↔ s ≠ .healthy := by cases s <;> simp [St.isHealthy]
theorem usable_of_isHealthy (s : St) (h : s.isHealthy = true) : s.usable = true := by
  cases s <;> simp_all [St.isHealthy, St.usable]
theorem filter_usable (p : St → Bool) (hp : p = St.isHealthy ∨ p = St.usable) :
    ∀ s, p s = true → s.usable = true := by
  rcases hp with rfl | rfl
  · exact usable_of_isHealthy
  · exact fun _ h => h

theorem availFrom_mem {p : St → Bool} {k : Nat} {sts : List St} {i : Nat} {st : St}
    (h : (i, st) ∈ availFrom p k sts) : p st = true ∧ k ≤ i ∧ sts[i - k]? = some st := by
  induction sts generalizing k with
  | nil => simp [availFrom] at h
  | cons a tl ih =>
    unfold availFrom at h
    split at h
    · rcases List.mem_cons.1 h with h | h
      · cases h; rename_i hp; exact ⟨hp, Nat.le_refl _, by simp⟩
      · obtain ⟨h1, h2, h3⟩ := ih h
        refine ⟨h1, by omega, ?_⟩
        have : i - k = (i - (k + 1)) + 1 := by omega
        rw [this]; simpa using h3
    · obtain ⟨h1, h2, h3⟩ := ih h
      refine ⟨h1, by omega, ?_⟩
      have : i - k = (i - (k + 1)) + 1 := by omega
      rw [this]; simpa using h3

theorem availFrom_complete {p : St → Bool} {k : Nat} {sts : List St} {j : Nat} {st : St}
    (hj : sts[j]? = some st) (hp : p st = true) : (k + j, st) ∈ availFrom p k sts := by
  induction sts generalizing k j with
  | nil => simp at hj
  | cons a tl ih =>
    unfold availFrom
    cases j with
    | zero =>
      simp at hj; subst hj; simp [hp]
    | succ j =>
      simp at hj
      have := ih (k := k + 1) hj
      have e : k + 1 + j = k + (j + 1) := by omega
      rw [e] at this
      split
      · exact List.mem_cons_of_mem _ this
      · exact this

/-- when every entry qualifies, the qualifying indices are `k, k+1, …` -/
theorem availFrom_all {p : St → Bool} (sts : List St) (k : Nat) (h : ∀ s ∈ sts, p s = true) :
    ((availFrom p k sts).map (·.1)).length = sts.length ∧
    ∀ m, m < sts.length → ((availFrom p k sts).map (·.1))[m]? = some (k + m) := by
  induction sts generalizing k with
  | nil => simp [availFrom]
  | cons a tl ih =>
    have ha : p a = true := h a (by simp)
    have ht : ∀ s ∈ tl, p s = true := fun s hs => h s (by simp [hs])
    obtain ⟨h1, h2⟩ := ih (k + 1) ht
    unfold availFrom
    simp only [ha, if_true, List.map_cons, List.length_cons]
    refine ⟨by omega, ?_⟩
    intro m hm
    cases m with
    | zero => simp
    | succ m =>
      simp only [List.getElem?_cons_succ]
      rw [h2 m (by omega)]
      congr 1; omega

theorem availFrom_snd_all (p : St → Bool) (k : Nat) (sts : List St) :
    ∀ s ∈ (availFrom p k sts).map (·.2), p s = true := by
  intro s hs
  obtain ⟨⟨i, st⟩, hm, he⟩ := List.mem_map.1 hs
  simp at he; subst he
  exact (availFrom_mem hm).1

theorem position_lt {p : St → Bool} {sts : List St} {i : Nat} (h : position p sts = some i) :
    i < sts.length := by
  induction sts generalizing i with
  | nil => simp [position] at h
  | cons a tl ih =>
    unfold position at h
    split at h
    · cases h; simp
    · cases hq : position p tl with
      | none => simp [hq] at h
      | some j =>
        simp [hq] at h; subst h
        have := ih hq; simp; omega

theorem position_head {p : St → Bool} {a : St} {tl : List St} (h : p a = true) :
    position p (a :: tl) = some 0 := by
  simp [position, h]

/-- whatever the strategy and the counter: a returned resource exists and passes the filter -/
theorem getWith_sound (p : St → Bool) (strat : Strat) (sts : List St) (ctr i : Nat)
    (h : (getWith p strat sts ctr).1 = some i) : ∃ st, sts[i]? = some st ∧ p st = true := by
  unfold getWith at h
  simp only at h
  split at h
  · cases h
  · split at h
    · cases h
    · rename_i j ctr' _
      simp only at h
      cases hj : (availFrom p 0 sts)[j]? with
      | none => simp [hj] at h
      | some pr =>
        simp [hj] at h
        obtain ⟨i', st⟩ := pr
        simp at h; subst h
        have hm : (i', st) ∈ availFrom p 0 sts := List.mem_of_getElem? hj
        obtain ⟨h1, _, h3⟩ := availFrom_mem hm
        exact ⟨st, by simpa using h3, h1⟩

/-- nothing qualifies ⇒ nothing is returned and the counter is untouched, for every strategy -/
theorem getWith_none_of_empty (p : St → Bool) (strat : Strat) (sts : List St) (ctr : Nat)
    (h : availFrom p 0 sts = []) : getWith p strat sts ctr = (none, ctr) := by
  unfold getWith; simp [h]

def Strat.builtin : Strat → Bool
  | .custom _ => false
  | _ => true

/-- round-robin over a slice whose entries are all usable: position `ctr mod length` -/
theorem select_rr_all (l : List St) (ctr : Nat) (hne : l ≠ []) (hall : ∀ s ∈ l, s.usable = true) :
    select .rr l ctr = (some (ctr % l.length), ctr + 1) := by
  obtain ⟨h1, h2⟩ := availFrom_all (p := St.usable) l 0 hall
  have hpos : 0 < l.length := List.length_pos_iff.2 hne
  unfold select
  have e1 : l.isEmpty = false := by cases l <;> simp_all
  simp only [e1]
  have e2 : ((availFrom St.usable 0 l).map (·.1)).isEmpty = false := by
    cases hq : (availFrom St.usable 0 l).map (·.1) with
    | nil => rw [hq] at h1; simp at h1; omega
    | cons _ _ => rfl
  simp only [e2, h1]
  have := h2 (ctr % l.length) (Nat.mod_lt _ hpos)
  simp [this]

/-- random selection over a slice whose entries are all usable: position `draw mod length`, counter untouched -/
theorem select_random_all (l : List St) (ctr d : Nat) (hne : l ≠ []) (hall : ∀ s ∈ l, s.usable = true) :
    select (.random d) l ctr = (some (d % l.length), ctr) := by
  obtain ⟨h1, h2⟩ := availFrom_all (p := St.usable) l 0 hall
  have hpos : 0 < l.length := List.length_pos_iff.2 hne
  unfold select
  have e1 : l.isEmpty = false := by cases l <;> simp_all
  simp only [e1]
  have e2 : ((availFrom St.usable 0 l).map (·.1)).isEmpty = false := by
    cases hq : (availFrom St.usable 0 l).map (·.1) with
    | nil => rw [hq] at h1; simp at h1; omega
    | cons _ _ => rfl
  simp only [e2, h1]
  have := h2 (d % l.length) (Nat.mod_lt _ hpos)
  simp [this]

/-- a built-in strategy over a non-empty slice of usable entries selects a valid position -/
theorem select_builtin_valid (strat : Strat) (hb : strat.builtin = true) (l : List St) (ctr : Nat)
    (hne : l ≠ []) (hall : ∀ s ∈ l, s.usable = true) :
    ∃ j, (select strat l ctr).1 = some j ∧ j < l.length := by
  have hpos : 0 < l.length := List.length_pos_iff.2 hne
  cases strat with
  | custom f => cases hb
  | rr => rw [select_rr_all l ctr hne hall]; exact ⟨_, rfl, Nat.mod_lt _ hpos⟩
  | random d => rw [select_random_all l ctr d hne hall]; exact ⟨_, rfl, Nat.mod_lt _ hpos⟩
  | first =>
    cases l with
    | nil => exact absurd rfl hne
    | cons a tl =>
      refine ⟨0, ?_, by simp⟩
      simp [select, position_head (hall a (by simp))]
  | prefer =>
    cases l with
    | nil => exact absurd rfl hne
    | cons a tl =>
      simp only [select, List.isEmpty_cons]
      cases hq : position St.isHealthy (a :: tl) with
      | some i => exact ⟨i, by simp, position_lt hq⟩
      | none => exact ⟨0, by simp [position_head (hall a (by simp))], by simp⟩

theorem getWith_some_of_nonempty (p : St → Bool) (hp : ∀ s, p s = true → s.usable = true)
    (strat : Strat) (hb : strat.builtin = true) (sts : List St) (ctr : Nat)
    (hne : availFrom p 0 sts ≠ []) : ∃ i, (getWith p strat sts ctr).1 = some i := by
  have hall : ∀ s ∈ (availFrom p 0 sts).map (·.2), s.usable = true :=
    fun s hs => hp s (availFrom_snd_all p 0 sts s hs)
  have hne' : (availFrom p 0 sts).map (·.2) ≠ [] := by simpa using hne
  obtain ⟨j, hj, hlt⟩ := select_builtin_valid strat hb _ ctr hne' hall
  unfold getWith
  have e : (availFrom p 0 sts).isEmpty = false := by
    cases hq : availFrom p 0 sts with
    | nil => exact absurd hq hne
    | cons _ _ => rfl
  simp only [e]
  cases hs : select strat (List.map (fun x => x.snd) (availFrom p 0 sts)) ctr with
  | mk r c =>
    rw [hs] at hj; simp at hj; subst hj
    simp at hlt
    simp [List.getElem?_eq_getElem hlt]

/-- `get_with_filter` under round-robin: entry `ctr mod n` of the eligible list, counter + 1 -/
theorem getWith_rr (p : St → Bool) (hp : ∀ s, p s = true → s.usable = true) (sts : List St)
    (ctr : Nat) (hne : availFrom p 0 sts ≠ []) :
    getWith p .rr sts ctr =
      ((((availFrom p 0 sts).map (·.1))[ctr % (availFrom p 0 sts).length]?), ctr + 1) := by
  have hall : ∀ s ∈ (availFrom p 0 sts).map (·.2), s.usable = true :=
    fun s hs => hp s (availFrom_snd_all p 0 sts s hs)
  have hne' : (availFrom p 0 sts).map (·.2) ≠ [] := by simpa using hne
  have hs := select_rr_all _ ctr hne' hall
  unfold getWith
  have e : (availFrom p 0 sts).isEmpty = false := by
    cases hq : availFrom p 0 sts with
    | nil => exact absurd hq hne
    | cons _ _ => rfl
  simp only [e, hs]
  simp

/-- reading a list cyclically from any offset, once around, is a permutation of it -/
theorem rot_perm {α : Type} (l : List α) (c : Nat) :
    ((List.range l.length).map (fun j => l[(c + j) % l.length]?)).Perm (l.map some) := by
  by_cases hn : l.length = 0
  · have : l = [] := List.length_eq_zero_iff.1 hn
    subst this; simp
  have hpos : 0 < l.length := Nat.pos_of_ne_zero hn
  let r := c % l.length
  have hr : r < l.length := Nat.mod_lt _ hpos
  have key : (List.range l.length).map (fun j => l[(c + j) % l.length]?) = (l.drop r ++ l.take r).map some := by
    apply List.ext_getElem?
    intro i
    by_cases hi : i < l.length
    · have hmod : (c + i) % l.length = if r + i < l.length then r + i else r + i - l.length := by
        have : (c + i) % l.length = (r + i) % l.length := by
          show (c + i) % l.length = (c % l.length + i) % l.length
          rw [Nat.add_mod, Nat.mod_eq_of_lt hi]
        rw [this]
        split
        · rename_i h; exact Nat.mod_eq_of_lt h
        · rename_i h
          have h2 : r + i = (r + i - l.length) + l.length := by omega
          conv => lhs; rw [h2, Nat.add_mod_right]
          exact Nat.mod_eq_of_lt (by omega)
      have lhs : ((List.range l.length).map (fun j => l[(c + j) % l.length]?))[i]? = some (l[(c + i) % l.length]?) := by
        simp [hi]
      rw [lhs, hmod]
      simp only [List.getElem?_map, List.getElem?_append, List.length_drop]
      split
      · rename_i h
        have h' : i < l.length - r := by omega
        simp [h']
      · rename_i h
        have h' : ¬ i < l.length - r := by omega
        simp only [h', if_false]
        have hlt : i - (l.length - r) < r := by omega
        rw [List.getElem?_take_of_lt hlt]
        have e : i - (l.length - r) = r + i - l.length := by omega
        rw [e]
        have hlt2 : r + i - l.length < l.length := by omega
        simp [List.getElem?_eq_getElem hlt2]
    · have h1 : ((List.range l.length).map (fun j => l[(c + j) % l.length]?))[i]? = none := by
        apply List.getElem?_eq_none; simp; omega
      have h2 : ((l.drop r ++ l.take r).map some)[i]? = none := by
        apply List.getElem?_eq_none; simp; omega
      rw [h1, h2]
  rw [key]
  apply List.Perm.map
  have : (l.drop r ++ l.take r).Perm (l.take r ++ l.drop r) := List.perm_append_comm
  simpa [List.take_append_drop] using this

theorem picks_rr (p : St → Bool) (hp : ∀ s, p s = true → s.usable = true) (sts : List St)
    (hne : availFrom p 0 sts ≠ []) (m ctr : Nat) :
    picks p .rr sts m ctr =
      (List.range m).map (fun j => ((availFrom p 0 sts).map (·.1))[(ctr + j) % (availFrom p 0 sts).length]?) := by
  induction m generalizing ctr with
  | zero => simp [picks]
  | succ m ih =>
    unfold picks
    rw [getWith_rr p hp sts ctr hne]
    simp only
    rw [ih (ctr + 1), List.range_succ_eq_map]
    simp only [List.map_cons, List.map_map, Nat.add_zero]
    congr 1
    apply List.map_congr_left
    intro j _
    simp only [Function.comp]
    have : ctr + 1 + j = ctr + (j + 1) := by omega
    rw [this]

theorem availFrom_eq_nil_iff (p : St → Bool) (k : Nat) (sts : List St) :
    availFrom p k sts = [] ↔ ∀ st ∈ sts, p st = false := by
  induction sts generalizing k with
  | nil => simp [availFrom]
  | cons a tl ih =>
    unfold availFrom
    split
    · rename_i h; simp [h]
    · rename_i h; simp [ih, h]

theorem getWith_none_iff (p : St → Bool) (hp : ∀ s, p s = true → s.usable = true)
    (strat : Strat) (hb : strat.builtin = true) (sts : List St) (ctr : Nat) :
    (getWith p strat sts ctr).1 = none ↔ ∀ st ∈ sts, p st = false := by
  rw [← availFrom_eq_nil_iff p 0 sts]
  constructor
  · intro h
    apply Classical.byContradiction
    intro hne
    obtain ⟨i, hi⟩ := getWith_some_of_nonempty p hp strat hb sts ctr hne
    rw [hi] at h; cases h
  · intro h; rw [getWith_none_of_empty p strat sts ctr h]

/-! ## C. the timed model: every slot is the fold of its own history -/

/-- the recorded `on_health_change` invocations lead from `a` to `b`, each one a real change -/
def linked : St → List (St × St) → St → Bool
  | a, [], b => a == b
  | a, (x, y) :: tl, b => a == x && x != y && linked y tl b

theorem linked_snoc (a x y : St) (l : List (St × St)) (h : linked a l x = true) (hxy : x ≠ y) :
    linked a (l ++ [(x, y)]) y = true := by
  induction l generalizing a with
  | nil =>
    simp only [linked, beq_iff_eq] at h
    subst h
    simp [linked, hxy]
  | cons p tl ih =>
    obtain ⟨u, v⟩ := p
    simp only [linked, Bool.and_eq_true, List.cons_append] at h ⊢
    exact ⟨h.1, ih v h.2⟩

structure SlotOK (cfg : Cfg) (sl : Slot) : Prop where
  fold : sl.core = runRes cfg.sth cfg.fth sl.hist
  chain : linked .unknown sl.changes sl.core.status = true

structure Inv (cfg : Cfg) (s : State) : Prop where
  len : s.slots.length = cfg.n
  fold : ∀ sl ∈ s.slots, SlotOK cfg sl

theorem updAt_length {α : Type} (l : List α) (i : Nat) (f : α → α) : (updAt l i f).length = l.length := by
  induction l generalizing i with
  | nil => rfl
  | cons a tl ih => cases i <;> simp [updAt, ih]

theorem mem_updAt {α : Type} {l : List α} {i : Nat} {f : α → α} {x : α} (h : x ∈ updAt l i f) :
    x ∈ l ∨ ∃ a ∈ l, x = f a := by
  induction l generalizing i with
  | nil => simp [updAt] at h
  | cons a tl ih =>
    cases i with
    | zero =>
      simp [updAt] at h
      rcases h with h | h
      · exact Or.inr ⟨a, by simp, h⟩
      · exact Or.inl (by simp [h])
    | succ i =>
      simp [updAt] at h
      rcases h with h | h
      · exact Or.inl (by simp [h])
      · rcases ih h with h | ⟨b, hb, hx⟩
        · exact Or.inl (by simp [h])
        · exact Or.inr ⟨b, by simp [hb], hx⟩

theorem stepSlot_ok (cfg : Cfg) (sl : Slot) (o : Outcome) (h : SlotOK cfg sl) : SlotOK cfg (stepSlot cfg sl o) := by
  refine ⟨?_, ?_⟩
  · simp only [stepSlot, runRes_snoc, h.fold]
  · simp only [stepSlot]
    split
    · rename_i he; rw [← he]; exact h.chain
    · rename_i hne; exact linked_snoc _ _ _ _ h.chain hne

/-- updating one slot with a function that keeps `SlotOK` keeps the invariant -/
theorem inv_updAt (cfg : Cfg) (s : State) (i : Nat) (f : Slot → Slot)
    (hf : ∀ sl, SlotOK cfg sl → SlotOK cfg (f sl)) (h : Inv cfg s) :
    Inv cfg { s with slots := updAt s.slots i f } := by
  refine ⟨by simp [updAt_length, h.len], ?_⟩
  intro sl hsl
  rcases mem_updAt hsl with h' | ⟨a, ha, hx⟩
  · exact h.fold sl h'
  · rw [hx]; exact hf a (h.fold a ha)

theorem inv_of_slots_eq (cfg : Cfg) {s s' : State} (he : s'.slots = s.slots) (h : Inv cfg s) : Inv cfg s' :=
  ⟨by rw [he]; exact h.len, by rw [he]; exact h.fold⟩

theorem emit_inv (cfg : Cfg) (s : State) (evs : List HEv) (h : Inv cfg s) : Inv cfg (emit s evs) :=
  ⟨h.len, h.fold⟩

theorem finish_inv (cfg : Cfg) (s : State) (p : Pending) (o : Outcome) (h : Inv cfg s) :
    Inv cfg (finish cfg s p o) := by
  unfold finish
  exact emit_inv cfg _ _ (inv_updAt cfg s p.r _ (fun sl hs => stepSlot_ok cfg sl o hs) h)

theorem popScript_ok (cfg : Cfg) (sl : Slot) (h : SlotOK cfg sl) : SlotOK cfg (popScript sl) :=
  ⟨h.fold, h.chain⟩

theorem startOne_inv (cfg : Cfg) (s : State) (r : Nat) (h : Inv cfg s) : Inv cfg (startOne cfg s r) := by
  unfold startOne
  split
  · exact h
  · have h0 : Inv cfg { s with slots := updAt s.slots r popScript, nchk := s.nchk + 1 } :=
      inv_of_slots_eq cfg (s := { s with slots := updAt s.slots r popScript }) rfl (inv_updAt cfg s r _ (popScript_ok cfg) h)
    have h1 := emit_inv cfg _ [HEv.checkStart r (nextItem cfg ‹Slot›) s.nchk] h0
    simp only
    split
    · exact finish_inv cfg _ _ _ h1
    · exact ⟨h1.len, h1.fold⟩

theorem foldl_inv {β : Type} (cfg : Cfg) (f : State → β → State) (hf : ∀ s b, Inv cfg s → Inv cfg (f s b))
    (l : List β) (s : State) (h : Inv cfg s) : Inv cfg (l.foldl f s) := by
  induction l generalizing s with
  | nil => exact h
  | cons b tl ih => exact ih _ (hf s b h)

theorem startRound_inv (cfg : Cfg) (s : State) (h : Inv cfg s) : Inv cfg (startRound cfg s) := by
  unfold startRound
  exact foldl_inv cfg _ (fun s r hs => startOne_inv cfg s r hs) _ s h

theorem finishOne_inv (cfg : Cfg) (now : Nat) (s : State) (p : Pending) (h : Inv cfg s) :
    Inv cfg (finishOne cfg now s p) := by
  unfold finishOne
  split
  · exact finish_inv cfg s _ _ h
  · exact ⟨h.len, h.fold⟩

theorem finishDue_inv (cfg : Cfg) (order : List Nat) (s : State) (h : Inv cfg s) : Inv cfg (finishDue cfg order s) := by
  unfold finishDue
  exact foldl_inv cfg _ (fun s p hs => finishOne_inv cfg _ s p hs) _ _ (⟨h.len, h.fold⟩)

/-- whatever order is reported, the checks that are processed are exactly the pending ones, each once -/
theorem arrange_perm (order : List Nat) (ps : List Pending) : (arrange order ps).Perm ps := by
  induction order generalizing ps with
  | nil => exact List.Perm.refl _
  | cons k tl ih =>
    unfold arrange
    split
    · rename_i p hp
      have hm : p ∈ ps := List.mem_of_find?_eq_some hp
      exact ((ih (ps.erase p)).cons p).trans (List.perm_cons_erase hm).symm
    · exact ih ps

theorem quiesce_inv (cfg : Cfg) (fuel : Nat) (s : State) (h : Inv cfg s) : Inv cfg (quiesce cfg fuel s) := by
  induction fuel generalizing s with
  | zero => exact h
  | succ f ih =>
    unfold quiesce
    split
    · exact h
    · exact h
    · exact ih _ (⟨h.len, h.fold⟩)
    · split
      · split
        · exact ⟨h.len, h.fold⟩
        · exact ih _ (⟨h.len, h.fold⟩)
      · exact h
    · split
      · exact ih _ (startRound_inv cfg _ (⟨h.len, h.fold⟩))
      · exact h
    · split
      · exact h
      · exact ih _ (⟨h.len, h.fold⟩)

theorem doGet_slots (cfg : Cfg) (s : State) (b : Bool) (pick : Option Nat) : (doGet cfg s b pick).slots = s.slots := by
  unfold doGet; simp only; split <;> rfl

theorem doGet_phase (cfg : Cfg) (s : State) (b : Bool) (pick : Option Nat) : (doGet cfg s b pick).phase = s.phase := by
  unfold doGet; simp only; split <;> rfl

theorem doGet_pending (cfg : Cfg) (s : State) (b : Bool) (pick : Option Nat) : (doGet cfg s b pick).pending = s.pending := by
  unfold doGet; simp only; split <;> rfl

theorem doGet_now (cfg : Cfg) (s : State) (b : Bool) (pick : Option Nat) : (doGet cfg s b pick).now = s.now := by
  unfold doGet; simp only; split <;> rfl

theorem doGet_inv (cfg : Cfg) (s : State) (b : Bool) (pick : Option Nat) (h : Inv cfg s) : Inv cfg (doGet cfg s b pick) :=
  inv_of_slots_eq cfg (doGet_slots cfg s b pick) h

theorem doOp_inv (cfg : Cfg) (s : State) (op : Op) (h : Inv cfg s) : Inv cfg (doOp cfg s op) := by
  cases op with
  | adv ms o => exact ⟨h.len, h.fold⟩
  | script r items =>
    simp only [doOp]
    split
    · exact inv_updAt cfg s r _ (fun sl hs => ⟨hs.fold, hs.chain⟩) h
    · exact emit_inv cfg _ _ h
  | status r => exact emit_inv cfg _ _ h
  | details r => exact emit_inv cfg _ _ h
  | all => exact emit_inv cfg _ _ h
  | getHealthy pick => exact doGet_inv cfg s true pick h
  | getUsable pick => exact doGet_inv cfg s false pick h
  | start => exact ⟨h.len, h.fold⟩
  | stop => exact ⟨h.len, h.fold⟩
  | config => exact emit_inv cfg _ _ h
  | u8 v => exact emit_inv cfg _ _ h
  | fresh n => exact emit_inv cfg _ _ h
  | bad => exact emit_inv cfg _ _ h
  | idle => exact h

theorem stepS_inv (cfg : Cfg) (s : State) (op : Op) (h : Inv cfg s) : Inv cfg (stepS cfg s op) :=
  quiesce_inv cfg _ _ (finishDue_inv cfg _ _ (doOp_inv cfg s op h))

theorem init_inv (cfg : Cfg) : Inv cfg (init cfg) := by
  refine ⟨by simp [init], ?_⟩
  intro sl hsl
  simp [init] at hsl
  rw [hsl.2]; exact ⟨rfl, rfl⟩

theorem inv_reachable (cfg : Cfg) (ops : List Op) : Inv cfg (run cfg ops) :=
  foldl_inv cfg _ (fun s op hs => stepS_inv cfg s op hs) ops _ (init_inv cfg)

/-! ## D. `stop()`: nothing changes any more once the checks in flight are done -/

theorem arrange_nil (order : List Nat) : arrange order [] = [] := by
  induction order with
  | nil => rfl
  | cons k tl ih => simp [arrange, ih]

theorem quiesce_stopped (cfg : Cfg) (f : Nat) (s : State) (h : s.phase = .stopped) : quiesce cfg f s = s := by
  cases f with
  | zero => rfl
  | succ f => unfold quiesce; simp [h]

theorem map_updAt_of {α β : Type} (g : α → β) (f : α → α) (hf : ∀ a, g (f a) = g a) (l : List α) (i : Nat) :
    (updAt l i f).map g = l.map g := by
  induction l generalizing i with
  | nil => rfl
  | cons a tl ih => cases i <;> simp [updAt, hf, ih]

theorem stepS_stopped (cfg : Cfg) (s : State) (op : Op) (hp : s.phase = .stopped) (hq : s.pending = [])
    (hop : op ≠ .start) :
    (stepS cfg s op).slots.map (·.core) = s.slots.map (·.core) ∧
    (stepS cfg s op).slots.map (·.hist) = s.slots.map (·.hist) ∧
    (stepS cfg s op).phase = .stopped ∧ (stepS cfg s op).pending = [] := by
  have key : ∀ s' : State, s'.phase = .stopped → s'.pending = [] →
      s'.slots.map (·.core) = s.slots.map (·.core) → s'.slots.map (·.hist) = s.slots.map (·.hist) →
      (quiesce cfg fuel (finishDue cfg (orderOf op) s')).slots.map (·.core) = s.slots.map (·.core) ∧
      (quiesce cfg fuel (finishDue cfg (orderOf op) s')).slots.map (·.hist) = s.slots.map (·.hist) ∧
      (quiesce cfg fuel (finishDue cfg (orderOf op) s')).phase = .stopped ∧
      (quiesce cfg fuel (finishDue cfg (orderOf op) s')).pending = [] := by
    intro s' h1 h2 h3 h4
    have e : finishDue cfg (orderOf op) s' = s' := by
      unfold finishDue
      rw [h2, arrange_nil]
      simp only [List.foldl_nil]
      cases s'; simp_all
    rw [e, quiesce_stopped cfg _ _ h1]
    exact ⟨h3, h4, h1, h2⟩
  unfold stepS
  cases op with
  | start => exact absurd rfl hop
  | script r items =>
    apply key
    · simp only [doOp]; split <;> simp [emit, hp]
    · simp only [doOp]; split <;> simp [emit, hq]
    · simp only [doOp]; split
      · exact map_updAt_of (fun sl : Slot => sl.core) (fun sl => { sl with script := sl.script ++ items }) (fun _ => rfl) s.slots r
      · rfl
    · simp only [doOp]; split
      · exact map_updAt_of (fun sl : Slot => sl.hist) (fun sl => { sl with script := sl.script ++ items }) (fun _ => rfl) s.slots r
      · rfl
  | stop => exact key _ rfl (by simp [doOp, emit, orphan, hq]) rfl rfl
  | adv ms o => exact key _ hp hq rfl rfl
  | status r => exact key _ hp hq rfl rfl
  | details r => exact key _ hp hq rfl rfl
  | all => exact key _ hp hq rfl rfl
  | getHealthy pick =>
    exact key _ ((doGet_phase cfg s true pick).trans hp) ((doGet_pending cfg s true pick).trans hq)
      (by rw [show doOp cfg s (.getHealthy pick) = doGet cfg s true pick from rfl, doGet_slots])
      (by rw [show doOp cfg s (.getHealthy pick) = doGet cfg s true pick from rfl, doGet_slots])
  | getUsable pick =>
    exact key _ ((doGet_phase cfg s false pick).trans hp) ((doGet_pending cfg s false pick).trans hq)
      (by rw [show doOp cfg s (.getUsable pick) = doGet cfg s false pick from rfl, doGet_slots])
      (by rw [show doOp cfg s (.getUsable pick) = doGet cfg s false pick from rfl, doGet_slots])
  | config => exact key _ hp hq rfl rfl
  | u8 v => exact key _ hp hq rfl rfl
  | fresh n => exact key _ hp hq rfl rfl
  | bad => exact key _ hp hq rfl rfl
  | idle => exact key _ hp hq rfl rfl

theorem stopped_frozen (cfg : Cfg) (ops : List Op) (s : State) (hp : s.phase = .stopped) (hq : s.pending = [])
    (hops : ∀ op ∈ ops, op ≠ .start) :
    (ops.foldl (stepS cfg) s).slots.map (·.core) = s.slots.map (·.core) ∧
    (ops.foldl (stepS cfg) s).slots.map (·.hist) = s.slots.map (·.hist) ∧
    (ops.foldl (stepS cfg) s).phase = .stopped := by
  induction ops generalizing s with
  | nil => exact ⟨rfl, rfl, hp⟩
  | cons op tl ih =>
    obtain ⟨h1, h2, h3, h4⟩ := stepS_stopped cfg s op hp hq (hops op (by simp))
    obtain ⟨i1, i2, i3⟩ := ih (stepS cfg s op) h3 h4 (fun o ho => hops o (by simp [ho]))
    exact ⟨i1.trans h1, i2.trans h2, i3⟩

end TR.Health
