import TR.Lemmas.HealthSelect
/-!
# Health check: the ghost history is the event log (C18, audit item "hist is never tied to checkDone / checkDrop")

The event log (`State.log`) is what the correspondence check compares with the implementation, line by line. Here:

* `outcomesOf r log` — the outcomes the `check_done r …` / `check_drop r …` lines of a log report for resource `r`;
* `Tr` — the invariant of every reachable state: each slot's ghost `hist` **is** `outcomesOf r log` (`bridge`), the
  shared round-robin counter **is** the number of successful `get_healthy` / `get_usable` lines of the log (`ctr`),
  and **every probe line of the log** reports what the check lines *before it* determine (`obs`, `EvOK`): `status`,
  `details`, `all` report the fold `runRes` of those outcomes; a `get_*` line reports `getWith` over those statuses
  with the counter of that moment.
-/
namespace TR.Health

/-! ## reading a log -/

/-- what a log line says about a completed check of resource `r` -/
def outcomeAt (r : Nat) : HEv → Option Outcome
  | .checkDone r' sym _ => if r' = r then some sym.outcome else none
  | .checkDrop r' _ => if r' = r then some .timedOut else none
  | _ => none

/-- the completed checks of resource `r` a log reports, oldest first -/
def outcomesOf (r : Nat) (log : List HEv) : List Outcome := log.filterMap (outcomeAt r)

theorem outcomesOf_append (r : Nat) (a b : List HEv) : outcomesOf r (a ++ b) = outcomesOf r a ++ outcomesOf r b := by
  simp [outcomesOf, List.filterMap_append]

def HEv.isCheckEnd : HEv → Bool
  | .checkDone _ _ _ => true
  | .checkDrop _ _ => true
  | _ => false

def HEv.isProbe : HEv → Bool
  | .status _ _ => true
  | .details _ _ => true
  | .all _ => true
  | .got _ _ => true
  | _ => false

def HEv.isGotSome : HEv → Bool
  | .got _ (some _) => true
  | _ => false

/-- the selections (of either method) that returned a resource -/
def gotCount (log : List HEv) : Nat := (log.filter HEv.isGotSome).length

/-- the value of `round_robin_counter` a log determines: only round-robin moves it -/
def ctrAt (strat : Strat) (log : List HEv) : Nat :=
  match strat with
  | .rr => gotCount log
  | _ => 0

/-- resource `r` as the check lines of a log determine it -/
def coreAt (cfg : Cfg) (r : Nat) (log : List HEv) : Ctx := runRes cfg.sth cfg.fth (outcomesOf r log)

/-- the published statuses a log determines -/
def stAt (cfg : Cfg) (log : List HEv) : List St := (List.range cfg.n).map (fun r => (coreAt cfg r log).status)

/-- the filter of `get_healthy` (`true`) / `get_usable` -/
def filt (b : Bool) : St → Bool := if b then St.isHealthy else St.usable

theorem filt_ok (b : Bool) : ∀ s, filt b s = true → s.usable = true := by
  cases b
  · exact fun _ h => h
  · exact usable_of_isHealthy

/-- the strategy a selection may run with under the configured one: itself; under `Random`, any draw -/
def Runs (c st : Strat) : Prop :=
  match c with
  | .random _ => ∃ d, st = .random d
  | _ => st = c

/-- what a probe line must report, given the log before it -/
def EvOK (cfg : Cfg) (pre : List HEv) : HEv → Prop
  | .status r st => st = (stAt cfg pre)[r]?
  | .details r d => d = if r < cfg.n then some (coreAt cfg r pre) else none
  | .all sts => sts = stAt cfg pre
  | .got b res => ∃ st, Runs cfg.strat st ∧ res = (getWith (filt b) st (stAt cfg pre) (ctrAt cfg.strat pre)).1
  | _ => True

/-- every line of the log is justified by the lines before it -/
def LogOK (cfg : Cfg) (log : List HEv) : Prop := ∀ k e, log[k]? = some e → EvOK cfg (log.take k) e

theorem evOK_of_not_probe (cfg : Cfg) (pre : List HEv) (e : HEv) (h : e.isProbe = false) : EvOK cfg pre e := by
  cases e <;> simp_all [EvOK, HEv.isProbe]

theorem outcomesOf_free (r : Nat) (evs : List HEv) (h : ∀ e ∈ evs, e.isCheckEnd = false) : outcomesOf r evs = [] := by
  induction evs with
  | nil => rfl
  | cons e tl ih =>
    have he := h e (by simp)
    have ht := ih (fun e' h' => h e' (by simp [h']))
    unfold outcomesOf at ht ⊢
    rw [List.filterMap_cons]
    have : outcomeAt r e = none := by cases e <;> simp_all [outcomeAt, HEv.isCheckEnd]
    rw [this]; exact ht

theorem gotCount_append (a b : List HEv) : gotCount (a ++ b) = gotCount a + gotCount b := by
  simp [gotCount, List.filter_append]

theorem gotCount_free (evs : List HEv) (h : ∀ e ∈ evs, e.isProbe = false) : gotCount evs = 0 := by
  unfold gotCount
  rw [List.length_eq_zero_iff, List.filter_eq_nil_iff]
  intro e he
  have := h e he
  cases e <;> simp_all [HEv.isProbe, HEv.isGotSome]

theorem ctrAt_append_free (strat : Strat) (log evs : List HEv) (h : ∀ e ∈ evs, e.isProbe = false) :
    ctrAt strat (log ++ evs) = ctrAt strat log := by
  unfold ctrAt
  split
  · rw [gotCount_append, gotCount_free evs h]; rfl
  · rfl

theorem logOK_append (cfg : Cfg) (log evs : List HEv) (h : LogOK cfg log)
    (h2 : ∀ k e, evs[k]? = some e → EvOK cfg (log ++ evs.take k) e) : LogOK cfg (log ++ evs) := by
  intro k e hk
  by_cases hlt : k < log.length
  · rw [List.getElem?_append_left hlt] at hk
    rw [List.take_append_of_le_length (Nat.le_of_lt hlt)]
    exact h k e hk
  · have hge : log.length ≤ k := Nat.le_of_not_lt hlt
    rw [List.getElem?_append_right hge] at hk
    rw [List.take_append, List.take_of_length_le hge]
    exact h2 _ e hk

theorem logOK_append_free (cfg : Cfg) (log evs : List HEv) (h : LogOK cfg log) (hf : ∀ e ∈ evs, e.isProbe = false) :
    LogOK cfg (log ++ evs) :=
  logOK_append cfg log evs h (fun _ e hk => evOK_of_not_probe cfg _ e (hf e (List.mem_of_getElem? hk)))

theorem logOK_snoc (cfg : Cfg) (log : List HEv) (e : HEv) (h : LogOK cfg log) (he : EvOK cfg log e) :
    LogOK cfg (log ++ [e]) := by
  apply logOK_append cfg log [e] h
  intro k e' hk
  cases k with
  | zero => simp at hk; subst hk; simpa using he
  | succ k => simp at hk

/-! ## the invariant -/

structure Tr (cfg : Cfg) (s : State) : Prop where
  inv : Inv cfg s
  bridge : ∀ r sl, s.slots[r]? = some sl → sl.hist = outcomesOf r s.log
  ctr : s.ctr = ctrAt cfg.strat s.log
  obs : LogOK cfg s.log

theorem tr_core {cfg : Cfg} {s : State} (h : Tr cfg s) {r : Nat} {sl : Slot} (hr : s.slots[r]? = some sl) :
    sl.core = coreAt cfg r s.log := by
  rw [(h.inv.fold sl (List.mem_of_getElem? hr)).fold, h.bridge r sl hr]; rfl

theorem tr_statuses {cfg : Cfg} {s : State} (h : Tr cfg s) : statuses s = stAt cfg s.log := by
  apply List.ext_getElem?
  intro r
  unfold statuses stAt
  simp only [List.getElem?_map]
  by_cases hr : r < cfg.n
  · have hr' : r < s.slots.length := by rw [h.inv.len]; exact hr
    rw [List.getElem?_eq_getElem hr', List.getElem?_range hr]
    simp only [Option.map_some]
    rw [tr_core h (List.getElem?_eq_getElem hr')]
  · have hr' : s.slots.length ≤ r := by rw [h.inv.len]; omega
    rw [List.getElem?_eq_none hr', List.getElem?_eq_none (by simpa using Nat.le_of_not_lt hr)]
    rfl

theorem tr_congr {cfg : Cfg} {s s' : State} (h : Tr cfg s) (h1 : s'.slots = s.slots) (h2 : s'.log = s.log)
    (h3 : s'.ctr = s.ctr) : Tr cfg s' :=
  ⟨inv_of_slots_eq cfg h1 h.inv, by rw [h1, h2]; exact h.bridge, by rw [h2, h3]; exact h.ctr, by rw [h2]; exact h.obs⟩

theorem getElem?_updAt {α : Type} (l : List α) (i j : Nat) (f : α → α) :
    (updAt l i f)[j]? = if j = i then (l[j]?).map f else l[j]? := by
  induction l generalizing i j with
  | nil => simp [updAt]
  | cons a tl ih =>
    cases i with
    | zero => cases j <;> simp [updAt]
    | succ i =>
      cases j with
      | zero => simp [updAt]
      | succ j => simp [updAt, ih]

/-- an update of one slot that leaves status, counters and the ghost fields alone (scripts) -/
theorem tr_updAt_keep {cfg : Cfg} {s : State} (h : Tr cfg s) (i : Nat) (f : Slot → Slot)
    (hf : ∀ sl, (f sl).core = sl.core ∧ (f sl).hist = sl.hist ∧ (f sl).changes = sl.changes) :
    Tr cfg { s with slots := updAt s.slots i f } := by
  refine ⟨inv_updAt cfg s i f (fun sl hs => ⟨by rw [(hf sl).1, (hf sl).2.1]; exact hs.fold,
      by rw [(hf sl).1, (hf sl).2.2]; exact hs.chain⟩) h.inv, ?_, h.ctr, h.obs⟩
  intro r sl hr
  simp only [getElem?_updAt] at hr
  split at hr
  · cases hq : s.slots[r]? with
    | none => simp [hq] at hr
    | some sl0 =>
      simp [hq] at hr; subst hr
      rw [(hf sl0).2.1]; exact h.bridge r sl0 hq
  · exact h.bridge r sl hr

theorem tr_emit_free {cfg : Cfg} {s : State} (h : Tr cfg s) (evs : List HEv)
    (hf : ∀ e ∈ evs, e.isProbe = false ∧ e.isCheckEnd = false) : Tr cfg (emit s evs) := by
  refine ⟨emit_inv cfg s evs h.inv, ?_, ?_, ?_⟩
  · intro r sl hr
    show sl.hist = outcomesOf r (s.log ++ evs)
    rw [outcomesOf_append, outcomesOf_free r evs (fun e he => (hf e he).2), List.append_nil]
    exact h.bridge r sl hr
  · show s.ctr = ctrAt cfg.strat (s.log ++ evs)
    rw [ctrAt_append_free _ _ _ (fun e he => (hf e he).1)]; exact h.ctr
  · exact logOK_append_free cfg s.log evs h.obs (fun e he => (hf e he).1)

/-- a probe line other than a selection -/
theorem tr_emit_probe {cfg : Cfg} {s : State} (h : Tr cfg s) (e : HEv) (h1 : e.isGotSome = false)
    (h2 : e.isCheckEnd = false) (he : EvOK cfg s.log e) : Tr cfg (emit s [e]) := by
  refine ⟨emit_inv cfg s [e] h.inv, ?_, ?_, logOK_snoc cfg s.log e h.obs he⟩
  · intro r sl hr
    show sl.hist = outcomesOf r (s.log ++ [e])
    rw [outcomesOf_append, outcomesOf_free r [e] (by simpa using h2), List.append_nil]
    exact h.bridge r sl hr
  · show s.ctr = ctrAt cfg.strat (s.log ++ [e])
    rw [h.ctr]
    unfold ctrAt
    split
    · rw [gotCount_append]
      have : gotCount [e] = 0 := by simp [gotCount, h1]
      omega
    · rfl

/-! ## completed checks -/

/-- the outcome of a completed check is what its log line says -/
def Agrees (p : Pending) (o : Outcome) : Prop := o = .timedOut ∨ (p.item.sym ≠ .s ∧ o = p.item.sym.outcome)

theorem verdict_agrees (cfg : Cfg) (now : Nat) (p : Pending) (o : Outcome)
    (h : verdict cfg now p.start p.item = some o) : Agrees p o := by
  unfold verdict at h
  split at h
  · rename_i hc; exact Or.inr ⟨hc.1, by simpa using h.symm⟩
  · split at h
    · exact Or.inl (by simpa using h.symm)
    · cases h

theorem outcomeAt_doneEv (r : Nat) (p : Pending) (o : Outcome) (h : Agrees p o) :
    outcomeAt r (doneEv p o) = if p.r = r then some o else none := by
  rcases h with rfl | ⟨hs, rfl⟩
  · rfl
  · cases hsym : p.item.sym <;> first | exact absurd hsym hs | simp [doneEv, outcomeAt, Sym.outcome, hsym]

theorem doneEv_not_probe (p : Pending) (o : Outcome) : (doneEv p o).isProbe = false := by
  cases o <;> rfl

theorem callbacks_free (r : Nat) (o : Outcome) (old new : St) :
    ∀ e ∈ callbacks r o old new, e.isProbe = false ∧ e.isCheckEnd = false := by
  intro e he
  unfold callbacks at he
  rcases List.mem_append.1 he with h | h
  · split at h
    · simp at h; subst h; exact ⟨rfl, rfl⟩
    · cases h
  · split at h
    · cases h
    · simp at h; subst h; exact ⟨rfl, rfl⟩

theorem finish_tr {cfg : Cfg} {s : State} (h : Tr cfg s) (p : Pending) (o : Outcome) (ha : Agrees p o) :
    Tr cfg (finish cfg s p o) := by
  have hcb := callbacks_free p.r o (statusAt s.slots p.r) (statusAt (updAt s.slots p.r (fun sl => stepSlot cfg sl o)) p.r)
  have hnp : ∀ e ∈ doneEv p o :: callbacks p.r o (statusAt s.slots p.r)
      (statusAt (updAt s.slots p.r (fun sl => stepSlot cfg sl o)) p.r), e.isProbe = false := by
    intro e he
    rcases List.mem_cons.1 he with rfl | he
    · exact doneEv_not_probe p o
    · exact (hcb e he).1
  refine ⟨finish_inv cfg s p o h.inv, ?_, ?_, ?_⟩
  · intro r sl hr
    show sl.hist = outcomesOf r (s.log ++ _)
    rw [outcomesOf_append]
    have e2 : outcomesOf r (doneEv p o :: callbacks p.r o (statusAt s.slots p.r)
        (statusAt (updAt s.slots p.r (fun sl => stepSlot cfg sl o)) p.r)) = if p.r = r then [o] else [] := by
      have := outcomesOf_free r _ (fun e he => (hcb e he).2)
      unfold outcomesOf at this ⊢
      rw [List.filterMap_cons, outcomeAt_doneEv r p o ha]
      by_cases hpr : p.r = r
      · simp only [if_pos hpr]; rw [this]
      · simp only [if_neg hpr]; rw [this]
    rw [e2]
    have hr' : (updAt s.slots p.r (fun sl => stepSlot cfg sl o))[r]? = some sl := hr
    rw [getElem?_updAt] at hr'
    split at hr'
    · rename_i hrp
      cases hq : s.slots[r]? with
      | none => simp [hq] at hr'
      | some sl0 =>
        simp [hq] at hr'; subst hr'
        rw [if_pos hrp.symm]
        simp only [stepSlot]
        rw [h.bridge r sl0 hq]
    · rename_i hrp
      rw [if_neg (fun e => hrp e.symm), List.append_nil]
      exact h.bridge r sl hr'
  · show s.ctr = ctrAt cfg.strat (s.log ++ _)
    rw [ctrAt_append_free _ _ _ hnp]; exact h.ctr
  · exact logOK_append_free cfg s.log _ h.obs hnp

theorem startOne_tr {cfg : Cfg} {s : State} (h : Tr cfg s) (r : Nat) : Tr cfg (startOne cfg s r) := by
  unfold startOne
  split
  · exact h
  · rename_i sl hsl
    have h0 : Tr cfg { s with slots := updAt s.slots r popScript, nchk := s.nchk + 1 } :=
      tr_congr (s := { s with slots := updAt s.slots r popScript }) (tr_updAt_keep h r popScript (fun _ => ⟨rfl, rfl, rfl⟩))
        rfl rfl rfl
    have h1 := tr_emit_free h0 [HEv.checkStart r (nextItem cfg sl) s.nchk] (by simp [HEv.isProbe, HEv.isCheckEnd])
    simp only
    split
    · rename_i o ho
      exact finish_tr h1 _ o (verdict_agrees cfg s.now ⟨r, s.now, nextItem cfg sl, s.nchk, true⟩ o ho)
    · exact tr_congr h1 rfl rfl rfl

theorem foldl_tr {β : Type} (cfg : Cfg) (f : State → β → State) (hf : ∀ s b, Tr cfg s → Tr cfg (f s b))
    (l : List β) (s : State) (h : Tr cfg s) : Tr cfg (l.foldl f s) := by
  induction l generalizing s with
  | nil => exact h
  | cons b tl ih => exact ih _ (hf s b h)

theorem startRound_tr {cfg : Cfg} {s : State} (h : Tr cfg s) : Tr cfg (startRound cfg s) :=
  foldl_tr cfg _ (fun _ r hs => startOne_tr hs r) _ s h

theorem finishOne_tr {cfg : Cfg} (now : Nat) {s : State} (h : Tr cfg s) (p : Pending) : Tr cfg (finishOne cfg now s p) := by
  unfold finishOne
  split
  · rename_i o ho; exact finish_tr h p o (verdict_agrees cfg now p o ho)
  · exact tr_congr h rfl rfl rfl

theorem finishDue_tr {cfg : Cfg} (order : List Nat) {s : State} (h : Tr cfg s) : Tr cfg (finishDue cfg order s) := by
  unfold finishDue
  exact foldl_tr cfg _ (fun _ p hs => finishOne_tr s.now hs p) _ _ (tr_congr h rfl rfl rfl)

theorem quiesce_tr {cfg : Cfg} (f : Nat) {s : State} (h : Tr cfg s) : Tr cfg (quiesce cfg f s) := by
  induction f generalizing s with
  | zero => exact h
  | succ f ih =>
    unfold quiesce
    split
    · exact h
    · exact h
    · exact ih (tr_congr h rfl rfl rfl)
    · split
      · split
        · exact tr_congr h rfl rfl rfl
        · exact ih (tr_congr h rfl rfl rfl)
      · exact h
    · split
      · exact ih (startRound_tr (tr_congr h rfl rfl rfl))
      · exact h
    · split
      · exact h
      · exact ih (tr_congr h rfl rfl rfl)

/-! ## selections -/

theorem select_snd_of_ne_rr (st : Strat) (h : st ≠ .rr) (l : List St) (ctr : Nat) : (select st l ctr).2 = ctr := by
  unfold select
  split
  · rfl
  · cases st with
    | rr => exact absurd rfl h
    | first => rfl
    | prefer => rfl
    | custom f => rfl
    | random d => simp only; split <;> rfl

theorem getWith_snd_of_ne_rr (p : St → Bool) (st : Strat) (h : st ≠ .rr) (sts : List St) (ctr : Nat) :
    (getWith p st sts ctr).2 = ctr := by
  have hs := select_snd_of_ne_rr st h ((availFrom p 0 sts).map (·.2)) ctr
  unfold getWith
  simp only
  split
  · rfl
  · split
    · rename_i c' heq; rw [heq] at hs; exact hs
    · rename_i j c' heq; rw [heq] at hs; exact hs

theorem stratFor_runs {c : Strat} {p : St → Bool} {sts : List St} {pick : Option Nat} {st : Strat}
    (h : stratFor c p sts pick = some st) : Runs c st := by
  cases c with
  | random d0 =>
    simp only [stratFor] at h
    show ∃ d, st = .random d
    split at h
    · exact ⟨0, by simpa using h.symm⟩
    · split at h
      · rename_i i
        cases hq : posOf i ((availFrom p 0 sts).map (·.1)) with
        | none => simp [hq] at h
        | some d => simp [hq] at h; exact ⟨d, h.symm⟩
      · cases h
  | first => simp [stratFor] at h; exact h.symm
  | rr => simp [stratFor] at h; exact h.symm
  | prefer => simp [stratFor] at h; exact h.symm
  | custom f => simp [stratFor] at h; exact h.symm

/-- the counter after a selection is the counter its log line accounts for -/
theorem ctr_after_get (c st : Strat) (hr : Runs c st) (b : Bool) (sts : List St) (log : List HEv) :
    (getWith (filt b) st sts (ctrAt c log)).2 =
      ctrAt c (log ++ [.got b (getWith (filt b) st sts (ctrAt c log)).1]) := by
  cases c with
  | rr =>
    have : st = .rr := hr
    subst this
    simp only [ctrAt]
    rw [getWith_rr_eligible (filt b) (filt_ok b), gotCount_append]
    simp only
    by_cases he : eligible (filt b) sts = []
    · simp [he, gotCount, HEv.isGotSome]
    · have hpos : 0 < (eligible (filt b) sts).length := List.length_pos_iff.2 he
      have hlt := Nat.mod_lt (gotCount log) hpos
      rw [if_neg he, List.getElem?_eq_getElem hlt]
      rfl
  | random d0 =>
    obtain ⟨d, rfl⟩ : ∃ d, st = .random d := hr
    simp only [ctrAt]
    exact getWith_snd_of_ne_rr _ _ (by intro h; cases h) _ _
  | first =>
    have : st = .first := hr
    subst this
    simp only [ctrAt]
    exact getWith_snd_of_ne_rr _ _ (by intro h; cases h) _ _
  | prefer =>
    have : st = .prefer := hr
    subst this
    simp only [ctrAt]
    exact getWith_snd_of_ne_rr _ _ (by intro h; cases h) _ _
  | custom f =>
    have : st = .custom f := hr
    subst this
    simp only [ctrAt]
    exact getWith_snd_of_ne_rr _ _ (by intro h; cases h) _ _

theorem doGet_tr {cfg : Cfg} {s : State} (h : Tr cfg s) (b : Bool) (pick : Option Nat) : Tr cfg (doGet cfg s b pick) := by
  unfold doGet
  simp only
  have hp : (if b = true then St.isHealthy else St.usable) = filt b := rfl
  rw [hp]
  split
  · rename_i st hst
    have hruns := stratFor_runs hst
    have hsts := tr_statuses h
    refine ⟨⟨h.inv.len, h.inv.fold⟩, ?_, ?_, ?_⟩
    · intro r sl hr
      show sl.hist = outcomesOf r (s.log ++ [_])
      rw [outcomesOf_append, outcomesOf_free r [_] (by simp [HEv.isCheckEnd]), List.append_nil]
      exact h.bridge r sl hr
    · show (getWith (filt b) st (statuses s) s.ctr).2 = ctrAt cfg.strat (s.log ++ [.got b (getWith (filt b) st (statuses s) s.ctr).1])
      rw [h.ctr]
      exact ctr_after_get cfg.strat st hruns b (statuses s) s.log
    · apply logOK_snoc cfg s.log _ h.obs
      show ∃ st', Runs cfg.strat st' ∧ _ = _
      exact ⟨st, hruns, by rw [← hsts, ← h.ctr]⟩
  · exact tr_emit_free h [.notAllowed] (by simp [HEv.isProbe, HEv.isCheckEnd])

/-! ## operations, steps, runs -/

theorem doOp_tr {cfg : Cfg} {s : State} (h : Tr cfg s) (op : Op) : Tr cfg (doOp cfg s op) := by
  cases op with
  | adv ms o => exact tr_congr h rfl rfl rfl
  | script r items =>
    simp only [doOp]
    split
    · exact tr_updAt_keep h r _ (fun _ => ⟨rfl, rfl, rfl⟩)
    · exact tr_emit_free h [.noop] (by simp [HEv.isProbe, HEv.isCheckEnd])
  | status r =>
    apply tr_emit_probe h _ rfl rfl
    show _ = (stAt cfg s.log)[r]?
    rw [← tr_statuses h]; simp [statuses]
  | details r =>
    apply tr_emit_probe h _ rfl rfl
    show _ = if r < cfg.n then some (coreAt cfg r s.log) else none
    by_cases hr : r < cfg.n
    · have hr' : r < s.slots.length := by rw [h.inv.len]; exact hr
      rw [if_pos hr, List.getElem?_eq_getElem hr']
      simp only [Option.map_some]
      rw [tr_core h (List.getElem?_eq_getElem hr')]
    · have hr' : s.slots.length ≤ r := by rw [h.inv.len]; omega
      rw [if_neg hr, List.getElem?_eq_none hr']; rfl
  | all =>
    apply tr_emit_probe h _ rfl rfl
    show _ = stAt cfg s.log
    exact tr_statuses h
  | getHealthy pick => exact doGet_tr h true pick
  | getUsable pick => exact doGet_tr h false pick
  | start =>
    exact tr_emit_free (s := { s with phase := .spawned, pending := orphan s.pending }) (tr_congr h rfl rfl rfl)
      [.started] (by simp [HEv.isProbe, HEv.isCheckEnd])
  | stop =>
    exact tr_emit_free (s := { s with phase := .stopped, pending := orphan s.pending }) (tr_congr h rfl rfl rfl)
      [.stopped] (by simp [HEv.isProbe, HEv.isCheckEnd])
  | config =>
    apply tr_emit_free h
    intro e he
    simp only [List.mem_singleton] at he
    subst he
    split <;> exact ⟨rfl, rfl⟩
  | u8 v =>
    apply tr_emit_free h
    intro e he
    simp only [List.mem_singleton] at he
    subst he
    split <;> exact ⟨rfl, rfl⟩
  | fresh n =>
    apply tr_emit_free h
    intro e he
    simp only [List.mem_singleton] at he
    subst he
    split <;> exact ⟨rfl, rfl⟩
  | bad => exact tr_emit_free h [.noop] (by simp [HEv.isProbe, HEv.isCheckEnd])
  | idle => exact h

theorem stepS_tr {cfg : Cfg} {s : State} (h : Tr cfg s) (op : Op) : Tr cfg (stepS cfg s op) :=
  quiesce_tr _ (finishDue_tr _ (doOp_tr h op))

theorem init_tr (cfg : Cfg) : Tr cfg (init cfg) := by
  refine ⟨init_inv cfg, ?_, ?_, ?_⟩
  · intro r sl hr
    have hm := List.mem_of_getElem? hr
    simp [init] at hm
    rw [hm.2]; rfl
  · show 0 = ctrAt cfg.strat []
    unfold ctrAt; split <;> rfl
  · intro k e hk
    simp [init] at hk

theorem tr_reachable (cfg : Cfg) (ops : List Op) : Tr cfg (run cfg ops) :=
  foldl_tr cfg _ (fun _ op hs => stepS_tr hs op) ops _ (init_tr cfg)

/-- `LogOK` in the form "the log splits as `pre ++ e :: post`" -/
theorem logOK_split {cfg : Cfg} {log : List HEv} (h : LogOK cfg log) {pre post : List HEv} {e : HEv}
    (hs : log = pre ++ e :: post) : EvOK cfg pre e := by
  have := h pre.length e (by rw [hs]; simp)
  rw [hs] at this
  simpa using this

/-! ## first flips in a sequence of outcomes -/

/-- if folding `os2` after `os1` changes a property of the status from false to true, some check of `os2` does it -/
theorem first_flip (sth fth : Nat) (X : St) (os1 os2 : List Outcome)
    (h0 : (runRes sth fth os1).status ≠ X) (h1 : (runRes sth fth (os1 ++ os2)).status = X) :
    ∃ a o b, os2 = a ++ o :: b ∧ (runRes sth fth (os1 ++ a)).status ≠ X ∧
      (runRes sth fth ((os1 ++ a) ++ [o])).status = X := by
  induction os2 generalizing os1 with
  | nil => simp at h1; exact absurd h1 h0
  | cons o tl ih =>
    by_cases hx : (runRes sth fth (os1 ++ [o])).status = X
    · exact ⟨[], o, tl, rfl, by simpa using h0, by simpa using hx⟩
    · have h1' : (runRes sth fth ((os1 ++ [o]) ++ tl)).status = X := by simpa [List.append_assoc] using h1
      obtain ⟨a, o', b, he, ha, hb⟩ := ih (os1 ++ [o]) hx h1'
      refine ⟨o :: a, o', b, by simp [he], ?_, ?_⟩
      · simpa [List.append_assoc] using ha
      · simpa [List.append_assoc] using hb

/-- the check lines of `r` in a stretch of log: an outcome of `outcomesOf r mid` comes from a line of `mid` -/
theorem outcomesOf_split (r : Nat) (mid : List HEv) (a : List Outcome) (o : Outcome) (b : List Outcome)
    (h : outcomesOf r mid = a ++ o :: b) :
    ∃ m1 e m2, mid = m1 ++ e :: m2 ∧ outcomeAt r e = some o ∧ outcomesOf r m1 = a ∧ outcomesOf r m2 = b := by
  induction mid generalizing a with
  | nil => simp [outcomesOf] at h
  | cons e tl ih =>
    unfold outcomesOf at h
    rw [List.filterMap_cons] at h
    cases hq : outcomeAt r e with
    | none =>
      rw [hq] at h
      obtain ⟨m1, e', m2, he, ho, h1, h2⟩ := ih a h
      refine ⟨e :: m1, e', m2, by simp [he], ho, ?_, h2⟩
      unfold outcomesOf; rw [List.filterMap_cons, hq]; exact h1
    | some o0 =>
      rw [hq] at h
      simp only at h
      cases a with
      | nil =>
        simp at h
        exact ⟨[], e, tl, rfl, by rw [hq, h.1], rfl, h.2⟩
      | cons a0 atl =>
        simp at h
        obtain ⟨m1, e', m2, he, ho, h1, h2⟩ := ih atl h.2
        refine ⟨e :: m1, e', m2, by simp [he], ho, ?_, h2⟩
        unfold outcomesOf; rw [List.filterMap_cons, hq]
        simp only
        rw [h.1]
        show a0 :: outcomesOf r m1 = a0 :: atl
        rw [h1]

theorem stAt_getElem? (cfg : Cfg) (log : List HEv) (r : Nat) :
    (stAt cfg log)[r]? = if r < cfg.n then some (coreAt cfg r log).status else none := by
  unfold stAt
  simp only [List.getElem?_map]
  split
  · rename_i hr; rw [List.getElem?_range hr]; rfl
  · rename_i hr; rw [List.getElem?_eq_none (by simpa using Nat.le_of_not_lt hr)]; rfl

/-- a status line `status r = st` (or an entry of `all`) reports the fold of the check lines of `r` before it -/
theorem status_line {cfg : Cfg} {pre : List HEv} {r : Nat} {st : St} (h : EvOK cfg pre (.status r (some st))) :
    r < cfg.n ∧ st = (coreAt cfg r pre).status := by
  have h' : some st = (stAt cfg pre)[r]? := h
  rw [stAt_getElem?] at h'
  split at h'
  · exact ⟨‹_›, by simpa using h'⟩
  · cases h'

/-- lines that are not completions of checks do not matter to a resource -/
theorem coreAt_skip (cfg : Cfg) (r : Nat) (pre mid : List HEv) (e : HEv) (he : e.isCheckEnd = false) :
    coreAt cfg r (pre ++ e :: mid) = coreAt cfg r (pre ++ mid) := by
  unfold coreAt
  have : outcomesOf r (pre ++ e :: mid) = outcomesOf r (pre ++ mid) := by
    rw [show pre ++ e :: mid = pre ++ ([e] ++ mid) from rfl, outcomesOf_append, outcomesOf_append, outcomesOf_append,
      outcomesOf_free r [e] (by simpa using he)]
    simp
  rw [this]

/-- if the status of `r` is not `X` after `pre` and is `X` after `pre ++ mid`, one check line of `r` in `mid` makes it so -/
theorem flip_in_mid (cfg : Cfg) (r : Nat) (X : St) (pre mid : List HEv)
    (h0 : (coreAt cfg r pre).status ≠ X) (h1 : (coreAt cfg r (pre ++ mid)).status = X) :
    ∃ m1 e m2 o, mid = m1 ++ e :: m2 ∧ outcomeAt r e = some o ∧
      (runRes cfg.sth cfg.fth (outcomesOf r (pre ++ m1))).status ≠ X ∧
      (runRes cfg.sth cfg.fth (outcomesOf r (pre ++ m1) ++ [o])).status = X := by
  unfold coreAt at h0 h1
  rw [outcomesOf_append] at h1
  obtain ⟨a, o, b, he, ha, hb⟩ := first_flip cfg.sth cfg.fth X _ _ h0 h1
  obtain ⟨m1, e, m2, hm, ho, h1', _⟩ := outcomesOf_split r mid a o b he
  refine ⟨m1, e, m2, o, hm, ho, ?_, ?_⟩
  · rw [outcomesOf_append, h1']; exact ha
  · rw [outcomesOf_append, h1']; exact hb

theorem runs_builtin {c st : Strat} (h : Runs c st) (hb : c.builtin = true) : st.builtin = true := by
  cases c with
  | random d0 => obtain ⟨d, rfl⟩ : ∃ d, st = .random d := h; rfl
  | first => have : st = .first := h; subst this; rfl
  | rr => have : st = .rr := h; subst this; rfl
  | prefer => have : st = .prefer := h; subst this; rfl
  | custom f => cases hb

/-- a suffix of the history all of whose members satisfy `p` (and are known results) is a run -/
theorem HasRun.of_suffix {p : Outcome → Bool} (hpk : ∀ x, p x = true → x.known = true) {os pre run : List Outcome}
    (he : os = pre ++ run) (hp : ∀ x ∈ run, p x = true) : HasRun p os run.length := by
  refine ⟨knownOf pre, run, ?_, rfl, hp⟩
  rw [he]
  unfold knownOf
  rw [List.filter_append]
  congr 1
  exact List.filter_eq_self.2 (fun x hx => hpk x (hp x hx))

theorem runRes_append_unknowns (sth fth : Nat) (os us : List Outcome) (h : ∀ o ∈ us, o = .unknown) :
    runRes sth fth (os ++ us) = runRes sth fth os := by
  induction us generalizing os with
  | nil => simp
  | cons u tl ih =>
    have hu : u = .unknown := h u (by simp)
    subst hu
    rw [show os ++ Outcome.unknown :: tl = (os ++ [.unknown]) ++ tl by simp, ih _ (fun o ho => h o (by simp [ho])),
      runRes_snoc]
    rfl

theorem availFrom_congr {p q : St → Bool} (k : Nat) (sts : List St) (h : ∀ s ∈ sts, p s = q s) :
    availFrom p k sts = availFrom q k sts := by
  induction sts generalizing k with
  | nil => rfl
  | cons a tl ih =>
    unfold availFrom
    rw [h a (by simp), ih (k + 1) (fun s hs => h s (by simp [hs]))]

end TR.Health
