import TR.Lemmas.BudgetTrace
/-!
# Protocol level: what each caller saw is what the one-at-a-time execution gives it
-/
namespace TR.Budget

/-- the results thread `tid`'s calls returned, in order (`some b`: `try_withdraw`, `none`: `deposit`) -/
def rets (tid : Nat) : List Item → List (Option Bool)
  | [] => []
  | .fin t r :: tl => if t = tid then r :: rets tid tl else rets tid tl
  | _ :: tl => rets tid tl

/-- the result a call in progress is already committed to (it is linearised but has not returned yet) -/
def pend (o : Option OpenOp) : List (Option Bool) :=
  match o with
  | none => []
  | some o =>
    match o.op with
    | .W => if o.eff then [some true] else if o.low then [some false] else []
    | .D => if o.eff then [none] else []

theorem findOpen_tid (l : List OpenOp) (tid : Nat) (o : OpenOp) (h : findOpen l tid = some o) : o.tid = tid := by
  induction l with
  | nil => simp [findOpen] at h
  | cons x tl ih =>
    simp only [findOpen] at h
    split at h
    · cases h; assumption
    · exact ih h

theorem findOpen_dropOpen (l : List OpenOp) (t tid : Nat) :
    findOpen (dropOpen l t) tid = if tid = t then none else findOpen l tid := by
  induction l with
  | nil => simp [dropOpen, findOpen]
  | cons x tl ih =>
    simp only [dropOpen, List.filter] at ih ⊢
    by_cases hx : x.tid = t
    · have : (x.tid != t) = false := by simp [hx]
      rw [this]
      simp only [findOpen]
      rw [ih]
      by_cases ht : tid = t
      · simp [ht]
      · have : ¬ x.tid = tid := by omega
        simp [ht, this]
    · have : (x.tid != t) = true := by simp [hx]
      rw [this]
      simp only [findOpen]
      by_cases hxt : x.tid = tid
      · have : ¬ tid = t := by omega
        simp [hxt, this]
      · simp only [hxt, if_false]
        exact ih

theorem findOpen_setOpen (l : List OpenOp) (o : OpenOp) (tid : Nat) :
    findOpen (setOpen l o) tid = if o.tid = tid then some o else findOpen l tid := by
  simp only [setOpen, findOpen]
  by_cases h : o.tid = tid
  · simp [h]
  · simp only [h, if_false]
    rw [findOpen_dropOpen]
    have : ¬ tid = o.tid := fun e => h e.symm
    simp [this]

/-- the per-thread link between the linearisation and what has been returned so far -/
def OutsOK (cs : CS) (pre : Nat → List (Option Bool)) : Prop :=
  ∀ tid, resultsOf tid cs.lin = pre tid ++ pend (findOpen cs.opens tid)

def preAfter (pre : Nat → List (Option Bool)) (it : Item) : Nat → List (Option Bool) :=
  fun tid => pre tid ++ rets tid [it]

/-- a call in progress becomes committed to a result: one entry is appended to the linearisation -/
theorem outs_mark (cs : CS) (pre : Nat → List (Option Bool)) (h : OutsOK cs pre) (tid : Nat) (o o' : OpenOp) (lo : LinOp)
    (ho : findOpen cs.opens tid = some o) (ho' : o'.tid = tid) (hlo : lo.tid = tid)
    (hp0 : pend (some o) = [])
    (hp1 : pend (some o') = [match lo.op with | .W => some lo.res | .D => none]) :
    ∀ i, resultsOf i (cs.lin ++ [lo]) = pre i ++ pend (findOpen (setOpen cs.opens o') i) := by
  intro i
  rw [findOpen_setOpen]
  by_cases hi : o'.tid = i
  · have hti : tid = i := ho'.symm.trans hi
    simp only [hi, if_true]
    rw [resultsOf_append_self i cs.lin lo (hlo.trans hti), h i, ← hti, ho, hp0, hp1]
    simp only [List.append_nil]
    cases lo with
    | mk t op r c => cases op <;> rfl
  · simp only [hi, if_false]
    have : lo.tid ≠ i := by rw [hlo, ← ho']; exact hi
    rw [resultsOf_append_other i cs.lin lo this]
    exact h i

theorem tokRead_outs (cfg : Cfg) (cs cs' : CS) (tid v : Nat) (rf nw : Bool) (pre : Nat → List (Option Bool))
    (h : OutsOK cs pre) (hs : tokRead cfg cs tid v rf nw = some cs') : OutsOK cs' pre := by
  unfold tokRead at hs
  split at hs
  · cases hs; exact h
  · rename_i o ho
    have hot := findOpen_tid _ _ _ ho
    split at hs
    · rename_i hc
      cases hs
      obtain ⟨_, hw, he, hl, _⟩ := hc
      exact outs_mark cs pre h tid o { o with low := true } { tid := tid, op := .W, res := false, cap := 0 } ho hot rfl
        (by simp [pend, hw, he, hl]) (by simp [pend, hw, he])
    · split at hs
      · rename_i hc
        cases hs
        obtain ⟨_, hd, he, _⟩ := hc
        exact outs_mark cs pre h tid o { o with eff := true } { tid := tid, op := .D, res := true, cap := v } ho hot rfl
          (by simp [pend, hd, he]) (by simp [pend, hd])
      · cases hs; exact h

theorem tokWrite_outs (cfg : Cfg) (cs cs' : CS) (tid : Nat) (k : AKind) (new : Nat) (pre : Nat → List (Option Bool))
    (h : OutsOK cs pre) (hs : tokWrite cfg cs tid k new = some cs') : OutsOK cs' pre := by
  unfold tokWrite at hs
  split at hs
  · cases hs
  · split at hs
    · cases hs
    · rename_i o ho
      have hot := findOpen_tid _ _ _ ho
      split at hs
      · cases hs
      · rename_i hne
        have he : o.eff = false := by
          cases hh : o.eff with
          | true => exact absurd (Or.inl hh) hne
          | false => rfl
        have hl : o.low = false := by
          cases hh : o.low with
          | true => exact absurd (Or.inr hh) hne
          | false => rfl
        split at hs
        · rename_i hw
          split at hs
          · cases hs
            exact outs_mark cs pre h tid o { o with eff := true } { tid := tid, op := .W, res := true, cap := 0 } ho hot rfl
              (by simp [pend, hw, he, hl]) (by simp [pend, hw])
          · cases hs
        · rename_i hd
          split at hs
          · cases hs
            exact outs_mark cs pre h tid o { o with eff := true } { tid := tid, op := .D, res := true, cap := new } ho hot rfl
              (by simp [pend, hd, he]) (by simp [pend, hd])
          · cases hs

theorem cstep_outs (cfg : Cfg) (cs cs' : CS) (it : Item) (rest : List Item) (pre : Nat → List (Option Bool))
    (h : OutsOK cs pre) (hs : cstep cfg cs it rest = some cs') : OutsOK cs' (preAfter pre it) := by
  cases it with
  | begin tid op =>
    simp only [cstep] at hs
    split at hs
    · cases hs
    · rename_i hnone
      have key : ∀ (o : OpenOp), o.tid = tid → o.eff = false → o.low = false →
          ∀ i, resultsOf i cs.lin = pre i ++ pend (findOpen (setOpen cs.opens o) i) := by
        intro o hot he hl i
        rw [findOpen_setOpen]
        by_cases hi : o.tid = i
        · have : findOpen cs.opens i = none := by rw [← hi, hot]; exact hnone
          have hh := h i
          rw [this] at hh
          simp only [hi, if_true]
          rw [hh]
          cases ho : o.op <;> simp [pend, ho, he, hl]
        · simp only [hi, if_false]; exact h i
      cases op with
      | W =>
        cases hs
        intro i
        simp only [preAfter, rets, List.append_nil]
        exact key { tid := tid, op := .W } rfl rfl rfl i
      | D =>
        cases hs
        intro i
        simp only [preAfter, rets, List.append_nil]
        exact key { tid := tid, op := .D } rfl rfl rfl i
  | fin tid res =>
    simp only [cstep] at hs
    split at hs
    · cases hs
    · rename_i o ho
      have fin_ok : ∀ (cs2 : CS), cs2.lin = cs.lin → cs2.opens = dropOpen cs.opens tid →
          pend (some o) = [res] → OutsOK cs2 (preAfter pre (.fin tid res)) := by
        intro cs2 hlin hop hp i
        simp only [preAfter, rets]
        rw [hlin, hop, findOpen_dropOpen]
        by_cases hi : i = tid
        · subst hi
          simp only [if_true]
          rw [h i, ho, hp]
          simp [pend]
        · have : ¬ tid = i := fun e => hi e.symm
          simp only [hi, this, if_false, List.append_nil]
          exact h i
      split at hs
      · rename_i hw
        split at hs
        · rename_i hc
          cases hs
          exact fin_ok _ rfl rfl (by simp [pend, hw, hc.1])
        · cases hs
      · rename_i hw
        split at hs
        · rename_i hc
          cases hs
          exact fin_ok _ rfl rfl (by simp [pend, hw, hc.1, hc.2])
        · cases hs
      · rename_i hd
        split at hs
        · rename_i hc
          cases hs
          exact fin_ok _ rfl rfl (by simp [pend, hd, hc.1])
        · cases hs
      · cases hs
  | tok tid k old new ok =>
    have hpre : preAfter pre (.tok tid k old new ok) = pre := by
      funext i; simp [preAfter, rets]
    rw [hpre]
    simp only [cstep] at hs
    split at hs
    · cases hs
    · split at hs
      · split at hs
        · exact tokRead_outs cfg cs cs' tid old _ _ pre h hs
        · cases hs
      · exact tokWrite_outs cfg cs cs' tid k new pre h hs
  | lim tid k old new ok =>
    have hpre : preAfter pre (.lim tid k old new ok) = pre := by
      funext i; simp [preAfter, rets]
    rw [hpre]
    simp only [cstep] at hs
    split at hs
    · cases hs
    · split at hs
      · split at hs
        · cases hs; exact h
        · cases hs
      · split at hs
        · cases hs; exact h
        · cases hs

theorem rets_cons (tid : Nat) (it : Item) (tl : List Item) : rets tid (it :: tl) = rets tid [it] ++ rets tid tl := by
  cases it with
  | fin t r => by_cases h : t = tid <;> simp [rets, h]
  | _ => simp [rets]

theorem crun_outs (cfg : Cfg) (tr : List Item) (cs cs' : CS) (pre : Nat → List (Option Bool))
    (h : OutsOK cs pre) (hs : crun cfg cs tr = some cs') :
    ∀ tid, resultsOf tid cs'.lin = pre tid ++ rets tid tr ++ pend (findOpen cs'.opens tid) := by
  induction tr generalizing cs pre with
  | nil =>
    simp only [crun] at hs
    cases hs
    intro tid
    simp only [rets, List.append_nil]
    exact h tid
  | cons it tl ih =>
    simp only [crun] at hs
    split at hs
    · cases hs
    · rename_i cs1 h1
      have h2 := cstep_outs cfg cs cs1 it tl pre h h1
      intro tid
      have := ih cs1 (preAfter pre it) h2 hs tid
      rw [this, rets_cons]
      simp [preAfter, List.append_assoc]

end TR.Budget
