import TR.Lemmas.FallbackRun
/-!
# Fallback: "for that request" — the request the layer works with is the one the caller handed in

`arrive c tag plan` is an INPUT of the run (the caller hands request `(c, tag)` to the layer); it emits no
event. `requestOf ops c` reads the tag of caller `c`'s request off the operation list (its first
`arrive`). The invariant `RInv` says that every request the machine carries (in a phase) or has shown in the
log — the request given to the inner call, the request given to the backup call, the request handed to
the `from_request_error` function — is `(c, requestOf ops c)`: the layer never swaps, re-tags or mixes up
requests, in any interleaving of any number of callers.
-/
namespace TR.Fallback

/-- the tag of the request caller `c` handed to the layer: that of its first `arrive` -/
def requestOf : List Op → Nat → Option Nat
  | [], _ => none
  | .arrive c' t _ :: tl, c => if c' = c then some t else requestOf tl c
  | _ :: tl, c => requestOf tl c

/-- the request an event shows, if any -/
def evReq : FEv → Option Request
  | .innerCall _ _ rq => some rq
  | .backupCall _ _ rq => some rq
  | .callback _ (.fromReqErr rq _) => some rq
  | _ => none

/-- the request a call future carries -/
def Phase.rq? : Phase → Option Request
  | .fresh rq _ => some rq
  | .inner rq _ _ _ _ => some rq
  | .backup rq _ _ _ => some rq
  | .done => none

/-- `rq` is the request caller `c` handed in -/
def ReqOK (ops : List Op) (c : Nat) (rq : Request) : Prop := rq.c = c ∧ requestOf ops c = some rq.tag

theorem requestOf_append (a b : List Op) (c : Nat) :
    requestOf (a ++ b) c = match requestOf a c with
      | some t => some t
      | none => requestOf b c := by
  induction a with
  | nil => simp [requestOf]
  | cons op tl ih =>
      cases op with
      | arrive c' t plan =>
          simp only [List.cons_append, requestOf]
          split
          · rfl
          · exact ih
      | poll c' => simpa [requestOf] using ih
      | drop c' => simpa [requestOf] using ih
      | adv ms => simpa [requestOf] using ih
      | dropsvc => simpa [requestOf] using ih

theorem requestOf_snoc_some {a : List Op} {c t : Nat} (op : Op) (h : requestOf a c = some t) :
    requestOf (a ++ [op]) c = some t := by
  rw [requestOf_append, h]

theorem requestOf_snoc_other {a : List Op} {c : Nat} (op : Op) (h : ∀ t plan, op ≠ .arrive c t plan) :
    requestOf (a ++ [op]) c = requestOf a c := by
  rw [requestOf_append]
  cases hr : requestOf a c with
  | some t => rfl
  | none =>
      cases op with
      | arrive c' t plan =>
          simp only [requestOf]
          split
          · rename_i hc; subst hc; exact absurd rfl (h t plan)
          · rfl
      | poll c' => rfl
      | drop c' => rfl
      | adv ms => rfl
      | dropsvc => rfl

theorem reqOK_snoc {ops : List Op} {c : Nat} {rq : Request} (op : Op) (h : ReqOK ops c rq) : ReqOK (ops ++ [op]) c rq :=
  ⟨h.1, requestOf_snoc_some op h.2⟩

/-! ## the invariant -/

structure RInv (ops : List Op) (s : State) : Prop where
  phase : ∀ c p rq, lookup s.phase c = some p → p.rq? = some rq → ReqOK ops c rq
  log : ∀ e ∈ s.log, ∀ rq, evReq e = some rq → ReqOK ops (about e) rq
  /-- while calls can still be made: a caller without a call future has not arrived -/
  unknown : s.svcGone = false → ∀ c, lookup s.phase c = none → requestOf ops c = none

/-- a helper that works on request `c`, carrying `rq` and nothing else -/
structure Carries (c : Nat) (rq : Request) (s s' : State) : Prop where
  others : ∀ c', c ≠ c' → lookup s'.phase c' = lookup s.phase c'
  log : ∃ evs, s'.log = s.log ++ evs ∧ ∀ e ∈ evs, about e = c ∧ ∀ rq', evReq e = some rq' → rq' = rq
  phase : ∀ p, lookup s'.phase c = some p → lookup s.phase c = some p ∨ ∀ rq', p.rq? = some rq' → rq' = rq
  keeps : lookup s'.phase c = none → lookup s.phase c = none
  gone : s'.svcGone = s.svcGone

theorem Carries.refl (c : Nat) (rq : Request) (s : State) : Carries c rq s s :=
  ⟨fun _ _ => rfl, ⟨[], by simp, by simp⟩, fun _ h => Or.inl h, id, rfl⟩

theorem Carries.trans {c : Nat} {rq : Request} {s1 s2 s3 : State} (h1 : Carries c rq s1 s2) (h2 : Carries c rq s2 s3) :
    Carries c rq s1 s3 := by
  refine ⟨fun c' hne => by rw [h2.others c' hne, h1.others c' hne], ?_, ?_, fun h => h1.keeps (h2.keeps h),
    by rw [h2.gone, h1.gone]⟩
  · obtain ⟨e1, hl1, ha1⟩ := h1.log
    obtain ⟨e2, hl2, ha2⟩ := h2.log
    refine ⟨e1 ++ e2, by rw [hl2, hl1, List.append_assoc], ?_⟩
    intro e he
    rcases List.mem_append.mp he with h | h
    · exact ha1 e h
    · exact ha2 e h
  · intro p hp
    rcases h2.phase p hp with h | h
    · exact h1.phase p h
    · exact Or.inr h

theorem carries_setPhase (c : Nat) (rq : Request) (s : State) (p : Phase) (hp : ∀ rq', p.rq? = some rq' → rq' = rq) :
    Carries c rq s (setPhase s c p) := by
  refine ⟨fun _ hne => lookup_setPhase_other s p hne, ⟨[], by simp [setPhase], by simp⟩, ?_, ?_, rfl⟩
  · intro p' hp'
    rw [lookup_setPhase_same] at hp'
    injection hp' with hp'
    subst hp'
    exact Or.inr hp
  · intro h
    rw [lookup_setPhase_same] at h
    cases h

theorem carries_emit (c : Nat) (rq : Request) (s : State) (evs : List FEv)
    (h : ∀ e ∈ evs, about e = c ∧ ∀ rq', evReq e = some rq' → rq' = rq) : Carries c rq s (emit s evs) :=
  ⟨fun _ _ => rfl, ⟨evs, rfl, h⟩, fun _ hp => Or.inl hp, id, rfl⟩

/-- a change of counters only -/
theorem carries_of_same (c : Nat) (rq : Request) {s s' : State} (hp : s'.phase = s.phase) (hl : s'.log = s.log)
    (hg : s'.svcGone = s.svcGone) : Carries c rq s s' :=
  ⟨fun _ _ => by rw [hp], ⟨[], by simp [hl], by simp⟩, fun _ h => Or.inl (by rw [← hp]; exact h),
    fun h => by rw [← hp]; exact h, hg⟩

/-! ## the events of each block show the block's request only -/

theorem completionBackup_evReq (c : Nat) (rq : Request) (k : Nat) (out : Out) :
    ∀ e ∈ completionBackup c rq k out, about e = c ∧ ∀ rq', evReq e = some rq' → rq' = rq := by
  intro e he
  refine ⟨completionBackup_about c rq k out e he, ?_⟩
  unfold completionBackup at he
  split at he <;> simp only [List.mem_cons, List.mem_nil_iff, or_false] at he
  · rcases he with rfl | rfl | rfl <;> simp [evReq]
  · rcases he with rfl | rfl <;> simp [evReq]

theorem backupNotReady_evReq (c : Nat) (rq : Request) :
    ∀ e ∈ backupNotReady c, about e = c ∧ ∀ rq', evReq e = some rq' → rq' = rq := by
  intro e he
  refine ⟨backupNotReady_about c e he, ?_⟩
  simp only [backupNotReady, List.mem_cons, List.mem_nil_iff, or_false] at he
  rcases he with rfl | rfl <;> simp [evReq]

theorem strategyCall_evReq {cfg : Cfg} {rq : Request} {n : Nat} {e : IErr} {cb : Callback} {c : Nat}
    (h : strategyCall cfg rq n e = some cb) : ∀ rq', evReq (.callback c cb) = some rq' → rq' = rq := by
  unfold strategyCall at h
  split at h <;> simp at h <;> subst h <;> simp [evReq]

theorem callback_evReq {cfg : Cfg} {rq : Request} {n : Nat} {ri : IRes} {cb : Callback} (c : Nat)
    (h : cb ∈ (afterInner cfg rq n ri).cbs) : ∀ rq', evReq (.callback c cb) = some rq' → rq' = rq := by
  obtain ⟨e, _, h | h⟩ := mem_afterInner_cbs h
  · rw [h.1]; simp [evReq]
  · exact strategyCall_evReq h.2

theorem completionInner_evReq (cfg : Cfg) (c : Nat) (rq : Request) (n k : Nat) (out : Out) :
    ∀ e ∈ (completionInner cfg c rq n k out).1, about e = c ∧ ∀ rq', evReq e = some rq' → rq' = rq := by
  intro e he
  refine ⟨completionInner_about cfg c rq n k out e he, ?_⟩
  rcases completionInner_cases cfg c rq n k out with ⟨_, hc⟩ | ⟨ri, cbs, o, _, ha, hc⟩ | ⟨ri, cbs, _, ha, hc⟩
  · rw [hc] at he
    simp only [List.mem_cons, List.mem_nil_iff, or_false] at he
    rcases he with rfl | rfl <;> simp [evReq]
  · rw [hc] at he
    simp only [List.mem_cons, List.mem_append, List.mem_map, List.mem_nil_iff, or_false] at he
    rcases he with rfl | ⟨cb, hcb, rfl⟩ | rfl | rfl
    · simp [evReq]
    · exact callback_evReq c (by rw [ha]; exact hcb)
    · simp [evReq]
    · simp [evReq]
  · rw [hc] at he
    simp only [List.mem_cons, List.mem_map] at he
    rcases he with rfl | ⟨cb, hcb, rfl⟩
    · simp [evReq]
    · exact callback_evReq c (by rw [ha]; exact hcb)

/-! ## the helpers, one by one -/

theorem carries_pollBackup (s : State) (c : Nat) (rq : Request) (k t : Nat) (out : Out) :
    Carries c rq s (pollBackup s c rq k t out) := by
  unfold pollBackup
  split
  · exact (carries_emit c rq s _ (completionBackup_evReq c rq k out)).trans
      (carries_setPhase c rq _ .done (by simp [Phase.rq?]))
  · exact Carries.refl c rq s

theorem carries_callBackup (s : State) (c : Nat) (rq : Request) (bk : Step) :
    Carries c rq s (callBackup s c rq bk) := by
  unfold callBackup
  refine Carries.trans ?_ (carries_pollBackup _ c rq _ _ _)
  refine Carries.trans (s2 := emit { s with serial := s.serial + 1 } [.backupCall c s.serial rq]) ?_
    (carries_setPhase c rq _ _ (by simp [Phase.rq?]))
  refine Carries.trans (s2 := { s with serial := s.serial + 1 }) (carries_of_same c rq rfl rfl rfl) ?_
  apply carries_emit
  intro e he
  simp only [List.mem_cons, List.mem_nil_iff, or_false] at he
  subst he
  exact ⟨rfl, by simp [evReq]⟩

theorem carries_startBackup (cfg : Cfg) (s : State) (c : Nat) (rq : Request) (bk : Step) :
    Carries c rq s (startBackup cfg s c rq bk) := by
  have h0 : Carries c rq s { s with brdy := s.brdy + pendingRun (cfg.bready.drop s.brdy) + 1 } :=
    carries_of_same c rq rfl rfl rfl
  simp only [startBackup]
  split
  · exact h0.trans ((carries_emit c rq _ _ (backupNotReady_evReq c rq)).trans
      (carries_setPhase c rq _ .done (by simp [Phase.rq?])))
  · exact h0.trans (carries_callBackup _ c rq bk)

theorem carries_pollInner (cfg : Cfg) (s : State) (c : Nat) (rq : Request) (k t : Nat) (out : Out) (bk : Step) :
    Carries c rq s (pollInner cfg s c rq k t out bk) := by
  unfold pollInner
  split
  · unfold completeInner continueWith
    have h1 : Carries c rq s (emit { s with fnCalls := s.fnCalls + (completionInner cfg c rq s.fnCalls k out).1.countP isValueFn }
        (completionInner cfg c rq s.fnCalls k out).1) :=
      Carries.trans (s2 := { s with fnCalls := s.fnCalls + (completionInner cfg c rq s.fnCalls k out).1.countP isValueFn })
        (carries_of_same c rq rfl rfl rfl) (carries_emit c rq _ _ (completionInner_evReq cfg c rq s.fnCalls k out))
    split
    · exact h1.trans (carries_setPhase c rq _ .done (by simp [Phase.rq?]))
    · exact h1.trans (carries_startBackup cfg _ c rq bk)
  · exact Carries.refl c rq s

theorem carries_pollFresh (cfg : Cfg) (s : State) (c : Nat) (rq : Request) (plan : List Step) :
    Carries c rq s (pollFresh cfg s c rq plan) := by
  unfold pollFresh
  refine Carries.trans ?_ (carries_pollInner cfg _ c rq _ _ _ _)
  refine Carries.trans (s2 := emit { s with serial := s.serial + 1 } [.innerCall c s.serial rq]) ?_
    (carries_setPhase c rq _ _ (by simp [Phase.rq?]))
  refine Carries.trans (s2 := { s with serial := s.serial + 1 }) (carries_of_same c rq rfl rfl rfl) ?_
  apply carries_emit
  intro e he
  simp only [List.mem_cons, List.mem_nil_iff, or_false] at he
  subst he
  exact ⟨rfl, by simp [evReq]⟩

/-! ## preservation -/

theorem rinv_carries {ops : List Op} {s s' : State} {c : Nat} {rq : Request} (h : RInv ops s) (hrq : ReqOK ops c rq)
    (hc : Carries c rq s s') : RInv ops s' := by
  refine ⟨?_, ?_, ?_⟩
  · intro c' p rq' hp hr
    by_cases hcc : c = c'
    · subst hcc
      rcases hc.phase p hp with h1 | h1
      · exact h.phase c p rq' h1 hr
      · rw [h1 rq' hr]; exact hrq
    · rw [hc.others c' hcc] at hp
      exact h.phase c' p rq' hp hr
  · obtain ⟨evs, hl, hev⟩ := hc.log
    intro e he rq' hr
    rw [hl] at he
    rcases List.mem_append.mp he with he | he
    · exact h.log e he rq' hr
    · obtain ⟨ha, hq⟩ := hev e he
      rw [ha, hq rq' hr]; exact hrq
  · intro hg c' hn
    rw [hc.gone] at hg
    by_cases hcc : c = c'
    · subst hcc; exact h.unknown hg c (hc.keeps hn)
    · rw [hc.others c' hcc] at hn
      exact h.unknown hg c' hn

/-- an operation that is not an arrival does not change who asked for what -/
theorem rinv_snoc_other {ops : List Op} {s : State} (op : Op) (hop : ∀ c t plan, op ≠ .arrive c t plan) (h : RInv ops s) :
    RInv (ops ++ [op]) s := by
  refine ⟨fun c p rq hp hr => reqOK_snoc op (h.phase c p rq hp hr), fun e he rq hr => reqOK_snoc op (h.log e he rq hr), ?_⟩
  intro hg c hn
  rw [requestOf_snoc_other op (hop c)]
  exact h.unknown hg c hn

theorem rinv_step (cfg : Cfg) (ops : List Op) (s : State) (op : Op) (h : RInv ops s) :
    RInv (ops ++ [op]) (stepS cfg s op) := by
  cases op with
  | adv ms =>
      have h' := rinv_snoc_other (.adv ms) (by intro _ _ _ hh; cases hh) h
      exact ⟨h'.phase, h'.log, h'.unknown⟩
  | dropsvc =>
      have h' := rinv_snoc_other .dropsvc (by intro _ _ _ hh; cases hh) h
      exact ⟨h'.phase, h'.log, fun hg => by simp [stepS] at hg⟩
  | poll c =>
      have h' := rinv_snoc_other (.poll c) (by intro _ _ _ hh; cases hh) h
      simp only [stepS]
      split
      · rename_i rq plan hph
        exact rinv_carries h' (h'.phase c _ rq hph rfl) (carries_pollFresh cfg s c rq plan)
      · rename_i rq k t out bk hph
        exact rinv_carries h' (h'.phase c _ rq hph rfl) (carries_pollInner cfg s c rq k t out bk)
      · rename_i rq k t out hph
        exact rinv_carries h' (h'.phase c _ rq hph rfl) (carries_pollBackup s c rq k t out)
      · exact h'
  | drop c =>
      have h' := rinv_snoc_other (.drop c) (by intro _ _ _ hh; cases hh) h
      simp only [stepS]
      split
      · rename_i rq plan hph
        exact rinv_carries h' (h'.phase c _ rq hph rfl) (carries_setPhase c rq s .done (by simp [Phase.rq?]))
      · rename_i rq k t out bk hph
        refine rinv_carries h' (h'.phase c _ rq hph rfl)
          ((carries_emit c rq s [.innerDrop c k] ?_).trans (carries_setPhase c rq _ .done (by simp [Phase.rq?])))
        intro e he
        simp only [List.mem_cons, List.mem_nil_iff, or_false] at he
        subst he; exact ⟨rfl, by simp [evReq]⟩
      · rename_i rq k t out hph
        refine rinv_carries h' (h'.phase c _ rq hph rfl)
          ((carries_emit c rq s [.backupDrop c k] ?_).trans (carries_setPhase c rq _ .done (by simp [Phase.rq?])))
        intro e he
        simp only [List.mem_cons, List.mem_nil_iff, or_false] at he
        subst he; exact ⟨rfl, by simp [evReq]⟩
      · exact h'
  | arrive c t plan =>
      have hmono : (∀ c' p rq, lookup s.phase c' = some p → p.rq? = some rq → ReqOK (ops ++ [.arrive c t plan]) c' rq) ∧
          (∀ e ∈ s.log, ∀ rq, evReq e = some rq → ReqOK (ops ++ [.arrive c t plan]) (about e) rq) :=
        ⟨fun c' p rq hp hr => reqOK_snoc _ (h.phase c' p rq hp hr), fun e he rq hr => reqOK_snoc _ (h.log e he rq hr)⟩
      have hother : ∀ c', c ≠ c' → requestOf (ops ++ [.arrive c t plan]) c' = requestOf ops c' := by
        intro c' hne
        apply requestOf_snoc_other
        intro t' plan' hh
        injection hh with h1
        exact hne h1
      simp only [stepS]
      split
      · rename_i hk
        refine ⟨hmono.1, hmono.2, ?_⟩
        intro hg c' hn
        have hkn : lookup s.phase c ≠ none := by
          simp only [hg, Bool.false_or, known, Option.isSome_iff_ne_none] at hk
          exact hk
        have hne : c ≠ c' := by intro hcc; subst hcc; exact hkn hn
        rw [hother c' hne]
        exact h.unknown hg c' hn
      · rename_i hk
        simp only [known, Bool.or_eq_true, not_or, Bool.not_eq_true, Option.isSome_eq_false_iff,
          Option.isNone_iff_eq_none] at hk
        obtain ⟨hg, hnone⟩ := hk
        have hreq : requestOf (ops ++ [.arrive c t plan]) c = some t := by
          rw [requestOf_append, h.unknown hg c hnone]
          simp [requestOf]
        have hok : ReqOK (ops ++ [.arrive c t plan]) c ⟨c, t⟩ := ⟨rfl, hreq⟩
        -- the state with the arrival recorded satisfies the invariant except for `c`, which `arriveS` sets
        have hc : Carries c ⟨c, t⟩ s (arriveS cfg s c t plan) := by
          unfold arriveS
          refine Carries.trans (s2 := emit { s with rdy := s.rdy + 1 } (arriveEvents c (pollReady (answer cfg.ready s.rdy)))) ?_
            (carries_setPhase c _ _ _ ?_)
          · refine Carries.trans (s2 := { s with rdy := s.rdy + 1 }) (carries_of_same c _ rfl rfl rfl) (carries_emit c _ _ _ ?_)
            intro e he
            refine ⟨arriveEvents_about c _ e he, ?_⟩
            rcases hpr : pollReady (answer cfg.ready s.rdy) with _ | _ | o <;> rw [hpr] at he <;>
              simp only [arriveEvents, List.mem_cons, List.mem_nil_iff, or_false] at he
            · subst he; simp [evReq]
            · rcases he with rfl | rfl <;> simp [evReq]
          · intro rq' hr
            split at hr
            · simp only [Phase.rq?, Option.some.injEq] at hr; exact hr.symm
            · simp [Phase.rq?] at hr
        refine ⟨?_, ?_, ?_⟩
        · intro c' p rq hp hr
          by_cases hcc : c = c'
          · subst hcc
            rcases hc.phase p hp with h1 | h1
            · rw [hnone] at h1; cases h1
            · rw [h1 rq hr]; exact hok
          · rw [hc.others c' hcc] at hp
            exact hmono.1 c' p rq hp hr
        · obtain ⟨evs, hl, hev⟩ := hc.log
          intro e he rq hr
          rw [hl] at he
          rcases List.mem_append.mp he with he | he
          · exact hmono.2 e he rq hr
          · obtain ⟨ha, hq⟩ := hev e he
            rw [ha, hq rq hr]; exact hok
        · intro hg' c' hn
          by_cases hcc : c = c'
          · subst hcc
            unfold arriveS at hn
            rw [lookup_setPhase_same] at hn
            cases hn
          · rw [hc.others c' hcc] at hn
            rw [hother c' hcc]
            exact h.unknown hg c' hn

theorem rinv_init : RInv [] init :=
  ⟨by intro c p rq hp; simp [init, lookup] at hp, by intro e he; simp [init] at he, by intro _ c _; rfl⟩

theorem rinv_foldl (cfg : Cfg) (ops pre : List Op) (s : State) (h : RInv pre s) :
    RInv (pre ++ ops) (ops.foldl (stepS cfg) s) := by
  induction ops generalizing pre s with
  | nil => simpa using h
  | cons op tl ih =>
      have := ih (pre ++ [op]) _ (rinv_step cfg pre s op h)
      simpa [List.append_assoc] using this

theorem rinv_reachable (cfg : Cfg) (ops : List Op) : RInv ops (run cfg ops) := by
  have := rinv_foldl cfg ops [] init rinv_init
  simpa [run] using this

/-- the hypothesis form: if every arrival of `c` in the operation list carries `tag`, that is `c`'s request -/
theorem requestOf_of_all {ops : List Op} {c tag t : Nat} (hall : ∀ t' plan, Op.arrive c t' plan ∈ ops → t' = tag)
    (h : requestOf ops c = some t) : t = tag := by
  induction ops with
  | nil => simp [requestOf] at h
  | cons op tl ih =>
      cases op with
      | arrive c' t' plan =>
          simp only [requestOf] at h
          split at h
          · rename_i hc
            subst hc
            injection h with h
            subst h
            exact hall t' plan List.mem_cons_self
          · exact ih (fun t'' plan' hm => hall t'' plan' (List.mem_cons_of_mem _ hm)) h
      | poll c' => exact ih (fun t'' plan' hm => hall t'' plan' (List.mem_cons_of_mem _ hm)) (by simpa [requestOf] using h)
      | drop c' => exact ih (fun t'' plan' hm => hall t'' plan' (List.mem_cons_of_mem _ hm)) (by simpa [requestOf] using h)
      | adv ms => exact ih (fun t'' plan' hm => hall t'' plan' (List.mem_cons_of_mem _ hm)) (by simpa [requestOf] using h)
      | dropsvc => exact ih (fun t'' plan' hm => hall t'' plan' (List.mem_cons_of_mem _ hm)) (by simpa [requestOf] using h)

section realise
theorem equations_realised_request : True := by
  have := @requestOf.eq_1
  have := @evReq.eq_1
  have := @Phase.rq?.eq_1
  have := @ReqOK.eq_1
  trivial
end realise

end TR.Fallback
