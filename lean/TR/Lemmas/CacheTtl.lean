import TR.Lemmas.Cache
/-!
# Cache (C10): the TTL boundary at the resolution of the clock; the LFU victim when the minimum is unique

The model's instants are natural numbers of *clock ticks*; nothing in it knows how long a tick is
(the harness runs it with 1 ms ticks and, header `tick=us`, with 1 µs ticks). The lemmas here say
that the expiry test is exact at that resolution — one tick beyond the TTL is a miss, whatever the
tick — and that it commutes with a change of unit, which a comparison of *truncated* quantities
(`elapsed.as_millis() > ttl.as_millis()`) does not.
-/
namespace TR.Cache

theorem expired_some_iff {d now : Nat} {e : Entry} : expired (some d) now e = true ↔ d < now - e.ins := by
  simp [expired]

theorem expired_none (now : Nat) (e : Entry) : expired none now e = false := rfl

/-- the test does not depend on the unit: the same instants and TTL expressed in a unit `c` times finer -/
theorem expired_scale (c : Nat) (hc : 0 < c) (ttl : Option Nat) (now : Nat) (e : Entry) :
    expired (ttl.map (· * c)) (now * c) { e with ins := e.ins * c } = expired ttl now e := by
  cases ttl with
  | none => rfl
  | some d =>
    have h : (now * c - e.ins * c > d * c) ↔ (now - e.ins > d) := by
      rw [← Nat.sub_mul]
      exact Nat.mul_lt_mul_right hc
    simp only [expired, Option.map_some, h]

/-- lookup of a stored key whose entry has expired: the entry is removed, the lookup misses -/
theorem storeGet_expired {cfg : Cfg} {now tick k : Nat} {items : List Entry} {e : Entry}
    (hf : find items k = some e) (hx : expired cfg.ttl now e = true) :
    storeGet cfg now tick items k = (rm k items, none) := by
  simp [storeGet_eq, storeGetC, hf, hx]

/-- lookup of a stored key whose entry has not expired: a hit with the entry's value -/
theorem storeGet_fresh {cfg : Cfg} {now tick k : Nat} {items : List Entry} {e : Entry}
    (hf : find items k = some e) (hx : expired cfg.ttl now e = false) :
    (storeGet cfg now tick items k).2 = some e.val := by
  simp [storeGet_eq, storeGetC, hf, hx]

/-- a stored key, a TTL of `d` ticks: hit ⇔ the entry's age is at most `d` ticks -/
theorem storeGet_hit_iff {cfg : Cfg} {now tick k d : Nat} {items : List Entry} {e : Entry}
    (hf : find items k = some e) (httl : cfg.ttl = some d) :
    ((storeGet cfg now tick items k).2 = some e.val ↔ now - e.ins ≤ d) ∧
    ((storeGet cfg now tick items k).2 = none ↔ d < now - e.ins) := by
  cases hx : expired cfg.ttl now e with
  | true =>
    have hlt : d < now - e.ins := by rw [httl] at hx; exact expired_some_iff.mp hx
    rw [storeGet_expired hf hx]
    exact ⟨⟨fun h => by simp at h, fun h => absurd hlt (Nat.not_lt.mpr h)⟩, ⟨fun _ => hlt, fun _ => rfl⟩⟩
  | false =>
    have hle : now - e.ins ≤ d := expired_false hx d httl
    rw [storeGet_fresh hf hx]
    exact ⟨⟨fun _ => hle, fun _ => rfl⟩, ⟨fun h => by simp at h, fun h => absurd h (Nat.not_lt.mpr hle)⟩⟩

/-- without a TTL a stored key always hits -/
theorem storeGet_no_ttl {cfg : Cfg} {now tick k : Nat} {items : List Entry} {e : Entry}
    (hf : find items k = some e) (httl : cfg.ttl = none) :
    (storeGet cfg now tick items k).2 = some e.val := by
  apply storeGet_fresh hf
  rw [httl]
  rfl

/-- keys are unique, so an entry with the key of `m` *is* `m` -/
theorem eq_of_key_eq {items : List Entry} (hu : (items.map (·.key)).Nodup) {x m : Entry}
    (hx : x ∈ items) (hm : m ∈ items) (hk : x.key = m.key) : x = m := by
  induction items with
  | nil => cases hx
  | cons a tl ih =>
    simp only [List.map_cons, List.nodup_cons, List.mem_map, not_exists, not_and] at hu
    simp only [List.mem_cons] at hx hm
    rcases hx with rfl | hx <;> rcases hm with rfl | hm
    · rfl
    · exact absurd hk.symm (hu.1 m hm)
    · exact absurd hk (hu.1 x hx)
    · exact ih hu.2 hx hm

/-- **a unique minimum leaves no choice**: when one stored entry has a count strictly below every
other's, any entry of minimal count is that entry -/
theorem unique_min_is_victim {items : List Entry} (hu : (items.map (·.key)).Nodup) {x m : Entry}
    (hx : x ∈ items) (hm : m ∈ items) (hmin : ∀ y ∈ items, x.cnt ≤ y.cnt)
    (huniq : ∀ y ∈ items, y.key ≠ m.key → m.cnt < y.cnt) : x = m := by
  by_cases hk : x.key = m.key
  · exact eq_of_key_eq hu hx hm hk
  · have h1 := huniq x hx hk
    have h2 := hmin m hm
    omega

end TR.Cache
