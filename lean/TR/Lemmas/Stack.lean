import TR.Model.Stack
/-!
# The readiness contract travels down any stack (C20)
-/
namespace TR.Stack

theorem upd_same {α : Type} (f : Nat → α) (i : Nat) (v : α) : upd f i v i = v := by simp [upd]
theorem upd_other {α : Type} (f : Nat → α) (i j : Nat) (v : α) (h : j ≠ i) : upd f i v j = f j := by simp [upd, h]

/-! ## characterisation of the monitor's steps -/

theorem mon_clone (m m' : Mon) (s n : Nat) :
    m.step (.clone s n) = some m' ↔ (s < m.n ∧ n = m.n) ∧ m' = { n := m.n + 1, ready := upd m.ready m.n false } := by
  simp only [Mon.step]
  by_cases h : s < m.n ∧ n = m.n
  · simp only [h, and_self, if_true, true_and, Option.some.injEq]; exact eq_comm
  · simp only [h, if_false, false_and]; simp

theorem mon_poll (m m' : Mon) (i : Nat) (r : PollRes) :
    m.step (.poll i r) = some m' ↔ i < m.n ∧ m' = { m with ready := upd m.ready i (decide (r = .ready) || m.ready i) } := by
  simp only [Mon.step]
  by_cases h : i < m.n
  · simp only [h, if_true, true_and, Option.some.injEq]; exact eq_comm
  · simp [h]

theorem mon_call (m m' : Mon) (i t : Nat) :
    m.step (.call i t) = some m' ↔ (i < m.n ∧ m.ready i = true) ∧ m' = { m with ready := upd m.ready i false } := by
  simp only [Mon.step]
  by_cases h : i < m.n ∧ m.ready i = true
  · simp only [h, and_self, if_true, true_and, Option.some.injEq]; exact eq_comm
  · simp only [h, if_false, false_and]; simp

/-! ## the link between the two boundaries of one layer -/

structure Link (s : LSt) (mo mi : Mon) : Prop where
  nI     : s.nI = mi.n
  nO     : s.nO = mo.n
  curLtO : ∀ o i, s.cur o = some i → o < mo.n
  curLt  : ∀ o i, s.cur o = some i → i < mi.n
  ownLt  : ∀ i w, s.owned i = some w → i < mi.n
  inj    : ∀ o o' i, s.cur o = some i → s.cur o' = some i → o = o'
  disj   : ∀ o i, s.cur o = some i → s.owned i = none
  rdy    : ∀ o i, s.cur o = some i → mo.ready o = true → mi.ready i = true
  armed  : ∀ i w, s.owned i = some w → w.armed = true → mi.ready i = true
  opened : ∀ o t, s.opened = some (o, t) → mo.ready o = false ∧ ∃ i, s.cur o = some i ∧ mi.ready i = true
  last   : ∀ i, s.lastReady = some i → mi.ready i = true
  pend   : ∀ nw sr, s.pendClone = some (nw, sr) → s.cur nw = none ∧ mo.ready nw = false ∧ nw < mo.n

theorem link_init : Link {} {} {} := by
  refine ⟨rfl, rfl, ?_, ?_, ?_, ?_, ?_, ?_, ?_, ?_, ?_, ?_⟩
  · intro o i h; simp only at h; split at h <;> simp_all
  · intro o i h; simp only at h; split at h <;> simp_all
  · intro i w h; simp at h
  · intro o o' i h h'; simp only at h h'; split at h <;> split at h' <;> simp_all
  · intro o i _; rfl
  · intro o i _ h; simp at h
  · intro i w h; simp at h
  · intro o t h; simp at h
  · intro i h; simp at h
  · intro nw sr h; simp at h

/-! ## outer events: the layer is driven -/

theorem outer_step (s s' : LSt) (mo mo' mi : Mon) (e : Ev) (hl : Link s mo mi)
    (hs : s.step (.outer e) = some s') (hm : mo.step e = some mo') : Link s' mo' mi := by
  cases e with
  | clone src new =>
    simp only [LSt.step, outerClone] at hs
    split at hs
    · rename_i hg
      obtain ⟨hp, hsrc, hnew, hn⟩ := hg
      cases hs
      obtain ⟨⟨hlt, hnn⟩, rfl⟩ := (mon_clone _ _ _ _).mp hm
      have hnO := hl.nO
      refine ⟨hl.nI, by simp [hnO], ?_, hl.curLt, hl.ownLt, hl.inj, hl.disj, ?_, hl.armed, ?_, ?_, ?_⟩
      · intro o i h; have := hl.curLtO o i h; simp; omega
      · intro o i h hr
        have hlt' := hl.curLtO o i h
        simp only at hr
        rw [upd_other _ _ _ _ (by omega)] at hr
        exact hl.rdy o i h hr
      · intro o t h; simp at h
      · intro i h; simp at h
      · intro nw sr h
        simp only [Option.some.injEq, Prod.mk.injEq] at h
        obtain ⟨rfl, rfl⟩ := h
        refine ⟨hnew, ?_, by simp; omega⟩
        simp only; rw [hnn, upd_same]
    · cases hs
  | poll o r =>
    simp only [LSt.step, outerPoll] at hs
    split at hs
    · rename_i hg
      have hp := hg
      split at hs
      · rename_i i hci
        split at hs
        · rename_i hrdy
          cases hs
          obtain ⟨hlt, rfl⟩ := (mon_poll _ _ _ _).mp hm
          refine ⟨hl.nI, hl.nO, hl.curLtO, hl.curLt, hl.ownLt, hl.inj, hl.disj, ?_, hl.armed, ?_, ?_, ?_⟩
          · intro o' i' h hr
            simp only at hr
            by_cases hoo : o' = o
            · subst hoo
              rw [upd_same] at hr
              rw [hci] at h; cases h
              by_cases hrr : r = .ready
              · exact hl.last i (hrdy hrr)
              · simp [hrr] at hr; exact hl.rdy o' i hci hr
            · rw [upd_other _ _ _ _ hoo] at hr; exact hl.rdy o' i' h hr
          · intro o' t h; simp at h
          · intro i' h; simp at h
          · intro nw sr h; simp only at h; rw [hp] at h; cases h
        · cases hs
      · cases hs
    · cases hs
  | call o tag =>
    simp only [LSt.step, outerCall] at hs
    split at hs
    · rename_i hg
      obtain ⟨hp, hsome⟩ := hg
      cases hs
      obtain ⟨⟨hlt, hr⟩, rfl⟩ := (mon_call _ _ _ _).mp hm
      obtain ⟨i, hci⟩ := Option.isSome_iff_exists.mp hsome
      refine ⟨hl.nI, hl.nO, hl.curLtO, hl.curLt, hl.ownLt, hl.inj, hl.disj, ?_, hl.armed, ?_, ?_, ?_⟩
      · intro o' i' h hr'
        simp only at hr'
        by_cases hoo : o' = o
        · subst hoo; rw [upd_same] at hr'; cases hr'
        · rw [upd_other _ _ _ _ hoo] at hr'; exact hl.rdy o' i' h hr'
      · intro o' t h
        simp only [Option.some.injEq, Prod.mk.injEq] at h
        obtain ⟨rfl, rfl⟩ := h
        exact ⟨by simp only; rw [upd_same], i, hci, hl.rdy _ i hci hr⟩
      · intro i' h; simp at h
      · intro nw sr h; simp only at h; rw [hp] at h; cases h
    · cases hs

/-! ## inner events: what the layer does to its inner service -/

theorem heldBy_sound (s : LSt) (i : Nat) (h : heldBy s i = true) : ∃ o, s.cur o = some i := by
  simp only [heldBy, List.any_eq_true] at h
  obtain ⟨o, _, ho⟩ := h
  exact ⟨o, by simpa using ho⟩

theorem inner_clone (s s' : LSt) (mo mi : Mon) (src new : Nat) (hl : Link s mo mi)
    (hs : s.step (.inner (.clone src new)) = some s') :
    ∃ mi', mi.step (.clone src new) = some mi' ∧ Link s' mo mi' := by
  simp only [LSt.step, innerClone] at hs
  split at hs
  · rename_i hnew
    cases hc : innerCloneCore s src new with
    | none => simp [hc] at hs
    | some s0 =>
      simp only [hc, Option.map_some, Option.some.injEq] at hs
      subst hs
      have hnI := hl.nI
      have hnewn : new = mi.n := by rw [hnew, hnI]
      -- where does `src` come from?
      unfold innerCloneCore at hc
      split at hc
      · -- the layer value was cloned
        rename_i onew osrc hp
        split at hc
        · rename_i hsrc
          cases hc
          obtain ⟨hcn, hrn, hltn⟩ := hl.pend onew osrc hp
          have hsl := hl.curLt osrc src hsrc
          refine ⟨_, (mon_clone _ _ _ _).mpr ⟨⟨hsl, hnewn⟩, rfl⟩, ?_⟩
          refine ⟨by simp [hnI], hl.nO, ?_, ?_, ?_, ?_, ?_, ?_, ?_, ?_, ?_, ?_⟩
          · intro o i h; simp only at h
            by_cases ho : o = onew
            · subst ho; exact hltn
            · rw [upd_other _ _ _ _ ho] at h; exact hl.curLtO o i h
          · intro o i h; simp only at h ⊢
            by_cases ho : o = onew
            · subst ho; rw [upd_same] at h; cases h; omega
            · rw [upd_other _ _ _ _ ho] at h; have := hl.curLt o i h; omega
          · intro i w h; have := hl.ownLt i w h; simp only; omega
          · intro o o' i h h'; simp only at h h'
            by_cases ho : o = onew <;> by_cases ho' : o' = onew
            · rw [ho, ho']
            · subst ho; rw [upd_same] at h; rw [upd_other _ _ _ _ ho'] at h'; cases h
              have := hl.curLt o' _ h'; omega
            · subst ho'; rw [upd_same] at h'; rw [upd_other _ _ _ _ ho] at h; cases h'
              have := hl.curLt o _ h; omega
            · rw [upd_other _ _ _ _ ho] at h; rw [upd_other _ _ _ _ ho'] at h'; exact hl.inj o o' i h h'
          · intro o i h; simp only at h ⊢
            by_cases ho : o = onew
            · subst ho; rw [upd_same] at h; cases h
              cases hw : s.owned new with
              | none => rfl
              | some w => have := hl.ownLt new w hw; omega
            · rw [upd_other _ _ _ _ ho] at h; exact hl.disj o i h
          · intro o i h hr; simp only at h ⊢
            by_cases ho : o = onew
            · subst ho; rw [hrn] at hr; cases hr
            · rw [upd_other _ _ _ _ ho] at h
              have := hl.curLt o i h
              rw [upd_other _ _ _ _ (by omega)]; exact hl.rdy o i h hr
          · intro i w h hw; simp only
            have := hl.ownLt i w h
            rw [upd_other _ _ _ _ (by omega)]; exact hl.armed i w h hw
          · intro o t h; simp only at h ⊢
            obtain ⟨h1, i, h2, h3⟩ := hl.opened o t h
            have ho : o ≠ onew := by intro hh; subst hh; rw [hcn] at h2; cases h2
            refine ⟨h1, i, by rw [upd_other _ _ _ _ ho]; exact h2, ?_⟩
            have := hl.curLt o i h2
            rw [upd_other _ _ _ _ (by omega)]; exact h3
          · intro i h; simp at h
          · intro nw sr h; simp at h
        · cases hc
      · rename_i hp
        split at hc
        · -- `mem::replace`: the instance that was polled moves into the request
          rename_i o tag hop
          split at hc
          · rename_i hsrc
            cases hc
            obtain ⟨hmo, i', hci, hri⟩ := hl.opened o tag hop
            rw [hsrc] at hci; cases hci
            have hsl := hl.curLt o src hsrc
            refine ⟨_, (mon_clone _ _ _ _).mpr ⟨⟨hsl, hnewn⟩, rfl⟩, ?_⟩
            refine ⟨by simp [hnI], hl.nO, ?_, ?_, ?_, ?_, ?_, ?_, ?_, ?_, ?_, ?_⟩
            · intro o1 i h; simp only at h
              by_cases ho : o1 = o
              · subst ho; exact hl.curLtO o1 src hsrc
              · rw [upd_other _ _ _ _ ho] at h; exact hl.curLtO o1 i h
            · intro o1 i h; simp only at h ⊢
              by_cases ho : o1 = o
              · subst ho; rw [upd_same] at h; cases h; omega
              · rw [upd_other _ _ _ _ ho] at h; have := hl.curLt o1 i h; omega
            · intro i w h; simp only at h ⊢
              by_cases hi : i = src
              · subst hi; omega
              · rw [upd_other _ _ _ _ hi] at h; have := hl.ownLt i w h; omega
            · intro o1 o2 i h h'; simp only at h h'
              by_cases ho : o1 = o <;> by_cases ho' : o2 = o
              · rw [ho, ho']
              · subst ho; rw [upd_same] at h; rw [upd_other _ _ _ _ ho'] at h'; cases h
                have := hl.curLt o2 _ h'; omega
              · subst ho'; rw [upd_same] at h'; rw [upd_other _ _ _ _ ho] at h; cases h'
                have := hl.curLt o1 _ h; omega
              · rw [upd_other _ _ _ _ ho] at h; rw [upd_other _ _ _ _ ho'] at h'; exact hl.inj o1 o2 i h h'
            · intro o1 i h; simp only at h ⊢
              by_cases ho : o1 = o
              · subst ho; rw [upd_same] at h; cases h
                rw [upd_other _ _ _ _ (by omega)]
                cases hw : s.owned new with
                | none => rfl
                | some w => have := hl.ownLt new w hw; omega
              · rw [upd_other _ _ _ _ ho] at h
                have hne : i ≠ src := by
                  intro hh; subst hh; exact ho (hl.inj o1 o i h hsrc)
                rw [upd_other _ _ _ _ hne]; exact hl.disj o1 i h
            · intro o1 i h hr; simp only at h ⊢
              by_cases ho : o1 = o
              · subst ho; rw [hmo] at hr; cases hr
              · rw [upd_other _ _ _ _ ho] at h
                have := hl.curLt o1 i h
                rw [upd_other _ _ _ _ (by omega)]; exact hl.rdy o1 i h hr
            · intro i w h hw; simp only at h ⊢
              by_cases hi : i = src
              · subst hi; rw [upd_other _ _ _ _ (by omega)]; exact hri
              · rw [upd_other _ _ _ _ hi] at h
                have := hl.ownLt i w h
                rw [upd_other _ _ _ _ (by omega)]; exact hl.armed i w h hw
            · intro o1 t h; simp at h
            · intro i h; simp at h
            · intro nw sr h; simp only at h; rw [hp] at h; cases h
          · cases hc
        · -- a clone of an instance a request owns
          rename_i hop
          split at hc
          · rename_i ow how
            cases hc
            have hsl := hl.ownLt src ow how
            refine ⟨_, (mon_clone _ _ _ _).mpr ⟨⟨hsl, hnewn⟩, rfl⟩, ?_⟩
            refine ⟨by simp [hnI], hl.nO, hl.curLtO, ?_, ?_, hl.inj, ?_, ?_, ?_, ?_, ?_, ?_⟩
            · intro o i h; have := hl.curLt o i h; simp only; omega
            · intro i w h; simp only at h ⊢
              by_cases hi : i = new
              · omega
              · rw [upd_other _ _ _ _ hi] at h; have := hl.ownLt i w h; omega
            · intro o i h; simp only
              have := hl.curLt o i h
              rw [upd_other _ _ _ _ (by omega)]; exact hl.disj o i h
            · intro o i h hr; simp only
              have := hl.curLt o i h
              rw [upd_other _ _ _ _ (by omega)]; exact hl.rdy o i h hr
            · intro i w h hw; simp only at h ⊢
              by_cases hi : i = new
              · subst hi; rw [upd_same] at h; cases h; cases hw
              · rw [upd_other _ _ _ _ hi] at h
                have := hl.ownLt i w h
                rw [upd_other _ _ _ _ (by omega)]; exact hl.armed i w h hw
            · intro o t h; simp only at h; rw [hop] at h; cases h
            · intro i h; simp at h
            · intro nw sr h; simp only at h; rw [hp] at h; cases h
          · -- a spare clone of the held instance, right after a direct call on it
            split at hc
            · rename_i o tag hlc
              split at hc
              · rename_i hcs
                cases hc
                have hsl := hl.curLt o src hcs
                refine ⟨_, (mon_clone _ _ _ _).mpr ⟨⟨hsl, hnewn⟩, rfl⟩, ?_⟩
                refine ⟨by simp [hnI], hl.nO, hl.curLtO, ?_, ?_, hl.inj, ?_, ?_, ?_, ?_, ?_, ?_⟩
                · intro o' i h; have := hl.curLt o' i h; simp only; omega
                · intro i w h; simp only at h ⊢
                  by_cases hi : i = new
                  · omega
                  · rw [upd_other _ _ _ _ hi] at h; have := hl.ownLt i w h; omega
                · intro o' i h; simp only
                  have := hl.curLt o' i h
                  rw [upd_other _ _ _ _ (by omega)]; exact hl.disj o' i h
                · intro o' i h hr; simp only
                  have := hl.curLt o' i h
                  rw [upd_other _ _ _ _ (by omega)]; exact hl.rdy o' i h hr
                · intro i w h hw; simp only at h ⊢
                  by_cases hi : i = new
                  · subst hi; rw [upd_same] at h; cases h; cases hw
                  · rw [upd_other _ _ _ _ hi] at h
                    have := hl.ownLt i w h
                    rw [upd_other _ _ _ _ (by omega)]; exact hl.armed i w h hw
                · intro o' t h; simp only at h; rw [hop] at h; cases h
                · intro i h; simp at h
                · intro nw sr h; simp only at h; rw [hp] at h; cases h
              · cases hc
            · cases hc
  · cases hs

theorem ready_mono (mi : Mon) (i j : Nat) (r : PollRes) (h : mi.ready j = true) :
    upd mi.ready i (decide (r = .ready) || mi.ready i) j = true := by
  by_cases hj : j = i
  · subst hj; rw [upd_same, h]; simp
  · rw [upd_other _ _ _ _ hj]; exact h

theorem inner_poll (s s' : LSt) (mo mi : Mon) (i : Nat) (r : PollRes) (hl : Link s mo mi)
    (hs : s.step (.inner (.poll i r)) = some s') :
    ∃ mi', mi.step (.poll i r) = some mi' ∧ Link s' mo mi' := by
  simp only [LSt.step, innerPoll] at hs
  split at hs
  · -- an instance a request owns is polled (before a retry / a hedged attempt / a reconnect attempt)
    rename_i ow how
    cases hs
    have hlt := hl.ownLt i ow how
    refine ⟨_, (mon_poll _ _ _ _).mpr ⟨hlt, rfl⟩, ?_⟩
    refine ⟨hl.nI, hl.nO, hl.curLtO, hl.curLt, ?_, hl.inj, ?_, ?_, ?_, ?_, ?_, hl.pend⟩
    · intro i' w h; simp only at h ⊢
      split at h
      · by_cases hi : i' = i
        · subst hi; exact hlt
        · rw [upd_other _ _ _ _ hi] at h; exact hl.ownLt i' w h
      · exact hl.ownLt i' w h
    · intro o i' h; simp only
      have hd := hl.disj o i' h
      split
      · have hne : i' ≠ i := by intro hh; subst hh; rw [how] at hd; cases hd
        rw [upd_other _ _ _ _ hne]; exact hd
      · exact hd
    · intro o i' h hr; exact ready_mono mi i i' r (hl.rdy o i' h hr)
    · intro i' w h hw; simp only at h ⊢
      split at h
      · rename_i hrr
        by_cases hi : i' = i
        · subst hi; rw [upd_same]; simp [hrr]
        · rw [upd_other _ _ _ _ hi] at h; exact ready_mono mi i i' r (hl.armed i' w h hw)
      · exact ready_mono mi i i' r (hl.armed i' w h hw)
    · intro o t h
      obtain ⟨h1, i', h2, h3⟩ := hl.opened o t h
      exact ⟨h1, i', h2, ready_mono mi i i' r h3⟩
    · intro i' h; simp at h
  · -- `poll_ready` forwarded to the instance an outer instance holds
    rename_i how
    split at hs
    · rename_i hheld
      cases hs
      obtain ⟨o, hco⟩ := heldBy_sound s i hheld
      have hlt := hl.curLt o i hco
      refine ⟨_, (mon_poll _ _ _ _).mpr ⟨hlt, rfl⟩, ?_⟩
      refine ⟨hl.nI, hl.nO, hl.curLtO, hl.curLt, hl.ownLt, hl.inj, hl.disj, ?_, ?_, ?_, ?_, hl.pend⟩
      · intro o' i' h hr; exact ready_mono mi i i' r (hl.rdy o' i' h hr)
      · intro i' w h hw; exact ready_mono mi i i' r (hl.armed i' w h hw)
      · intro o' t h
        obtain ⟨h1, i', h2, h3⟩ := hl.opened o' t h
        exact ⟨h1, i', h2, ready_mono mi i i' r h3⟩
      · intro i' h; simp only at h ⊢
        split at h
        · rename_i hrr
          cases h; rw [upd_same]; simp [hrr]
        · cases h
    · cases hs

theorem inner_call (s s' : LSt) (mo mi : Mon) (i tag : Nat) (hl : Link s mo mi)
    (hs : s.step (.inner (.call i tag)) = some s') :
    ∃ mi', mi.step (.call i tag) = some mi' ∧ Link s' mo mi' := by
  simp only [LSt.step, innerCall] at hs
  split at hs
  · -- the layer calls `self.inner` itself while serving the outer call
    rename_i o t hop
    split at hs
    · rename_i hg
      obtain ⟨hci, _⟩ := hg
      cases hs
      obtain ⟨hmo, i', hci', hri⟩ := hl.opened o t hop
      rw [hci] at hci'; cases hci'
      have hlt := hl.curLt o i hci
      refine ⟨_, (mon_call _ _ _ _).mpr ⟨⟨hlt, hri⟩, rfl⟩, ?_⟩
      refine ⟨hl.nI, hl.nO, hl.curLtO, hl.curLt, hl.ownLt, hl.inj, hl.disj, ?_, ?_, ?_, ?_, hl.pend⟩
      · intro o' i' h hr; simp only
        have hne : i' ≠ i := by
          intro hh; subst hh
          have := hl.inj o' o i' h hci; subst this; rw [hmo] at hr; cases hr
        rw [upd_other _ _ _ _ hne]; exact hl.rdy o' i' h hr
      · intro i' w h hw; simp only
        have hne : i' ≠ i := by
          intro hh; subst hh; have := hl.disj o i' hci; rw [this] at h; cases h
        rw [upd_other _ _ _ _ hne]; exact hl.armed i' w h hw
      · intro o' t' h; simp at h
      · intro i' h; simp at h
    · cases hs
  · rename_i hop
    split at hs
    · -- an instance moved into the request is called: it was taken over ready, or re-polled ready
      rename_i ow how
      split at hs
      · rename_i hg
        obtain ⟨harm, _⟩ := hg
        cases hs
        have hlt := hl.ownLt i ow how
        have hri := hl.armed i ow how harm
        refine ⟨_, (mon_call _ _ _ _).mpr ⟨⟨hlt, hri⟩, rfl⟩, ?_⟩
        refine ⟨hl.nI, hl.nO, hl.curLtO, hl.curLt, ?_, hl.inj, ?_, ?_, ?_, ?_, ?_, hl.pend⟩
        · intro i' w h; simp only at h
          by_cases hi : i' = i
          · subst hi; exact hlt
          · rw [upd_other _ _ _ _ hi] at h; exact hl.ownLt i' w h
        · intro o i' h; simp only
          have hd := hl.disj o i' h
          have hne : i' ≠ i := by intro hh; subst hh; rw [how] at hd; cases hd
          rw [upd_other _ _ _ _ hne]; exact hd
        · intro o i' h hr; simp only
          have hd := hl.disj o i' h
          have hne : i' ≠ i := by intro hh; subst hh; rw [how] at hd; cases hd
          rw [upd_other _ _ _ _ hne]; exact hl.rdy o i' h hr
        · intro i' w h hw; simp only at h ⊢
          by_cases hi : i' = i
          · subst hi; rw [upd_same] at h; cases h; cases hw
          · rw [upd_other _ _ _ _ hi] at h
            rw [upd_other _ _ _ _ hi]; exact hl.armed i' w h hw
        · intro o t h; simp only at h; rw [hop] at h; cases h
        · intro i' h; simp at h
      · cases hs
    · cases hs

/-- every event a layer performs at its inner boundary is accepted by the inner monitor -/
theorem inner_step (s s' : LSt) (mo mi : Mon) (e : Ev) (hl : Link s mo mi)
    (hs : s.step (.inner e) = some s') : ∃ mi', mi.step e = some mi' ∧ Link s' mo mi' := by
  cases e with
  | clone src new => exact inner_clone s s' mo mi src new hl hs
  | poll i r => exact inner_poll s s' mo mi i r hl hs
  | call i tag => exact inner_call s s' mo mi i tag hl hs

/-- one layer, any accepted sequence of outer and inner events -/
theorem layer_run (l : List LIn) (s s' : LSt) (mo mo' mi : Mon) (hl : Link s mo mi)
    (hs : s.run l = some s') (hmo : mo.run (outers l) = some mo') :
    ∃ mi', mi.run (inners l) = some mi' ∧ Link s' mo' mi' := by
  induction l generalizing s mo mi with
  | nil =>
    simp only [LSt.run, outers, Mon.run, Option.some.injEq] at hs hmo
    subst hs; subst hmo
    exact ⟨mi, rfl, hl⟩
  | cons x xs ih =>
    simp only [LSt.run] at hs
    cases hx : s.step x with
    | none => simp [hx] at hs
    | some s1 =>
      simp only [hx] at hs
      cases x with
      | outer e =>
        simp only [outers, Mon.run] at hmo
        cases hme : mo.step e with
        | none => simp [hme] at hmo
        | some mo1 =>
          simp only [hme] at hmo
          have hl1 := outer_step s s1 mo mo1 mi e hl hx hme
          simpa [inners] using ih s1 mo1 mi hl1 hs hmo
      | inner e =>
        simp only [outers] at hmo
        obtain ⟨mi1, hmi, hl1⟩ := inner_step s s1 mo mi e hl hx
        obtain ⟨mi', hrun, hl'⟩ := ih s1 mo mi1 hl1 hs hmo
        exact ⟨mi', by simp [inners, Mon.run, hmi, hrun], hl'⟩

/-- **One layer honours the contract.** If the layer is driven by a caller that honours the
readiness contract and does only what its idiom allows, every call it makes finds a ready instance. -/
theorem layer_contract (l : List LIn) (hacc : (LSt.run {} l).isSome) (hout : Respects (outers l)) :
    Respects (inners l) := by
  unfold Respects at *
  obtain ⟨s', hs⟩ := Option.isSome_iff_exists.mp hacc
  obtain ⟨mo', hmo⟩ := Option.isSome_iff_exists.mp hout
  obtain ⟨mi', hmi, _⟩ := layer_run l {} s' {} mo' {} link_init hs hmo
  simp [hmi]

/-! ## stacks -/

theorem outers_view (j : Nat) (g : List GEv) : outers (view j g) = proj j g := by
  induction g with
  | nil => rfl
  | cons x xs ih =>
    obtain ⟨b, e⟩ := x
    simp only [view, proj]
    by_cases h1 : b = j
    · simp [h1, outers, ih]
    · by_cases h2 : b = j + 1
      · simp [h1, h2, outers, ih]
      · simp [h1, h2, ih]

theorem inners_view (j : Nat) (g : List GEv) : inners (view j g) = proj (j + 1) g := by
  induction g with
  | nil => rfl
  | cons x xs ih =>
    obtain ⟨b, e⟩ := x
    simp only [view, proj]
    by_cases h1 : b = j
    · have : ¬ b = j + 1 := by omega
      simp [h1, inners, ih]
    · by_cases h2 : b = j + 1
      · simp [h1, h2, inners, ih]
      · simp [h1, h2, ih]

/-- **Every stack honours the contract at every boundary**, by induction over the boundaries. -/
theorem stack_contract (n : Nat) (g : List GEv) (hacc : Accepted n g) (h0 : Respects (proj 0 g)) :
    ∀ j, j ≤ n → Respects (proj j g) := by
  intro j
  induction j with
  | zero => intro _; exact h0
  | succ k ih =>
    intro hk
    have hprev := ih (by omega)
    have := layer_contract (view k g) (hacc k (by omega)) (by rw [outers_view]; exact hprev)
    rw [inners_view] at this
    exact this

end TR.Stack

namespace TR.Stack

/-! ## requests are forwarded unchanged -/

def callTags : List Ev → List Nat
  | [] => []
  | .call _ t :: tl => t :: callTags tl
  | _ :: tl => callTags tl

/-- everything the layer may still call carries the tag of an outer call it has received -/
structure TagInv (s : LSt) (seen : List Nat) : Prop where
  owned : ∀ i w, s.owned i = some w → w.tag ∈ seen
  opened : ∀ o t, s.opened = some (o, t) → t ∈ seen
  last : ∀ o t, s.lastCall = some (o, t) → t ∈ seen

theorem tag_step (s s' : LSt) (x : LIn) (seen : List Nat) (h : TagInv s seen) (hs : s.step x = some s') :
    (∀ e, x = .outer e → TagInv s' (callTags [e] ++ seen)) ∧
    (∀ e, x = .inner e → TagInv s' seen ∧ ∀ t ∈ callTags [e], t ∈ seen) := by
  have nolast : ∀ (sn : List Nat) (o t : Nat), (none : Option (Nat × Nat)) = some (o, t) → t ∈ sn := by
    intro _ _ _ hh; cases hh
  constructor
  · intro e hx; subst hx
    cases e with
    | clone src new =>
      simp only [LSt.step, outerClone] at hs
      split at hs
      · cases hs; exact ⟨h.owned, nolast _, nolast _⟩
      · cases hs
    | poll o r =>
      simp only [LSt.step, outerPoll] at hs
      split at hs
      · split at hs
        · split at hs
          · cases hs; exact ⟨h.owned, nolast _, nolast _⟩
          · cases hs
        · cases hs
      · cases hs
    | call o tag =>
      simp only [LSt.step, outerCall] at hs
      split at hs
      · cases hs
        refine ⟨fun i w hw => by simp [callTags]; exact Or.inr (h.owned i w hw), ?_, nolast _⟩
        intro o' t hh
        simp only [Option.some.injEq, Prod.mk.injEq] at hh
        obtain ⟨_, rfl⟩ := hh
        simp [callTags]
      · cases hs
  · intro e hx; subst hx
    cases e with
    | clone src new =>
      simp only [LSt.step, innerClone] at hs
      split at hs
      · cases hc : innerCloneCore s src new with
        | none => simp [hc] at hs
        | some s0 =>
          simp only [hc, Option.map_some, Option.some.injEq] at hs
          subst hs
          refine ⟨?_, by simp [callTags]⟩
          unfold innerCloneCore at hc
          split at hc
          · split at hc
            · cases hc; exact ⟨h.owned, h.opened, h.last⟩
            · cases hc
          · split at hc
            · rename_i o tag hop
              split at hc
              · cases hc
                refine ⟨?_, by intro o' t hh; simp at hh, h.last⟩
                intro i w hw
                simp only at hw
                by_cases hi : i = src
                · subst hi; rw [upd_same] at hw; cases hw; exact h.opened o tag hop
                · rw [upd_other _ _ _ _ hi] at hw; exact h.owned i w hw
              · cases hc
            · split at hc
              · rename_i ow how
                cases hc
                refine ⟨?_, h.opened, h.last⟩
                intro i w hw
                simp only at hw
                by_cases hi : i = new
                · subst hi; rw [upd_same] at hw; cases hw; exact h.owned src ow how
                · rw [upd_other _ _ _ _ hi] at hw; exact h.owned i w hw
              · split at hc
                · rename_i o tag hlc
                  split at hc
                  · cases hc
                    refine ⟨?_, h.opened, nolast _⟩
                    intro i w hw
                    simp only at hw
                    by_cases hi : i = new
                    · subst hi; rw [upd_same] at hw; cases hw; exact h.last o tag hlc
                    · rw [upd_other _ _ _ _ hi] at hw; exact h.owned i w hw
                  · cases hc
                · cases hc
      · cases hs
    | poll i r =>
      simp only [LSt.step, innerPoll] at hs
      refine ⟨?_, by simp [callTags]⟩
      split at hs
      · rename_i ow how
        cases hs
        refine ⟨?_, h.opened, h.last⟩
        intro i' w hw
        simp only at hw
        split at hw
        · by_cases hi : i' = i
          · subst hi; rw [upd_same] at hw; cases hw; exact h.owned i' ow how
          · rw [upd_other _ _ _ _ hi] at hw; exact h.owned i' w hw
        · exact h.owned i' w hw
      · split at hs
        · cases hs; exact ⟨h.owned, h.opened, h.last⟩
        · cases hs
    | call i tag =>
      simp only [LSt.step, innerCall] at hs
      split at hs
      · rename_i o t hop
        split at hs
        · rename_i hg
          cases hs
          have htag : tag ∈ seen := by rw [← hg.2]; exact h.opened o t hop
          refine ⟨⟨h.owned, by intro o' t' hh; simp at hh, ?_⟩, ?_⟩
          · intro o' t' hh
            simp only [Option.some.injEq, Prod.mk.injEq] at hh
            obtain ⟨_, rfl⟩ := hh
            exact htag
          · intro t' ht'
            simp [callTags] at ht'; subst ht'
            exact htag
        · cases hs
      · split at hs
        · rename_i ow how
          split at hs
          · rename_i hg
            cases hs
            refine ⟨⟨?_, h.opened, h.last⟩, ?_⟩
            · intro i' w hw
              simp only at hw
              by_cases hi : i' = i
              · subst hi; rw [upd_same] at hw; cases hw; exact h.owned i' ow how
              · rw [upd_other _ _ _ _ hi] at hw; exact h.owned i' w hw
            · intro t' ht'
              simp [callTags] at ht'; subst ht'
              rw [← hg.2]; exact h.owned i ow how
          · cases hs
        · cases hs

theorem callTags_append (a b : List Ev) : callTags (a ++ b) = callTags a ++ callTags b := by
  induction a with
  | nil => rfl
  | cons x xs ih => cases x <;> simp [callTags, ih]

/-- every request the layer passes to its inner service is one it received, unchanged:
each inner `call _ tag` is preceded by an outer `call _ tag` -/
theorem forwards_received (l : List LIn) (s s' : LSt) (seen : List Nat) (h : TagInv s seen)
    (hs : s.run l = some s') : ∀ t ∈ callTags (inners l), t ∈ seen ∨ t ∈ callTags (outers l) := by
  induction l generalizing s seen with
  | nil => intro t ht; simp [inners, callTags] at ht
  | cons x xs ih =>
    simp only [LSt.run] at hs
    cases hx : s.step x with
    | none => simp [hx] at hs
    | some s1 =>
      simp only [hx] at hs
      have hst := tag_step s s1 x seen h hx
      cases x with
      | outer e =>
        have h1 := hst.1 e rfl
        intro t ht
        simp only [inners] at ht
        rcases ih s1 _ h1 hs t ht with hh | hh
        · rcases List.mem_append.mp hh with h2 | h2
          · right
            show t ∈ callTags (e :: outers xs)
            have : callTags (e :: outers xs) = callTags [e] ++ callTags (outers xs) := callTags_append [e] _
            rw [this]; exact List.mem_append_left _ h2
          · exact Or.inl h2
        · right
          show t ∈ callTags (e :: outers xs)
          have : callTags (e :: outers xs) = callTags [e] ++ callTags (outers xs) := callTags_append [e] _
          rw [this]; exact List.mem_append_right _ hh
      | inner e =>
        obtain ⟨h1, h2⟩ := hst.2 e rfl
        intro t ht
        simp only [inners] at ht
        have : callTags (e :: inners xs) = callTags [e] ++ callTags (inners xs) := callTags_append [e] _
        rw [this] at ht
        rcases List.mem_append.mp ht with h3 | h3
        · exact Or.inl (h2 t h3)
        · simpa [outers] using ih s1 seen h1 hs t h3

/-! ## readiness answers other than `ready` license nothing -/

/-- a `poll_ready` that did not return `Ready(Ok)` leaves the contract monitor as it was, except that a
failed service is no longer ready -/
theorem Mon.step_poll_not_ready (m m' : Mon) (i : Nat) (r : PollRes) (hr : r ≠ .ready)
    (h : m.step (.poll i r) = some m') : m'.n = m.n ∧ ∀ j, m'.ready j = true → m.ready j = true := by
  simp only [Mon.step] at h
  split at h
  · cases h
    refine ⟨rfl, ?_⟩
    intro j hj
    simp only [upd] at hj
    split at hj
    · rename_i hji; subst hji; simpa [hr] using hj
    · exact hj
  · cases h

/-- However often an instance that is not ready is polled — `Pending` for a stretch of time, or an error —
the call that follows is a contract violation: only `Ready(Ok)` licenses a call. -/
theorem Mon.not_ready_polls_then_call (m : Mon) (i tag : Nat) (rs : List PollRes) (hrs : ∀ r ∈ rs, r ≠ .ready)
    (hi : m.ready i = false) : m.run (rs.map (fun r => Ev.poll i r) ++ [Ev.call i tag]) = none := by
  induction rs generalizing m with
  | nil => simp [Mon.run, Mon.step, hi]
  | cons r tl ih =>
    simp only [List.map_cons, List.cons_append, Mon.run]
    cases hs : m.step (.poll i r) with
    | none => rfl
    | some m' =>
      have h := Mon.step_poll_not_ready m m' i r (hrs r (by simp)) hs
      have hi' : m'.ready i = false := by
        cases hm : m'.ready i with
        | false => rfl
        | true => have := h.2 i hm; simp [hi] at this
      exact ih m' (fun r hr => hrs r (by simp [hr])) hi'

/-- the layer automaton agrees: a readiness answer other than `ready` never arms an instance a request owns -/
theorem innerPoll_not_ready_keeps (s s' : LSt) (i : Nat) (r : PollRes) (b : Bool) (hr : r ≠ .ready)
    (h : innerPoll s i r b = some s') : s'.owned = s.owned := by
  simp only [innerPoll] at h
  split at h
  · cases h; simp [hr]
  · split at h
    · cases h; rfl
    · cases h

end TR.Stack

/-! ## configured layers: what `denote` says -/

namespace TR.Stack

theorem base_calls (k : Nat) (s : List Out) (a : Ans) (k' : Nat) (s' : List Out) (h : base k s = some (a, k', s')) :
    k' = k + 1 ∧ s' = s.drop 1 := by
  cases s with
  | nil => simp [base] at h; obtain ⟨_, rfl, rfl⟩ := h; simp
  | cons o tl =>
    cases o with
    | ok => simp [base] at h; obtain ⟨_, rfl, rfl⟩ := h; simp
    | err kd => simp [base] at h; obtain ⟨_, rfl, rfl⟩ := h; simp
    | panic => simp [base] at h
    | never => simp [base] at h

theorem retryGo_zero (inner : Svc) (p : Pred) : retryGo inner p 0 = inner := by
  funext k s; simp [retryGo]

/-- the retry loop over the scripted service: at least one call, at most `left + 1`, and the answer is the LAST call's,
as the scripted service gave it -/
theorem retryGo_base (p : Pred) (left : Nat) : ∀ (k : Nat) (s : List Out) (a : Ans) (k' : Nat) (s' : List Out),
    retryGo base p left k s = some (a, k', s') →
    k < k' ∧ k' ≤ k + left + 1 ∧ base (k' - 1) (s.drop (k' - 1 - k)) = some (a, k', s') := by
  induction left with
  | zero =>
    intro k s a k' s' h
    rw [retryGo_zero] at h
    obtain ⟨hk, _⟩ := base_calls k s a k' s' h
    subst hk
    refine ⟨by omega, by omega, ?_⟩
    simpa using h
  | succ n ih =>
    intro k s a k' s' h
    cases hb : base k s with
    | none => simp [retryGo, hb] at h
    | some r =>
      obtain ⟨a1, k1, s1⟩ := r
      obtain ⟨hk1, hs1⟩ := base_calls k s a1 k1 s1 hb
      have stop : retryGo base p (n + 1) k s = some (a1, k1, s1) → k < k' ∧ k' ≤ k + (n + 1) + 1 ∧
          base (k' - 1) (s.drop (k' - 1 - k)) = some (a, k', s') := by
        intro h'
        rw [h'] at h
        simp only [Option.some.injEq, Prod.mk.injEq] at h
        obtain ⟨rfl, rfl, rfl⟩ := h
        subst hk1
        refine ⟨by omega, by omega, ?_⟩
        simpa using hb
      cases a1 with
      | ok o => exact stop (by simp [retryGo, hb])
      | lit t => exact stop (by simp [retryGo, hb])
      | err e =>
        by_cases hp : p.holds e.kind = true
        · have h2 : retryGo base p n k1 s1 = some (a, k', s') := by
            simpa [retryGo, hb, hp] using h
          obtain ⟨h3, h4, h5⟩ := ih k1 s1 a k' s' h2
          subst hk1 hs1
          refine ⟨by omega, by omega, ?_⟩
          have e1 : k' - 1 - k = 1 + (k' - 1 - (k + 1)) := by omega
          rw [e1, ← List.drop_drop]
          exact h5
        · exact stop (by simp [retryGo, hb, hp])

/-- … and when the service keeps failing with errors the predicate accepts, every permitted attempt is made -/
theorem retryGo_base_exhausts (p : Pred) (left : Nat) : ∀ (k : Nat) (s : List Out),
    left + 1 ≤ s.length → (∀ o ∈ s.take (left + 1), ∃ kd, o = Out.err kd ∧ p.holds kd = true) →
    ∃ a s', retryGo base p left k s = some (a, k + left + 1, s') := by
  induction left with
  | zero =>
    intro k s hl hall
    cases s with
    | nil => simp at hl
    | cons o tl =>
      obtain ⟨kd, rfl, _⟩ := hall o (by simp)
      exact ⟨.err ⟨"", kd, k + 1, ""⟩, tl, by simp [retryGo, base]⟩
  | succ n ih =>
    intro k s hl hall
    cases s with
    | nil => simp at hl
    | cons o tl =>
      obtain ⟨kd, rfl, hp⟩ := hall o (by simp)
      obtain ⟨a, s', h⟩ := ih (k + 1) tl (by simpa using hl) (by
        intro o ho; exact hall o (by simp [List.take_succ_cons, ho]))
      refine ⟨a, s', ?_⟩
      simp only [retryGo, base, hp, if_true]
      rw [h]
      have e : k + 1 + n + 1 = k + (n + 1) + 1 := by omega
      rw [e]

end TR.Stack

namespace TR.Stack

/-- the answer that has passed the layers `ls`: still the same call's, of the same kind -/
theorem passAll_shape (ls : List LCfg) (o : Out) (n : Nat) :
    (o = .ok → passAll ls (answerOf o n) = .ok n) ∧
    (∀ kd, o = .err kd → ∃ e, passAll ls (answerOf o n) = .err e ∧ e.kind = kd ∧ e.ord = n) := by
  induction ls with
  | nil =>
    refine ⟨?_, ?_⟩
    · intro h; subst h; rfl
    · intro kd h; subst h; exact ⟨_, rfl, rfl, rfl⟩
  | cons l tl ih =>
    refine ⟨?_, ?_⟩
    · intro h
      have := ih.1 h
      simp only [passAll, List.foldr_cons] at this ⊢
      rw [this]
      cases l <;> rfl
    · intro kd h
      obtain ⟨e, he, hk, ho⟩ := ih.2 kd h
      simp only [passAll, List.foldr_cons] at he ⊢
      rw [he]
      cases l <;> first
        | exact ⟨e, rfl, hk, ho⟩
        | exact ⟨_, rfl, hk, ho⟩

/-- **Every stack of layers whose protective conditions the request does not trigger — whatever their configurations —
forwards the request exactly once and hands back that call's answer, unchanged but for the pass-through variants.** -/
theorem denote_transparent (ctx : Ctx) (o : Out) (ho : o = .ok ∨ ∃ kd, o = .err kd) (ls : List LCfg)
    (hq : ∀ l ∈ ls, quiet ctx o l = true) (k : Nat) (s : List Out) :
    denote ctx ls k (o :: s) = some (passAll ls (answerOf o (k + 1)), k + 1, s) := by
  induction ls with
  | nil =>
    rcases ho with rfl | ⟨kd, rfl⟩ <;> simp [denote, base, passAll, answerOf]
  | cons l tl ih =>
    have hin := ih (fun l' hl' => hq l' (by simp [hl']))
    have hl := hq l (by simp)
    obtain ⟨hok, herr⟩ := passAll_shape tl o (k + 1)
    simp only [denote, passAll, List.foldr_cons] at hin ⊢
    rcases ho with rfl | ⟨kd, rfl⟩
    · -- a success passes every layer untouched
      have h1 := hok rfl
      simp only [passAll] at h1
      rw [h1] at hin ⊢
      cases l with
      | wrap name => simp [applyL, through, hin, passOne, Ans.mapErr]
      | bare => simp [applyL, hin, passOne]
      | guard name cap wait =>
        have : ctx.demand ≤ cap ∨ ctx.span < wait := by simpa [quiet] using hl
        simp [applyL, this, through, hin, passOne, Ans.mapErr]
      | limiter name t =>
        have : ctx.span < t := by simpa [quiet] using hl
        simp [applyL, this, through, hin, passOne, Ans.mapErr]
      | retry max p =>
        cases hm : max - 1 with
        | zero => simp [applyL, hm, retryGo, hin, passOne]
        | succ m => simp [applyL, hm, retryGo, hin, passOne]
      | fallback st p => simp [applyL, hin, passOne, Ans.mapErr]
      | hedge n d =>
        by_cases hn : n ≤ 1
        · simp [applyL, hn, through, hin, passOne, Ans.mapErr]
        · cases d with
          | none => simp [quiet, hn] at hl
          | some dd =>
            have : ctx.span < dd := by simpa [quiet, hn] using hl
            simp [applyL, hn, this, hin, passOne, Ans.mapErr]
      | reconnect max policy retry => simp [applyL, reconGo, hin, passOne, Ans.mapErr]
      | blackbox => simp [quiet] at hl
    · -- an error no layer acts on comes back under the pass-through variants
      obtain ⟨e, he, hk, _⟩ := herr kd rfl
      simp only [passAll] at he
      rw [he] at hin ⊢
      cases l with
      | wrap name => simp [applyL, through, hin, passOne, Ans.mapErr]
      | bare => simp [applyL, hin, passOne]
      | guard name cap wait =>
        have : ctx.demand ≤ cap ∨ ctx.span < wait := by simpa [quiet] using hl
        simp [applyL, this, through, hin, passOne, Ans.mapErr]
      | limiter name t =>
        have : ctx.span < t := by simpa [quiet] using hl
        simp [applyL, this, through, hin, passOne, Ans.mapErr]
      | retry max p =>
        have hl' : max ≤ 1 ∨ p.holds kd = false := by simpa [quiet, errKind] using hl
        cases hm : max - 1 with
        | zero => simp [applyL, hm, retryGo, hin, passOne]
        | succ m =>
          have hp : p.holds e.kind = false := by
            rcases hl' with h | h
            · omega
            · rw [hk]; exact h
          simp [applyL, hm, retryGo, hin, hp, passOne]
      | fallback st p =>
        have hp : p.holds e.kind = false := by rw [hk]; simpa [quiet, errKind] using hl
        simp [applyL, hin, hp, passOne, Ans.mapErr]
      | hedge n d =>
        have hn : n ≤ 1 := by simpa [quiet] using hl
        simp [applyL, hn, through, hin, passOne, Ans.mapErr]
      | reconnect max policy retry =>
        have hne : (e.kind != 1) = true := by rw [hk]; simpa [quiet, errKind] using hl
        simp [applyL, reconGo, hin, hne, passOne, Ans.mapErr]
      | blackbox => simp [quiet] at hl

end TR.Stack

/-! ## answers at the boundaries: what an accepted layer has done -/

namespace TR.Stack

theorem takeFirst_some {α : Type} (p : α → Bool) : ∀ (l : List α) (x : α) (l' : List α),
    takeFirst p l = some (x, l') → x ∈ l ∧ p x = true ∧ ∀ y ∈ l', y ∈ l := by
  intro l
  induction l with
  | nil => intro x l' h; simp [takeFirst] at h
  | cons a tl ih =>
    intro x l' h
    simp only [takeFirst] at h
    by_cases hp : p a = true
    · simp only [hp, if_true, Option.some.injEq, Prod.mk.injEq] at h
      obtain ⟨rfl, rfl⟩ := h
      exact ⟨by simp, hp, fun y hy => by simp [hy]⟩
    · simp only [hp] at h
      cases ht : takeFirst p tl with
      | none => simp [ht] at h
      | some r =>
        obtain ⟨y, tl'⟩ := r
        simp only [ht, Bool.false_eq_true, if_false, Option.some.injEq, Prod.mk.injEq] at h
        obtain ⟨rfl, rfl⟩ := h
        obtain ⟨h1, h2, h3⟩ := ih y tl' ht
        refine ⟨by simp [h1], h2, ?_⟩
        intro z hz
        simp only [List.mem_cons] at hz ⊢
        rcases hz with hz | hz
        · exact Or.inl hz
        · exact Or.inr (h3 z hz)

theorem takeFirst_never {α : Type} (l : List α) : takeFirst (fun _ => false) l = none := by
  induction l with
  | nil => rfl
  | cons a tl ih => simp [takeFirst, ih]

/-- what the bookkeeping of answers keeps true, in every configuration -/
structure RInv (s : RSt) : Prop where
  gotSeen : ∀ g ∈ s.got, (g.tag, g.r) ∈ s.seen
  flyEq   : ∀ t, s.ir t + s.fly t = s.ic t
  heldEq  : ∀ t, s.ors t + s.held t + s.re t = s.ir t
  ansLe   : ∀ t, s.ors t + s.own t ≤ s.oc t

theorem rinv_init : RInv {} := ⟨by intro g h; simp at h, by intro t; rfl, by intro t; rfl, by intro t; simp⟩

theorem rinv_launch (s : RSt) (t att : Nat) (hi : RInv s) : RInv (launch s t att) := by
  refine ⟨hi.gotSeen, ?_, hi.heldEq, hi.ansLe⟩
  intro t'
  have := hi.flyEq t'
  by_cases ht : t' = t
  · subst ht; simp [launch, upd]; omega
  · simp [launch, upd, ht]; omega

theorem rinv_innerCall (c : LCfg) (s s' : RSt) (t : Nat) (hi : RInv s) (hs : innerCallR c s t = some s') : RInv s' := by
  unfold innerCallR at hs
  split at hs
  · cases hs; exact ⟨hi.gotSeen, hi.flyEq, hi.heldEq, hi.ansLe⟩
  · split at hs
    · cases hs
      exact rinv_launch _ _ _ ⟨hi.gotSeen, hi.flyEq, hi.heldEq, hi.ansLe⟩
    · split at hs
      · rename_i g got' htf
        split at hs
        · rename_i hheld
          obtain ⟨hheld, _⟩ := hheld
          cases hs
          obtain ⟨_, _, hsub⟩ := takeFirst_some _ _ _ _ htf
          refine rinv_launch _ _ _ ⟨fun g' hg' => hi.gotSeen g' (hsub g' hg'), hi.flyEq, ?_, hi.ansLe⟩
          intro t'
          have := hi.heldEq t'
          by_cases ht : t' = t
          · subst ht; simp [upd]; omega
          · simp [upd, ht]; omega
        · cases hs
      · split at hs
        · cases hs
          exact rinv_launch _ _ _ ⟨hi.gotSeen, hi.flyEq, hi.heldEq, hi.ansLe⟩
        · cases hs

theorem rinv_innerRet (c : LCfg) (s s' : RSt) (k t : Nat) (r : RVal) (hi : RInv s)
    (hs : innerRetR c s k t r = some s') : RInv s' := by
  unfold innerRetR at hs
  split at hs
  · split at hs
    · rename_i hfly
      cases hs
      refine ⟨?_, ?_, ?_, hi.ansLe⟩
      · intro g hg
        simp only [List.mem_cons] at hg ⊢
        rcases hg with rfl | hg
        · exact Or.inl rfl
        · exact Or.inr (hi.gotSeen g hg)
      · intro t'
        have := hi.flyEq t'
        by_cases ht : t' = t
        · subst ht; simp [upd]; omega
        · simp [upd, ht]; omega
      · intro t'
        have := hi.heldEq t'
        by_cases ht : t' = t
        · subst ht; simp [upd]; omega
        · simp [upd, ht]; omega
    · cases hs
  · split at hs
    · cases hs; exact hi
    · cases hs

theorem rinv_outerRet (c : LCfg) (s s' : RSt) (t : Nat) (ro : RVal) (hi : RInv s)
    (hs : outerRetR c s t ro = some s') : RInv s' := by
  unfold outerRetR at hs
  split at hs
  · cases hs; exact hi
  · split at hs
    · rename_i hlt
      split at hs
      · rename_i g got' htf
        split at hs
        · rename_i hheld
          cases hs
          obtain ⟨_, _, hsub⟩ := takeFirst_some _ _ _ _ htf
          refine ⟨fun g' hg' => hi.gotSeen g' (hsub g' hg'), hi.flyEq, ?_, ?_⟩
          · intro t'
            have := hi.heldEq t'
            by_cases ht : t' = t
            · subst ht; simp [upd]; omega
            · simp [upd, ht]; omega
          · intro t'
            have := hi.ansLe t'
            by_cases ht : t' = t
            · subst ht; simp [upd]; omega
            · simp [upd, ht]; omega
        · cases hs
      · split at hs
        · cases hs
          refine ⟨hi.gotSeen, hi.flyEq, hi.heldEq, ?_⟩
          intro t'
          have := hi.ansLe t'
          by_cases ht : t' = t
          · subst ht; simp [upd]; omega
          · simp [upd, ht]; omega
        · cases hs
    · cases hs

theorem rinv_step (c : LCfg) (s s' : RSt) (x : XIn) (hi : RInv s) (hs : s.step c x = some s') : RInv s' := by
  cases x with
  | outer e =>
    cases e with
    | ev e =>
      cases e with
      | call i t =>
        simp only [RSt.step, Option.some.injEq] at hs
        subst hs
        refine ⟨hi.gotSeen, hi.flyEq, hi.heldEq, ?_⟩
        intro t'
        have := hi.ansLe t'
        by_cases ht : t' = t
        · subst ht; simp [upd]; omega
        · simp [upd, ht]; omega
      | clone a b => simp only [RSt.step, Option.some.injEq] at hs; subst hs; exact hi
      | poll a r => simp only [RSt.step, Option.some.injEq] at hs; subst hs; exact hi
    | ret k t ro => exact rinv_outerRet c s s' t ro hi (by simpa [RSt.step] using hs)
  | inner e =>
    cases e with
    | ev e =>
      cases e with
      | call i t => exact rinv_innerCall c s s' t hi (by simpa [RSt.step] using hs)
      | clone a b => simp only [RSt.step, Option.some.injEq] at hs; subst hs; exact hi
      | poll a r =>
        cases r <;> simp only [RSt.step, Option.some.injEq] at hs <;> subst hs
        · exact hi
        · exact hi
        · exact ⟨hi.gotSeen, hi.flyEq, hi.heldEq, hi.ansLe⟩
    | ret k t r => exact rinv_innerRet c s s' k t r hi (by simpa [RSt.step] using hs)

theorem rinv_run (c : LCfg) (l : List XIn) : ∀ (s s' : RSt), RInv s → RSt.run c s l = some s' → RInv s' := by
  induction l with
  | nil => intro s s' hi h; simp only [RSt.run, Option.some.injEq] at h; subst h; exact hi
  | cons x tl ih =>
    intro s s' hi h
    simp only [RSt.run] at h
    cases hx : s.step c x with
    | none => simp [hx] at h
    | some s1 => simp only [hx] at h; exact ih s1 s' (rinv_step c s s1 x hi hx) h

end TR.Stack

namespace TR.Stack

/-! ### the counters are the counts of the events -/

/-- how the counters of tag `t'` moved in a step: by `a b c d` (outer calls, inner calls, inner answers, answers handed up) -/
def Moved (s s' : RSt) (t' a b c d : Nat) : Prop :=
  s'.oc t' = s.oc t' + a ∧ s'.ic t' = s.ic t' + b ∧ s'.ir t' = s.ir t' + c ∧ s'.ors t' + s'.own t' = s.ors t' + s.own t' + d

theorem moved_launch (s : RSt) (t att t' : Nat) : Moved s (launch s t att) t' 0 (if t = t' then 1 else 0) 0 0 := by
  by_cases ht : t = t'
  · subst ht; simp [Moved, launch, upd]
  · have ht' : ¬ t' = t := fun h => ht h.symm
    simp [Moved, launch, upd, ht, ht']

theorem moved_innerCall (c : LCfg) (hc : c ≠ .blackbox) (s s' : RSt) (t t' : Nat) (hs : innerCallR c s t = some s') :
    Moved s s' t' 0 (if t = t' then 1 else 0) 0 0 := by
  unfold innerCallR at hs
  simp only [hc, if_false] at hs
  split at hs
  · cases hs; exact moved_launch _ _ _ _
  · split at hs
    · split at hs
      · cases hs; exact moved_launch _ _ _ _
      · cases hs
    · split at hs
      · cases hs; exact moved_launch _ _ _ _
      · cases hs

theorem moved_innerRet (c : LCfg) (hc : c ≠ .blackbox) (s s' : RSt) (k t t' : Nat) (r : RVal)
    (hs : innerRetR c s k t r = some s') : Moved s s' t' 0 0 (if t = t' then 1 else 0) 0 := by
  unfold innerRetR at hs
  split at hs
  · split at hs
    · cases hs
      by_cases ht : t = t'
      · subst ht; simp [Moved, upd]
      · have ht' : ¬ t' = t := fun h => ht h.symm
        simp [Moved, upd, ht, ht']
    · cases hs
  · simp [hc] at hs

theorem moved_outerRet (c : LCfg) (hc : c ≠ .blackbox) (s s' : RSt) (t t' : Nat) (ro : RVal)
    (hs : outerRetR c s t ro = some s') : Moved s s' t' 0 0 0 (if t = t' then 1 else 0) := by
  unfold outerRetR at hs
  simp only [hc, if_false] at hs
  split at hs
  · split at hs
    · split at hs
      · cases hs
        by_cases ht : t = t'
        · subst ht; simp [Moved, upd]; omega
        · have ht' : ¬ t' = t := fun h => ht h.symm
          simp [Moved, upd, ht, ht']
      · cases hs
    · split at hs
      · cases hs
        by_cases ht : t = t'
        · subst ht; simp [Moved, upd]; omega
        · have ht' : ¬ t' = t := fun h => ht h.symm
          simp [Moved, upd, ht, ht']
      · cases hs
  · cases hs

theorem moved_step (c : LCfg) (hc : c ≠ .blackbox) (s s' : RSt) (x : XIn) (t' : Nat) (hs : s.step c x = some s') :
    Moved s s' t' (cntOC t' [x]) (cntIC t' [x]) (cntIR t' [x]) (cntOR t' [x]) := by
  cases x with
  | outer e =>
    cases e with
    | ev e =>
      cases e with
      | call i t =>
        simp only [RSt.step, Option.some.injEq] at hs
        subst hs
        by_cases ht : t = t'
        · subst ht; simp [Moved, upd, cntOC, cntIC, cntIR, cntOR]
        · have ht' : ¬ t' = t := fun h => ht h.symm
          simp [Moved, upd, cntOC, cntIC, cntIR, cntOR, ht, ht']
      | clone a b => simp only [RSt.step, Option.some.injEq] at hs; subst hs; simp [Moved, cntOC, cntIC, cntIR, cntOR]
      | poll a r => simp only [RSt.step, Option.some.injEq] at hs; subst hs; simp [Moved, cntOC, cntIC, cntIR, cntOR]
    | ret k t ro =>
      have := moved_outerRet c hc s s' t t' ro (by simpa [RSt.step] using hs)
      simpa [cntOC, cntIC, cntIR, cntOR] using this
  | inner e =>
    cases e with
    | ev e =>
      cases e with
      | call i t =>
        have := moved_innerCall c hc s s' t t' (by simpa [RSt.step] using hs)
        simpa [cntOC, cntIC, cntIR, cntOR] using this
      | clone a b => simp only [RSt.step, Option.some.injEq] at hs; subst hs; simp [Moved, cntOC, cntIC, cntIR, cntOR]
      | poll a r =>
        cases r <;> simp only [RSt.step, Option.some.injEq] at hs <;> subst hs <;> simp [Moved, cntOC, cntIC, cntIR, cntOR]
    | ret k t r =>
      have := moved_innerRet c hc s s' k t t' r (by simpa [RSt.step] using hs)
      simpa [cntOC, cntIC, cntIR, cntOR] using this

theorem cnt_cons (t : Nat) (x : XIn) (tl : List XIn) :
    cntOC t (x :: tl) = cntOC t [x] + cntOC t tl ∧ cntIC t (x :: tl) = cntIC t [x] + cntIC t tl ∧
    cntIR t (x :: tl) = cntIR t [x] + cntIR t tl ∧ cntOR t (x :: tl) = cntOR t [x] + cntOR t tl := by
  cases x with
  | outer e =>
    cases e with
    | ev e => cases e <;> simp [cntOC, cntIC, cntIR, cntOR]
    | ret k t' r => simp [cntOC, cntIC, cntIR, cntOR]
  | inner e =>
    cases e with
    | ev e => cases e <;> simp [cntOC, cntIC, cntIR, cntOR]
    | ret k t' r => simp [cntOC, cntIC, cntIR, cntOR]

theorem moved_run (c : LCfg) (hc : c ≠ .blackbox) (t' : Nat) (l : List XIn) : ∀ (s s' : RSt), RSt.run c s l = some s' →
    Moved s s' t' (cntOC t' l) (cntIC t' l) (cntIR t' l) (cntOR t' l) := by
  induction l with
  | nil => intro s s' h; simp only [RSt.run, Option.some.injEq] at h; subst h; simp [Moved, cntOC, cntIC, cntIR, cntOR]
  | cons x tl ih =>
    intro s s' h
    simp only [RSt.run] at h
    cases hx : s.step c x with
    | none => simp [hx] at h
    | some s1 =>
      simp only [hx] at h
      obtain ⟨a1, a2, a3, a4⟩ := moved_step c hc s s1 x t' hx
      obtain ⟨b1, b2, b3, b4⟩ := ih s1 s' h
      obtain ⟨c1, c2, c3, c4⟩ := cnt_cons t' x tl
      refine ⟨?_, ?_, ?_, ?_⟩ <;> omega

/-! ### at most once -/

/-- in a configuration that allows one attempt per call, the inner calls and the calls still to be forwarded never
outnumber the outer calls, and no hedge has room -/
def SInv (s : RSt) : Prop := ∀ t, s.ic t + s.wait t ≤ s.oc t ∧ s.spare t = 0

theorem hedgeN_single (c : LCfg) (h : single c = true) : hedgeN c - 1 = 0 := by
  cases c <;> simp [hedgeN, single] at h ⊢
  omega

theorem room_single (c : LCfg) (h : single c = true) (s : RSt) (t : Nat) (hr : room c s t = true) : s.ic t < s.oc t := by
  cases c with
  | retry max p =>
    have hm : max ≤ 1 := by simpa [single] using h
    have : Nat.max max 1 = 1 := by simp [Nat.max_def]; omega
    simp only [room, this, Nat.one_mul, decide_eq_true_eq] at hr
    exact hr
  | reconnect max policy retry =>
    simp only [single, Bool.or_eq_true, Bool.not_eq_true', beq_iff_eq] at h
    simp only [room, Bool.and_eq_true] at hr
    obtain ⟨⟨hp, hrt⟩, hm⟩ := hr
    rcases h with (h | h) | h
    · rw [h] at hp; cases hp
    · rw [h] at hrt; cases hrt
    · subst h; simpa using hm
  | wrap n => simp [room] at hr
  | bare => simp [room] at hr
  | guard n a b => simp [room] at hr
  | limiter n a => simp [room] at hr
  | fallback a b => simp [room] at hr
  | hedge a b => simp [room] at hr
  | blackbox => simp [room] at hr

theorem sinv_launch (s : RSt) (t att : Nat) (h : ∀ t', (launch s t att).ic t' + s.wait t' ≤ s.oc t' ∧ s.spare t' = 0) :
    SInv (launch s t att) := by
  intro t'; exact h t'

theorem sinv_step (c : LCfg) (hsg : single c = true) (s s' : RSt) (x : XIn) (hi : SInv s) (hs : s.step c x = some s') :
    SInv s' := by
  have hc : c ≠ .blackbox := by intro h; subst h; simp [single] at hsg
  cases x with
  | outer e =>
    cases e with
    | ev e =>
      cases e with
      | call i t =>
        simp only [RSt.step, Option.some.injEq] at hs
        subst hs
        intro t'
        have := hi t'
        by_cases ht : t' = t
        · subst ht; simp [upd]; omega
        · simp [upd, ht]; omega
      | clone a b => simp only [RSt.step, Option.some.injEq] at hs; subst hs; exact hi
      | poll a r => simp only [RSt.step, Option.some.injEq] at hs; subst hs; exact hi
    | ret k t ro =>
      have hs' : outerRetR c s t ro = some s' := by simpa [RSt.step] using hs
      unfold outerRetR at hs'
      simp only [hc, if_false] at hs'
      split at hs'
      · split at hs'
        · split at hs'
          · cases hs'; exact hi
          · cases hs'
        · split at hs'
          · cases hs'
            intro t'
            have := hi t'
            by_cases ht : t' = t
            · subst ht; simp [upd]; omega
            · simp [upd, ht]; omega
          · cases hs'
      · cases hs'
  | inner e =>
    cases e with
    | ev e =>
      cases e with
      | call i t =>
        have hs' : innerCallR c s t = some s' := by simpa [RSt.step] using hs
        unfold innerCallR at hs'
        simp only [hc, if_false] at hs'
        split at hs'
        · rename_i hw
          cases hs'
          intro t'
          have := hi t'
          by_cases ht : t' = t
          · subst ht; simp [launch, upd, hedgeN_single c hsg]; omega
          · simp [launch, upd, ht]; omega
        · rename_i hw
          split at hs'
          · split at hs'
            · rename_i hg
              cases hs'
              have hlt := room_single c hsg s t hg.2
              intro t'
              have := hi t'
              by_cases ht : t' = t
              · subst ht; simp [launch, upd]; omega
              · simp [launch, upd, ht]; omega
            · cases hs'
          · split at hs'
            · rename_i hsp
              have := (hi t).2
              omega
            · cases hs'
      | clone a b => simp only [RSt.step, Option.some.injEq] at hs; subst hs; exact hi
      | poll a r => cases r <;> simp only [RSt.step, Option.some.injEq] at hs <;> subst hs <;> exact hi
    | ret k t r =>
      have hs' : innerRetR c s k t r = some s' := by simpa [RSt.step] using hs
      unfold innerRetR at hs'
      split at hs'
      · split at hs'
        · cases hs'; exact hi
        · cases hs'
      · simp [hc] at hs'

theorem sinv_run (c : LCfg) (hsg : single c = true) (l : List XIn) : ∀ (s s' : RSt), SInv s → RSt.run c s l = some s' → SInv s' := by
  induction l with
  | nil => intro s s' hi h; simp only [RSt.run, Option.some.injEq] at h; subst h; exact hi
  | cons x tl ih =>
    intro s s' hi h
    simp only [RSt.run] at h
    cases hx : s.step c x with
    | none => simp [hx] at h
    | some s1 => simp only [hx] at h; exact ih s1 s' (sinv_step c hsg s s1 x hi hx) h

end TR.Stack

namespace TR.Stack

/-! ### every answer handed up is made of an inner answer, or is the layer's own -/

theorem seen_innerCall (c : LCfg) (s s' : RSt) (t : Nat) (hs : innerCallR c s t = some s') : s'.seen = s.seen := by
  unfold innerCallR at hs
  split at hs
  · cases hs; rfl
  · split at hs
    · cases hs; rfl
    · split at hs
      · split at hs
        · cases hs; rfl
        · cases hs
      · split at hs
        · cases hs; rfl
        · cases hs

theorem seen_outerRet (c : LCfg) (s s' : RSt) (t : Nat) (ro : RVal) (hs : outerRetR c s t ro = some s') : s'.seen = s.seen := by
  unfold outerRetR at hs
  split at hs
  · cases hs; rfl
  · split at hs
    · split at hs
      · split at hs
        · cases hs; rfl
        · cases hs
      · split at hs
        · cases hs; rfl
        · cases hs
    · cases hs

theorem seen_step (c : LCfg) (s s' : RSt) (x : XIn) (hs : s.step c x = some s') :
    ∀ p ∈ s'.seen, p ∈ s.seen ∨ ∃ k, x = .inner (.ret k p.1 p.2) := by
  intro p hp
  cases x with
  | outer e =>
    cases e with
    | ev e =>
      cases e <;> simp only [RSt.step, Option.some.injEq] at hs <;> subst hs <;> exact Or.inl hp
    | ret k t ro =>
      have := seen_outerRet c s s' t ro (by simpa [RSt.step] using hs)
      rw [this] at hp; exact Or.inl hp
  | inner e =>
    cases e with
    | ev e =>
      cases e with
      | call i t =>
        have := seen_innerCall c s s' t (by simpa [RSt.step] using hs)
        rw [this] at hp; exact Or.inl hp
      | clone a b => simp only [RSt.step, Option.some.injEq] at hs; subst hs; exact Or.inl hp
      | poll a r => cases r <;> simp only [RSt.step, Option.some.injEq] at hs <;> subst hs <;> exact Or.inl hp
    | ret k t r =>
      have hs' : innerRetR c s k t r = some s' := by simpa [RSt.step] using hs
      unfold innerRetR at hs'
      split at hs'
      · split at hs'
        · cases hs'
          simp only [List.mem_cons] at hp
          rcases hp with rfl | hp
          · exact Or.inr ⟨k, rfl⟩
          · exact Or.inl hp
        · cases hs'
      · split at hs'
        · cases hs'; exact Or.inl hp
        · cases hs'

theorem outerRet_made_of (c : LCfg) (hc : c ≠ .blackbox) (s s' : RSt) (t : Nat) (ro : RVal)
    (hs : outerRetR c s t ro = some s') :
    (∃ g ∈ s.got, g.tag = t ∧ answerOK c (s.multi t) t g ro = true) ∨ ownOK c s t ro = true := by
  unfold outerRetR at hs
  simp only [hc, if_false] at hs
  split at hs
  · split at hs
    · rename_i g got' htf
      obtain ⟨hm, hp, _⟩ := takeFirst_some _ _ _ _ htf
      simp only [Bool.and_eq_true, beq_iff_eq] at hp
      exact Or.inl ⟨g, hm, hp.1, hp.2⟩
    · split at hs
      · rename_i ho; exact Or.inr ho
      · cases hs
  · cases hs

/-- **Every answer a layer hands up is made of an answer of its inner service** to the same request, by the rule of the
layer's configuration — or is the layer's own (a refusal, a stored answer, a readiness error met by an attempt). -/
theorem answers_made_of (c : LCfg) (hc : c ≠ .blackbox) (l : List XIn) : ∀ (s s' : RSt), RInv s → RSt.run c s l = some s' →
    ∀ k t ro, XIn.outer (.ret k t ro) ∈ l →
      (∃ ri a m, ((t, ri) ∈ s.seen ∨ ∃ k', XIn.inner (.ret k' t ri) ∈ l) ∧ answerOK c m t ⟨t, a, ri⟩ ro = true) ∨
      ∃ s0, ownOK c s0 t ro = true := by
  induction l with
  | nil => intro s s' _ _ k t ro h; simp at h
  | cons x tl ih =>
    intro s s' hi h k t ro hmem
    simp only [RSt.run] at h
    cases hx : s.step c x with
    | none => simp [hx] at h
    | some s1 =>
      simp only [hx] at h
      simp only [List.mem_cons] at hmem
      rcases hmem with rfl | hmem
      · -- the answer is handed up in this very step
        have hx' : outerRetR c s t ro = some s1 := by simpa [RSt.step] using hx
        rcases outerRet_made_of c hc s s1 t ro hx' with ⟨g, hg, hgt, hok⟩ | ho
        · left
          have := hi.gotSeen g hg
          obtain ⟨gt, ga, gr⟩ := g
          simp only at hgt this hok
          subst hgt
          exact ⟨gr, ga, s.multi gt, Or.inl this, hok⟩
        · exact Or.inr ⟨s, ho⟩
      · rcases ih s1 s' (rinv_step c s s1 x hi hx) h k t ro hmem with ⟨ri, a, m, hsrc, hok⟩ | ho
        · left
          refine ⟨ri, a, m, ?_, hok⟩
          rcases hsrc with hs1 | ⟨k', hk'⟩
          · rcases seen_step c s s1 x hx (t, ri) hs1 with h0 | ⟨k', rfl⟩
            · exact Or.inl h0
            · exact Or.inr ⟨k', by simp⟩
          · exact Or.inr ⟨k', by simp [hk']⟩
        · exact Or.inr ho

/-! ### the views of a global log -/

theorem outer_mem_xview (j : Nat) (e : XEv) (g : List XG) : XIn.outer e ∈ xview j g ↔ e ∈ xproj j g := by
  induction g with
  | nil => simp [xview, xproj]
  | cons a tl ih =>
    obtain ⟨b, e'⟩ := a
    by_cases h1 : b = j
    · simp [xview, xproj, h1, ih]
    · by_cases h2 : b = j + 1
      · simp [xview, xproj, h1, h2, ih]
      · simp [xview, xproj, h1, h2, ih]

theorem inner_mem_xview (j : Nat) (e : XEv) (g : List XG) : XIn.inner e ∈ xview j g ↔ e ∈ xproj (j + 1) g := by
  induction g with
  | nil => simp [xview, xproj]
  | cons a tl ih =>
    obtain ⟨b, e'⟩ := a
    by_cases h1 : b = j
    · have : ¬ b = j + 1 := by omega
      simp [xview, xproj, h1, ih]
    · by_cases h2 : b = j + 1
      · simp [xview, xproj, h2, ih]
      · simp [xview, xproj, h1, h2, ih]

theorem cntOC_xview (t j : Nat) (g : List XG) : cntOC t (xview j g) = calls t (xproj j g) := by
  induction g with
  | nil => rfl
  | cons a tl ih =>
    obtain ⟨b, e⟩ := a
    by_cases h1 : b = j
    · subst h1
      cases e with
      | ev e => cases e <;> simp [xview, xproj, cntOC, calls, ih]
      | ret k t' r => simp [xview, xproj, cntOC, calls, ih]
    · by_cases h2 : b = j + 1
      · cases e with
        | ev e => cases e <;> simp [xview, xproj, cntOC, calls, ih, h1, h2]
        | ret k t' r => simp [xview, xproj, cntOC, calls, ih, h1, h2]
      · simp [xview, xproj, h1, h2, ih]

theorem cntIC_xview (t j : Nat) (g : List XG) : cntIC t (xview j g) = calls t (xproj (j + 1) g) := by
  induction g with
  | nil => rfl
  | cons a tl ih =>
    obtain ⟨b, e⟩ := a
    by_cases h1 : b = j
    · have h3 : ¬ b = j + 1 := by omega
      cases e with
      | ev e => cases e <;> simp [xview, xproj, cntIC, calls, ih, h1]
      | ret k t' r => simp [xview, xproj, cntIC, calls, ih, h1]
    · by_cases h2 : b = j + 1
      · subst h2
        cases e with
        | ev e => cases e <;> simp [xview, xproj, cntIC, calls, ih]
        | ret k t' r => simp [xview, xproj, cntIC, calls, ih]
      · simp [xview, xproj, h1, h2, ih]

/-- one layer that allows one attempt per call: at most as many inner calls for a request as outer calls -/
theorem layer_forwards_at_most_once (c : LCfg) (hsg : single c = true) (l : List XIn) (s' : RSt)
    (h : RSt.run c {} l = some s') (t : Nat) : cntIC t l ≤ cntOC t l := by
  have hc : c ≠ .blackbox := by intro h; subst h; simp [single] at hsg
  have h1 := sinv_run c hsg l {} s' (by intro t; simp) h t
  obtain ⟨a1, a2, _, _⟩ := moved_run c hc t l {} s' h
  simp only at a1 a2
  omega

/-- **Whole stacks forward at most once**: below any stack of layers none of which may re-issue a request, the wrapped
service is called for a request at most as often as the stack was. -/
theorem stack_forwards_at_most_once (g : List XG) (t : Nat) : ∀ (cfgs : List LCfg) (j : Nat), AcceptedFrom g cfgs j →
    (∀ c ∈ cfgs, single c = true) → calls t (xproj (j + cfgs.length) g) ≤ calls t (xproj j g) := by
  intro cfgs
  induction cfgs with
  | nil => intro j _ _; simp
  | cons c cs ih =>
    intro j hacc hs
    obtain ⟨h1, h2⟩ := hacc
    have := ih (j + 1) h2 (fun c' hc' => hs c' (by simp [hc']))
    obtain ⟨s', hs'⟩ := Option.isSome_iff_exists.mp h1
    have h3 := layer_forwards_at_most_once c (hs c (by simp)) _ s' hs' t
    rw [cntIC_xview, cntOC_xview] at h3
    have e : j + (c :: cs).length = j + 1 + cs.length := by simp; omega
    rw [e]
    omega

theorem answerOK_pass (c : LCfg) (f : RVal → RVal) (hp : passR c = some f) (m : Bool) (t : Nat) (g : Got) (ro : RVal)
    (h : answerOK c m t g ro = true) : ro = f g.r := by
  cases c <;> simp [passR] at hp <;> subst hp <;> simpa [answerOK] using h

/-- **Every answer at the top of a stack of pass-through layers is explained**: it is the wrapped service's answer to
that request inside exactly the pass-through variants of the layers it came through, unless one of the layers gave it
itself. -/
theorem stack_answers_explained (g : List XG) (t : Nat) : ∀ (cfgs : List LCfg) (j : Nat), AcceptedFrom g cfgs j →
    (∀ c ∈ cfgs, (passR c).isSome) → ∀ k r, XEv.ret k t r ∈ xproj j g → Explained g t cfgs j r := by
  intro cfgs
  induction cfgs with
  | nil => intro j _ _ k r h; exact ⟨k, h⟩
  | cons c cs ih =>
    intro j hacc hp k r hmem
    obtain ⟨h1, h2⟩ := hacc
    obtain ⟨s', hs'⟩ := Option.isSome_iff_exists.mp h1
    obtain ⟨f, hf⟩ := Option.isSome_iff_exists.mp (hp c (by simp))
    have hc : c ≠ .blackbox := by intro h; subst h; simp [passR] at hf
    have hm : XIn.outer (.ret k t r) ∈ xview j g := (outer_mem_xview j _ g).mpr hmem
    rcases answers_made_of c hc _ {} s' rinv_init hs' k t r hm with ⟨ri, a, m, hsrc, hok⟩ | ho
    · right
      rcases hsrc with h0 | ⟨k', hk'⟩
      · simp at h0
      · have hin : XEv.ret k' t ri ∈ xproj (j + 1) g := (inner_mem_xview j _ g).mp hk'
        have := answerOK_pass c f hf m t ⟨t, a, ri⟩ r hok
        exact ⟨f, ri, hf, this, ih (j + 1) h2 (fun c' hc' => hp c' (by simp [hc'])) k' ri hin⟩
    · exact Or.inl ho

end TR.Stack

/-! ## readiness errors surface -/

namespace TR.Stack

theorem ystep_lstep (y y' : YSt) (x : LIn) (h : y.step x = some y') : y.l.step x = some y'.l := by
  unfold YSt.step at h
  split at h
  · split at h
    · split at h
      · cases hl : y.l.step _ with
        | none => simp [hl] at h
        | some l' => simp [hl] at h; subst h; rfl
      · cases h
    · cases h
  · split at h
    · cases h
    · cases hl : y.l.step _ with
      | none => simp [hl] at h
      | some l' => simp [hl] at h; subst h; rfl
    · cases hl : y.l.step x with
      | none => simp [hl] at h
      | some l' => simp [hl] at h; subst h; rfl

theorem yrun_lrun (l : List LIn) : ∀ (y y' : YSt), YSt.run y l = some y' → LSt.run y.l l = some y'.l := by
  induction l with
  | nil => intro y y' h; simp only [YSt.run, Option.some.injEq] at h; subst h; rfl
  | cons x tl ih =>
    intro y y' h
    simp only [YSt.run] at h
    cases hx : y.step x with
    | none => simp [hx] at h
    | some y1 =>
      simp only [hx] at h
      simp only [LSt.run, ystep_lstep y y1 x hx]
      exact ih y1 y' h

/-- while a readiness error of a held inner instance has not been handed up, handing it up is all the layer can do -/
theorem pending_error_must_surface (y y' : YSt) (i : Nat) (x : LIn) (hp : y.pend = some i) (h : y.step x = some y') :
    ∃ o, x = .outer (.poll o .err) ∧ y.l.cur o = some i ∧ y'.pend = none := by
  unfold YSt.step at h
  rw [hp] at h
  simp only at h
  split at h
  · rename_i o
    split at h
    · rename_i hc
      cases hl : y.l.step (.outer (.poll o .err)) with
      | none => simp [hl] at h
      | some l' => simp [hl] at h; subst h; exact ⟨o, rfl, hc, rfl⟩
    · cases h
  · cases h

/-- a layer answers `poll_ready` with an error only when the inner instance it holds for that caller has just failed -/
theorem error_answer_needs_inner_error (y y' : YSt) (o : Nat) (h : y.step (.outer (.poll o .err)) = some y') :
    ∃ i, y.pend = some i ∧ y.l.cur o = some i := by
  unfold YSt.step at h
  cases hp : y.pend with
  | none => rw [hp] at h; simp at h
  | some i =>
    rw [hp] at h
    simp only at h
    split at h
    · rename_i hc; exact ⟨i, rfl, hc⟩
    · cases h

/-- a failing `poll_ready` of a held inner instance sets the register -/
theorem held_error_is_pending (y y' : YSt) (i : Nat) (hn : y.pend = none) (hh : heldBy y.l i = true)
    (h : y.step (.inner (.poll i .err)) = some y') : y'.pend = some i := by
  unfold YSt.step at h
  rw [hn] at h
  simp only at h
  cases hl : y.l.step (.inner (.poll i .err)) with
  | none => simp [hl] at h
  | some l' => simp [hl, hh] at h; subst h; rfl

end TR.Stack
