import TR.Model.Stack
/-!
# The readiness contract travels down any stack (C20)
-/
namespace TR.Stack

theorem upd_same {α : Type} (f : Nat → α) (i : Nat) (v : α) : upd f i v i = v := by simp [upd]
theorem upd_other {α : Type} (f : Nat → α) (i j : Nat) (v : α) (h : j ≠ i) : upd f i v j = f j := by simp [upd, h]

/-! ## characterisation of the monitor's steps -/

theorem mon_clone (m m' : Mon) (s n : Nat) :
    m.step (.clone s n) = some m' ↔ (s < m.n ∧ n = m.n) ∧ m' = { n := m.n + 1, ready := upd m.ready m.n false } := by
  simp only [Mon.step]
  by_cases h : s < m.n ∧ n = m.n
  · simp only [h, and_self, if_true, true_and, Option.some.injEq]; exact eq_comm
  · simp only [h, if_false, false_and]; simp

theorem mon_poll (m m' : Mon) (i : Nat) (r : PollRes) :
    m.step (.poll i r) = some m' ↔ i < m.n ∧ m' = { m with ready := upd m.ready i (decide (r = .ready) || m.ready i) } := by
  simp only [Mon.step]
  by_cases h : i < m.n
  · simp only [h, if_true, true_and, Option.some.injEq]; exact eq_comm
  · simp [h]

theorem mon_call (m m' : Mon) (i t : Nat) :
    m.step (.call i t) = some m' ↔ (i < m.n ∧ m.ready i = true) ∧ m' = { m with ready := upd m.ready i false } := by
  simp only [Mon.step]
  by_cases h : i < m.n ∧ m.ready i = true
  · simp only [h, and_self, if_true, true_and, Option.some.injEq]; exact eq_comm
  · simp only [h, if_false, false_and]; simp

/-! ## the link between the two boundaries of one layer -/

structure Link (s : LSt) (mo mi : Mon) : Prop where
  nI     : s.nI = mi.n
  nO     : s.nO = mo.n
  curLtO : ∀ o i, s.cur o = some i → o < mo.n
  curLt  : ∀ o i, s.cur o = some i → i < mi.n
  ownLt  : ∀ i w, s.owned i = some w → i < mi.n
  inj    : ∀ o o' i, s.cur o = some i → s.cur o' = some i → o = o'
  disj   : ∀ o i, s.cur o = some i → s.owned i = none
  rdy    : ∀ o i, s.cur o = some i → mo.ready o = true → mi.ready i = true
  armed  : ∀ i w, s.owned i = some w → w.armed = true → mi.ready i = true
  opened : ∀ o t, s.opened = some (o, t) → mo.ready o = false ∧ ∃ i, s.cur o = some i ∧ mi.ready i = true
  last   : ∀ i, s.lastReady = some i → mi.ready i = true
  pend   : ∀ nw sr, s.pendClone = some (nw, sr) → s.cur nw = none ∧ mo.ready nw = false ∧ nw < mo.n

theorem link_init : Link {} {} {} := by
  refine ⟨rfl, rfl, ?_, ?_, ?_, ?_, ?_, ?_, ?_, ?_, ?_, ?_⟩
  · intro o i h; simp only at h; split at h <;> simp_all
  · intro o i h; simp only at h; split at h <;> simp_all
  · intro i w h; simp at h
  · intro o o' i h h'; simp only at h h'; split at h <;> split at h' <;> simp_all
  · intro o i _; rfl
  · intro o i _ h; simp at h
  · intro i w h; simp at h
  · intro o t h; simp at h
  · intro i h; simp at h
  · intro nw sr h; simp at h

/-! ## outer events: the layer is driven -/

theorem outer_step (s s' : LSt) (mo mo' mi : Mon) (e : Ev) (hl : Link s mo mi)
    (hs : s.step (.outer e) = some s') (hm : mo.step e = some mo') : Link s' mo' mi := by
  cases e with
  | clone src new =>
    simp only [LSt.step, outerClone] at hs
    split at hs
    · rename_i hg
      obtain ⟨hp, hsrc, hnew, hn⟩ := hg
      cases hs
      obtain ⟨⟨hlt, hnn⟩, rfl⟩ := (mon_clone _ _ _ _).mp hm
      have hnO := hl.nO
      refine ⟨hl.nI, by simp [hnO], ?_, hl.curLt, hl.ownLt, hl.inj, hl.disj, ?_, hl.armed, ?_, ?_, ?_⟩
      · intro o i h; have := hl.curLtO o i h; simp; omega
      · intro o i h hr
        have hlt' := hl.curLtO o i h
        simp only at hr
        rw [upd_other _ _ _ _ (by omega)] at hr
        exact hl.rdy o i h hr
      · intro o t h; simp at h
      · intro i h; simp at h
      · intro nw sr h
        simp only [Option.some.injEq, Prod.mk.injEq] at h
        obtain ⟨rfl, rfl⟩ := h
        refine ⟨hnew, ?_, by simp; omega⟩
        simp only; rw [hnn, upd_same]
    · cases hs
  | poll o r =>
    simp only [LSt.step, outerPoll] at hs
    split at hs
    · rename_i hg
      have hp := hg
      split at hs
      · rename_i i hci
        split at hs
        · rename_i hrdy
          cases hs
          obtain ⟨hlt, rfl⟩ := (mon_poll _ _ _ _).mp hm
          refine ⟨hl.nI, hl.nO, hl.curLtO, hl.curLt, hl.ownLt, hl.inj, hl.disj, ?_, hl.armed, ?_, ?_, ?_⟩
          · intro o' i' h hr
            simp only at hr
            by_cases hoo : o' = o
            · subst hoo
              rw [upd_same] at hr
              rw [hci] at h; cases h
              by_cases hrr : r = .ready
              · exact hl.last i (hrdy hrr)
              · simp [hrr] at hr; exact hl.rdy o' i hci hr
            · rw [upd_other _ _ _ _ hoo] at hr; exact hl.rdy o' i' h hr
          · intro o' t h; simp at h
          · intro i' h; simp at h
          · intro nw sr h; simp only at h; rw [hp] at h; cases h
        · cases hs
      · cases hs
    · cases hs
  | call o tag =>
    simp only [LSt.step, outerCall] at hs
    split at hs
    · rename_i hg
      obtain ⟨hp, hsome⟩ := hg
      cases hs
      obtain ⟨⟨hlt, hr⟩, rfl⟩ := (mon_call _ _ _ _).mp hm
      obtain ⟨i, hci⟩ := Option.isSome_iff_exists.mp hsome
      refine ⟨hl.nI, hl.nO, hl.curLtO, hl.curLt, hl.ownLt, hl.inj, hl.disj, ?_, hl.armed, ?_, ?_, ?_⟩
      · intro o' i' h hr'
        simp only at hr'
        by_cases hoo : o' = o
        · subst hoo; rw [upd_same] at hr'; cases hr'
        · rw [upd_other _ _ _ _ hoo] at hr'; exact hl.rdy o' i' h hr'
      · intro o' t h
        simp only [Option.some.injEq, Prod.mk.injEq] at h
        obtain ⟨rfl, rfl⟩ := h
        exact ⟨by simp only; rw [upd_same], i, hci, hl.rdy _ i hci hr⟩
      · intro i' h; simp at h
      · intro nw sr h; simp only at h; rw [hp] at h; cases h
    · cases hs

/-! ## inner events: what the layer does to its inner service -/

theorem heldBy_sound (s : LSt) (i : Nat) (h : heldBy s i = true) : ∃ o, s.cur o = some i := by
  simp only [heldBy, List.any_eq_true] at h
  obtain ⟨o, _, ho⟩ := h
  exact ⟨o, by simpa using ho⟩

theorem inner_clone (s s' : LSt) (mo mi : Mon) (src new : Nat) (hl : Link s mo mi)
    (hs : s.step (.inner (.clone src new)) = some s') :
    ∃ mi', mi.step (.clone src new) = some mi' ∧ Link s' mo mi' := by
  simp only [LSt.step, innerClone] at hs
  split at hs
  · rename_i hnew
    cases hc : innerCloneCore s src new with
    | none => simp [hc] at hs
    | some s0 =>
      simp only [hc, Option.map_some, Option.some.injEq] at hs
      subst hs
      have hnI := hl.nI
      have hnewn : new = mi.n := by rw [hnew, hnI]
      -- where does `src` come from?
      unfold innerCloneCore at hc
      split at hc
      · -- the layer value was cloned
        rename_i onew osrc hp
        split at hc
        · rename_i hsrc
          cases hc
          obtain ⟨hcn, hrn, hltn⟩ := hl.pend onew osrc hp
          have hsl := hl.curLt osrc src hsrc
          refine ⟨_, (mon_clone _ _ _ _).mpr ⟨⟨hsl, hnewn⟩, rfl⟩, ?_⟩
          refine ⟨by simp [hnI], hl.nO, ?_, ?_, ?_, ?_, ?_, ?_, ?_, ?_, ?_, ?_⟩
          · intro o i h; simp only at h
            by_cases ho : o = onew
            · subst ho; exact hltn
            · rw [upd_other _ _ _ _ ho] at h; exact hl.curLtO o i h
          · intro o i h; simp only at h ⊢
            by_cases ho : o = onew
            · subst ho; rw [upd_same] at h; cases h; omega
            · rw [upd_other _ _ _ _ ho] at h; have := hl.curLt o i h; omega
          · intro i w h; have := hl.ownLt i w h; simp only; omega
          · intro o o' i h h'; simp only at h h'
            by_cases ho : o = onew <;> by_cases ho' : o' = onew
            · rw [ho, ho']
            · subst ho; rw [upd_same] at h; rw [upd_other _ _ _ _ ho'] at h'; cases h
              have := hl.curLt o' _ h'; omega
            · subst ho'; rw [upd_same] at h'; rw [upd_other _ _ _ _ ho] at h; cases h'
              have := hl.curLt o _ h; omega
            · rw [upd_other _ _ _ _ ho] at h; rw [upd_other _ _ _ _ ho'] at h'; exact hl.inj o o' i h h'
          · intro o i h; simp only at h ⊢
            by_cases ho : o = onew
            · subst ho; rw [upd_same] at h; cases h
              cases hw : s.owned new with
              | none => rfl
              | some w => have := hl.ownLt new w hw; omega
            · rw [upd_other _ _ _ _ ho] at h; exact hl.disj o i h
          · intro o i h hr; simp only at h ⊢
            by_cases ho : o = onew
            · subst ho; rw [hrn] at hr; cases hr
            · rw [upd_other _ _ _ _ ho] at h
              have := hl.curLt o i h
              rw [upd_other _ _ _ _ (by omega)]; exact hl.rdy o i h hr
          · intro i w h hw; simp only
            have := hl.ownLt i w h
            rw [upd_other _ _ _ _ (by omega)]; exact hl.armed i w h hw
          · intro o t h; simp only at h ⊢
            obtain ⟨h1, i, h2, h3⟩ := hl.opened o t h
            have ho : o ≠ onew := by intro hh; subst hh; rw [hcn] at h2; cases h2
            refine ⟨h1, i, by rw [upd_other _ _ _ _ ho]; exact h2, ?_⟩
            have := hl.curLt o i h2
            rw [upd_other _ _ _ _ (by omega)]; exact h3
          · intro i h; simp at h
          · intro nw sr h; simp at h
        · cases hc
      · rename_i hp
        split at hc
        · -- `mem::replace`: the instance that was polled moves into the request
          rename_i o tag hop
          split at hc
          · rename_i hsrc
            cases hc
            obtain ⟨hmo, i', hci, hri⟩ := hl.opened o tag hop
            rw [hsrc] at hci; cases hci
            have hsl := hl.curLt o src hsrc
            refine ⟨_, (mon_clone _ _ _ _).mpr ⟨⟨hsl, hnewn⟩, rfl⟩, ?_⟩
            refine ⟨by simp [hnI], hl.nO, ?_, ?_, ?_, ?_, ?_, ?_, ?_, ?_, ?_, ?_⟩
            · intro o1 i h; simp only at h
              by_cases ho : o1 = o
              · subst ho; exact hl.curLtO o1 src hsrc
              · rw [upd_other _ _ _ _ ho] at h; exact hl.curLtO o1 i h
            · intro o1 i h; simp only at h ⊢
              by_cases ho : o1 = o
              · subst ho; rw [upd_same] at h; cases h; omega
              · rw [upd_other _ _ _ _ ho] at h; have := hl.curLt o1 i h; omega
            · intro i w h; simp only at h ⊢
              by_cases hi : i = src
              · subst hi; omega
              · rw [upd_other _ _ _ _ hi] at h; have := hl.ownLt i w h; omega
            · intro o1 o2 i h h'; simp only at h h'
              by_cases ho : o1 = o <;> by_cases ho' : o2 = o
              · rw [ho, ho']
              · subst ho; rw [upd_same] at h; rw [upd_other _ _ _ _ ho'] at h'; cases h
                have := hl.curLt o2 _ h'; omega
              · subst ho'; rw [upd_same] at h'; rw [upd_other _ _ _ _ ho] at h; cases h'
                have := hl.curLt o1 _ h; omega
              · rw [upd_other _ _ _ _ ho] at h; rw [upd_other _ _ _ _ ho'] at h'; exact hl.inj o1 o2 i h h'
            · intro o1 i h; simp only at h ⊢
              by_cases ho : o1 = o
              · subst ho; rw [upd_same] at h; cases h
                rw [upd_other _ _ _ _ (by omega)]
                cases hw : s.owned new with
                | none => rfl
                | some w => have := hl.ownLt new w hw; omega
              · rw [upd_other _ _ _ _ ho] at h
                have hne : i ≠ src := by
                  intro hh; subst hh; exact ho (hl.inj o1 o i h hsrc)
                rw [upd_other _ _ _ _ hne]; exact hl.disj o1 i h
            · intro o1 i h hr; simp only at h ⊢
              by_cases ho : o1 = o
              · subst ho; rw [hmo] at hr; cases hr
              · rw [upd_other _ _ _ _ ho] at h
                have := hl.curLt o1 i h
                rw [upd_other _ _ _ _ (by omega)]; exact hl.rdy o1 i h hr
            · intro i w h hw; simp only at h ⊢
              by_cases hi : i = src
              · subst hi; rw [upd_other _ _ _ _ (by omega)]; exact hri
              · rw [upd_other _ _ _ _ hi] at h
                have := hl.ownLt i w h
                rw [upd_other _ _ _ _ (by omega)]; exact hl.armed i w h hw
            · intro o1 t h; simp at h
            · intro i h; simp at h
            · intro nw sr h; simp only at h; rw [hp] at h; cases h
          · cases hc
        · -- a clone of an instance a request owns
          rename_i hop
          split at hc
          · rename_i ow how
            cases hc
            have hsl := hl.ownLt src ow how
            refine ⟨_, (mon_clone _ _ _ _).mpr ⟨⟨hsl, hnewn⟩, rfl⟩, ?_⟩
            refine ⟨by simp [hnI], hl.nO, hl.curLtO, ?_, ?_, hl.inj, ?_, ?_, ?_, ?_, ?_, ?_⟩
            · intro o i h; have := hl.curLt o i h; simp only; omega
            · intro i w h; simp only at h ⊢
              by_cases hi : i = new
              · omega
              · rw [upd_other _ _ _ _ hi] at h; have := hl.ownLt i w h; omega
            · intro o i h; simp only
              have := hl.curLt o i h
              rw [upd_other _ _ _ _ (by omega)]; exact hl.disj o i h
            · intro o i h hr; simp only
              have := hl.curLt o i h
              rw [upd_other _ _ _ _ (by omega)]; exact hl.rdy o i h hr
            · intro i w h hw; simp only at h ⊢
              by_cases hi : i = new
              · subst hi; rw [upd_same] at h; cases h; cases hw
              · rw [upd_other _ _ _ _ hi] at h
                have := hl.ownLt i w h
                rw [upd_other _ _ _ _ (by omega)]; exact hl.armed i w h hw
            · intro o t h; simp only at h; rw [hop] at h; cases h
            · intro i h; simp at h
            · intro nw sr h; simp only at h; rw [hp] at h; cases h
          · -- a spare clone of the held instance, right after a direct call on it
            split at hc
            · rename_i o tag hlc
              split at hc
              · rename_i hcs
                cases hc
                have hsl := hl.curLt o src hcs
                refine ⟨_, (mon_clone _ _ _ _).mpr ⟨⟨hsl, hnewn⟩, rfl⟩, ?_⟩
                refine ⟨by simp [hnI], hl.nO, hl.curLtO, ?_, ?_, hl.inj, ?_, ?_, ?_, ?_, ?_, ?_⟩
                · intro o' i h; have := hl.curLt o' i h; simp only; omega
                · intro i w h; simp only at h ⊢
                  by_cases hi : i = new
                  · omega
                  · rw [upd_other _ _ _ _ hi] at h; have := hl.ownLt i w h; omega
                · intro o' i h; simp only
                  have := hl.curLt o' i h
                  rw [upd_other _ _ _ _ (by omega)]; exact hl.disj o' i h
                · intro o' i h hr; simp only
                  have := hl.curLt o' i h
                  rw [upd_other _ _ _ _ (by omega)]; exact hl.rdy o' i h hr
                · intro i w h hw; simp only at h ⊢
                  by_cases hi : i = new
                  · subst hi; rw [upd_same] at h; cases h; cases hw
                  · rw [upd_other _ _ _ _ hi] at h
                    have := hl.ownLt i w h
                    rw [upd_other _ _ _ _ (by omega)]; exact hl.armed i w h hw
                · intro o' t h; simp only at h; rw [hop] at h; cases h
                · intro i h; simp at h
                · intro nw sr h; simp only at h; rw [hp] at h; cases h
              · cases hc
            · cases hc
  · cases hs

theorem ready_mono (mi : Mon) (i j : Nat) (r : PollRes) (h : mi.ready j = true) :
    upd mi.ready i (decide (r = .ready) || mi.ready i) j = true := by
  by_cases hj : j = i
  · subst hj; rw [upd_same, h]; simp
  · rw [upd_other _ _ _ _ hj]; exact h

theorem inner_poll (s s' : LSt) (mo mi : Mon) (i : Nat) (r : PollRes) (hl : Link s mo mi)
    (hs : s.step (.inner (.poll i r)) = some s') :
    ∃ mi', mi.step (.poll i r) = some mi' ∧ Link s' mo mi' := by
  simp only [LSt.step, innerPoll] at hs
  split at hs
  · -- an instance a request owns is polled (before a retry / a hedged attempt / a reconnect attempt)
    rename_i ow how
    cases hs
    have hlt := hl.ownLt i ow how
    refine ⟨_, (mon_poll _ _ _ _).mpr ⟨hlt, rfl⟩, ?_⟩
    refine ⟨hl.nI, hl.nO, hl.curLtO, hl.curLt, ?_, hl.inj, ?_, ?_, ?_, ?_, ?_, hl.pend⟩
    · intro i' w h; simp only at h ⊢
      split at h
      · by_cases hi : i' = i
        · subst hi; exact hlt
        · rw [upd_other _ _ _ _ hi] at h; exact hl.ownLt i' w h
      · exact hl.ownLt i' w h
    · intro o i' h; simp only
      have hd := hl.disj o i' h
      split
      · have hne : i' ≠ i := by intro hh; subst hh; rw [how] at hd; cases hd
        rw [upd_other _ _ _ _ hne]; exact hd
      · exact hd
    · intro o i' h hr; exact ready_mono mi i i' r (hl.rdy o i' h hr)
    · intro i' w h hw; simp only at h ⊢
      split at h
      · rename_i hrr
        by_cases hi : i' = i
        · subst hi; rw [upd_same]; simp [hrr]
        · rw [upd_other _ _ _ _ hi] at h; exact ready_mono mi i i' r (hl.armed i' w h hw)
      · exact ready_mono mi i i' r (hl.armed i' w h hw)
    · intro o t h
      obtain ⟨h1, i', h2, h3⟩ := hl.opened o t h
      exact ⟨h1, i', h2, ready_mono mi i i' r h3⟩
    · intro i' h; simp at h
  · -- `poll_ready` forwarded to the instance an outer instance holds
    rename_i how
    split at hs
    · rename_i hheld
      cases hs
      obtain ⟨o, hco⟩ := heldBy_sound s i hheld
      have hlt := hl.curLt o i hco
      refine ⟨_, (mon_poll _ _ _ _).mpr ⟨hlt, rfl⟩, ?_⟩
      refine ⟨hl.nI, hl.nO, hl.curLtO, hl.curLt, hl.ownLt, hl.inj, hl.disj, ?_, ?_, ?_, ?_, hl.pend⟩
      · intro o' i' h hr; exact ready_mono mi i i' r (hl.rdy o' i' h hr)
      · intro i' w h hw; exact ready_mono mi i i' r (hl.armed i' w h hw)
      · intro o' t h
        obtain ⟨h1, i', h2, h3⟩ := hl.opened o' t h
        exact ⟨h1, i', h2, ready_mono mi i i' r h3⟩
      · intro i' h; simp only at h ⊢
        split at h
        · rename_i hrr
          cases h; rw [upd_same]; simp [hrr]
        · cases h
    · cases hs

theorem inner_call (s s' : LSt) (mo mi : Mon) (i tag : Nat) (hl : Link s mo mi)
    (hs : s.step (.inner (.call i tag)) = some s') :
    ∃ mi', mi.step (.call i tag) = some mi' ∧ Link s' mo mi' := by
  simp only [LSt.step, innerCall] at hs
  split at hs
  · -- the layer calls `self.inner` itself while serving the outer call
    rename_i o t hop
    split at hs
    · rename_i hg
      obtain ⟨hci, _⟩ := hg
      cases hs
      obtain ⟨hmo, i', hci', hri⟩ := hl.opened o t hop
      rw [hci] at hci'; cases hci'
      have hlt := hl.curLt o i hci
      refine ⟨_, (mon_call _ _ _ _).mpr ⟨⟨hlt, hri⟩, rfl⟩, ?_⟩
      refine ⟨hl.nI, hl.nO, hl.curLtO, hl.curLt, hl.ownLt, hl.inj, hl.disj, ?_, ?_, ?_, ?_, hl.pend⟩
      · intro o' i' h hr; simp only
        have hne : i' ≠ i := by
          intro hh; subst hh
          have := hl.inj o' o i' h hci; subst this; rw [hmo] at hr; cases hr
        rw [upd_other _ _ _ _ hne]; exact hl.rdy o' i' h hr
      · intro i' w h hw; simp only
        have hne : i' ≠ i := by
          intro hh; subst hh; have := hl.disj o i' hci; rw [this] at h; cases h
        rw [upd_other _ _ _ _ hne]; exact hl.armed i' w h hw
      · intro o' t' h; simp at h
      · intro i' h; simp at h
    · cases hs
  · rename_i hop
    split at hs
    · -- an instance moved into the request is called: it was taken over ready, or re-polled ready
      rename_i ow how
      split at hs
      · rename_i hg
        obtain ⟨harm, _⟩ := hg
        cases hs
        have hlt := hl.ownLt i ow how
        have hri := hl.armed i ow how harm
        refine ⟨_, (mon_call _ _ _ _).mpr ⟨⟨hlt, hri⟩, rfl⟩, ?_⟩
        refine ⟨hl.nI, hl.nO, hl.curLtO, hl.curLt, ?_, hl.inj, ?_, ?_, ?_, ?_, ?_, hl.pend⟩
        · intro i' w h; simp only at h
          by_cases hi : i' = i
          · subst hi; exact hlt
          · rw [upd_other _ _ _ _ hi] at h; exact hl.ownLt i' w h
        · intro o i' h; simp only
          have hd := hl.disj o i' h
          have hne : i' ≠ i := by intro hh; subst hh; rw [how] at hd; cases hd
          rw [upd_other _ _ _ _ hne]; exact hd
        · intro o i' h hr; simp only
          have hd := hl.disj o i' h
          have hne : i' ≠ i := by intro hh; subst hh; rw [how] at hd; cases hd
          rw [upd_other _ _ _ _ hne]; exact hl.rdy o i' h hr
        · intro i' w h hw; simp only at h ⊢
          by_cases hi : i' = i
          · subst hi; rw [upd_same] at h; cases h; cases hw
          · rw [upd_other _ _ _ _ hi] at h
            rw [upd_other _ _ _ _ hi]; exact hl.armed i' w h hw
        · intro o t h; simp only at h; rw [hop] at h; cases h
        · intro i' h; simp at h
      · cases hs
    · cases hs

/-- every event a layer performs at its inner boundary is accepted by the inner monitor -/
theorem inner_step (s s' : LSt) (mo mi : Mon) (e : Ev) (hl : Link s mo mi)
    (hs : s.step (.inner e) = some s') : ∃ mi', mi.step e = some mi' ∧ Link s' mo mi' := by
  cases e with
  | clone src new => exact inner_clone s s' mo mi src new hl hs
  | poll i r => exact inner_poll s s' mo mi i r hl hs
  | call i tag => exact inner_call s s' mo mi i tag hl hs

/-- one layer, any accepted sequence of outer and inner events -/
theorem layer_run (l : List LIn) (s s' : LSt) (mo mo' mi : Mon) (hl : Link s mo mi)
    (hs : s.run l = some s') (hmo : mo.run (outers l) = some mo') :
    ∃ mi', mi.run (inners l) = some mi' ∧ Link s' mo' mi' := by
  induction l generalizing s mo mi with
  | nil =>
    simp only [LSt.run, outers, Mon.run, Option.some.injEq] at hs hmo
    subst hs; subst hmo
    exact ⟨mi, rfl, hl⟩
  | cons x xs ih =>
    simp only [LSt.run] at hs
    cases hx : s.step x with
    | none => simp [hx] at hs
    | some s1 =>
      simp only [hx] at hs
      cases x with
      | outer e =>
        simp only [outers, Mon.run] at hmo
        cases hme : mo.step e with
        | none => simp [hme] at hmo
        | some mo1 =>
          simp only [hme] at hmo
          have hl1 := outer_step s s1 mo mo1 mi e hl hx hme
          simpa [inners] using ih s1 mo1 mi hl1 hs hmo
      | inner e =>
        simp only [outers] at hmo
        obtain ⟨mi1, hmi, hl1⟩ := inner_step s s1 mo mi e hl hx
        obtain ⟨mi', hrun, hl'⟩ := ih s1 mo mi1 hl1 hs hmo
        exact ⟨mi', by simp [inners, Mon.run, hmi, hrun], hl'⟩

/-- **One layer honours the contract.** If the layer is driven by a caller that honours the
readiness contract and does only what its idiom allows, every call it makes finds a ready instance. -/
theorem layer_contract (l : List LIn) (hacc : (LSt.run {} l).isSome) (hout : Respects (outers l)) :
    Respects (inners l) := by
  unfold Respects at *
  obtain ⟨s', hs⟩ := Option.isSome_iff_exists.mp hacc
  obtain ⟨mo', hmo⟩ := Option.isSome_iff_exists.mp hout
  obtain ⟨mi', hmi, _⟩ := layer_run l {} s' {} mo' {} link_init hs hmo
  simp [hmi]

/-! ## stacks -/

theorem outers_view (j : Nat) (g : List GEv) : outers (view j g) = proj j g := by
  induction g with
  | nil => rfl
  | cons x xs ih =>
    obtain ⟨b, e⟩ := x
    simp only [view, proj]
    by_cases h1 : b = j
    · simp [h1, outers, ih]
    · by_cases h2 : b = j + 1
      · simp [h1, h2, outers, ih]
      · simp [h1, h2, ih]

theorem inners_view (j : Nat) (g : List GEv) : inners (view j g) = proj (j + 1) g := by
  induction g with
  | nil => rfl
  | cons x xs ih =>
    obtain ⟨b, e⟩ := x
    simp only [view, proj]
    by_cases h1 : b = j
    · have : ¬ b = j + 1 := by omega
      simp [h1, inners, ih]
    · by_cases h2 : b = j + 1
      · simp [h1, h2, inners, ih]
      · simp [h1, h2, ih]

/-- **Every stack honours the contract at every boundary**, by induction over the boundaries. -/
theorem stack_contract (n : Nat) (g : List GEv) (hacc : Accepted n g) (h0 : Respects (proj 0 g)) :
    ∀ j, j ≤ n → Respects (proj j g) := by
  intro j
  induction j with
  | zero => intro _; exact h0
  | succ k ih =>
    intro hk
    have hprev := ih (by omega)
    have := layer_contract (view k g) (hacc k (by omega)) (by rw [outers_view]; exact hprev)
    rw [inners_view] at this
    exact this

end TR.Stack

namespace TR.Stack

/-! ## requests are forwarded unchanged -/

def callTags : List Ev → List Nat
  | [] => []
  | .call _ t :: tl => t :: callTags tl
  | _ :: tl => callTags tl

/-- everything the layer may still call carries the tag of an outer call it has received -/
structure TagInv (s : LSt) (seen : List Nat) : Prop where
  owned : ∀ i w, s.owned i = some w → w.tag ∈ seen
  opened : ∀ o t, s.opened = some (o, t) → t ∈ seen
  last : ∀ o t, s.lastCall = some (o, t) → t ∈ seen

theorem tag_step (s s' : LSt) (x : LIn) (seen : List Nat) (h : TagInv s seen) (hs : s.step x = some s') :
    (∀ e, x = .outer e → TagInv s' (callTags [e] ++ seen)) ∧
    (∀ e, x = .inner e → TagInv s' seen ∧ ∀ t ∈ callTags [e], t ∈ seen) := by
  have nolast : ∀ (sn : List Nat) (o t : Nat), (none : Option (Nat × Nat)) = some (o, t) → t ∈ sn := by
    intro _ _ _ hh; cases hh
  constructor
  · intro e hx; subst hx
    cases e with
    | clone src new =>
      simp only [LSt.step, outerClone] at hs
      split at hs
      · cases hs; exact ⟨h.owned, nolast _, nolast _⟩
      · cases hs
    | poll o r =>
      simp only [LSt.step, outerPoll] at hs
      split at hs
      · split at hs
        · split at hs
          · cases hs; exact ⟨h.owned, nolast _, nolast _⟩
          · cases hs
        · cases hs
      · cases hs
    | call o tag =>
      simp only [LSt.step, outerCall] at hs
      split at hs
      · cases hs
        refine ⟨fun i w hw => by simp [callTags]; exact Or.inr (h.owned i w hw), ?_, nolast _⟩
        intro o' t hh
        simp only [Option.some.injEq, Prod.mk.injEq] at hh
        obtain ⟨_, rfl⟩ := hh
        simp [callTags]
      · cases hs
  · intro e hx; subst hx
    cases e with
    | clone src new =>
      simp only [LSt.step, innerClone] at hs
      split at hs
      · cases hc : innerCloneCore s src new with
        | none => simp [hc] at hs
        | some s0 =>
          simp only [hc, Option.map_some, Option.some.injEq] at hs
          subst hs
          refine ⟨?_, by simp [callTags]⟩
          unfold innerCloneCore at hc
          split at hc
          · split at hc
            · cases hc; exact ⟨h.owned, h.opened, h.last⟩
            · cases hc
          · split at hc
            · rename_i o tag hop
              split at hc
              · cases hc
                refine ⟨?_, by intro o' t hh; simp at hh, h.last⟩
                intro i w hw
                simp only at hw
                by_cases hi : i = src
                · subst hi; rw [upd_same] at hw; cases hw; exact h.opened o tag hop
                · rw [upd_other _ _ _ _ hi] at hw; exact h.owned i w hw
              · cases hc
            · split at hc
              · rename_i ow how
                cases hc
                refine ⟨?_, h.opened, h.last⟩
                intro i w hw
                simp only at hw
                by_cases hi : i = new
                · subst hi; rw [upd_same] at hw; cases hw; exact h.owned src ow how
                · rw [upd_other _ _ _ _ hi] at hw; exact h.owned i w hw
              · split at hc
                · rename_i o tag hlc
                  split at hc
                  · cases hc
                    refine ⟨?_, h.opened, nolast _⟩
                    intro i w hw
                    simp only at hw
                    by_cases hi : i = new
                    · subst hi; rw [upd_same] at hw; cases hw; exact h.last o tag hlc
                    · rw [upd_other _ _ _ _ hi] at hw; exact h.owned i w hw
                  · cases hc
                · cases hc
      · cases hs
    | poll i r =>
      simp only [LSt.step, innerPoll] at hs
      refine ⟨?_, by simp [callTags]⟩
      split at hs
      · rename_i ow how
        cases hs
        refine ⟨?_, h.opened, h.last⟩
        intro i' w hw
        simp only at hw
        split at hw
        · by_cases hi : i' = i
          · subst hi; rw [upd_same] at hw; cases hw; exact h.owned i' ow how
          · rw [upd_other _ _ _ _ hi] at hw; exact h.owned i' w hw
        · exact h.owned i' w hw
      · split at hs
        · cases hs; exact ⟨h.owned, h.opened, h.last⟩
        · cases hs
    | call i tag =>
      simp only [LSt.step, innerCall] at hs
      split at hs
      · rename_i o t hop
        split at hs
        · rename_i hg
          cases hs
          have htag : tag ∈ seen := by rw [← hg.2]; exact h.opened o t hop
          refine ⟨⟨h.owned, by intro o' t' hh; simp at hh, ?_⟩, ?_⟩
          · intro o' t' hh
            simp only [Option.some.injEq, Prod.mk.injEq] at hh
            obtain ⟨_, rfl⟩ := hh
            exact htag
          · intro t' ht'
            simp [callTags] at ht'; subst ht'
            exact htag
        · cases hs
      · split at hs
        · rename_i ow how
          split at hs
          · rename_i hg
            cases hs
            refine ⟨⟨?_, h.opened, h.last⟩, ?_⟩
            · intro i' w hw
              simp only at hw
              by_cases hi : i' = i
              · subst hi; rw [upd_same] at hw; cases hw; exact h.owned i' ow how
              · rw [upd_other _ _ _ _ hi] at hw; exact h.owned i' w hw
            · intro t' ht'
              simp [callTags] at ht'; subst ht'
              rw [← hg.2]; exact h.owned i ow how
          · cases hs
        · cases hs

theorem callTags_append (a b : List Ev) : callTags (a ++ b) = callTags a ++ callTags b := by
  induction a with
  | nil => rfl
  | cons x xs ih => cases x <;> simp [callTags, ih]

/-- every request the layer passes to its inner service is one it received, unchanged:
each inner `call _ tag` is preceded by an outer `call _ tag` -/
theorem forwards_received (l : List LIn) (s s' : LSt) (seen : List Nat) (h : TagInv s seen)
    (hs : s.run l = some s') : ∀ t ∈ callTags (inners l), t ∈ seen ∨ t ∈ callTags (outers l) := by
  induction l generalizing s seen with
  | nil => intro t ht; simp [inners, callTags] at ht
  | cons x xs ih =>
    simp only [LSt.run] at hs
    cases hx : s.step x with
    | none => simp [hx] at hs
    | some s1 =>
      simp only [hx] at hs
      have hst := tag_step s s1 x seen h hx
      cases x with
      | outer e =>
        have h1 := hst.1 e rfl
        intro t ht
        simp only [inners] at ht
        rcases ih s1 _ h1 hs t ht with hh | hh
        · rcases List.mem_append.mp hh with h2 | h2
          · right
            show t ∈ callTags (e :: outers xs)
            have : callTags (e :: outers xs) = callTags [e] ++ callTags (outers xs) := callTags_append [e] _
            rw [this]; exact List.mem_append_left _ h2
          · exact Or.inl h2
        · right
          show t ∈ callTags (e :: outers xs)
          have : callTags (e :: outers xs) = callTags [e] ++ callTags (outers xs) := callTags_append [e] _
          rw [this]; exact List.mem_append_right _ hh
      | inner e =>
        obtain ⟨h1, h2⟩ := hst.2 e rfl
        intro t ht
        simp only [inners] at ht
        have : callTags (e :: inners xs) = callTags [e] ++ callTags (inners xs) := callTags_append [e] _
        rw [this] at ht
        rcases List.mem_append.mp ht with h3 | h3
        · exact Or.inl (h2 t h3)
        · simpa [outers] using ih s1 seen h1 hs t h3

/-! ## readiness answers other than `ready` license nothing -/

/-- a `poll_ready` that did not return `Ready(Ok)` leaves the contract monitor as it was, except that a
failed service is no longer ready -/
theorem Mon.step_poll_not_ready (m m' : Mon) (i : Nat) (r : PollRes) (hr : r ≠ .ready)
    (h : m.step (.poll i r) = some m') : m'.n = m.n ∧ ∀ j, m'.ready j = true → m.ready j = true := by
  simp only [Mon.step] at h
  split at h
  · cases h
    refine ⟨rfl, ?_⟩
    intro j hj
    simp only [upd] at hj
    split at hj
    · rename_i hji; subst hji; simpa [hr] using hj
    · exact hj
  · cases h

/-- However often an instance that is not ready is polled — `Pending` for a stretch of time, or an error —
the call that follows is a contract violation: only `Ready(Ok)` licenses a call. -/
theorem Mon.not_ready_polls_then_call (m : Mon) (i tag : Nat) (rs : List PollRes) (hrs : ∀ r ∈ rs, r ≠ .ready)
    (hi : m.ready i = false) : m.run (rs.map (fun r => Ev.poll i r) ++ [Ev.call i tag]) = none := by
  induction rs generalizing m with
  | nil => simp [Mon.run, Mon.step, hi]
  | cons r tl ih =>
    simp only [List.map_cons, List.cons_append, Mon.run]
    cases hs : m.step (.poll i r) with
    | none => rfl
    | some m' =>
      have h := Mon.step_poll_not_ready m m' i r (hrs r (by simp)) hs
      have hi' : m'.ready i = false := by
        cases hm : m'.ready i with
        | false => rfl
        | true => have := h.2 i hm; simp [hi] at this
      exact ih m' (fun r hr => hrs r (by simp [hr])) hi'

/-- the layer automaton agrees: a readiness answer other than `ready` never arms an instance a request owns -/
theorem innerPoll_not_ready_keeps (s s' : LSt) (i : Nat) (r : PollRes) (b : Bool) (hr : r ≠ .ready)
    (h : innerPoll s i r b = some s') : s'.owned = s.owned := by
  simp only [innerPoll] at h
  split at h
  · cases h; simp [hr]
  · split at h
    · cases h; rfl
    · cases h

end TR.Stack
