import TR.Lemmas.CacheSince
/-!
# Cache (C10): *when* a cached response was stored, over the history

The log carries no instants (`adv` writes no line); the clock is a function of the history. This file says
which operation of the history wrote an entry of the specification map and what the clock showed then, so
that "never older than the TTL" can be read as a statement about the history alone:

* `now_eq_advSum` — the clock after `ops` is the sum of the advances in `ops`;
* `StoredBy cfg ops k v t` — some operation `poll c w` of `ops`, number `n`, completed the inner call of `c`
  successfully: its log lines are `inner_done c v ok … result c ok:v`, `c`'s request has key `k`, and the clock
  before (= during) that operation showed `t`;
* `stored_by_completion` — every entry `(k, (v, t))` of `stored` satisfies `StoredBy`.
-/
namespace TR.Cache

/-- sum of the time advances of a history -/
def advSum : List Op → Nat
  | [] => 0
  | .adv ms :: tl => ms + advSum tl
  | _ :: tl => advSum tl

theorem stepS_now (cfg : Cfg) (s : State) (op : Op) :
    (stepS cfg s op).now = s.now + advSum [op] := by
  cases op with
  | adv ms => simp [stepS, advSum]
  | arrive c key svc sc =>
    simp only [stepS, arrive, advSum, Nat.add_zero]
    split
    · rfl
    · split <;> rfl
  | poll c w =>
    simp only [stepS, poll, advSum, Nat.add_zero]
    split
    · rfl
    · split
      · unfold pollPend
        split
        · split <;> rfl
        · rfl
      · rfl
  | drop c =>
    simp only [stepS, dropC, advSum, Nat.add_zero]
    split
    · rfl
    · split <;> rfl

theorem advSum_append (a b : List Op) : advSum (a ++ b) = advSum a + advSum b := by
  induction a with
  | nil => simp [advSum]
  | cons o os ih =>
    cases o <;> simp [advSum, ih] <;> omega

/-- **the clock is the sum of the advances** -/
theorem now_eq_advSum (cfg : Cfg) (ops : List Op) : (run cfg ops).now = advSum ops := by
  suffices ∀ rest pre, (run cfg pre).now = advSum pre → (run cfg (pre ++ rest)).now = advSum (pre ++ rest) by
    simpa using this ops [] rfl
  intro rest
  induction rest with
  | nil => intro pre h; simpa using h
  | cons o os ih =>
    intro pre h
    have := ih (pre ++ [o]) (by rw [run_snoc, stepS_now, h, advSum_append])
    simpa using this

/-- a poll of a caller whose inner call has finished `Ok` is `completeOk` -/
theorem step_poll_ok (cfg : Cfg) (s : State) (c w : Nat) (p : Pend) (hh : lookup s.hits c = none)
    (hp : lookup s.pend c = some p) (ho : p.out = .ok) (hd : p.doneAt ≤ s.now) :
    stepS cfg s (.poll c w) = completeOk cfg s c p w := by
  simp only [stepS, poll, hh, hp, pollPend, ge_iff_le, hd, if_true, ho]

/-- `(k, (v, t))` was written by a completing operation of the history `ops`, when the clock showed `t` -/
def StoredBy (cfg : Cfg) (ops : List Op) (k v t : Nat) : Prop :=
  ∃ n c w b, n < ops.length ∧ ops[n]? = some (Op.poll c w) ∧ (run cfg (ops.take n)).now = t ∧
    (run cfg (ops.take (n + 1))).log = (run cfg (ops.take n)).log ++ okEvs c v b ∧
    ReqKey (run cfg (ops.take n)).log c k

theorem StoredBy.snoc {cfg : Cfg} {ops : List Op} {k v t : Nat} (h : StoredBy cfg ops k v t) (op : Op) :
    StoredBy cfg (ops ++ [op]) k v t := by
  obtain ⟨n, c, w, b, hn, hop, hnow, hlog, hreq⟩ := h
  refine ⟨n, c, w, b, by simp; omega, ?_, ?_, ?_, ?_⟩
  · rw [List.getElem?_append_left hn]; exact hop
  · rw [List.take_append_of_le_length (Nat.le_of_lt hn)]; exact hnow
  · rw [List.take_append_of_le_length (Nat.le_of_lt hn), List.take_append_of_le_length hn]; exact hlog
  · rw [List.take_append_of_le_length (Nat.le_of_lt hn)]; exact hreq

theorem storedBy_snoc {cfg : Cfg} (ops : List Op) (op : Op)
    (ih : ∀ x ∈ (run cfg ops).stored, StoredBy cfg ops x.1 x.2.1 x.2.2) :
    ∀ x ∈ (run cfg (ops ++ [op])).stored, StoredBy cfg (ops ++ [op]) x.1 x.2.1 x.2.2 := by
  intro x hx
  rw [run_snoc] at hx
  rcases step_stored cfg (run cfg ops) op with hsame | ⟨c, w, p, rfl, hh, hp, ho, hd, hst⟩
  · rw [hsame] at hx; exact (ih x hx).snoc op
  · rw [hst, List.mem_cons] at hx
    rcases hx with rfl | hx
    · have hl := (log_inv_reachable cfg ops).1
      refine ⟨ops.length, c, w,
        (storeInsert cfg (run cfg ops).now (run cfg ops).tick (run cfg ops).store p.key p.k w).choiceOk,
        by simp, by simp, ?_, ?_, ?_⟩
      · rw [List.take_append_of_le_length (Nat.le_refl _), List.take_length]
      · rw [List.take_append_of_le_length (Nat.le_refl _), List.take_length,
          List.take_of_length_le (by simp), run_snoc, step_poll_ok cfg _ c w p hh hp ho hd]
        exact completeOk_log cfg _ c w p
      · rw [List.take_append_of_le_length (Nat.le_refl _), List.take_length]
        exact (hl.pendLog _ (lookup_mem hp)).2
    · exact (ih x hx).snoc (.poll c w)

/-- **every entry of the specification map was written by a successful completion of the history, at the
clock of that operation** -/
theorem stored_by_completion (cfg : Cfg) (ops : List Op) :
    ∀ x ∈ (run cfg ops).stored, StoredBy cfg ops x.1 x.2.1 x.2.2 := by
  suffices ∀ rest pre, (∀ x ∈ (run cfg pre).stored, StoredBy cfg pre x.1 x.2.1 x.2.2) →
      ∀ x ∈ (run cfg (pre ++ rest)).stored, StoredBy cfg (pre ++ rest) x.1 x.2.1 x.2.2 by
    have := this ops [] (by simp [run_nil, init])
    simpa using this
  intro rest
  induction rest with
  | nil => intro pre h; simpa using h
  | cons o os ih =>
    intro pre h
    have := ih (pre ++ [o]) (storedBy_snoc pre o h)
    simpa using this

end TR.Cache
