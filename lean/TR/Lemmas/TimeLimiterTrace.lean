import TR.Lemmas.TimeLimiterWake
/-!
# Time limiter: the timestamped event log and its tie to the ghost histories

`trace cfg ops` is the event log as the driver prints it (and as the correspondence check compares it with the
implementation's): every event an operation appends to `State.log`, stamped with the instant of the state the
operation leads to.  `Bridge` ties it to the callers' ghost histories in both directions, with the instants and
the serial numbers: an event of caller `c` is in the trace at `t` iff it is in `c`'s history at `t` (the only
other lines are the answers to refused arrivals), and the trace holds as many `result` lines of `c` as `c`'s
history holds results — at most one.
-/
namespace TR.TimeLimiter

/-! ## the timestamped log -/

/-- one operation: the state it leads to, and its events stamped with that state's instant (`Driver.applyStep`) -/
def stepT (cfg : Cfg) (p : State × List (Nat × Ev)) (op : Op) : State × List (Nat × Ev) :=
  (stepS cfg p.1 op, p.2 ++ (newEvents cfg p.1 op).map (fun e => ((stepS cfg p.1 op).now, e)))

def runT (cfg : Cfg) (ops : List Op) : State × List (Nat × Ev) := ops.foldl (stepT cfg) (init, [])

/-- the event log with its instants -/
def trace (cfg : Cfg) (ops : List Op) : List (Nat × Ev) := (runT cfg ops).2

theorem foldl_stepT_fst (cfg : Cfg) (ops : List Op) (p : State × List (Nat × Ev)) :
    (ops.foldl (stepT cfg) p).1 = ops.foldl (stepS cfg) p.1 := by
  induction ops generalizing p with
  | nil => rfl
  | cons o os ih => simp only [List.foldl_cons, ih]; rfl

theorem runT_fst (cfg : Cfg) (ops : List Op) : (runT cfg ops).1 = run cfg ops :=
  foldl_stepT_fst cfg ops (init, [])

theorem run_snoc (cfg : Cfg) (ops : List Op) (op : Op) : run cfg (ops ++ [op]) = stepS cfg (run cfg ops) op := by
  simp [run, List.foldl_append]

theorem trace_snoc (cfg : Cfg) (ops : List Op) (op : Op) :
    trace cfg (ops ++ [op]) =
      trace cfg ops ++ (newEvents cfg (run cfg ops) op).map (fun e => ((stepS cfg (run cfg ops) op).now, e)) := by
  unfold trace runT
  rw [List.foldl_append]
  simp only [List.foldl_cons, List.foldl_nil, stepT]
  have := runT_fst cfg ops
  unfold runT at this
  rw [this]

theorem trace_nil (cfg : Cfg) : trace cfg [] = [] := rfl

/-- induction from the end of the operation list -/
theorem snoc_induction {α : Type} {P : List α → Prop} (h0 : P [])
    (hs : ∀ l a, P l → P (l ++ [a])) : ∀ l, P l := by
  intro l
  rw [← List.reverse_reverse l]
  induction l.reverse with
  | nil => exact h0
  | cons a t ih => rw [List.reverse_cons]; exact hs _ _ ih

/-! ## what each operation appends -/

theorem newEvents_of_log (cfg : Cfg) (s : State) (op : Op) (evs : List Ev)
    (h : (stepS cfg s op).log = s.log ++ evs) : newEvents cfg s op = evs := by
  simp [newEvents, h]

/-- the serial the events of a transition of caller `c` are rendered with -/
def kUsed (s : State) (c : Nat) (evs : List CEv) : Nat :=
  if evs.contains .called then s.serial else serialOf s c

theorem newEvents_poll_some (cfg : Cfg) (s : State) (c : Nat) (x : Caller) (hx : lookup s.callers c = some x) :
    newEvents cfg s (.poll c) = (pollC cfg s.now x).2.map (toEv c (kUsed s c (pollC cfg s.now x).2)) := by
  apply newEvents_of_log
  simp only [stepS, applyC, hx, kUsed, serialOf]

theorem newEvents_drop_some (cfg : Cfg) (s : State) (c : Nat) (x : Caller) (hx : lookup s.callers c = some x) :
    newEvents cfg s (.drop c) = (dropC cfg s.now x).2.map (toEv c (kUsed s c (dropC cfg s.now x).2)) := by
  apply newEvents_of_log
  simp only [stepS, applyC, hx, kUsed, serialOf]

theorem stepS_poll_none (cfg : Cfg) (s : State) (c : Nat) (hx : lookup s.callers c = none) :
    stepS cfg s (.poll c) = s := by
  simp [stepS, applyC, hx]

theorem stepS_drop_none (cfg : Cfg) (s : State) (c : Nat) (hx : lookup s.callers c = none) :
    stepS cfg s (.drop c) = s := by
  simp [stepS, applyC, hx]

theorem newEvents_same (cfg : Cfg) (s : State) (op : Op) (h : stepS cfg s op = s) : newEvents cfg s op = [] := by
  simp [newEvents, h]

theorem newEvents_adv (cfg : Cfg) (s : State) (ms : Nat) :
    newEvents cfg s (.adv ms) = dueEvents cfg (s.now + ms) s.kOf s.callers := by
  apply newEvents_of_log
  simp [stepS]

theorem newEvents_arrive (cfg : Cfg) (s : State) (c : Nat) (tmo : Option Tmo) (sc : Step) :
    newEvents cfg s (.arrive c tmo sc) = [] := by
  apply newEvents_of_log
  simp only [stepS]
  cases lookup s.callers c <;> simp

theorem stepS_refused_some (cfg : Cfg) (s : State) (c : Nat) (e : Bool) (x : Caller)
    (hx : lookup s.callers c = some x) : stepS cfg s (.refused c e) = s := by
  simp [stepS, hx]

/-- the events of an advance: one `inner_done` per task that completes, rendered with its caller's serial -/
theorem mem_dueEvents_iff (cfg : Cfg) (now : Nat) (kOf : List (Nat × Nat)) (l : List (Nat × Caller)) (ev : Ev) :
    ev ∈ dueEvents cfg now kOf l ↔
      ∃ p ∈ l, ∃ e ∈ (advC cfg now p.2).2, ev = toEv p.1 ((lookup kOf p.1).getD 0) e := by
  unfold dueEvents
  simp only [List.mem_map]
  constructor
  · rintro ⟨d, hd, rfl⟩
    have hd' := (mem_foldl_due cfg now kOf l [] d).mp hd
    rcases hd' with hd' | ⟨p, hp, e, he, hde⟩
    · cases hd'
    · exact ⟨p, hp, e, he, by rw [hde]; rfl⟩
  · rintro ⟨p, hp, e, he, rfl⟩
    exact ⟨dueKey kOf p e, (mem_foldl_due cfg now kOf l [] _).mpr (Or.inr ⟨p, hp, e, he, rfl⟩), rfl⟩

/-! ## association lists with unique keys -/

/-- every entry is the one `lookup` finds -/
def Func (l : List (Nat × Caller)) : Prop := ∀ p ∈ l, lookup l p.1 = some p.2

theorem func_snoc (l : List (Nat × Caller)) (c : Nat) (v : Caller) (h : Func l) (hn : lookup l c = none) :
    Func (l ++ [(c, v)]) := by
  intro p hp
  rw [lookup_snoc]
  rcases List.mem_append.mp hp with hp | hp
  · rw [h p hp]
  · simp at hp; subst hp; simp [hn]

theorem func_setC (l : List (Nat × Caller)) (c : Nat) (v : Caller) (h : Func l) : Func (setC l c v) := by
  intro p' hp'
  unfold setC at hp'
  obtain ⟨p, hp, rfl⟩ := List.mem_map.mp hp'
  rw [lookup_setC]
  by_cases hc : p.1 = c
  · simp [hc]
    have := h p hp
    rw [hc] at this
    simp [this]
  · simp [hc]; exact h p hp

theorem func_mapSnd (l : List (Nat × Caller)) (g : Caller → Caller) (h : Func l) :
    Func (l.map (fun p => (p.1, g p.2))) := by
  intro p' hp'
  obtain ⟨p, hp, rfl⟩ := List.mem_map.mp hp'
  rw [lookup_mapSnd]
  simp [h p hp]

/-! ## serial numbers -/

theorem lookup_cons_same {α : Type} (l : List (Nat × α)) (c : Nat) (v : α) : lookup ((c, v) :: l) c = some v := by
  simp [lookup]

theorem lookup_cons_other {α : Type} (l : List (Nat × α)) (c c' : Nat) (v : α) (h : c' ≠ c) :
    lookup ((c', v) :: l) c = lookup l c := by
  simp [lookup, h]

theorem serialOf_applyC_same (s : State) (c : Nat) (f : Caller → Caller × List CEv) (x : Caller)
    (hx : lookup s.callers c = some x) : serialOf (applyC s c f) c = kUsed s c (f x).2 := by
  unfold serialOf applyC kUsed
  simp only [hx]
  cases hst : (f x).2.contains CEv.called
  · simp [serialOf]
  · simp [lookup_cons_same]

theorem serialOf_applyC_other (s : State) (c c' : Nat) (f : Caller → Caller × List CEv) (h : c' ≠ c) :
    serialOf (applyC s c' f) c = serialOf s c := by
  unfold serialOf applyC
  cases hx : lookup s.callers c' with
  | none => rfl
  | some x =>
    simp only []
    cases hst : (f x).2.contains CEv.called
    · simp
    · simp [lookup_cons_other _ _ _ _ h]

/-! ## result lines -/

/-- the line is a `result` of caller `c` -/
def isResultOf (c : Nat) (p : Nat × Ev) : Bool :=
  match p.2 with
  | .result c' _ => decide (c' = c)
  | _ => false

theorem isResultOf_toEv (c c' k t : Nat) (e : CEv) :
    isResultOf c (t, toEv c' k e) = (decide (c' = c) && isRes e) := by
  cases e <;> simp [isResultOf, toEv, isRes]

theorem countP_stamp_toEv (c c' k t : Nat) (evs : List CEv) :
    ((evs.map (toEv c' k)).map (fun e => (t, e))).countP (isResultOf c) =
      if c' = c then evs.countP isRes else 0 := by
  induction evs with
  | nil => simp
  | cons e tl ih =>
    simp only [List.map_cons, List.countP_cons, ih, isResultOf_toEv]
    by_cases hc : c' = c <;> simp [hc]

theorem toEv_caller_result {c c' k : Nat} {e : CEv} {r : Res} (h : toEv c' k e = Ev.result c r) :
    c' = c ∧ ∃ cr, e = .result cr ∧ r = cr.toRes k := by
  cases e <;> simp [toEv] at h
  exact ⟨h.1, _, rfl, h.2.symm⟩

theorem toEv_caller_called {c c' k k' : Nat} {e : CEv} (h : toEv c' k e = Ev.innerCall c k') :
    c' = c ∧ e = .called ∧ k = k' := by
  cases e <;> simp [toEv] at h
  exact ⟨h.1, rfl, h.2⟩

theorem toEv_caller_drop {c c' k k' : Nat} {e : CEv} (h : toEv c' k e = Ev.innerDrop c k') :
    c' = c ∧ e = .dropped ∧ k = k' := by
  cases e <;> simp [toEv] at h
  exact ⟨h.1, rfl, h.2⟩

/-! ## the bridge -/

structure Bridge (cfg : Cfg) (ops : List Op) : Prop where
  func : Func (run cfg ops).callers
  /-- every line of the log is the answer to a refused arrival or an entry of its caller's history, at that instant -/
  toHist : ∀ t ev, (t, ev) ∈ trace cfg ops →
    (∃ c e, ev = Ev.result c (refusal e) ∧ Op.refused c e ∈ ops) ∨
    ∃ c x e, lookup (run cfg ops).callers c = some x ∧ (t, e) ∈ x.hist ∧
      ev = toEv c (serialOf (run cfg ops) c) e
  /-- every entry of every history is a line of the log, at that instant, with the caller's serial -/
  fromHist : ∀ c x t e, lookup (run cfg ops).callers c = some x → (t, e) ∈ x.hist →
    (t, toEv c (serialOf (run cfg ops) c) e) ∈ trace cfg ops
  /-- a caller that was never refused has as many `result` lines as its history has results -/
  count : ∀ c, (∀ e, Op.refused c e ∉ ops) →
    (trace cfg ops).countP (isResultOf c) =
      match lookup (run cfg ops).callers c with
      | some x => nRes x.hist
      | none => 0

theorem bridge_nil (cfg : Cfg) : Bridge cfg [] := by
  constructor
  · intro p hp; cases hp
  · intro t ev h; cases h
  · intro c x t e h; simp [run, init, lookup] at h
  · intro c _; rfl

/-- a transition of caller `c'` that emits `called` starts from an empty history -/
theorem called_hist_nil (cfg : Cfg) (now : Nat) (x : Caller) (r : Caller × List CEv) (htr : Tr cfg now x r)
    (h : CInv cfg now x) (hc : r.2.contains CEv.called = true) : x.hist = [] :=
  (h.freshHist (htr.calledFresh (by simpa using hc))).1

theorem kUsed_of_hist (cfg : Cfg) (now : Nat) (s : State) (c : Nat) (x : Caller) (r : Caller × List CEv)
    (htr : Tr cfg now x r) (h : CInv cfg now x) (hne : x.hist ≠ []) : kUsed s c r.2 = serialOf s c := by
  unfold kUsed
  cases hc : r.2.contains CEv.called
  · rfl
  · exact absurd (called_hist_nil cfg now x r htr h hc) hne

/-- the bridge survives a transition of one caller (`poll`, `drop`) -/
theorem bridge_applyC (cfg : Cfg) (ops : List Op) (op : Op) (c' : Nat) (f : Caller → Caller × List CEv)
    (hb : Bridge cfg ops)
    (hstep : stepS cfg (run cfg ops) op = applyC (run cfg ops) c' f)
    (hnr : ∀ c e, op ≠ .refused c e)
    (htr : ∀ x, lookup (run cfg ops).callers c' = some x → Tr cfg (run cfg ops).now x (f x))
    (hnew : ∀ x, lookup (run cfg ops).callers c' = some x →
      newEvents cfg (run cfg ops) op = (f x).2.map (toEv c' (kUsed (run cfg ops) c' (f x).2)))
    (hnone : lookup (run cfg ops).callers c' = none → newEvents cfg (run cfg ops) op = []) :
    Bridge cfg (ops ++ [op]) := by
  have hmem : ∀ c e, Op.refused c e ∈ ops ++ [op] ↔ Op.refused c e ∈ ops := by
    intro c e
    simp only [List.mem_append, List.mem_singleton]
    constructor
    · rintro (h | h)
      · exact h
      · exact absurd h.symm (hnr c e)
    · exact Or.inl
  cases hx0 : lookup (run cfg ops).callers c' with
  | none =>
    have hs : stepS cfg (run cfg ops) op = run cfg ops := by rw [hstep]; simp [applyC, hx0]
    have hrun : run cfg (ops ++ [op]) = run cfg ops := by rw [run_snoc, hs]
    have htrace : trace cfg (ops ++ [op]) = trace cfg ops := by rw [trace_snoc, hnone hx0]; simp
    constructor
    · rw [hrun]; exact hb.func
    · intro t ev h
      rw [htrace] at h; rw [hrun]
      rcases hb.toHist t ev h with ⟨c, e, h1, h2⟩ | h'
      · exact Or.inl ⟨c, e, h1, (hmem c e).mpr h2⟩
      · exact Or.inr h'
    · rw [hrun, htrace]; exact hb.fromHist
    · intro c hc
      rw [hrun, htrace]
      exact hb.count c (fun e he => hc e ((hmem c e).mpr he))
  | some x0 =>
    have hT := htr x0 hx0
    have hI := inv_reachable cfg ops c' x0 hx0
    have hrun : run cfg (ops ++ [op]) = applyC (run cfg ops) c' f := by rw [run_snoc, hstep]
    have hnow : (applyC (run cfg ops) c' f).now = (run cfg ops).now := by simp [applyC, hx0]
    have hcallers : (applyC (run cfg ops) c' f).callers = setC (run cfg ops).callers c' (f x0).1 := by
      simp [applyC, hx0]
    have hlk_same : lookup (applyC (run cfg ops) c' f).callers c' = some (f x0).1 := by
      rw [hcallers, lookup_setC]; simp [hx0]
    have hlk_other : ∀ c, c ≠ c' → lookup (applyC (run cfg ops) c' f).callers c = lookup (run cfg ops).callers c := by
      intro c hc
      rw [hcallers, lookup_setC]; simp [hc]
    have hk_same : serialOf (applyC (run cfg ops) c' f) c' = kUsed (run cfg ops) c' (f x0).2 :=
      serialOf_applyC_same _ c' f x0 hx0
    have hk_other : ∀ c, c ≠ c' → serialOf (applyC (run cfg ops) c' f) c = serialOf (run cfg ops) c :=
      fun c hc => serialOf_applyC_other _ c c' f (Ne.symm hc)
    have hk_hist : x0.hist ≠ [] → kUsed (run cfg ops) c' (f x0).2 = serialOf (run cfg ops) c' :=
      kUsed_of_hist cfg _ _ c' x0 _ hT hI
    have htrace : trace cfg (ops ++ [op]) = trace cfg ops ++
        ((f x0).2.map (toEv c' (kUsed (run cfg ops) c' (f x0).2))).map (fun e => ((run cfg ops).now, e)) := by
      rw [trace_snoc, hnew x0 hx0, hstep, hnow]
    constructor
    · rw [hrun, hcallers]; exact func_setC _ _ _ hb.func
    · intro t ev h
      rw [htrace] at h
      rw [hrun]
      rcases List.mem_append.mp h with h | h
      · rcases hb.toHist t ev h with ⟨c, e, h1, h2⟩ | ⟨c, x, e, h1, h2, h3⟩
        · exact Or.inl ⟨c, e, h1, (hmem c e).mpr h2⟩
        · right
          by_cases hc : c = c'
          · subst hc
            rw [hx0] at h1; injection h1 with h1; subst h1
            refine ⟨c, (f x0).1, e, hlk_same, ?_, ?_⟩
            · rw [hT.lock]; exact List.mem_append.mpr (Or.inl h2)
            · rw [hk_same, hk_hist (by intro hnil; rw [hnil] at h2; cases h2)]; exact h3
          · exact ⟨c, x, e, by rw [hlk_other c hc]; exact h1, h2, by rw [hk_other c hc]; exact h3⟩
      · obtain ⟨ev', hev', heq⟩ := List.mem_map.mp h
        injection heq with ht hev
        subst ht hev
        obtain ⟨e, he, rfl⟩ := List.mem_map.mp hev'
        right
        refine ⟨c', (f x0).1, e, hlk_same, ?_, by rw [hk_same]⟩
        rw [hT.lock]
        exact List.mem_append.mpr (Or.inr (List.mem_map.mpr ⟨e, he, rfl⟩))
    · intro c x t e hl hm
      rw [hrun] at hl ⊢
      rw [htrace]
      by_cases hc : c = c'
      · subst hc
        rw [hlk_same] at hl; injection hl with hl; subst hl
        rw [hT.lock] at hm
        rw [hk_same]
        rcases List.mem_append.mp hm with hm | hm
        · apply List.mem_append.mpr; left
          rw [hk_hist (by intro hnil; rw [hnil] at hm; cases hm)]
          exact hb.fromHist c x0 t e hx0 hm
        · apply List.mem_append.mpr; right
          obtain ⟨e', he', heq⟩ := List.mem_map.mp hm
          injection heq with h1 h2
          subst h1 h2
          exact List.mem_map.mpr ⟨_, List.mem_map.mpr ⟨e', he', rfl⟩, rfl⟩
      · rw [hlk_other c hc] at hl
        rw [hk_other c hc]
        exact List.mem_append.mpr (Or.inl (hb.fromHist c x t e hl hm))
    · intro c hcr
      rw [htrace, List.countP_append, countP_stamp_toEv, hrun]
      rw [hb.count c (fun e he => hcr e ((hmem c e).mpr he))]
      by_cases hc : c' = c
      · subst hc
        simp only [if_true, hlk_same, hx0]
        rw [hT.lock, nRes_append, nRes_stamp]
      · simp only [hc, if_false, Nat.add_zero]
        rw [hlk_other c (Ne.symm hc)]

/-- the bridge survives an operation -/
theorem bridge_snoc (cfg : Cfg) (ops : List Op) (op : Op) (hb : Bridge cfg ops) : Bridge cfg (ops ++ [op]) := by
  cases op with
  | poll c' =>
    refine bridge_applyC cfg ops (.poll c') c' (pollC cfg (run cfg ops).now) hb rfl (by intro c e h; cases h) ?_ ?_ ?_
    · intro x hx; exact pollC_tr cfg _ x (inv_reachable cfg ops c' x hx)
    · intro x hx; exact newEvents_poll_some cfg _ c' x hx
    · intro hx; exact newEvents_same cfg _ _ (stepS_poll_none cfg _ c' hx)
  | drop c' =>
    refine bridge_applyC cfg ops (.drop c') c' (dropC cfg (run cfg ops).now) hb rfl (by intro c e h; cases h) ?_ ?_ ?_
    · intro x _; exact dropC_tr cfg _ x
    · intro x hx; exact newEvents_drop_some cfg _ c' x hx
    · intro hx; exact newEvents_same cfg _ _ (stepS_drop_none cfg _ c' hx)
  | arrive c' tmo sc =>
    have hmem : ∀ c e, Op.refused c e ∈ ops ++ [Op.arrive c' tmo sc] ↔ Op.refused c e ∈ ops := by
      intro c e; simp
    have htrace : trace cfg (ops ++ [Op.arrive c' tmo sc]) = trace cfg ops := by
      rw [trace_snoc, newEvents_arrive]; simp
    have hk : ∀ c, serialOf (run cfg (ops ++ [Op.arrive c' tmo sc])) c = serialOf (run cfg ops) c := by
      intro c; rw [run_snoc]; simp only [serialOf, stepS]
      cases lookup (run cfg ops).callers c' <;> rfl
    cases hx0 : lookup (run cfg ops).callers c' with
    | some x0 =>
      have hrun : run cfg (ops ++ [Op.arrive c' tmo sc]) = run cfg ops := by
        rw [run_snoc]; simp [stepS, hx0]
      constructor
      · rw [hrun]; exact hb.func
      · intro t ev h
        rw [htrace] at h; rw [hrun]
        rcases hb.toHist t ev h with ⟨c, e, h1, h2⟩ | h'
        · exact Or.inl ⟨c, e, h1, (hmem c e).mpr h2⟩
        · exact Or.inr h'
      · rw [hrun, htrace]; exact hb.fromHist
      · intro c hc
        rw [hrun, htrace]
        exact hb.count c (fun e he => hc e ((hmem c e).mpr he))
    | none =>
      have hcallers : (run cfg (ops ++ [Op.arrive c' tmo sc])).callers =
          (run cfg ops).callers ++ [(c', newCaller (effTimeout cfg tmo) sc)] := by
        rw [run_snoc]; simp [stepS, hx0]
      constructor
      · rw [hcallers]; exact func_snoc _ _ _ hb.func hx0
      · intro t ev h
        rw [htrace] at h
        rcases hb.toHist t ev h with ⟨c, e, h1, h2⟩ | ⟨c, x, e, h1, h2, h3⟩
        · exact Or.inl ⟨c, e, h1, (hmem c e).mpr h2⟩
        · right
          refine ⟨c, x, e, ?_, h2, by rw [hk]; exact h3⟩
          rw [hcallers, lookup_snoc, h1]
      · intro c x t e hl hm
        rw [hcallers, lookup_snoc] at hl
        rw [htrace, hk]
        cases hx1 : lookup (run cfg ops).callers c with
        | some x1 =>
          simp [hx1] at hl; subst hl
          exact hb.fromHist c x1 t e hx1 hm
        | none =>
          simp [hx1] at hl
          obtain ⟨_, hl⟩ := hl
          subst hl
          simp [newCaller] at hm
      · intro c hc
        rw [htrace, hb.count c (fun e he => hc e ((hmem c e).mpr he)), hcallers, lookup_snoc]
        cases hx1 : lookup (run cfg ops).callers c with
        | some x1 => rfl
        | none =>
          by_cases hcc : c' = c
          · simp [hcc, newCaller, nRes]
          · simp [hcc]
  | refused c' e' =>
    have hk : ∀ c, serialOf (run cfg (ops ++ [Op.refused c' e'])) c = serialOf (run cfg ops) c := by
      intro c; rw [run_snoc]; simp only [serialOf, (stepS_refused cfg (run cfg ops) c' e').2.1]
    have hcallers : (run cfg (ops ++ [Op.refused c' e'])).callers = (run cfg ops).callers := by
      rw [run_snoc]; exact (stepS_refused cfg (run cfg ops) c' e').1
    have hnow : (stepS cfg (run cfg ops) (.refused c' e')).now = (run cfg ops).now :=
      (stepS_refused cfg (run cfg ops) c' e').2.2.2
    have hsub : ∀ p, p ∈ trace cfg ops → p ∈ trace cfg (ops ++ [Op.refused c' e']) := by
      intro p hp; rw [trace_snoc]; exact List.mem_append.mpr (Or.inl hp)
    constructor
    · rw [hcallers]; exact hb.func
    · intro t ev h
      rw [trace_snoc] at h
      rcases List.mem_append.mp h with h | h
      · rcases hb.toHist t ev h with ⟨c, e, h1, h2⟩ | ⟨c, x, e, h1, h2, h3⟩
        · exact Or.inl ⟨c, e, h1, List.mem_append.mpr (Or.inl h2)⟩
        · exact Or.inr ⟨c, x, e, by rw [hcallers]; exact h1, h2, by rw [hk]; exact h3⟩
      · cases hx0 : lookup (run cfg ops).callers c' with
        | some x0 =>
          rw [newEvents_same cfg _ _ (stepS_refused_some cfg _ c' e' x0 hx0)] at h
          cases h
        | none =>
          rw [newEvents_refused cfg _ c' e' hx0] at h
          simp at h
          exact Or.inl ⟨c', e', h.2, by simp⟩
    · intro c x t e hl hm
      rw [hcallers] at hl
      rw [hk]
      exact hsub _ (hb.fromHist c x t e hl hm)
    · intro c hc
      have hcc : c' ≠ c := by
        intro h; subst h
        exact hc e' (by simp)
      rw [trace_snoc, List.countP_append, hcallers,
        hb.count c (fun e he => hc e (List.mem_append.mpr (Or.inl he)))]
      have : ((newEvents cfg (run cfg ops) (Op.refused c' e')).map
          (fun e => ((stepS cfg (run cfg ops) (Op.refused c' e')).now, e))).countP (isResultOf c) = 0 := by
        cases hx0 : lookup (run cfg ops).callers c' with
        | some x0 => rw [newEvents_same cfg _ _ (stepS_refused_some cfg _ c' e' x0 hx0)]; rfl
        | none =>
          rw [newEvents_refused cfg _ c' e' hx0]
          simp [isResultOf, hcc]
      rw [this]; rfl
  | adv ms =>
    have hmem : ∀ c e, Op.refused c e ∈ ops ++ [Op.adv ms] ↔ Op.refused c e ∈ ops := by
      intro c e; simp
    have hk : ∀ c, serialOf (run cfg (ops ++ [Op.adv ms])) c = serialOf (run cfg ops) c := by
      intro c; rw [run_snoc]; rfl
    have hnow : (stepS cfg (run cfg ops) (.adv ms)).now = (run cfg ops).now + ms := rfl
    have hcallers : (run cfg (ops ++ [Op.adv ms])).callers =
        (run cfg ops).callers.map (fun p => (p.1, (advC cfg ((run cfg ops).now + ms) p.2).1)) := by
      rw [run_snoc]; rfl
    have hlk : ∀ c, lookup (run cfg (ops ++ [Op.adv ms])).callers c =
        (lookup (run cfg ops).callers c).map (fun x => (advC cfg ((run cfg ops).now + ms) x).1) := by
      intro c; rw [hcallers]; exact lookup_mapSnd _ (fun x => (advC cfg ((run cfg ops).now + ms) x).1) c
    have htrace : trace cfg (ops ++ [Op.adv ms]) = trace cfg ops ++
        (dueEvents cfg ((run cfg ops).now + ms) (run cfg ops).kOf (run cfg ops).callers).map
          (fun e => ((run cfg ops).now + ms, e)) := by
      rw [trace_snoc, newEvents_adv, hnow]
    constructor
    · rw [hcallers]; exact func_mapSnd _ (fun x => (advC cfg ((run cfg ops).now + ms) x).1) hb.func
    · intro t ev h
      rw [htrace] at h
      rcases List.mem_append.mp h with h | h
      · rcases hb.toHist t ev h with ⟨c, e, h1, h2⟩ | ⟨c, x, e, h1, h2, h3⟩
        · exact Or.inl ⟨c, e, h1, (hmem c e).mpr h2⟩
        · right
          refine ⟨c, _, e, by rw [hlk, h1]; rfl, ?_, by rw [hk]; exact h3⟩
          rw [advC_lock cfg _ x]
          exact List.mem_append.mpr (Or.inl h2)
      · obtain ⟨ev', hev', heq⟩ := List.mem_map.mp h
        injection heq with ht hev
        subst ht hev
        obtain ⟨p, hp, e, he, rfl⟩ := (mem_dueEvents_iff cfg _ _ _ _).mp hev'
        right
        refine ⟨p.1, _, e, by rw [hlk, hb.func p hp]; rfl, ?_, by rw [hk]; rfl⟩
        rw [advC_lock cfg _ p.2]
        exact List.mem_append.mpr (Or.inr (List.mem_map.mpr ⟨e, he, rfl⟩))
    · intro c x t e hl hm
      rw [hlk] at hl
      rw [htrace, hk]
      cases hx0 : lookup (run cfg ops).callers c with
      | none => simp [hx0] at hl
      | some x0 =>
        simp [hx0] at hl
        subst hl
        rw [advC_lock cfg _ x0] at hm
        rcases List.mem_append.mp hm with hm | hm
        · exact List.mem_append.mpr (Or.inl (hb.fromHist c x0 t e hx0 hm))
        · obtain ⟨e', he', heq⟩ := List.mem_map.mp hm
          injection heq with h1 h2
          subst h1 h2
          apply List.mem_append.mpr; right
          exact List.mem_map.mpr ⟨_, mem_dueEvents cfg _ _ _ c x0 e' (mem_of_lookup hx0) he', rfl⟩
    · intro c hc
      rw [htrace, List.countP_append, hb.count c (fun e he => hc e ((hmem c e).mpr he)), hlk]
      have hz : ((dueEvents cfg ((run cfg ops).now + ms) (run cfg ops).kOf (run cfg ops).callers).map
          (fun e => ((run cfg ops).now + ms, e))).countP (isResultOf c) = 0 := by
        rw [List.countP_eq_zero]
        intro q hq
        obtain ⟨ev', hev', rfl⟩ := List.mem_map.mp hq
        obtain ⟨p, _, e, he, rfl⟩ := (mem_dueEvents_iff cfg _ _ _ _).mp hev'
        rw [(advC_quiet cfg _ p.2).2.1 e he]
        simp [isResultOf, toEv]
      rw [hz]
      cases hx0 : lookup (run cfg ops).callers c with
      | none => rfl
      | some x0 =>
        simp only [Option.map_some, Nat.add_zero]
        rw [advC_lock cfg _ x0, nRes_append, nRes_stamp]
        have : (advC cfg ((run cfg ops).now + ms) x0).2.countP isRes = 0 := by
          rw [List.countP_eq_zero]
          intro e he
          rw [(advC_quiet cfg _ x0).2.1 e he]; simp [isRes]
        rw [this]; rfl

/-- the log and the histories say the same, after every operation sequence -/
theorem bridge (cfg : Cfg) (ops : List Op) : Bridge cfg ops :=
  snoc_induction (P := Bridge cfg) (bridge_nil cfg) (fun l a h => bridge_snoc cfg l a h) ops

/-- the log without its instants is `State.log` -/
theorem trace_map_snd (cfg : Cfg) (ops : List Op) : (trace cfg ops).map Prod.snd = (run cfg ops).log := by
  refine snoc_induction (P := fun ops => (trace cfg ops).map Prod.snd = (run cfg ops).log) rfl ?_ ops
  intro l a ih
  rw [trace_snoc, List.map_append, ih, run_snoc]
  simp only [List.map_map]
  have : (Prod.snd ∘ fun e => ((stepS cfg (run cfg l) a).now, e)) = (id : Ev → Ev) := rfl
  rw [this, List.map_id]
  -- `stepS` only appends to the log
  unfold newEvents
  have hpre : ∃ evs, (stepS cfg (run cfg l) a).log = (run cfg l).log ++ evs := by
    cases a with
    | adv ms => exact ⟨_, rfl⟩
    | arrive c tmo sc =>
      simp only [stepS]
      cases lookup (run cfg l).callers c <;> exact ⟨[], by simp⟩
    | poll c =>
      simp only [stepS, applyC]
      cases lookup (run cfg l).callers c <;> simp
    | drop c =>
      simp only [stepS, applyC]
      cases lookup (run cfg l).callers c <;> simp
    | refused c e =>
      simp only [stepS]
      cases lookup (run cfg l).callers c <;> simp
  obtain ⟨evs, hevs⟩ := hpre
  rw [hevs]; simp

/-! ## reading the log: lines of one caller -/

/-- a `result` line of a caller that was never refused is the result in its history, at that instant -/
theorem result_line_in_hist (cfg : Cfg) (ops : List Op) (c t : Nat) (r : Res)
    (hnr : ∀ e, Op.refused c e ∉ ops) (h : (t, Ev.result c r) ∈ trace cfg ops) :
    ∃ x cr, lookup (run cfg ops).callers c = some x ∧ (t, CEv.result cr) ∈ x.hist ∧
      r = cr.toRes (serialOf (run cfg ops) c) := by
  rcases (bridge cfg ops).toHist t _ h with ⟨c', e, h1, h2⟩ | ⟨c', x, e, h1, h2, h3⟩
  · injection h1 with hc _
    subst hc
    exact absurd h2 (hnr e)
  · obtain ⟨hc, cr, he, hr⟩ := toEv_caller_result h3.symm
    subst hc he
    exact ⟨x, cr, h1, h2, hr⟩

/-- an `inner_call` line is the `called` of its caller's history: the first poll -/
theorem call_line_in_hist (cfg : Cfg) (ops : List Op) (c t k : Nat) (h : (t, Ev.innerCall c k) ∈ trace cfg ops) :
    ∃ x, lookup (run cfg ops).callers c = some x ∧ (t, CEv.called) ∈ x.hist ∧ k = serialOf (run cfg ops) c := by
  rcases (bridge cfg ops).toHist t _ h with ⟨c', e, h1, _⟩ | ⟨c', x, e, h1, h2, h3⟩
  · cases h1
  · obtain ⟨hc, he, hk⟩ := toEv_caller_called h3.symm
    subst hc he
    exact ⟨x, h1, h2, hk.symm⟩

/-- an `inner_drop` line is the `dropped` of its caller's history -/
theorem drop_line_in_hist (cfg : Cfg) (ops : List Op) (c t k : Nat) (h : (t, Ev.innerDrop c k) ∈ trace cfg ops) :
    ∃ x, lookup (run cfg ops).callers c = some x ∧ (t, CEv.dropped) ∈ x.hist ∧ k = serialOf (run cfg ops) c := by
  rcases (bridge cfg ops).toHist t _ h with ⟨c', e, h1, _⟩ | ⟨c', x, e, h1, h2, h3⟩
  · cases h1
  · obtain ⟨hc, he, hk⟩ := toEv_caller_drop h3.symm
    subst hc he
    exact ⟨x, h1, h2, hk.symm⟩

/-- at most one `result` line per caller (that was never refused) -/
theorem one_result_line (cfg : Cfg) (ops : List Op) (c : Nat) (hnr : ∀ e, Op.refused c e ∉ ops) :
    (trace cfg ops).countP (isResultOf c) ≤ 1 := by
  rw [(bridge cfg ops).count c hnr]
  cases hx : lookup (run cfg ops).callers c with
  | none => exact Nat.zero_le _
  | some x => exact (inv2_reachable cfg ops c x hx).oneRes

/-! ## the first poll, spelled out -/

/-- first poll of a cancelling call: the inner service is called; a zero latency delivers at once, else a zero
timeout times out (and drops) at once, else the call is pending -/
theorem firstPoll_cancel (cfg : Cfg) (hc : cfg.cancel = true) (now : Nat) (x : Caller) (hf : x.outer = .fresh) :
    (pollC cfg now x).2 =
      CEv.called ::
        (if x.sc.out ≠ .never ∧ x.sc.lat = 0 then [CEv.done x.sc.out, CEv.result (resOf x.sc.out)]
         else if x.unl = false ∧ x.tmo = 0 then [CEv.dropped, CEv.result .timeout] else []) ∧
    (pollC cfg now x).1.outer =
      (if (x.sc.out ≠ .never ∧ x.sc.lat = 0) ∨ (x.unl = false ∧ x.tmo = 0) then .gone else .waiting) := by
  unfold pollC
  simp only [hf, hc, if_true]
  unfold firstPollCancel pollCancel
  by_cases h : x.sc.out ≠ .never ∧ x.sc.lat = 0
  · simp [begin, note, Caller.doneAt, h]
  · have h' : ¬ (x.sc.out ≠ .never ∧ now + x.sc.lat ≤ now) := by
      intro hh; exact h ⟨hh.1, by omega⟩
    by_cases h0 : x.unl = false ∧ x.tmo = 0
    · simp [begin, note, Caller.doneAt, Caller.due, Caller.deadline, h, h', h0]
    · have hd : ¬ (x.unl = false ∧ now + x.tmo ≤ now) := by
        intro hh; exact h0 ⟨hh.1, by omega⟩
      simp [begin, note, Caller.doneAt, Caller.due, Caller.deadline, h, h', h0, hd]

/-- first poll of a non-cancelling call whose timeout is not zero (or `Duration::MAX`): the call is spawned and
that is all — the oneshot is empty, the timer is not due: pending, whatever the latency -/
theorem firstPoll_pos_detached (cfg : Cfg) (hc : cfg.cancel = false) (now : Nat) (x : Caller)
    (hf : x.outer = .fresh) (h0 : ¬ (x.unl = false ∧ x.tmo = 0)) :
    (pollC cfg now x).2 =
      [CEv.called] ++ (if x.sc.out ≠ .never ∧ x.sc.lat = 0 then [CEv.done x.sc.out] else []) ∧
    (pollC cfg now x).1.outer = .waiting ∧
    (pollC cfg now x).1.inner = (if x.sc.out ≠ .never ∧ x.sc.lat = 0 then .finished else .running) := by
  unfold pollC
  simp only [hf, hc, Bool.false_eq_true, if_false]
  unfold firstPollDetached
  simp only [h0, if_false]
  unfold runTask
  by_cases h : x.sc.out ≠ .never ∧ x.sc.lat = 0
  · have h' : x.sc.out ≠ .never ∧ now + x.sc.lat ≤ now := ⟨h.1, by omega⟩
    simp [begin, note, Caller.doneAt, h]
  · have h' : ¬ (x.sc.out ≠ .never ∧ now + x.sc.lat ≤ now) := by
      intro hh; exact h ⟨hh.1, by omega⟩
    simp [begin, note, Caller.doneAt, h, h']

/-- a state is settled iff a poll of every caller with a record is silent (callers without one are silent anyway) -/
theorem settled_iff (cfg : Cfg) (s : State) :
    Settled cfg s ↔ ∀ p ∈ s.callers, newEvents cfg s (.poll p.1) = [] := by
  constructor
  · intro h p _; exact h p.1
  · intro h c
    cases hx : lookup s.callers c with
    | none => exact newEvents_same cfg s _ (stepS_poll_none cfg s c hx)
    | some x => exact h (c, x) (mem_of_lookup hx)

instance (cfg : Cfg) (s : State) : Decidable (Settled cfg s) :=
  decidable_of_iff _ (settled_iff cfg s).symm

end TR.TimeLimiter
