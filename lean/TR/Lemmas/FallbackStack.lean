import TR.Lemmas.Fallback
import TR.Lemmas.FallbackRun
/-!
# Fallback: the caller's post-processing of a result and two layers stacked — helper lemmas for C17

* `postRun` (the caller clones an error result, looks at it through the accessors, converts its payload
  with `FallbackError::map`): the variant never changes, the payload changes by the mapped function only.
* `liftLog` (the log of a stack of two fallback layers as a function of the lower instance's log): it can
  be produced stretch by stretch (`liftLog_append` — what the line-protocol machine does), every result
  the caller of the stack sees is the upper instance's decision on a result of the lower instance
  (`mem_liftLog_result`), every callback of the upper layer belongs to such a decision (`mem_liftLog_up`).
-/
namespace TR.Fallback

/-! ## post-processing -/

theorem mapErr_mapErr (f g : IErr → IErr) (o : Outcome) : (o.mapErr f).mapErr g = o.mapErr (fun e => g (f e)) := by
  cases o <;> rfl

theorem mapErr_id (o : Outcome) : o.mapErr (fun e => e) = o := by
  cases o <;> rfl

theorem iter_succ' (f : IErr → IErr) (n : Nat) (e : IErr) : iter f (n + 1) e = iter f n (f e) := rfl

theorem postStep_eq (st : PostStep) (o : Outcome) :
    postStep st o = o.mapErr (iter appErr (if st = .map then 1 else 0)) := by
  cases st <;> cases o <;> rfl

/-- the result after the caller's post-processing: the payload went through `appErr` once per `map`
step, nothing else happened to it -/
theorem postRun_result (steps : List PostStep) (o : Outcome) :
    (postRun steps o).2 = o.mapErr (iter appErr (mapCount steps)) := by
  induction steps generalizing o with
  | nil => cases o <;> rfl
  | cons st tl ih =>
      simp only [postRun]
      rw [ih]
      cases st <;> cases o <;> simp [postStep, Outcome.cloneErr, Outcome.mapErr, mapCount, iter]

theorem isInner_mapErr (f : IErr → IErr) (o : Outcome) : (o.mapErr f).isInner = o.isInner := by cases o <;> rfl
theorem isFailed_mapErr (f : IErr → IErr) (o : Outcome) : (o.mapErr f).isFailed = o.isFailed := by cases o <;> rfl
theorem payload_mapErr (f : IErr → IErr) (o : Outcome) : (o.mapErr f).payload = o.payload.map f := by cases o <;> rfl

theorem mem_viewOf {o : Outcome} {v : View} (h : v ∈ viewOf o) :
    v.isInner = o.isInner ∧ v.isFailed = o.isFailed ∧ v.ref = v.into ∧ o.payload = some v.ref := by
  unfold viewOf at h
  split at h
  · rename_i e he
    simp only [List.mem_cons, List.mem_nil_iff, or_false] at h
    subst h
    exact ⟨rfl, rfl, rfl, he⟩
  · simp at h

/-- every view taken on the way reports the variant the layer produced, the same payload through
`inner()` and `into_inner()`, and that payload is the layer's after the `map` steps so far -/
theorem mem_postRun_views (steps : List PostStep) (o : Outcome) (v : View) (h : v ∈ (postRun steps o).1) :
    v.isInner = o.isInner ∧ v.isFailed = o.isFailed ∧ v.ref = v.into ∧
      ∃ n, n ≤ mapCount steps ∧ o.payload.map (iter appErr n) = some v.ref := by
  induction steps generalizing o with
  | nil => simp [postRun] at h
  | cons st tl ih =>
      simp only [postRun, List.mem_append] at h
      have hst := postStep_eq st o
      rcases h with h | h
      · split at h
        · obtain ⟨h1, h2, h3, h4⟩ := mem_viewOf h
          rw [hst, isInner_mapErr] at h1
          rw [hst, isFailed_mapErr] at h2
          rw [hst, payload_mapErr] at h4
          refine ⟨h1, h2, h3, (if st = .map then 1 else 0), ?_, h4⟩
          cases st <;> simp [mapCount]
        · simp at h
      · obtain ⟨h1, h2, h3, n, hn, h4⟩ := ih _ h
        rw [hst, isInner_mapErr] at h1
        rw [hst, isFailed_mapErr] at h2
        rw [hst, payload_mapErr, Option.map_map] at h4
        refine ⟨h1, h2, h3, n + (if st = .map then 1 else 0), ?_, ?_⟩
        · cases st <;> simp [mapCount] <;> first | exact hn | omega
        · rw [← h4]
          cases st <;> cases o <;> simp [Outcome.payload, iter, Function.comp]

/-! ## the encoding of the lower layer's error for the upper layer is injective -/

theorem asInner_injective {o1 o2 : Outcome} (h : o1.asInner = o2.asInner) : o1 = o2 := by
  cases o1 with
  | ok r1 => cases o2 <;> simp [Outcome.asInner] at h ⊢; exact h
  | inner e1 =>
      cases o2 with
      | ok r2 => simp [Outcome.asInner] at h
      | inner e2 =>
          simp only [Outcome.asInner, IRes.err.injEq, IErr.mk.injEq] at h
          cases e1; cases e2
          simp only [Outcome.inner.injEq, IErr.mk.injEq]
          exact ⟨by have := h.1; simp only at this; omega, h.2⟩
      | failed e2 =>
          simp only [Outcome.asInner, IRes.err.injEq, IErr.mk.injEq] at h
          have := h.1; omega
  | failed e1 =>
      cases o2 with
      | ok r2 => simp [Outcome.asInner] at h
      | inner e2 =>
          simp only [Outcome.asInner, IRes.err.injEq, IErr.mk.injEq] at h
          have := h.1; omega
      | failed e2 =>
          simp only [Outcome.asInner, IRes.err.injEq, IErr.mk.injEq] at h
          cases e1; cases e2
          simp only [Outcome.failed.injEq, IErr.mk.injEq]
          exact ⟨by have := h.1; simp only at this; omega, h.2⟩

/-- for every strategy but the backup service the upper layer's decision is a `finish` of `afterInner` -/
theorem upperFinish_spec {u : Cfg} (hs : u.strat ≠ .service) (rq : Request) (n : Nat) (o : Outcome) :
    afterInner u rq n o.asInner = .finish (upperFinish u rq n o).1 (upperFinish u rq n o).2 := by
  unfold upperFinish
  cases h : afterInner u rq n o.asInner with
  | finish cbs o' => rfl
  | backup cbs =>
      obtain ⟨_, _, _, hserv, _⟩ := afterInner_backup_is_error h
      exact absurd hserv hs

theorem upperFinish_ok (u : Cfg) (rq : Request) (n : Nat) (r : Resp) : upperFinish u rq n (.ok r) = ([], .ok r) := by
  simp [upperFinish, Outcome.asInner, afterInner]

theorem upperReady_ok (r : Resp) : upperReady (.ok r) = .ok r := rfl

/-! ## the log of the stack -/

theorem lookup_cons {α : Type} (l : List (Nat × α)) (k : Nat) (v : α) (c : Nat) :
    lookup ((k, v) :: l) c = if k = c then some v else lookup l c := rfl

/-- the stack's log can be produced stretch by stretch -/
theorem liftLog_append (u : Cfg) (a b : List FEv) (n : Nat) (rqs : List (Nat × Request)) :
    liftLog u n rqs (a ++ b) = liftLog u n rqs a ++ liftLog u (liftAcc u n rqs a).1 (liftAcc u n rqs a).2 b := by
  induction a generalizing n rqs with
  | nil => simp [liftLog, liftAcc]
  | cons e tl ih =>
      cases e with
      | innerCall c k rq => simp [liftLog, liftAcc, ih]
      | resp c o =>
          simp only [List.cons_append, liftLog, liftAcc]
          split <;> simp [ih]
      | result c o =>
          simp only [List.cons_append, liftLog, liftAcc]
          split <;> simp [ih]
      | innerDone c k o => simp [liftLog, liftAcc, ih]
      | innerDrop c k => simp [liftLog, liftAcc, ih]
      | backupCall c k rq => simp [liftLog, liftAcc, ih]
      | backupDone c k o => simp [liftLog, liftAcc, ih]
      | backupDrop c k => simp [liftLog, liftAcc, ih]
      | callback c cb => simp [liftLog, liftAcc, ih]
      | panicked c => simp [liftLog, liftAcc, ih]
      | notReady c => simp [liftLog, liftAcc, ih]

/-- Every result the caller of the stack sees is the upper layer's view of a result of the lower
instance: forwarded by `poll_ready` (no inner call was ever made for it), or the upper instance's
decision on it — for the request that was given to the inner call. -/
theorem mem_liftLog_result {u : Cfg} {c : Nat} {o' : Outcome} :
    ∀ (l : List FEv) (n : Nat) (rqs : List (Nat × Request)),
      SEv.low (.result c o') ∈ liftLog u n rqs l →
      ∃ o, FEv.result c o ∈ l ∧
        (o' = upperReady o ∨
         ∃ rq n', (lookup rqs c = some rq ∨ ∃ k, FEv.innerCall c k rq ∈ l) ∧ o' = (upperFinish u rq n' o).2) := by
  intro l
  induction l with
  | nil => intro n rqs h; simp [liftLog] at h
  | cons e tl ih =>
      intro n rqs h
      -- the tail case, shared by all constructors: the accumulated requests may have grown by the head
      have tail : ∀ n' rqs', SEv.low (.result c o') ∈ liftLog u n' rqs' tl →
          (∀ rq, lookup rqs' c = some rq → lookup rqs c = some rq ∨ ∃ k, FEv.innerCall c k rq ∈ e :: tl) →
          ∃ o, FEv.result c o ∈ e :: tl ∧
            (o' = upperReady o ∨
             ∃ rq n', (lookup rqs c = some rq ∨ ∃ k, FEv.innerCall c k rq ∈ e :: tl) ∧ o' = (upperFinish u rq n' o).2) := by
        intro n' rqs' hm hrq
        obtain ⟨o, ho, hd⟩ := ih n' rqs' hm
        refine ⟨o, List.mem_cons_of_mem _ ho, ?_⟩
        rcases hd with hd | ⟨rq, n'', hl, hd⟩
        · exact Or.inl hd
        · refine Or.inr ⟨rq, n'', ?_, hd⟩
          rcases hl with hl | ⟨k, hk⟩
          · exact hrq rq hl
          · exact Or.inr ⟨k, List.mem_cons_of_mem _ hk⟩
      cases e with
      | innerCall c1 k rq1 =>
          simp only [liftLog, List.mem_cons, SEv.low.injEq, reduceCtorEq, false_or] at h
          apply tail _ _ h
          intro rq hl
          rw [lookup_cons] at hl
          split at hl
          · rename_i hc
            simp only [Option.some.injEq] at hl
            subst hc; subst hl
            exact Or.inr ⟨k, List.mem_cons_self⟩
          · exact Or.inl hl
      | resp c1 o1 =>
          simp only [liftLog] at h
          split at h
          · exact tail _ _ h (fun rq hl => Or.inl hl)
          · simp only [List.mem_cons, SEv.low.injEq, reduceCtorEq, false_or] at h
            exact tail _ _ h (fun rq hl => Or.inl hl)
      | result c1 o1 =>
          simp only [liftLog] at h
          split at h
          · rename_i rq hrq
            simp only [List.mem_append, List.mem_map, List.mem_cons, SEv.low.injEq, reduceCtorEq, and_false, exists_false,
              false_or, FEv.result.injEq] at h
            rcases h with ⟨hc, ho⟩ | h
            · subst hc
              exact ⟨o1, List.mem_cons_self, Or.inr ⟨rq, n, Or.inl hrq, ho⟩⟩
            · exact tail _ _ h (fun rq hl => Or.inl hl)
          · simp only [List.mem_cons, SEv.low.injEq, FEv.result.injEq] at h
            rcases h with ⟨hc, ho⟩ | h
            · subst hc
              exact ⟨o1, List.mem_cons_self, Or.inl ho⟩
            · exact tail _ _ h (fun rq hl => Or.inl hl)
      | innerDone c1 k o1 =>
          simp only [liftLog, List.mem_cons, SEv.low.injEq, reduceCtorEq, false_or] at h
          exact tail _ _ h (fun rq hl => Or.inl hl)
      | innerDrop c1 k =>
          simp only [liftLog, List.mem_cons, SEv.low.injEq, reduceCtorEq, false_or] at h
          exact tail _ _ h (fun rq hl => Or.inl hl)
      | backupCall c1 k rq1 =>
          simp only [liftLog, List.mem_cons, SEv.low.injEq, reduceCtorEq, false_or] at h
          exact tail _ _ h (fun rq hl => Or.inl hl)
      | backupDone c1 k o1 =>
          simp only [liftLog, List.mem_cons, SEv.low.injEq, reduceCtorEq, false_or] at h
          exact tail _ _ h (fun rq hl => Or.inl hl)
      | backupDrop c1 k =>
          simp only [liftLog, List.mem_cons, SEv.low.injEq, reduceCtorEq, false_or] at h
          exact tail _ _ h (fun rq hl => Or.inl hl)
      | callback c1 cb =>
          simp only [liftLog, List.mem_cons, SEv.low.injEq, reduceCtorEq, false_or] at h
          exact tail _ _ h (fun rq hl => Or.inl hl)
      | panicked c1 =>
          simp only [liftLog, List.mem_cons, SEv.low.injEq, reduceCtorEq, false_or] at h
          exact tail _ _ h (fun rq hl => Or.inl hl)
      | notReady c1 =>
          simp only [liftLog, List.mem_cons, SEv.low.injEq, reduceCtorEq, false_or] at h
          exact tail _ _ h (fun rq hl => Or.inl hl)

/-- Every invocation of a user function of the upper layer belongs to its decision on a result of the
lower instance for that request. -/
theorem mem_liftLog_up {u : Cfg} {c : Nat} {cb : Callback} :
    ∀ (l : List FEv) (n : Nat) (rqs : List (Nat × Request)),
      SEv.up c cb ∈ liftLog u n rqs l →
      ∃ o rq n', FEv.result c o ∈ l ∧ cb ∈ (upperFinish u rq n' o).1 := by
  intro l
  induction l with
  | nil => intro n rqs h; simp [liftLog] at h
  | cons e tl ih =>
      intro n rqs h
      have tail : ∀ n' rqs', SEv.up c cb ∈ liftLog u n' rqs' tl →
          ∃ o rq n', FEv.result c o ∈ e :: tl ∧ cb ∈ (upperFinish u rq n' o).1 := by
        intro n' rqs' hm
        obtain ⟨o, rq, n'', ho, hcb⟩ := ih n' rqs' hm
        exact ⟨o, rq, n'', List.mem_cons_of_mem _ ho, hcb⟩
      cases e with
      | result c1 o1 =>
          simp only [liftLog] at h
          split at h
          · rename_i rq hrq
            simp only [List.mem_append, List.mem_map, List.mem_cons, SEv.up.injEq, reduceCtorEq, false_or] at h
            rcases h with ⟨cb', hcb, hc, hcb'⟩ | h
            · subst hc; subst hcb'
              exact ⟨o1, rq, n, List.mem_cons_self, hcb⟩
            · exact tail _ _ h
          · simp only [List.mem_cons, reduceCtorEq, false_or] at h
            exact tail _ _ h
      | resp c1 o1 =>
          simp only [liftLog] at h
          split at h
          · exact tail _ _ h
          · simp only [List.mem_cons, reduceCtorEq, false_or] at h
            exact tail _ _ h
      | innerCall c1 k rq1 =>
          simp only [liftLog, List.mem_cons, reduceCtorEq, false_or] at h; exact tail _ _ h
      | innerDone c1 k o1 =>
          simp only [liftLog, List.mem_cons, reduceCtorEq, false_or] at h; exact tail _ _ h
      | innerDrop c1 k =>
          simp only [liftLog, List.mem_cons, reduceCtorEq, false_or] at h; exact tail _ _ h
      | backupCall c1 k rq1 =>
          simp only [liftLog, List.mem_cons, reduceCtorEq, false_or] at h; exact tail _ _ h
      | backupDone c1 k o1 =>
          simp only [liftLog, List.mem_cons, reduceCtorEq, false_or] at h; exact tail _ _ h
      | backupDrop c1 k =>
          simp only [liftLog, List.mem_cons, reduceCtorEq, false_or] at h; exact tail _ _ h
      | callback c1 cb1 =>
          simp only [liftLog, List.mem_cons, reduceCtorEq, false_or] at h; exact tail _ _ h
      | panicked c1 =>
          simp only [liftLog, List.mem_cons, reduceCtorEq, false_or] at h; exact tail _ _ h
      | notReady c1 =>
          simp only [liftLog, List.mem_cons, reduceCtorEq, false_or] at h; exact tail _ _ h

/-! ## the upper layer's value-function counter, read off the stack's log -/

def isUpValueFn : SEv → Bool
  | .up _ (.valueFn _) => true
  | _ => false

/-- a decision invokes the value function at most once, with the counter it was given -/
theorem afterInner_cbs_valueFn (cfg : Cfg) (rq : Request) (n : Nat) (ri : IRes) :
    (afterInner cfg rq n ri).cbs.countP isValueFnCb ≤ 1 ∧ ∀ m, Callback.valueFn m ∈ (afterInner cfg rq n ri).cbs → m = n := by
  constructor
  · cases ri with
    | ok r => simp [afterInner_ok_cbs]
    | err e =>
        rw [afterInner_err_cbs]
        have hp : (predCalls cfg e).countP isValueFnCb = 0 := by
          unfold predCalls; split <;> simp [isValueFnCb]
        rw [List.countP_append, hp]
        split
        · cases strategyCall cfg rq n e <;> simp [List.countP_cons]
          split <;> omega
        · simp
  · intro m hm
    obtain ⟨e, _, hh | hh⟩ := mem_afterInner_cbs hm
    · cases hh.1
    · have := hh.2
      unfold strategyCall at this
      split at this <;> simp at this
      exact this.symm

theorem upperFinish_cbs (u : Cfg) (rq : Request) (n : Nat) (o : Outcome) :
    (upperFinish u rq n o).1 = (afterInner u rq n o.asInner).cbs := by
  unfold upperFinish
  cases afterInner u rq n o.asInner <;> rfl

theorem countP_up_valueFn (c : Nat) (cbs : List Callback) :
    (cbs.map (SEv.up c)).countP isUpValueFn = cbs.countP isValueFnCb := by
  induction cbs with
  | nil => rfl
  | cons cb tl ih =>
      simp only [List.map_cons, List.countP_cons, ih]
      cases cb <;> simp [isUpValueFn, isValueFnCb]

/-- wherever an invocation of the upper layer's value function stands in the stack's log, its invocation
number is the start value of the counter plus the number of such invocations before it -/
theorem liftLog_valueFn_counter (u : Cfg) :
    ∀ (l : List FEv) (n : Nat) (rqs : List (Nat × Request)) (pre post : List SEv) (c m : Nat),
      liftLog u n rqs l = pre ++ .up c (.valueFn m) :: post → m = n + pre.countP isUpValueFn := by
  intro l
  induction l with
  | nil => intro n rqs pre post c m h; simp [liftLog] at h
  | cons e tl ih =>
      intro n rqs pre post c m h
      -- the shared case: the head of the lifted log is one `low` event
      have one : ∀ (e' : FEv) n' rqs', SEv.low e' :: liftLog u n' rqs' tl = pre ++ .up c (.valueFn m) :: post →
          m = n' + pre.countP isUpValueFn := by
        intro e' n' rqs' h'
        cases pre with
        | nil => simp at h'
        | cons x pre' =>
            simp only [List.cons_append, List.cons.injEq] at h'
            obtain ⟨hx, h'⟩ := h'
            subst hx
            rw [ih n' rqs' pre' post c m h']
            simp [isUpValueFn]
      cases e with
      | innerCall c1 k rq1 => exact one _ _ _ (by simpa [liftLog] using h)
      | innerDone c1 k o1 => exact one _ _ _ (by simpa [liftLog] using h)
      | innerDrop c1 k => exact one _ _ _ (by simpa [liftLog] using h)
      | backupCall c1 k rq1 => exact one _ _ _ (by simpa [liftLog] using h)
      | backupDone c1 k o1 => exact one _ _ _ (by simpa [liftLog] using h)
      | backupDrop c1 k => exact one _ _ _ (by simpa [liftLog] using h)
      | callback c1 cb1 => exact one _ _ _ (by simpa [liftLog] using h)
      | panicked c1 => exact one _ _ _ (by simpa [liftLog] using h)
      | notReady c1 => exact one _ _ _ (by simpa [liftLog] using h)
      | resp c1 o1 =>
          simp only [liftLog] at h
          split at h
          · exact ih n rqs pre post c m h
          · exact one _ _ _ h
      | result c1 o1 =>
          simp only [liftLog] at h
          split at h
          · rename_i rq hrq
            have hv := afterInner_cbs_valueFn u rq n o1.asInner
            rw [← upperFinish_cbs] at hv
            rcases List.append_eq_append_iff.mp h with ⟨a, hpre, hR⟩ | ⟨a, hcbs, hR⟩
            · -- after the upper layer's callbacks: behind the two result lines
              cases a with
              | nil => simp at hR
              | cons x a1 =>
                  simp only [List.cons_append, List.cons.injEq] at hR
                  obtain ⟨hx, hR⟩ := hR
                  subst hx
                  cases a1 with
                  | nil => simp at hR
                  | cons y a2 =>
                      simp only [List.cons_append, List.cons.injEq] at hR
                      obtain ⟨hy, hR⟩ := hR
                      subst hy
                      rw [ih _ rqs a2 post c m hR, hpre]
                      simp only [List.countP_append, List.countP_cons, countP_up_valueFn, isUpValueFn]
                      simp; omega
            · -- among the upper layer's callbacks of this result
              cases a with
              | nil => simp at hR
              | cons x a1 =>
                  simp only [List.cons_append, List.cons.injEq] at hR
                  obtain ⟨hx, _⟩ := hR
                  subst hx
                  obtain ⟨l1, l2, hl, h1, h2⟩ := List.map_eq_append_iff.mp hcbs
                  cases l2 with
                  | nil => simp at h2
                  | cons cb l2' =>
                      simp only [List.map_cons, List.cons.injEq, SEv.up.injEq] at h2
                      obtain ⟨⟨_, hcb⟩, _⟩ := h2
                      subst hcb
                      have hm : m = n := hv.2 m (by rw [hl]; simp)
                      have hle := hv.1
                      rw [hl] at hle
                      simp only [List.countP_append, List.countP_cons, isValueFnCb, if_true] at hle
                      rw [← h1, countP_up_valueFn, hm]
                      omega
          · exact one _ _ _ h

/-! ## the caller's log -/

theorem callerLog_append (posts : List (Nat × List PostStep)) (a b : List SEv) :
    callerLog posts (a ++ b) = callerLog posts a ++ callerLog posts b := by
  simp [callerLog]

theorem callerLog_cons (posts : List (Nat × List PostStep)) (e : SEv) (l : List SEv) :
    callerLog posts (e :: l) = callerSees posts e ++ callerLog posts l := by
  simp [callerLog]

theorem mem_callerLog {posts : List (Nat × List PostStep)} {l : List SEv} {x : CEv} :
    x ∈ callerLog posts l ↔ ∃ e ∈ l, x ∈ callerSees posts e := by
  simp only [callerLog, List.mem_flatten, List.mem_map]
  constructor
  · rintro ⟨_, ⟨e, he, rfl⟩, hx⟩; exact ⟨e, he, hx⟩
  · rintro ⟨e, he, hx⟩; exact ⟨_, ⟨e, he, rfl⟩, hx⟩

/-- a `result` line of the caller's log is `postRun` of a result the (stack of) layer(s) delivered … -/
theorem mem_callerLog_result {posts : List (Nat × List PostStep)} {l : List SEv} {c : Nat} {o' : Outcome} :
    CEv.ev (.low (.result c o')) ∈ callerLog posts l ↔
      ∃ o, SEv.low (.result c o) ∈ l ∧ o' = (postRun (stepsOf posts c) o).2 := by
  rw [mem_callerLog]
  constructor
  · rintro ⟨e, he, hx⟩
    cases e with
    | up c1 cb => simp [callerSees] at hx
    | low e =>
        cases e <;> simp [callerSees] at hx
        case result c1 o1 =>
          obtain ⟨hc, ho⟩ := hx
          subst hc
          exact ⟨o1, he, ho⟩
  · rintro ⟨o, ho, rfl⟩
    exact ⟨_, ho, by simp [callerSees]⟩

/-- … so is a `resp` line … -/
theorem mem_callerLog_resp {posts : List (Nat × List PostStep)} {l : List SEv} {c : Nat} {o' : Outcome} :
    CEv.ev (.low (.resp c o')) ∈ callerLog posts l ↔
      ∃ o, SEv.low (.resp c o) ∈ l ∧ o' = (postRun (stepsOf posts c) o).2 := by
  rw [mem_callerLog]
  constructor
  · rintro ⟨e, he, hx⟩
    cases e with
    | up c1 cb => simp [callerSees] at hx
    | low e =>
        cases e <;> simp [callerSees] at hx
        case resp c1 o1 =>
          obtain ⟨hc, ho⟩ := hx
          subst hc
          exact ⟨o1, he, ho⟩
  · rintro ⟨o, ho, rfl⟩
    exact ⟨_, ho, by simp [callerSees]⟩

/-- … and a `view` line is one of the looks `postRun` takes at a delivered result. -/
theorem mem_callerLog_view {posts : List (Nat × List PostStep)} {l : List SEv} {c : Nat} {v : View} :
    CEv.view c v ∈ callerLog posts l ↔ ∃ o, SEv.low (.resp c o) ∈ l ∧ v ∈ (postRun (stepsOf posts c) o).1 := by
  rw [mem_callerLog]
  constructor
  · rintro ⟨e, he, hx⟩
    cases e with
    | up c1 cb => simp [callerSees] at hx
    | low e =>
        cases e <;> simp [callerSees] at hx
        case resp c1 o1 =>
          obtain ⟨hv, hc⟩ := hx
          subst hc
          exact ⟨o1, he, hv⟩
  · rintro ⟨o, ho, hv⟩
    exact ⟨_, ho, by simp [callerSees, hv]⟩

/-- every other event is logged as it is -/
theorem mem_callerLog_other {posts : List (Nat × List PostStep)} {l : List SEv} {e : SEv}
    (h1 : ∀ c o, e ≠ .low (.resp c o)) (h2 : ∀ c o, e ≠ .low (.result c o)) :
    CEv.ev e ∈ callerLog posts l ↔ e ∈ l := by
  rw [mem_callerLog]
  constructor
  · rintro ⟨e', he, hx⟩
    cases e' with
    | up c1 cb => simp [callerSees] at hx; subst hx; exact he
    | low e' =>
        cases e' <;> simp [callerSees] at hx <;> first | (subst hx; exact he) | skip
        case resp c1 o1 => exact absurd hx (by intro h; exact h1 c1 _ h)
        case result c1 o1 => exact absurd hx (by intro h; exact h2 c1 _ h)
  · intro he
    refine ⟨e, he, ?_⟩
    cases e with
    | up c1 cb => simp [callerSees]
    | low e' =>
        cases e' <;> simp [callerSees]
        case resp c1 o1 => exact absurd rfl (h1 c1 o1)
        case result c1 o1 => exact absurd rfl (h2 c1 o1)

/-! Equation lemmas of the new definitions are realised here, so that the property module declares
property theorems only. -/
section realise
theorem equations_realised_stack : True := by
  have := @Outcome.isInner.eq_1
  have := @Outcome.isFailed.eq_1
  have := @Outcome.payload.eq_1
  have := @Outcome.mapErr.eq_1
  have := @Outcome.cloneErr.eq_1
  have := @Outcome.asInner.eq_1
  have := @appErr.eq_1
  have := @postStep.eq_1
  have := @viewOf.eq_1
  have := @postRun.eq_1
  have := @postRun.eq_2
  have := @mapCount.eq_1
  have := @iter.eq_1
  have := @iter.eq_2
  have := @upperFinish.eq_1
  have := @upperReady.eq_1
  have := @stackResolve.eq_1
  have := @stackLog.eq_1
  have := @shortcut.eq_1
  have := @stepsOf.eq_1
  have := @callerSees.eq_1
  have := @callerLog.eq_1
  have := @isUpValueFn.eq_1
  have := @test.eq_1
  have := @maskPred.eq_1
  trivial
end realise

end TR.Fallback
