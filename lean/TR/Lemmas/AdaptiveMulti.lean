import TR.Model.AdaptiveMulti
import TR.Lemmas.Adaptive
/-!
# Several services of one layer: each keeps its own invariant, a step on one leaves the others alone
-/
namespace TR.Adaptive
open TR.Limit (Cfg Cells Wf InB CellsOk)

/-- the single-service invariant does not depend on the parts the services share, beyond the algorithm being in bounds -/
theorem inv_shared {cfg : Cfg} {s : State} (h : Inv cfg s) {a : Cells} (ha : CellsOk cfg a) (n k : Nat) :
    Inv cfg { s with alg := a, now := n, serial := k } :=
  { exact := h.exact, trace := h.trace, nodup := h.nodup, runKnown := h.runKnown, chkFresh := h.chkFresh,
    chkNodup := h.chkNodup, alg := ha, checks := h.checks, chkHad := h.chkHad, heldFree := h.heldFree,
    heldKnown := h.heldKnown, sched := h.sched, pollsOk := h.pollsOk, hrdy := h.hrdy }

theorem fresh_inv {cfg : Cfg} {m : Multi} (ha : CellsOk cfg m.alg) : Inv cfg (fresh m) :=
  { exact := rfl, trace := rfl, nodup := List.nodup_nil
    runKnown := by intro c hc; cases hc
    chkFresh := by intro c hc; cases hc
    chkNodup := List.nodup_nil
    alg := ha
    checks := by intro k hk; cases hk
    chkHad := by intro c hc; cases hc
    heldFree := by intro c hc; cases hc
    heldKnown := by intro c hc; cases hc
    sched := by intro c hc; cases hc
    pollsOk := by intro k hk; cases hk
    hrdy := by intro p hp; cases hp }

/-- the shared algorithm is in bounds and every service built so far satisfies the single-service invariant -/
structure MInv (cfg : Cfg) (m : Multi) : Prop where
  alg  : CellsOk cfg m.alg
  svcs : ∀ p ∈ m.svcs, Inv cfg p.2

theorem lookup_mem' {l : List (Nat × State)} {k : Nat} {s : State} (h : lookup l k = some s) : (k, s) ∈ l := by
  induction l with
  | nil => simp [lookup] at h
  | cons p tl ih =>
    obtain ⟨a, b⟩ := p
    simp only [lookup] at h
    split at h
    · next hk => cases h; subst hk; exact List.mem_cons_self
    · exact List.mem_cons_of_mem _ (ih h)

theorem view_inv {cfg : Cfg} {m : Multi} (h : MInv cfg m) (k : Nat) : Inv cfg (view m k) := by
  unfold view
  split
  · next s hs => exact inv_shared (h.svcs (k, s) (lookup_mem' hs)) h.alg _ _
  · exact fresh_inv h.alg

theorem put_inv {cfg : Cfg} {m : Multi} (h : MInv cfg m) (k : Nat) {s : State} (hs : Inv cfg s) : MInv cfg (put m k s) := by
  refine ⟨hs.alg, ?_⟩
  intro p hp
  simp only [put, setKey, List.mem_cons, List.mem_filter] at hp
  rcases hp with hp | hp
  · subst hp; exact hs
  · exact h.svcs p hp.1

theorem stepM_inv {cfg : Cfg} (w : Wf cfg) {m : Multi} (h : MInv cfg m) (k : Nat) (op : Op) : MInv cfg (stepM cfg m k op) :=
  put_inv h k (stepS_inv w (view_inv h k) op)

theorem initM_inv {cfg : Cfg} (h : cfg.min ≤ cfg.max) : MInv cfg (initM cfg) := by
  refine ⟨Limit.initCells_ok h, ?_⟩
  intro p hp
  simp only [initM, List.mem_singleton] at hp
  subst hp
  exact init_inv h

theorem runM_inv {cfg : Cfg} (w : Wf cfg) (ops : List (Nat × Op)) : MInv cfg (runM cfg ops) := by
  unfold runM
  suffices hg : ∀ (m : Multi), MInv cfg m → MInv cfg (ops.foldl (fun m p => stepM cfg m p.1 p.2) m) from hg _ (initM_inv w.le)
  induction ops with
  | nil => intro m h; exact h
  | cons p tl ih => intro m h; exact ih _ (stepM_inv w h p.1 p.2)

theorem lookup_setKey_ne (l : List (Nat × State)) (k j : Nat) (s : State) (h : j ≠ k) :
    lookup (setKey l k s) j = lookup l j := by
  have hkj : ¬ k = j := fun e => h e.symm
  simp only [setKey, lookup, hkj, if_false]
  induction l with
  | nil => rfl
  | cons p tl ih =>
    obtain ⟨a, b⟩ := p
    by_cases ha : a = k
    · subst ha
      simp [List.filter, lookup, hkj, ih]
    · have : ((a, b).1 != k) = true := by simp [ha]
      simp only [List.filter, this, lookup]
      split
      · rfl
      · exact ih

theorem lookup_setKey_eq (l : List (Nat × State)) (k : Nat) (s : State) : lookup (setKey l k s) k = some s := by
  simp [setKey, lookup]

end TR.Adaptive
