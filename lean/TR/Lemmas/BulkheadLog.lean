import TR.Lemmas.Bulkhead2
/-!
# Bulkhead: the event log is a well-formed call/end trace; the calls in flight read off the log ARE the model's
`running`; an inner call is started only by the poll that took a permit (C01, used by C07)

`Inv.peak` (Lemmas/Bulkhead) bounds `calls − ended` in every prefix of the log. That difference is the number of calls
in flight only if the log is a sensible trace: every `inner_done` / `inner_drop` of call `(c, k)` comes after ITS OWN
`inner_call c k`, at most once, and no caller / serial number is used for two inner calls. This file proves exactly
that (`WF`), for every prefix, and identifies the set of open calls computed from the log alone (`inflight`) with the
state component `running`.
-/
namespace TR.Bulkhead

/-! ## pure trace theory -/

/-- the effect of one event on the list of callers whose inner call is open -/
def flightStep (fl : List Nat) : Ev → List Nat
  | .innerCall c _ => fl ++ [c]
  | .innerDone c _ _ => fl.erase c
  | .innerDrop c _ => fl.erase c
  | _ => fl

/-- the callers inside the inner service according to the log alone (in the order they entered) -/
def inflight (l : List Ev) : List Nat := l.foldl flightStep []

@[simp] theorem inflight_nil : inflight [] = [] := rfl

theorem inflight_snoc (l : List Ev) (e : Ev) : inflight (l ++ [e]) = flightStep (inflight l) e := by
  simp [inflight, List.foldl_append]

/-- what an event must satisfy with respect to the events BEFORE it:
* `inner_call c k`: caller `c` has not made an inner call before and serial `k` has not been used before;
* `inner_done c k _` / `inner_drop c k`: `c`'s call is open at that point and it is the call numbered `k`. -/
def EvOK (l : List Ev) : Ev → Prop
  | .innerCall c k => (∀ k', Ev.innerCall c k' ∉ l) ∧ (∀ c', Ev.innerCall c' k ∉ l)
  | .innerDone c k _ => c ∈ inflight l ∧ Ev.innerCall c k ∈ l
  | .innerDrop c k => c ∈ inflight l ∧ Ev.innerCall c k ∈ l
  | _ => True

/-- a well-formed trace: every event is `EvOK` with respect to the events before it -/
inductive WF : List Ev → Prop
  | nil : WF []
  | snoc {l : List Ev} {e : Ev} : WF l → EvOK l e → WF (l ++ [e])

def isCallOf (c : Nat) : Ev → Bool
  | .innerCall c' _ => c' == c
  | _ => false

def isEndOf (c : Nat) : Ev → Bool
  | .innerDone c' _ _ => c' == c
  | .innerDrop c' _ => c' == c
  | _ => false

/-- number of inner calls started for / ended for caller `c` in a trace -/
def callsOf (l : List Ev) (c : Nat) : Nat := l.countP (isCallOf c)
def endsOf (l : List Ev) (c : Nat) : Nat := l.countP (isEndOf c)

theorem callsOf_snoc (l : List Ev) (e : Ev) (c : Nat) :
    callsOf (l ++ [e]) c = callsOf l c + (if isCallOf c e then 1 else 0) := by
  simp [callsOf, List.countP_append, List.countP_cons]

theorem endsOf_snoc (l : List Ev) (e : Ev) (c : Nat) :
    endsOf (l ++ [e]) c = endsOf l c + (if isEndOf c e then 1 else 0) := by
  simp [endsOf, List.countP_append, List.countP_cons]

theorem callsOf_zero_of_noCall {l : List Ev} {c : Nat} (h : ∀ k, Ev.innerCall c k ∉ l) : callsOf l c = 0 := by
  unfold callsOf
  rw [List.countP_eq_zero]
  intro e he
  cases e <;> simp [isCallOf]
  rename_i c' k
  intro hc; subst hc; exact h k he

theorem WF.snoc_inv {l : List Ev} {e : Ev} (h : WF (l ++ [e])) : WF l ∧ EvOK l e := by
  generalize hm : l ++ [e] = m at h
  cases h with
  | nil => simp at hm
  | snoc h0 he =>
    rename_i l0 e0
    have := List.append_inj' hm (by simp)
    obtain ⟨h1, h2⟩ := this
    simp at h2
    subst h1; subst h2
    exact ⟨h0, he⟩

/-- well-formedness is closed under taking prefixes -/
theorem WF.take {l : List Ev} (h : WF l) (n : Nat) : WF (l.take n) := by
  induction h with
  | nil => simpa using WF.nil
  | snoc h0 he ih =>
    rename_i l e
    by_cases hn : n ≤ l.length
    · rw [List.take_append_of_le_length hn]; exact ih
    · rw [List.take_of_length_le (by simp; omega)]; exact WF.snoc h0 he

/-- **every event of a well-formed trace is `EvOK` with respect to what precedes it** -/
theorem WF.at {p rest : List Ev} {e : Ev} (h : WF (p ++ e :: rest)) : EvOK p e := by
  have h1 := h.take (p.length + 1)
  have : (p ++ e :: rest).take (p.length + 1) = p ++ [e] := by
    rw [List.take_append, List.take_of_length_le (Nat.le_succ _)]; simp
  rw [this] at h1
  exact h1.snoc_inv.2

/-- per caller: calls = ends + (1 if open), and at most one call ever -/
theorem WF.account {l : List Ev} (h : WF l) (c : Nat) :
    callsOf l c = endsOf l c + (inflight l).count c ∧ callsOf l c ≤ 1 := by
  induction h with
  | nil => simp [callsOf, endsOf]
  | snoc h0 he ih =>
    rename_i l e
    obtain ⟨i1, i2⟩ := ih
    rw [callsOf_snoc, endsOf_snoc, inflight_snoc]
    cases e with
    | innerCall c' k =>
      simp only [isCallOf, isEndOf, flightStep, count_snoc]
      by_cases hc : c' = c
      · subst hc
        have hz := callsOf_zero_of_noCall he.1
        simp; omega
      · have : ¬ (c' == c) = true := by simpa using hc
        simp [hc]; omega
    | innerDone c' k o =>
      simp only [isCallOf, isEndOf, flightStep]
      by_cases hc : c' = c
      · subst hc
        have hm : (inflight l).count c' ≥ 1 := List.count_pos_iff.mpr he.1
        rw [count_erase_self']; simp; omega
      · have : ¬ (c' == c) = true := by simpa using hc
        rw [count_erase_ne _ _ _ (Ne.symm hc)]; simp [hc]; omega
    | innerDrop c' k =>
      simp only [isCallOf, isEndOf, flightStep]
      by_cases hc : c' = c
      · subst hc
        have hm : (inflight l).count c' ≥ 1 := List.count_pos_iff.mpr he.1
        rw [count_erase_self']; simp; omega
      · have : ¬ (c' == c) = true := by simpa using hc
        rw [count_erase_ne _ _ _ (Ne.symm hc)]; simp [hc]; omega
    | innerCallX _ _ _ _ => simp [isCallOf, isEndOf, flightStep]; omega
    | result _ _ => simp [isCallOf, isEndOf, flightStep]; omega
    | probe _ => simp [isCallOf, isEndOf, flightStep]; omega
    | raw _ => simp [isCallOf, isEndOf, flightStep]; omega

/-- nobody is inside twice -/
theorem WF.nodup {l : List Ev} (h : WF l) : (inflight l).Nodup := by
  rw [List.nodup_iff_count]
  intro c
  have := h.account c
  omega

/-- **the count is the set**: in a well-formed trace, calls − ends is the number of open calls -/
theorem WF.total {l : List Ev} (h : WF l) : calls l = ended l + (inflight l).length := by
  induction h with
  | nil => simp
  | snoc h0 he ih =>
    rename_i l e
    rw [calls_append, ended_append, inflight_snoc]
    cases e with
    | innerCall c' k => simp [calls, ended, isCall, isEnd, flightStep] at *; omega
    | innerDone c' k o =>
      have := List.length_erase_of_mem he.1
      have hp := List.length_pos_of_mem he.1
      simp [calls, ended, isCall, isEnd, flightStep] at *; omega
    | innerDrop c' k =>
      have := List.length_erase_of_mem he.1
      have hp := List.length_pos_of_mem he.1
      simp [calls, ended, isCall, isEnd, flightStep] at *; omega
    | innerCallX _ _ _ _ => simp [calls, ended, isCall, isEnd, flightStep] at *; omega
    | result _ _ => simp [calls, ended, isCall, isEnd, flightStep] at *; omega
    | probe _ => simp [calls, ended, isCall, isEnd, flightStep] at *; omega
    | raw _ => simp [calls, ended, isCall, isEnd, flightStep] at *; omega

/-- somebody open has made a call -/
theorem WF.open_has_call {l : List Ev} (h : WF l) {c : Nat} (hc : c ∈ inflight l) : callsOf l c = 1 := by
  have := h.account c
  have : (inflight l).count c ≥ 1 := List.count_pos_iff.mpr hc
  omega

end TR.Bulkhead

namespace TR.Bulkhead

/-! ## the model's log is such a trace, and `inflight log = running` -/

/-- the bridge between the ghost/state side and the event log -/
structure LogInv (s : State) : Prop where
  wf  : WF s.log
  fl  : inflight s.log = s.running
  ser : ∀ c k, Ev.innerCall c k ∈ s.log → k < s.serial
  kof : ∀ c, c ∈ s.running → ∃ k, lookup s.kOf c = some k ∧ Ev.innerCall c k ∈ s.log

/-- anything that touches neither the log, nor `running`, nor `kOf`, and does not lower the serial -/
theorem logInv_frame {s s' : State} (h : LogInv s) (hl : s'.log = s.log) (hr : s'.running = s.running)
    (hk : s'.kOf = s.kOf) (hs : s.serial ≤ s'.serial) : LogInv s' := by
  refine ⟨by rw [hl]; exact h.wf, by rw [hl, hr]; exact h.fl, ?_, ?_⟩
  · intro c k hm; rw [hl] at hm; have := h.ser c k hm; omega
  · intro c hc; rw [hr] at hc; rw [hk, hl]; exact h.kof c hc

theorem logInv_release {s : State} (h : LogInv s) : LogInv (release s) := by
  refine logInv_frame h (release_log s) ?_ ?_ ?_ <;> (unfold release; split <;> first | rfl | exact Nat.le_refl _)

/-- appending a `result` line -/
theorem logInv_result {s : State} (h : LogInv s) (c : Nat) (r : Res) : LogInv (emit s [.result c r]) := by
  refine ⟨WF.snoc h.wf trivial, ?_, ?_, ?_⟩
  · show inflight (s.log ++ [_]) = s.running
    rw [inflight_snoc]; exact h.fl
  · intro c' k hm
    have hm' : Ev.innerCall c' k ∈ s.log ++ [Ev.result c r] := hm
    rcases List.mem_append.mp hm' with hh | hh
    · exact h.ser c' k hh
    · simp at hh
  · intro c' hc
    obtain ⟨k, h1, h2⟩ := h.kof c' hc
    exact ⟨k, h1, List.mem_append_left _ h2⟩

theorem logInv_startInner {s : State} (h : LogInv s) (c : Nat) (hn : NoCall s c) : LogInv (startInner s c) := by
  have hok : EvOK s.log (.innerCall c s.serial) :=
    ⟨hn, fun c' hm => by have := h.ser c' _ hm; omega⟩
  refine ⟨WF.snoc h.wf hok, ?_, ?_, ?_⟩
  · show inflight (s.log ++ [_]) = s.running ++ [c]
    rw [inflight_snoc, h.fl]; rfl
  · intro c' k hm
    have hm' : Ev.innerCall c' k ∈ s.log ++ [Ev.innerCall c s.serial] := hm
    show k < s.serial + 1
    rcases List.mem_append.mp hm' with hh | hh
    · have := h.ser c' k hh; omega
    · simp at hh; omega
  · intro c' hc
    have hc' : c' ∈ s.running ++ [c] := hc
    show ∃ k, lookup ((c, s.serial) :: s.kOf) c' = some k ∧ Ev.innerCall c' k ∈ s.log ++ [Ev.innerCall c s.serial]
    by_cases hcc : c = c'
    · subst hcc
      exact ⟨s.serial, by simp [lookup], by simp⟩
    · have : c' ∈ s.running := by
        rcases List.mem_append.mp hc' with hh | hh
        · exact hh
        · simp at hh; exact absurd hh.symm hcc
      obtain ⟨k, h1, h2⟩ := h.kof c' this
      exact ⟨k, by simp [lookup, hcc, h1], List.mem_append_left _ h2⟩

/-- the running caller `c` leaves with one end event for ITS call `(c, k)`, possibly followed by result lines -/
theorem logInv_finish {s : State} (h : LogInv s) (c k : Nat) (hr : c ∈ s.running) (hk : lookup s.kOf c = some k)
    (e : Ev) (he : e = .innerDrop c k ∨ ∃ o, e = .innerDone c k o) (rs : List Ev) (hrs : ∀ x ∈ rs, ∃ r, x = Ev.result c r) :
    LogInv (finishRunning s c (e :: rs)) := by
  obtain ⟨k', hk', hcall⟩ := h.kof c hr
  have hkk : k' = k := by rw [hk] at hk'; cases hk'; rfl
  subst hkk
  have hin : c ∈ inflight s.log := by rw [h.fl]; exact hr
  have hok : EvOK s.log e := by
    rcases he with he | ⟨o, he⟩ <;> (subst he; exact ⟨hin, hcall⟩)
  have hfl : flightStep (inflight s.log) e = s.running.erase c := by
    rcases he with he | ⟨o, he⟩ <;> (subst he; simp only [flightStep]; rw [h.fl])
  have hnc : ∀ c' k', Ev.innerCall c' k' ≠ e := by
    intro c' k' hh; rcases he with he | ⟨o, he⟩ <;> (rw [he] at hh; cases hh)
  -- first the end event …
  have base : LogInv { s with running := s.running.erase c, log := s.log ++ [e] } := by
    refine ⟨WF.snoc h.wf hok, ?_, ?_, ?_⟩
    · show inflight (s.log ++ [e]) = s.running.erase c
      rw [inflight_snoc]; exact hfl
    · intro c' k' hm
      have hm' : Ev.innerCall c' k' ∈ s.log ++ [e] := hm
      rcases List.mem_append.mp hm' with hh | hh
      · exact h.ser c' k' hh
      · simp at hh; exact absurd hh (hnc c' k')
    · intro c' hc
      have : c' ∈ s.running := List.mem_of_mem_erase hc
      obtain ⟨k2, h1, h2⟩ := h.kof c' this
      exact ⟨k2, h1, List.mem_append_left _ h2⟩
  -- … then the result lines, then the permit goes back
  have step : ∀ (rs : List Ev) (t : State), LogInv t → (∀ x ∈ rs, ∃ r, x = Ev.result c r) →
      LogInv { t with log := t.log ++ rs } := by
    intro rs
    induction rs with
    | nil => intro t ht _; simpa using ht
    | cons x xs ih =>
      intro t ht hx
      obtain ⟨r, hr⟩ := hx x (by simp)
      subst hr
      have := ih (emit t [.result c r]) (logInv_result ht c r) (fun y hy => hx y (by simp [hy]))
      simpa [emit, List.append_assoc] using this
  have h2 := step rs _ base hrs
  have h3 := logInv_release h2
  have : finishRunning s c (e :: rs) = release { s with running := s.running.erase c, log := s.log ++ [e] ++ rs } := by
    simp only [finishRunning, emit]
    unfold release
    simp only [List.append_assoc, List.singleton_append]
    split <;> rfl
  rw [this]; exact h3

theorem outcomeEvents_shape (c k : Nat) (o : Out) (h : o ≠ .never) :
    ∃ e rs, outcomeEvents c k o = e :: rs ∧ (e = .innerDrop c k ∨ ∃ o', e = .innerDone c k o') ∧
      ∀ x ∈ rs, ∃ r, x = Ev.result c r := by
  cases o with
  | ok => exact ⟨_, _, rfl, Or.inr ⟨_, rfl⟩, by simp⟩
  | err kd => exact ⟨_, _, rfl, Or.inr ⟨_, rfl⟩, by simp⟩
  | panic => exact ⟨_, _, rfl, Or.inr ⟨_, rfl⟩, by simp⟩
  | never => exact absurd rfl h

theorem logInv_pollRunning {s : State} (h : LogInv s) (c : Nat) (hr : c ∈ s.running) : LogInv (pollRunning s c) := by
  unfold pollRunning
  split
  · rename_i t sc k _ _ hk
    split
    · rename_i hcond
      obtain ⟨e, rs, heq, he, hrs⟩ := outcomeEvents_shape c k sc.out hcond.2
      rw [heq]
      exact logInv_finish h c k hr hk e he rs hrs
    · exact h
  · exact h

theorem logInv_dropRunning {s : State} (h : LogInv s) (c : Nat) (hr : c ∈ s.running) : LogInv (dropRunning s c) := by
  obtain ⟨k, hk, _⟩ := h.kof c hr
  unfold dropRunning
  rw [hk]
  exact logInv_finish h c k hr hk _ (Or.inl rfl) [] (by simp)

theorem logInv_admitCall {s : State} (h : LogInv s) (c : Nat) (hn : NoCall s c) : LogInv (admitCall s c) := by
  unfold admitCall
  exact logInv_pollRunning (logInv_startInner h c hn) c (by simp [startInner, emit])

end TR.Bulkhead

namespace TR.Bulkhead

theorem mem_of_contains {l : List Nat} {c : Nat} (h : l.contains c = true) : c ∈ l := by simpa using h

theorem stepS_logInv (cfg : Cfg) (s : State) (op : Op) (h2 : Inv2 s) (h : LogInv s) : LogInv (stepS cfg s op) := by
  cases op with
  | adv ms => exact logInv_frame h rfl rfl rfl (Nat.le_refl _)
  | tick n => exact logInv_frame h rfl rfl rfl (Nat.le_add_right _ _)
  | arrive c sc =>
    simp only [stepS]; split
    · exact h
    · exact logInv_frame h rfl rfl rfl (Nat.le_refl _)
  | refuse c kind =>
    simp only [stepS]; split
    · exact h
    · have hb : LogInv { s with script := (c, { lat := 0, out := .ok }) :: s.script } :=
        logInv_frame h rfl rfl rfl (Nat.le_refl _)
      exact logInv_result hb c _
  | poll c =>
    simp only [stepS]
    split
    · rename_i hfr
      have hw := h2.waiting c (by have := (mem_iff_count _ _).mp hfr; omega)
      unfold pollFresh
      simp only
      split
      · exact logInv_admitCall (s := { s with fresh := s.fresh.erase c, firstPoll := (c, s.now) :: s.firstPoll, free := s.free - 1 })
          (logInv_frame h rfl rfl rfl (Nat.le_refl _)) c hw.1
      · split
        · exact logInv_result (s := { s with fresh := s.fresh.erase c, firstPoll := (c, s.now) :: s.firstPoll })
            (logInv_frame h rfl rfl rfl (Nat.le_refl _)) c _
        · exact logInv_frame h rfl rfl rfl (Nat.le_refl _)
        · exact logInv_frame h rfl rfl rfl (Nat.le_refl _)
    · split
      · rename_i has
        have hw := h2.waiting c (by have := (mem_iff_count _ _).mp has; omega)
        unfold pollAssigned
        exact logInv_admitCall (s := { s with assigned := s.assigned.erase c })
          (logInv_frame h rfl rfl rfl (Nat.le_refl _)) c hw.1
      · split
        · unfold pollQueued
          split
          · split
            · exact logInv_result (s := { s with queue := s.queue.erase c })
                (logInv_frame h rfl rfl rfl (Nat.le_refl _)) c _
            · exact h
          · exact h
        · split
          · rename_i hru; exact logInv_pollRunning h c (mem_of_contains hru)
          · exact h
  | drop c =>
    simp only [stepS]
    split
    · exact logInv_frame h rfl rfl rfl (Nat.le_refl _)
    · split
      · exact logInv_frame h rfl rfl rfl (Nat.le_refl _)
      · split
        · exact logInv_release (s := { s with assigned := s.assigned.erase c })
            (logInv_frame h rfl rfl rfl (Nat.le_refl _))
        · split
          · rename_i hru; exact logInv_dropRunning h c (mem_of_contains hru)
          · exact h

theorem init_logInv (cfg : Cfg) : LogInv (init cfg) :=
  ⟨WF.nil, rfl, by intro c k hm; simp [init] at hm, by intro c hc; simp [init] at hc⟩

/-- every reachable state: the log is a well-formed trace whose open calls are exactly `running` -/
theorem logInv_reachable (cfg : Cfg) (ops : List Op) : LogInv (run cfg ops) := by
  unfold run
  suffices ∀ s, Inv2 s → LogInv s → LogInv (ops.foldl (stepS cfg) s) from this _ (init_inv2 cfg) (init_logInv cfg)
  induction ops with
  | nil => intro s _ h; exact h
  | cons o os ih => intro s h2 h; exact ih _ (stepS_inv2 cfg s o h2) (stepS_logInv cfg s o h2 h)

end TR.Bulkhead

namespace TR.Bulkhead

/-! ## which step starts an inner call -/

theorem outcome_nocall (c k : Nat) (o : Out) : ∀ e ∈ outcomeEvents c k o, isCall e = false := by
  cases o <;> simp [outcomeEvents, isCall]

theorem pollRunning_events (s : State) (c : Nat) :
    ∃ evs, (pollRunning s c).log = s.log ++ evs ∧ ∀ e ∈ evs, isCall e = false := by
  unfold pollRunning
  split
  · split
    · rename_i t sc k _ _ _ _
      exact ⟨outcomeEvents c k sc.out, by simp [finishRunning, emit, release_log], outcome_nocall _ _ _⟩
    · exact ⟨[], by simp, by simp⟩
  · exact ⟨[], by simp, by simp⟩

theorem admitCall_events (s : State) (c : Nat) :
    ∃ rest, (admitCall s c).log = s.log ++ Ev.innerCall c s.serial :: rest ∧ ∀ e ∈ rest, isCall e = false := by
  unfold admitCall
  obtain ⟨evs, h, hn⟩ := pollRunning_events (startInner s c) c
  exact ⟨evs, by rw [h]; simp [startInner, emit], hn⟩

/-- the log only grows -/
theorem stepS_log_append (cfg : Cfg) (s : State) (op : Op) : ∃ evs, (stepS cfg s op).log = s.log ++ evs := by
  cases op with
  | adv ms => exact ⟨[], by simp [stepS]⟩
  | tick n => exact ⟨[], by simp [stepS]⟩
  | arrive c sc => simp only [stepS]; split <;> exact ⟨[], by simp⟩
  | refuse c kind =>
    simp only [stepS]; split
    · exact ⟨[], by simp⟩
    · obtain ⟨r, _, _, _, _, _, f5, _⟩ := refuseCall_fields s c kind
      exact ⟨_, f5⟩
  | poll c => obtain ⟨evs, h, _⟩ := (poll_trans cfg s c).log; exact ⟨evs, h⟩
  | drop c => obtain ⟨evs, h, _⟩ := (drop_trans cfg s c).log; exact ⟨evs, h⟩

theorem mem_new_iff {l l' evs : List Ev} (h : l' = l ++ evs) (e : Ev) : e ∈ l'.drop l.length ↔ e ∈ evs := by
  subst h; simp

/-- **An inner call is made only by the poll that took a permit for it.** If a step appends `inner_call c k` to the
log, the step is `poll c`, `k` is the current serial, and the step is: take a permit for `c` (state `s1`: either `c`
was polled for the first time and one FREE permit is taken from the pool, or `c` had been handed a permit by a
release and now uses it — in both cases free + handed-over drops by one, nothing else moves), start the inner call
(`startInner`: `c` enters `running`), poll it once. No other operation — arrival, refused arrival, cancellation,
time, a poll of a queued or running caller — starts an inner call. -/
theorem inner_call_step (cfg : Cfg) (s : State) (op : Op) (c k : Nat)
    (h : Ev.innerCall c k ∈ (stepS cfg s op).log.drop s.log.length) :
    op = .poll c ∧ k = s.serial ∧
    ∃ s1 : State, s1.running = s.running ∧ s1.queue = s.queue ∧ s1.log = s.log ∧ s1.serial = s.serial ∧
      ((s.fresh.contains c = true ∧ s.free > 0 ∧ s1.free + 1 = s.free ∧ s1.assigned = s.assigned) ∨
       (s.fresh.contains c = false ∧ s.assigned.contains c = true ∧ s1.free = s.free ∧
          s1.assigned = s.assigned.erase c)) ∧
      stepS cfg s op = pollRunning (startInner s1 c) c := by
  cases op with
  | adv ms => simp [stepS] at h
  | tick n => simp [stepS] at h
  | arrive x sc => simp only [stepS] at h; split at h <;> simp at h
  | refuse x kind =>
    simp only [stepS] at h
    split at h
    · simp at h
    · obtain ⟨r, _, _, _, _, _, f5, _⟩ := refuseCall_fields s x kind
      have := (mem_new_iff f5 _).mp h
      simp at this
  | drop x =>
    simp only [stepS] at h
    split at h
    · simp at h
    · split at h
      · simp at h
      · split at h
        · rw [release_log] at h; simp at h
        · split at h
          · have hl : (dropRunning s x).log = s.log ++ [Ev.innerDrop x ((lookup s.kOf x).getD 0)] := by
              simp [dropRunning, finishRunning, emit, release_log]
            have := (mem_new_iff hl _).mp h
            simp at this
          · simp at h
  | poll x =>
    simp only [stepS] at h
    split at h
    · rename_i hfr
      unfold pollFresh at h
      simp only at h
      split at h
      · rename_i hfree
        obtain ⟨rest, hl, hn⟩ := admitCall_events
          { s with fresh := s.fresh.erase x, firstPoll := (x, s.now) :: s.firstPoll, free := s.free - 1 } x
        have hm := (mem_new_iff (l := s.log) hl _).mp h
        have hck : c = x ∧ k = s.serial := by
          rcases List.mem_cons.mp hm with hh | hh
          · cases hh; exact ⟨rfl, rfl⟩
          · have := hn _ hh; simp [isCall] at this
        obtain ⟨rfl, rfl⟩ := hck
        refine ⟨rfl, rfl, { s with fresh := s.fresh.erase c, firstPoll := (c, s.now) :: s.firstPoll, free := s.free - 1 },
          rfl, rfl, rfl, rfl, Or.inl ⟨hfr, hfree, ?_, rfl⟩, ?_⟩
        · show s.free - 1 + 1 = s.free
          omega
        · simp only [stepS, hfr, if_true, pollFresh, hfree]; rfl
      · split at h
        · simp [emit] at h
        · simp at h
        · simp at h
    · rename_i hfr
      have hfr' : s.fresh.contains x = false := by simpa using hfr
      split at h
      · rename_i has
        unfold pollAssigned at h
        obtain ⟨rest, hl, hn⟩ := admitCall_events { s with assigned := s.assigned.erase x } x
        have hm := (mem_new_iff (l := s.log) hl _).mp h
        have hck : c = x ∧ k = s.serial := by
          rcases List.mem_cons.mp hm with hh | hh
          · cases hh; exact ⟨rfl, rfl⟩
          · have := hn _ hh; simp [isCall] at this
        obtain ⟨rfl, rfl⟩ := hck
        refine ⟨rfl, rfl, { s with assigned := s.assigned.erase c }, rfl, rfl, rfl, rfl,
          Or.inr ⟨hfr', has, rfl, rfl⟩, ?_⟩
        simp only [stepS, hfr', has, Bool.false_eq_true, if_false, if_true, pollAssigned]; rfl
      · split at h
        · unfold pollQueued at h
          split at h
          · split at h
            · simp [emit] at h
            · simp at h
          · simp at h
        · split at h
          · obtain ⟨evs, hl, hn⟩ := pollRunning_events s x
            have hm := (mem_new_iff hl _).mp h
            have := hn _ hm; simp [isCall] at this
          · simp at h

/-- every event of a reachable log was appended by one particular step of the history -/
theorem mem_log_origin (cfg : Cfg) (ops : List Op) (e : Ev) (h : e ∈ (run cfg ops).log) :
    ∃ pre op post, ops = pre ++ op :: post ∧
      e ∈ (stepS cfg (run cfg pre) op).log.drop (run cfg pre).log.length := by
  unfold run at h ⊢
  suffices ∀ s, e ∈ (ops.foldl (stepS cfg) s).log → e ∈ s.log ∨
      ∃ pre op post, ops = pre ++ op :: post ∧
        e ∈ (stepS cfg (pre.foldl (stepS cfg) s) op).log.drop (pre.foldl (stepS cfg) s).log.length by
    rcases this _ h with hh | hh
    · simp [init] at hh
    · exact hh
  clear h
  induction ops with
  | nil => intro s h; exact Or.inl h
  | cons o os ih =>
    intro s h
    rcases ih (stepS cfg s o) h with hh | ⟨pre, op, post, heq, hm⟩
    · obtain ⟨evs, hl⟩ := stepS_log_append cfg s o
      rw [hl] at hh
      rcases List.mem_append.mp hh with h1 | h1
      · exact Or.inl h1
      · exact Or.inr ⟨[], o, os, rfl, (mem_new_iff hl e).mpr h1⟩
    · exact Or.inr ⟨o :: pre, op, post, by rw [heq]; rfl, hm⟩

end TR.Bulkhead
