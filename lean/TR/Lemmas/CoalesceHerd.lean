import TR.Lemmas.Coalesce
/-!
# Coalesce (C11): several requests for one key whose `call()`s overlap (`manual herd`)

One `Service::call` is one step of the model (look-up and registration are one critical section), so N
overlapping `call()`s are some sequence of N arrivals. Whatever the sequence: once the key is registered to a
leader `l`, every further arrival becomes a waiter of `l` and nothing else changes.
-/
namespace TR.Coalesce

/-- arrivals for a key that is registered to `l`: no event, no serial number, nobody resolved, the key stays
registered to `l`, every arriving caller is a waiter of `l`, every older binding is kept -/
theorem arrivals_join (key l : Nat) : ∀ (cs : List (Nat × Step)) (s : State),
    s.svcGone = false → reg s key = some l →
    (∀ p ∈ cs, lookup s.role p.1 = none) → (cs.map Prod.fst).Nodup →
    ((arrivals key cs).foldl stepS s).log = s.log ∧
    ((arrivals key cs).foldl stepS s).serial = s.serial ∧
    ((arrivals key cs).foldl stepS s).gone = s.gone ∧
    ((arrivals key cs).foldl stepS s).chan = s.chan ∧
    reg ((arrivals key cs).foldl stepS s) key = some l ∧
    (∀ p ∈ cs, lookup ((arrivals key cs).foldl stepS s).role p.1 = some (.waiter key l)) ∧
    (∀ x v, lookup s.role x = some v → lookup ((arrivals key cs).foldl stepS s).role x = some v) := by
  intro cs
  induction cs with
  | nil => intro s _ hr _ _; exact ⟨rfl, rfl, rfl, rfl, hr, by simp, fun _ _ h => h⟩
  | cons p cs ih =>
    intro s hs hr hf hnd
    have hp : lookup s.role p.1 = none := hf p (by simp)
    have e : stepS s (.arrive p.1 key p.2 false) = joinWaiter s p.1 key l := arrive_registered p.2 false hs hp hr
    have hnd' : p.1 ∉ cs.map Prod.fst ∧ (cs.map Prod.fst).Nodup := by simpa using hnd
    have hf' : ∀ q ∈ cs, lookup (joinWaiter s p.1 key l).role q.1 = none := by
      intro q hq
      have hne : p.1 ≠ q.1 := fun h => hnd'.1 (by rw [h]; exact List.mem_map_of_mem hq)
      show lookup ((p.1, _) :: s.role) q.1 = none
      rw [lookup_cons_ne _ _ hne]; exact hf q (by simp [hq])
    obtain ⟨h1, h2, h3, h4, h5, h6, h7⟩ := ih (joinWaiter s p.1 key l) hs hr hf' hnd'.2
    have hfold : (arrivals key (p :: cs)).foldl stepS s = (arrivals key cs).foldl stepS (joinWaiter s p.1 key l) := by
      show List.foldl stepS (stepS s (.arrive p.1 key p.2 false)) (arrivals key cs) = _
      rw [e]
    rw [hfold]
    refine ⟨h1, h2, h3, h4, h5, ?_, ?_⟩
    · intro q hq
      rcases List.mem_cons.mp hq with rfl | hq
      · exact h7 _ _ (lookup_cons_self ..)
      · exact h6 q hq
    · intro x v hx
      exact h7 x v (role_ext _ hp hx)

end TR.Coalesce
