import TR.Lemmas.RateLimiter
/-!
# Rate limiter: the configurations the invariant theorems exclude (`limit = 0`, `period = 0`)

`RateLimiterConfigBuilder` validates neither `limit_for_period` nor `refresh_period` (config.rs:106-116). The
property's quantifier starts at `limit_for_period ≥ 1`, so nothing here is a violation; the lemmas make visible what
the model (which follows the code) does on the boundary.
-/
namespace TR.RateLimiter

/-! ## `limit_for_period = 0`, fixed window and sliding counter: nobody is ever admitted -/

/-- an exhausted limiter that can never refill -/
def Dry (l : Lim) : Prop := l.avail = 0 ∧ l.prev = 0 ∧ l.cur = 0 ∧ l.grants = []

theorem room_dry (cfg : Cfg) (l : Lim) (now : Nat) (fx : Fx) (hL : cfg.limit = 0) (hk : cfg.kind ≠ .slog)
    (h : Dry l) : (room cfg l now fx).2 = false ∧ Dry (room cfg l now fx).1 := by
  obtain ⟨h1, h2, h3, h4⟩ := h
  unfold room
  cases hkind : cfg.kind with
  | slog => exact absurd hkind hk
  | fixed =>
    simp only [roomFixed]
    have ha : (fixedRoll cfg l now).avail = 0 ∧ (fixedRoll cfg l now).prev = 0 ∧ (fixedRoll cfg l now).cur = 0
        ∧ (fixedRoll cfg l now).grants = [] := by
      unfold fixedRoll; split <;> simp [openWin, hL, h1, h2, h3, h4]
    have hna : ¬ (fixedRoll cfg l now).avail > 0 := by omega
    simp only [hna, if_false]
    exact ⟨trivial, ha⟩
  | counter =>
    simp only [roomCounter]
    have ha : (counterRoll cfg l now fx.b1).avail = 0 ∧ (counterRoll cfg l now fx.b1).prev = 0 ∧ (counterRoll cfg l now fx.b1).cur = 0
        ∧ (counterRoll cfg l now fx.b1).grants = [] := by
      unfold counterRoll; simp only; split <;> simp [openWin, h1, h2, h3, h4]
    have hno : ¬ ((counterRoll cfg l now fx.b1).prev * (cfg.period - (now - (counterRoll cfg l now fx.b1).start))
        + (counterRoll cfg l now fx.b1).cur * cfg.period < cfg.limit * cfg.period ∨
        (onBoundary cfg (counterRoll cfg l now fx.b1) (now - (counterRoll cfg l now fx.b1).start) = true ∧ fx.adm = true)) := by
      rw [ha.2.1, ha.2.2.1, hL]
      simp [onBoundary, ha.2.1]
    simp only [hno, if_false]
    exact ⟨trivial, ha⟩

/-- … and its wait is never zero: the rest of the window / bucket is at least one tick after the roll -/
theorem noRoom_dry_nonzero (cfg : Cfg) (l : Lim) (now : Nat) (rej : Bool) (fx : Fx) (hk : cfg.kind ≠ .slog)
    (hP : 1 ≤ cfg.period) (ht : 1 ≤ cfg.tickNs) (hd : Dry l) (hin : now - l.start < cfg.period) :
    zeroWait (noRoomAns cfg l now rej fx) = false := by
  obtain ⟨h1, h2, h3, h4⟩ := hd
  unfold noRoomAns
  cases hkind : cfg.kind with
  | slog => exact absurd hkind hk
  | fixed =>
    simp only
    split
    · rfl
    · simp [zeroWait]; omega
  | counter =>
    simp only
    have hz : zeroOk cfg l now = false := by
      simp only [zeroOk, estFrac, h2, true_or, if_true, decide_eq_false_iff_not, Nat.not_lt]
      calc 1 = 1 * 1 := rfl
        _ ≤ (cfg.period - (now - l.start)) * cfg.tickNs := Nat.mul_le_mul (by omega) ht
    split
    · rw [hz]; rfl
    · split
      · split <;> rfl
      · split
        · simp [zeroWait]; omega
        · rfl

/-- after a `try_acquire` at `now` the current window / bucket contains `now` -/
theorem room_in_window (cfg : Cfg) (l : Lim) (now : Nat) (fx : Fx) (hk : cfg.kind ≠ .slog) (hP : 1 ≤ cfg.period) :
    now - (room cfg l now fx).1.start < cfg.period := by
  unfold room
  cases hkind : cfg.kind with
  | slog => exact absurd hkind hk
  | fixed =>
    simp only [roomFixed]
    have : now - (fixedRoll cfg l now).start < cfg.period := by
      unfold fixedRoll; split
      · simp [openWin]; omega
      · omega
    split <;> simpa [grant] using this
  | counter =>
    simp only [roomCounter]
    have : now - (counterRoll cfg l now fx.b1).start < cfg.period := by
      unfold counterRoll; simp only; split
      · simp [openWin]; omega
      · omega
    split <;> simpa [grant] using this

theorem pollRunning_keep (s : State) (c : Nat) :
    (pollRunning s c).admits = s.admits ∧ (pollRunning s c).lim = s.lim := by
  unfold pollRunning
  split
  · split <;> exact ⟨rfl, rfl⟩
  · exact ⟨rfl, rfl⟩

/-- With `limit_for_period = 0` (fixed window or sliding counter, period and tick at least 1) no call ever reaches
the wrapped service: every `try_acquire` finds no permit and a positive wait, so every caller is rejected at its
first poll, or sleeps and is rejected by its second `try_acquire`. -/
theorem limit_zero_admits_nobody (cfg : Cfg) (hL : cfg.limit = 0) (hk : cfg.kind ≠ .slog) (hP : 1 ≤ cfg.period)
    (ht : 1 ≤ cfg.tickNs) (ops : List Op) : (run cfg ops).admits = [] ∧ Dry (run cfg ops).lim := by
  suffices ∀ s : State, (s.admits = [] ∧ Dry s.lim) →
      ((ops.foldl (stepS cfg) s).admits = [] ∧ Dry (ops.foldl (stepS cfg) s).lim) from
    this _ ⟨rfl, by simp [init, initLim, Dry, hL]⟩
  induction ops with
  | nil => intro s h; exact h
  | cons o os ih =>
    intro s h
    apply ih
    obtain ⟨ha, hd⟩ := h
    cases o with
    | adv ms => exact ⟨ha, hd⟩
    | busy ms => exact ⟨ha, hd⟩
    | arrive c sc =>
      simp only [stepS]
      split
      · exact ⟨ha, hd⟩
      · split <;> exact ⟨ha, hd⟩
    | turnedAway c err =>
      simp only [stepS]
      split
      · exact ⟨ha, hd⟩
      · cases err <;> exact ⟨ha, hd⟩
    | drop c =>
      simp only [stepS]
      unfold dropCaller
      split <;> exact ⟨ha, hd⟩
    | poll c rej woke fx =>
      obtain ⟨hr, hd'⟩ := room_dry cfg s.lim s.now fx hL hk hd
      have hin := room_in_window cfg s.lim s.now fx hk hP
      simp only [stepS]
      split
      · unfold pollFresh
        simp only [hr, Bool.false_eq_true, if_false]
        have hz := noRoom_dry_nonzero cfg _ s.now rej fx hk hP ht hd' hin
        split
        · exact ⟨ha, hd'⟩
        · rename_i lo hi hans
          rw [hans] at hz
          split
          · rename_i hhi; simp [zeroWait, hhi] at hz
          · exact ⟨ha, hd'⟩
        · exact ⟨ha, hd'⟩
      · unfold pollSleeping
        split
        · exact ⟨ha, hd⟩
        · split
          · unfold secondTry
            simp only [hr, Bool.false_eq_true, if_false]
            rw [noRoom_dry_nonzero cfg _ s.now true fx hk hP ht hd' hin]
            simp only [Bool.false_eq_true, if_false]
            exact ⟨ha, hd'⟩
          · exact ⟨ha, hd⟩
      · exact ⟨(pollRunning_keep s c).1.trans ha, by rw [(pollRunning_keep s c).2]; exact hd⟩
      · exact ⟨ha, hd⟩

/-! ## `limit_for_period = 0`, sliding log: everybody is admitted, without a permit -/

/-- `len < 0` is false and `front()` is `None`: "should not happen if limit > 0" — `Ok(Duration::ZERO)` -/
theorem limit_zero_log_zero_wait (cfg : Cfg) (l : Lim) (now : Nat) (rej : Bool) (fx : Fx) (hL : cfg.limit = 0)
    (hk : cfg.kind = .slog) (hts : l.ts = []) :
    (room cfg l now fx).2 = false ∧ (room cfg l now fx).1.ts = [] ∧ (room cfg l now fx).1.grants = l.grants ∧
    noRoomAns cfg (room cfg l now fx).1 now rej fx = .wait 0 0 := by
  unfold room noRoomAns
  simp [hk, roomLog, hts, expire, hL]

/-- the first poll of any caller reaches the wrapped service although no permit exists or is taken -/
theorem limit_zero_log_admits (cfg : Cfg) (s : State) (c : Nat) (rej : Bool) (fx : Fx) (hL : cfg.limit = 0)
    (hk : cfg.kind = .slog) (hts : s.lim.ts = []) :
    (∃ rest, (pollFresh cfg s c rej fx).log = s.log ++ Ev.innerCall c s.serial :: rest) ∧
    (pollFresh cfg s c rej fx).lim.grants = s.lim.grants ∧ (pollFresh cfg s c rej fx).lim.ts = [] := by
  obtain ⟨h1, h2, h3, h4⟩ := limit_zero_log_zero_wait cfg s.lim s.now rej fx hL hk hts
  unfold pollFresh
  simp only [h1, Bool.false_eq_true, if_false, h4, if_true]
  obtain ⟨f1, _, f3, _⟩ := admitCall_frame { s with lim := (room cfg s.lim s.now fx).1 } c s.now
  exact ⟨f3, by rw [f1]; exact h3, by rw [f1]; exact h2⟩

/-! ## `refresh_period = 0`, fixed window and sliding log: every `try_acquire` takes a fresh permit -/

/-- `now − period_start ≥ 0` always holds: the window is refreshed by every `try_acquire`;
`now − timestamp ≥ 0` always holds: the log is emptied by every `try_acquire` -/
theorem period_zero_always_room (cfg : Cfg) (l : Lim) (now : Nat) (fx : Fx) (hP : cfg.period = 0)
    (hL : 1 ≤ cfg.limit) (hk : cfg.kind ≠ .counter) : (room cfg l now fx).2 = true := by
  unfold room
  cases hkind : cfg.kind with
  | counter => exact absurd hkind hk
  | fixed =>
    simp only [roomFixed]
    have : (fixedRoll cfg l now).avail > 0 := by unfold fixedRoll; simp [hP, openWin]; omega
    simp [this]
  | slog =>
    simp only [roomLog]
    have hex : ∀ ts : List Nat, expire cfg.period now ts = [] := by
      intro ts
      induction ts with
      | nil => rfl
      | cons t ts ih => unfold expire; rw [hP] at ih ⊢; simp [ih]
    have h0 : ([] : List Nat).length < cfg.limit := by simp; omega
    rw [hex]; simp only [h0, if_true]

end TR.RateLimiter
