import TR.Model.Reconnect
/-!
# Reconnect: per-request invariant (`Good`), its lifting to every reachable state, the
published-state invariant, and adequacy of the loop fuel (helper lemmas for C16)
-/
namespace TR.Reconnect

/-- `o` is an error the predicate classifies as a connection failure -/
def reconnErr (cfg : Cfg) (o : Out) : Prop := ∃ kd, o = .err kd ∧ cfg.reconn kd = true

/-- call `r` directly follows call `p` of the same request; `p` was that request's `n`-th call -/
structure Link (cfg : Cfg) (r p : CallRec) (n : Nat) : Prop where
  prevErr : reconnErr cfg p.step.out
  retry : cfg.retry = true
  slept : ∃ sl, r.pre = some sl ∧ sl.attempt = n ∧ cfg.policy.allowed n sl.delay = true
            ∧ p.t + p.step.lat ≤ sl.since ∧ sl.since + ceilMs sl.delay ≤ r.t

/-- the calls of one request, latest first -/
def Chain (cfg : Cfg) : List CallRec → Prop
  | [] => True
  | [r] => r.pre = none
  | r :: p :: tl => Link cfg r p (tl.length + 1) ∧ Chain cfg (p :: tl)

/-- what the request returns once its latest call `h` (the `n`-th) has finished; `none` = it goes on (to a back-off, a
readiness poll and another call — or, if the inner service then fails its readiness poll, to `readyErr`) -/
def expected (cfg : Cfg) (h : CallRec) (n : Nat) : Option RRes :=
  match h.step.out with
  | .ok => some (.ok h.k)
  | .panic => some .panic
  | .never => none
  | .err kd =>
      if cfg.reconn kd = false then some (.service kd h.k)
      else if exceeded cfg n = true then some (.maxAttempts n kd h.k)
      else if cfg.policy.has = false then some (.connFailed kd h.k)
      else if cfg.retry = false then some (.noRetry kd h.k)
      else none

/-- how a result `r` relates to the calls made (latest first): refused before any call; or what `expected` says of the
latest call; or — the latest call failed reconnectably, the request backed off, and the inner service then failed its
READINESS poll — `readyErr` (the error of the latest call is dropped) -/
def Final (cfg : Cfg) (calls : List CallRec) (r : RRes) : Prop :=
  (r = .notReady ∧ calls = []) ∨
  ∃ h tl, calls = h :: tl ∧
    (expected cfg h calls.length = some r ∨
     (r = .readyErr ∧ expected cfg h calls.length = none ∧ ∃ kd, h.step.out = .err kd ∧ cfg.reconn kd = true))

structure Good (cfg : Cfg) (st : Caller) : Prop where
  chain : Chain cfg st.calls
  bound : ∀ m, cfg.maxAttempts = some m → st.calls.length ≤ m + 1
  calling : ∀ k d o, st.phase = .calling k d o →
      st.calls.length = st.attempt + 1 ∧ st.pend = none ∧
      ∃ h tl, st.calls = h :: tl ∧ h.k = k ∧ d = h.t + h.step.lat ∧ o = h.step.out
  sleeping : ∀ wake, st.phase = .sleeping wake →
      st.calls.length = st.attempt ∧ exceeded cfg st.attempt = false ∧
      ∃ h tl kd sl, st.calls = h :: tl ∧ h.step.out = .err kd ∧ cfg.reconn kd = true ∧
        st.lastErr = some (kd, h.k) ∧ st.pend = some sl ∧ sl.attempt = st.attempt ∧
        cfg.policy.allowed st.attempt sl.delay = true ∧ h.t + h.step.lat ≤ sl.since ∧
        wake = sl.since + ceilMs sl.delay
  readying : ∀ wake, st.phase = .readying wake →
      cfg.retry = true ∧ st.calls.length = st.attempt ∧ exceeded cfg st.attempt = false ∧
      ∃ h tl kd sl, st.calls = h :: tl ∧ h.step.out = .err kd ∧ cfg.reconn kd = true ∧
        st.pend = some sl ∧ sl.attempt = st.attempt ∧
        cfg.policy.allowed st.attempt sl.delay = true ∧ h.t + h.step.lat ≤ sl.since ∧
        wake = sl.since + ceilMs sl.delay
  final : ∀ r, st.result = some r →
      st.phase = .done ∧ Final cfg st.calls r

/-! ## the policy answer -/

theorem nextDelay_delay {p : Policy} {a : Nat} {obs : List Nat} {d : Nat} {rest : List Nat}
    (h : nextDelay p a obs = .delay d rest) : p.allowed a d = true ∧ p.has = true := by
  cases p with
  | none => simp [nextDelay] at h
  | fixed n => simp [nextDelay] at h; simp [Policy.allowed, Policy.has, h.1]
  | exp i c => simp [nextDelay] at h; simp [Policy.allowed, Policy.has, h.1]
  | custom f => simp [nextDelay] at h; simp [Policy.allowed, Policy.has, h.1]
  | jitter i c pct =>
    unfold nextDelay at h
    cases obs with
    | nil => simp at h
    | cons x xs =>
      simp only at h
      split at h
      · rename_i hal
        simp at h
        rw [← h.1]; exact ⟨hal, rfl⟩
      · simp at h

theorem nextDelay_noPolicy {p : Policy} {a : Nat} {obs : List Nat}
    (h : nextDelay p a obs = .noPolicy) : p.has = false := by
  cases p with
  | none => rfl
  | fixed n => simp [nextDelay] at h
  | exp i c => simp [nextDelay] at h
  | custom f => simp [nextDelay] at h
  | jitter i c pct =>
    unfold nextDelay at h
    cases obs with
    | nil => simp at h
    | cons x xs => simp only at h; split at h <;> simp at h

/-! ## `Good` is preserved by every transition of the request's own future -/

theorem finish_good {cfg : Cfg} {c : Nat} {r : RRes} {st : Caller} {w : Shared}
    (hc : Chain cfg st.calls) (hb : ∀ m, cfg.maxAttempts = some m → st.calls.length ≤ m + 1)
    (hf : ∃ h tl, st.calls = h :: tl ∧ expected cfg h st.calls.length = some r) :
    Good cfg (finish c r st w).1 := by
  refine ⟨hc, hb, ?_, ?_, ?_, ?_⟩
  · intro k d o h; simp [finish] at h
  · intro wk h; simp [finish] at h
  · intro wk h; simp [finish] at h
  · intro r' h
    simp [finish] at h
    subst h
    obtain ⟨h, tl, h1, h2⟩ := hf
    exact ⟨rfl, Or.inr ⟨h, tl, h1, Or.inl h2⟩⟩

theorem result_none_of_live {cfg : Cfg} {st : Caller} (h : Good cfg st) (hp : st.phase ≠ .done) :
    st.result = none := by
  cases hr : st.result with
  | none => rfl
  | some r => exact absurd (h.final r hr).1 hp

/-- a (re)call: the new record is linked to the previous one -/
theorem startCall_good {cfg : Cfg} {c : Nat} {st : Caller} {w : Shared}
    (hc : Chain cfg ({ k := w.serial, t := w.now, step := st.plan.headD { lat := 0, out := .ok }, pre := st.pend } :: st.calls))
    (hb : ∀ m, cfg.maxAttempts = some m → st.calls.length + 1 ≤ m + 1)
    (hl : st.calls.length = st.attempt) (hr : st.result = none) :
    Good cfg (startCall c st w).1 := by
  refine ⟨hc, ?_, ?_, ?_, ?_, ?_⟩
  · intro m hm; simpa [startCall] using hb m hm
  · intro k d o h
    simp [startCall] at h
    refine ⟨by simp [startCall, hl], rfl, _, _, rfl, ?_⟩
    simp [h.1, h.2.1, h.2.2]
  · intro wk h; simp [startCall] at h
  · intro wk h; simp [startCall] at h
  · intro r h; simp [startCall, hr] at h

theorem onError_good {cfg : Cfg} {c : Nat} {st : Caller} {w : Shared} {kd k d : Nat}
    (hg : Good cfg st) (hp : st.phase = .calling k d (.err kd)) (hnow : d ≤ w.now) :
    Good cfg (onError cfg c st w kd k).1 := by
  obtain ⟨hlen, hpend, h, tl, hcalls, hk, hd, ho⟩ := hg.calling k d _ hp
  unfold onError
  split
  · rename_i hre
    apply finish_good hg.chain hg.bound
    exact ⟨h, tl, hcalls, by simp [expected, ← ho, hre, hk]⟩
  · rename_i hre
    have hre' : cfg.reconn kd = true := by simpa using hre
    simp only
    split
    · rename_i hex
      apply finish_good
      · exact hg.chain
      · exact hg.bound
      · refine ⟨h, tl, hcalls, ?_⟩
        simp only [expected, ← ho, hre', hlen]
        simp [hex, hk]
    · rename_i hex
      have hex' : exceeded cfg (st.attempt + 1) = false := by simpa using hex
      split
      · rename_i hnd
        have := nextDelay_noPolicy hnd
        apply finish_good
        · exact hg.chain
        · exact hg.bound
        · refine ⟨h, tl, hcalls, ?_⟩
          simp only [expected, ← ho, hre', hlen]
          simp [hex', this, hk]
      · refine ⟨hg.chain, hg.bound, ?_, ?_, ?_, ?_⟩
        · intro k' d' o' hh; simp at hh
        · intro wk hh; simp at hh
        · intro wk hh; simp at hh
        · intro r hh
          have := result_none_of_live hg (by rw [hp]; simp)
          simp [this] at hh
      · rename_i dl rest hnd
        obtain ⟨hal, _⟩ := nextDelay_delay hnd
        refine ⟨hg.chain, hg.bound, ?_, ?_, ?_, ?_⟩
        · intro k' d' o' hh; simp at hh
        · intro wk hh
          simp at hh
          refine ⟨by simpa using hlen, hex', h, tl, kd, _, hcalls, ho.symm, hre', by simp [hk], rfl, rfl, hal, ?_, ?_⟩
          · simp [mark]; omega
          · simp [mark, ← hh]
        · intro wk hh; simp at hh
        · intro r hh
          have := result_none_of_live hg (by rw [hp]; simp)
          simp [this] at hh

theorem transCalling_good {cfg : Cfg} {c : Nat} {st : Caller} {w : Shared} {k d : Nat} {o : Out} {p : Caller × Shared}
    (hg : Good cfg st) (hp : st.phase = .calling k d o)
    (ht : transCalling cfg c st w k d o = some p) : Good cfg p.1 := by
  obtain ⟨hlen, hpend, h, tl, hcalls, hk, hd, ho⟩ := hg.calling k d o hp
  unfold transCalling at ht
  split at ht
  · simp at ht
  · rename_i hnow
    split at ht
    · simp at ht
    · simp at ht
      subst ht
      apply finish_good hg.chain hg.bound
      exact ⟨h, tl, hcalls, by simp [expected, ← ho, hk]⟩
    · simp at ht
      subst ht
      apply finish_good hg.chain hg.bound
      exact ⟨h, tl, hcalls, by simp [expected, ← ho]⟩
    · rename_i kd
      simp at ht
      subst ht
      exact onError_good hg hp (by simp [emit]; omega)

theorem exceeded_false_le {cfg : Cfg} {a m : Nat} (h : exceeded cfg a = false)
    (hm : cfg.maxAttempts = some m) : a ≤ m := by
  simp [exceeded, hm] at h; exact h

theorem transSleeping_good {cfg : Cfg} {c : Nat} {st : Caller} {w : Shared} {wake : Nat} {p : Caller × Shared}
    (hg : Good cfg st) (hp : st.phase = .sleeping wake)
    (ht : transSleeping cfg c st w wake = some p) : Good cfg p.1 := by
  obtain ⟨hlen, hex, h, tl, kd, sl, hcalls, ho, hre, hle, hpend, hatt, hal, hsince, hwake⟩ := hg.sleeping wake hp
  unfold transSleeping at ht
  split at ht
  · simp at ht
  · rename_i hnow
    split at ht
    · rename_i hretry
      simp at ht
      subst ht
      refine ⟨hg.chain, hg.bound, ?_, ?_, ?_, ?_⟩
      · intro k' d' o' hh; simp at hh
      · intro wk hh; simp at hh
      · intro wk hh
        simp at hh
        exact ⟨hretry, hlen, hex, h, tl, kd, sl, hcalls, ho, hre, hpend, hatt, hal, hsince, hh ▸ hwake⟩
      · intro r hh
        have := result_none_of_live hg (by rw [hp]; simp)
        simp [this] at hh
    · rename_i hretry
      rw [hle] at ht
      simp at ht
      subst ht
      apply finish_good hg.chain hg.bound
      refine ⟨h, tl, hcalls, ?_⟩
      have hhas : cfg.policy.has = true := by
        cases hpol : cfg.policy with
        | none => rw [hpol] at hal; simp [Policy.allowed] at hal
        | _ => rfl
      simp only [expected, ho, hre, hlen]
      simp [hex, hhas, hretry]

theorem transReadying_good {cfg : Cfg} {c : Nat} {st : Caller} {w : Shared} {wake : Nat} {p : Caller × Shared}
    (hg : Good cfg st) (hp : st.phase = .readying wake)
    (ht : transReadying c st w wake = some p) : Good cfg p.1 := by
  obtain ⟨hretry, hlen, hex, h, tl, kd, sl, hcalls, ho, hre, hpend, hatt, hal, hsince, hwake⟩ := hg.readying wake hp
  have hhas : cfg.policy.has = true := by
    cases hpol : cfg.policy with
    | none => rw [hpol] at hal; simp [Policy.allowed] at hal
    | _ => rfl
  unfold transReadying at ht
  split at ht
  · simp at ht
  · rename_i hnow
    split at ht
    · simp at ht
    · simp at ht
      subst ht
      apply startCall_good
      · rw [hcalls]
        refine ⟨⟨⟨kd, ho, hre⟩, hretry, sl, by simp [hpend], ?_, ?_, hsince, ?_⟩, ?_⟩
        · rw [hatt, ← hlen, hcalls]; simp
        · have : tl.length + 1 = st.attempt := by rw [← hlen, hcalls]; simp
          rw [this]; exact hal
        · simp [popScript]; omega
        · rw [← hcalls]; exact hg.chain
      · intro m hm
        have := exceeded_false_le hex hm
        omega
      · exact hlen
      · exact result_none_of_live hg (by rw [hp]; simp)
    · simp at ht
      subst ht
      refine ⟨hg.chain, hg.bound, ?_, ?_, ?_, ?_⟩
      · intro k' d' o' hh; simp [finish] at hh
      · intro wk hh; simp [finish] at hh
      · intro wk hh; simp [finish] at hh
      · intro r hh
        simp [finish] at hh
        subst hh
        refine ⟨rfl, Or.inr ⟨h, tl, hcalls, Or.inr ⟨rfl, ?_, kd, ho, hre⟩⟩⟩
        show expected cfg h st.calls.length = none
        simp only [expected, ho, hre, hlen]
        simp [hex, hhas, hretry]

theorem trans_good {cfg : Cfg} {c : Nat} {st : Caller} {w : Shared} {p : Caller × Shared}
    (hg : Good cfg st) (ht : trans cfg c st w = some p) : Good cfg p.1 := by
  unfold trans at ht
  split at ht
  · rename_i k d o hp; exact transCalling_good hg hp ht
  · rename_i wk hp; exact transSleeping_good hg hp ht
  · rename_i wk hp; exact transReadying_good hg hp ht
  · simp at ht

theorem loop_good {cfg : Cfg} {c : Nat} (n : Nat) {st : Caller} {w : Shared}
    (hg : Good cfg st) : Good cfg (loop cfg c n st w).1 := by
  induction n generalizing st w with
  | zero => exact hg
  | succ n ih =>
    unfold loop
    split
    · exact hg
    · rename_i st' w' ht
      exact ih (trans_good hg ht)

theorem dropCaller_good {cfg : Cfg} {c : Nat} {st : Caller} {w : Shared}
    (hg : Good cfg st) : Good cfg (dropCaller c st w).1 := by
  have key : ∀ st' : Caller, st'.calls = st.calls → st'.phase = .done → st'.result = st.result →
      Good cfg st' := by
    intro st' h1 h2 h3
    refine ⟨h1 ▸ hg.chain, h1 ▸ hg.bound, ?_, ?_, ?_, ?_⟩
    · intro k d o h; rw [h2] at h; simp at h
    · intro wk h; rw [h2] at h; simp at h
    · intro wk h; rw [h2] at h; simp at h
    · intro r h; rw [h3] at h; rw [h1]; exact ⟨h2, (hg.final r h).2⟩
  unfold dropCaller
  split <;> exact key _ rfl rfl rfl

theorem refused_good {cfg : Cfg} {plan : List Step} : Good cfg (refused plan) := by
  refine ⟨by simp [refused, Chain], by intro m _; simp [refused], ?_, ?_, ?_, ?_⟩
  · intro k d o h; simp [refused] at h
  · intro wk h; simp [refused] at h
  · intro wk h; simp [refused] at h
  · intro r h
    simp [refused] at h
    subst h
    exact ⟨rfl, Or.inl ⟨rfl, rfl⟩⟩

theorem newCaller_good {cfg : Cfg} {c : Nat} {plan : List Step} {w : Shared} :
    Good cfg (startCall c (newCaller plan) w).1 := by
  apply startCall_good
  · simp [newCaller, Chain]
  · intro m _; simp [newCaller]
  · simp [newCaller]
  · simp [newCaller]

/-! ## lifting to all reachable states -/

def AllGood (cfg : Cfg) (s : State) : Prop := ∀ c st, lookup s.callers c = some st → Good cfg st

theorem lookup_cons {α : Type} (l : List (Nat × α)) (c c' : Nat) (v : α) :
    lookup ((c, v) :: l) c' = if c = c' then some v else lookup l c' := rfl

theorem stepS_allGood {cfg : Cfg} {s : State} (op : Op) (h : AllGood cfg s) :
    AllGood cfg (stepS cfg s op) := by
  cases op with
  | adv ms => exact h
  | incr => exact h
  | probe => exact h
  | inner sc r => exact h
  | arrive c plan =>
    simp only [stepS]
    split
    · exact h
    · intro c' st' hl
      split at hl <;>
      · rw [lookup_cons] at hl
        split at hl
        · simp at hl; rw [← hl]; first | exact newCaller_good | exact refused_good
        · exact h c' st' hl
  | poll c obs =>
    simp only [stepS]
    split
    · rename_i st hst
      intro c' st' hl
      rw [lookup_cons] at hl
      split at hl
      · simp at hl; rw [← hl]; exact loop_good _ (h c st hst)
      · exact h c' st' hl
    · exact h
  | drop c =>
    simp only [stepS]
    split
    · rename_i st hst
      intro c' st' hl
      rw [lookup_cons] at hl
      split at hl
      · simp at hl; rw [← hl]; exact dropCaller_good (h c st hst)
      · exact h c' st' hl
    · exact h

theorem foldl_allGood {cfg : Cfg} (ops : List Op) {s : State} (h : AllGood cfg s) :
    AllGood cfg (ops.foldl (stepS cfg) s) := by
  induction ops generalizing s with
  | nil => exact h
  | cons o os ih => exact ih (stepS_allGood o h)

/-- every request record of every reachable state satisfies `Good` -/
theorem good_reachable (cfg : Cfg) (ops : List Op) : AllGood cfg (run cfg ops) :=
  foldl_allGood ops (by intro c st h; simp [init, lookup] at h)

/-! ## consequences of `Chain` -/

theorem chain_tail_errors {cfg : Cfg} : ∀ {l : List CallRec} {h : CallRec}, Chain cfg (h :: l) →
    ∀ p ∈ l, reconnErr cfg p.step.out
  | [], _, _ => by simp
  | p :: tl, h, hc => by
    intro q hq
    simp at hq
    rcases hq with rfl | hq
    · exact hc.1.prevErr
    · exact chain_tail_errors hc.2 q hq

theorem chain_two_retry {cfg : Cfg} {r p : CallRec} {tl : List CallRec} (hc : Chain cfg (r :: p :: tl)) :
    cfg.retry = true ∧ cfg.policy.has = true := by
  obtain ⟨⟨_, hr, sl, _, _, hal, _⟩, _⟩ := hc
  refine ⟨hr, ?_⟩
  cases hpol : cfg.policy with
  | none => rw [hpol] at hal; simp [Policy.allowed] at hal
  | _ => rfl

/-- every suffix of a chain is a chain, and the position of a record is its attempt number -/
theorem chain_suffix {cfg : Cfg} : ∀ {l : List CallRec} (pre : List CallRec), Chain cfg (pre ++ l) → Chain cfg l
  | _, [], h => h
  | l, [x], h => by
    cases l with
    | nil => trivial
    | cons y ys => exact h.2
  | l, x :: y :: pre, h => chain_suffix (y :: pre) (by exact h.2)

/-! ## the published state -/

/-- the request is still handling a connection failure -/
def Handling (st : Caller) : Prop := st.phase ≠ .done ∧ 0 < st.attempt

/-- if the request that last wrote the published state is still handling a failure, the state is Reconnecting -/
def PubOK (c : Nat) (st : Caller) (w : Shared) : Prop :=
  Handling st → w.writer = some c → w.conn = .reconnecting

/-- a transition either leaves the published state alone or makes its own request the writer -/
def Touch (c : Nat) (w w' : Shared) : Prop :=
  (w'.conn = w.conn ∧ w'.writer = w.writer) ∨ w'.writer = some c

theorem onError_pub {cfg : Cfg} {c : Nat} {st : Caller} {w : Shared} {kd k : Nat} :
    PubOK c (onError cfg c st w kd k).1 (onError cfg c st w kd k).2 ∧
    Touch c w (onError cfg c st w kd k).2 := by
  unfold onError
  split
  · exact ⟨fun h => absurd rfl h.1, Or.inl ⟨rfl, rfl⟩⟩
  · simp only
    split
    · exact ⟨fun h => absurd rfl h.1, Or.inr rfl⟩
    · split
      · exact ⟨fun h => absurd rfl h.1, Or.inr rfl⟩
      · exact ⟨fun h => absurd rfl h.1, Or.inr rfl⟩
      · exact ⟨fun _ _ => rfl, Or.inr rfl⟩

theorem trans_pub {cfg : Cfg} {c : Nat} {st : Caller} {w : Shared} {p : Caller × Shared}
    (hp : PubOK c st w) (ht : trans cfg c st w = some p) :
    PubOK c p.1 p.2 ∧ Touch c w p.2 := by
  unfold trans at ht
  split at ht
  · rename_i k d o hph
    unfold transCalling at ht
    split at ht
    · simp at ht
    · split at ht
      · simp at ht
      · simp at ht; subst ht
        exact ⟨fun h => absurd rfl h.1, Or.inr rfl⟩
      · simp at ht; subst ht
        exact ⟨fun h => absurd rfl h.1, Or.inl ⟨rfl, rfl⟩⟩
      · rename_i kd
        simp at ht; subst ht
        have := @onError_pub cfg c st (emit [.done c k (.err kd)] w) kd k
        exact ⟨this.1, this.2⟩
  · rename_i wk hph
    unfold transSleeping at ht
    split at ht
    · simp at ht
    · split at ht
      · simp at ht; subst ht
        refine ⟨?_, Or.inl ⟨rfl, rfl⟩⟩
        intro hh hw
        exact hp ⟨by rw [hph]; simp, hh.2⟩ hw
      · split at ht
        · simp at ht; subst ht
          exact ⟨fun h => absurd rfl h.1, Or.inr rfl⟩
        · simp at ht
  · rename_i wk hph
    unfold transReadying at ht
    split at ht
    · simp at ht
    · split at ht
      · simp at ht
      · simp at ht; subst ht
        refine ⟨?_, Or.inl ⟨rfl, rfl⟩⟩
        intro hh hw
        have hatt : 0 < st.attempt := by simpa [startCall] using hh.2
        exact hp ⟨by rw [hph]; simp, hatt⟩ (by simpa [startCall, emit, popScript] using hw)
      · simp at ht; subst ht
        exact ⟨fun h => absurd rfl h.1, Or.inl ⟨rfl, rfl⟩⟩
  · simp at ht

theorem touch_trans {c : Nat} {a b d : Shared} (h1 : Touch c a b) (h2 : Touch c b d) : Touch c a d := by
  rcases h2 with ⟨h2a, h2b⟩ | h2
  · rcases h1 with ⟨h1a, h1b⟩ | h1
    · exact Or.inl ⟨h2a.trans h1a, h2b.trans h1b⟩
    · exact Or.inr (h2b.trans h1)
  · exact Or.inr h2

theorem loop_pub {cfg : Cfg} {c : Nat} (n : Nat) {st : Caller} {w : Shared} (hp : PubOK c st w) :
    PubOK c (loop cfg c n st w).1 (loop cfg c n st w).2 ∧ Touch c w (loop cfg c n st w).2 := by
  induction n generalizing st w with
  | zero => exact ⟨hp, Or.inl ⟨rfl, rfl⟩⟩
  | succ n ih =>
    unfold loop
    split
    · exact ⟨hp, Or.inl ⟨rfl, rfl⟩⟩
    · rename_i st' w' ht
      obtain ⟨h1, h2⟩ := trans_pub hp ht
      obtain ⟨h3, h4⟩ := ih h1
      exact ⟨h3, touch_trans h2 h4⟩

def AllPub (s : State) : Prop := ∀ c st, lookup s.callers c = some st → PubOK c st s.sh

theorem pub_other {c c' : Nat} {st : Caller} {w w' : Shared} (hne : c ≠ c')
    (hp : PubOK c' st w) (ht : Touch c w w') : PubOK c' st w' := by
  intro hh hw
  rcases ht with ⟨h1, h2⟩ | h
  · rw [h1]; exact hp hh (h2 ▸ hw)
  · rw [h] at hw; simp at hw; exact absurd hw hne

theorem stepS_allPub {cfg : Cfg} {s : State} (op : Op) (h : AllPub s) : AllPub (stepS cfg s op) := by
  cases op with
  | adv ms => exact h
  | incr => exact h
  | probe => exact h
  | inner sc r => exact h
  | arrive c plan =>
    simp only [stepS]
    split
    · exact h
    · cases hra : readyAns s.sh <;>
      · intro c' st' hl
        dsimp only at hl ⊢
        rw [lookup_cons] at hl
        split at hl
        · simp at hl; rw [← hl]
          intro hh _
          simp [Handling, startCall, newCaller, refused] at hh
        · exact h c' st' hl
  | poll c obs =>
    simp only [stepS]
    split
    · rename_i st hst
      have hp0 : PubOK c st { s.sh with obs := obs } := h c st hst
      obtain ⟨h1, h2⟩ := @loop_pub cfg c (fuel st) st { s.sh with obs := obs } hp0
      intro c' st' hl
      rw [lookup_cons] at hl
      split at hl
      · rename_i hcc
        simp at hl; rw [← hl, ← hcc]
        exact h1
      · rename_i hcc
        have : PubOK c' st' { s.sh with obs := obs } := h c' st' hl
        exact pub_other hcc this h2
    · exact h
  | drop c =>
    simp only [stepS]
    split
    · rename_i st hst
      intro c' st' hl
      rw [lookup_cons] at hl
      split at hl
      · simp at hl; rw [← hl]
        intro hh _
        exfalso
        apply hh.1
        unfold dropCaller; split <;> rfl
      · have hsh : (dropCaller c st s.sh).2.conn = s.sh.conn ∧ (dropCaller c st s.sh).2.writer = s.sh.writer := by
          unfold dropCaller; split <;> exact ⟨rfl, rfl⟩
        intro hh hw
        show (dropCaller c st s.sh).2.conn = _
        rw [hsh.1]
        exact h c' st' hl hh (hsh.2 ▸ hw)
    · exact h

theorem pub_reachable (cfg : Cfg) (ops : List Op) : AllPub (run cfg ops) := by
  unfold run
  have : ∀ (ops : List Op) (s : State), AllPub s → AllPub (ops.foldl (stepS cfg) s) := by
    intro ops
    induction ops with
    | nil => intro s h; exact h
    | cons o os ih => intro s h; exact ih _ (stepS_allPub o h)
  exact this ops _ (by intro c st h; simp [init, lookup] at h)


/-! ## one request on its own: whoever has failed once is the writer of the published state -/

def WroteOK (c : Nat) (st : Caller) (w : Shared) : Prop := 0 < st.attempt → w.writer = some c

theorem onError_wrote {cfg : Cfg} {c : Nat} {st : Caller} {w : Shared} {kd k : Nat} (hp : WroteOK c st w) :
    WroteOK c (onError cfg c st w kd k).1 (onError cfg c st w kd k).2 := by
  unfold onError
  split
  · exact hp
  · simp only
    split
    · exact fun _ => rfl
    · split <;> exact fun _ => rfl

theorem trans_wrote {cfg : Cfg} {c : Nat} {st : Caller} {w : Shared} {p : Caller × Shared}
    (hp : WroteOK c st w) (ht : trans cfg c st w = some p) : WroteOK c p.1 p.2 := by
  unfold trans at ht
  split at ht
  · rename_i k d o hph
    unfold transCalling at ht
    split at ht
    · simp at ht
    · split at ht
      · simp at ht
      · simp at ht; subst ht; exact fun _ => rfl
      · simp at ht; subst ht; exact hp
      · rename_i kd
        simp at ht; subst ht
        exact onError_wrote (w := emit [.done c k (.err kd)] w) hp
  · rename_i wk hph
    unfold transSleeping at ht
    split at ht
    · simp at ht
    · split at ht
      · simp at ht; subst ht; exact hp
      · split at ht
        · simp at ht; subst ht; exact fun _ => rfl
        · simp at ht
  · rename_i wk hph
    unfold transReadying at ht
    split at ht
    · simp at ht
    · split at ht
      · simp at ht
      · simp at ht; subst ht; exact hp
      · simp at ht; subst ht; exact hp
  · simp at ht

theorem loop_wrote {cfg : Cfg} {c : Nat} (n : Nat) {st : Caller} {w : Shared} (hp : WroteOK c st w) :
    WroteOK c (loop cfg c n st w).1 (loop cfg c n st w).2 := by
  induction n generalizing st w with
  | zero => exact hp
  | succ n ih =>
    unfold loop
    split
    · exact hp
    · rename_i st' w' ht
      exact ih (trans_wrote hp ht)

/-- the operation concerns request `c` only -/
def Solo (c : Nat) : Op → Prop
  | .arrive c' _ => c' = c
  | .poll c' _ => c' = c
  | .drop c' => c' = c
  | .adv _ => True
  | .probe => True
  | .incr => True
  | .inner _ _ => True

def SoloInv (c : Nat) (s : State) : Prop := ∀ st, lookup s.callers c = some st → WroteOK c st s.sh

theorem stepS_solo {cfg : Cfg} {c : Nat} {s : State} (op : Op) (hs : Solo c op) (h : SoloInv c s) :
    SoloInv c (stepS cfg s op) := by
  cases op with
  | adv ms => exact h
  | incr => exact h
  | probe => exact h
  | inner sc r => exact h
  | arrive c' plan =>
    simp only [stepS]
    split
    · exact h
    · cases hra : readyAns s.sh <;>
      · intro st hl
        dsimp only at hl ⊢
        rw [lookup_cons] at hl
        split at hl
        · simp at hl; rw [← hl]
          intro hatt; simp [startCall, newCaller, refused] at hatt
        · rename_i hne; exact absurd hs hne
  | poll c' obs =>
    have hcc : c' = c := hs
    subst hcc
    simp only [stepS]
    split
    · rename_i st hst
      intro st' hl
      simp [lookup_cons] at hl
      rw [← hl]
      exact loop_wrote _ (h st hst)
    · exact h
  | drop c' =>
    have hcc : c' = c := hs
    subst hcc
    simp only [stepS]
    split
    · rename_i st hst
      intro st' hl
      simp [lookup_cons] at hl
      rw [← hl]
      have := h st hst
      unfold dropCaller
      split <;> exact this
    · exact h

theorem solo_writer (cfg : Cfg) (ops : List Op) (c : Nat) (hsolo : ∀ op ∈ ops, Solo c op)
    (st : Caller) (h : lookup (run cfg ops).callers c = some st) (hatt : 0 < st.attempt) :
    (run cfg ops).sh.writer = some c := by
  have key : ∀ (ops : List Op) (s : State), (∀ op ∈ ops, Solo c op) → SoloInv c s →
      SoloInv c (ops.foldl (stepS cfg) s) := by
    intro ops
    induction ops with
    | nil => intro s _ h; exact h
    | cons o os ih =>
      intro s hso h
      exact ih _ (fun op hop => hso op (List.mem_cons_of_mem _ hop))
        (stepS_solo o (hso o (List.mem_cons_self ..)) h)
  exact key ops _ hsolo (by intro st h; simp [init, lookup] at h) st h hatt


/-! ## the ghost list `calls` is what the event log shows: one `inner_call c k` event per record -/

def isCallOf (x : Nat) : REv → Bool
  | .call c _ => c == x
  | _ => false

/-- number of `inner_call x _` events in a log -/
def callsIn (x : Nat) (l : List REv) : Nat := l.countP (isCallOf x)

/-- the log grew by exactly the calls that request `c` added to its ghost list -/
def CallsEq (c : Nat) (st : Caller) (w : Shared) (p : Caller × Shared) : Prop :=
  (∀ x, x ≠ c → callsIn x p.2.log = callsIn x w.log) ∧
  callsIn c p.2.log + st.calls.length = callsIn c w.log + p.1.calls.length

theorem callsEq_trans {c : Nat} {st : Caller} {w : Shared} {p q : Caller × Shared}
    (h1 : CallsEq c st w p) (h2 : CallsEq c p.1 p.2 q) : CallsEq c st w q :=
  ⟨fun x hx => (h2.1 x hx).trans (h1.1 x hx), by have := h1.2; have := h2.2; omega⟩

theorem onError_calls {cfg : Cfg} {c : Nat} {st : Caller} {w : Shared} {kd k : Nat} :
    CallsEq c st w (onError cfg c st w kd k) := by
  unfold onError
  split
  · simp [CallsEq, finish, emit, callsIn, List.countP_append, isCallOf]
  · simp only
    split
    · simp [CallsEq, finish, emit, mark, callsIn, List.countP_append, isCallOf]
    · split <;> simp [CallsEq, finish, emit, mark, callsIn, List.countP_append, isCallOf]

theorem trans_calls {cfg : Cfg} {c : Nat} {st : Caller} {w : Shared} {p : Caller × Shared}
    (ht : trans cfg c st w = some p) : CallsEq c st w p := by
  unfold trans at ht
  split at ht
  · rename_i k d o hph
    unfold transCalling at ht
    split at ht
    · simp at ht
    · split at ht
      · simp at ht
      · simp at ht; subst ht
        simp [CallsEq, finish, emit, mark, callsIn, List.countP_append, isCallOf]
      · simp at ht; subst ht
        simp [CallsEq, finish, emit, callsIn, List.countP_append, isCallOf]
      · rename_i kd
        simp at ht; subst ht
        have := @onError_calls cfg c st (emit [.done c k (.err kd)] w) kd k
        refine ⟨fun x hx => ?_, ?_⟩
        · rw [this.1 x hx]; simp [emit, callsIn, List.countP_append, isCallOf]
        · have h2 := this.2
          simp [emit, callsIn, List.countP_append, isCallOf] at h2 ⊢
          exact h2
  · rename_i wk hph
    unfold transSleeping at ht
    split at ht
    · simp at ht
    · split at ht
      · simp at ht; subst ht
        exact ⟨fun _ _ => rfl, rfl⟩
      · split at ht
        · simp at ht; subst ht
          simp [CallsEq, finish, emit, mark, callsIn, List.countP_append, isCallOf]
        · simp at ht
  · rename_i wk hph
    unfold transReadying at ht
    split at ht
    · simp at ht
    · split at ht
      · simp at ht
      · simp at ht; subst ht
        refine ⟨fun x hx => ?_, ?_⟩
        · have : (c == x) = false := by simp; exact fun h => hx h.symm
          simp [startCall, emit, popScript, callsIn, List.countP_append, isCallOf, this]
        · simp [startCall, emit, popScript, callsIn, List.countP_append, isCallOf]; omega
      · simp at ht; subst ht
        simp [CallsEq, finish, emit, popScript, callsIn, List.countP_append, isCallOf]
  · simp at ht

theorem loop_calls {cfg : Cfg} {c : Nat} (n : Nat) {st : Caller} {w : Shared} :
    CallsEq c st w (loop cfg c n st w) := by
  induction n generalizing st w with
  | zero => exact ⟨fun _ _ => rfl, rfl⟩
  | succ n ih =>
    unfold loop
    split
    · exact ⟨fun _ _ => rfl, rfl⟩
    · rename_i st' w' ht
      exact callsEq_trans (trans_calls ht) ih

/-- per request: as many `inner_call` events as ghost records; none for unknown requests -/
def LogOK (s : State) : Prop :=
  ∀ x, callsIn x s.sh.log = match lookup s.callers x with | some st => st.calls.length | none => 0

theorem stepS_logOK {cfg : Cfg} {s : State} (op : Op) (h : LogOK s) : LogOK (stepS cfg s op) := by
  cases op with
  | adv ms => exact h
  | incr => exact h
  | probe =>
    intro x
    have := h x
    simp only [stepS, emit, callsIn, List.countP_append] at this ⊢
    simpa [isCallOf] using this
  | inner sc r => exact h
  | arrive c plan =>
    simp only [stepS]
    split
    · exact h
    · rename_i hnone
      cases hra : readyAns s.sh <;>
      · intro x
        have hx := h x
        dsimp only
        rw [lookup_cons]
        by_cases hcx : c = x
        · subst hcx
          rw [hnone] at hx
          simp [startCall, emit, popScript, newCaller, refused, callsIn, List.countP_append, isCallOf] at hx ⊢
          exact hx
        · have : (c == x) = false := by simp [hcx]
          simp only [hcx, if_false]
          rw [← hx]
          simp [startCall, emit, popScript, callsIn, List.countP_append, isCallOf, this]
  | poll c obs =>
    simp only [stepS]
    split
    · rename_i st hst
      have hl := @loop_calls cfg c (fuel st) st { s.sh with obs := obs }
      intro x
      have hx := h x
      rw [lookup_cons]
      by_cases hcx : c = x
      · subst hcx
        simp only [hst] at hx
        have := hl.2
        simp only [pollCaller, if_true] at this ⊢
        have hlog : ({ s.sh with obs := obs } : Shared).log = s.sh.log := rfl
        rw [hlog] at this
        omega
      · simp only [hcx, if_false]
        rw [← hx]
        exact hl.1 x (fun hh => hcx hh.symm)
    · exact h
  | drop c =>
    simp only [stepS]
    split
    · rename_i st hst
      intro x
      have hx := h x
      rw [lookup_cons]
      have hlog : callsIn x (dropCaller c st s.sh).2.log = callsIn x s.sh.log := by
        unfold dropCaller; split <;> simp [emit, callsIn, List.countP_append, isCallOf]
      have hcalls : (dropCaller c st s.sh).1.calls = st.calls := by
        unfold dropCaller; split <;> rfl
      by_cases hcx : c = x
      · subst hcx
        simp only [hst] at hx
        simp only [if_true, hcalls]
        rw [hlog]; exact hx
      · simp only [hcx, if_false]
        rw [hlog]; exact hx
    · exact h

theorem logOK_reachable (cfg : Cfg) (ops : List Op) : LogOK (run cfg ops) := by
  have key : ∀ (ops : List Op) (s : State), LogOK s → LogOK (ops.foldl (stepS cfg) s) := by
    intro ops
    induction ops with
    | nil => intro s h; exact h
    | cons o os ih => intro s h; exact ih _ (stepS_logOK o h)
  exact key ops _ (by intro x; simp [init, lookup, callsIn])

/-- the inner error an error result wraps -/
def wrapped : RRes → Option (Nat × Nat)
  | .ok _ => none
  | .panic => none
  | .service kd k => some (kd, k)
  | .connFailed kd k => some (kd, k)
  | .noRetry kd k => some (kd, k)
  | .maxAttempts _ kd k => some (kd, k)
  | .readyErr => none       -- wraps the inner service's readiness error, not the error of a call
  | .notReady => none

theorem allowed_exp' (i cp a d : Nat) : (Policy.exp i cp).allowed a d = true ↔ d = min (i * 2 ^ a) cp := by
  simp [Policy.allowed, expDelay]

/-! ## a success publishes Connected -/

/-- "a success of request `c` is in the log beyond position `n` only if `c` is done and the state is Connected" -/
def OkSeen (c n : Nat) (st : Caller) (w : Shared) : Prop :=
  (∃ k, REv.result c (.ok k) ∈ w.log.drop n) → st.phase = .done ∧ w.conn = .connected

theorem mem_drop_append_single {l : List REv} {n : Nat} {e x : REv} (hn : n ≤ l.length)
    (h : e ∈ (l ++ [x]).drop n) : e ∈ l.drop n ∨ e = x := by
  rw [List.drop_append_of_le_length hn] at h
  simpa using h

theorem onError_ok {cfg : Cfg} {c n : Nat} {st : Caller} {w : Shared} {kd k : Nat}
    (hn : n ≤ w.log.length) (hno : ¬ ∃ k, REv.result c (.ok k) ∈ w.log.drop n) :
    OkSeen c n (onError cfg c st w kd k).1 (onError cfg c st w kd k).2 ∧
    n ≤ (onError cfg c st w kd k).2.log.length := by
  have fin : ∀ (r : RRes) (st : Caller) (w' : Shared), w'.log = w.log → (∀ k, r ≠ .ok k) →
      OkSeen c n (finish c r st w').1 (finish c r st w').2 ∧ n ≤ (finish c r st w').2.log.length := by
    intro r st w' hw hr
    refine ⟨?_, by simp [finish, emit, hw]; omega⟩
    rintro ⟨k', hk'⟩
    simp only [finish, emit, hw] at hk'
    rcases mem_drop_append_single hn hk' with h | h
    · exact absurd ⟨k', h⟩ hno
    · simp at h; exact absurd h.symm (hr k')
  unfold onError
  split
  · exact fin _ _ _ rfl (by simp)
  · simp only
    split
    · exact fin _ _ _ rfl (by simp)
    · split
      · exact fin _ _ _ rfl (by simp)
      · refine ⟨?_, by simp [emit, mark]; omega⟩
        rintro ⟨k', hk'⟩
        simp only [emit, mark] at hk'
        rcases mem_drop_append_single hn hk' with h | h
        · exact absurd ⟨k', h⟩ hno
        · simp at h
      · refine ⟨?_, by simp [mark]; omega⟩
        rintro ⟨k', hk'⟩
        exact absurd ⟨k', by simpa [mark] using hk'⟩ hno

theorem trans_ok {cfg : Cfg} {c n : Nat} {st : Caller} {w : Shared} {p : Caller × Shared}
    (hn : n ≤ w.log.length) (hp : OkSeen c n st w) (ht : trans cfg c st w = some p) :
    OkSeen c n p.1 p.2 ∧ n ≤ p.2.log.length := by
  have hno : st.phase ≠ .done → ¬ ∃ k, REv.result c (.ok k) ∈ w.log.drop n :=
    fun hph hex => hph (hp hex).1
  unfold trans at ht
  split at ht
  · rename_i k d o hph
    have hno := hno (by rw [hph]; simp)
    unfold transCalling at ht
    split at ht
    · simp at ht
    · split at ht
      · simp at ht
      · simp at ht; subst ht
        exact ⟨fun _ => ⟨rfl, rfl⟩, by simp [finish, emit, mark]; omega⟩
      · simp at ht; subst ht
        refine ⟨?_, by simp [finish, emit]; omega⟩
        rintro ⟨k', hk'⟩
        simp only [finish, emit] at hk'
        rw [List.append_assoc] at hk'
        rw [List.drop_append_of_le_length hn] at hk'
        simp at hk'
        exact absurd ⟨k', hk'⟩ hno
      · rename_i kd
        simp at ht; subst ht
        apply onError_ok
        · simp [emit]; omega
        · rintro ⟨k', hk'⟩
          simp only [emit] at hk'
          rcases mem_drop_append_single hn hk' with h | h
          · exact hno ⟨k', h⟩
          · simp at h
  · rename_i wk hph
    have hno := hno (by rw [hph]; simp)
    unfold transSleeping at ht
    split at ht
    · simp at ht
    · split at ht
      · simp at ht; subst ht
        refine ⟨?_, hn⟩
        rintro ⟨k', hk'⟩
        exact absurd ⟨k', hk'⟩ hno
      · split at ht
        · simp at ht; subst ht
          refine ⟨?_, by simp [finish, emit, mark]; omega⟩
          rintro ⟨k', hk'⟩
          simp only [finish, emit, mark] at hk'
          rcases mem_drop_append_single hn hk' with h | h
          · exact absurd ⟨k', h⟩ hno
          · simp at h
        · simp at ht
  · rename_i wk hph
    have hno := hno (by rw [hph]; simp)
    unfold transReadying at ht
    split at ht
    · simp at ht
    · split at ht
      · simp at ht
      · simp at ht; subst ht
        refine ⟨?_, by simp [startCall, emit, popScript]; omega⟩
        rintro ⟨k', hk'⟩
        simp only [startCall, emit, popScript] at hk'
        rcases mem_drop_append_single hn hk' with h | h
        · exact absurd ⟨k', h⟩ hno
        · simp at h
      · simp at ht; subst ht
        refine ⟨?_, by simp [finish, emit, popScript]; omega⟩
        rintro ⟨k', hk'⟩
        simp only [finish, emit, popScript] at hk'
        rw [List.append_assoc] at hk'
        rw [List.drop_append_of_le_length hn] at hk'
        simp at hk'
        exact absurd ⟨k', hk'⟩ hno
  · simp at ht

theorem loop_ok {cfg : Cfg} {c n : Nat} (m : Nat) {st : Caller} {w : Shared}
    (hn : n ≤ w.log.length) (hp : OkSeen c n st w) :
    OkSeen c n (loop cfg c m st w).1 (loop cfg c m st w).2 := by
  induction m generalizing st w with
  | zero => exact hp
  | succ m ih =>
    unfold loop
    split
    · exact hp
    · rename_i st' w' ht
      obtain ⟨h1, h2⟩ := trans_ok hn hp ht
      exact ih h2 h1

/-! ## the fuel of `pollCaller` is enough: the loop stops because the future is pending or
complete, never because the fuel ran out -/

def mu (st : Caller) : Nat :=
  match st.phase with
  | .done => 0
  | .readying _ => 3 * st.plan.length + 2
  | .sleeping _ => 3 * st.plan.length + 3
  | .calling _ _ .ok => 3 * st.plan.length + 1
  | .calling _ _ _ => 3 * st.plan.length + 4

theorem mu_le_fuel (st : Caller) : mu st ≤ fuel st := by
  unfold mu fuel; split <;> omega

theorem mu_onError {cfg : Cfg} {c : Nat} {st : Caller} {w : Shared} {kd k : Nat} :
    mu (onError cfg c st w kd k).1 ≤ 3 * st.plan.length + 3 := by
  unfold onError
  split
  · simp [finish, mu]
  · simp only
    split
    · simp [finish, mu]
    · split <;> simp [finish, mu]

theorem trans_mu {cfg : Cfg} {c : Nat} {st : Caller} {w : Shared} {p : Caller × Shared}
    (ht : trans cfg c st w = some p) : mu p.1 < mu st := by
  unfold trans at ht
  split at ht
  · rename_i k d o hph
    unfold transCalling at ht
    split at ht
    · simp at ht
    · split at ht
      · simp at ht
      · simp at ht; subst ht; simp [finish, mu, hph]
      · simp at ht; subst ht; simp [finish, mu, hph]
      · rename_i kd
        simp at ht; subst ht
        have h1 := @mu_onError cfg c st (emit [.done c k (.err kd)] w) kd k
        have h2 : mu st = 3 * st.plan.length + 4 := by simp [mu, hph]
        omega
  · rename_i wk hph
    unfold transSleeping at ht
    split at ht
    · simp at ht
    · split at ht
      · simp at ht; subst ht
        simp [mu, hph]
      · split at ht
        · simp at ht; subst ht; simp [finish, mu, hph]
        · simp at ht
  · rename_i wk hph
    unfold transReadying at ht
    split at ht
    · simp at ht
    · split at ht
      · simp at ht
      · simp at ht; subst ht
        cases hpl : st.plan with
        | nil => simp [startCall, mu, hph, hpl]
        | cons x xs =>
          simp only [startCall, mu, hph, hpl, List.headD_cons, List.tail_cons, List.length_cons]
          split <;> omega
      · simp at ht; subst ht; simp [finish, mu, hph]
  · simp at ht

/-- with fuel `≥ mu st` the loop ends in a state from which no further transition is possible -/
theorem loop_complete {cfg : Cfg} {c : Nat} (n : Nat) {st : Caller} {w : Shared} (h : mu st ≤ n) :
    trans cfg c (loop cfg c n st w).1 (loop cfg c n st w).2 = none := by
  induction n generalizing st w with
  | zero =>
    simp only [loop]
    cases ht : trans cfg c st w with
    | none => rfl
    | some p => have := trans_mu ht; omega
  | succ n ih =>
    unfold loop
    split
    · rename_i ht; exact ht
    · rename_i st' w' ht
      have : mu st' < mu st := trans_mu ht
      exact ih (by omega)

theorem pollCaller_complete (cfg : Cfg) (c : Nat) (st : Caller) (w : Shared) :
    trans cfg c (pollCaller cfg c st w).1 (pollCaller cfg c st w).2 = none :=
  loop_complete _ (mu_le_fuel st)

theorem expected_reading' (cfg : Cfg) (hd : CallRec) (n : Nat) (r : RRes) (h : expected cfg hd n = some r) :
    (∀ k, r = .ok k → hd.step.out = .ok ∧ hd.k = k) ∧
    (∀ kd k, wrapped r = some (kd, k) → hd.step.out = .err kd ∧ hd.k = k) := by
  unfold expected at h
  split at h
  · simp at h; subst h; simp [wrapped]; rename_i ho; exact ho
  · simp at h; subst h; simp [wrapped]
  · simp at h
  · rename_i kd ho
    split at h
    · simp at h; subst h; simp [wrapped, ho]
    · split at h
      · simp at h; subst h; simp [wrapped, ho]
      · split at h
        · simp at h; subst h; simp [wrapped, ho]
        · split at h
          · simp at h; subst h; simp [wrapped, ho]
          · simp at h

end TR.Reconnect
