import TR.Lemmas.FallbackRun
/-!
# Fallback: the value-function counter and the place of a completion block in the (global) log

`State.fnCalls` is a ghost counter; the correspondence check compares the LOG. Here the counter is tied to
the log (`Acct.count`: it is the number of `value_fn` callbacks logged so far) and the completion block of
an inner call is located in the global log of all requests (`Blocks`): wherever `innerDone c k out` stands in
the log, the only earlier event about `c` is its inner call, and the whole completion block — computed with
the counter value "number of `value_fn` callbacks before this `innerDone`" — follows it IMMEDIATELY, with no
event of another request in between. (That is also what lets the rendering drop the ghost owner `c` of a
`callback` event: it is the request of the closest preceding `inner_done`.)
`block_counter_pinned` then removes the existential counter from the per-request trace (`Shape`).

How: `Grown` describes how the log of a run comes about — by appending stretches of plain events (no
`innerDone`, no callback) and whole completion blocks, each block computed with the number of `value_fn`
callbacks logged before it and emitted when the request has nothing but its inner call in the log. The
helpers of the machine are shown to grow the log in this way once (`Acct`); every statement about positions
in the log (`Blocks`, `value_fn_counter_of_grown`, `callback_owner_of_grown`) is then an induction on `Grown`.
-/
namespace TR.Fallback

def isInnerDone : FEv → Bool
  | .innerDone _ _ _ => true
  | _ => false

def isCallback : FEv → Bool
  | .callback _ _ => true
  | _ => false

/-- neither the completion of an inner call nor an invocation of a user function -/
def plain (e : FEv) : Bool := !isInnerDone e && !isCallback e

/-- how the log of a run grows: stretches of plain events, and whole completion blocks — each computed with
the number of `value_fn` callbacks logged before it, emitted when its request has only its inner call logged -/
inductive Grown (cfg : Cfg) : List FEv → Prop
  | nil : Grown cfg []
  | plain {log : List FEv} (evs : List FEv) : Grown cfg log → (∀ e ∈ evs, plain e = true) → Grown cfg (log ++ evs)
  | block {log : List FEv} (c k : Nat) (rq : Request) (out : Out) : Grown cfg log → evsOf c log = [.innerCall c k rq] →
      Grown cfg (log ++ (completionInner cfg c rq (log.countP isValueFn) k out).1)

/-- wherever an `innerDone` stands in the log: before it the request has only its inner call, after it
comes the whole completion block, computed with the number of `value_fn` callbacks before it -/
def Blocks (cfg : Cfg) (log : List FEv) : Prop :=
  ∀ pre post c k out, log = pre ++ .innerDone c k out :: post →
    ∃ rq, evsOf c pre = [.innerCall c k rq] ∧
      (completionInner cfg c rq (pre.countP isValueFn) k out).1 <+: .innerDone c k out :: post

structure Acct (cfg : Cfg) (s : State) : Prop where
  count : s.fnCalls = s.log.countP isValueFn
  grown : Grown cfg s.log

/-! ## a completion block: one `innerDone`, at its head -/

theorem completionInner_head (cfg : Cfg) (c : Nat) (rq : Request) (n k : Nat) (out : Out) :
    ∃ rest, (completionInner cfg c rq n k out).1 = .innerDone c k out :: rest ∧ ∀ e ∈ rest, isInnerDone e = false := by
  rcases completionInner_cases cfg c rq n k out with ⟨_, hc⟩ | ⟨ri, cbs, o, _, _, hc⟩ | ⟨ri, cbs, _, _, hc⟩
  · exact ⟨_, by rw [hc], by simp [isInnerDone]⟩
  · refine ⟨_, by rw [hc], ?_⟩
    intro e he
    simp only [List.mem_append, List.mem_map, List.mem_cons, List.mem_nil_iff, or_false] at he
    rcases he with ⟨cb, _, rfl⟩ | rfl | rfl <;> rfl
  · refine ⟨_, by rw [hc], ?_⟩
    intro e he
    simp only [List.mem_map] at he
    rcases he with ⟨cb, _, rfl⟩; rfl

theorem blocks_append {cfg : Cfg} {log evs : List FEv} (h : Blocks cfg log) (hev : ∀ e ∈ evs, isInnerDone e = false) :
    Blocks cfg (log ++ evs) := by
  intro pre post c k out heq
  rcases List.append_eq_append_iff.mp heq with ⟨a, hpre, hevs⟩ | ⟨a, hlog, hpost⟩
  · have := hev (.innerDone c k out) (by rw [hevs]; simp)
    simp [isInnerDone] at this
  · cases a with
    | nil =>
        simp only [List.nil_append] at hpost
        have := hev (.innerDone c k out) (by rw [← hpost]; simp)
        simp [isInnerDone] at this
    | cons x a' =>
        simp only [List.cons_append, List.cons.injEq] at hpost
        obtain ⟨hx, hp⟩ := hpost
        subst hx
        obtain ⟨rq, h1, h2⟩ := h pre a' c k out hlog
        refine ⟨rq, h1, ?_⟩
        rw [hp, ← List.cons_append]
        exact List.IsPrefix.trans h2 (List.prefix_append _ _)

theorem blocks_append_block {cfg : Cfg} {log : List FEv} {c k : Nat} {rq : Request} {out : Out} (h : Blocks cfg log)
    (hcall : evsOf c log = [.innerCall c k rq]) :
    Blocks cfg (log ++ (completionInner cfg c rq (log.countP isValueFn) k out).1) := by
  obtain ⟨rest, hB, hrest⟩ := completionInner_head cfg c rq (log.countP isValueFn) k out
  -- the new occurrence: exactly at the end of the old log
  have new : ∀ c' k' out' post, .innerDone c' k' out' :: post = (completionInner cfg c rq (log.countP isValueFn) k out).1 →
      ∃ rq', evsOf c' log = [.innerCall c' k' rq'] ∧
        (completionInner cfg c' rq' (log.countP isValueFn) k' out').1 <+: .innerDone c' k' out' :: post := by
    intro c' k' out' post hh
    have hh' := hh
    rw [hB] at hh'
    simp only [List.cons.injEq, FEv.innerDone.injEq] at hh'
    obtain ⟨⟨h1, h2, h3⟩, _⟩ := hh'
    subst h1; subst h2; subst h3
    exact ⟨rq, hcall, by rw [hh]; exact List.prefix_refl _⟩
  intro pre post c' k' out' heq
  rcases List.append_eq_append_iff.mp heq with ⟨a, hpre, hevs⟩ | ⟨a, hlog, hpost⟩
  · cases a with
    | nil =>
        simp only [List.nil_append] at hevs
        simp only [List.append_nil] at hpre
        subst hpre
        exact new c' k' out' post hevs.symm
    | cons x a' =>
        rw [hB] at hevs
        simp only [List.cons_append, List.cons.injEq] at hevs
        have := hrest (.innerDone c' k' out') (by rw [hevs.2]; simp)
        simp [isInnerDone] at this
  · cases a with
    | nil =>
        simp only [List.nil_append] at hpost
        simp only [List.append_nil] at hlog
        subst hlog
        exact new c' k' out' post hpost
    | cons x a' =>
        simp only [List.cons_append, List.cons.injEq] at hpost
        obtain ⟨hx, hp⟩ := hpost
        subst hx
        obtain ⟨rq', h1, h2⟩ := h pre a' c' k' out' hlog
        refine ⟨rq', h1, ?_⟩
        rw [hp, ← List.cons_append]
        exact List.IsPrefix.trans h2 (List.prefix_append _ _)

/-! ## steps that emit plain events only -/

structure PlainStep (s s' : State) : Prop where
  log : ∃ evs, s'.log = s.log ++ evs ∧ ∀ e ∈ evs, plain e = true
  fn : s'.fnCalls = s.fnCalls

theorem PlainStep.refl (s : State) : PlainStep s s := ⟨⟨[], by simp, by simp⟩, rfl⟩

theorem PlainStep.trans {s1 s2 s3 : State} (h1 : PlainStep s1 s2) (h2 : PlainStep s2 s3) : PlainStep s1 s3 := by
  obtain ⟨e1, hl1, ha1⟩ := h1.log
  obtain ⟨e2, hl2, ha2⟩ := h2.log
  refine ⟨⟨e1 ++ e2, by rw [hl2, hl1, List.append_assoc], ?_⟩, by rw [h2.fn, h1.fn]⟩
  intro e he
  rcases List.mem_append.mp he with h | h
  · exact ha1 e h
  · exact ha2 e h

theorem plain_iff {e : FEv} : plain e = true ↔ isInnerDone e = false ∧ isCallback e = false := by
  simp [plain]

theorem isValueFn_isCallback {e : FEv} (h : isCallback e = false) : isValueFn e = false := by
  cases e <;> simp [isCallback] at h <;> rfl

theorem countP_plain {evs : List FEv} (h : ∀ e ∈ evs, plain e = true) : evs.countP isValueFn = 0 := by
  rw [List.countP_eq_zero]
  intro e he
  simp [isValueFn_isCallback (plain_iff.mp (h e he)).2]

theorem acct_plain {cfg : Cfg} {s s' : State} (h : Acct cfg s) (hp : PlainStep s s') : Acct cfg s' := by
  obtain ⟨evs, hl, hev⟩ := hp.log
  refine ⟨?_, ?_⟩
  · rw [hp.fn, hl, List.countP_append, countP_plain hev, h.count]; rfl
  · rw [hl]
    exact Grown.plain evs h.grown hev

theorem plain_setPhase (s : State) (c : Nat) (p : Phase) : PlainStep s (setPhase s c p) :=
  ⟨⟨[], by simp [setPhase], by simp⟩, rfl⟩

theorem plain_emit (s : State) (evs : List FEv) (h : ∀ e ∈ evs, plain e = true) : PlainStep s (emit s evs) :=
  ⟨⟨evs, rfl, h⟩, rfl⟩

theorem plain_of_same {s s' : State} (hl : s'.log = s.log) (hf : s'.fnCalls = s.fnCalls) : PlainStep s s' :=
  ⟨⟨[], by simp [hl], by simp⟩, hf⟩

theorem completionBackup_plain (c : Nat) (rq : Request) (k : Nat) (out : Out) :
    ∀ e ∈ completionBackup c rq k out, plain e = true := by
  intro e he
  unfold completionBackup at he
  split at he <;> simp only [List.mem_cons, List.mem_nil_iff, or_false] at he
  · rcases he with rfl | rfl | rfl <;> rfl
  · rcases he with rfl | rfl <;> rfl

theorem plain_pollBackup (s : State) (c : Nat) (rq : Request) (k t : Nat) (out : Out) :
    PlainStep s (pollBackup s c rq k t out) := by
  unfold pollBackup
  split
  · exact (plain_emit s _ (completionBackup_plain c rq k out)).trans (plain_setPhase _ c _)
  · exact PlainStep.refl s

theorem plain_callBackup (s : State) (c : Nat) (rq : Request) (bk : Step) : PlainStep s (callBackup s c rq bk) := by
  unfold callBackup
  refine PlainStep.trans ?_ (plain_pollBackup _ c rq _ _ _)
  refine PlainStep.trans (s2 := emit { s with serial := s.serial + 1 } [.backupCall c s.serial rq]) ?_ (plain_setPhase _ c _)
  refine PlainStep.trans (s2 := { s with serial := s.serial + 1 }) (plain_of_same rfl rfl) (plain_emit _ _ ?_)
  intro e he
  simp only [List.mem_cons, List.mem_nil_iff, or_false] at he
  subst he; rfl

theorem plain_startBackup (cfg : Cfg) (s : State) (c : Nat) (rq : Request) (bk : Step) :
    PlainStep s (startBackup cfg s c rq bk) := by
  have h0 : PlainStep s { s with brdy := s.brdy + pendingRun (cfg.bready.drop s.brdy) + 1 } := plain_of_same rfl rfl
  simp only [startBackup]
  split
  · refine h0.trans ((plain_emit _ _ ?_).trans (plain_setPhase _ c _))
    intro e he
    simp only [backupNotReady, List.mem_cons, List.mem_nil_iff, or_false] at he
    rcases he with rfl | rfl <;> rfl
  · exact h0.trans (plain_callBackup _ c rq bk)

/-! ## the completion of an inner call -/

theorem acct_pollInner {cfg : Cfg} {s : State} {c : Nat} {rq : Request} {k t : Nat} {out : Out} {bk : Step}
    (h : Acct cfg s) (hcall : evsOf c s.log = [.innerCall c k rq]) : Acct cfg (pollInner cfg s c rq k t out bk) := by
  unfold pollInner
  split
  · unfold completeInner continueWith
    have h1 : Acct cfg (emit { s with fnCalls := s.fnCalls + (completionInner cfg c rq s.fnCalls k out).1.countP isValueFn }
        (completionInner cfg c rq s.fnCalls k out).1) := by
      refine ⟨?_, ?_⟩
      · show s.fnCalls + _ = (s.log ++ _).countP isValueFn
        rw [List.countP_append, h.count]
      · show Grown cfg (s.log ++ _)
        rw [h.count]
        exact Grown.block c k rq out h.grown hcall
    split
    · exact acct_plain h1 (plain_setPhase _ c _)
    · exact acct_plain h1 (plain_startBackup cfg _ c rq bk)
  · exact h

theorem acct_pollFresh {cfg : Cfg} {s : State} {c : Nat} {rq : Request} {plan : List Step}
    (h : Acct cfg s) (hnone : evsOf c s.log = []) : Acct cfg (pollFresh cfg s c rq plan) := by
  unfold pollFresh
  apply acct_pollInner
  · refine acct_plain h (PlainStep.trans (s2 := emit { s with serial := s.serial + 1 } [.innerCall c s.serial rq]) ?_
      (plain_setPhase _ c _))
    refine PlainStep.trans (s2 := { s with serial := s.serial + 1 }) (plain_of_same rfl rfl) (plain_emit _ _ ?_)
    intro e he
    simp only [List.mem_cons, List.mem_nil_iff, or_false] at he
    subst he; rfl
  · show evsOf c (s.log ++ [FEv.innerCall c s.serial rq]) = _
    rw [evsOf_append, hnone]
    simp [evsOf, about]

theorem acct_step (cfg : Cfg) (s : State) (op : Op) (hinv : Inv cfg s) (h : Acct cfg s) : Acct cfg (stepS cfg s op) := by
  cases op with
  | adv ms => exact ⟨h.count, h.grown⟩
  | dropsvc => exact ⟨h.count, h.grown⟩
  | arrive c tag plan =>
      simp only [stepS]
      split
      · exact h
      · unfold arriveS
        refine acct_plain h (PlainStep.trans (s2 := emit { s with rdy := s.rdy + 1 } _) ?_ (plain_setPhase _ c _))
        refine PlainStep.trans (s2 := { s with rdy := s.rdy + 1 }) (plain_of_same rfl rfl) (plain_emit _ _ ?_)
        intro e he
        rcases hpr : pollReady (answer cfg.ready s.rdy) with _ | _ | o <;> rw [hpr] at he <;>
          simp only [arriveEvents, List.mem_cons, List.mem_nil_iff, or_false] at he
        · subst he; rfl
        · rcases he with rfl | rfl <;> rfl
  | poll c =>
      have hst := hinv c
      unfold Stage at hst
      simp only [stepS]
      split
      · rename_i rq plan hph
        rw [hph] at hst
        exact acct_pollFresh h hst.1
      · rename_i rq k t out bk hph
        rw [hph] at hst
        exact acct_pollInner h hst.1
      · rename_i rq k t out hph
        exact acct_plain h (plain_pollBackup s c rq k t out)
      · exact h
  | drop c =>
      simp only [stepS]
      split
      · exact acct_plain h (plain_setPhase s c _)
      · rename_i rq k t out bk hph
        refine acct_plain h ((plain_emit s [.innerDrop c k] ?_).trans (plain_setPhase _ c _))
        intro e he
        simp only [List.mem_cons, List.mem_nil_iff, or_false] at he
        subst he; rfl
      · rename_i rq k t out hph
        refine acct_plain h ((plain_emit s [.backupDrop c k] ?_).trans (plain_setPhase _ c _))
        intro e he
        simp only [List.mem_cons, List.mem_nil_iff, or_false] at he
        subst he; rfl
      · exact h

theorem acct_init (cfg : Cfg) : Acct cfg init := ⟨rfl, Grown.nil⟩

theorem acct_foldl (cfg : Cfg) (ops : List Op) (s : State) (hinv : Inv cfg s) (h : Acct cfg s) :
    Acct cfg (ops.foldl (stepS cfg) s) := by
  induction ops generalizing s with
  | nil => exact h
  | cons op tl ih => exact ih _ (step_inv cfg s op hinv) (acct_step cfg s op hinv h)

theorem acct_reachable (cfg : Cfg) (ops : List Op) : Acct cfg (run cfg ops) :=
  acct_foldl cfg ops init (inv_init cfg) (acct_init cfg)

/-! ## statements about positions in the log, by induction on how it grew -/

theorem blocks_of_grown {cfg : Cfg} {log : List FEv} (h : Grown cfg log) : Blocks cfg log := by
  induction h with
  | nil => intro pre post c k out h; simp at h
  | plain evs _ hev ih => exact blocks_append ih (fun e he => (plain_iff.mp (hev e he)).1)
  | block c k rq out _ hcall ih => exact blocks_append_block ih hcall

/-- a completion block contains at most one invocation of the value function, with the block's counter -/
theorem completionInner_valueFn (cfg : Cfg) (c : Nat) (rq : Request) (n k : Nat) (out : Out) :
    (completionInner cfg c rq n k out).1.countP isValueFn ≤ 1 ∧
    ∀ c' m, FEv.callback c' (.valueFn m) ∈ (completionInner cfg c rq n k out).1 → m = n := by
  have hcbs : ∀ ri, ((afterInner cfg rq n ri).cbs.map (FEv.callback c)).countP isValueFn ≤ 1 ∧
      ∀ m, Callback.valueFn m ∈ (afterInner cfg rq n ri).cbs → m = n := by
    intro ri
    constructor
    · cases ri with
      | ok r => simp [afterInner_ok_cbs]
      | err e =>
          rw [afterInner_err_cbs]
          have hp : ((predCalls cfg e).map (FEv.callback c)).countP isValueFn = 0 := by
            unfold predCalls; split <;> simp [isValueFn]
          rw [List.map_append, List.countP_append, hp]
          split
          · cases strategyCall cfg rq n e <;> simp [List.countP_cons]
            split <;> omega
          · simp
    · intro m hm
      obtain ⟨e, _, hh | hh⟩ := mem_afterInner_cbs hm
      · cases hh.1
      · have := hh.2
        unfold strategyCall at this
        split at this <;> simp at this
        exact this.symm
  rcases completionInner_cases cfg c rq n k out with ⟨_, hc⟩ | ⟨ri, cbs, o, _, ha, hc⟩ | ⟨ri, cbs, _, ha, hc⟩
  · rw [hc]; simp [isValueFn]
  · have := hcbs ri
    rw [ha] at this
    simp only [Act.cbs] at this
    rw [hc]
    refine ⟨?_, ?_⟩
    · simp only [List.countP_cons, List.countP_append, isValueFn, List.countP_nil]
      simpa using this.1
    · intro c' m hm
      simp only [List.mem_cons, reduceCtorEq, false_or, List.mem_append, List.mem_map, FEv.callback.injEq, List.mem_nil_iff,
        or_false] at hm
      obtain ⟨cb, hcb, _, rfl⟩ := hm
      exact this.2 m hcb
  · have := hcbs ri
    rw [ha] at this
    simp only [Act.cbs] at this
    rw [hc]
    refine ⟨?_, ?_⟩
    · simp only [List.countP_cons, isValueFn]
      simpa using this.1
    · intro c' m hm
      simp only [List.mem_cons, reduceCtorEq, false_or, List.mem_map, FEv.callback.injEq] at hm
      obtain ⟨cb, hcb, _, rfl⟩ := hm
      exact this.2 m hcb

/-- The value function's invocation number is its position among the `value_fn` callbacks of the log:
wherever `callback c (valueFn n)` stands, exactly `n` invocations of the value function stand before it. -/
theorem value_fn_counter_of_grown {cfg : Cfg} {log : List FEv} (h : Grown cfg log) :
    ∀ pre post c n, log = pre ++ .callback c (.valueFn n) :: post → n = pre.countP isValueFn := by
  induction h with
  | nil => intro pre post c n h; simp at h
  | @plain log evs _ hev ih =>
      intro pre post c n heq
      rcases List.append_eq_append_iff.mp heq with ⟨a, hpre, hevs⟩ | ⟨a, hlog, hpost⟩
      · have := (plain_iff.mp (hev (.callback c (.valueFn n)) (by rw [hevs]; simp))).2
        simp [isCallback] at this
      · cases a with
        | nil =>
            simp only [List.nil_append] at hpost
            have := (plain_iff.mp (hev (.callback c (.valueFn n)) (by rw [← hpost]; simp))).2
            simp [isCallback] at this
        | cons x a' =>
            simp only [List.cons_append, List.cons.injEq] at hpost
            obtain ⟨hx, _⟩ := hpost
            subst hx
            exact ih pre a' c n hlog
  | @block log c0 k rq out _ hcall ih =>
      intro pre post c n heq
      obtain ⟨hle, hval⟩ := completionInner_valueFn cfg c0 rq (log.countP isValueFn) k out
      -- an occurrence inside the new block
      have inblock : ∀ a, (completionInner cfg c0 rq (log.countP isValueFn) k out).1 = a ++ .callback c (.valueFn n) :: post →
          n = (log ++ a).countP isValueFn := by
        intro a ha
        have hn : n = log.countP isValueFn := hval c n (by rw [ha]; simp)
        rw [ha] at hle
        simp only [List.countP_append, List.countP_cons, isValueFn, if_true] at hle
        rw [List.countP_append, hn]
        omega
      rcases List.append_eq_append_iff.mp heq with ⟨a, hpre, hevs⟩ | ⟨a, hlog, hpost⟩
      · rw [hpre]; exact inblock a hevs
      · cases a with
        | nil =>
            simp only [List.nil_append] at hpost
            simp only [List.append_nil] at hlog
            have := inblock [] (by simpa using hpost.symm)
            simpa [hlog] using this
        | cons x a' =>
            simp only [List.cons_append, List.cons.injEq] at hpost
            obtain ⟨hx, _⟩ := hpost
            subst hx
            exact ih pre a' c n hlog

/-- a callback inside a completion block stands after the block's `innerDone` and callbacks of the same request only -/
theorem completionInner_callback_split {cfg : Cfg} {c : Nat} {rq : Request} {n k : Nat} {out : Out} {a post : List FEv}
    {c' : Nat} {cb : Callback} (h : (completionInner cfg c rq n k out).1 = a ++ .callback c' cb :: post) :
    c' = c ∧ ∃ cbs1 : List Callback, a = .innerDone c k out :: cbs1.map (.callback c) := by
  -- the block is `innerDone :: callbacks ++ rest`, `rest` without callbacks
  have form : ∃ (cbs : List Callback) (rest : List FEv), (completionInner cfg c rq n k out).1
      = .innerDone c k out :: (cbs.map (.callback c) ++ rest) ∧ ∀ e ∈ rest, isCallback e = false := by
    rcases completionInner_cases cfg c rq n k out with ⟨_, hc⟩ | ⟨ri, cbs, o, _, _, hc⟩ | ⟨ri, cbs, _, _, hc⟩
    · exact ⟨[], [.panicked c], by rw [hc]; rfl, by simp [isCallback]⟩
    · exact ⟨cbs, [.resp c o, .result c o], by rw [hc], by simp [isCallback]⟩
    · exact ⟨cbs, [], by rw [hc]; simp, by simp⟩
  obtain ⟨cbs, rest, hB, hrest⟩ := form
  rw [hB] at h
  cases a with
  | nil => simp at h
  | cons x a' =>
      simp only [List.cons_append, List.cons.injEq] at h
      obtain ⟨hx, h⟩ := h
      subst hx
      rcases List.append_eq_append_iff.mp h with ⟨a2, ha', hr⟩ | ⟨m2, hm, hr⟩
      · have := hrest (.callback c' cb) (by rw [hr]; simp)
        simp [isCallback] at this
      · cases m2 with
        | nil =>
            simp only [List.nil_append] at hr
            have := hrest (.callback c' cb) (by rw [← hr]; simp)
            simp [isCallback] at this
        | cons y m3 =>
            simp only [List.cons_append, List.cons.injEq] at hr
            obtain ⟨hy, _⟩ := hr
            subst hy
            obtain ⟨l1, l2, hcbs, h1, h2⟩ := List.map_eq_append_iff.mp hm
            refine ⟨?_, l1, by rw [h1]⟩
            cases l2 with
            | nil => simp at h2
            | cons z l2' =>
                simp only [List.map_cons, List.cons.injEq, FEv.callback.injEq] at h2
                exact h2.1.1.symm

/-- The ghost owner of a `callback` event can be read off the log: wherever `callback c cb` stands, it is
preceded by `innerDone c k out` of the SAME request with only callbacks of that request in between. -/
theorem callback_owner_of_grown {cfg : Cfg} {log : List FEv} (h : Grown cfg log) :
    ∀ pre post c cb, log = pre ++ .callback c cb :: post →
      ∃ pre' k out, ∃ cbs1 : List Callback, pre = pre' ++ .innerDone c k out :: cbs1.map (.callback c) := by
  induction h with
  | nil => intro pre post c cb h; simp at h
  | @plain log evs _ hev ih =>
      intro pre post c cb heq
      rcases List.append_eq_append_iff.mp heq with ⟨a, hpre, hevs⟩ | ⟨a, hlog, hpost⟩
      · have := (plain_iff.mp (hev (.callback c cb) (by rw [hevs]; simp))).2
        simp [isCallback] at this
      · cases a with
        | nil =>
            simp only [List.nil_append] at hpost
            have := (plain_iff.mp (hev (.callback c cb) (by rw [← hpost]; simp))).2
            simp [isCallback] at this
        | cons x a' =>
            simp only [List.cons_append, List.cons.injEq] at hpost
            obtain ⟨hx, _⟩ := hpost
            subst hx
            exact ih pre a' c cb hlog
  | @block log c0 k rq out _ hcall ih =>
      intro pre post c cb heq
      rcases List.append_eq_append_iff.mp heq with ⟨a, hpre, hevs⟩ | ⟨a, hlog, hpost⟩
      · obtain ⟨hc, cbs1, ha⟩ := completionInner_callback_split hevs
        subst hc
        exact ⟨log, k, out, cbs1, by rw [hpre, ha]⟩
      · cases a with
        | nil =>
            simp only [List.nil_append] at hpost
            obtain ⟨hc, cbs1, ha⟩ := completionInner_callback_split (a := []) (by simpa using hpost.symm)
            simp at ha
        | cons x a' =>
            simp only [List.cons_append, List.cons.injEq] at hpost
            obtain ⟨hx, _⟩ := hpost
            subst hx
            exact ih pre a' c cb hlog

/-! ## removing the existential counter from a request's trace -/

theorem completionInner_length (cfg : Cfg) (c : Nat) (rq : Request) (n n' k : Nat) (out : Out) :
    (completionInner cfg c rq n k out).1.length = (completionInner cfg c rq n' k out).1.length := by
  unfold completionInner
  cases svcResult rq k out with
  | none => rfl
  | some ri =>
      cases ri with
      | ok r => rfl
      | err e =>
          simp only [afterInner]
          split
          · unfold applyStrategy
            cases cfg.strat <;> simp [actEvents]
          · rfl

theorem mem_actEvents_callback {c : Nat} {a : Act} {cb : Callback} : FEv.callback c cb ∈ (actEvents c a).1 ↔ cb ∈ a.cbs := by
  cases a with
  | finish cbs o => simp [actEvents, Act.cbs]
  | backup cbs => simp [actEvents, Act.cbs]

/-- two completion blocks of the same call that are equal as event lists come from the same decision -/
theorem afterInner_eq_of_block_eq {cfg : Cfg} {c : Nat} {rq : Request} {n n' k : Nat} {out : Out} {ri : IRes}
    (hr : svcResult rq k out = some ri)
    (h : (completionInner cfg c rq n k out).1 = (completionInner cfg c rq n' k out).1) :
    afterInner cfg rq n ri = afterInner cfg rq n' ri := by
  apply afterInner_congr_n
  intro cb hcb hv
  subst hv
  simp only [completionInner, hr, List.cons.injEq, true_and] at h
  have hm : FEv.callback c (.valueFn n) ∈ (actEvents c (afterInner cfg rq n' ri)).1 := by
    rw [← h]; exact mem_actEvents_callback.mpr hcb
  obtain ⟨e, _, hh | hh⟩ := mem_afterInner_cbs (mem_actEvents_callback.mp hm)
  · cases hh.1
  · have := hh.2
    unfold strategyCall at this
    split at this <;> simp at this
    exact this.symm

/-- In a reachable state, if the trace of `c` is `inner call ++ completion block (some counter n) ++ tail`,
then the log splits at `c`'s `innerDone`: before it `c` has only its inner call; the block — which is also the
block computed with the number of `value_fn` callbacks before that point — follows immediately; the tail is
what the rest of the log says about `c`. -/
theorem block_counter_pinned (cfg : Cfg) (ops : List Op) {c : Nat} {rq : Request} {n k : Nat} {out : Out} {tail : List FEv}
    (hl : evsOf c (run cfg ops).log = traceFin cfg c rq n k out ++ tail) :
    ∃ pre post', (run cfg ops).log = pre ++ (completionInner cfg c rq n k out).1 ++ post' ∧
      evsOf c pre = [.innerCall c k rq] ∧ tail = evsOf c post' ∧
      (completionInner cfg c rq n k out).1 = (completionInner cfg c rq (pre.countP isValueFn) k out).1 := by
  have hmem : FEv.innerDone c k out ∈ (run cfg ops).log := by
    have : FEv.innerDone c k out ∈ evsOf c (run cfg ops).log := by
      rw [hl]; simp [traceFin, innerDone_mem_completionInner]
    exact (mem_evsOf.mp this).1
  obtain ⟨pre, post, hsplit⟩ := List.append_of_mem hmem
  obtain ⟨rq', hpre, hpfx⟩ := blocks_of_grown (acct_reachable cfg ops).grown pre post c k out hsplit
  obtain ⟨post', hpost⟩ := hpfx
  have hB := completionInner_about cfg c rq' (pre.countP isValueFn) k out
  have hev : evsOf c (run cfg ops).log
      = .innerCall c k rq' :: ((completionInner cfg c rq' (pre.countP isValueFn) k out).1 ++ evsOf c post') := by
    rw [hsplit, evsOf_append, hpre, ← hpost, evsOf_append, evsOf_all hB]; rfl
  rw [hl] at hev
  simp only [traceFin, List.cons_append, List.cons.injEq, FEv.innerCall.injEq, true_and] at hev
  obtain ⟨hrq, hrest⟩ := hev
  subst hrq
  obtain ⟨h1, h2⟩ := List.append_inj hrest (completionInner_length cfg c rq n (pre.countP isValueFn) k out)
  refine ⟨pre, post', ?_, hpre, h2, h1⟩
  rw [hsplit, ← hpost, h1, List.append_assoc]

/-! ## a delivered result, read off the explicit trace -/

/-- a result in a request's trace: the readiness failure of the wrapped service, or the decision on the inner
result (for some counter `n`), or — the decision being to call the backup — the backup's result or its
readiness failure; with the exact trace around it -/
theorem result_mem_trace {cfg : Cfg} {c : Nat} {l : List FEv} {o : Outcome} (ht : Trace cfg c l) (hm : FEv.result c o ∈ l) :
    (o = .inner readyErr ∧ l = [.resp c (.inner readyErr), .result c (.inner readyErr)]) ∨
    ∃ rq n k out ri tail, out ≠ .never ∧ svcResult rq k out = some ri ∧ l = traceFin cfg c rq n k out ++ tail ∧
      ((∃ cbs, afterInner cfg rq n ri = .finish cbs o ∧ tail = []) ∨
       (∃ cbs k2 out2 rb, afterInner cfg rq n ri = .backup cbs ∧ out2 ≠ .never ∧ svcResult rq k2 out2 = some rb ∧
          o = afterBackup rb ∧ tail = [.backupCall c k2 rq, .backupDone c k2 out2, .resp c o, .result c o]) ∨
       (∃ cbs, afterInner cfg rq n ri = .backup cbs ∧ o = afterBackup (.err readyErr) ∧ tail = [.resp c o, .result c o])) := by
  cases ht with
  | none => simp at hm
  | calling rq k => simp at hm
  | notReady => simp at hm
  | readyFailed =>
      simp at hm
      exact Or.inl ⟨hm, rfl⟩
  | droppedInner rq k => simp at hm
  | panicked rq k out hn hr => simp at hm
  | finished rq n k out ri cbs o' hn hr ha =>
      simp at hm
      subst hm
      exact Or.inr ⟨rq, n, k, out, ri, [], hn, hr, by simp [traceFin, completionInner_finish hr ha], Or.inl ⟨cbs, ha, rfl⟩⟩
  | backup rq n k out ri cbs tail hn hr ha htl =>
      have hl : FEv.innerCall c k rq :: FEv.innerDone c k out :: (cbs.map (FEv.callback c) ++ tail)
          = traceFin cfg c rq n k out ++ tail := by simp [traceFin, completionInner_backup hr ha]
      have hmt : FEv.result c o ∈ tail := by simpa using hm
      cases htl with
      | notReady =>
          simp at hmt
          subst hmt
          exact Or.inr ⟨rq, n, k, out, ri, _, hn, hr, hl, Or.inr (Or.inr ⟨cbs, ha, rfl, rfl⟩)⟩
      | calling k2 => simp at hmt
      | dropped k2 => simp at hmt
      | panicked k2 out2 hn2 hr2 => simp at hmt
      | finished k2 out2 rb hn2 hr2 =>
          simp at hmt
          subst hmt
          exact Or.inr ⟨rq, n, k, out, ri, _, hn, hr, hl, Or.inr (Or.inl ⟨cbs, k2, out2, rb, ha, hn2, hr2, rfl, rfl⟩)⟩

/-- a callback in a request's trace belongs to the decision on the result of its inner call -/
theorem callback_mem_trace {cfg : Cfg} {c : Nat} {l : List FEv} {cb : Callback} (ht : Trace cfg c l)
    (hm : FEv.callback c cb ∈ l) :
    ∃ rq n k out ri, FEv.innerCall c k rq ∈ l ∧ FEv.innerDone c k out ∈ l ∧ svcResult rq k out = some ri ∧
      cb ∈ (afterInner cfg rq n ri).cbs := by
  cases ht with
  | none => simp at hm
  | calling rq k => simp at hm
  | notReady => simp at hm
  | readyFailed => simp at hm
  | droppedInner rq k => simp at hm
  | panicked rq k out hn hr => simp at hm
  | finished rq n k out ri cbs o' hn hr ha =>
      simp at hm
      exact ⟨rq, n, k, out, ri, by simp, by simp, hr, by rw [ha]; exact hm⟩
  | backup rq n k out ri cbs tail hn hr ha htl =>
      simp only [List.mem_cons, reduceCtorEq, false_or, List.mem_append, List.mem_map, FEv.callback.injEq, true_and,
        exists_eq_right] at hm
      rcases hm with hm | hm
      · exact ⟨rq, n, k, out, ri, by simp, by simp, hr, by rw [ha]; exact hm⟩
      · exact absurd hm (callback_not_mem_tail htl c cb)

section realise
theorem equations_realised_count : True := by
  have := @isInnerDone.eq_1
  have := @plain.eq_1
  have := @isCallback.eq_1
  have := @Blocks.eq_1
  trivial
end realise

end TR.Fallback
