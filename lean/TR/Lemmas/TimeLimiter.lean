import TR.Model.TimeLimiter
/-!
# Time limiter: locality of the per-caller records, the per-caller invariant, and the
one-step decision lemmas (helper lemmas for C06)
-/
namespace TR.TimeLimiter

/-! ## association lists -/

theorem lookup_setC (l : List (Nat × Caller)) (c c' : Nat) (v : Caller) :
    lookup (setC l c v) c' = if c' = c then (lookup l c).map (fun _ => v) else lookup l c' := by
  induction l with
  | nil => simp [setC, lookup]
  | cons p tl ih =>
    obtain ⟨k, w⟩ := p
    simp only [setC, List.map_cons] at ih ⊢
    by_cases hk : k = c
    · subst hk
      by_cases hc : c' = k
      · subst hc; simp [lookup]
      · have hc' : ¬ k = c' := fun h => hc h.symm
        simp [lookup, hc, hc', ih]
    · by_cases hc : c' = c
      · subst hc
        simp [lookup, hk, ih]
      · by_cases hkc : k = c'
        · simp [lookup, hkc, hc]
        · simp [lookup, hk, hkc, hc, ih]

theorem lookup_mapSnd (l : List (Nat × Caller)) (g : Caller → Caller) (c : Nat) :
    lookup (l.map (fun p => (p.1, g p.2))) c = (lookup l c).map g := by
  induction l with
  | nil => simp [lookup]
  | cons p tl ih =>
    obtain ⟨k, w⟩ := p
    by_cases hk : k = c <;> simp [lookup, hk, ih]

theorem lookup_snoc (l : List (Nat × Caller)) (c c' : Nat) (v : Caller) :
    lookup (l ++ [(c, v)]) c' =
      match lookup l c' with
      | some x => some x
      | none => if c = c' then some v else none := by
  induction l with
  | nil => simp [lookup]
  | cons p tl ih =>
    obtain ⟨k, w⟩ := p
    by_cases hk : k = c' <;> simp [lookup, hk, ih]

/-! ## locality: what an operation does to the record of one caller -/

/-- the clock and the record of caller `c` -/
def proj (s : State) (c : Nat) : Nat × Option Caller := (s.now, lookup s.callers c)

/-- the operations that concern caller `c`: its own, and the passing of time -/
def relevant (c : Nat) : Op → Bool
  | .adv _ => true
  | .arrive c' _ _ => c' = c
  | .poll c' => c' = c
  | .drop c' => c' = c
  | .refused _ _ => false      -- a refused arrival leaves no record: it concerns nobody's call

/-- the single-caller machine: clock + the record of one caller -/
def track (cfg : Cfg) (c : Nat) (p : Nat × Option Caller) (op : Op) : Nat × Option Caller :=
  match op with
  | .adv ms => (p.1 + ms, p.2.map (fun x => (advC cfg (p.1 + ms) x).1))
  | .arrive c' tmo sc =>
      if c' = c then
        (p.1, match p.2 with
              | some x => some x
              | none => some (newCaller (effTimeout cfg tmo) sc))
      else p
  | .poll c' => if c' = c then (p.1, p.2.map (fun x => (pollC cfg p.1 x).1)) else p
  | .drop c' => if c' = c then (p.1, p.2.map (fun x => (dropC cfg p.1 x).1)) else p
  | .refused _ _ => p

theorem proj_applyC (s : State) (c' c : Nat) (f : Caller → Caller × List CEv) :
    proj (applyC s c' f) c =
      if c' = c then (s.now, (lookup s.callers c).map (fun x => (f x).1)) else proj s c := by
  unfold applyC proj
  by_cases hc : c' = c
  · subst hc
    cases hx : lookup s.callers c' with
    | none => simp [hx]
    | some x => simp [hx, lookup_setC]
  · have hc2 : ¬ c = c' := fun h => hc h.symm
    cases hx : lookup s.callers c' with
    | none => simp [hc]
    | some x => simp [hc, hc2, lookup_setC]

/-- one step of the service, seen from caller `c`, is one step of the single-caller machine -/
theorem proj_step (cfg : Cfg) (s : State) (op : Op) (c : Nat) :
    proj (stepS cfg s op) c = track cfg c (proj s c) op := by
  cases op with
  | adv ms =>
    simp only [stepS, proj, track]
    rw [lookup_mapSnd s.callers (fun x => (advC cfg (s.now + ms) x).1) c]
  | arrive c' tmo sc =>
    simp only [stepS, track]
    by_cases hc : c' = c
    · subst hc
      cases hx : lookup s.callers c' with
      | none => simp [proj, hx, lookup_snoc]
      | some x => simp [proj, hx]
    · cases hx : lookup s.callers c' with
      | none =>
        simp only [proj, hc, if_false, lookup_snoc]
        cases lookup s.callers c <;> simp
      | some x => simp [proj, hc]
  | poll c' => simp only [stepS, track, proj_applyC]; rfl
  | drop c' => simp only [stepS, track, proj_applyC]; rfl
  | refused c' e =>
    simp only [stepS, track]
    cases lookup s.callers c' <;> rfl

theorem proj_foldl (cfg : Cfg) (ops : List Op) (s : State) (c : Nat) :
    proj (ops.foldl (stepS cfg) s) c = ops.foldl (track cfg c) (proj s c) := by
  induction ops generalizing s with
  | nil => rfl
  | cons o os ih => simp only [List.foldl_cons, ih, proj_step]

theorem proj_run (cfg : Cfg) (ops : List Op) (c : Nat) :
    proj (run cfg ops) c = ops.foldl (track cfg c) (0, none) :=
  proj_foldl cfg ops init c

theorem track_irrelevant (cfg : Cfg) (c : Nat) (p : Nat × Option Caller) (op : Op)
    (h : relevant c op = false) : track cfg c p op = p := by
  cases op <;> simp_all [relevant, track]

theorem track_filter (cfg : Cfg) (c : Nat) (ops : List Op) (p : Nat × Option Caller) :
    (ops.filter (relevant c)).foldl (track cfg c) p = ops.foldl (track cfg c) p := by
  induction ops generalizing p with
  | nil => rfl
  | cons o os ih =>
    cases h : relevant c o
    · simp [h, ih, track_irrelevant cfg c p o h]
    · simp [h, ih]

/-! ## the per-caller invariant -/

structure CInv (cfg : Cfg) (now : Nat) (x : Caller) : Prop where
  freshHist : x.outer = .fresh → x.hist = [] ∧ x.inner = .idle
  started : x.outer = .waiting → x.inner ≠ .idle
  ncInner : cfg.cancel = false → x.inner ≠ .dropped
  ncSync : cfg.cancel = false → x.inner ≠ .idle →
    (x.inner = .finished ↔ (x.sc.out ≠ .never ∧ x.doneAt ≤ now))
  ncDone : cfg.cancel = false → x.inner = .finished →
    ∃ t, (t, CEv.done x.sc.out) ∈ x.hist ∧ x.doneAt ≤ t ∧ t ≤ now
  ncNoDrop : cfg.cancel = false → ∀ t, (t, CEv.dropped) ∉ x.hist
  cTimeout : cfg.cancel = true → ∀ t, (t, CEv.result .timeout) ∈ x.hist →
    (t, CEv.dropped) ∈ x.hist ∧ x.due t
  resLate : ∀ t r, (t, CEv.result r) ∈ x.hist →
    (x.sc.out ≠ .never ∧ x.doneAt ≤ t) ∨ x.due t
  resGone : ∀ t r, (t, CEv.result r) ∈ x.hist → x.outer = .gone
  /-- a timeout is reported only for a call that did not finish before its deadline -/
  toLate : ∀ t, (t, CEv.result .timeout) ∈ x.hist → x.sc.out ≠ .panic →
    (x.sc.out = .never ∨ x.deadline ≤ x.doneAt)
  /-- … and never for a call without a deadline (timeout `Duration::MAX`) -/
  toUnl : ∀ t, (t, CEv.result .timeout) ∈ x.hist → x.sc.out ≠ .panic → x.unl = false

@[simp] theorem note_fst (now : Nat) (x : Caller) (evs : List CEv) :
    (note now x evs).1 = { x with hist := x.hist ++ evs.map (fun e => (now, e)) } := rfl
@[simp] theorem note_snd (now : Nat) (x : Caller) (evs : List CEv) : (note now x evs).2 = evs := rfl

theorem resOf_ne_timeout {o : Out} (h : o ≠ .never) : resOf o ≠ .timeout := by
  cases o <;> simp_all [resOf]

theorem inv_new (cfg : Cfg) (now : Nat) (tmo : Tmo) (sc : Step) : CInv cfg now (newCaller tmo sc) := by
  constructor <;> simp [newCaller]

/-- the deadline, once reached, stays reached -/
theorem due_mono {x : Caller} {t t' : Nat} (h : x.due t) (hle : t ≤ t') : x.due t' :=
  ⟨h.1, Nat.le_trans h.2 hle⟩

theorem not_due_of_unl {x : Caller} (h : x.unl = true) (t : Nat) : ¬ x.due t := by
  intro hd; rw [hd.1] at h; cases h

theorem pollCancel_inv (cfg : Cfg) (now : Nat) (x : Caller) (hc : cfg.cancel = true)
    (h : CInv cfg now x) : CInv cfg now (pollCancel now x).1 := by
  have hcf : ¬ cfg.cancel = false := by simp [hc]
  unfold pollCancel
  split
  · rename_i hd
    have hne := resOf_ne_timeout hd.1
    have hdone : x.doneAt ≤ now := hd.2
    constructor
    · simp
    · simp
    · intro h'; exact absurd h' hcf
    · intro h'; exact absurd h' hcf
    · intro h'; exact absurd h' hcf
    · intro h'; exact absurd h' hcf
    · intro _ t ht
      have ht' : (t, CEv.result .timeout) ∈ x.hist := by
        simpa [hne, Ne.symm hne] using ht
      have := h.cTimeout hc t ht'
      exact ⟨by simp [this.1], by simpa [Caller.due, Caller.deadline] using this.2⟩
    · intro t r ht
      have ht' : (t, CEv.result r) ∈ x.hist ∨ (t = now ∧ r = resOf x.sc.out) := by
        simpa using ht
      rcases ht' with ht' | ht'
      · simpa [Caller.doneAt, Caller.due, Caller.deadline] using h.resLate t r ht'
      · left; rw [ht'.1]; exact ⟨hd.1, by simpa [Caller.doneAt] using hdone⟩
    · intro t r _; simp
    · intro t ht hnp
      have ht' : (t, CEv.result .timeout) ∈ x.hist := by
        simpa [hne, Ne.symm hne] using ht
      simpa [Caller.doneAt, Caller.deadline] using h.toLate t ht' hnp
    · intro t ht hnp
      have ht' : (t, CEv.result .timeout) ∈ x.hist := by
        simpa [hne, Ne.symm hne] using ht
      simpa using h.toUnl t ht' hnp
  · rename_i hnd
    split
    · rename_i hd
      constructor
      · simp
      · simp
      · intro h'; exact absurd h' hcf
      · intro h'; exact absurd h' hcf
      · intro h'; exact absurd h' hcf
      · intro h'; exact absurd h' hcf
      · intro _ t ht
        have ht' : (t, CEv.result .timeout) ∈ x.hist ∨ t = now := by
          simpa using ht
        rcases ht' with ht' | ht'
        · have := h.cTimeout hc t ht'
          exact ⟨by simp [this.1], by simpa [Caller.due, Caller.deadline] using this.2⟩
        · subst ht'; exact ⟨by simp, by simpa [Caller.due, Caller.deadline] using hd⟩
      · intro t r ht
        have ht' : (t, CEv.result r) ∈ x.hist ∨ (t = now ∧ r = .timeout) := by
          simpa using ht
        rcases ht' with ht' | ht'
        · simpa [Caller.doneAt, Caller.due, Caller.deadline] using h.resLate t r ht'
        · right; rw [ht'.1]; simpa [Caller.due, Caller.deadline] using hd
      · intro t r _; simp
      · intro t ht hnp
        have ht' : (t, CEv.result .timeout) ∈ x.hist ∨ t = now := by
          simpa using ht
        rcases ht' with ht' | ht'
        · simpa [Caller.doneAt, Caller.deadline] using h.toLate t ht' hnp
        · by_cases ho : x.sc.out = .never
          · left; simpa using ho
          · right
            have h1 : ¬ x.doneAt ≤ now := fun hle => hnd ⟨ho, hle⟩
            have hd2 : x.deadline ≤ now := hd.2
            have h2 : x.deadline ≤ x.doneAt := by omega
            simpa [Caller.doneAt, Caller.deadline] using h2
      · intro t ht hnp
        have ht' : (t, CEv.result .timeout) ∈ x.hist ∨ t = now := by
          simpa using ht
        rcases ht' with ht' | ht'
        · simpa using h.toUnl t ht' hnp
        · simpa using hd.1
    · exact h

theorem firstPollCancel_inv (cfg : Cfg) (now : Nat) (x : Caller) (hc : cfg.cancel = true)
    (hf : x.outer = .fresh) (h : CInv cfg now x) : CInv cfg now (firstPollCancel now x).1 := by
  have hcf : ¬ cfg.cancel = false := by simp [hc]
  have hh := (h.freshHist hf).1
  have hmid : CInv cfg now (note now (begin now x) [.called]).1 := by
    constructor
    · simp [begin]
    · simp [begin]
    · intro h'; exact absurd h' hcf
    · intro h'; exact absurd h' hcf
    · intro h'; exact absurd h' hcf
    · intro h'; exact absurd h' hcf
    · intro _ t ht; simp [begin, hh] at ht
    · intro t r ht; simp [begin, hh] at ht
    · intro t r ht; simp [begin, hh] at ht
    · intro t ht; simp [begin, hh] at ht
    · intro t ht; simp [begin, hh] at ht
  have := pollCancel_inv cfg now _ hc hmid
  simpa [firstPollCancel] using this

theorem run_or_fin {x : Caller} (h1 : x.inner ≠ .idle) (h2 : x.inner ≠ .dropped) :
    x.inner = .running ∨ x.inner = .finished := by
  cases hx : x.inner <;> simp_all

theorem runTask_inv (cfg : Cfg) (now now' : Nat) (x : Caller) (hc : cfg.cancel = false)
    (hle : now ≤ now') (hni : x.inner ≠ .idle) (h : CInv cfg now x) :
    CInv cfg now' (runTask now' x).1 := by
  have hct : ¬ cfg.cancel = true := by simp [hc]
  have hi := run_or_fin hni (h.ncInner hc)
  have hs := h.ncSync hc hni
  unfold runTask
  split
  · rename_i hd
    have hdone : x.doneAt ≤ now' := hd.2.2
    constructor
    · intro h'; exact absurd (h.freshHist (by simpa using h')).2 hni
    · simp
    · simp
    · intro _ _; simp only [note_fst]; simp [Caller.doneAt]
      exact ⟨hd.2.1, by simpa [Caller.doneAt] using hdone⟩
    · intro _ _
      exact ⟨now', by simp, by simpa [Caller.doneAt] using hdone, Nat.le_refl _⟩
    · intro _ t ht
      exact h.ncNoDrop hc t (by simpa using ht)
    · intro h'; exact absurd h' hct
    · intro t r ht
      simpa [Caller.doneAt, Caller.due, Caller.deadline] using h.resLate t r (by simpa using ht)
    · intro t r ht
      simpa using h.resGone t r (by simpa using ht)
    · intro t ht hnp
      simpa [Caller.doneAt, Caller.deadline] using h.toLate t (by simpa using ht) hnp
    · intro t ht hnp
      simpa using h.toUnl t (by simpa using ht) hnp
  · rename_i hd
    show CInv cfg now' x
    constructor
    · exact h.freshHist
    · exact h.started
    · exact h.ncInner
    · intro _ _
      constructor
      · intro hfin
        have := (hs.mp hfin)
        exact ⟨this.1, by omega⟩
      · intro hcond
        rcases hi with hi | hi
        · exact absurd ⟨hi, hcond.1, hcond.2⟩ hd
        · exact hi
    · intro _ hfin
      obtain ⟨t, h1, h2, h3⟩ := h.ncDone hc hfin
      exact ⟨t, h1, h2, by omega⟩
    · exact h.ncNoDrop
    · exact h.cTimeout
    · exact h.resLate
    · exact h.resGone
    · exact h.toLate
    · exact h.toUnl

theorem resolveDetached_inv (cfg : Cfg) (now : Nat) (x : Caller) (r : CRes) (hc : cfg.cancel = false)
    (hlate : (x.sc.out ≠ .never ∧ x.doneAt ≤ now) ∨ x.due now)
    (hr : r = .timeout → x.sc.out ≠ .panic →
      (x.sc.out = .never ∨ x.deadline ≤ x.doneAt) ∧ x.unl = false)
    (h : CInv cfg now x) : CInv cfg now (note now { x with outer := .gone } [.result r]).1 := by
  have hct : ¬ cfg.cancel = true := by simp [hc]
  constructor
  · simp
  · simp
  · intro _; simpa using h.ncInner hc
  · intro _ hni; simpa [Caller.doneAt] using h.ncSync hc (by simpa using hni)
  · intro _ hfin
    obtain ⟨t, h1, h2, h3⟩ := h.ncDone hc (by simpa using hfin)
    exact ⟨t, by simp [h1], by simpa [Caller.doneAt] using h2, h3⟩
  · intro _ t ht
    exact h.ncNoDrop hc t (by simpa using ht)
  · intro h'; exact absurd h' hct
  · intro t r' ht
    have ht' : (t, CEv.result r') ∈ x.hist ∨ (t = now ∧ r' = r) := by simpa using ht
    rcases ht' with ht' | ht'
    · simpa [Caller.doneAt, Caller.due, Caller.deadline] using h.resLate t r' ht'
    · rw [ht'.1]; simpa [Caller.doneAt, Caller.due, Caller.deadline] using hlate
  · intro t r' _; simp
  · intro t ht hnp
    have ht' : (t, CEv.result .timeout) ∈ x.hist ∨ (t = now ∧ CRes.timeout = r) := by simpa using ht
    rcases ht' with ht' | ht'
    · simpa [Caller.doneAt, Caller.deadline] using h.toLate t ht' (by simpa using hnp)
    · simpa [Caller.doneAt, Caller.deadline] using (hr ht'.2.symm (by simpa using hnp)).1
  · intro t ht hnp
    have ht' : (t, CEv.result .timeout) ∈ x.hist ∨ (t = now ∧ CRes.timeout = r) := by simpa using ht
    rcases ht' with ht' | ht'
    · simpa using h.toUnl t ht' (by simpa using hnp)
    · simpa using (hr ht'.2.symm (by simpa using hnp)).2

theorem resRx_timeout {o : Out} (h : resRx o = .timeout) (h1 : o ≠ .panic) : o = .never := by
  cases o <;> simp_all [resRx]

theorem pollDetached_inv (cfg : Cfg) (now : Nat) (x : Caller) (hc : cfg.cancel = false)
    (hw : x.outer = .waiting) (h : CInv cfg now x) : CInv cfg now (pollDetached now x).1 := by
  have hs := h.ncSync hc (h.started hw)
  unfold pollDetached
  split
  · rename_i hfin
    exact resolveDetached_inv cfg now x _ hc (Or.inl (hs.mp hfin))
      (fun hr hnp => absurd (resRx_timeout hr hnp) (hs.mp hfin).1) h
  · rename_i hnf
    split
    · rename_i hd
      refine resolveDetached_inv cfg now x _ hc (Or.inr hd) (fun _ _ => ⟨?_, hd.1⟩) h
      by_cases ho : x.sc.out = .never
      · exact Or.inl ho
      · right
        have h1 : ¬ x.doneAt ≤ now := fun hle => hnf (hs.mpr ⟨ho, hle⟩)
        have hd2 : x.deadline ≤ now := hd.2
        omega
    · exact h

/-- the state right after the spawn: begun, `called` noted (possibly after an immediate
timeout for a zero timeout), the task not yet looked at -/
theorem spawned_runTask_inv (cfg : Cfg) (now : Nat) (y : Caller) (hc : cfg.cancel = false)
    (hnf : y.outer ≠ .fresh) (hrun : y.inner = .running)
    (hnd : ∀ t, (t, CEv.dropped) ∉ y.hist)
    (hres : ∀ t r, (t, CEv.result r) ∈ y.hist → y.due t ∧ y.outer = .gone)
    (hto : ∀ t, (t, CEv.result .timeout) ∈ y.hist → (y.sc.out = .never ∨ y.deadline ≤ y.doneAt)) :
    CInv cfg now (runTask now y).1 := by
  have hct : ¬ cfg.cancel = true := by simp [hc]
  unfold runTask
  split
  · rename_i hd
    have hdone : y.doneAt ≤ now := hd.2.2
    constructor
    · intro h'; exact absurd (by simpa using h') hnf
    · simp
    · simp
    · intro _ _; simp only [note_fst]; simp [Caller.doneAt]
      exact ⟨hd.2.1, by simpa [Caller.doneAt] using hdone⟩
    · intro _ _
      exact ⟨now, by simp, by simpa [Caller.doneAt] using hdone, Nat.le_refl _⟩
    · intro _ t ht
      exact hnd t (by simpa using ht)
    · intro h'; exact absurd h' hct
    · intro t r ht
      right; simpa [Caller.due, Caller.deadline] using (hres t r (by simpa using ht)).1
    · intro t r ht
      simpa using (hres t r (by simpa using ht)).2
    · intro t ht _
      simpa [Caller.doneAt, Caller.deadline] using hto t (by simpa using ht)
    · intro t ht _
      simpa using (hres t _ (by simpa using ht)).1.1
  · rename_i hd
    show CInv cfg now y
    constructor
    · intro h'; exact absurd h' hnf
    · intro _; rw [hrun]; simp
    · intro _; rw [hrun]; simp
    · intro _ _
      constructor
      · intro hfin; rw [hrun] at hfin; cases hfin
      · intro hcond; exact absurd ⟨hrun, hcond.1, hcond.2⟩ hd
    · intro _ hfin; rw [hrun] at hfin; cases hfin
    · intro _; exact hnd
    · intro h'; exact absurd h' hct
    · intro t r ht; right; exact (hres t r ht).1
    · intro t r ht; exact (hres t r ht).2
    · intro t ht _; exact hto t ht
    · intro t ht _; exact (hres t _ ht).1.1

theorem firstPollDetached_inv (cfg : Cfg) (now : Nat) (x : Caller) (hc : cfg.cancel = false)
    (hf : x.outer = .fresh) (h : CInv cfg now x) : CInv cfg now (firstPollDetached now x).1 := by
  have hh := (h.freshHist hf).1
  unfold firstPollDetached
  split
  · rename_i h0
    simp only [expire]
    apply spawned_runTask_inv cfg now _ hc
    · simp [begin]
    · simp [begin]
    · intro t; simp [begin, hh]
    · intro t r ht
      have : t = now := by
        have := ht; simp [begin, hh] at this; exact this.1
      subst this
      simp [begin, Caller.due, Caller.deadline, h0.1, h0.2]
    · intro t _; right; simp [begin, Caller.deadline, Caller.doneAt, h0.2]
  · rename_i h0
    simp only []
    apply spawned_runTask_inv cfg now _ hc
    · simp [begin]
    · simp [begin]
    · intro t; simp [begin, hh]
    · intro t r ht; simp [begin, hh] at ht
    · intro t ht; simp [begin, hh] at ht

theorem pollC_inv (cfg : Cfg) (now : Nat) (x : Caller) (h : CInv cfg now x) :
    CInv cfg now (pollC cfg now x).1 := by
  unfold pollC
  split
  · rename_i hf
    cases hc : cfg.cancel
    · simpa [hc] using firstPollDetached_inv cfg now x hc hf h
    · simpa [hc] using firstPollCancel_inv cfg now x hc hf h
  · rename_i hw
    cases hc : cfg.cancel
    · simpa [hc] using pollDetached_inv cfg now x hc hw h
    · simpa [hc] using pollCancel_inv cfg now x hc h
  · exact h

theorem dropC_inv (cfg : Cfg) (now : Nat) (x : Caller) (h : CInv cfg now x) :
    CInv cfg now (dropC cfg now x).1 := by
  unfold dropC
  split
  · rename_i hf
    have hh := h.freshHist hf
    constructor
    · simp
    · simp
    · intro _; simp [hh.2]
    · intro _ hni; simp [hh.2] at hni
    · intro _ hfin; simp [hh.2] at hfin
    · intro _ t ht; simp [hh.1] at ht
    · intro _ t ht; simp [hh.1] at ht
    · intro t r ht; simp [hh.1] at ht
    · intro t r _; simp
    · intro t ht; simp [hh.1] at ht
    · intro t ht; simp [hh.1] at ht
  · rename_i hw
    cases hc : cfg.cancel
    · simp only [Bool.false_eq_true, if_false]
      constructor
      · simp
      · simp
      · intro _; exact h.ncInner hc
      · intro _ hni; exact h.ncSync hc hni
      · exact fun _ => h.ncDone hc
      · exact fun _ => h.ncNoDrop hc
      · intro h'; simp [hc] at h'
      · exact h.resLate
      · intro t r _; simp
      · exact h.toLate
      · exact h.toUnl
    · simp only [if_true]
      constructor
      · simp
      · simp
      · intro h'; simp [hc] at h'
      · intro h'; simp [hc] at h'
      · intro h'; simp [hc] at h'
      · intro h'; simp [hc] at h'
      · intro _ t ht
        have := h.cTimeout hc t (by simpa using ht)
        exact ⟨by simp [this.1], by simpa [Caller.due, Caller.deadline] using this.2⟩
      · intro t r ht
        simpa [Caller.doneAt, Caller.due, Caller.deadline] using h.resLate t r (by simpa using ht)
      · intro t r _; simp
      · intro t ht hnp
        simpa [Caller.doneAt, Caller.deadline] using h.toLate t (by simpa using ht) hnp
      · intro t ht hnp
        simpa using h.toUnl t (by simpa using ht) hnp
  · exact h

theorem inv_mono_cancel (cfg : Cfg) (now now' : Nat) (x : Caller) (hc : cfg.cancel = true)
    (h : CInv cfg now x) : CInv cfg now' x := by
  have hcf : ¬ cfg.cancel = false := by simp [hc]
  exact ⟨h.freshHist, h.started, fun h' => absurd h' hcf, fun h' => absurd h' hcf,
    fun h' => absurd h' hcf, fun h' => absurd h' hcf, h.cTimeout, h.resLate, h.resGone, h.toLate, h.toUnl⟩

theorem inv_mono_idle (cfg : Cfg) (now now' : Nat) (x : Caller) (hi : x.inner = .idle)
    (h : CInv cfg now x) : CInv cfg now' x := by
  constructor
  · exact h.freshHist
  · exact h.started
  · exact h.ncInner
  · intro _ hni; exact absurd hi hni
  · intro _ hfin; simp [hi] at hfin
  · exact h.ncNoDrop
  · exact h.cTimeout
  · exact h.resLate
  · exact h.resGone
  · exact h.toLate
  · exact h.toUnl

theorem advC_inv (cfg : Cfg) (now now' : Nat) (x : Caller) (hle : now ≤ now')
    (h : CInv cfg now x) : CInv cfg now' (advC cfg now' x).1 := by
  unfold advC
  cases hc : cfg.cancel
  · simp only [Bool.false_eq_true, if_false]
    by_cases hi : x.inner = .idle
    · have : runTask now' x = (x, []) := by simp [runTask, hi]
      rw [this]; exact inv_mono_idle cfg now now' x hi h
    · exact runTask_inv cfg now now' x hc hle hi h
  · simp only [if_true]; exact inv_mono_cancel cfg now now' x hc h

/-- the invariant along the single-caller machine -/
def PInv (cfg : Cfg) (p : Nat × Option Caller) : Prop := ∀ x, p.2 = some x → CInv cfg p.1 x

theorem track_inv (cfg : Cfg) (c : Nat) (p : Nat × Option Caller) (op : Op) (h : PInv cfg p) :
    PInv cfg (track cfg c p op) := by
  obtain ⟨now, ox⟩ := p
  cases op with
  | adv ms =>
    intro x hx
    cases ox with
    | none => simp [track] at hx
    | some y =>
      simp [track] at hx
      subst hx
      exact advC_inv cfg now (now + ms) y (by omega) (h y rfl)
  | arrive c' tmo sc =>
    simp only [track]
    split
    · intro x hx
      cases ox with
      | none => simp at hx; subst hx; exact inv_new cfg now _ _
      | some y => simp at hx; subst hx; exact h y rfl
    · exact h
  | poll c' =>
    simp only [track]
    split
    · intro x hx
      cases ox with
      | none => simp at hx
      | some y => simp at hx; subst hx; exact pollC_inv cfg now y (h y rfl)
    · exact h
  | drop c' =>
    simp only [track]
    split
    · intro x hx
      cases ox with
      | none => simp at hx
      | some y => simp at hx; subst hx; exact dropC_inv cfg now y (h y rfl)
    · exact h
  | refused c' e => exact h

theorem track_foldl_inv (cfg : Cfg) (c : Nat) (ops : List Op) (p : Nat × Option Caller)
    (h : PInv cfg p) : PInv cfg (ops.foldl (track cfg c) p) := by
  induction ops generalizing p with
  | nil => exact h
  | cons o os ih => exact ih _ (track_inv cfg c p o h)

/-- every record of every reachable state satisfies the invariant -/
theorem inv_reachable (cfg : Cfg) (ops : List Op) (c : Nat) (x : Caller)
    (hx : lookup (run cfg ops).callers c = some x) : CInv cfg (run cfg ops).now x := by
  have h := track_foldl_inv cfg c ops (0, none) (by intro x hx; simp at hx)
  rw [← proj_run] at h
  exact h x hx

/-! ## one-step decisions of a waiting caller -/

/-- the instant from which a poll resolves the call: `min(done, deadline)` (for a call that has a
deadline: `Caller.awake` is the general form) -/
def Caller.wakeAt (x : Caller) : Nat :=
  if x.sc.out = .never then x.deadline else min x.doneAt x.deadline

/-- there is something to be had from polling at `now`: the inner call has finished, or the
deadline has been reached.  With a timeout of `Duration::MAX` only the former is possible. -/
def Caller.awake (x : Caller) (now : Nat) : Prop :=
  (x.sc.out ≠ .never ∧ x.doneAt ≤ now) ∨ x.due now

theorem pollCancel_done (now : Nat) (x : Caller) (h1 : x.sc.out ≠ .never) (h2 : x.doneAt ≤ now) :
    pollCancel now x =
      note now { x with outer := .gone, inner := .finished } [.done x.sc.out, .result (resOf x.sc.out)] := by
  simp [pollCancel, h1, h2]

theorem pollCancel_timeout (now : Nat) (x : Caller) (h1 : x.sc.out = .never ∨ now < x.doneAt)
    (h2 : x.due now) :
    pollCancel now x = note now { x with outer := .gone, inner := .dropped } [.dropped, .result .timeout] := by
  have : ¬ (x.sc.out ≠ .never ∧ x.doneAt ≤ now) := by
    rcases h1 with h1 | h1
    · simp [h1]
    · intro h; omega
  simp [pollCancel, this, h2]

theorem pollCancel_pending (now : Nat) (x : Caller) (h1 : x.sc.out = .never ∨ now < x.doneAt)
    (h2 : ¬ x.due now) : pollCancel now x = (x, []) := by
  have : ¬ (x.sc.out ≠ .never ∧ x.doneAt ≤ now) := by
    rcases h1 with h1 | h1
    · simp [h1]
    · intro h; omega
  simp [pollCancel, this, h2]

theorem pollC_waiting_cancel (cfg : Cfg) (now : Nat) (x : Caller)
    (hw : x.outer = .waiting) (hc : cfg.cancel = true) : pollC cfg now x = pollCancel now x := by
  simp [pollC, hw, hc]

theorem pollC_waiting_detached (cfg : Cfg) (now : Nat) (x : Caller)
    (hw : x.outer = .waiting) (hc : cfg.cancel = false) :
    pollC cfg now x = pollDetached now x := by
  simp [pollC, hw, hc]

/-- non-cancel mode, reachable record: "the task has delivered" is the same as "its latency is over" -/
theorem finished_iff (cfg : Cfg) (now : Nat) (x : Caller) (h : CInv cfg now x)
    (hc : cfg.cancel = false) (hw : x.outer = .waiting) :
    x.inner = .finished ↔ (x.sc.out ≠ .never ∧ x.doneAt ≤ now) :=
  h.ncSync hc (h.started hw)

/-- the biased `select!`: a delivered result wins, also at or after the deadline -/
theorem pollDetached_inner (cfg : Cfg) (now : Nat) (x : Caller) (h : CInv cfg now x)
    (hc : cfg.cancel = false) (hw : x.outer = .waiting)
    (h1 : x.sc.out ≠ .never) (h2 : x.doneAt ≤ now) :
    pollDetached now x = note now { x with outer := .gone } [.result (resRx x.sc.out)] := by
  have hf := (finished_iff cfg now x h hc hw).mpr ⟨h1, h2⟩
  simp [pollDetached, hf, deliver]

theorem pollDetached_timeout (cfg : Cfg) (now : Nat) (x : Caller) (h : CInv cfg now x)
    (hc : cfg.cancel = false) (hw : x.outer = .waiting)
    (h1 : x.sc.out = .never ∨ now < x.doneAt) (h2 : x.due now) :
    pollDetached now x = note now { x with outer := .gone } [.result .timeout] := by
  have hf : ¬ x.inner = .finished := by
    intro hfin
    have := (finished_iff cfg now x h hc hw).mp hfin
    rcases h1 with h1 | h1
    · exact this.1 h1
    · omega
  simp [pollDetached, hf, h2, expire]

theorem pollDetached_pending (cfg : Cfg) (now : Nat) (x : Caller) (h : CInv cfg now x)
    (hc : cfg.cancel = false) (hw : x.outer = .waiting)
    (h1 : x.sc.out = .never ∨ now < x.doneAt) (h2 : ¬ x.due now) :
    pollDetached now x = (x, []) := by
  have hf : ¬ x.inner = .finished := by
    intro hfin
    have := (finished_iff cfg now x h hc hw).mp hfin
    rcases h1 with h1 | h1
    · exact this.1 h1
    · omega
  simp [pollDetached, hf, h2]

theorem wakeAt_le (x : Caller) (now : Nat) :
    x.wakeAt ≤ now ↔ ((x.sc.out ≠ .never ∧ x.doneAt ≤ now) ∨ x.deadline ≤ now) := by
  unfold Caller.wakeAt
  split
  · rename_i hn; simp [hn]
  · rename_i hn; simp [hn]; omega

/-- a call with a deadline: there is something to be had from `min(done, deadline)` on -/
theorem awake_iff_wakeAt (x : Caller) (now : Nat) (hu : x.unl = false) :
    x.awake now ↔ x.wakeAt ≤ now := by
  rw [wakeAt_le]; simp [Caller.awake, Caller.due, hu]

/-- a call without a deadline (`Duration::MAX`): only once the inner call has finished -/
theorem awake_iff_done (x : Caller) (now : Nat) (hu : x.unl = true) :
    x.awake now ↔ (x.sc.out ≠ .never ∧ x.doneAt ≤ now) := by
  simp [Caller.awake, Caller.due, hu]

/-- a waiting caller polled before `min(done, deadline)` stays as it is, silently -/
theorem poll_pending (cfg : Cfg) (now : Nat) (x : Caller) (h : CInv cfg now x)
    (hw : x.outer = .waiting) (hn : ¬ x.awake now) : pollC cfg now x = (x, []) := by
  have h1 : x.sc.out = .never ∨ now < x.doneAt := by
    by_cases ho : x.sc.out = .never
    · exact Or.inl ho
    · right
      have : ¬ x.doneAt ≤ now := fun hle => hn (Or.inl ⟨ho, hle⟩)
      omega
  have h2 : ¬ x.due now := fun hd => hn (Or.inr hd)
  cases hc : cfg.cancel
  · rw [pollC_waiting_detached cfg now x hw hc]
    exact pollDetached_pending cfg now x h hc hw h1 h2
  · rw [pollC_waiting_cancel cfg now x hw hc]
    exact pollCancel_pending now x h1 h2

/-- a waiting caller polled at or after `min(done, deadline)` resolves: its future is gone,
the last event is its result, and no inner call is started -/
theorem poll_resolves (cfg : Cfg) (now : Nat) (x : Caller) (h : CInv cfg now x)
    (hw : x.outer = .waiting) (hge : x.awake now) :
    (pollC cfg now x).1.outer = .gone ∧ CEv.called ∉ (pollC cfg now x).2 ∧
    ∃ pre r, (pollC cfg now x).2 = pre ++ [.result r] := by
  by_cases hdone : x.sc.out ≠ .never ∧ x.doneAt ≤ now
  · cases hc : cfg.cancel
    · rw [pollC_waiting_detached cfg now x hw hc,
        pollDetached_inner cfg now x h hc hw hdone.1 hdone.2]
      exact ⟨by simp, by simp, [], _, rfl⟩
    · rw [pollC_waiting_cancel cfg now x hw hc, pollCancel_done now x hdone.1 hdone.2]
      exact ⟨by simp, by simp, [.done x.sc.out], _, rfl⟩
  · have h1 : x.sc.out = .never ∨ now < x.doneAt := by
      by_cases ho : x.sc.out = .never
      · exact Or.inl ho
      · right
        have : ¬ x.doneAt ≤ now := fun hle => hdone ⟨ho, hle⟩
        omega
    have hd : x.due now := by
      rcases hge with hge | hge
      · exact absurd hge hdone
      · exact hge
    cases hc : cfg.cancel
    · rw [pollC_waiting_detached cfg now x hw hc, pollDetached_timeout cfg now x h hc hw h1 hd]
      exact ⟨by simp, by simp, [], _, rfl⟩
    · rw [pollC_waiting_cancel cfg now x hw hc, pollCancel_timeout now x h1 hd]
      exact ⟨by simp, by simp, [.dropped], _, rfl⟩

/-! ## what a step of the service appends to the log -/

theorem step_poll (cfg : Cfg) (s : State) (c : Nat) (x : Caller)
    (hx : lookup s.callers c = some x) (hnc : CEv.called ∉ (pollC cfg s.now x).2) :
    (stepS cfg s (.poll c)).log
        = s.log ++ (pollC cfg s.now x).2.map (toEv c ((lookup s.kOf c).getD 0))
    ∧ lookup (stepS cfg s (.poll c)).callers c = some (pollC cfg s.now x).1
    ∧ (stepS cfg s (.poll c)).now = s.now := by
  simp [stepS, applyC, hx, hnc, lookup_setC]

theorem step_drop (cfg : Cfg) (s : State) (c : Nat) (x : Caller)
    (hx : lookup s.callers c = some x) :
    lookup (stepS cfg s (.drop c)).callers c = some (dropC cfg s.now x).1 := by
  simp [stepS, applyC, hx, lookup_setC]

/-! ## the `inner_done` events of an advance -/

theorem mem_insDue (e x : Nat × Nat × Ev) (l : List (Nat × Nat × Ev)) :
    x ∈ insDue e l ↔ x = e ∨ x ∈ l := by
  induction l with
  | nil => simp [insDue]
  | cons h tl ih =>
    simp only [insDue]
    split
    · simp
    · simp [ih]; constructor
      · rintro (h1 | h1 | h1) <;> simp [h1]
      · rintro (h1 | h1 | h1) <;> simp [h1]

theorem mem_foldl_insDue (f : CEv → Nat × Nat × Ev) (evs : List CEv) (acc : List (Nat × Nat × Ev))
    (x : Nat × Nat × Ev) :
    x ∈ evs.foldl (fun acc e => insDue (f e) acc) acc ↔ x ∈ acc ∨ ∃ e ∈ evs, x = f e := by
  induction evs generalizing acc with
  | nil => simp
  | cons e tl ih =>
    simp only [List.foldl_cons, ih, mem_insDue]
    constructor
    · rintro ((h | h) | ⟨e', he', h⟩)
      · right; exact ⟨e, by simp, h⟩
      · left; exact h
      · right; exact ⟨e', by simp [he'], h⟩
    · rintro (h | ⟨e', he', h⟩)
      · left; right; exact h
      · simp at he'
        rcases he' with he' | he'
        · subst he'; left; left; exact h
        · right; exact ⟨e', he', h⟩

/-- the sort key and rendering of one completion -/
def dueKey (kOf : List (Nat × Nat)) (p : Nat × Caller) (e : CEv) : Nat × Nat × Ev :=
  (p.2.doneAt, (lookup kOf p.1).getD 0, toEv p.1 ((lookup kOf p.1).getD 0) e)

theorem mem_foldl_due (cfg : Cfg) (now : Nat) (kOf : List (Nat × Nat)) (l : List (Nat × Caller))
    (acc : List (Nat × Nat × Ev)) (x : Nat × Nat × Ev) :
    x ∈ l.foldl (fun acc p =>
          (advC cfg now p.2).2.foldl (fun acc e => insDue (dueKey kOf p e) acc) acc) acc
      ↔ x ∈ acc ∨ ∃ p ∈ l, ∃ e ∈ (advC cfg now p.2).2, x = dueKey kOf p e := by
  induction l generalizing acc with
  | nil => simp
  | cons p tl ih =>
    simp only [List.foldl_cons, ih, mem_foldl_insDue]
    constructor
    · rintro ((h | ⟨e, he, h⟩) | ⟨q, hq, e, he, h⟩)
      · left; exact h
      · right; exact ⟨p, by simp, e, he, h⟩
      · right; exact ⟨q, by simp [hq], e, he, h⟩
    · rintro (h | ⟨q, hq, e, he, h⟩)
      · left; left; exact h
      · simp at hq
        rcases hq with hq | hq
        · subst hq; left; right; exact ⟨e, he, h⟩
        · right; exact ⟨q, hq, e, he, h⟩

/-- an event produced by `advC` for a caller of the list is among the events of the advance -/
theorem mem_dueEvents (cfg : Cfg) (now : Nat) (kOf : List (Nat × Nat)) (l : List (Nat × Caller))
    (c : Nat) (x : Caller) (e : CEv) (hm : (c, x) ∈ l) (he : e ∈ (advC cfg now x).2) :
    toEv c ((lookup kOf c).getD 0) e ∈ dueEvents cfg now kOf l := by
  unfold dueEvents
  simp only [List.mem_map]
  refine ⟨dueKey kOf (c, x) e, ?_, rfl⟩
  exact (mem_foldl_due cfg now kOf l [] _).mpr (Or.inr ⟨(c, x), hm, e, he, rfl⟩)

theorem mem_of_lookup {l : List (Nat × Caller)} {c : Nat} {x : Caller} (h : lookup l c = some x) :
    (c, x) ∈ l := by
  induction l with
  | nil => simp [lookup] at h
  | cons p tl ih =>
    obtain ⟨k, w⟩ := p
    by_cases hk : k = c
    · simp [lookup, hk] at h; simp [hk, h]
    · simp [lookup, hk] at h; simp [ih h]

/-! ## the ghost histories and the log -/

/-- a per-caller transition records exactly the events it emits, stamped with the instant -/
def Lock (now : Nat) (x : Caller) (r : Caller × List CEv) : Prop :=
  r.1.hist = x.hist ++ r.2.map (fun e => (now, e))

theorem pollCancel_lock (now : Nat) (x : Caller) : Lock now x (pollCancel now x) := by
  unfold Lock pollCancel
  split
  · simp
  · split <;> simp

theorem runTask_lock (now : Nat) (x : Caller) : Lock now x (runTask now x) := by
  unfold Lock runTask
  split <;> simp

theorem pollDetached_lock (now : Nat) (x : Caller) : Lock now x (pollDetached now x) := by
  unfold Lock pollDetached
  split
  · simp [deliver]
  · split <;> simp [expire]

theorem firstPollCancel_lock (now : Nat) (x : Caller) : Lock now x (firstPollCancel now x) := by
  have h := pollCancel_lock now (note now (begin now x) [.called]).1
  unfold Lock at h ⊢
  simp only [firstPollCancel]
  rw [h]
  simp [begin]

theorem firstPollDetached_lock (now : Nat) (x : Caller) : Lock now x (firstPollDetached now x) := by
  unfold firstPollDetached
  split
  · have h := runTask_lock now (note now (expire now (begin now x)).1 [.called]).1
    unfold Lock at h ⊢
    simp only []
    rw [h]
    simp [begin, expire]
  · have h := runTask_lock now (note now (begin now x) [.called]).1
    unfold Lock at h ⊢
    simp only []
    rw [h]
    simp [begin]

theorem pollC_lock (cfg : Cfg) (now : Nat) (x : Caller) : Lock now x (pollC cfg now x) := by
  unfold pollC
  split
  · split
    · exact firstPollCancel_lock now x
    · exact firstPollDetached_lock now x
  · split
    · exact pollCancel_lock now x
    · exact pollDetached_lock now x
  · simp [Lock]

theorem dropC_lock (cfg : Cfg) (now : Nat) (x : Caller) : Lock now x (dropC cfg now x) := by
  unfold Lock dropC
  split
  · simp
  · split <;> simp
  · simp

theorem advC_lock (cfg : Cfg) (now : Nat) (x : Caller) : Lock now x (advC cfg now x) := by
  unfold advC
  split
  · simp [Lock]
  · exact runTask_lock now x

/-- every entry of every ghost history is an event of the log -/
def HistInLog (s : State) : Prop :=
  ∀ c x t e, lookup s.callers c = some x → (t, e) ∈ x.hist → ∃ k, toEv c k e ∈ s.log

theorem applyC_hil (s : State) (c' now : Nat) (f : Caller → Caller × List CEv)
    (hlock : ∀ x, Lock now x (f x)) (h : HistInLog s) : HistInLog (applyC s c' f) := by
  unfold applyC
  cases hx0 : lookup s.callers c' with
  | none => simpa using h
  | some x0 =>
    intro c x t e hl hm
    simp only [lookup_setC] at hl
    by_cases hc : c = c'
    · subst hc
      simp [hx0] at hl
      subst hl
      rw [hlock x0] at hm
      rcases List.mem_append.mp hm with hm | hm
      · obtain ⟨k, hk⟩ := h c x0 t e hx0 hm
        exact ⟨k, List.mem_append.mpr (Or.inl hk)⟩
      · obtain ⟨e', he', heq⟩ := List.mem_map.mp hm
        have : e' = e := by injection heq
        subst this
        exact ⟨_, List.mem_append.mpr (Or.inr (List.mem_map.mpr ⟨e', he', rfl⟩))⟩
    · simp [hc] at hl
      obtain ⟨k, hk⟩ := h c x t e hl hm
      exact ⟨k, List.mem_append.mpr (Or.inl hk)⟩

theorem stepS_hil (cfg : Cfg) (s : State) (op : Op) (h : HistInLog s) : HistInLog (stepS cfg s op) := by
  cases op with
  | adv ms =>
    intro c x t e hl hm
    simp only [stepS] at hl ⊢
    rw [lookup_mapSnd s.callers (fun x => (advC cfg (s.now + ms) x).1) c] at hl
    cases hx0 : lookup s.callers c with
    | none => simp [hx0] at hl
    | some x0 =>
      simp [hx0] at hl
      subst hl
      rw [advC_lock cfg (s.now + ms) x0] at hm
      rcases List.mem_append.mp hm with hm | hm
      · obtain ⟨k, hk⟩ := h c x0 t e hx0 hm
        exact ⟨k, List.mem_append.mpr (Or.inl hk)⟩
      · obtain ⟨e', he', heq⟩ := List.mem_map.mp hm
        have : e' = e := by injection heq
        subst this
        exact ⟨_, List.mem_append.mpr (Or.inr
          (mem_dueEvents cfg (s.now + ms) s.kOf s.callers c x0 e' (mem_of_lookup hx0) he'))⟩
  | arrive c' tmo sc =>
    simp only [stepS]
    cases hx0 : lookup s.callers c' with
    | some x0 => simpa using h
    | none =>
      intro c x t e hl hm
      simp only [lookup_snoc] at hl
      cases hx1 : lookup s.callers c with
      | some x1 =>
        simp [hx1] at hl
        subst hl
        exact h c x1 t e hx1 hm
      | none =>
        simp [hx1] at hl
        obtain ⟨_, hl⟩ := hl
        subst hl
        simp [newCaller] at hm
  | poll c' => exact applyC_hil s c' s.now _ (fun x => pollC_lock cfg s.now x) h
  | drop c' => exact applyC_hil s c' s.now _ (fun x => dropC_lock cfg s.now x) h
  | refused c' e =>
    simp only [stepS]
    cases lookup s.callers c' with
    | some _ => exact h
    | none =>
      intro c x t ev hl hm
      obtain ⟨k, hk⟩ := h c x t ev hl hm
      exact ⟨k, List.mem_append.mpr (Or.inl hk)⟩

theorem hist_in_log (cfg : Cfg) (ops : List Op) : HistInLog (run cfg ops) := by
  unfold run
  suffices H : ∀ s, HistInLog s → HistInLog (ops.foldl (stepS cfg) s) from
    H init (by intro c x t e hl; simp [init, lookup] at hl)
  induction ops with
  | nil => intro s h; exact h
  | cons o os ih => intro s h; exact ih _ (stepS_hil cfg s o h)

/-! ## non-cancel mode never emits `inner_drop` -/

theorem toEv_drop {c k c' k' : Nat} {e : CEv} (h : toEv c k e = Ev.innerDrop c' k') : e = .dropped := by
  cases e <;> simp [toEv] at h ⊢

theorem runTask_nodrop (now : Nat) (x : Caller) : CEv.dropped ∉ (runTask now x).2 := by
  unfold runTask; split <;> simp

theorem pollC_nodrop (cfg : Cfg) (now : Nat) (x : Caller) (hc : cfg.cancel = false) :
    CEv.dropped ∉ (pollC cfg now x).2 := by
  unfold pollC
  split
  · simp only [hc, Bool.false_eq_true, if_false]
    unfold firstPollDetached
    split
    · simp only []
      simp [expire]
      exact runTask_nodrop now _
    · simp only []
      simp
      exact runTask_nodrop now _
  · simp only [hc, Bool.false_eq_true, if_false]
    unfold pollDetached
    split
    · simp [deliver]
    · split <;> simp [expire]
  · simp

theorem dropC_nodrop (cfg : Cfg) (now : Nat) (x : Caller) (hc : cfg.cancel = false) :
    CEv.dropped ∉ (dropC cfg now x).2 := by
  unfold dropC
  split <;> simp [hc]

def NoDrop (s : State) : Prop := ∀ c k, Ev.innerDrop c k ∉ s.log

theorem applyC_nodrop (s : State) (c' : Nat) (f : Caller → Caller × List CEv)
    (hf : ∀ x, CEv.dropped ∉ (f x).2) (h : NoDrop s) : NoDrop (applyC s c' f) := by
  unfold applyC
  cases hx0 : lookup s.callers c' with
  | none => simpa using h
  | some x0 =>
    intro c k hm
    simp only [List.mem_append, List.mem_map] at hm
    rcases hm with hm | ⟨e, he, heq⟩
    · exact h c k hm
    · have := toEv_drop heq
      subst this
      exact hf x0 he

theorem stepS_nodrop (cfg : Cfg) (hc : cfg.cancel = false) (s : State) (op : Op) (h : NoDrop s) :
    NoDrop (stepS cfg s op) := by
  cases op with
  | adv ms =>
    intro c k hm
    simp only [stepS, List.mem_append] at hm
    rcases hm with hm | hm
    · exact h c k hm
    · unfold dueEvents at hm
      obtain ⟨d, hd, heq⟩ := List.mem_map.mp hm
      have hd' := (mem_foldl_due cfg (s.now + ms) s.kOf s.callers [] d).mp hd
      rcases hd' with hd' | ⟨p, _, e, he, hde⟩
      · simp at hd'
      · subst hde
        have := toEv_drop heq
        subst this
        have hnd := runTask_nodrop (s.now + ms) p.2
        simp [advC, hc] at he
        exact hnd he
  | arrive c' tmo sc =>
    simp only [stepS]
    cases lookup s.callers c' with
    | none => exact h
    | some _ => exact h
  | poll c' => exact applyC_nodrop s c' _ (fun x => pollC_nodrop cfg s.now x hc) h
  | drop c' => exact applyC_nodrop s c' _ (fun x => dropC_nodrop cfg s.now x hc) h
  | refused c' e =>
    simp only [stepS]
    cases lookup s.callers c' with
    | some _ => exact h
    | none =>
      intro c k hm
      simp only [List.mem_append, List.mem_singleton] at hm
      rcases hm with hm | hm
      · exact h c k hm
      · cases hm

theorem nodrop_reachable (cfg : Cfg) (hc : cfg.cancel = false) (ops : List Op) : NoDrop (run cfg ops) := by
  unfold run
  suffices H : ∀ s, NoDrop s → NoDrop (ops.foldl (stepS cfg) s) from
    H init (by intro c k; simp [init])
  induction ops with
  | nil => intro s h; exact h
  | cons o os ih => intro s h; exact ih _ (stepS_nodrop cfg hc s o h)

/-! ## packaging for the property file -/

/-- the events one operation appends to the log -/
def newEvents (cfg : Cfg) (s : State) (op : Op) : List Ev :=
  (stepS cfg s op).log.drop s.log.length

/-- serial of caller `c`'s inner call -/
def serialOf (s : State) (c : Nat) : Nat := (lookup s.kOf c).getD 0

/-- the record of caller `c` after an operation -/
def recordAfter (cfg : Cfg) (s : State) (op : Op) (c : Nat) : Option Caller :=
  lookup (stepS cfg s op).callers c

theorem recordAfter_poll (cfg : Cfg) (s : State) (c : Nat) :
    recordAfter cfg s (.poll c) c = (lookup s.callers c).map (fun x => (pollC cfg s.now x).1) := by
  have := proj_step cfg s (.poll c) c
  simp [proj, track] at this
  exact this.2

theorem recordAfter_drop (cfg : Cfg) (s : State) (c : Nat) :
    recordAfter cfg s (.drop c) c = (lookup s.callers c).map (fun x => (dropC cfg s.now x).1) := by
  have := proj_step cfg s (.drop c) c
  simp [proj, track] at this
  exact this.2

theorem recordAfter_adv (cfg : Cfg) (s : State) (ms c : Nat) :
    recordAfter cfg s (.adv ms) c = (lookup s.callers c).map (fun x => (advC cfg (s.now + ms) x).1) := by
  have := proj_step cfg s (.adv ms) c
  simp [proj, track] at this
  exact this.2

/-- a poll that starts no inner call appends exactly the caller's events, rendered with its serial -/
theorem newEvents_poll (cfg : Cfg) (s : State) (c : Nat) (x : Caller)
    (hx : lookup s.callers c = some x) (hnc : CEv.called ∉ (pollC cfg s.now x).2) :
    newEvents cfg s (.poll c) = (pollC cfg s.now x).2.map (toEv c (serialOf s c)) := by
  unfold newEvents serialOf
  rw [(step_poll cfg s c x hx hnc).1]
  simp

theorem newEvents_adv_mem (cfg : Cfg) (s : State) (ms c : Nat) (x : Caller) (e : CEv)
    (hx : lookup s.callers c = some x) (he : e ∈ (advC cfg (s.now + ms) x).2) :
    toEv c (serialOf s c) e ∈ newEvents cfg s (.adv ms) := by
  unfold newEvents serialOf
  simp only [stepS]
  simp
  exact mem_dueEvents cfg (s.now + ms) s.kOf s.callers c x e (mem_of_lookup hx) he

theorem runTask_fields (now : Nat) (y : Caller) :
    (runTask now y).1.start = y.start ∧ (runTask now y).1.tmo = y.tmo ∧ (runTask now y).1.sc = y.sc ∧
    (runTask now y).1.unl = y.unl := by
  unfold runTask; split <;> simp

theorem pollCancel_fields (now : Nat) (y : Caller) :
    (pollCancel now y).1.start = y.start ∧ (pollCancel now y).1.tmo = y.tmo ∧
    (pollCancel now y).1.sc = y.sc ∧ (pollCancel now y).1.unl = y.unl := by
  unfold pollCancel
  split
  · simp
  · split <;> simp

/-- the first poll: the inner service is called and the deadline armed, at that instant -/
theorem firstPoll_fields (cfg : Cfg) (now : Nat) (x : Caller) (hf : x.outer = .fresh) :
    (pollC cfg now x).1.start = now ∧ (pollC cfg now x).1.tmo = x.tmo ∧
    (pollC cfg now x).1.sc = x.sc ∧ CEv.called ∈ (pollC cfg now x).2 ∧
    (pollC cfg now x).1.unl = x.unl := by
  unfold pollC
  simp only [hf]
  cases cfg.cancel
  · simp only [Bool.false_eq_true, if_false]
    unfold firstPollDetached
    split
    · have h := runTask_fields now (note now (expire now (begin now x)).1 [.called]).1
      simp only []
      refine ⟨by rw [h.1]; simp [expire, begin], by rw [h.2.1]; simp [expire, begin],
        by rw [h.2.2.1]; simp [expire, begin], by simp [expire], by rw [h.2.2.2]; simp [expire, begin]⟩
    · have h := runTask_fields now (note now (begin now x) [.called]).1
      simp only []
      refine ⟨by rw [h.1]; simp [begin], by rw [h.2.1]; simp [begin],
        by rw [h.2.2.1]; simp [begin], by simp, by rw [h.2.2.2]; simp [begin]⟩
  · simp only [if_true]
    have h := pollCancel_fields now (note now (begin now x) [.called]).1
    simp only [firstPollCancel]
    refine ⟨by rw [h.1]; simp [begin], by rw [h.2.1]; simp [begin],
      by rw [h.2.2.1]; simp [begin], by simp, by rw [h.2.2.2]; simp [begin]⟩

theorem recordAfter_arrive_new (cfg : Cfg) (s : State) (c : Nat) (tmo : Option Tmo) (sc : Step)
    (hnew : lookup s.callers c = none) :
    recordAfter cfg s (.arrive c tmo sc) c
      = some (newCaller (if cfg.dyn then tmo.getD cfg.timeout else cfg.timeout) sc) := by
  simp [recordAfter, stepS, hnew, lookup_snoc, effTimeout]

/-- a poll that starts the inner call gives it the next serial -/
theorem newEvents_called (cfg : Cfg) (s : State) (c : Nat) (x : Caller)
    (hx : lookup s.callers c = some x) (h : CEv.called ∈ (pollC cfg s.now x).2) :
    Ev.innerCall c s.serial ∈ newEvents cfg s (.poll c) := by
  have hc : (pollC cfg s.now x).2.contains CEv.called = true := by simpa using h
  simp only [newEvents, stepS, applyC, hx, hc, if_true]
  simp
  exact ⟨CEv.called, h, rfl⟩

theorem dropC_waiting_detached (cfg : Cfg) (now : Nat) (x : Caller) (hw : x.outer = .waiting)
    (hc : cfg.cancel = false) : dropC cfg now x = ({ x with outer := .gone }, []) := by
  simp [dropC, hw, hc]

@[simp] theorem toRes_timeout (k : Nat) : CRes.toRes k .timeout = Res.timeout := rfl
@[simp] theorem toRes_ok (k : Nat) : CRes.toRes k .ok = Res.ok k := rfl
@[simp] theorem toRes_err (k kd : Nat) : CRes.toRes k (.err kd) = Res.inner kd k := rfl
@[simp] theorem toRes_panic (k : Nat) : CRes.toRes k .panic = Res.panic := rfl

/-- for ok / error outcomes the oneshot carries exactly the inner outcome -/
theorem resRx_eq_resOf (o : Out) (h : o = .ok ∨ ∃ kd, o = .err kd) : resRx o = resOf o := by
  rcases h with h | ⟨kd, h⟩ <;> simp [h, resRx, resOf]

/-! ## readiness of the wrapped service: refused arrivals, and the operations the service sees -/

/-- a refused arrival: the answer is the only trace — no record, no serial, the clock untouched -/
theorem stepS_refused (cfg : Cfg) (s : State) (c : Nat) (e : Bool) :
    (stepS cfg s (.refused c e)).callers = s.callers ∧ (stepS cfg s (.refused c e)).kOf = s.kOf ∧
    (stepS cfg s (.refused c e)).serial = s.serial ∧ (stepS cfg s (.refused c e)).now = s.now := by
  simp only [stepS]
  cases lookup s.callers c <;> simp

theorem newEvents_refused (cfg : Cfg) (s : State) (c : Nat) (e : Bool) (hnew : lookup s.callers c = none) :
    newEvents cfg s (.refused c e) = [Ev.result c (refusal e)] := by
  simp [newEvents, stepS, hnew]

/-- the part of the state that calls live in: everything but the log -/
def core (s : State) : Nat × Nat × List (Nat × Caller) × List (Nat × Nat) := (s.now, s.serial, s.callers, s.kOf)

/-- an operation other than a refused arrival -/
def Op.isCall : Op → Bool
  | .refused _ _ => false
  | _ => true

theorem applyC_core (s s' : State) (c : Nat) (f : Caller → Caller × List CEv) (h : core s = core s') :
    core (applyC s c f) = core (applyC s' c f) := by
  simp only [core, Prod.mk.injEq] at h
  obtain ⟨h1, h2, h3, h4⟩ := h
  unfold applyC
  rw [← h3]
  cases lookup s.callers c with
  | none => simp [core, h1, h2, h3, h4]
  | some x => simp [core, h1, h2, h3, h4]

theorem stepS_core (cfg : Cfg) (s s' : State) (op : Op) (h : core s = core s') :
    core (stepS cfg s op) = core (stepS cfg s' op) := by
  have h' := h
  simp only [core, Prod.mk.injEq] at h'
  obtain ⟨h1, h2, h3, h4⟩ := h'
  cases op with
  | adv ms => simp [stepS, core, h1, h2, h3, h4]
  | arrive c tmo sc =>
    simp only [stepS]
    rw [← h3]
    cases lookup s.callers c <;> simp [core, h1, h2, h3, h4]
  | poll c => simp only [stepS, h1]; exact applyC_core s s' c _ h
  | drop c => simp only [stepS, h1]; exact applyC_core s s' c _ h
  | refused c e =>
    simp only [stepS]
    rw [← h3]
    cases lookup s.callers c <;> simp [core, h1, h2, h3, h4]

theorem stepS_refused_core (cfg : Cfg) (s : State) (c : Nat) (e : Bool) :
    core (stepS cfg s (.refused c e)) = core s := by
  obtain ⟨h1, h2, h3, h4⟩ := stepS_refused cfg s c e
  simp [core, h1, h2, h3, h4]

/-- refused arrivals leave every call exactly as it is: the clock, the serials and every caller's
record (phase, start, deadline, fate of the inner call, history) are those of the run without them -/
theorem foldl_core_filter (cfg : Cfg) (ops : List Op) (s s' : State) (h : core s = core s') :
    core (ops.foldl (stepS cfg) s) = core ((ops.filter Op.isCall).foldl (stepS cfg) s') := by
  induction ops generalizing s s' with
  | nil => exact h
  | cons o os ih =>
    cases o with
    | refused c e =>
      have hf : (Op.refused c e :: os).filter Op.isCall = os.filter Op.isCall := rfl
      rw [hf, List.foldl_cons]
      exact ih _ _ ((stepS_refused_core cfg s c e).trans h)
    | adv ms =>
      have hf : (Op.adv ms :: os).filter Op.isCall = Op.adv ms :: os.filter Op.isCall := rfl
      rw [hf, List.foldl_cons, List.foldl_cons]
      exact ih _ _ (stepS_core cfg s s' _ h)
    | arrive c tmo sc =>
      have hf : (Op.arrive c tmo sc :: os).filter Op.isCall = Op.arrive c tmo sc :: os.filter Op.isCall := rfl
      rw [hf, List.foldl_cons, List.foldl_cons]
      exact ih _ _ (stepS_core cfg s s' _ h)
    | poll c =>
      have hf : (Op.poll c :: os).filter Op.isCall = Op.poll c :: os.filter Op.isCall := rfl
      rw [hf, List.foldl_cons, List.foldl_cons]
      exact ih _ _ (stepS_core cfg s s' _ h)
    | drop c =>
      have hf : (Op.drop c :: os).filter Op.isCall = Op.drop c :: os.filter Op.isCall := rfl
      rw [hf, List.foldl_cons, List.foldl_cons]
      exact ih _ _ (stepS_core cfg s s' _ h)

/-- the run against a wrapped service with any readiness is the run of the operations the service sees -/
theorem foldl_stepR (cfg : Cfg) (ops : List Op) (p : Rd × State) :
    (ops.foldl (stepR cfg) p).2 = (effFrom cfg p ops).foldl (stepS cfg) p.2 := by
  induction ops generalizing p with
  | nil => rfl
  | cons o os ih =>
    simp only [List.foldl_cons, effFrom]
    rw [ih]
    rfl

theorem runR_eq_run (cfg : Cfg) (rd : Rd) (ops : List Op) :
    (runR cfg rd ops).2 = run cfg (effOps cfg rd ops) :=
  foldl_stepR cfg ops (rd, init)

/-- what an arrival becomes: determined by the wrapped service's answer alone -/
theorem effOp_arrive (rd : Rd) (s : State) (c : Nat) (tmo : Option Tmo) (sc : Step)
    (hnew : lookup s.callers c = none) :
    (effOp rd s (.arrive c tmo sc)).2 =
      match (rd.answer s.now).1 with
      | .ready => .arrive c tmo sc
      | .pending => .refused c false
      | .err => .refused c true := by
  simp only [effOp, hnew]
  rcases hA : rd.answer s.now with ⟨a, rd'⟩
  cases a <;> simp

theorem effOp_other (rd : Rd) (s : State) (op : Op) (h : ∀ c tmo sc, op ≠ .arrive c tmo sc) :
    effOp rd s op = (rd, op) := by
  cases op with
  | arrive c tmo sc => exact absurd rfl (h c tmo sc)
  | _ => rfl

/-- nothing is to be had from polling: a full pass of polls over all callers is silent -/
def Settled (cfg : Cfg) (s : State) : Prop :=
  ∀ c, newEvents cfg s (.poll c) = []

/-! ## the builder: every field is "last setter wins", independently of the other setters -/

/-- the setter touches the cancellation flag -/
def Setter.isCancel : Setter → Bool
  | .cancel _ => true
  | _ => false

/-- the setter chooses the timeout source -/
def Setter.isSource : Setter → Bool
  | .dur _ => true
  | .fn _ => true
  | _ => false

theorem foldl_cancel_keep (l : List Setter) (cfg : Cfg) (h : ∀ s ∈ l, s.isCancel = false) :
    (l.foldl applySetter cfg).cancel = cfg.cancel := by
  induction l generalizing cfg with
  | nil => rfl
  | cons s tl ih =>
    simp only [List.foldl_cons]
    rw [ih _ (fun s' hs' => h s' (List.mem_cons_of_mem _ hs'))]
    have hs := h s List.mem_cons_self
    cases s <;> simp_all [applySetter, Setter.isCancel]

theorem foldl_source_keep (l : List Setter) (cfg : Cfg) (h : ∀ s ∈ l, s.isSource = false) :
    (l.foldl applySetter cfg).timeout = cfg.timeout ∧ (l.foldl applySetter cfg).dyn = cfg.dyn := by
  induction l generalizing cfg with
  | nil => exact ⟨rfl, rfl⟩
  | cons s tl ih =>
    simp only [List.foldl_cons]
    rw [(ih _ (fun s' hs' => h s' (List.mem_cons_of_mem _ hs'))).1,
        (ih _ (fun s' hs' => h s' (List.mem_cons_of_mem _ hs'))).2]
    have hs := h s List.mem_cons_self
    cases s <;> simp_all [applySetter, Setter.isSource]

theorem build_append_cons (pre post : List Setter) (s : Setter) :
    build (pre ++ s :: post) = post.foldl applySetter (applySetter (build pre) s) := by
  simp [build, List.foldl_append]

/-! ## entry points: where the builder comes from, observability setters, the timeout source as a value -/

/-- the setter touches the configuration the property depends on (timeout source or mode); `name` and the listener
setters do not -/
def Setter.isCfg (s : Setter) : Bool := s.isCancel || s.isSource

theorem foldl_filter_isCfg (l : List Setter) (cfg : Cfg) :
    (l.filter Setter.isCfg).foldl applySetter cfg = l.foldl applySetter cfg := by
  induction l generalizing cfg with
  | nil => rfl
  | cons s tl ih =>
    cases s <;> simp [List.filter, Setter.isCfg, Setter.isCancel, Setter.isSource, applySetter, ih]

theorem buildFrom_eq_build (st : Start) (chain : List Setter) : buildFrom st chain = build chain := by
  cases st <;> rfl

theorem foldl_copy (path : List Copy) (s : Src) : path.foldl Src.copy s = s := by
  induction path generalizing s with
  | nil => rfl
  | cons a tl ih => cases a <;> simpa [Src.copy] using ih s

theorem probeSource_eq (cfg : Cfg) (path : List Copy) (own : Option Tmo) :
    probeSource cfg path own = effTimeout cfg own := by
  unfold probeSource
  rw [foldl_copy]
  unfold Cfg.source effTimeout
  cases cfg.dyn <;> simp [Src.get]

/-! ## groups of callers (services built from one layer, handles of a service) -/

/-- the operations of the callers of a group, and the passing of time -/
def Op.ofGroup (member : Nat → Bool) (op : Op) : Bool :=
  match op.caller with
  | none => true
  | some c => member c

theorem ofGroup_of_relevant (member : Nat → Bool) (c : Nat) (hc : member c = true) (op : Op)
    (h : relevant c op = true) : op.ofGroup member = true := by
  cases op <;> simp_all [relevant, Op.ofGroup, Op.caller]

theorem filter_relevant_ofGroup (member : Nat → Bool) (c : Nat) (hc : member c = true) (ops : List Op) :
    (ops.filter (Op.ofGroup member)).filter (relevant c) = ops.filter (relevant c) := by
  induction ops with
  | nil => rfl
  | cons o os ih =>
    cases hr : relevant c o
    · cases hg : o.ofGroup member <;> simp [List.filter, hr, hg, ih]
    · have hg := ofGroup_of_relevant member c hc o hr
      simp [List.filter, hr, hg, ih]

/-- a poll that starts the inner call appends exactly the caller's events, rendered with the next serial -/
theorem newEvents_first_poll (cfg : Cfg) (s : State) (c : Nat) (x : Caller)
    (hx : lookup s.callers c = some x) (h : CEv.called ∈ (pollC cfg s.now x).2) :
    newEvents cfg s (.poll c) = (pollC cfg s.now x).2.map (toEv c s.serial) := by
  simp [newEvents, stepS, applyC, hx, h]

/-- the first poll of a non-cancelling call whose timeout is zero: `sleep(0)` is ready, the task has not run yet -/
theorem firstPoll_zero_detached (cfg : Cfg) (hc : cfg.cancel = false) (now : Nat) (x : Caller)
    (hf : x.outer = .fresh) (hu : x.unl = false) (hz : x.tmo = 0) :
    (pollC cfg now x).2 =
      [CEv.result .timeout, CEv.called] ++ (if x.sc.out ≠ .never ∧ x.sc.lat = 0 then [CEv.done x.sc.out] else []) ∧
    (pollC cfg now x).1.outer = .gone ∧
    (pollC cfg now x).1.inner = (if x.sc.out ≠ .never ∧ x.sc.lat = 0 then .finished else .running) := by
  unfold pollC
  simp only [hf, hc, Bool.false_eq_true, if_false]
  unfold firstPollDetached
  simp only [hu, hz, and_self, if_true]
  unfold runTask
  by_cases h : x.sc.out ≠ .never ∧ x.sc.lat = 0
  · have h' : x.sc.out ≠ .never ∧ now + x.sc.lat ≤ now := ⟨h.1, by omega⟩
    simp [expire, begin, note, Caller.doneAt, h]
  · have h' : ¬ (x.sc.out ≠ .never ∧ now + x.sc.lat ≤ now) := by
      intro hh; exact h ⟨hh.1, by omega⟩
    simp [expire, begin, note, Caller.doneAt, h, h']

/-- the accessors of the error type on every result the model delivers -/
theorem accessors_spec (r : CRes) (k : Nat) :
    (isTimeout (r.toRes k) = true ↔ r = .timeout) ∧
    (∀ kd v, intoInner (r.toRes k) = some (kd, v) ↔ (r = .err kd ∧ v = k)) ∧
    (r = .timeout → intoInner (r.toRes k) = none ∧ asResilience (r.toRes k) = some (.timeout "time_limiter")) ∧
    (∀ kd, r = .err kd → asResilience (r.toRes k) = some (.application kd k)) ∧
    (r = .ok → isTimeout (r.toRes k) = false ∧ intoInner (r.toRes k) = none ∧ asResilience (r.toRes k) = none) := by
  cases r <;> simp [CRes.toRes, isTimeout, intoInner, asResilience]
  exact fun _ _ _ => eq_comm

theorem isTimeout_toRes {r : CRes} {k : Nat} (h : isTimeout (r.toRes k) = true) : r = .timeout :=
  (accessors_spec r k).1.mp h

theorem accessors_timeout : isTimeout Res.timeout = true ∧ intoInner Res.timeout = none := ⟨rfl, rfl⟩

theorem accessors_inner (kd k : Nat) :
    isTimeout ((resOf (.err kd)).toRes k) = false ∧ intoInner ((resOf (.err kd)).toRes k) = some (kd, k) := ⟨rfl, rfl⟩

end TR.TimeLimiter
