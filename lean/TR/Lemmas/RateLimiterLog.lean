import TR.Lemmas.RateLimiter
/-!
# Rate limiter: the ghost history tied to the (timed) event log; decision instants; poll discipline

`State.tlog` is the event log with the instant at which each event was emitted — exactly the `t=<instant> <event>`
lines the model driver prints (`Driver.printEvs` prints every event of a step with the clock after the step, and
only `adv` moves the clock and it emits nothing: `tlog_stamp_is_printed`) and the correspondence check compares
line by line with the implementation's log. This file proves, for EVERY configuration and operation sequence:

* `TInv`: `tlog` without its stamps is `log`; stamps are non-decreasing and never in the future; the ghost
  admissions are exactly the `inner_call` lines with their stamps, in order (`admits = callStamps tlog`); the ghost
  decisions are exactly the `inner_call` / `result … err:ratelimited` lines with their stamps, in order; a decision is
  never earlier than the arrival it is filed with.
* `DInv`, under the poll discipline `Prompt` (time is never advanced past the instant by which a sleeping caller's
  timer must have fired — "polled when woken"): every decision instant is at most `arrival + timeout`, and every
  caller still asleep is within `arrival + timeout`.
-/
namespace TR.RateLimiter

/-! ## stamps -/

/-- `(caller, instant)` of an `inner_call` line -/
def callStamp : Nat × Ev → Option (Nat × Nat)
  | (t, .innerCall c _) => some (c, t)
  | _ => none

/-- `(caller, instant)` of a decision line: the call reached the wrapped service, or was rejected as rate-limited -/
def decStamp : Nat × Ev → Option (Nat × Nat)
  | (t, .innerCall c _) => some (c, t)
  | (t, .result c .rateLimited) => some (c, t)
  | _ => none

def callStamps (tl : List (Nat × Ev)) : List (Nat × Nat) := tl.filterMap callStamp
def decStamps (tl : List (Nat × Ev)) : List (Nat × Nat) := tl.filterMap decStamp

/-- the events of one step, stamped with the instant of the step -/
def stamp (t : Nat) (evs : List Ev) : List (Nat × Ev) := evs.map fun e => (t, e)

/-- instants are non-decreasing along the list -/
def Sorted : List Nat → Prop
  | [] => True
  | t :: ts => (∀ u ∈ ts, t ≤ u) ∧ Sorted ts

theorem sorted_append (a b : List Nat) (ha : Sorted a) (hb : Sorted b) (hab : ∀ x ∈ a, ∀ y ∈ b, x ≤ y) :
    Sorted (a ++ b) := by
  induction a with
  | nil => simpa using hb
  | cons x xs ih =>
    obtain ⟨h1, h2⟩ := ha
    refine ⟨?_, ih h2 (fun u hu y hy => hab u (List.mem_cons_of_mem _ hu) y hy)⟩
    intro u hu
    rcases List.mem_append.mp hu with hu | hu
    · exact h1 u hu
    · exact hab x List.mem_cons_self u hu

theorem sorted_const (t : Nat) (n : List Ev) : Sorted ((stamp t n).map Prod.fst) := by
  induction n with
  | nil => trivial
  | cons e es ih =>
    refine ⟨?_, ih⟩
    intro u hu
    simp only [stamp, List.map_map, List.mem_map] at hu
    obtain ⟨e', _, rfl⟩ := hu
    exact Nat.le_refl _

/-! ## what one step adds to the history -/

/-- `s'` is `s` after events `evs` were emitted at the (unchanged) instant `s.now`, with the decisions `dec` filed -/
structure Delta (s s' : State) (evs : List Ev) (ds : List (Nat × Nat × Nat)) : Prop where
  now  : s'.now = s.now
  log  : s'.log = s.log ++ evs
  tlog : s'.tlog = s.tlog ++ stamp s.now evs
  adm  : s'.admits = s.admits ++ (stamp s.now evs).filterMap callStamp
  dec  : s'.decided = s.decided ++ ds
  decS : ds.map (fun d => (d.1, d.2.2)) = (stamp s.now evs).filterMap decStamp
  decT : ∀ d ∈ ds, d.2.2 = s.now

theorem Delta.refl (s : State) : Delta s s [] [] :=
  ⟨rfl, by simp, by simp [stamp], by simp [stamp], by simp, rfl, by intro d hd; cases hd⟩

theorem Delta.trans {s s1 s2 : State} {e1 e2 : List Ev} {d1 d2 : List (Nat × Nat × Nat)}
    (h1 : Delta s s1 e1 d1) (h2 : Delta s1 s2 e2 d2) : Delta s s2 (e1 ++ e2) (d1 ++ d2) := by
  have hn := h1.now
  refine ⟨by rw [h2.now, hn], by rw [h2.log, h1.log, List.append_assoc], ?_, ?_, by rw [h2.dec, h1.dec, List.append_assoc], ?_, ?_⟩
  · rw [h2.tlog, h1.tlog, hn]; simp [stamp, List.append_assoc]
  · rw [h2.adm, h1.adm, hn]; simp [stamp, List.append_assoc]
  · have a := h1.decS; have b := h2.decS
    rw [hn] at b
    simp only [List.map_append, a, b, stamp, List.filterMap_append]
  · intro d hd
    rcases List.mem_append.mp hd with hd | hd
    · exact h1.decT d hd
    · rw [h2.decT d hd, hn]

/-- a state that differs from `s` in neither clock nor history -/
theorem Delta.of_eq (s s' : State) (hn : s'.now = s.now) (hl : s'.log = s.log) (ht : s'.tlog = s.tlog)
    (ha : s'.admits = s.admits) (hd : s'.decided = s.decided) : Delta s s' [] [] :=
  ⟨hn, by simp [hl], by simp [ht, stamp], by simp [ha, stamp], by simp [hd], rfl, by intro d hd; cases hd⟩

theorem outcome_noise (t c k : Nat) (o : Out) :
    (stamp t (outcomeEvents c k o)).filterMap callStamp = [] ∧
    (stamp t (outcomeEvents c k o)).filterMap decStamp = [] := by
  cases o <;> simp [outcomeEvents, stamp, callStamp, decStamp]

theorem pollRunning_delta (s : State) (c : Nat) : ∃ evs, Delta s (pollRunning s c) evs [] := by
  unfold pollRunning
  split
  · split
    · rename_i t sc k _ _ _ _
      refine ⟨outcomeEvents c k sc.out, rfl, rfl, rfl, ?_, by simp [emit, setPh], ?_, by intro d hd; cases hd⟩
      · simp [emit, setPh, (outcome_noise s.now c k sc.out).1]
      · simp [(outcome_noise s.now c k sc.out).2]
    · exact ⟨[], Delta.refl s⟩
  · exact ⟨[], Delta.refl s⟩

theorem startInner_delta (s : State) (c arr : Nat) :
    Delta s (startInner s c arr) [.innerCall c s.serial] [(c, arr, s.now)] :=
  ⟨rfl, rfl, rfl, by simp [startInner, emit, setPh, stamp, callStamp], by simp [startInner, emit, setPh],
    by simp [stamp, decStamp], by intro d hd; simp at hd; rw [hd]⟩

theorem admitCall_delta (s : State) (c arr : Nat) :
    ∃ evs, Delta s (admitCall s c arr) evs [(c, arr, s.now)] := by
  obtain ⟨evs, h⟩ := pollRunning_delta (startInner s c arr) c
  have h2 := (startInner_delta s c arr).trans h
  exact ⟨_, by simpa [admitCall] using h2⟩

theorem rejectCall_delta (s : State) (c arr : Nat) :
    Delta s (rejectCall s c arr) [.result c .rateLimited] [(c, arr, s.now)] :=
  ⟨rfl, rfl, rfl, by simp [rejectCall, emit, setPh, stamp, callStamp], by simp [rejectCall, emit, setPh],
    by simp [stamp, decStamp], by intro d hd; simp at hd; rw [hd]⟩

theorem notReadyCall_delta (s : State) (c : Nat) : Delta s (notReadyCall s c) [.result c .notReady] [] :=
  ⟨rfl, rfl, rfl, by simp [notReadyCall, emit, setPh, stamp, callStamp], by simp [notReadyCall, emit, setPh],
    by simp [stamp, decStamp], by intro d hd; cases hd⟩

theorem badChoice_delta (s : State) : Delta s (badChoice s) [.raw "choice-not-allowed"] [] :=
  ⟨rfl, rfl, rfl, by simp [badChoice, emit, stamp, callStamp], by simp [badChoice, emit],
    by simp [stamp, decStamp], by intro d hd; cases hd⟩

/-- a change of the limiter alone -/
theorem limOnly_delta (s : State) (l : Lim) : Delta s { s with lim := l } [] [] :=
  Delta.of_eq _ _ rfl rfl rfl rfl rfl

/-- The decisions a step files: for the caller of the step, at the instant of the step; the arrival filed is this
very instant (first poll) or the arrival the sleeping caller was registered with. -/
def DecOk (s : State) (dec : List (Nat × Nat × Nat)) : Prop :=
  ∀ d ∈ dec, d.2.1 = s.now ∨ ∃ lo hi, phaseOf s d.1 = some (.sleeping d.2.1 lo hi)

theorem pollFresh_delta (cfg : Cfg) (s : State) (c : Nat) (rej : Bool) (fx : Fx) :
    ∃ evs dec, Delta s (pollFresh cfg s c rej fx) evs dec ∧ DecOk s dec := by
  have hl := limOnly_delta s (room cfg s.lim s.now fx).1
  unfold pollFresh
  simp only
  split
  · obtain ⟨evs, h⟩ := admitCall_delta { s with lim := (room cfg s.lim s.now fx).1 } c s.now
    exact ⟨_, _, by simpa using hl.trans h, by intro d hd; simp at hd; left; rw [hd]⟩
  · split
    · exact ⟨_, _, by simpa using hl.trans (rejectCall_delta _ c s.now), by intro d hd; simp at hd; left; rw [hd]⟩
    · split
      · obtain ⟨evs, h⟩ := admitCall_delta { s with lim := (room cfg s.lim s.now fx).1 } c s.now
        exact ⟨_, _, by simpa using hl.trans h, by intro d hd; simp at hd; left; rw [hd]⟩
      · exact ⟨[], [], Delta.of_eq _ _ rfl rfl rfl rfl rfl, by intro d hd; cases hd⟩
    · exact ⟨_, _, by simpa using hl.trans (badChoice_delta _), by intro d hd; cases hd⟩

theorem secondTry_delta (cfg : Cfg) (s : State) (c arr : Nat) (fx : Fx) :
    ∃ evs, Delta s (secondTry cfg s c arr fx) evs [(c, arr, s.now)] := by
  have hl := limOnly_delta s (room cfg s.lim s.now fx).1
  unfold secondTry
  simp only
  split
  · obtain ⟨evs, h⟩ := admitCall_delta { s with lim := (room cfg s.lim s.now fx).1 } c arr
    exact ⟨_, by simpa using hl.trans h⟩
  · split
    · obtain ⟨evs, h⟩ := admitCall_delta { s with lim := (room cfg s.lim s.now fx).1 } c arr
      exact ⟨_, by simpa using hl.trans h⟩
    · exact ⟨_, by simpa using hl.trans (rejectCall_delta _ c arr)⟩

theorem dropCaller_delta (s : State) (c : Nat) : ∃ evs, Delta s (dropCaller s c) evs [] := by
  unfold dropCaller
  split
  · exact ⟨[], Delta.of_eq _ _ rfl rfl rfl rfl rfl⟩
  · exact ⟨[], Delta.of_eq _ _ rfl rfl rfl rfl rfl⟩
  · exact ⟨_, rfl, rfl, rfl, by simp [emit, setPh, stamp, callStamp], by simp [emit, setPh],
      by simp [stamp, decStamp], by intro d hd; cases hd⟩
  · exact ⟨[], Delta.refl s⟩

/-- every operation other than `adv` leaves the clock alone and extends the history by the events it emits, stamped
with the current instant, and by the decisions of its caller -/
theorem stepS_delta (cfg : Cfg) (s : State) (op : Op) (hop : ∀ ms, op ≠ .adv ms) :
    ∃ evs dec, Delta s (stepS cfg s op) evs dec ∧ DecOk s dec := by
  have none : DecOk s [] := by intro d hd; cases hd
  cases op with
  | adv ms => exact absurd rfl (hop ms)
  | arrive c sc =>
    simp only [stepS]
    split
    · exact ⟨_, _, Delta.refl s, none⟩
    · split
      · exact ⟨_, _, notReadyCall_delta s c, none⟩
      · exact ⟨_, _, Delta.of_eq _ _ rfl rfl rfl rfl rfl, none⟩
  | busy ms => exact ⟨_, _, Delta.of_eq _ _ rfl rfl rfl rfl rfl, none⟩
  | turnedAway c err =>
    simp only [stepS]
    split
    · exact ⟨_, _, Delta.refl s, none⟩
    · cases err with
      | false => exact ⟨_, _, notReadyCall_delta s c, none⟩
      | true =>
        have h1 : Delta s (emit s [readyErrEv c]) [readyErrEv c] [] :=
          ⟨rfl, rfl, rfl, by simp [emit, stamp, callStamp, readyErrEv], by simp [emit],
            by simp [stamp, decStamp, readyErrEv], by intro d hd; cases hd⟩
        exact ⟨_, _, by simpa using h1.trans (notReadyCall_delta _ c), none⟩
  | drop c =>
    obtain ⟨evs, h⟩ := dropCaller_delta s c
    exact ⟨_, _, h, none⟩
  | poll c rej woke fx =>
    simp only [stepS]
    split
    · exact pollFresh_delta cfg s c rej fx
    · rename_i arr lo hi hph
      unfold pollSleeping
      split
      · exact ⟨_, _, badChoice_delta s, none⟩
      · split
        · obtain ⟨evs, h⟩ := secondTry_delta cfg s c arr fx
          exact ⟨_, _, h, by intro d hd; simp at hd; right; rw [hd]; exact ⟨lo, hi, hph⟩⟩
        · exact ⟨_, _, Delta.refl s, none⟩
    · obtain ⟨evs, h⟩ := pollRunning_delta s c
      exact ⟨_, _, h, none⟩
    · exact ⟨_, _, Delta.refl s, none⟩

/-! ## the timed log and the ghost history agree -/

structure TInv (s : State) : Prop where
  logEq   : s.tlog.map Prod.snd = s.log
  stampLe : ∀ p ∈ s.tlog, p.1 ≤ s.now
  sorted  : Sorted (s.tlog.map Prod.fst)
  adm     : s.admits = callStamps s.tlog
  dec     : s.decided.map (fun d => (d.1, d.2.2)) = decStamps s.tlog
  decArr  : ∀ d ∈ s.decided, d.2.1 ≤ d.2.2

theorem tinv_delta (s s' : State) (evs : List Ev) (dec : List (Nat × Nat × Nat)) (hd : Delta s s' evs dec)
    (ht : TInv s) (harr : ∀ d ∈ dec, d.2.1 ≤ s.now) : TInv s' := by
  refine ⟨?_, ?_, ?_, ?_, ?_, ?_⟩
  · rw [hd.tlog, hd.log, List.map_append, ht.logEq]
    have : (stamp s.now evs).map Prod.snd = evs := by
      unfold stamp; rw [List.map_map]; exact List.map_id' _
    rw [this]
  · intro p hp
    rw [hd.tlog] at hp
    rw [hd.now]
    rcases List.mem_append.mp hp with hp | hp
    · exact ht.stampLe p hp
    · simp [stamp] at hp
      obtain ⟨e, _, he⟩ := hp
      rw [← he]; exact Nat.le_refl _
  · rw [hd.tlog, List.map_append]
    apply sorted_append _ _ ht.sorted (sorted_const s.now evs)
    intro x hx y hy
    simp at hx
    obtain ⟨e, hx⟩ := hx
    have := ht.stampLe _ hx
    simp [stamp] at hy
    omega
  · rw [hd.adm, hd.tlog, ht.adm]; simp [callStamps]
  · rw [hd.dec, hd.tlog, List.map_append, ht.dec, hd.decS]; simp [decStamps]
  · intro d hdm
    rw [hd.dec] at hdm
    rcases List.mem_append.mp hdm with hdm | hdm
    · exact ht.decArr d hdm
    · rw [hd.decT d hdm]; exact harr d hdm

theorem decOk_arr (cfg : Cfg) (s : State) (dec : List (Nat × Nat × Nat)) (h : SInv cfg s) (hd : DecOk s dec) :
    ∀ d ∈ dec, d.2.1 ≤ s.now := by
  intro d hdm
  rcases hd d hdm with h1 | ⟨lo, hi, h1⟩
  · omega
  · exact (h.sleep _ _ _ _ h1).2.2.2.1

theorem stepS_tinv (cfg : Cfg) (s : State) (op : Op) (h : SInv cfg s) (ht : TInv s) : TInv (stepS cfg s op) := by
  by_cases hop : ∀ ms, op ≠ .adv ms
  · obtain ⟨evs, dec, hd, hok⟩ := stepS_delta cfg s op hop
    exact tinv_delta s _ evs dec hd ht (decOk_arr cfg s dec h hok)
  · have : ∃ ms, op = .adv ms := by
      cases op with
      | adv ms => exact ⟨ms, rfl⟩
      | arrive c sc => exact absurd (fun ms => by intro h; cases h) hop
      | poll c r w f => exact absurd (fun ms => by intro h; cases h) hop
      | drop c => exact absurd (fun ms => by intro h; cases h) hop
      | busy m => exact absurd (fun ms => by intro h; cases h) hop
      | turnedAway c e => exact absurd (fun ms => by intro h; cases h) hop
    obtain ⟨ms, rfl⟩ := this
    exact ⟨ht.logEq, fun p hp => Nat.le_trans (ht.stampLe p hp) (Nat.le_add_right _ _), ht.sorted, ht.adm, ht.dec, ht.decArr⟩

theorem init_tinv (cfg : Cfg) : TInv (init cfg) := by
  refine ⟨rfl, ?_, trivial, rfl, rfl, ?_⟩
  · intro p hp; simp [init] at hp
  · intro d hd; simp [init] at hd

theorem tinv_reachable (cfg : Cfg) (ops : List Op) : TInv (run cfg ops) := by
  suffices ∀ s, SInv cfg s → TInv s → TInv (ops.foldl (stepS cfg) s) ∧ SInv cfg (ops.foldl (stepS cfg) s) from
    (this _ (init_inv cfg) (init_tinv cfg)).1
  induction ops with
  | nil => intro s h ht; exact ⟨ht, h⟩
  | cons o os ih => intro s h ht; exact ih _ (stepS_inv cfg s o h) (stepS_tinv cfg s o h ht)

/-- The stamp of every event a step emits is the clock after the step — which is what the driver prints in front of
it (`printEvs (m.now st') evs`). -/
theorem tlog_stamp_is_printed (cfg : Cfg) (s : State) (op : Op) :
    ∃ evs, (stepS cfg s op).log = s.log ++ evs ∧ (stepS cfg s op).tlog = s.tlog ++ stamp (stepS cfg s op).now evs := by
  by_cases hop : ∀ ms, op ≠ .adv ms
  · obtain ⟨evs, dec, hd, _⟩ := stepS_delta cfg s op hop
    exact ⟨evs, hd.log, by rw [hd.tlog, hd.now]⟩
  · cases op with
    | adv ms => exact ⟨[], by simp [stepS], by simp [stepS, stamp]⟩
    | arrive c sc => exact absurd (fun ms => by intro h; cases h) hop
    | poll c r w f => exact absurd (fun ms => by intro h; cases h) hop
    | drop c => exact absurd (fun ms => by intro h; cases h) hop
    | busy m => exact absurd (fun ms => by intro h; cases h) hop
    | turnedAway c e => exact absurd (fun ms => by intro h; cases h) hop

/-! ## sleepers across a step -/

/-- no caller is asleep after the step that was not asleep (with the same timer) before it -/
def NoNewSleep (s s' : State) : Prop :=
  ∀ c a lo hi, phaseOf s' c = some (.sleeping a lo hi) → phaseOf s c = some (.sleeping a lo hi)

theorem nns_refl (s : State) : NoNewSleep s s := fun _ _ _ _ h => h

theorem nns_trans {s s1 s2 : State} (h1 : NoNewSleep s s1) (h2 : NoNewSleep s1 s2) : NoNewSleep s s2 :=
  fun c a lo hi h => h1 c a lo hi (h2 c a lo hi h)

theorem nns_of_phase (s s' : State) (h : s'.phase = s.phase) : NoNewSleep s s' := by
  intro c a lo hi hp
  unfold phaseOf at hp ⊢
  rw [h] at hp; exact hp

theorem nns_setPh (s s' : State) (c : Nat) (p : Phase) (h : s'.phase = (c, p) :: s.phase)
    (hp : ∀ a lo hi, p ≠ .sleeping a lo hi) : NoNewSleep s s' := by
  intro c' a lo hi hc
  unfold phaseOf at hc ⊢
  rw [h, lookup_cons] at hc
  split at hc
  · injection hc with hc; exact absurd hc (hp a lo hi)
  · exact hc

theorem pollRunning_nns (s : State) (c : Nat) : NoNewSleep s (pollRunning s c) := by
  unfold pollRunning
  split
  · split
    · exact nns_setPh s _ c (.done true) rfl (by intro a lo hi h; cases h)
    · exact nns_refl s
  · exact nns_refl s

theorem admitCall_nns (s : State) (c arr : Nat) : NoNewSleep s (admitCall s c arr) := by
  unfold admitCall
  exact nns_trans (nns_setPh s (startInner s c arr) c (.running arr) rfl (by intro a lo hi h; cases h))
    (pollRunning_nns _ c)

theorem rejectCall_nns (s : State) (c arr : Nat) : NoNewSleep s (rejectCall s c arr) :=
  nns_setPh s _ c (.done false) rfl (by intro a lo hi h; cases h)

theorem secondTry_nns (cfg : Cfg) (s : State) (c arr : Nat) (fx : Fx) : NoNewSleep s (secondTry cfg s c arr fx) := by
  have hl : NoNewSleep s { s with lim := (room cfg s.lim s.now fx).1 } := nns_of_phase _ _ rfl
  unfold secondTry
  simp only
  split
  · exact nns_trans hl (admitCall_nns _ c arr)
  · split
    · exact nns_trans hl (admitCall_nns _ c arr)
    · exact nns_trans hl (rejectCall_nns _ c arr)

/-- a caller asleep after a step (other than `adv`) was asleep with the same timer before it, or has just arrived -/
theorem stepS_sleepers (cfg : Cfg) (s : State) (op : Op) (hop : ∀ ms, op ≠ .adv ms) :
    ∀ c a lo hi, phaseOf (stepS cfg s op) c = some (.sleeping a lo hi) →
      phaseOf s c = some (.sleeping a lo hi) ∨ a = s.now := by
  have weak : ∀ s', NoNewSleep s s' → ∀ c a lo hi, phaseOf s' c = some (.sleeping a lo hi) →
      phaseOf s c = some (.sleeping a lo hi) ∨ a = s.now := fun s' h c a lo hi hp => Or.inl (h c a lo hi hp)
  cases op with
  | adv ms => exact absurd rfl (hop ms)
  | arrive c sc =>
    simp only [stepS]
    split
    · exact weak _ (nns_refl s)
    · split
      · exact weak _ (nns_setPh s _ c (.done false) rfl (by intro a lo hi h; cases h))
      · exact weak _ (nns_setPh s _ c .fresh rfl (by intro a lo hi h; cases h))
  | busy ms => exact weak _ (nns_of_phase _ _ rfl)
  | turnedAway c err =>
    simp only [stepS]
    split
    · exact weak _ (nns_refl s)
    · cases err with
      | false => exact weak _ (nns_setPh s _ c (.done false) rfl (by intro a lo hi h; cases h))
      | true => exact weak _ (nns_setPh s _ c (.done false) rfl (by intro a lo hi h; cases h))
  | drop c =>
    simp only [stepS]
    unfold dropCaller
    split
    · exact weak _ (nns_setPh s _ c (.done false) rfl (by intro a lo hi h; cases h))
    · exact weak _ (nns_setPh s _ c (.done false) rfl (by intro a lo hi h; cases h))
    · exact weak _ (nns_setPh s _ c (.done true) rfl (by intro a lo hi h; cases h))
    · exact weak _ (nns_refl s)
  | poll c rej woke fx =>
    simp only [stepS]
    split
    · -- first poll: the only place a caller falls asleep
      have hl : NoNewSleep s { s with lim := (room cfg s.lim s.now fx).1 } := nns_of_phase _ _ rfl
      unfold pollFresh
      simp only
      split
      · exact weak _ (nns_trans hl (admitCall_nns _ c s.now))
      · split
        · exact weak _ (nns_trans hl (rejectCall_nns _ c s.now))
        · split
          · exact weak _ (nns_trans hl (admitCall_nns _ c s.now))
          · rename_i lo hi _ _
            intro c' a lo' hi' hp
            unfold phaseOf setPh at hp
            simp only at hp
            rw [lookup_cons] at hp
            split at hp
            · injection hp with hp; injection hp with h1 h2 h3; right; exact h1.symm
            · left; exact hp
        · exact weak _ (nns_trans hl (nns_of_phase _ _ rfl))
    · unfold pollSleeping
      split
      · exact weak _ (nns_of_phase _ _ rfl)
      · split
        · exact weak _ (secondTry_nns cfg s c _ fx)
        · exact weak _ (nns_refl s)
    · exact weak _ (pollRunning_nns s c)
    · exact weak _ (nns_refl s)

/-! ## a poll of one caller leaves every other caller's phase alone; the idle refill at caller level -/

/-- every caller other than `c` is in the same phase in `s'` as in `s` -/
def PhOther (c : Nat) (s s' : State) : Prop := ∀ c', c' ≠ c → phaseOf s' c' = phaseOf s c'

theorem pho_refl (c : Nat) (s : State) : PhOther c s s := fun _ _ => rfl

theorem pho_trans {c : Nat} {s s1 s2 : State} (h1 : PhOther c s s1) (h2 : PhOther c s1 s2) : PhOther c s s2 :=
  fun c' hc => (h2 c' hc).trans (h1 c' hc)

theorem pho_of_phase (c : Nat) (s s' : State) (h : s'.phase = s.phase) : PhOther c s s' := by
  intro c' _; unfold phaseOf; rw [h]

theorem pho_setPh (c : Nat) (s s' : State) (p : Phase) (h : s'.phase = (c, p) :: s.phase) : PhOther c s s' := by
  intro c' hc
  unfold phaseOf
  rw [h, lookup_cons]
  have : ¬ c = c' := fun e => hc e.symm
  simp [this]

theorem pollRunning_pho (s : State) (c : Nat) : PhOther c s (pollRunning s c) := by
  unfold pollRunning
  split
  · split
    · exact pho_setPh c s _ (.done true) rfl
    · exact pho_refl c s
  · exact pho_refl c s

theorem admitCall_pho (s : State) (c arr : Nat) : PhOther c s (admitCall s c arr) := by
  unfold admitCall
  exact pho_trans (pho_setPh c s (startInner s c arr) (.running arr) rfl) (pollRunning_pho _ c)

theorem rejectCall_pho (s : State) (c arr : Nat) : PhOther c s (rejectCall s c arr) :=
  pho_setPh c s _ (.done false) rfl

theorem stepS_poll_other (cfg : Cfg) (s : State) (c : Nat) (rej woke : Bool) (fx : Fx) :
    PhOther c s (stepS cfg s (.poll c rej woke fx)) := by
  have hl : PhOther c s { s with lim := (room cfg s.lim s.now fx).1 } := pho_of_phase c _ _ rfl
  simp only [stepS]
  split
  · unfold pollFresh
    simp only
    split
    · exact pho_trans hl (admitCall_pho _ c s.now)
    · split
      · exact pho_trans hl (rejectCall_pho _ c s.now)
      · split
        · exact pho_trans hl (admitCall_pho _ c s.now)
        · exact pho_trans hl (pho_setPh c _ _ _ rfl)
      · exact pho_trans hl (pho_of_phase c _ _ rfl)
  · unfold pollSleeping
    split
    · exact pho_of_phase c _ _ rfl
    · split
      · unfold secondTry
        simp only
        split
        · exact pho_trans hl (admitCall_pho _ c _)
        · split
          · exact pho_trans hl (admitCall_pho _ c _)
          · exact pho_trans hl (rejectCall_pho _ c _)
      · exact pho_refl c s
  · exact pollRunning_pho s c
  · exact pho_refl c s

/-- the poll operations of a list of callers, each with its observed choices -/
def pollsOf (cs : List (Nat × Bool × Bool × Fx)) : List Op := cs.map fun p => Op.poll p.1 p.2.1 p.2.2.1 p.2.2.2

/-- With `k` grants to spare, `≤ k` distinct fresh callers polled one after the other at this instant are all
admitted in their first poll (nobody is put to sleep or rejected). -/
theorem refill_polls (cfg : Cfg) (hP : 1 ≤ cfg.period) (cs : List (Nat × Bool × Bool × Fx)) :
    ∀ (s : State) (k : Nat), Spare false cfg s.lim s.now k → cs.length ≤ k →
      (∀ p ∈ cs, phaseOf s p.1 = some .fresh) → (cs.map Prod.fst).Nodup → (∀ p ∈ cs, p.2.2.2.b1 = false) →
      ∀ p ∈ cs, Admitted (phaseOf ((pollsOf cs).foldl (stepS cfg) s) p.1) := by
  induction cs with
  | nil => intro s k _ _ _ _ _ p hp; cases hp
  | cons x xs ih =>
    intro s k hs hlen hfresh hnd hb
    obtain ⟨c, rej, woke, fx⟩ := x
    have hk1 : k - 1 + 1 = k := by simp at hlen; omega
    have hs1 : Spare false cfg s.lim s.now (k - 1 + 1) := by rw [hk1]; exact hs
    obtain ⟨hroom, hs'⟩ := spare_step false cfg s.lim s.now s.now (k - 1) fx hP
      (fun _ => hb _ List.mem_cons_self) hs1 (Nat.le_refl _)
    have hph : phaseOf s c = some .fresh := hfresh _ List.mem_cons_self
    -- the first poll
    have hstep : stepS cfg s (.poll c rej woke fx) = admitCall { s with lim := (room cfg s.lim s.now fx).1 } c s.now := by
      simp only [stepS, hph, pollFresh, hroom, if_true]
    obtain ⟨f1, _, _, f4⟩ := admitCall_frame { s with lim := (room cfg s.lim s.now fx).1 } c s.now
    have hnow : (stepS cfg s (.poll c rej woke fx)).now = s.now := by
      rw [hstep]
      obtain ⟨evs, hd⟩ := admitCall_delta { s with lim := (room cfg s.lim s.now fx).1 } c s.now
      exact hd.now
    have hoth := stepS_poll_other cfg s c rej woke fx
    simp only [List.map_cons, List.nodup_cons] at hnd
    have hnotin : ∀ p ∈ xs, p.1 ≠ c := by
      intro p hp e
      exact hnd.1 (e ▸ List.mem_map_of_mem hp)
    have hrest := ih (stepS cfg s (.poll c rej woke fx)) (k - 1)
      (by rw [hnow, hstep, f1]; exact hs') (by simp at hlen; omega)
      (fun p hp => by rw [hoth p.1 (hnotin p hp)]; exact hfresh p (List.mem_cons_of_mem _ hp))
      hnd.2 (fun p hp => hb p (List.mem_cons_of_mem _ hp))
    intro p hp
    show Admitted (phaseOf ((pollsOf xs).foldl (stepS cfg) (stepS cfg s (.poll c rej woke fx))) p.1)
    rcases List.mem_cons.mp hp with rfl | hp
    · -- the caller admitted first stays admitted while the others are polled
      have hkeep : ∀ (ys : List (Nat × Bool × Bool × Fx)) (t : State), (∀ q ∈ ys, q.1 ≠ c) →
          phaseOf ((pollsOf ys).foldl (stepS cfg) t) c = phaseOf t c := by
        intro ys
        induction ys with
        | nil => intro t _; rfl
        | cons y ys ihy =>
          intro t hne
          show phaseOf ((pollsOf ys).foldl (stepS cfg) (stepS cfg t (.poll y.1 y.2.1 y.2.2.1 y.2.2.2))) c = _
          rw [ihy _ (fun q hq => hne q (List.mem_cons_of_mem _ hq))]
          exact stepS_poll_other cfg t y.1 _ _ _ c (fun e => hne y List.mem_cons_self e.symm)
      show Admitted (phaseOf _ c)
      rw [hkeep xs _ hnotin, hstep]
      exact f4
    · exact hrest p hp

/-! ## the poll discipline and the decision instants -/

/-- no caller asleep in `s` has a timer that must have fired before `s.now + ms` (`hi < s.now + ms`); decidable: the
callers are the keys of the phase list -/
def sleepersOk (s : State) (ms : Nat) : Bool :=
  s.phase.all fun p =>
    match phaseOf s p.1 with
    | some (.sleeping _ _ hi) => decide (s.now + ms ≤ hi)
    | _ => true

theorem lookup_some_mem {α : Type} (l : List (Nat × α)) (c : Nat) (v : α) (h : lookup l c = some v) :
    ∃ p ∈ l, p.1 = c := by
  induction l with
  | nil => cases h
  | cons x xs ih =>
    obtain ⟨k, w⟩ := x
    rw [lookup_cons] at h
    split at h
    · rename_i hk; exact ⟨(k, w), List.mem_cons_self, hk⟩
    · obtain ⟨p, hp, hc⟩ := ih h
      exact ⟨p, List.mem_cons_of_mem _ hp, hc⟩

theorem sleepersOk_spec (s : State) (ms : Nat) (h : sleepersOk s ms = true) :
    ∀ c a lo hi, phaseOf s c = some (.sleeping a lo hi) → s.now + ms ≤ hi := by
  intro c a lo hi hp
  obtain ⟨p, hpm, hpc⟩ := lookup_some_mem s.phase c _ hp
  unfold sleepersOk at h
  rw [List.all_eq_true] at h
  have := h p hpm
  rw [hpc, hp] at this
  simpa using this

/-- **Poll discipline ("polled when woken")**: along the operation sequence, time is never advanced past the instant
`hi` by which the timer of a caller that is still asleep must have fired — i.e. a sleeping caller is polled (and
then, `woke` being forced, decided: `C15.decided_within_timeout_due_poll`) no later than at that instant.
(`promptB`: the same as a Boolean function, so that concrete histories can be checked by evaluation.) -/
def advOk (s : State) : Op → Bool
  | .adv ms => sleepersOk s ms
  | _ => true

def promptB (cfg : Cfg) : State → List Op → Bool
  | _, [] => true
  | s, op :: rest => advOk s op && promptB cfg (stepS cfg s op) rest

def Prompt (cfg : Cfg) (s : State) (ops : List Op) : Prop := promptB cfg s ops = true

instance (cfg : Cfg) (s : State) (ops : List Op) : Decidable (Prompt cfg s ops) := by
  unfold Prompt; infer_instance

theorem prompt_cons (cfg : Cfg) (s : State) (op : Op) (rest : List Op) (h : Prompt cfg s (op :: rest)) :
    advOk s op = true ∧ Prompt cfg (stepS cfg s op) rest := by
  unfold Prompt at h ⊢
  simp only [promptB, Bool.and_eq_true] at h
  exact h

/-- under the discipline: nobody is asleep past its timer, every decision was taken within the timeout -/
structure DInv (cfg : Cfg) (s : State) : Prop where
  awake : ∀ c a lo hi, phaseOf s c = some (.sleeping a lo hi) → s.now ≤ hi
  dec   : ∀ d ∈ s.decided, d.2.2 ≤ d.2.1 + cfg.timeout

theorem stepS_dinv (cfg : Cfg) (s : State) (op : Op) (h : SInv cfg s) (hd : DInv cfg s)
    (hp : advOk s op = true) : DInv cfg (stepS cfg s op) := by
  by_cases hop : ∀ ms, op ≠ .adv ms
  · obtain ⟨evs, dec, hdl, hok⟩ := stepS_delta cfg s op hop
    have h' := stepS_inv cfg s op h
    constructor
    · intro c a lo hi hph
      rw [hdl.now]
      rcases stepS_sleepers cfg s op hop c a lo hi hph with hold | hnew
      · exact hd.awake c a lo hi hold
      · obtain ⟨h1, h2, _, _, _⟩ := h'.sleep c a lo hi hph
        omega
    · intro d hdm
      rw [hdl.dec] at hdm
      rcases List.mem_append.mp hdm with hdm | hdm
      · exact hd.dec d hdm
      · rw [hdl.decT d hdm]
        rcases hok d hdm with h1 | ⟨lo, hi, h1⟩
        · omega
        · have := hd.awake _ _ _ _ h1
          have := (h.sleep _ _ _ _ h1).2.2.1
          omega
  · cases op with
    | adv ms =>
      simp only [advOk] at hp
      exact ⟨fun c a lo hi hph => sleepersOk_spec s ms hp c a lo hi hph, hd.dec⟩
    | arrive c sc => exact absurd (fun ms => by intro h; cases h) hop
    | poll c r w f => exact absurd (fun ms => by intro h; cases h) hop
    | drop c => exact absurd (fun ms => by intro h; cases h) hop
    | busy m => exact absurd (fun ms => by intro h; cases h) hop
    | turnedAway c e => exact absurd (fun ms => by intro h; cases h) hop

theorem init_dinv (cfg : Cfg) : DInv cfg (init cfg) :=
  ⟨by intro c a lo hi h; simp [init, phaseOf, lookup] at h, by intro d hd; cases hd⟩

theorem dinv_reachable (cfg : Cfg) (ops : List Op) (hp : Prompt cfg (init cfg) ops) : DInv cfg (run cfg ops) := by
  suffices ∀ ops s, SInv cfg s → DInv cfg s → Prompt cfg s ops →
      DInv cfg (ops.foldl (stepS cfg) s) from this ops _ (init_inv cfg) (init_dinv cfg) hp
  intro ops
  induction ops with
  | nil => intro s _ hd _; exact hd
  | cons o os ih =>
    intro s h hd hpr0
    have hpr := prompt_cons cfg s o os hpr0
    exact ih _ (stepS_inv cfg s o h) (stepS_dinv cfg s o h hd hpr.1) hpr.2

end TR.RateLimiter
