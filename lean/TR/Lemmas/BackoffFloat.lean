import TR.Lemmas.Backoff
import TR.Model.BackoffFloat
/-!
# Back-off, float side (helper lemmas for C14)

* the transcribed code *is* `ideal` on the exact instances (`natArith`: natural multipliers; `ratArith`: every valid
  configuration, the only rounding being the floor of `from_secs_f64`);
* under `F64Laws`: the transcribed code is monotone in the attempt number, and equal to `ideal` on the exact region;
* under `JitterLaws`: the range handed to `random_range` is well-formed, `randomize` is total and its result lies
  between the conversions of the two bounds;
* totality of every built-in interval function / `ReconnectPolicy`, and of a loop over them;
* `ovfArith` satisfies `F64Laws` and `JitterLaws`; `ratArith` satisfies `JitterLaws`.
-/
namespace TR.Backoff


theorem capGetD_le {cap : Option Nat} (hc : ∀ c, cap = some c → c ≤ durMax) : cap.getD durMax ≤ durMax := by
  cases cap with
  | none => exact Nat.le_refl _
  | some c => exact hc c rfl

theorem durMax_lt_top64 : durMax < top64 := by decide

/-- the product `capped_exponential` computes, in seconds -/
def secsOf (fl : FloatLike) (i : Nat) (m : fl.F) (a : Nat) : fl.F := fl.mul (fl.ofDur i) (fl.powi m (expo a))

theorem nextInterval_zero (fl : FloatLike) (m : fl.F) (a : Nat) (mx : Option Nat) : nextInterval fl 0 m a mx = .dur 0 := by
  simp [nextInterval]

theorem nextInterval_sat (fl : FloatLike) {i : Nat} (m : fl.F) (a : Nat) (mx : Option Nat) (hi : i ≠ 0)
    (h : fl.lt (secsOf fl i m a) (fl.ofDur (mx.getD durMax)) = false) : nextInterval fl i m a mx = .dur (mx.getD durMax) := by
  unfold secsOf at h
  simp [nextInterval, hi, h]

theorem nextInterval_nonpos (fl : FloatLike) {i : Nat} (m : fl.F) (a : Nat) (mx : Option Nat) (hi : i ≠ 0)
    (h : fl.lt (secsOf fl i m a) (fl.ofDur (mx.getD durMax)) = true) (hz : fl.le (secsOf fl i m a) fl.zero = true) :
    nextInterval fl i m a mx = .dur 0 := by
  unfold secsOf at h hz
  simp [nextInterval, hi, h, hz]

theorem nextInterval_conv (fl : FloatLike) {i : Nat} (m : fl.F) (a : Nat) (mx : Option Nat) (hi : i ≠ 0)
    (h : fl.lt (secsOf fl i m a) (fl.ofDur (mx.getD durMax)) = true) (hz : fl.le (secsOf fl i m a) fl.zero = false)
    {d : Nat} (hd : fl.toDur? (secsOf fl i m a) = some d) :
    nextInterval fl i m a mx = .dur (min d (mx.getD durMax)) := by
  unfold secsOf at h hz hd
  simp [nextInterval, hi, h, hz, hd]

theorem nextInterval_ratArith_eq_ideal (cfg : Cfg) (hv : cfg.Valid) (hc : ∀ c, cfg.cap = some c → c ≤ durMax) (a : Nat) :
    nextInterval ratArith cfg.initial (.q cfg.num cfg.den) a cfg.cap = .dur (ideal cfg a) := by
  have hcap : cfg.capNs ≤ durMax := capGetD_le hc
  have := durMax_lt_top64
  have hD : 0 < cfg.den ^ expo a := Nat.pow_pos hv.den_pos
  have hiff : cfg.initial * cfg.num ^ expo a / cfg.den ^ expo a < cfg.capNs ↔
      cfg.initial * cfg.num ^ expo a < cfg.capNs * cfg.den ^ expo a := Nat.div_lt_iff_lt_mul hD
  have hsecs : secsOf ratArith cfg.initial (.q cfg.num cfg.den) a =
      .q (cfg.initial * cfg.num ^ expo a) (cfg.den ^ expo a) := by
    show Q.mul (.q cfg.initial 1) (Q.powi (.q cfg.num cfg.den) (expo a)) = _
    simp [Q.mul, Q.powi]
  have hlt : ratArith.lt (secsOf ratArith cfg.initial (.q cfg.num cfg.den) a) (ratArith.ofDur (cfg.cap.getD durMax)) = true ↔
      cfg.initial * cfg.num ^ expo a < cfg.capNs * cfg.den ^ expo a := by
    rw [hsecs]
    simp [Q.lt, hD, Cfg.capNs]
  have hle : ratArith.le (secsOf ratArith cfg.initial (.q cfg.num cfg.den) a) ratArith.zero = true ↔
      cfg.initial * cfg.num ^ expo a = 0 := by
    rw [hsecs]
    simp [Q.le, hD]
  unfold ideal raw
  by_cases hi : cfg.initial = 0
  · rw [hi, nextInterval_zero]; simp
  · by_cases hl : cfg.initial * cfg.num ^ expo a < cfg.capNs * cfg.den ^ expo a
    · have hr := hiff.2 hl
      by_cases hz : cfg.initial * cfg.num ^ expo a = 0
      · rw [nextInterval_nonpos _ _ _ _ hi (hlt.2 hl) (hle.2 hz)]
        simp [hz]
      · have h64 : cfg.initial * cfg.num ^ expo a / cfg.den ^ expo a < top64 := by omega
        have hd : ratArith.toDur? (secsOf ratArith cfg.initial (.q cfg.num cfg.den) a) =
            some (cfg.initial * cfg.num ^ expo a / cfg.den ^ expo a) := by
          rw [hsecs]
          simp [Q.toDur?, hD, h64]
        rw [nextInterval_conv _ _ _ _ hi (hlt.2 hl) (Bool.eq_false_iff.2 (fun h => hz (hle.1 h))) hd]
        rfl
    · have hr : ¬ _ := fun h => hl (hiff.1 h)
      rw [nextInterval_sat _ _ _ _ hi (Bool.eq_false_iff.2 (fun h => hl (hlt.1 h)))]
      congr 1
      show cfg.capNs = _
      omega

theorem ideal_nat (i m a : Nat) (cap : Option Nat) :
    ideal ⟨i, m, 1, cap⟩ a = min (i * m ^ expo a) (cap.getD durMax) := by
  simp [ideal, raw, Cfg.capNs]

theorem nextInterval_natArith_eq_ideal (i m a : Nat) (cap : Option Nat) (hc : ∀ c, cap = some c → c ≤ durMax) :
    nextInterval natArith i (some m) a cap = .dur (ideal ⟨i, m, 1, cap⟩ a) := by
  have hcap := capGetD_le hc
  have := durMax_lt_top64
  rw [ideal_nat]
  unfold nextInterval
  simp only [natArith]
  by_cases hi : i = 0
  · simp [hi]
  · simp only [hi, if_false]
    by_cases hlt : i * m ^ expo a < cap.getD durMax
    · simp [hlt]
      by_cases hz : i * m ^ expo a = 0
      · simp [hz]
      · have h1 : i * m ^ expo a < top64 := by omega
        simp [hz, h1]
    · simp [hlt]
      omega

/-! ## exactly representable numbers of seconds -/

theorem Rep_mul_pow2 {S : Nat} (h : Rep S) (t : Nat) : Rep (S * 2 ^ t) := by
  obtain ⟨n, j, k, hn, he⟩ := h
  refine ⟨n, j + t, k, hn, ?_⟩
  have : S * 2 ^ t * 2 ^ k = S * 2 ^ k * 2 ^ t := Nat.mul_right_comm _ _ _
  rw [this, he, Nat.pow_add]
  ac_rfl

theorem repB_sound {S : Nat} (h : repB S = true) : Rep S := by
  unfold repB at h
  simp at h
  refine ⟨S / five9, 0, 9, h.2, ?_⟩
  have := Nat.div_add_mod S five9
  unfold five9 at *
  omega

theorem capExactB_sound {mx : Option Nat} (h : capExactB mx = true) : ∀ c, mx = some c → CapExact c := by
  intro c hc
  subst hc
  simp [capExactB] at h
  rcases h with h | h
  · exact Or.inl h
  · exact Or.inr (repB_sound h)

theorem CapExact_getD {mx : Option Nat} (h : ∀ c, mx = some c → CapExact c) : CapExact (mx.getD durMax) := by
  cases mx with
  | none => exact Or.inl rfl
  | some c => exact h c rfl

theorem exactRegion_spec {cfg : Cfg} (h : exactRegion cfg = true) :
    0 < cfg.den ∧ Rep cfg.initial ∧ (∀ c, cfg.cap = some c → CapExact c) ∧ ∃ j, cfg.num = 2 ^ j * cfg.den := by
  unfold exactRegion at h
  simp at h
  obtain ⟨⟨⟨⟨hd, _⟩, hi⟩, hc⟩, hp⟩ := h
  obtain ⟨j, hj⟩ := Option.isSome_iff_exists.mp hp
  exact ⟨hd, repB_sound hi, capExactB_sound hc, j, pow2Of_spec hj⟩

/-! ## the branches of `capped_exponential` -/

theorem nextInterval_cases (fl : FloatLike) {i : Nat} (m : fl.F) (a : Nat) (mx : Option Nat) (hi : i ≠ 0) :
    (fl.lt (secsOf fl i m a) (fl.ofDur (mx.getD durMax)) = false ∧ nextInterval fl i m a mx = .dur (mx.getD durMax)) ∨
    (fl.lt (secsOf fl i m a) (fl.ofDur (mx.getD durMax)) = true ∧ fl.le (secsOf fl i m a) fl.zero = true ∧
      nextInterval fl i m a mx = .dur 0) ∨
    (fl.lt (secsOf fl i m a) (fl.ofDur (mx.getD durMax)) = true ∧ fl.le (secsOf fl i m a) fl.zero = false ∧
      ∃ d, fl.toDur? (secsOf fl i m a) = some d ∧ nextInterval fl i m a mx = .dur (min d (mx.getD durMax))) ∨
    (fl.toDur? (secsOf fl i m a) = none ∧ nextInterval fl i m a mx = .panic) := by
  cases hlt : fl.lt (secsOf fl i m a) (fl.ofDur (mx.getD durMax)) with
  | false => exact Or.inl ⟨rfl, nextInterval_sat fl m a mx hi hlt⟩
  | true =>
    cases hz : fl.le (secsOf fl i m a) fl.zero with
    | true => exact Or.inr (Or.inl ⟨rfl, rfl, nextInterval_nonpos fl m a mx hi hlt hz⟩)
    | false =>
      cases hd : fl.toDur? (secsOf fl i m a) with
      | some d => exact Or.inr (Or.inr (Or.inl ⟨rfl, rfl, d, rfl, nextInterval_conv fl m a mx hi hlt hz hd⟩))
      | none =>
        refine Or.inr (Or.inr (Or.inr ⟨rfl, ?_⟩))
        unfold secsOf at hlt hz hd
        simp [nextInterval, hi, hlt, hz, hd]

/-! ## under `F64Laws`: monotone in the attempt number -/

theorem secsOf_mono (fl : FloatLike) (O : FloatOps fl) (L : F64Laws fl O) {i : Nat} (m : fl.F) (hi0 : 0 < i)
    (hi : i ≤ durMax) (hm : fl.le O.one m = true) {a b : Nat} (hab : a ≤ b) :
    fl.le (secsOf fl i m a) (secsOf fl i m b) = true :=
  L.mul_mono i _ _ hi0 hi (L.powi_mono m _ _ hm (expo_mono hab))

theorem nextInterval_mono (fl : FloatLike) (O : FloatOps fl) (L : F64Laws fl O) (i : Nat) (m : fl.F) (mx : Option Nat)
    (hi : i ≤ durMax) (hmax : ∀ c, mx = some c → c ≤ durMax) (hm : fl.le O.one m = true) {a b : Nat} (hab : a ≤ b)
    {da db : Nat} (ha : nextInterval fl i m a mx = .dur da) (hb : nextInterval fl i m b mx = .dur db) : da ≤ db := by
  by_cases hi0 : i = 0
  · subst hi0
    rw [nextInterval_zero] at ha hb
    cases ha; cases hb; exact Nat.le_refl _
  have hle := secsOf_mono fl O L m (Nat.pos_of_ne_zero hi0) hi hm hab
  obtain ⟨d, hd, hdc⟩ := nextInterval_total fl i m a mx hmax
  have hda : da ≤ mx.getD durMax := by rw [hd] at ha; cases ha; exact hdc
  rcases nextInterval_cases fl m b mx hi0 with ⟨_, hr⟩ | ⟨hltb, hzb, hr⟩ | ⟨hltb, hzb, d', hd', hr⟩ | ⟨_, hr⟩
  · rw [hr] at hb; cases hb; exact hda
  · -- b returns 0: so does a
    rw [hr] at hb; cases hb
    have hlta := L.le_lt_trans _ _ _ hle hltb
    have hza := L.le_trans _ _ _ hle hzb
    rw [nextInterval_nonpos fl m a mx hi0 hlta hza] at ha
    cases ha; exact Nat.le_refl _
  · rw [hr] at hb; cases hb
    have hlta := L.le_lt_trans _ _ _ hle hltb
    rcases nextInterval_cases fl m a mx hi0 with ⟨hf, _⟩ | ⟨_, _, hr'⟩ | ⟨_, _, d'', hd'', hr'⟩ | ⟨_, hr'⟩
    · rw [hlta] at hf; cases hf
    · rw [hr'] at ha; cases ha; exact Nat.zero_le _
    · rw [hr'] at ha; cases ha
      have := L.toDur_mono _ _ _ _ hle hd'' hd'
      omega
    · rw [hr'] at ha; cases ha
  · rw [hr] at hb; cases hb

/-! ## under `F64Laws`: exact on the exact region -/

theorem nextInterval_exact (fl : FloatLike) (O : FloatOps fl) (L : F64Laws fl O) (i j a : Nat) (mx : Option Nat)
    (hi : Rep i) (hc : ∀ c, mx = some c → c ≤ durMax ∧ CapExact c) :
    nextInterval fl i (O.pow2 j) a mx = .dur (min (i * 2 ^ (j * expo a)) (mx.getD durMax)) := by
  have hcap : mx.getD durMax ≤ durMax := capGetD_le (fun c h => (hc c h).1)
  have hce : CapExact (mx.getD durMax) := CapExact_getD (fun c h => (hc c h).2)
  have := durMax_lt_top64
  by_cases hi0 : i = 0
  · subst hi0; rw [nextInterval_zero]; simp
  have hpos : 0 < i := Nat.pos_of_ne_zero hi0
  have hsecs : secsOf fl i (O.pow2 j) a = fl.mul (fl.ofDur i) (O.pow2 (j * expo a)) := by
    unfold secsOf; rw [L.powi_pow2]
  by_cases hbig : top64 ≤ i * 2 ^ (j * expo a)
  · have h1 : fl.lt (secsOf fl i (O.pow2 j) a) fl.top = false := by
      rw [hsecs]; exact L.mul_pow2_overflow i _ hi hpos hbig
    have h2 : fl.lt (secsOf fl i (O.pow2 j) a) (fl.ofDur (mx.getD durMax)) = false := by
      cases h : fl.lt (secsOf fl i (O.pow2 j) a) (fl.ofDur (mx.getD durMax)) with
      | false => rfl
      | true => rw [fl.lt_ofDur_top _ _ hcap h] at h1; cases h1
    rw [nextInterval_sat fl _ a mx hi0 h2]
    congr 1; omega
  · have hlt64 : i * 2 ^ (j * expo a) < top64 := by omega
    have hsecs' : secsOf fl i (O.pow2 j) a = fl.ofDur (i * 2 ^ (j * expo a)) := by
      rw [hsecs]; exact L.mul_pow2_exact i _ hi hpos hlt64
    have hR : Rep (i * 2 ^ (j * expo a)) := Rep_mul_pow2 hi _
    have hlt := L.lt_exact _ _ hR hce
    by_cases hl : i * 2 ^ (j * expo a) < mx.getD durMax
    · have hRpos : ¬ (i * 2 ^ (j * expo a) = 0) := by
        have : 0 < i * 2 ^ (j * expo a) := Nat.mul_pos hpos (Nat.pow_pos (by decide))
        omega
      rw [nextInterval_conv fl _ a mx hi0 (by rw [hsecs', hlt]; simp [hl])
        (by rw [hsecs', L.le_zero_exact _ hR]; simp [hRpos]) (by rw [hsecs']; exact L.toDur_exact _ hR hlt64)]
    · rw [nextInterval_sat fl _ a mx hi0 (by rw [hsecs', hlt]; simp [hl])]
      congr 1; omega

/-! ## under `JitterLaws`: the range handed to `random_range` is well-formed; `randomize` is total -/

theorem jitterRange_bounds (fl : FloatLike) (O : FloatOps fl) (J : JitterLaws fl O) (d : Nat) (f : fl.F) (hd : d ≤ durMax)
    (hf0 : fl.le fl.zero f = true) (hf1 : fl.le f O.one = true) :
    fl.le fl.zero (jitterRange fl O d f).1 = true ∧ fl.le (jitterRange fl O d f).1 (fl.ofDur d) = true ∧
    fl.le (fl.ofDur d) (jitterRange fl O d f).2 = true ∧ O.finite (jitterRange fl O d f).2 = true := by
  obtain ⟨hx0, hxt⟩ := J.ofDur_range d hd
  obtain ⟨hδ0, hδx⟩ := J.mul_factor _ f hx0 hxt hf0 hf1
  obtain ⟨hlo0, hlox⟩ := J.sub_range _ _ hδ0 hδx hxt
  obtain ⟨hxhi, hfin⟩ := J.add_range _ _ hδ0 hδx hxt
  exact ⟨hlo0, hlox, hxhi, hfin⟩

/-- **the range is well-formed**: both bounds finite, `lo ≤ hi` (so neither is NaN), `hi − lo` finite -/
theorem jitterRange_ok (fl : FloatLike) (O : FloatOps fl) (J : JitterLaws fl O) (d : Nat) (f : fl.F) (hd : d ≤ durMax)
    (hf0 : fl.le fl.zero f = true) (hf1 : fl.le f O.one = true) :
    rangeOk fl O (jitterRange fl O d f).1 (jitterRange fl O d f).2 = true := by
  obtain ⟨hlo0, hlox, hxhi, hfin⟩ := jitterRange_bounds fl O J d f hd hf0 hf1
  obtain ⟨_, hxt⟩ := J.ofDur_range d hd
  have hlohi := J.le_trans _ _ _ hlox hxhi
  have hlofin := J.finite_between _ hlo0 (J.le_trans _ _ _ hlox hxt)
  have hsub := J.sub_finite _ _ hlo0 hlohi hfin
  simp [rangeOk, hlofin, hfin, hlohi, hsub]

theorem randomize_cases (fl : FloatLike) (r : fl.F) :
    (fl.lt (fl.max r fl.zero) fl.top = true ∧ ∃ v, fl.toDur? (fl.max r fl.zero) = some v ∧ randomize fl r = .dur v) ∨
    (fl.lt (fl.max r fl.zero) fl.top = false ∧ randomize fl r = .dur durMax) := by
  cases hlt : fl.lt (fl.max r fl.zero) fl.top with
  | false => right; exact ⟨rfl, by simp [randomize, hlt]⟩
  | true =>
    left
    have hdef := fl.toDur_defined _ hlt (fl.max_zero_nonneg r)
    obtain ⟨v, hv⟩ := Option.isSome_iff_exists.mp hdef
    exact ⟨rfl, v, hv, by simp [randomize, hlt, hv]⟩

theorem randomizeFull_eq (fl : FloatLike) (O : FloatOps fl) (J : JitterLaws fl O) (d : Nat) (f r : fl.F) (hd : d ≤ durMax)
    (hf0 : fl.le fl.zero f = true) (hf1 : fl.le f O.one = true) : randomizeFull fl O d f r = randomize fl r := by
  unfold randomizeFull
  simp [jitterRange_ok fl O J d f hd hf0 hf1]

/-- `randomize` returns a `Duration` whatever is drawn -/
theorem randomizeFull_total (fl : FloatLike) (O : FloatOps fl) (J : JitterLaws fl O) (d : Nat) (f r : fl.F) (hd : d ≤ durMax)
    (hf0 : fl.le fl.zero f = true) (hf1 : fl.le f O.one = true) : ∃ v, randomizeFull fl O d f r = .dur v ∧ v ≤ durMax := by
  rw [randomizeFull_eq fl O J d f r hd hf0 hf1]
  rcases randomize_cases fl r with ⟨_, v, hv, hr⟩ | ⟨_, hr⟩
  · exact ⟨v, hr, (J.toDur_some _ _ hv).2⟩
  · exact ⟨durMax, hr, Nat.le_refl _⟩

/-- a draw inside the range gives a delay between the conversions of the two bounds -/
theorem randomizeFull_envelope (fl : FloatLike) (O : FloatOps fl) (J : JitterLaws fl O) (d : Nat) (f r : fl.F) (hd : d ≤ durMax)
    (hf0 : fl.le fl.zero f = true) (hf1 : fl.le f O.one = true) (hin : InRange fl O d f r) {v : Nat}
    (hv : randomizeFull fl O d f r = .dur v) :
    (∀ l, fl.toDur? (jitterRange fl O d f).1 = some l → l ≤ v) ∧
    (∀ h, fl.toDur? (jitterRange fl O d f).2 = some h → v ≤ h) := by
  rw [randomizeFull_eq fl O J d f r hd hf0 hf1] at hv
  obtain ⟨hlo0, _, _, _⟩ := jitterRange_bounds fl O J d f hd hf0 hf1
  obtain ⟨hlor, hrhi⟩ := hin
  have hr0 := J.le_trans _ _ _ hlo0 hlor
  obtain ⟨hxr, hrx⟩ := J.max_zero_of_nonneg r hr0
  have hlox := J.le_trans _ _ _ hlor hrx
  have hxhi := J.le_trans _ _ _ hxr hrhi
  rcases randomize_cases fl r with ⟨_, w, hw, hr⟩ | ⟨hnlt, hr⟩
  · rw [hr] at hv; cases hv
    exact ⟨fun l hl => J.toDur_mono _ _ _ _ hlox hl hw, fun h hh => J.toDur_mono _ _ _ _ hxhi hw hh⟩
  · rw [hr] at hv; cases hv
    refine ⟨fun l hl => (J.toDur_some _ _ hl).2, fun h hh => ?_⟩
    have := J.le_lt_trans _ _ _ hxhi (J.toDur_some _ _ hh).1
    rw [this] at hnlt; cases hnlt

/-! ## every built-in interval function, every `ReconnectPolicy`, and a loop over them: total -/

theorem IntervalFn.next_total {fl : FloatLike} (O : FloatOps fl) (J : JitterLaws fl O) (f : IntervalFn fl) (h : f.WF O)
    (a : Nat) (r : fl.F) : ∃ d, f.next O a r = .dur d ∧ d ≤ durMax := by
  cases f with
  | fixed d => exact ⟨d, rfl, h⟩
  | exp i m mx =>
    obtain ⟨d, hd, hdc⟩ := nextInterval_total fl i m a mx h.2
    exact ⟨d, hd, Nat.le_trans hdc (capGetD_le h.2)⟩
  | rand i m fac mx =>
    obtain ⟨_, hmx, hf0, hf1⟩ := h
    obtain ⟨d, hd, hdc⟩ := nextInterval_total fl i m a mx hmx
    have hdm : d ≤ durMax := Nat.le_trans hdc (capGetD_le hmx)
    obtain ⟨v, hv, hvm⟩ := randomizeFull_total fl O J d fac r hdm hf0 hf1
    exact ⟨v, by simp [IntervalFn.next, hd, hv], hvm⟩

/-- `delay_for_attempt` never panics: `None`, or `Some` of a `Duration` -/
theorem Policy.delay_total {fl : FloatLike} (O : FloatOps fl) (J : JitterLaws fl O) (p : Policy fl) (h : p.WF O)
    (a : Nat) (r : fl.F) :
    (p = .none ∧ p.delayForAttempt O a r = Option.none) ∨ ∃ d, p.delayForAttempt O a r = some (.dur d) ∧ d ≤ durMax := by
  cases p with
  | none => exact Or.inl ⟨rfl, rfl⟩
  | fn f =>
    obtain ⟨d, hd, hdm⟩ := IntervalFn.next_total O J f h a r
    exact Or.inr ⟨d, by simp [Policy.delayForAttempt, hd], hdm⟩

/-- a loop state that is not a crash, all of whose sleeps are `Duration`s -/
def Loop.Fine : Loop → Prop
  | .running s => ∀ d ∈ s, d ≤ durMax
  | .stopped s => ∀ d ∈ s, d ≤ durMax
  | .crashed => False

theorem loopStep_fine {fl : FloatLike} (O : FloatOps fl) (J : JitterLaws fl O) (p : Policy fl) (h : p.WF O) (st : Loop)
    (hs : st.Fine) (a : Nat) (r : fl.F) : (loopStep O p st a r).Fine := by
  cases st with
  | running s =>
    rcases Policy.delay_total O J p h a r with ⟨_, hn⟩ | ⟨d, hd, hdm⟩
    · simp [loopStep, hn]; exact hs
    · simp only [loopStep, hd]
      intro x hx
      rcases List.mem_cons.mp hx with rfl | hx
      · exact hdm
      · exact hs x hx
  | stopped s => exact hs
  | crashed => exact hs

theorem outage_fine {fl : FloatLike} (O : FloatOps fl) (J : JitterLaws fl O) (p : Policy fl) (h : p.WF O)
    (draws : Nat → fl.F) (first n : Nat) : (outage O p draws first n).Fine := by
  induction n with
  | zero => intro d hd; cases hd
  | succ n ih => exact loopStep_fine O J p h _ ih _ _

/-- a policy that reconnects keeps the loop running: after `n` failures it has slept `n` times -/
theorem outage_running {fl : FloatLike} (O : FloatOps fl) (J : JitterLaws fl O) (f : IntervalFn fl) (h : f.WF O)
    (draws : Nat → fl.F) (first n : Nat) : ∃ s, outage O (.fn f) draws first n = .running s ∧ s.length = n := by
  induction n with
  | zero => exact ⟨[], rfl, rfl⟩
  | succ n ih =>
    obtain ⟨s, hs, hl⟩ := ih
    obtain ⟨d, hd, _⟩ := IntervalFn.next_total O J f h (first + n) (draws n)
    exact ⟨d :: s, by simp [outage, hs, loopStep, Policy.delayForAttempt, hd], by simp [hl]⟩

/-! ## what the public constructors build is well-formed -/

theorem Policy.exponential_WF {fl : FloatLike} (O : FloatOps fl) (i mx : Nat) (hi : i ≤ durMax) (hm : mx ≤ durMax) :
    (Policy.exponential O i mx).WF O := by
  refine ⟨hi, ?_⟩
  intro c hc; cases hc; exact hm

theorem IntervalFn.newRand_WF {fl : FloatLike} (O : FloatOps fl) (J : JitterLaws fl O) (i : Nat) (f m : fl.F) (mx : Option Nat)
    (hi : i ≤ durMax) (hm : ∀ c, mx = some c → c ≤ durMax) (hf : fl.le f f = true) : (IntervalFn.newRand O i f m mx).WF O :=
  ⟨hi, hm, (J.clamp01_range f hf).1, (J.clamp01_range f hf).2⟩

theorem Policy.exponentialRandom_WF {fl : FloatLike} (O : FloatOps fl) (J : JitterLaws fl O) (i mx : Nat) (f : fl.F)
    (hi : i ≤ durMax) (hm : mx ≤ durMax) (hf : fl.le f f = true) : (Policy.exponentialRandom O i mx f).WF O :=
  IntervalFn.newRand_WF O J i f (O.pow2 1) (some mx) hi (by intro c hc; cases hc; exact hm) hf

/-! ## `ovfArith` satisfies every law: the hypotheses are consistent, overflow and NaN included -/

theorem top64_lt_ovfB : 2 * top64 < ovfB := by decide

theorem X.norm_of_lt {n : Nat} (h : n < ovfB) : X.norm n = .fin n := by simp [X.norm, h]
theorem X.norm_of_ge {n : Nat} (h : ovfB ≤ n) : X.norm n = .inf := by
  have : ¬ n < ovfB := by omega
  simp [X.norm, this]

theorem X.le_norm_norm {x y : Nat} (h : x ≤ y) : X.le (X.norm x) (X.norm y) = true := by
  by_cases hx : x < ovfB <;> by_cases hy : y < ovfB
  · rw [X.norm_of_lt hx, X.norm_of_lt hy]; simpa [X.le] using h
  · rw [X.norm_of_lt hx, X.norm_of_ge (by omega)]; rfl
  · omega
  · rw [X.norm_of_ge (by omega), X.norm_of_ge (by omega)]; rfl

theorem X.le_norm_inf (x : Nat) : X.le (X.norm x) .inf = true := by
  unfold X.norm; split <;> rfl

theorem ovfF64 : F64Laws ovfArith ovfOps where
  le_trans := by
    intro x y z h1 h2
    cases x <;> cases y <;> cases z <;> simp [X.le] at h1 h2 ⊢
    omega
  le_lt_trans := by
    intro x y z h1 h2
    cases x <;> cases y <;> cases z <;> simp [X.le, X.lt] at h1 h2 ⊢
    omega
  powi_mono := by
    intro m e e' hm he
    cases m with
    | fin a =>
      have ha : 0 < a := by have : 1 ≤ a := by simpa [X.le] using hm
                            omega
      exact X.le_norm_norm (Nat.pow_le_pow_right ha he)
    | inf =>
      show X.le (if e = 0 then X.fin 1 else X.inf) (if e' = 0 then X.fin 1 else X.inf) = true
      by_cases h0 : e = 0 <;> by_cases h1 : e' = 0 <;> simp [h0, h1, X.le]
      omega
    | nan => simp [X.le] at hm
  mul_mono := by
    intro i y z hi _ hyz
    have hi' : i ≠ 0 := by omega
    cases y <;> cases z <;> simp [X.le] at hyz
    · exact X.le_norm_norm (Nat.mul_le_mul_left _ hyz)
    · show X.le (X.norm _) (if i = 0 then X.nan else X.inf) = true
      simp [hi', X.le_norm_inf]
    · show X.le (if i = 0 then X.nan else X.inf) (if i = 0 then X.nan else X.inf) = true
      simp [hi', X.le]
  toDur_mono := by
    intro x y a b hxy ha hb
    cases x <;> cases y <;> simp [X.le, X.toDur?] at hxy ha hb
    omega
  powi_pow2 := by
    intro j e
    show X.powi (X.norm (2 ^ j)) e = X.norm (2 ^ (j * e))
    by_cases hj : 2 ^ j < ovfB
    · rw [X.norm_of_lt hj]
      show X.norm ((2 ^ j) ^ e) = _
      rw [← Nat.pow_mul]
    · rw [X.norm_of_ge (by omega)]
      show (if e = 0 then X.fin 1 else X.inf) = _
      by_cases he : e = 0
      · subst he; simp; exact (X.norm_of_lt (by decide)).symm
      · simp only [he, if_false]
        have : 2 ^ j ≤ 2 ^ (j * e) := Nat.pow_le_pow_right (by decide) (Nat.le_mul_of_pos_right _ (Nat.pos_of_ne_zero he))
        exact (X.norm_of_ge (by omega)).symm
  mul_pow2_exact := by
    intro S t _ hS hlt
    have hb := top64_lt_ovfB
    have h2 : 2 ^ t ≤ S * 2 ^ t := Nat.le_mul_of_pos_left _ hS
    show X.mul (X.fin S) (X.norm (2 ^ t)) = X.fin (S * 2 ^ t)
    rw [X.norm_of_lt (by omega)]
    show X.norm (S * 2 ^ t) = _
    exact X.norm_of_lt (by omega)
  mul_pow2_overflow := by
    intro S t _ hS hge
    have hS' : S ≠ 0 := by omega
    show X.lt (X.mul (X.fin S) (X.norm (2 ^ t))) (X.fin top64) = false
    by_cases h2 : 2 ^ t < ovfB
    · rw [X.norm_of_lt h2]
      show X.lt (X.norm (S * 2 ^ t)) _ = false
      unfold X.norm; split
      · simp [X.lt]; exact hge
      · rfl
    · rw [X.norm_of_ge (by omega)]
      simp [X.mul, hS', X.lt]
  lt_exact := by intro S c _ _; rfl
  le_zero_exact := by intro S _; simp [X.le]
  toDur_exact := by intro S _ h; simp [X.toDur?, h]

theorem ovfJitter : JitterLaws ovfArith ovfOps where
  le_trans := ovfF64.le_trans
  le_lt_trans := ovfF64.le_lt_trans
  clamp01_range := by
    intro f hf
    cases f with
    | fin a =>
      show X.le (X.fin 0) (if 1 < a then X.fin 1 else X.fin a) = true ∧ X.le (if 1 < a then X.fin 1 else X.fin a) (X.fin 1) = true
      by_cases h : 1 < a <;> simp [h, X.le]
      omega
    | inf => exact ⟨rfl, rfl⟩
    | nan => simp [X.le] at hf
  ofDur_range := by
    intro d hd
    have := durMax_lt_top64
    simp [X.le]; omega
  mul_factor := by
    intro x f hx0 hxt hf0 hf1
    have hb := top64_lt_ovfB
    cases x <;> cases f <;> simp [X.le] at hx0 hxt hf0 hf1
    rename_i a b
    have hab : a * b ≤ a := by
      have : b = 0 ∨ b = 1 := by omega
      rcases this with rfl | rfl <;> simp
    show X.le (X.fin 0) (X.norm (a * b)) = true ∧ X.le (X.norm (a * b)) (X.fin a) = true
    rw [X.norm_of_lt (by omega)]
    simp [X.le, hab]
  sub_range := by
    intro x δ h0 hδx hxt
    cases x <;> cases δ <;> simp [X.le] at h0 hδx hxt
    rename_i a b
    show X.le (X.fin 0) (if b ≤ a then X.fin (a - b) else X.nan) = true ∧ X.le (if b ≤ a then X.fin (a - b) else X.nan) (X.fin a) = true
    simp [hδx, X.le]
  add_range := by
    intro x δ h0 hδx hxt
    have hb := top64_lt_ovfB
    cases x <;> cases δ <;> simp [X.le] at h0 hδx hxt
    rename_i a b
    show X.le (X.fin a) (X.norm (a + b)) = true ∧ X.finite (X.norm (a + b)) = true
    rw [X.norm_of_lt (by omega)]
    simp [X.le, X.finite]
  finite_between := by
    intro y h0 ht
    cases y <;> simp [X.le] at h0 ht
    rfl
  sub_finite := by
    intro lo hi h0 hle hf
    cases lo <;> cases hi <;> simp [X.le, X.finite] at h0 hle hf
    rename_i a b
    show X.finite (if a ≤ b then X.fin (b - a) else X.nan) = true
    simp [hle, X.finite]
  max_zero_of_nonneg := by
    intro r h0
    cases r <;> simp [X.le] at h0
    · rename_i a
      show X.le (X.fin (Nat.max a 0)) (X.fin a) = true ∧ X.le (X.fin a) (X.fin (Nat.max a 0)) = true
      simp [X.le]
    · exact ⟨rfl, rfl⟩
  toDur_mono := ovfF64.toDur_mono
  toDur_some := by
    intro x a h
    cases x <;> simp [X.toDur?] at h
    obtain ⟨h1, rfl⟩ := h
    refine ⟨by simpa [X.lt] using h1, ?_⟩
    unfold top64 at h1; unfold durMax; omega

/-! ## `ratArith` satisfies `JitterLaws`; on it `randomize` stays inside the exact envelope -/

/-- fractions ordered by cross-multiplication have ordered floors -/
theorem floor_le_floor {a b c d : Nat} (hb : 0 < b) (hd : 0 < d) (h : a * d ≤ c * b) : a / b ≤ c / d := by
  rw [Nat.le_div_iff_mul_le hd]
  have h1 : a / b * b ≤ a := Nat.div_mul_le_self a b
  have h2 : a / b * d * b ≤ c * b := by
    calc a / b * d * b = a / b * b * d := Nat.mul_right_comm _ _ _
      _ ≤ a * d := Nat.mul_le_mul_right _ h1
      _ ≤ c * b := h
  exact Nat.le_of_mul_le_mul_right h2 hb

theorem Q.le_q {a b c d : Nat} : Q.le (.q a b) (.q c d) = true ↔ 0 < b ∧ 0 < d ∧ a * d ≤ c * b := by
  simp [Q.le, and_assoc]

theorem Q.lt_q {a b c d : Nat} : Q.lt (.q a b) (.q c d) = true ↔ 0 < b ∧ 0 < d ∧ a * d < c * b := by
  simp [Q.lt, and_assoc]

theorem Q.of_le_q {x : Q} {c d : Nat} (h : Q.le x (.q c d) = true) :
    ∃ a b, x = .q a b ∧ 0 < b ∧ 0 < d ∧ a * d ≤ c * b := by
  cases x with
  | q a b => exact ⟨a, b, rfl, Q.le_q.mp h⟩
  | inf => simp [Q.le] at h
  | nan => simp [Q.le] at h

theorem ratJitter : JitterLaws ratArith ratOps where
  le_trans := by
    intro x y z h1 h2
    cases x <;> cases y <;> cases z
    all_goals (try (simp [Q.le] at h1 h2 ⊢ <;> omega))
    · rename_i a b c d e f
      obtain ⟨hb, hd, h1⟩ := Q.le_q.mp h1
      obtain ⟨_, hf, h2⟩ := Q.le_q.mp h2
      refine Q.le_q.mpr ⟨hb, hf, ?_⟩
      have : a * f * d ≤ e * b * d := by
        calc a * f * d = a * d * f := Nat.mul_right_comm _ _ _
          _ ≤ c * b * f := Nat.mul_le_mul_right _ h1
          _ = c * f * b := Nat.mul_right_comm _ _ _
          _ ≤ e * d * b := Nat.mul_le_mul_right _ h2
          _ = e * b * d := Nat.mul_right_comm _ _ _
      exact Nat.le_of_mul_le_mul_right this hd
  le_lt_trans := by
    intro x y z h1 h2
    cases x <;> cases y <;> cases z
    all_goals (try (simp [Q.le, Q.lt] at h1 h2 ⊢ <;> omega))
    · rename_i a b c d e f
      obtain ⟨hb, hd, h1⟩ := Q.le_q.mp h1
      obtain ⟨_, hf, h2⟩ := Q.lt_q.mp h2
      refine Q.lt_q.mpr ⟨hb, hf, ?_⟩
      have : a * f * d < e * b * d := by
        calc a * f * d = a * d * f := Nat.mul_right_comm _ _ _
          _ ≤ c * b * f := Nat.mul_le_mul_right _ h1
          _ = c * f * b := Nat.mul_right_comm _ _ _
          _ < e * d * b := Nat.mul_lt_mul_of_pos_right h2 hb
          _ = e * b * d := Nat.mul_right_comm _ _ _
      exact Nat.lt_of_mul_lt_mul_right this
  clamp01_range := by
    intro f hf
    cases f with
    | q a b =>
      obtain ⟨hb, _, _⟩ := Q.le_q.mp hf
      have hb0 : b ≠ 0 := by omega
      show Q.le (.q 0 1) (Q.clamp01 (.q a b)) = true ∧ Q.le (Q.clamp01 (.q a b)) (.q 1 1) = true
      simp only [Q.clamp01, hb0, if_false]
      by_cases h : b < a
      · simp [h, Q.le]
      · simp only [h, if_false]
        exact ⟨Q.le_q.mpr ⟨Nat.one_pos, hb, by simp⟩, Q.le_q.mpr ⟨hb, Nat.one_pos, by omega⟩⟩
    | inf => exact ⟨by decide, by decide⟩
    | nan => cases hf
  ofDur_range := by
    intro d hd
    have := durMax_lt_top64
    refine ⟨?_, ?_⟩
    · show Q.le (.q 0 1) (.q d 1) = true
      simp [Q.le]
    · show Q.le (.q d 1) (.q top64 1) = true
      simp [Q.le]; omega
  mul_factor := by
    intro x f hx0 hxt hf0 hf1
    obtain ⟨a, b, rfl, hb, _, _⟩ := Q.of_le_q hxt
    obtain ⟨c, d, rfl, hd, _, hcd⟩ := Q.of_le_q hf1
    have hbd : 0 < b * d := Nat.mul_pos hb hd
    refine ⟨Q.le_q.mpr ⟨Nat.one_pos, hbd, by simp⟩, Q.le_q.mpr ⟨hbd, hb, ?_⟩⟩
    calc a * c * b = a * b * c := Nat.mul_right_comm _ _ _
      _ ≤ a * b * d := Nat.mul_le_mul_left _ (by omega)
      _ = a * (b * d) := Nat.mul_assoc _ _ _
  sub_range := by
    intro x δ h0 hδx hxt
    obtain ⟨a, b, rfl, _, _, _⟩ := Q.of_le_q hxt
    obtain ⟨c, d, rfl, hd, hb, hle⟩ := Q.of_le_q hδx
    have hbd : 0 < b * d := Nat.mul_pos hb hd
    show Q.le (.q 0 1) (Q.sub (.q a b) (.q c d)) = true ∧ Q.le (Q.sub (.q a b) (.q c d)) (.q a b) = true
    have hcond : 0 < b ∧ 0 < d ∧ c * b ≤ a * d := ⟨hb, hd, hle⟩
    simp only [Q.sub, hcond, and_self, if_true]
    refine ⟨Q.le_q.mpr ⟨Nat.one_pos, hbd, by simp⟩, Q.le_q.mpr ⟨hbd, hb, ?_⟩⟩
    calc (a * d - c * b) * b ≤ a * d * b := Nat.mul_le_mul_right _ (Nat.sub_le _ _)
      _ = a * (b * d) := by rw [Nat.mul_assoc, Nat.mul_comm d b]
  add_range := by
    intro x δ h0 hδx hxt
    obtain ⟨a, b, rfl, _, _, _⟩ := Q.of_le_q hxt
    obtain ⟨c, d, rfl, hd, hb, _⟩ := Q.of_le_q hδx
    have hbd : 0 < b * d := Nat.mul_pos hb hd
    refine ⟨Q.le_q.mpr ⟨hb, hbd, ?_⟩, by simp [Q.add, Q.finite, hbd]⟩
    calc a * (b * d) = a * d * b := by rw [Nat.mul_assoc, Nat.mul_comm d b]
      _ ≤ (a * d + c * b) * b := Nat.mul_le_mul_right _ (Nat.le_add_right _ _)
  finite_between := by
    intro y h0 ht
    obtain ⟨a, b, rfl, hb, _, _⟩ := Q.of_le_q ht
    simp [Q.finite, hb]
  sub_finite := by
    intro lo hi h0 hle hf
    cases hi with
    | inf => simp [Q.finite] at hf
    | nan => simp [Q.finite] at hf
    | q c d =>
    obtain ⟨a, b, rfl, hb, hd, hle⟩ := Q.of_le_q hle
    have hcond : 0 < d ∧ 0 < b ∧ a * d ≤ c * b := ⟨hd, hb, hle⟩
    show Q.finite (Q.sub (.q c d) (.q a b)) = true
    simp [Q.sub, hcond, Q.finite, Nat.mul_pos hd hb]
  max_zero_of_nonneg := by
    intro r h0
    cases r with
    | nan => simp [Q.le] at h0
    | inf => exact ⟨by decide, by decide⟩
    | q a b =>
      obtain ⟨_, hb, _⟩ := Q.le_q.mp h0
      show Q.le (Q.max (.q a b) (.q 0 1)) (.q a b) = true ∧ Q.le (.q a b) (Q.max (.q a b) (.q 0 1)) = true
      by_cases ha : a = 0
      · subst ha
        simp [Q.max, Q.le, hb]
      · have : ¬ (a * 1 ≤ 0 * b) := by simp; omega
        simp only [Q.max, this, if_false]
        exact ⟨Q.le_q.mpr ⟨hb, hb, Nat.le_refl _⟩, Q.le_q.mpr ⟨hb, hb, Nat.le_refl _⟩⟩
  toDur_mono := by
    intro x y a b hxy ha hb
    cases y with
    | inf => simp [Q.toDur?] at hb
    | nan => simp [Q.toDur?] at hb
    | q n' d' =>
    obtain ⟨n, d, rfl, hd, hd', hle⟩ := Q.of_le_q hxy
    simp [Q.toDur?] at ha hb
    obtain ⟨_, rfl⟩ := ha
    obtain ⟨_, rfl⟩ := hb
    exact floor_le_floor hd hd' hle
  toDur_some := by
    intro x a h
    cases x with
    | inf => simp [Q.toDur?] at h
    | nan => simp [Q.toDur?] at h
    | q n d =>
    simp [Q.toDur?] at h
    obtain ⟨⟨hd, hlt⟩, rfl⟩ := h
    refine ⟨Q.lt_q.mpr ⟨hd, Nat.one_pos, ?_⟩, ?_⟩
    · have := (Nat.div_lt_iff_lt_mul hd).1 hlt
      omega
    · unfold top64 at hlt; unfold durMax; omega

theorem jitterRange_ratArith (d fn fd : Nat) (hfd : 0 < fd) (h : fn ≤ fd) :
    jitterRange ratArith ratOps d (.q fn fd) = (.q (d * fd - d * fn) fd, .q (d * fd + d * fn) fd) := by
  have hle : d * fn ≤ d * fd := Nat.mul_le_mul_left _ h
  show (Q.sub (.q d 1) (Q.mul (.q d 1) (.q fn fd)), Q.add (.q d 1) (Q.mul (.q d 1) (.q fn fd))) = _
  simp [Q.mul, Q.sub, Q.add, hfd, hle]

/-- **(B) = (A) for the jitter, on the exact instance**: with a factor `fn/fd ∈ [0,1]` (any rational) and a draw inside
the range it asked for, the transcribed `randomize` returns a delay inside `[⌊d(1−f)⌋, ⌊d(1+f)⌋]`, and a `Duration` -/
theorem randomize_ratArith_envelope (d fn fd : Nat) (r : Q) (hd : d ≤ durMax) (hfd : 0 < fd) (h : fn ≤ fd)
    (hin : InRange ratArith ratOps d (.q fn fd) r) {v : Nat} (hv : randomizeFull ratArith ratOps d (.q fn fd) r = .dur v) :
    jitterLoQ d fn fd ≤ v ∧ v ≤ jitterHiQ d fn fd ∧ v ≤ durMax := by
  have := durMax_lt_top64
  have hf0 : ratArith.le ratArith.zero (.q fn fd) = true := Q.le_q.mpr ⟨Nat.one_pos, hfd, by simp⟩
  have hf1 : ratArith.le (.q fn fd) ratOps.one = true := Q.le_q.mpr ⟨hfd, Nat.one_pos, by omega⟩
  obtain ⟨hlo, hhi⟩ := randomizeFull_envelope ratArith ratOps ratJitter d _ r hd hf0 hf1 hin hv
  obtain ⟨w, hw, hwm⟩ := randomizeFull_total ratArith ratOps ratJitter d _ r hd hf0 hf1
  rw [hv] at hw; cases hw
  rw [jitterRange_ratArith d fn fd hfd h] at hlo hhi
  have hloq : jitterLoQ d fn fd = (d * fd - d * fn) / fd := by unfold jitterLoQ; rw [Nat.mul_sub]
  have hhiq : jitterHiQ d fn fd = (d * fd + d * fn) / fd := by unfold jitterHiQ; rw [Nat.mul_add]
  have hlod := jitterLoQ_le d fn fd
  refine ⟨?_, ?_, hwm⟩
  · apply hlo
    show Q.toDur? (.q (d * fd - d * fn) fd) = _
    have : (d * fd - d * fn) / fd < top64 := by rw [← hloq]; omega
    simp [Q.toDur?, hfd, this, hloq]
  · by_cases hb : jitterHiQ d fn fd < top64
    · apply hhi
      show Q.toDur? (.q (d * fd + d * fn) fd) = _
      have : (d * fd + d * fn) / fd < top64 := by rw [← hhiq]; exact hb
      simp [Q.toDur?, hfd, this, hhiq]
    · omega

/-- … hence the jittered interval function on the exact instance stays within the randomization factor of `ideal` -/
theorem rand_next_ratArith_envelope (cfg : Cfg) (hv : cfg.Valid) (hc : ∀ c, cfg.cap = some c → c ≤ durMax) (fn fd a : Nat)
    (r : Q) (hfd : 0 < fd) (h : fn ≤ fd) (hin : InRange ratArith ratOps (ideal cfg a) (.q fn fd) r) {v : Nat}
    (hr : (IntervalFn.rand cfg.initial (.q cfg.num cfg.den) (.q fn fd) cfg.cap : IntervalFn ratArith).next ratOps a r = .dur v) :
    jitterLoQ (ideal cfg a) fn fd ≤ v ∧ v ≤ jitterHiQ (ideal cfg a) fn fd ∧ v ≤ durMax := by
  have hid : ideal cfg a ≤ durMax := ideal_no_overflow_aux cfg a hc
  simp only [IntervalFn.next, nextInterval_ratArith_eq_ideal cfg hv hc a] at hr
  exact randomize_ratArith_envelope _ fn fd r hid hfd h hin hr

/-! ## `ReconnectPolicy::delay_for_attempt`: the interval function's value, nothing added -/

theorem Policy.delay_exponential {fl : FloatLike} (O : FloatOps fl) (i mx a : Nat) (r : fl.F) :
    (Policy.exponential O i mx).delayForAttempt O a r = some (nextInterval fl i (O.pow2 1) a (some mx)) := rfl

theorem Policy.delay_fixed {fl : FloatLike} (O : FloatOps fl) (d a : Nat) (r : fl.F) :
    (Policy.fixed d : Policy fl).delayForAttempt O a r = some (.dur d) := rfl

theorem Policy.delay_none {fl : FloatLike} (O : FloatOps fl) (a : Nat) (r : fl.F) :
    (Policy.none : Policy fl).delayForAttempt O a r = Option.none := rfl

/-- the configuration `ReconnectPolicy::exponential(i, mx)` builds: `new(i).multiplier(2.0).max_interval(mx)` -/
theorem build_policy (i mx : Nat) : build i [.mult 2 1, .cap mx] = { initial := i, num := 2, den := 1, cap := some mx } := rfl

/-- on the exact instance the policy's delay is `ideal`: `min (i·2^attempt) max`, for every initial delay (zero and
sub-millisecond included) and every maximum (below one millisecond, below the initial delay included) -/
theorem Policy.delay_exponential_ratArith (i mx a : Nat) (r : Q) (hm : mx ≤ durMax) :
    (Policy.exponential ratOps i mx).delayForAttempt ratOps a r = some (.dur (min (i * 2 ^ expo a) mx)) := by
  rw [Policy.delay_exponential]
  have h := nextInterval_ratArith_eq_ideal { initial := i, num := 2, den := 1, cap := some mx } ⟨Nat.one_pos, by show 1 ≤ 2; omega⟩
    (by intro c hc; cases hc; exact hm) a
  have hi : ideal { initial := i, num := 2, den := 1, cap := some mx } a = min (i * 2 ^ expo a) mx := by
    simp [ideal, raw, Cfg.capNs]
  rw [← hi, ← h]

/-- over any arithmetic: a `Duration`, at most the maximum given to the constructor — whatever its size -/
theorem Policy.delay_exponential_capped {fl : FloatLike} (O : FloatOps fl) (i mx a : Nat) (r : fl.F) (hm : mx ≤ durMax) :
    ∃ d, (Policy.exponential O i mx).delayForAttempt O a r = some (.dur d) ∧ d ≤ mx := by
  obtain ⟨d, hd, hdc⟩ := nextInterval_total fl i (O.pow2 1) a (some mx) (by intro c hc; cases hc; exact hm)
  exact ⟨d, by rw [Policy.delay_exponential, hd], hdc⟩

/-- a zero initial delay stays zero -/
theorem Policy.delay_exponential_zero {fl : FloatLike} (O : FloatOps fl) (mx a : Nat) (r : fl.F) :
    (Policy.exponential O 0 mx).delayForAttempt O a r = some (.dur 0) := by
  rw [Policy.delay_exponential, nextInterval_zero]

/-- under `F64Laws`, for exactly representable delays: `min (i·2^attempt) max` exactly -/
theorem Policy.delay_exponential_exact {fl : FloatLike} (O : FloatOps fl) (L : F64Laws fl O) (i mx a : Nat) (r : fl.F)
    (hi : Rep i) (hm : mx ≤ durMax) (hme : CapExact mx) :
    (Policy.exponential O i mx).delayForAttempt O a r = some (.dur (min (i * 2 ^ expo a) mx)) := by
  rw [Policy.delay_exponential, nextInterval_exact fl O L i 1 a (some mx) hi (by intro c hc; cases hc; exact ⟨hm, hme⟩)]
  simp

/-- the exact rationals also satisfy `F64Laws`: there `powi` monotone in the exponent for a (fractional) multiplier ≥ 1 is a theorem -/
theorem ratF64 : F64Laws ratArith ratOps where
  le_trans := ratJitter.le_trans
  le_lt_trans := ratJitter.le_lt_trans
  powi_mono := by
    intro m e e' hm he
    cases m with
    | q p r =>
      obtain ⟨_, hr, hrp⟩ := Q.le_q.mp hm
      have hrp' : r ≤ p := by omega
      obtain ⟨k, rfl⟩ := Nat.exists_eq_add_of_le he
      refine Q.le_q.mpr ⟨Nat.pow_pos hr, Nat.pow_pos hr, ?_⟩
      have hk : r ^ k ≤ p ^ k := Nat.pow_le_pow_left hrp' k
      calc p ^ e * r ^ (e + k) = p ^ e * r ^ e * r ^ k := by rw [Nat.pow_add, Nat.mul_assoc]
        _ ≤ p ^ e * r ^ e * p ^ k := Nat.mul_le_mul_left _ hk
        _ = p ^ (e + k) * r ^ e := by rw [Nat.pow_add]; ac_rfl
    | inf =>
      show Q.le (if e = 0 then Q.q 1 1 else Q.inf) (if e' = 0 then Q.q 1 1 else Q.inf) = true
      by_cases h0 : e = 0 <;> by_cases h1 : e' = 0 <;> simp [h0, h1, Q.le]
      omega
    | nan => simp [Q.le] at hm
  mul_mono := by
    intro i y z hi _ hyz
    have hi' : i ≠ 0 := by omega
    cases z with
    | nan => cases y <;> simp [Q.le] at hyz
    | inf =>
      cases y with
      | nan => simp [Q.le] at hyz
      | inf => show Q.le (Q.mul (.q i 1) .inf) (Q.mul (.q i 1) .inf) = true; simp [Q.mul, hi']; rfl
      | q a b =>
        have hb : 0 < b := by simpa [Q.le] using hyz
        show Q.le (Q.mul (.q i 1) (.q a b)) (Q.mul (.q i 1) .inf) = true
        simp [Q.mul, hi']; simp [Q.le, hb]
    | q c d =>
      obtain ⟨a, b, rfl, hb, hd, hle⟩ := Q.of_le_q hyz
      show Q.le (.q (i * a) (1 * b)) (.q (i * c) (1 * d)) = true
      refine Q.le_q.mpr ⟨by omega, by omega, ?_⟩
      calc i * a * (1 * d) = i * (a * d) := by rw [Nat.one_mul, Nat.mul_assoc]
        _ ≤ i * (c * b) := Nat.mul_le_mul_left _ hle
        _ = i * c * (1 * b) := by rw [Nat.one_mul, Nat.mul_assoc]
  toDur_mono := ratJitter.toDur_mono
  powi_pow2 := by
    intro j e
    show Q.q ((2 ^ j) ^ e) (1 ^ e) = Q.q (2 ^ (j * e)) 1
    rw [Nat.one_pow, ← Nat.pow_mul]
  mul_pow2_exact := by
    intro S t _ _ _
    show Q.q (S * 2 ^ t) (1 * 1) = Q.q (S * 2 ^ t) 1
    rfl
  mul_pow2_overflow := by
    intro S t _ _ hge
    show Q.lt (.q (S * 2 ^ t) (1 * 1)) (.q top64 1) = false
    simp [Q.lt]; exact hge
  lt_exact := by
    intro S c _ _
    show Q.lt (.q S 1) (.q c 1) = decide (S < c)
    by_cases h : S < c <;> simp [Q.lt, h]
  le_zero_exact := by
    intro S _
    show Q.le (.q S 1) (.q 0 1) = decide (S = 0)
    by_cases h : S = 0 <;> simp [Q.le, h]
  toDur_exact := by
    intro S _ h
    show Q.toDur? (.q S 1) = some S
    simp [Q.toDur?, h]

end TR.Backoff
