import TR.Lemmas.TimeLimiterTrace
/-!
# Time limiter: the lines of one caller in the log, in order, are its ghost history

`Lines`: for a caller that was never refused, the sub-list of the timestamped log made of the lines about that
caller (`inner_call`, `inner_done`, `inner_drop`, `result`) IS its history, entry by entry, in the same order, every
entry rendered with the caller's serial.  (Membership in both directions and the count of results — `Bridge` — follow;
this adds the order.)  The only work is in the advance of the clock, where the `inner_done` events of all callers are
merged in timer order (`dueEvents`): each caller contributes at most one, so the merge cannot reorder one caller's lines.
-/
namespace TR.TimeLimiter

/-- the line is about caller `c` -/
def lineOf (c : Nat) (p : Nat × Ev) : Bool :=
  match p.2 with
  | .innerCall c' _ => decide (c' = c)
  | .innerCallX c' _ _ _ => decide (c' = c)
  | .innerDone c' _ _ => decide (c' = c)
  | .innerDrop c' _ => decide (c' = c)
  | .result c' _ => decide (c' = c)
  | _ => false

theorem lineOf_toEv (c c' k t : Nat) (e : CEv) : lineOf c (t, toEv c' k e) = decide (c' = c) := by
  cases e <;> rfl

/-- a history entry as a line of the log -/
def lineAs (c k : Nat) (p : Nat × CEv) : Nat × Ev := (p.1, toEv c k p.2)

theorem filter_lines_same (c k t : Nat) (evs : List CEv) :
    ((evs.map (toEv c k)).map (fun e => (t, e))).filter (lineOf c) = (evs.map (fun e => (t, e))).map (lineAs c k) := by
  induction evs with
  | nil => rfl
  | cons e tl ih =>
    simp only [List.map_cons, List.filter_cons, lineOf_toEv, decide_true, if_true, ih]
    rfl

theorem filter_lines_other (c c' k t : Nat) (evs : List CEv) (h : c' ≠ c) :
    ((evs.map (toEv c' k)).map (fun e => (t, e))).filter (lineOf c) = [] := by
  rw [List.filter_eq_nil_iff]
  intro p hp
  obtain ⟨ev, hev, rfl⟩ := List.mem_map.mp hp
  obtain ⟨e, _, rfl⟩ := List.mem_map.mp hev
  simp [lineOf_toEv, h]

/-! ## keys of the caller list -/

def Uniq (l : List (Nat × Caller)) : Prop := (l.map Prod.fst).Nodup

theorem lookup_none_iff (l : List (Nat × Caller)) (c : Nat) : lookup l c = none ↔ c ∉ l.map Prod.fst := by
  induction l with
  | nil => simp [lookup]
  | cons p tl ih =>
    obtain ⟨k, v⟩ := p
    by_cases hk : k = c
    · simp [lookup, hk]
    · have hk' : ¬ c = k := fun h => hk h.symm
      simp [lookup, hk, hk', ih]

theorem uniq_snoc (l : List (Nat × Caller)) (c : Nat) (v : Caller) (h : Uniq l) (hn : lookup l c = none) :
    Uniq (l ++ [(c, v)]) := by
  unfold Uniq at h ⊢
  rw [List.map_append, List.nodup_append]
  refine ⟨h, by simp, ?_⟩
  intro a ha b hb
  simp at hb
  subst hb
  intro hab
  subst hab
  exact (lookup_none_iff l a).mp hn ha

theorem uniq_setC (l : List (Nat × Caller)) (c : Nat) (v : Caller) (h : Uniq l) : Uniq (setC l c v) := by
  unfold Uniq setC at *
  have : (l.map fun p => if p.1 = c then (p.1, v) else p).map Prod.fst = l.map Prod.fst := by
    rw [List.map_map]
    apply List.map_congr_left
    intro p _
    simp only [Function.comp]
    split <;> rfl
  rw [this]; exact h

theorem uniq_mapSnd (l : List (Nat × Caller)) (g : Caller → Caller) (h : Uniq l) :
    Uniq (l.map (fun p => (p.1, g p.2))) := by
  unfold Uniq at *
  have : (l.map (fun p => (p.1, g p.2))).map Prod.fst = l.map Prod.fst := by
    rw [List.map_map]; rfl
  rw [this]; exact h

/-! ## the merge of an advance does not touch the lines of one caller -/

theorem filter_insDue_neg (q : Nat × Nat × Ev → Bool) (e : Nat × Nat × Ev) (l : List (Nat × Nat × Ev))
    (h : q e = false) : (insDue e l).filter q = l.filter q := by
  induction l with
  | nil => simp [insDue, h]
  | cons a tl ih =>
    simp only [insDue]
    split
    · simp [List.filter_cons, h]
    · simp only [List.filter_cons, ih]

theorem filter_insDue_pos (q : Nat × Nat × Ev → Bool) (e : Nat × Nat × Ev) (l : List (Nat × Nat × Ev))
    (h : q e = true) (hl : ∀ d ∈ l, q d = false) : (insDue e l).filter q = [e] := by
  induction l with
  | nil => simp [insDue, h]
  | cons a tl ih =>
    have ha : q a = false := hl a (by simp)
    have htl : ∀ d ∈ tl, q d = false := fun d hd => hl d (by simp [hd])
    simp only [insDue]
    split
    · have : (a :: tl).filter q = [] := by
        rw [List.filter_eq_nil_iff]
        intro d hd; simp [hl d hd]
      simp only [List.filter_cons, h, if_true]
      rw [List.filter_cons] at this
      rw [this]
    · simp [ha, ih htl]

/-- the clock alone makes a caller emit nothing or its one `inner_done` -/
theorem advC_evs_cases (cfg : Cfg) (now : Nat) (x : Caller) :
    (advC cfg now x).2 = [] ∨ (advC cfg now x).2 = [CEv.done x.sc.out] := by
  unfold advC
  split
  · exact Or.inl rfl
  · unfold runTask; split
    · exact Or.inr rfl
    · exact Or.inl rfl

/-- "the completion is about caller `c`" -/
def dueOf (c : Nat) (d : Nat × Nat × Ev) : Bool := lineOf c (0, d.2.2)

theorem dueOf_dueKey (c : Nat) (kOf : List (Nat × Nat)) (p : Nat × Caller) (e : CEv) :
    dueOf c (dueKey kOf p e) = decide (p.1 = c) := by
  simp [dueOf, dueKey, lineOf_toEv]

/-- the completions of one caller merged into `acc` -/
def mergeOne (cfg : Cfg) (now : Nat) (kOf : List (Nat × Nat)) (acc : List (Nat × Nat × Ev)) (p : Nat × Caller) :
    List (Nat × Nat × Ev) :=
  (advC cfg now p.2).2.foldl (fun acc e => insDue (dueKey kOf p e) acc) acc

theorem filter_mergeOne_other (cfg : Cfg) (now c : Nat) (kOf : List (Nat × Nat)) (acc : List (Nat × Nat × Ev))
    (p : Nat × Caller) (h : p.1 ≠ c) : (mergeOne cfg now kOf acc p).filter (dueOf c) = acc.filter (dueOf c) := by
  unfold mergeOne
  rcases advC_evs_cases cfg now p.2 with he | he
  · rw [he]; rfl
  · rw [he]
    simp only [List.foldl_cons, List.foldl_nil]
    exact filter_insDue_neg _ _ _ (by rw [dueOf_dueKey]; simp [h])

theorem filter_mergeOne_same (cfg : Cfg) (now c : Nat) (kOf : List (Nat × Nat)) (acc : List (Nat × Nat × Ev))
    (p : Nat × Caller) (h : p.1 = c) (hacc : ∀ d ∈ acc, dueOf c d = false) :
    (mergeOne cfg now kOf acc p).filter (dueOf c) = (advC cfg now p.2).2.map (dueKey kOf p) := by
  unfold mergeOne
  rcases advC_evs_cases cfg now p.2 with he | he
  · rw [he]
    simp only [List.foldl_nil, List.map_nil]
    rw [List.filter_eq_nil_iff]
    intro d hd; simp [hacc d hd]
  · rw [he]
    simp only [List.foldl_cons, List.foldl_nil, List.map_cons, List.map_nil]
    exact filter_insDue_pos _ _ _ (by rw [dueOf_dueKey]; simp [h]) hacc

theorem filter_merge_none (cfg : Cfg) (now c : Nat) (kOf : List (Nat × Nat)) (l : List (Nat × Caller))
    (acc : List (Nat × Nat × Ev)) (h : ∀ p ∈ l, p.1 ≠ c) :
    (l.foldl (mergeOne cfg now kOf) acc).filter (dueOf c) = acc.filter (dueOf c) := by
  induction l generalizing acc with
  | nil => rfl
  | cons p tl ih =>
    simp only [List.foldl_cons]
    rw [ih _ (fun q hq => h q (by simp [hq])), filter_mergeOne_other cfg now c kOf acc p (h p (by simp))]

theorem filter_merge (cfg : Cfg) (now c : Nat) (kOf : List (Nat × Nat)) (l : List (Nat × Caller))
    (acc : List (Nat × Nat × Ev)) (hu : Uniq l) (hacc : ∀ d ∈ acc, dueOf c d = false) :
    (l.foldl (mergeOne cfg now kOf) acc).filter (dueOf c) =
      match lookup l c with
      | some x => (advC cfg now x).2.map (dueKey kOf (c, x))
      | none => [] := by
  induction l generalizing acc with
  | nil =>
    simp only [List.foldl_nil, lookup]
    rw [List.filter_eq_nil_iff]
    intro d hd; simp [hacc d hd]
  | cons p tl ih =>
    obtain ⟨k, v⟩ := p
    unfold Uniq at hu
    simp only [List.map_cons, List.nodup_cons] at hu
    simp only [List.foldl_cons]
    by_cases hk : k = c
    · subst hk
      have hnone : ∀ q ∈ tl, q.1 ≠ k := by
        intro q hq hqk
        exact hu.1 (by rw [← hqk]; exact List.mem_map.mpr ⟨q, hq, rfl⟩)
      rw [filter_merge_none cfg now k kOf tl _ hnone, filter_mergeOne_same cfg now k kOf acc (k, v) rfl hacc]
      simp [lookup]
    · have hacc' : ∀ d ∈ mergeOne cfg now kOf acc (k, v), dueOf c d = false := by
        intro d hd
        have hf := filter_mergeOne_other cfg now c kOf acc (k, v) hk
        have hnil : acc.filter (dueOf c) = [] := by
          rw [List.filter_eq_nil_iff]; intro d' hd'; simp [hacc d' hd']
        rw [hnil, List.filter_eq_nil_iff] at hf
        simpa using hf d hd
      rw [ih _ hu.2 hacc']
      simp [lookup, hk]

/-- the lines of caller `c` among the events of an advance: its own completion, if any -/
theorem filter_dueEvents (cfg : Cfg) (now c t : Nat) (kOf : List (Nat × Nat)) (l : List (Nat × Caller)) (hu : Uniq l) :
    ((dueEvents cfg now kOf l).map (fun e => (t, e))).filter (lineOf c) =
      match lookup l c with
      | some x => ((advC cfg now x).2.map (fun e => (t, e))).map (lineAs c ((lookup kOf c).getD 0))
      | none => [] := by
  have hfold : dueEvents cfg now kOf l = (l.foldl (mergeOne cfg now kOf) []).map (fun e => e.2.2) := rfl
  rw [hfold, List.map_map, List.filter_map]
  have hq : (lineOf c ∘ ((fun e => (t, e)) ∘ fun e : Nat × Nat × Ev => e.2.2)) = dueOf c := by
    funext d
    simp only [Function.comp, dueOf, lineOf]
  rw [hq, filter_merge cfg now c kOf l [] hu (by intro d hd; cases hd)]
  cases lookup l c with
  | none => rfl
  | some x =>
    simp only [List.map_map]
    apply List.map_congr_left
    intro e _
    rfl

/-! ## the merge is sorted: timer order -/

/-- order of two completions: by instant, then by serial (registration order of the timers) -/
def keyLe (a b : Nat × Nat × Ev) : Prop := a.1 < b.1 ∨ (a.1 = b.1 ∧ a.2.1 ≤ b.2.1)

theorem keyLe_trans {a b c : Nat × Nat × Ev} (h1 : keyLe a b) (h2 : keyLe b c) : keyLe a c := by
  unfold keyLe at *
  omega

theorem insDue_sorted (e : Nat × Nat × Ev) (l : List (Nat × Nat × Ev)) (h : l.Pairwise keyLe) :
    (insDue e l).Pairwise keyLe := by
  induction l with
  | nil => simp [insDue]
  | cons a tl ih =>
    rw [List.pairwise_cons] at h
    simp only [insDue]
    split
    · rename_i hlt
      have hea : keyLe e a := by unfold keyLe; omega
      rw [List.pairwise_cons]
      refine ⟨?_, List.pairwise_cons.mpr h⟩
      intro d hd
      rcases List.mem_cons.mp hd with hd | hd
      · rw [hd]; exact hea
      · exact keyLe_trans hea (h.1 d hd)
    · rename_i hge
      have hae : keyLe a e := by unfold keyLe; omega
      rw [List.pairwise_cons]
      refine ⟨?_, ih h.2⟩
      intro d hd
      rcases (mem_insDue e d tl).mp hd with hd | hd
      · rw [hd]; exact hae
      · exact h.1 d hd

theorem mergeOne_sorted (cfg : Cfg) (now : Nat) (kOf : List (Nat × Nat)) (acc : List (Nat × Nat × Ev))
    (p : Nat × Caller) (h : acc.Pairwise keyLe) : (mergeOne cfg now kOf acc p).Pairwise keyLe := by
  unfold mergeOne
  rcases advC_evs_cases cfg now p.2 with he | he
  · rw [he]; exact h
  · rw [he]; exact insDue_sorted _ _ h

theorem merge_sorted (cfg : Cfg) (now : Nat) (kOf : List (Nat × Nat)) (l : List (Nat × Caller))
    (acc : List (Nat × Nat × Ev)) (h : acc.Pairwise keyLe) :
    (l.foldl (mergeOne cfg now kOf) acc).Pairwise keyLe := by
  induction l generalizing acc with
  | nil => exact h
  | cons p tl ih => exact ih _ (mergeOne_sorted cfg now kOf acc p h)

/-- the completions of an advance with their sort keys -/
def dueKeyed (cfg : Cfg) (now : Nat) (kOf : List (Nat × Nat)) (l : List (Nat × Caller)) : List (Nat × Nat × Ev) :=
  l.foldl (mergeOne cfg now kOf) []

theorem dueEvents_keyed (cfg : Cfg) (now : Nat) (kOf : List (Nat × Nat)) (l : List (Nat × Caller)) :
    dueEvents cfg now kOf l = (dueKeyed cfg now kOf l).map (fun d => d.2.2) := rfl

theorem dueKeyed_sorted (cfg : Cfg) (now : Nat) (kOf : List (Nat × Nat)) (l : List (Nat × Caller)) :
    (dueKeyed cfg now kOf l).Pairwise keyLe :=
  merge_sorted cfg now kOf l [] List.Pairwise.nil

theorem mem_dueKeyed (cfg : Cfg) (now : Nat) (kOf : List (Nat × Nat)) (l : List (Nat × Caller)) (d : Nat × Nat × Ev) :
    d ∈ dueKeyed cfg now kOf l ↔ ∃ p ∈ l, ∃ e ∈ (advC cfg now p.2).2, d = dueKey kOf p e := by
  have := mem_foldl_due cfg now kOf l [] d
  simp only [List.not_mem_nil, false_or] at this
  exact this

/-! ## the invariant -/

/-- the lines of every (never refused) caller, in order, are its history -/
structure Lines (cfg : Cfg) (ops : List Op) : Prop where
  uniq : Uniq (run cfg ops).callers
  lines : ∀ c, (∀ e, Op.refused c e ∉ ops) →
    (trace cfg ops).filter (lineOf c) =
      match lookup (run cfg ops).callers c with
      | some x => x.hist.map (lineAs c (serialOf (run cfg ops) c))
      | none => []

theorem lines_nil (cfg : Cfg) : Lines cfg [] := by
  constructor
  · simp [Uniq, run, init]
  · intro c _; rfl

theorem lines_applyC (cfg : Cfg) (ops : List Op) (op : Op) (c' : Nat) (f : Caller → Caller × List CEv)
    (hb : Lines cfg ops)
    (hstep : stepS cfg (run cfg ops) op = applyC (run cfg ops) c' f)
    (hnr : ∀ c e, op ≠ .refused c e)
    (htr : ∀ x, lookup (run cfg ops).callers c' = some x → Tr cfg (run cfg ops).now x (f x))
    (hnew : ∀ x, lookup (run cfg ops).callers c' = some x →
      newEvents cfg (run cfg ops) op = (f x).2.map (toEv c' (kUsed (run cfg ops) c' (f x).2)))
    (hnone : lookup (run cfg ops).callers c' = none → newEvents cfg (run cfg ops) op = []) :
    Lines cfg (ops ++ [op]) := by
  have hmem : ∀ c e, Op.refused c e ∈ ops ++ [op] ↔ Op.refused c e ∈ ops := by
    intro c e
    simp only [List.mem_append, List.mem_singleton]
    constructor
    · rintro (h | h)
      · exact h
      · exact absurd h.symm (hnr c e)
    · exact Or.inl
  cases hx0 : lookup (run cfg ops).callers c' with
  | none =>
    have hs : stepS cfg (run cfg ops) op = run cfg ops := by rw [hstep]; simp [applyC, hx0]
    have hrun : run cfg (ops ++ [op]) = run cfg ops := by rw [run_snoc, hs]
    have htrace : trace cfg (ops ++ [op]) = trace cfg ops := by rw [trace_snoc, hnone hx0]; simp
    constructor
    · rw [hrun]; exact hb.uniq
    · intro c hc
      rw [hrun, htrace]
      exact hb.lines c (fun e he => hc e ((hmem c e).mpr he))
  | some x0 =>
    have hT := htr x0 hx0
    have hI := inv_reachable cfg ops c' x0 hx0
    have hrun : run cfg (ops ++ [op]) = applyC (run cfg ops) c' f := by rw [run_snoc, hstep]
    have hnow : (applyC (run cfg ops) c' f).now = (run cfg ops).now := by simp [applyC, hx0]
    have hcallers : (applyC (run cfg ops) c' f).callers = setC (run cfg ops).callers c' (f x0).1 := by
      simp [applyC, hx0]
    have hlk_same : lookup (applyC (run cfg ops) c' f).callers c' = some (f x0).1 := by
      rw [hcallers, lookup_setC]; simp [hx0]
    have hlk_other : ∀ c, c ≠ c' → lookup (applyC (run cfg ops) c' f).callers c = lookup (run cfg ops).callers c := by
      intro c hc
      rw [hcallers, lookup_setC]; simp [hc]
    have hk_same : serialOf (applyC (run cfg ops) c' f) c' = kUsed (run cfg ops) c' (f x0).2 :=
      serialOf_applyC_same _ c' f x0 hx0
    have hk_other : ∀ c, c ≠ c' → serialOf (applyC (run cfg ops) c' f) c = serialOf (run cfg ops) c :=
      fun c hc => serialOf_applyC_other _ c c' f (Ne.symm hc)
    have htrace : trace cfg (ops ++ [op]) = trace cfg ops ++
        ((f x0).2.map (toEv c' (kUsed (run cfg ops) c' (f x0).2))).map (fun e => ((run cfg ops).now, e)) := by
      rw [trace_snoc, hnew x0 hx0, hstep, hnow]
    constructor
    · rw [hrun, hcallers]; exact uniq_setC _ _ _ hb.uniq
    · intro c hcr
      rw [htrace, List.filter_append, hb.lines c (fun e he => hcr e ((hmem c e).mpr he)), hrun]
      by_cases hc : c = c'
      · subst hc
        rw [filter_lines_same, hlk_same, hx0, hk_same]
        simp only []
        rw [hT.lock, List.map_append]
        congr 1
        by_cases hnil : x0.hist = []
        · rw [hnil]; rfl
        · rw [kUsed_of_hist cfg _ _ c x0 _ hT hI hnil]
      · rw [filter_lines_other c c' _ _ _ (Ne.symm hc), List.append_nil, hlk_other c hc, hk_other c hc]

theorem lines_snoc (cfg : Cfg) (ops : List Op) (op : Op) (hb : Lines cfg ops) : Lines cfg (ops ++ [op]) := by
  cases op with
  | poll c' =>
    refine lines_applyC cfg ops (.poll c') c' (pollC cfg (run cfg ops).now) hb rfl (by intro c e h; cases h) ?_ ?_ ?_
    · intro x hx; exact pollC_tr cfg _ x (inv_reachable cfg ops c' x hx)
    · intro x hx; exact newEvents_poll_some cfg _ c' x hx
    · intro hx; exact newEvents_same cfg _ _ (stepS_poll_none cfg _ c' hx)
  | drop c' =>
    refine lines_applyC cfg ops (.drop c') c' (dropC cfg (run cfg ops).now) hb rfl (by intro c e h; cases h) ?_ ?_ ?_
    · intro x _; exact dropC_tr cfg _ x
    · intro x hx; exact newEvents_drop_some cfg _ c' x hx
    · intro hx; exact newEvents_same cfg _ _ (stepS_drop_none cfg _ c' hx)
  | arrive c' tmo sc =>
    have hmem : ∀ c e, Op.refused c e ∈ ops ++ [Op.arrive c' tmo sc] ↔ Op.refused c e ∈ ops := by
      intro c e; simp
    have htrace : trace cfg (ops ++ [Op.arrive c' tmo sc]) = trace cfg ops := by
      rw [trace_snoc, newEvents_arrive]; simp
    have hk : ∀ c, serialOf (run cfg (ops ++ [Op.arrive c' tmo sc])) c = serialOf (run cfg ops) c := by
      intro c; rw [run_snoc]; simp only [serialOf, stepS]
      cases lookup (run cfg ops).callers c' <;> rfl
    cases hx0 : lookup (run cfg ops).callers c' with
    | some x0 =>
      have hrun : run cfg (ops ++ [Op.arrive c' tmo sc]) = run cfg ops := by
        rw [run_snoc]; simp [stepS, hx0]
      constructor
      · rw [hrun]; exact hb.uniq
      · intro c hc
        rw [hrun, htrace]
        exact hb.lines c (fun e he => hc e ((hmem c e).mpr he))
    | none =>
      have hcallers : (run cfg (ops ++ [Op.arrive c' tmo sc])).callers =
          (run cfg ops).callers ++ [(c', newCaller (effTimeout cfg tmo) sc)] := by
        rw [run_snoc]; simp [stepS, hx0]
      constructor
      · rw [hcallers]; exact uniq_snoc _ _ _ hb.uniq hx0
      · intro c hc
        rw [htrace, hb.lines c (fun e he => hc e ((hmem c e).mpr he)), hcallers, lookup_snoc, hk]
        cases hx1 : lookup (run cfg ops).callers c with
        | some x1 => rfl
        | none =>
          by_cases hcc : c' = c
          · simp [hcc, newCaller]
          · simp [hcc]
  | refused c' e' =>
    have hk : ∀ c, serialOf (run cfg (ops ++ [Op.refused c' e'])) c = serialOf (run cfg ops) c := by
      intro c; rw [run_snoc]; simp only [serialOf, (stepS_refused cfg (run cfg ops) c' e').2.1]
    have hcallers : (run cfg (ops ++ [Op.refused c' e'])).callers = (run cfg ops).callers := by
      rw [run_snoc]; exact (stepS_refused cfg (run cfg ops) c' e').1
    constructor
    · rw [hcallers]; exact hb.uniq
    · intro c hc
      have hcc : c' ≠ c := by
        intro h; subst h
        exact hc e' (by simp)
      rw [trace_snoc, List.filter_append, hcallers, hk,
        hb.lines c (fun e he => hc e (List.mem_append.mpr (Or.inl he)))]
      have : ((newEvents cfg (run cfg ops) (Op.refused c' e')).map
          (fun e => ((stepS cfg (run cfg ops) (Op.refused c' e')).now, e))).filter (lineOf c) = [] := by
        cases hx0 : lookup (run cfg ops).callers c' with
        | some x0 => rw [newEvents_same cfg _ _ (stepS_refused_some cfg _ c' e' x0 hx0)]; rfl
        | none =>
          rw [newEvents_refused cfg _ c' e' hx0]
          simp [lineOf, hcc]
      rw [this, List.append_nil]
  | adv ms =>
    have hmem : ∀ c e, Op.refused c e ∈ ops ++ [Op.adv ms] ↔ Op.refused c e ∈ ops := by
      intro c e; simp
    have hk : ∀ c, serialOf (run cfg (ops ++ [Op.adv ms])) c = serialOf (run cfg ops) c := by
      intro c; rw [run_snoc]; rfl
    have hnow : (stepS cfg (run cfg ops) (.adv ms)).now = (run cfg ops).now + ms := rfl
    have hcallers : (run cfg (ops ++ [Op.adv ms])).callers =
        (run cfg ops).callers.map (fun p => (p.1, (advC cfg ((run cfg ops).now + ms) p.2).1)) := by
      rw [run_snoc]; rfl
    have hlk : ∀ c, lookup (run cfg (ops ++ [Op.adv ms])).callers c =
        (lookup (run cfg ops).callers c).map (fun x => (advC cfg ((run cfg ops).now + ms) x).1) := by
      intro c; rw [hcallers]; exact lookup_mapSnd _ (fun x => (advC cfg ((run cfg ops).now + ms) x).1) c
    have htrace : trace cfg (ops ++ [Op.adv ms]) = trace cfg ops ++
        (dueEvents cfg ((run cfg ops).now + ms) (run cfg ops).kOf (run cfg ops).callers).map
          (fun e => ((run cfg ops).now + ms, e)) := by
      rw [trace_snoc, newEvents_adv, hnow]
    constructor
    · rw [hcallers]; exact uniq_mapSnd _ (fun x => (advC cfg ((run cfg ops).now + ms) x).1) hb.uniq
    · intro c hc
      rw [htrace, List.filter_append, hb.lines c (fun e he => hc e ((hmem c e).mpr he)),
        filter_dueEvents cfg _ c _ _ _ hb.uniq, hlk, hk]
      cases hx0 : lookup (run cfg ops).callers c with
      | none => rfl
      | some x0 =>
        simp only [Option.map_some]
        rw [advC_lock cfg _ x0, List.map_append]
        rfl

/-- the lines of a caller in the log, in order, are its history — after every operation sequence -/
theorem lines (cfg : Cfg) (ops : List Op) : Lines cfg ops :=
  snoc_induction (P := Lines cfg) (lines_nil cfg) (fun l a h => lines_snoc cfg l a h) ops

/-! ## construction context (`built=`): helpers of `TR.Props.C06.construction_context_irrelevant` -/

/-- Which tokio runtime is current while the layer value and the service are constructed (the builder chain, `.build()`,
`Layer::layer` -> `TimeLimiter::new`): the runtime the calls are made and polled on, or a second runtime entered only for the
construction and then left idle (a start-up `block_on` that has returned) or dropped.  Header / `arrive` word `built=<word>`. -/
inductive Built | here | otherIdle | otherDropped
  deriving DecidableEq, Repr

def Built.word : Built → String
  | .here => "here"
  | .otherIdle => "other-idle"
  | .otherDropped => "other-dropped"

/-- a pair under another key changes no lookup -/
theorem kv_get_skips (kv₁ kv₂ : Kv) (a b k : String) (h : a ≠ k) :
    Kv.get (kv₁ ++ (a, b) :: kv₂) k = Kv.get (kv₁ ++ kv₂) k := by
  induction kv₁ with
  | nil => simp [Kv.get, h]
  | cons p tl ih => obtain ⟨x, y⟩ := p; simp only [List.cons_append, Kv.get, ih]

/-- `parseKv` reads word by word -/
theorem parseKv_insert (w : String) (w₁ w₂ : List String) :
    parseKv (w₁ ++ w :: w₂) = parseKv w₁ ++ parseKv [w] ++ parseKv w₂ := by
  have : w₁ ++ w :: w₂ = w₁ ++ [w] ++ w₂ := by simp
  rw [this]; simp only [parseKv, List.filterMap_append]

/-- an `arrive` line goes through `parseOp` (it is not a probe) -/
theorem step_arrive (cfg : Cfg) (rd : Rd) (st : State) (ws : List String) :
    machine.step (cfg, rd, st) ("arrive" :: ws) =
      (match parseOp ("arrive" :: ws) with
       | some op => ((cfg, stepR cfg (rd, st) op), (stepR cfg (rd, st) op).2.log.drop st.log.length)
       | none => ((cfg, rd, st), [])) := by
  simp only [machine]
  split
  · rename_i h; exact absurd (List.cons.inj h).1 (by decide)
  · rename_i h; exact absurd (List.cons.inj h).1 (by decide)
  · rfl

/-- a `built=<v>` word changes neither the machine's initial state, nor the operation an `arrive` line stands for, nor the
machine's step on it (`TR.Props.C06.construction_context_irrelevant`) -/
theorem built_word_irrelevant :
    (∀ (kv₁ kv₂ : Kv) (v : String), machine.init (kv₁ ++ ("built", v) :: kv₂) = machine.init (kv₁ ++ kv₂)) ∧
    (∀ (c w v : String) (w₁ w₂ : List String), parseKv [w] = [("built", v)] →
       parseOp ("arrive" :: c :: (w₁ ++ w :: w₂)) = parseOp ("arrive" :: c :: (w₁ ++ w₂))) ∧
    (∀ (s : machine.σ) (c w v : String) (w₁ w₂ : List String), parseKv [w] = [("built", v)] →
       machine.step s ("arrive" :: c :: (w₁ ++ w :: w₂)) = machine.step s ("arrive" :: c :: (w₁ ++ w₂))) := by
  have hop : ∀ (c w v : String) (w₁ w₂ : List String), parseKv [w] = [("built", v)] →
       parseOp ("arrive" :: c :: (w₁ ++ w :: w₂)) = parseOp ("arrive" :: c :: (w₁ ++ w₂)) := by
    intro c w v w₁ w₂ hw
    have e : parseKv (w₁ ++ w :: w₂) = parseKv w₁ ++ ("built", v) :: parseKv w₂ := by
      rw [parseKv_insert, hw]; simp
    have e' : parseKv (w₁ ++ w₂) = parseKv w₁ ++ parseKv w₂ := by simp only [parseKv, List.filterMap_append]
    simp only [parseOp, planOf, Kv.str, e, e', kv_get_skips _ _ "built" v "timeout" (by decide),
      kv_get_skips _ _ "built" v "inner" (by decide)]
  refine ⟨?_, hop, ?_⟩
  · intro kv₁ kv₂ v
    simp only [machine, parseRd, Kv.str, Kv.nat, kv_get_skips _ _ "built" v "chain" (by decide),
      kv_get_skips _ _ "built" v "via" (by decide), kv_get_skips _ _ "built" v "timeout" (by decide),
      kv_get_skips _ _ "built" v "cancel" (by decide), kv_get_skips _ _ "built" v "dyn" (by decide),
      kv_get_skips _ _ "built" v "ready" (by decide), kv_get_skips _ _ "built" v "rec" (by decide),
      kv_get_skips _ _ "built" v "recall" (by decide)]
  · intro s c w v w₁ w₂ hw
    obtain ⟨cfg, rd, st⟩ := s
    rw [step_arrive, step_arrive, hop c w v w₁ w₂ hw]

end TR.TimeLimiter
