import TR.Model.Bulkhead
/-!
# Bulkhead: the counting invariant and its consequences (helper lemmas for C01 / C07)
-/
namespace TR.Bulkhead

def isCall : Ev → Bool
  | .innerCall _ _ => true
  | _ => false

def isEnd : Ev → Bool
  | .innerDone _ _ _ => true
  | .innerDrop _ _ => true
  | _ => false

/-- number of inner calls started / ended in a trace -/
def calls (l : List Ev) : Nat := l.countP isCall
def ended (l : List Ev) : Nat := l.countP isEnd

@[simp] theorem calls_append (a b : List Ev) : calls (a ++ b) = calls a + calls b := by
  simp [calls, List.countP_append]
@[simp] theorem ended_append (a b : List Ev) : ended (a ++ b) = ended a + ended b := by
  simp [ended, List.countP_append]
@[simp] theorem calls_nil : calls [] = 0 := rfl
@[simp] theorem ended_nil : ended [] = 0 := rfl

/-- in every prefix of the trace at most `m` inner calls are in flight -/
def PeakOK (m : Nat) (l : List Ev) : Prop := ∀ n, calls (l.take n) ≤ ended (l.take n) + m

theorem ended_take_le (l : List Ev) (n : Nat) : ended (l.take n) ≤ ended l := by
  unfold ended
  exact (List.take_sublist n l).countP_le

theorem calls_take_le (l : List Ev) (n : Nat) : calls (l.take n) ≤ calls l := by
  unfold calls
  exact (List.take_sublist n l).countP_le

/-- appending events that contain no `inner_call` keeps the peak bound -/
theorem peak_append_nocall {m : Nat} {l evs : List Ev} (h : PeakOK m l) (hn : calls evs = 0) :
    PeakOK m (l ++ evs) := by
  intro n
  rw [List.take_append]
  simp only [calls_append, ended_append]
  have h1 := h n
  have h2 : calls (evs.take (n - l.length)) = 0 := by
    have := calls_take_le evs (n - l.length); omega
  omega

/-- appending one `inner_call` keeps the peak bound if fewer than `m` were in flight -/
theorem peak_append_call {m : Nat} {l : List Ev} (c k : Nat) (h : PeakOK m l)
    (hlt : calls l + 1 ≤ ended l + m) : PeakOK m (l ++ [.innerCall c k]) := by
  intro n
  by_cases hn : n ≤ l.length
  · rw [List.take_append]
    have : n - l.length = 0 := by omega
    simp [this]; exact h n
  · have : (l ++ [Ev.innerCall c k]).take n = l ++ [Ev.innerCall c k] := by
      apply List.take_of_length_le; simp; omega
    rw [this]; simp [calls, ended, isCall, isEnd] at *; omega

/-- the invariant of every reachable state -/
structure Inv (cfg : Cfg) (s : State) : Prop where
  count : s.free + s.assigned.length + s.running.length = cfg.max
  noBarge : s.free > 0 → s.queue = []
  trace : calls s.log = ended s.log + s.running.length
  peak : PeakOK cfg.max s.log

theorem length_erase_of_contains {l : List Nat} {c : Nat} (h : l.contains c = true) :
    (l.erase c).length + 1 = l.length := by
  have hm : c ∈ l := by simpa using h
  have := List.length_erase_of_mem hm
  have : l.length > 0 := List.length_pos_of_mem hm
  omega

theorem outcome_calls (c k : Nat) (o : Out) : calls (outcomeEvents c k o) = 0 := by
  cases o <;> rfl

theorem outcome_ended (c k : Nat) (o : Out) (h : o ≠ .never) : ended (outcomeEvents c k o) = 1 := by
  cases o <;> first | contradiction | rfl

/-- releasing a permit after one holder (assigned or running) has gone -/
theorem release_count (cfg : Cfg) (s : State)
    (h : s.free + s.assigned.length + s.running.length + 1 = cfg.max)
    (hq : s.free > 0 → s.queue = []) :
    (release s).free + (release s).assigned.length + (release s).running.length = cfg.max
    ∧ ((release s).free > 0 → (release s).queue = [])
    ∧ (release s).log = s.log ∧ (release s).running = s.running := by
  unfold release
  split <;> simp_all <;> omega

theorem finishRunning_inv (cfg : Cfg) (s : State) (c : Nat) (evs : List Ev)
    (hr : s.running.contains c = true) (hc : calls evs = 0) (he : ended evs = 1)
    (h : Inv cfg s) : Inv cfg (finishRunning s c evs) := by
  have hl := length_erase_of_contains hr
  have hrel := release_count cfg { s with running := s.running.erase c }
    (by simp; have := h.count; omega) h.noBarge
  obtain ⟨h1, h2, h3, h4⟩ := hrel
  unfold finishRunning emit
  refine ⟨by simpa using h1, by simpa using h2, ?_, ?_⟩
  · simp only [calls_append, ended_append, h3, h4, hc, he]
    have := h.trace; simp at *; omega
  · simp only [h3]
    exact peak_append_nocall h.peak hc

theorem pollRunning_inv (cfg : Cfg) (s : State) (c : Nat) (hr : s.running.contains c = true)
    (h : Inv cfg s) : Inv cfg (pollRunning s c) := by
  unfold pollRunning
  split
  · split
    · rename_i hcond
      exact finishRunning_inv cfg s c _ hr (outcome_calls ..) (outcome_ended _ _ _ hcond.2) h
    · exact h
  · exact h

theorem dropRunning_inv (cfg : Cfg) (s : State) (c : Nat) (hr : s.running.contains c = true)
    (h : Inv cfg s) : Inv cfg (dropRunning s c) := by
  unfold dropRunning
  exact finishRunning_inv cfg s c _ hr (by simp [calls, isCall]) (by simp [ended, isEnd]) h

/-- starting the inner call for a caller that has just been given a permit -/
theorem startInner_inv (cfg : Cfg) (s : State) (c : Nat)
    (hcount : s.free + s.assigned.length + s.running.length + 1 = cfg.max)
    (hq : s.free > 0 → s.queue = [])
    (htr : calls s.log = ended s.log + s.running.length)
    (hpk : PeakOK cfg.max s.log) : Inv cfg (startInner s c) := by
  unfold startInner emit
  refine ⟨by simp; omega, by simpa using hq, ?_, ?_⟩
  · simp [calls, ended, isCall, isEnd] at *; omega
  · apply peak_append_call _ _ hpk; omega

theorem startInner_running (s : State) (c : Nat) : (startInner s c).running.contains c = true := by
  simp [startInner, emit]

theorem admitCall_inv (cfg : Cfg) (s : State) (c : Nat)
    (hcount : s.free + s.assigned.length + s.running.length + 1 = cfg.max)
    (hq : s.free > 0 → s.queue = [])
    (htr : calls s.log = ended s.log + s.running.length)
    (hpk : PeakOK cfg.max s.log) : Inv cfg (admitCall s c) := by
  unfold admitCall
  exact pollRunning_inv cfg _ c (startInner_running s c) (startInner_inv cfg s c hcount hq htr hpk)

theorem emit_nocall_inv (cfg : Cfg) (s : State) (evs : List Ev) (hc : calls evs = 0) (he : ended evs = 0)
    (h : Inv cfg s) : Inv cfg (emit s evs) := by
  unfold emit
  refine ⟨h.count, h.noBarge, ?_, peak_append_nocall h.peak hc⟩
  simp only [calls_append, ended_append, hc, he]; exact h.trace

theorem pollFresh_inv (cfg : Cfg) (s : State) (c : Nat) (h : Inv cfg s) :
    Inv cfg (pollFresh cfg s c) := by
  unfold pollFresh
  simp only
  split
  · rename_i hf
    apply admitCall_inv
    · simp; have := h.count; omega
    · intro hpos; exact h.noBarge (by simp at hpos ⊢; omega)
    · exact h.trace
    · exact h.peak
  · rename_i hf
    have hf0 : s.free = 0 := by simp at hf; omega
    have hbase : Inv cfg { s with fresh := s.fresh.erase c, firstPoll := (c, s.now) :: s.firstPoll } :=
      ⟨h.count, h.noBarge, h.trace, h.peak⟩
    split
    · exact emit_nocall_inv cfg _ _ (by simp [calls, isCall]) (by simp [ended, isEnd]) hbase
    · exact ⟨h.count, fun hpos => by simp [hf0] at hpos, h.trace, h.peak⟩
    · exact ⟨h.count, fun hpos => by simp [hf0] at hpos, h.trace, h.peak⟩

theorem pollAssigned_inv (cfg : Cfg) (s : State) (c : Nat) (ha : s.assigned.contains c = true)
    (h : Inv cfg s) : Inv cfg (pollAssigned s c) := by
  have hl := length_erase_of_contains ha
  unfold pollAssigned
  apply admitCall_inv
  · simp; have := h.count; omega
  · exact h.noBarge
  · exact h.trace
  · exact h.peak

theorem pollQueued_inv (cfg : Cfg) (s : State) (c : Nat) (h : Inv cfg s) :
    Inv cfg (pollQueued s c) := by
  unfold pollQueued
  split
  · split
    · apply emit_nocall_inv cfg _ _ (by simp [calls, isCall]) (by simp [ended, isEnd])
      exact ⟨h.count, fun hpos => by have := h.noBarge hpos; simp_all, h.trace, h.peak⟩
    · exact h
  · exact h

theorem stepS_inv (cfg : Cfg) (s : State) (op : Op) (h : Inv cfg s) : Inv cfg (stepS cfg s op) := by
  cases op with
  | adv ms => exact ⟨h.count, h.noBarge, h.trace, h.peak⟩
  | arrive c sc => simp only [stepS]; split <;> first | exact h | exact ⟨h.count, h.noBarge, h.trace, h.peak⟩
  | poll c =>
    simp only [stepS]
    split
    · exact pollFresh_inv cfg s c h
    · split
      · rename_i ha; exact pollAssigned_inv cfg s c ha h
      · split
        · exact pollQueued_inv cfg s c h
        · split
          · rename_i hr; exact pollRunning_inv cfg s c hr h
          · exact h
  | drop c =>
    simp only [stepS]
    split
    · exact ⟨h.count, h.noBarge, h.trace, h.peak⟩
    · split
      · exact ⟨h.count, fun hpos => by have := h.noBarge hpos; simp_all, h.trace, h.peak⟩
      · split
        · rename_i ha
          have hl := length_erase_of_contains ha
          have hrel := release_count cfg { s with assigned := s.assigned.erase c }
            (by simp; have := h.count; omega) h.noBarge
          obtain ⟨h1, h2, h3, h4⟩ := hrel
          exact ⟨h1, h2, by rw [h3, h4]; exact h.trace, by rw [h3]; exact h.peak⟩
        · split
          · rename_i hr; exact dropRunning_inv cfg s c hr h
          · exact h
  | refuse c kind =>
    simp only [stepS, refuseCall]
    split
    · exact h
    · exact emit_nocall_inv cfg _ _ (by cases kind <;> simp [calls, isCall]) (by cases kind <;> simp [ended, isEnd])
        ⟨h.count, h.noBarge, h.trace, h.peak⟩
  | tick n => exact ⟨h.count, h.noBarge, h.trace, h.peak⟩

theorem init_inv (cfg : Cfg) : Inv cfg (init cfg) :=
  ⟨by simp [init], fun _ => rfl, by simp [init], fun n => by simp [init]⟩

theorem foldl_inv (cfg : Cfg) (ops : List Op) (s : State) (h : Inv cfg s) :
    Inv cfg (ops.foldl (stepS cfg) s) := by
  induction ops generalizing s with
  | nil => simpa
  | cons o os ih => exact ih _ (stepS_inv cfg s o h)

/-- every reachable state satisfies the invariant: all operation sequences, all configurations -/
theorem inv_reachable (cfg : Cfg) (ops : List Op) : Inv cfg (run cfg ops) :=
  foldl_inv cfg ops _ (init_inv cfg)

/-! ## what a step appends to the log -/

theorem release_log (s : State) : (release s).log = s.log := by
  unfold release; split <;> rfl

theorem outcome_no_timeout (c k c' : Nat) (o : Out) : Ev.result c' .timeout ∉ outcomeEvents c k o := by
  cases o <;> simp [outcomeEvents]

theorem pollRunning_log (s : State) (c : Nat) :
    ∃ evs, (pollRunning s c).log = s.log ++ evs ∧ ∀ c', Ev.result c' .timeout ∉ evs := by
  unfold pollRunning
  split
  · split
    · rename_i t sc k _ _ _ _
      exact ⟨outcomeEvents c k sc.out, by simp [finishRunning, emit, release_log], fun c' => outcome_no_timeout _ _ c' _⟩
    · exact ⟨[], by simp, by simp⟩
  · exact ⟨[], by simp, by simp⟩

theorem admitCall_log (s : State) (c : Nat) :
    ∃ rest, (admitCall s c).log = s.log ++ Ev.innerCall c s.serial :: rest
      ∧ ∀ c', Ev.result c' .timeout ∉ rest := by
  unfold admitCall
  obtain ⟨evs, h, hn⟩ := pollRunning_log (startInner s c) c
  exact ⟨evs, by rw [h]; simp [startInner, emit], hn⟩

theorem pollFresh_admits (cfg : Cfg) (s : State) (c : Nat) (hfree : s.free > 0) :
    ∃ rest, (pollFresh cfg s c).log = s.log ++ Ev.innerCall c s.serial :: rest := by
  unfold pollFresh
  simp only [hfree, if_true]
  obtain ⟨rest, h, _⟩ := admitCall_log
    { s with fresh := s.fresh.erase c, firstPoll := (c, s.now) :: s.firstPoll, free := s.free - 1 } c
  exact ⟨rest, h⟩

theorem mem_drop_append {l evs : List Ev} {e : Ev} {l' : List Ev} (h : l' = l ++ evs)
    (hm : e ∈ l'.drop l.length) : e ∈ evs := by
  subst h; simpa using hm

/-- which polls can emit `err:timeout` -/
theorem poll_timeout_char (cfg : Cfg) (s : State) (c c' : Nat)
    (h : Ev.result c' .timeout ∈ (stepS cfg s (.poll c)).log.drop s.log.length) :
    c' = c ∧ (stepS cfg s (.poll c)).log = s.log ++ [Ev.result c .timeout] ∧
    ((s.fresh.contains c = true ∧ s.free = 0 ∧ cfg.maxWait = some 0) ∨
     (s.fresh.contains c = false ∧ s.assigned.contains c = false ∧ s.queue.contains c = true ∧
        ∃ d, lookup s.deadline c = some d ∧ d ≤ s.now)) := by
  simp only [stepS] at h ⊢
  split at h
  · rename_i hf
    unfold pollFresh at h
    simp only at h
    split at h
    · obtain ⟨rest, hl, hn⟩ := admitCall_log
        { s with fresh := s.fresh.erase c, firstPoll := (c, s.now) :: s.firstPoll, free := s.free - 1 } c
      have := mem_drop_append (l := s.log) hl h
      simp at this
      exact absurd this (hn c')
    · rename_i hfree
      have hf0 : s.free = 0 := by simp at hfree; omega
      split at h
      · rename_i hw
        simp [emit] at h
        refine ⟨h, ?_, Or.inl ⟨hf, hf0, hw⟩⟩
        simp only [hf, if_true, pollFresh]
        have hfree' : ¬ s.free > 0 := by omega
        simp only [hfree', if_false, hw, emit]
      · simp at h
      · simp at h
  · rename_i hf
    have hf' : s.fresh.contains c = false := by simpa using hf
    split at h
    · unfold pollAssigned at h
      obtain ⟨rest, hl, hn⟩ := admitCall_log { s with assigned := s.assigned.erase c } c
      have := mem_drop_append (l := s.log) hl h
      simp at this
      exact absurd this (hn c')
    · rename_i ha
      have ha' : s.assigned.contains c = false := by simpa using ha
      split at h
      · rename_i hq
        unfold pollQueued at h
        split at h
        · rename_i d hd
          split at h
          · rename_i hdue
            simp [emit] at h
            refine ⟨h, ?_, Or.inr ⟨hf', ha', hq, d, hd, hdue⟩⟩
            simp only [hf', ha', hq, Bool.false_eq_true, if_false, if_true, pollQueued, hd]
            have : s.now ≥ d := hdue
            simp only [this, if_true, emit]
          · simp at h
        · simp at h
      · split at h
        · obtain ⟨evs, hl, hn⟩ := pollRunning_log s c
          have := mem_drop_append (l := s.log) hl h
          exact absurd this (hn c')
        · simp at h

end TR.Bulkhead
