import TR.Lemmas.Coalesce
/-!
# Coalesce (C11): every request is answered at most once; a call that delivered was not cancelled

`nres c log` counts the `result c …` events. Invariant `RInv`: at most one per caller, none while the caller's
future exists, none (ever) for a leader that was dropped unfinished, and `inner_done … panic` is always followed by
the leader's own `result … panic`. Consequences: two results of one caller are equal, and `Delivered` / `Cancelled`
(`TR.Lemmas.Coalesce`) exclude each other for one inner call.
-/
namespace TR.Coalesce

def isResOf (c : Nat) : CEv → Bool
  | .result c' _ => c' == c
  | _ => false

/-- number of answers caller `c` has received in a trace -/
def nres (c : Nat) (l : List CEv) : Nat := l.countP (isResOf c)

@[simp] theorem nres_append (c : Nat) (a b : List CEv) : nres c (a ++ b) = nres c a + nres c b := by
  simp [nres, List.countP_append]

theorem nres_cons (c : Nat) (e : CEv) (l : List CEv) :
    nres c (e :: l) = nres c l + (if isResOf c e then 1 else 0) := by
  simp [nres, List.countP_cons]

theorem nres_pos_of_mem {c : Nat} {r : Res} {l : List CEv} (h : CEv.result c r ∈ l) : 1 ≤ nres c l := by
  induction l with
  | nil => cases h
  | cons e t ih =>
    rw [nres_cons]
    rcases List.mem_cons.mp h with he | ht
    · subst he; simp [isResOf]
    · have := ih ht; omega

/-- two different answers of one caller in a trace: the count is at least two -/
theorem nres_two_of_mem {c : Nat} {r r' : Res} {l : List CEv} (h : CEv.result c r ∈ l)
    (h' : CEv.result c r' ∈ l) (hne : r ≠ r') : 2 ≤ nres c l := by
  induction l with
  | nil => cases h
  | cons e t ih =>
    rw [nres_cons]
    rcases List.mem_cons.mp h with he | ht
    · rcases List.mem_cons.mp h' with he' | ht'
      · rw [← he] at he'; cases he'; exact absurd rfl hne
      · have := nres_pos_of_mem ht'
        subst he; simp [isResOf]; omega
    · rcases List.mem_cons.mp h' with he' | ht'
      · have := nres_pos_of_mem ht
        subst he'; simp [isResOf]; omega
      · have := ih ht ht'; omega

structure RInv (s : State) : Prop where
  atMost : ∀ c, nres c s.log ≤ 1
  liveNone : ∀ c, c ∉ s.gone → nres c s.log = 0
  dropNone : ∀ l key k, CEv.innerDrop l key k ∈ s.log → l ∈ s.gone ∧ nres l s.log = 0
  donePanic : ∀ l key k, CEv.innerDone l key k .panic ∈ s.log → CEv.result l .panic ∈ s.log

theorem init_rinv : RInv init := by
  refine ⟨?_, ?_, ?_, ?_⟩ <;> intros <;> simp_all [init, nres]

/-- a step that answers nobody, drops no leader and finishes no inner call (the log may grow by such events) -/
theorem rinv_quiet {s s' : State} {evs : List CEv} (h : RInv s) (hlog : s'.log = s.log ++ evs)
    (hgone : ∀ c, c ∈ s.gone → c ∈ s'.gone) (hn : ∀ c, nres c evs = 0)
    (hd : ∀ l key k, CEv.innerDrop l key k ∉ evs) (hp : ∀ l key k, CEv.innerDone l key k .panic ∉ evs) :
    RInv s' := by
  refine ⟨?_, ?_, ?_, ?_⟩
  · intro c; rw [hlog, nres_append, hn]; exact h.atMost c
  · intro c hc; rw [hlog, nres_append, hn]; exact h.liveNone c (fun hx => hc (hgone c hx))
  · intro l key k hm
    rw [hlog] at hm
    rcases List.mem_append.mp hm with hm | hm
    · obtain ⟨h1, h2⟩ := h.dropNone l key k hm
      exact ⟨hgone l h1, by rw [hlog, nres_append, hn, h2]⟩
    · exact absurd hm (hd l key k)
  · intro l key k hm
    rw [hlog] at hm ⊢
    rcases List.mem_append.mp hm with hm | hm
    · exact List.mem_append_left _ (h.donePanic l key k hm)
    · exact absurd hm (hp l key k)

/-- the future of caller `c0` (which still existed) ceases to exist, with `n0 ≤ 1` answers — to `c0` only — among
the events emitted; an `inner_drop` among them is `c0`'s and then there is no answer; an `inner_done … panic` among
them comes with `result … panic` -/
theorem rinv_resolve {s s' : State} {c0 n0 : Nat} {evs : List CEv} (h : RInv s)
    (hlive : c0 ∉ s.gone) (hlog : s'.log = s.log ++ evs) (hgone : s'.gone = c0 :: s.gone)
    (hn0 : n0 ≤ 1) (hn : ∀ c, nres c evs = if c = c0 then n0 else 0)
    (hd : ∀ l key k, CEv.innerDrop l key k ∈ evs → l = c0 ∧ n0 = 0)
    (hp : ∀ l key k, CEv.innerDone l key k .panic ∈ evs → CEv.result l .panic ∈ evs) :
    RInv s' := by
  refine ⟨?_, ?_, ?_, ?_⟩
  · intro c
    rw [hlog, nres_append, hn]
    by_cases hc : c = c0
    · subst hc; rw [h.liveNone c hlive, if_pos rfl]; omega
    · rw [if_neg hc]; exact h.atMost c
  · intro c hc
    rw [hgone] at hc
    have hc0 : c ≠ c0 := fun e => hc (by rw [e]; simp)
    rw [hlog, nres_append, hn, if_neg hc0]
    exact h.liveNone c (fun hx => hc (by simp [hx]))
  · intro l key k hm
    rw [hlog] at hm
    rcases List.mem_append.mp hm with hm | hm
    · obtain ⟨h1, h2⟩ := h.dropNone l key k hm
      have hl0 : l ≠ c0 := fun e => hlive (by rw [← e]; exact h1)
      exact ⟨by rw [hgone]; simp [h1], by rw [hlog, nres_append, hn, if_neg hl0, h2]⟩
    · obtain ⟨e, hz⟩ := hd l key k hm
      subst e
      exact ⟨by rw [hgone]; simp, by rw [hlog, nres_append, hn, if_pos rfl, h.liveNone l hlive, hz]⟩
  · intro l key k hm
    rw [hlog] at hm ⊢
    rcases List.mem_append.mp hm with hm | hm
    · exact List.mem_append_left _ (h.donePanic l key k hm)
    · exact List.mem_append_right _ (hp l key k hm)

/-- a poll of a leader, once more, with the one fact `pollLeader_cases` does not carry: an inner call that panicked
gives the leader `panic` -/
theorem pollLeader_cases_panic (s : State) (c key k : Nat) :
    pollLeader s c key k = s ∨
    ∃ o r ch, (o = Out.panic → r = Res.panic) ∧
      pollLeader s c key k = emit (retire s c key ch) [.innerDone c key k o, .result c r] := by
  unfold pollLeader
  split
  · rename_i t sc _ _
    split
    · rename_i hc
      split
      · exact Or.inr ⟨sc.out, .panic, .closed, fun _ => rfl, rfl⟩
      · refine Or.inr ⟨sc.out, outRes k sc.out, outChan k sc.out, ?_, finishLeader_eq s c key k hc.2⟩
        intro e; rw [e]; rfl
    · exact Or.inl rfl
  · exact Or.inl rfl

theorem nres_single (c c0 : Nat) (r : Res) : nres c [CEv.result c0 r] = if c = c0 then 1 else 0 := by
  by_cases h : c = c0
  · subst h; simp [nres, isResOf]
  · have : c0 ≠ c := fun e => h e.symm
    simp [nres, isResOf, h, this]

theorem nres_done (c c0 key k : Nat) (o : Out) (r : Res) :
    nres c [CEv.innerDone c0 key k o, CEv.result c0 r] = if c = c0 then 1 else 0 := by
  by_cases h : c = c0
  · subst h; simp [nres, isResOf]
  · have : c0 ≠ c := fun e => h e.symm
    simp [nres, isResOf, h, this]

theorem stepS_rinv (s : State) (op : Op) (hi : Inv s) (h : RInv s) : RInv (stepS s op) := by
  cases op with
  | adv ms => exact rinv_quiet (evs := []) h (by simp [stepS]) (fun _ hx => hx) (by simp [nres]) (by simp) (by simp)
  | dropsvc => exact rinv_quiet (evs := []) h (by simp [stepS]) (fun _ hx => hx) (by simp [nres]) (by simp) (by simp)
  | bomb c => exact rinv_quiet (evs := []) h (by simp [stepS]) (fun _ hx => hx) (by simp [nres]) (by simp) (by simp)
  | arrive c key sc cp =>
    simp only [stepS]
    split
    · exact h
    split
    · exact h
    · rename_i hc
      unfold arrive
      split
      · exact rinv_quiet (evs := []) h (by simp [joinWaiter]) (fun _ hx => hx) (by simp [nres]) (by simp) (by simp)
      · split
        · refine rinv_resolve (c0 := c) (n0 := 1) (evs := [.result c .panic]) h (fresh_not_gone hi hc) rfl rfl
            (Nat.le_refl _) (fun x => nres_single x c .panic) (by simp) (by simp)
        · exact rinv_quiet (evs := [.innerCall c key s.serial]) h rfl (fun _ hx => hx)
            (by intro x; simp [nres, isResOf]) (by simp) (by simp)
  | poll c =>
    simp only [stepS]
    split
    · exact h
    · rename_i hg
      have hlive : c ∉ s.gone := by simpa using hg
      split
      · rename_i key k _
        rcases pollLeader_cases_panic s c key k with e | ⟨o, r, ch, hpr, e⟩
        · rw [e]; exact h
        · rw [e]
          refine rinv_resolve (c0 := c) (n0 := 1) (evs := [.innerDone c key k o, .result c r]) h hlive rfl rfl
            (Nat.le_refl _) (fun x => nres_done x c key k o r) (by simp) ?_
          intro l key' k' hm
          simp at hm
          obtain ⟨e1, _, _, e4⟩ := hm
          subst e1
          simp [hpr e4.symm]
      · rename_i key l _
        unfold pollWaiter
        split
        · exact rinv_resolve (c0 := c) (n0 := 1) (evs := [.result c _]) h hlive rfl rfl
            (Nat.le_refl _) (fun x => nres_single x c _) (by simp) (by simp)
        · exact rinv_resolve (c0 := c) (n0 := 1) (evs := [.result c .cancelled]) h hlive rfl rfl
            (Nat.le_refl _) (fun x => nres_single x c _) (by simp) (by simp)
        · exact rinv_quiet (evs := []) h (by simp [selfWake, takeWake]) (fun _ hx => hx) (by simp [nres]) (by simp) (by simp)
      · exact h
  | drop c =>
    simp only [stepS]
    split
    · exact h
    · rename_i hg
      have hlive : c ∉ s.gone := by simpa using hg
      split
      · rename_i key k _
        refine rinv_resolve (c0 := c) (n0 := 0) (evs := [.innerDrop c key k]) h hlive rfl rfl
          (Nat.zero_le _) (by intro x; simp [nres, isResOf]) ?_ (by simp)
        intro l key' k' hm
        simp at hm
        exact ⟨hm.1, rfl⟩
      · exact rinv_quiet (evs := []) h (by simp [dropWaiter]) (by intro x hx; simp [dropWaiter, hx]) (by simp [nres]) (by simp) (by simp)
      · exact h

theorem rinv_reachable (ops : List Op) : RInv (run ops) := by
  have : ∀ (ops : List Op) (s : State), Inv s → RInv s → RInv (ops.foldl stepS s) := by
    intro ops
    induction ops with
    | nil => intro s _ h; exact h
    | cons o os ih => intro s hi h; exact ih _ (stepS_inv s o hi) (stepS_rinv s o hi h)
  exact this ops _ init_inv init_rinv

end TR.Coalesce
