import TR.Lemmas.RateLimiter
/-!
# Rate limiter, sliding counter: where the code's `f64` arithmetic and the model's exact integer tests agree

`limiter.rs:170-179` computes `weighted = previous·(1 − elapsed/bucket) + current` in `f64` and tests
`weighted < limit`; `limiter.rs:200-201` computes `(elapsed / bucket) as u32` and tests `≥ 2`. The model writes both
as integer tests on ticks: `prev·(B − e) + cur·B < L·B` and `e / B ≥ 2` (`weighted_test_scaled`, `buckets_test_scaled`
say these are the same statements, multiplied through by `B`).

**Agreement off the boundary** (`approx_decides`, `approx_buckets`): ANY evaluation of the weighted count, resp. of the
quotient, whose absolute error is below `1/B` (written without division: the approximation is the fraction `n/d` and
`|n·B − d·X| < d`) decides like the integer test — unless the exact quantity is *on* the boundary (`X = L·B`, resp.
`e = 2·B`). The `f64` evaluation has at most four roundings of relative size `2⁻⁵³` on operands `≤ prev + cur`, so
its error is below `(prev + cur + 1)·2⁻⁵⁰`, which is below `1/B` as soon as `(prev + cur + 1)·B < 2⁵⁰` with `B` in
nanoseconds (documented argument; e.g. a 1 s bucket and fewer than a million calls per bucket). So, inside that
magnitude, code and model can differ only ON the boundary.

**On the boundary** the result is exact when every operation is — the dyadic-grid argument, which the model states as
`f64Exact`: (i) buckets of 1, 2 or 4 whole seconds and elapsed times that are multiples of 2⁻⁹ s (the generator's
ordinary cases: instants on a 125 ms grid): `as_secs_f64` is exact on both, the ratio `j/(512·S)`, the weight
`1 − ratio`, its product with a count below 2⁴⁰ and the sum are all exactly representable; (ii) an elapsed time that is
the bucket divided by 2, 4 or 8, whatever the bucket: `fl(2ᵏ·x) = 2ᵏ·fl(x)`, so the ratio is exactly `2⁻ᵏ`; (iii) `e = 0`,
where the weight is exactly 1. There the model is strict (the comparison is no choice: `onBoundary_off_grid`).
Otherwise the result is one of the two neighbouring outcomes and the model takes it as an observed choice (`Fx.adm` on
`onBoundary`, `Fx.b1` at `e = 2·B`): `room_adm_only_on_boundary`, `counterRoll_b1_only_at_two_buckets` say the choices
are looked at nowhere else. (Counter-examples to exactness off the grid, found by enumeration and confirmed on the
code: bucket 44 ms, elapsed 33 ms — ratio 3/4 "dyadic", but `0.033/0.044 = 0.7500000000000001` in `f64`; bucket 559 ms,
elapsed 1118 ms — `1.1179999999999999/0.559 = 1.9999999999999996`.)

**The wait estimate** (`estFrac`): positive, at most the rest of the bucket, at least `B/(10·prev)` in the interpolating
branch (`est_cases`, `est_le_rem`); it can be reported as `Duration::ZERO` only when the bucket is shorter than
`10·prev` nanoseconds (`zeroOk_short_bucket`).
-/
namespace TR.RateLimiter

/-- the integer test is the real-number test `prev·(1 − e/B) + cur < L` multiplied through by `B > 0`
(`prev·(1 − e/B)·B = prev·(B − e)` for `e ≤ B`): stated with the scaled quantities on both sides -/
theorem weighted_test_scaled (prev cur L B e : Nat) (he : e ≤ B) :
    (prev * (B - e) + cur * B < L * B) ↔ (prev * B + cur * B < L * B + prev * e) := by
  have h1 : prev * (B - e) = prev * B - prev * e := Nat.mul_sub prev B e
  have h2 : prev * e ≤ prev * B := Nat.mul_le_mul_left _ he
  rw [h1]; omega

/-- `⌊e / B⌋ ≥ 2` is `e ≥ 2·B` -/
theorem buckets_test_scaled (e B : Nat) (hB : 0 < B) : (e / B ≥ 2) ↔ (2 * B ≤ e) := by
  show 2 ≤ e / B ↔ _
  rw [Nat.le_div_iff_mul_le hB]

/-- **Off the boundary any sufficiently accurate evaluation decides like the integer test.** `n/d` is the computed
weighted count, `X/B` the exact one (`X = prev·(B−e) + cur·B`); if they differ by less than `1/B`
(`|n·B − d·X| < d`) and the exact count is not exactly the limit, then `n/d < L ↔ X < L·B`. -/
theorem approx_decides (X L B n d : Nat) (hB : 0 < B)
    (hlo : d * X < n * B + d) (hhi : n * B < d * X + d) (hne : X ≠ L * B) :
    (n < L * d ↔ X < L * B) := by
  have hP : L * d * B = d * (L * B) := by rw [Nat.mul_comm L d, Nat.mul_assoc]
  constructor
  · intro hn
    apply Nat.lt_of_le_of_ne _ hne
    apply Nat.le_of_not_lt
    intro hgt
    have h1 : d * (L * B + 1) ≤ d * X := Nat.mul_le_mul_left d hgt
    rw [Nat.mul_add, Nat.mul_one] at h1
    have h2 : n * B < L * d * B := Nat.mul_lt_mul_of_pos_right hn hB
    omega
  · intro hx
    have h1 : d * (X + 1) ≤ d * (L * B) := Nat.mul_le_mul_left d hx
    rw [Nat.mul_add, Nat.mul_one] at h1
    have h2 : n * B < L * d * B := by omega
    exact Nat.lt_of_mul_lt_mul_right h2

/-- **The bucket count**: if the computed quotient `n/d` differs from `e/B` by less than `1/B` and the elapsed time is
not exactly two buckets, then `⌊n/d⌋ ≥ 2 ↔ e ≥ 2·B`. At exactly two buckets `⌊n/d⌋` may be 1 or 2. -/
theorem approx_buckets (e B n d : Nat) (hB : 0 < B)
    (hlo : d * e < n * B + d) (hhi : n * B < d * e + d) (hne : e ≠ 2 * B) :
    (2 * d ≤ n ↔ 2 * B ≤ e) := by
  have hP : 2 * d * B = d * (2 * B) := by rw [Nat.mul_comm 2 d, Nat.mul_assoc]
  constructor
  · intro hn
    apply Nat.le_of_not_lt
    intro hlt
    have h1 : d * (e + 1) ≤ d * (2 * B) := Nat.mul_le_mul_left d hlt
    rw [Nat.mul_add, Nat.mul_one] at h1
    have h2 : 2 * d * B ≤ n * B := Nat.mul_le_mul_right B hn
    omega
  · intro he
    have hgt : 2 * B + 1 ≤ e := by omega
    have h1 : d * (2 * B + 1) ≤ d * e := Nat.mul_le_mul_left d hgt
    rw [Nat.mul_add, Nat.mul_one] at h1
    have h2 : 2 * d * B < n * B := by omega
    exact Nat.le_of_lt (Nat.lt_of_mul_lt_mul_right h2)

/-! ## the observed choices are looked at on the boundary only -/

/-- fixed window and sliding log do not look at the observed choices at all -/
theorem room_fx_irrelevant (cfg : Cfg) (l : Lim) (now : Nat) (fx fx' : Fx) (hk : cfg.kind ≠ .counter) :
    room cfg l now fx = room cfg l now fx' := by
  unfold room
  cases h : cfg.kind with
  | fixed => rfl
  | slog => rfl
  | counter => exact absurd h hk

/-- the bucket rotation looks at `b1` only when the elapsed time is exactly two buckets -/
theorem counterRoll_b1_only_at_two_buckets (cfg : Cfg) (l : Lim) (now : Nat) (b b' : Bool)
    (h : now - l.start ≠ 2 * cfg.period) : counterRoll cfg l now b = counterRoll cfg l now b' := by
  unfold counterRoll twoBuckets
  simp only [h, if_false]

/-- the weighted test looks at `adm` only when the exact weighted count is exactly the limit, part-way into a bucket
with a non-empty previous bucket -/
theorem room_adm_only_on_boundary (cfg : Cfg) (l : Lim) (now : Nat) (a a' b1 : Bool)
    (h : onBoundary cfg (counterRoll cfg l now b1) (now - (counterRoll cfg l now b1).start) = false) :
    (room cfg l now { adm := a, b1 := b1 }) = (room cfg l now { adm := a', b1 := b1 }) := by
  unfold room
  cases hk : cfg.kind with
  | fixed => rfl
  | slog => rfl
  | counter =>
    simp only [roomCounter, h]
    simp

/-- the comparison is a choice only off the dyadic grid, at a positive elapsed time, with a non-empty previous
bucket, when the exact weighted count is exactly the limit -/
theorem onBoundary_off_grid (cfg : Cfg) (l : Lim) (e : Nat) (h : onBoundary cfg l e = true) :
    f64Exact cfg e = false ∧ e ≠ 0 ∧ 0 < l.prev ∧
    l.prev * (cfg.period - e) + l.cur * cfg.period = cfg.limit * cfg.period := by
  simp only [onBoundary, Bool.and_eq_true, decide_eq_true_eq, Bool.not_eq_true'] at h
  exact ⟨h.2, h.1.2.2, h.1.2.1, h.1.1⟩

/-! ## the wait estimate -/

/-- The two shapes of the exact estimate: the rest of the bucket, or (previous bucket non-empty, current bucket not
full, the weighted test failed) a fraction with denominator `10·prev` whose numerator is at least the bucket — i.e.
the estimate is at least `B / (10·prev)`. -/
theorem est_cases (cfg : Cfg) (l : Lim) (now : Nat) (hlt : now - l.start ≤ cfg.period)
    (hno : ¬ (l.prev * (cfg.period - (now - l.start)) + l.cur * cfg.period < cfg.limit * cfg.period)) :
    (estFrac cfg l now = (cfg.period - (now - l.start), 1)) ∨
    (0 < l.prev ∧ l.cur < cfg.limit ∧ (estFrac cfg l now).2 = 10 * l.prev ∧ cfg.period ≤ (estFrac cfg l now).1) := by
  unfold estFrac
  simp only
  split
  · left; rfl
  · rename_i hcase
    right
    have hmul : l.prev * (cfg.period - (now - l.start)) = l.prev * cfg.period - l.prev * (now - l.start) :=
      Nat.mul_sub l.prev cfg.period (now - l.start)
    have hpe : l.prev * (now - l.start) ≤ l.prev * cfg.period := Nat.mul_le_mul_left _ hlt
    have hA : (l.prev + l.cur - cfg.limit) * cfg.period = l.prev * cfg.period + l.cur * cfg.period - cfg.limit * cfg.period := by
      rw [Nat.sub_mul, Nat.add_mul]
    have hn : (10 * (l.prev + l.cur - cfg.limit) + 1) * cfg.period
        = 10 * ((l.prev + l.cur - cfg.limit) * cfg.period) + cfg.period := by
      rw [Nat.add_mul, Nat.mul_assoc, Nat.one_mul]
    have hpe10 : 10 * l.prev * (now - l.start) = 10 * (l.prev * (now - l.start)) := Nat.mul_assoc _ _ _
    refine ⟨by omega, by omega, rfl, ?_⟩
    simp only
    rw [hn, hpe10, hA]
    rw [hmul] at hno
    omega

/-- the estimate never exceeds the rest of the bucket -/
theorem est_le_rem (cfg : Cfg) (l : Lim) (now : Nat) (hlt : now - l.start ≤ cfg.period) :
    (estFrac cfg l now).1 ≤ (cfg.period - (now - l.start)) * (estFrac cfg l now).2 := by
  unfold estFrac
  simp only
  split
  · simp
  · rename_i hcase
    simp only
    have hc : l.cur < cfg.limit ∧ 0 < l.prev := by omega
    -- (10·(prev + cur − L) + 1)·B ≤ 10·prev·B, then subtract 10·prev·e on both sides
    have h1 : (10 * (l.prev + l.cur - cfg.limit) + 1) * cfg.period ≤ 10 * l.prev * cfg.period :=
      Nat.mul_le_mul_right _ (by omega)
    have h2 : (cfg.period - (now - l.start)) * (10 * l.prev) = 10 * l.prev * cfg.period - 10 * l.prev * (now - l.start) := by
      rw [Nat.mul_comm, Nat.mul_sub]
    rw [h2]
    omega

/-- `Duration::ZERO` can only come out of the interpolating branch, with a bucket shorter than `10·prev` ns -/
theorem zeroOk_short_bucket (cfg : Cfg) (l : Lim) (now : Nat) (ht : 1 ≤ cfg.tickNs)
    (hlt : now - l.start < cfg.period)
    (hno : ¬ (l.prev * (cfg.period - (now - l.start)) + l.cur * cfg.period < cfg.limit * cfg.period))
    (hz : zeroOk cfg l now = true) :
    0 < l.prev ∧ l.cur < cfg.limit ∧ cfg.period * cfg.tickNs < 10 * l.prev := by
  simp only [zeroOk, decide_eq_true_eq] at hz
  rcases est_cases cfg l now (by omega) hno with h | ⟨h1, h2, h3, h4⟩
  · rw [h] at hz
    simp only at hz
    have : 1 * 1 ≤ (cfg.period - (now - l.start)) * cfg.tickNs := Nat.mul_le_mul (by omega) ht
    omega
  · refine ⟨h1, h2, ?_⟩
    rw [h3] at hz
    have := Nat.mul_le_mul_right cfg.tickNs h4
    omega

end TR.RateLimiter
