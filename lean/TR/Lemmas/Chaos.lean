import TR.Model.Chaos
/-!
# Chaos: helper lemmas for C19

1. the decision block `decideG` of today's code over an arbitrary generator, under the contracts of `rand`
   — in particular: every decision it takes is one the property allows (`decideG_allowed`), i.e. today's
   decision function is ONE instance of the arbitrary decision streams the theorems quantify over;
2. the poll-level machine, which consumes decisions: per-request trace stages (an injected error never
   reaches the inner service); every recorded decision is the one reported with a first poll of the run;
3. decisions fed from an arbitrary stream per service (`runD`): the decisions taken on a service are the
   prefix of ITS stream, whatever else happens — on that service or on the other services of the layer.
-/
namespace TR.Chaos

/-- the contracts of `rand` the model relies on: `random::<f64>() < 1`, and
`random_range(min..=max) ∈ [min,max]` for the configured (non-empty) range -/
structure Lawful {γ : Type} (cfg : Cfg) (G : Gen γ) : Prop where
  roll : ∀ g, (G.nextF g).1 < P53
  range : cfg.minMs ≤ cfg.maxMs → ∀ g, cfg.minMs ≤ (G.nextR cfg.minMs cfg.maxMs g).1 ∧
            (G.nextR cfg.minMs cfg.maxMs g).1 ≤ cfg.maxMs

/-! ## 1. the decision block -/

theorem decideG_zero {γ : Type} (G : Gen γ) (cfg : Cfg) (g : γ) (he : cfg.eT = 0) (hl : cfg.lT = 0) :
    decideG G cfg g = (.pass, g) := by
  simp [decideG, he, hl]

theorem decideG_error_iff {γ : Type} (G : Gen γ) (cfg : Cfg) (g : γ) :
    (decideG G cfg g).1 = .error ↔ cfg.eT > 0 ∧ (G.nextF g).1 < cfg.eT := by
  unfold decideG
  by_cases he : cfg.eT > 0
  · simp only [he, if_true, true_and]
    by_cases hr : (G.nextF g).1 < cfg.eT
    · simp [hr]
    · simp only [hr, if_false, iff_false]
      split <;> simp
  · have : cfg.eT = 0 := by omega
    simp only [this, Nat.lt_irrefl, if_false, Nat.not_lt_zero, false_and, iff_false]
    split <;> simp

theorem decideG_error_state {γ : Type} (G : Gen γ) (cfg : Cfg) (g : γ) (h : (decideG G cfg g).1 = .error) :
    (decideG G cfg g).2 = (G.nextF g).2 := by
  have ⟨he, hr⟩ := (decideG_error_iff G cfg g).mp h
  unfold decideG
  have hnot : ¬ (cfg.lT > 0 ∧ (G.nextF g).1 ≥ cfg.eT) := by omega
  simp [he, hr, hnot]

theorem decideG_one {γ : Type} (G : Gen γ) (cfg : Cfg) (g : γ) (hL : Lawful cfg G) (he : cfg.eT = P53) :
    decideG G cfg g = (.error, (G.nextF g).2) := by
  have hr := hL.roll g
  have h1 : (decideG G cfg g).1 = .error := (decideG_error_iff G cfg g).mpr ⟨by rw [he]; decide, by rw [he]; exact hr⟩
  have h2 := decideG_error_state G cfg g h1
  exact Prod.ext h1 h2

theorem decideG_latency {γ : Type} (G : Gen γ) (cfg : Cfg) (g : γ) (ms : Nat)
    (h : (decideG G cfg g).1 = .latency ms) :
    (cfg.maxMs > cfg.minMs ∧ ∃ g', ms = (G.nextR cfg.minMs cfg.maxMs g').1) ∨
    (cfg.maxMs ≤ cfg.minMs ∧ ms = cfg.minMs) := by
  unfold decideG at h
  by_cases hlt : (if cfg.eT > 0 then G.nextF g else (P53, g)).1 < cfg.eT
  · simp [hlt] at h
  · simp only [hlt, if_false] at h
    by_cases hc : cfg.lT > 0 ∧ (if cfg.eT > 0 then G.nextF g else (P53, g)).1 ≥ cfg.eT
    · simp only [hc, and_self, if_true] at h
      by_cases hl : (G.nextF (if cfg.eT > 0 then G.nextF g else (P53, g)).2).1 < cfg.lT
      · simp only [hl, if_true] at h
        by_cases hm : cfg.maxMs > cfg.minMs
        · simp only [hm, if_true] at h
          injection h with h
          exact Or.inl ⟨hm, _, h.symm⟩
        · simp only [hm, if_false] at h
          injection h with h
          exact Or.inr ⟨by omega, h.symm⟩
      · simp [hl] at h
    · simp [hc] at h

theorem decideG_latency_range {γ : Type} (G : Gen γ) (cfg : Cfg) (g : γ) (ms : Nat) (hL : Lawful cfg G)
    (h : (decideG G cfg g).1 = .latency ms) :
    (cfg.minMs ≤ cfg.maxMs → cfg.minMs ≤ ms ∧ ms ≤ cfg.maxMs) ∧ (cfg.maxMs ≤ cfg.minMs → ms = cfg.minMs) := by
  rcases decideG_latency G cfg g ms h with ⟨hm, g', rfl⟩ | ⟨hm, rfl⟩
  · exact ⟨fun hle => hL.range hle g', fun hle => by omega⟩
  · exact ⟨fun hle => by omega, fun _ => rfl⟩

/-- a delay decided by today's code needs a positive latency rate -/
theorem decideG_latency_pos {γ : Type} (G : Gen γ) (cfg : Cfg) (g : γ) (ms : Nat)
    (h : (decideG G cfg g).1 = .latency ms) : cfg.lT > 0 := by
  unfold decideG at h
  by_cases hl : cfg.lT > 0
  · exact hl
  · exfalso
    have hn : ¬ (cfg.lT > 0 ∧ (if cfg.eT > 0 then G.nextF g else (P53, g)).1 ≥ cfg.eT) := fun x => hl x.1
    by_cases hlt : (if cfg.eT > 0 then G.nextF g else (P53, g)).1 < cfg.eT
    · simp [hlt] at h
    · simp [hlt, hn] at h

/-- at latency rate 1 today's code never passes a request through undelayed -/
theorem decideG_pass_rate {γ : Type} (G : Gen γ) (cfg : Cfg) (g : γ) (hL : Lawful cfg G)
    (h : (decideG G cfg g).1 = .pass) : cfg.lT ≠ P53 := by
  intro hl
  unfold decideG at h
  by_cases hlt : (if cfg.eT > 0 then G.nextF g else (P53, g)).1 < cfg.eT
  · simp [hlt] at h
  · have hp : (0 : Nat) < P53 := by decide
    have hc : cfg.lT > 0 ∧ (if cfg.eT > 0 then G.nextF g else (P53, g)).1 ≥ cfg.eT := ⟨by omega, by omega⟩
    have hr : (G.nextF (if cfg.eT > 0 then G.nextF g else (P53, g)).2).1 < cfg.lT := by rw [hl]; exact hL.roll _
    simp only [hlt, if_false, hc, and_self, if_true, hr] at h
    by_cases hm : cfg.maxMs > cfg.minMs <;> simp [hm] at h

/-- a request today's code does not fail: the error rate is below 1 (the roll is below 1) -/
theorem decideG_not_error_rate {γ : Type} (G : Gen γ) (cfg : Cfg) (g : γ) (hL : Lawful cfg G)
    (h : (decideG G cfg g).1 ≠ .error) : cfg.eT < P53 := by
  have hr := hL.roll g
  have hn : ¬ (cfg.eT > 0 ∧ (G.nextF g).1 < cfg.eT) := fun x => h ((decideG_error_iff G cfg g).mpr x)
  by_cases he : cfg.eT > 0
  · have : ¬ (G.nextF g).1 < cfg.eT := fun x => hn ⟨he, x⟩
    omega
  · have hp : (0 : Nat) < P53 := by decide
    omega

/-- **Today's decision function is one of the admissible ones**: over any generator within the contracts of
`rand`, in any state, the decision it takes satisfies the boundary clauses of the property. -/
theorem decideG_allowed {γ : Type} (G : Gen γ) (cfg : Cfg) (g : γ) (hL : Lawful cfg G) :
    allowedDec cfg (decideG G cfg g).1 = true := by
  cases hd : (decideG G cfg g).1 with
  | error =>
      have := (decideG_error_iff G cfg g).mp hd
      simp [allowedDec, this.1]
  | latency ms =>
      have h1 := decideG_not_error_rate G cfg g hL (by rw [hd]; simp)
      have h2 := decideG_latency_pos G cfg g ms hd
      have h3 := decideG_latency_range G cfg g ms hL hd
      unfold allowedDec inBounds
      by_cases hm : cfg.maxMs > cfg.minMs
      · have := h3.1 (by omega)
        simp [h1, h2, hm, this.1, this.2]
      · have := h3.2 (by omega)
        simp [h1, h2, hm, this]
  | pass =>
      have h1 := decideG_not_error_rate G cfg g hL (by rw [hd]; simp)
      have h2 := decideG_pass_rate G cfg g hL hd
      simp [allowedDec, h1, h2]

/-! ## 2. the poll-level machine -/

/-- the request an event is about (`probe`/`raw` lines are about none) -/
def about : Ev → Option Nat
  | .innerCall c _ => some c
  | .innerCallX c _ _ _ => some c
  | .innerDone c _ _ => some c
  | .innerDrop c _ => some c
  | .result c _ => some c
  | _ => none

def evsOf (c : Nat) (l : List Ev) : List Ev := l.filter (fun e => about e == some c)

@[simp] theorem evsOf_append (c : Nat) (a b : List Ev) : evsOf c (a ++ b) = evsOf c a ++ evsOf c b := by
  simp [evsOf]

theorem mem_evsOf {c : Nat} {l : List Ev} {e : Ev} : e ∈ evsOf c l ↔ e ∈ l ∧ about e = some c := by
  simp [evsOf]

theorem evsOf_all {c : Nat} {l : List Ev} (h : ∀ e ∈ l, about e = some c) : evsOf c l = l := by
  unfold evsOf
  apply List.filter_eq_self.mpr
  intro e he; simp [h e he]

theorem evsOf_foreign {c c' : Nat} {l : List Ev} (h : ∀ e ∈ l, ∀ x, about e = some x → x = c') (hne : c' ≠ c) :
    evsOf c l = [] := by
  unfold evsOf
  apply List.filter_eq_nil_iff.mpr
  intro e he
  simp only [beq_iff_eq]
  intro hab
  exact hne (h e he c hab).symm

theorem outcomeEvents_about (c k : Nat) (out : Out) : ∀ e ∈ outcomeEvents c k out, about e = some c := by
  intro e he
  cases out <;> simp [outcomeEvents] at he
  all_goals (rcases he with rfl | rfl <;> rfl)

/-- shapes of a finished or cancelled request's trace -/
inductive Final (dm : List (Nat × Decision)) (c : Nat) : List Ev → Prop
  | cancelled : Final dm c []                       -- dropped before any inner call (unpolled or asleep)
  | injected (tag : Nat) (h : lookup dm c = some .error) : Final dm c [.result c (injected tag)]
  | dropped (k : Nat) (h : ∃ dec, lookup dm c = some dec ∧ dec ≠ .error) : Final dm c [.innerCall c k, .innerDrop c k]
  | completed (k : Nat) (out : Out) (h : ∃ dec, lookup dm c = some dec ∧ dec ≠ .error) :
      Final dm c (.innerCall c k :: outcomeEvents c k out)

def Stage (s : State) (c : Nat) : Prop :=
  match lookup s.phase c with
  | none => evsOf c s.log = [] ∧ lookup s.decOf c = none
  | some (.fresh _ _ _) => evsOf c s.log = [] ∧ lookup s.decOf c = none
  | some (.sleeping _ _) => evsOf c s.log = [] ∧ ∃ ms, lookup s.decOf c = some (.latency ms)
  | some (.inner k _ _) => evsOf c s.log = [.innerCall c k] ∧ ∃ dec, lookup s.decOf c = some dec ∧ dec ≠ .error
  | some .done => Final s.decOf c (evsOf c s.log)

def Inv (s : State) : Prop := ∀ c, Stage s c

theorem lookup_setPhase_same (s : State) (c : Nat) (p : Phase) : lookup (setPhase s c p).phase c = some p := by
  simp [setPhase, lookup]

/-- a helper that works on request `c` leaves the other requests' phase, decision and events alone -/
structure Touches (c : Nat) (s s' : State) : Prop where
  phase : ∀ c', c ≠ c' → lookup s'.phase c' = lookup s.phase c'
  dec : ∀ c', c ≠ c' → lookup s'.decOf c' = lookup s.decOf c'
  log : ∃ evs, s'.log = s.log ++ evs ∧ ∀ e ∈ evs, ∀ x, about e = some x → x = c

theorem Touches.refl (c : Nat) (s : State) : Touches c s s :=
  ⟨fun _ _ => rfl, fun _ _ => rfl, ⟨[], by simp, by simp⟩⟩

theorem Touches.trans {c : Nat} {s1 s2 s3 : State} (h1 : Touches c s1 s2) (h2 : Touches c s2 s3) :
    Touches c s1 s3 := by
  refine ⟨fun c' hne => by rw [h2.phase c' hne, h1.phase c' hne],
          fun c' hne => by rw [h2.dec c' hne, h1.dec c' hne], ?_⟩
  obtain ⟨e1, hl1, ha1⟩ := h1.log
  obtain ⟨e2, hl2, ha2⟩ := h2.log
  refine ⟨e1 ++ e2, by rw [hl2, hl1, List.append_assoc], ?_⟩
  intro e he
  rcases List.mem_append.mp he with h | h
  · exact ha1 e h
  · exact ha2 e h

theorem touches_setPhase (c : Nat) (s : State) (p : Phase) : Touches c s (setPhase s c p) :=
  ⟨fun c' hne => by simp [setPhase, lookup, hne], fun _ _ => rfl, ⟨[], by simp [setPhase], by simp⟩⟩

theorem touches_emit (c : Nat) (s : State) (evs : List Ev) (h : ∀ e ∈ evs, ∀ x, about e = some x → x = c) :
    Touches c s (emit s evs) :=
  ⟨fun _ _ => rfl, fun _ _ => rfl, ⟨evs, rfl, h⟩⟩

theorem about_marker (c k : Nat) : about (TEv.firstPoll c k).toEv = none := rfl

theorem touches_mark (c k : Nat) (s : State) : Touches c s (mark s c k) :=
  ⟨fun _ _ => rfl, fun _ _ => rfl,
    ⟨[(TEv.firstPoll c k).toEv], rfl, by intro e he x hx; simp at he; subst he; simp [about_marker] at hx⟩⟩

theorem touches_record (c k : Nat) (s : State) (dec : Decision) : Touches c s (record s c k dec) :=
  ⟨fun _ _ => rfl, fun c' hne => by simp [record, lookup, hne], ⟨[], by simp [record], by simp⟩⟩

theorem about_of_all {c : Nat} {evs : List Ev} (h : ∀ e ∈ evs, about e = some c) :
    ∀ e ∈ evs, ∀ x, about e = some x → x = c := by
  intro e he x hx; rw [h e he] at hx; injection hx with hx; exact hx.symm

theorem touches_pollInner (s : State) (c k t : Nat) (out : Out) : Touches c s (pollInner s c k t out) := by
  unfold pollInner
  split
  · exact (touches_emit c s _ (about_of_all (outcomeEvents_about c k out))).trans (touches_setPhase c _ _)
  · exact Touches.refl c s

theorem touches_startInner (s : State) (c : Nat) (st : Step) : Touches c s (startInner s c st) := by
  unfold startInner
  refine Touches.trans ?_ (touches_pollInner _ c _ _ _)
  refine Touches.trans (s2 := emit { s with serial := s.serial + 1 } [.innerCall c s.serial]) ?_ (touches_setPhase c _ _)
  exact ⟨fun _ _ => rfl, fun _ _ => rfl,
    ⟨[.innerCall c s.serial], rfl, by intro e he x hx; simp at he; subst he; simp [about] at hx; exact hx.symm⟩⟩

theorem touches_pollSleeping (s : State) (c u : Nat) (st : Step) : Touches c s (pollSleeping s c u st) := by
  unfold pollSleeping
  split
  · exact touches_startInner s c st
  · exact Touches.refl c s

theorem touches_notAllowed (c : Nat) (s : State) : Touches c s (emit s [.raw "choice-not-allowed"]) :=
  touches_emit c s _ (by intro e he x hx; simp at he; subst he; simp [about] at hx)

theorem touches_pollFresh (cfg : Cfg) (s : State) (c k tag : Nat) (st : Step) (d : Decision) :
    Touches c s (pollFresh cfg s c k tag st d) := by
  unfold pollFresh
  have hm : Touches c s (mark s c k) := touches_mark c k s
  have h0 : Touches c s (checked cfg (mark s c k) d) := by
    unfold checked
    split
    · exact hm
    · exact hm.trans (touches_notAllowed c _)
  have h1 := h0.trans (touches_record c k _ d)
  generalize (record (checked cfg (mark s c k) d) c k d) = s1 at h1
  cases d with
  | error =>
      refine h1.trans ((touches_emit c _ _ ?_).trans (touches_setPhase c _ _))
      intro e he x hx; simp at he; subst he; simp [about] at hx; exact hx.symm
  | latency ms => exact h1.trans ((touches_setPhase c _ _).trans (touches_pollSleeping _ c _ st))
  | pass => exact h1.trans (touches_startInner _ c st)

theorem final_mono {dm dm' : List (Nat × Decision)} {c : Nat} {l : List Ev} (hd : lookup dm' c = lookup dm c)
    (h : Final dm c l) : Final dm' c l := by
  cases h with
  | cancelled => exact Final.cancelled
  | injected tag h => exact Final.injected tag (hd ▸ h)
  | dropped k h => exact Final.dropped k (hd ▸ h)
  | completed k out h => exact Final.completed k out (hd ▸ h)

theorem stage_other {s s' : State} {c c' : Nat} (hne : c ≠ c') (ht : Touches c s s') (h : Stage s c') :
    Stage s' c' := by
  obtain ⟨evs, hl, hab⟩ := ht.log
  have hev : evsOf c' s'.log = evsOf c' s.log := by
    rw [hl, evsOf_append, evsOf_foreign hab hne, List.append_nil]
  have hd := ht.dec c' hne
  unfold Stage at *
  rw [ht.phase c' hne, hev, hd]
  split at h <;> simp_all
  exact final_mono hd h

/-! ### the touched request -/

theorem evsOf_emit_same {c : Nat} {s : State} {evs : List Ev} (h : ∀ e ∈ evs, about e = some c) :
    evsOf c (emit s evs).log = evsOf c s.log ++ evs := by
  simp [emit, evsOf_all h]

theorem stage_pollInner {s : State} {c k t : Nat} {out : Out}
    (hph : lookup s.phase c = some (.inner k t out)) (h : Stage s c) : Stage (pollInner s c k t out) c := by
  unfold pollInner
  split
  · unfold Stage at h ⊢
    rw [hph] at h
    rw [lookup_setPhase_same]
    show Final _ c (evsOf c (emit s (outcomeEvents c k out)).log)
    rw [evsOf_emit_same (outcomeEvents_about c k out), h.1]
    exact Final.completed k out h.2
  · exact h

theorem stage_startInner {s : State} {c : Nat} {st : Step}
    (hev : evsOf c s.log = []) (hd : ∃ dec, lookup s.decOf c = some dec ∧ dec ≠ .error) : Stage (startInner s c st) c := by
  unfold startInner
  apply stage_pollInner (lookup_setPhase_same _ c _)
  unfold Stage
  rw [lookup_setPhase_same]
  refine ⟨?_, hd⟩
  show evsOf c (s.log ++ [Ev.innerCall c s.serial]) = _
  rw [evsOf_append, hev]
  simp [evsOf, about]

theorem stage_pollSleeping {s : State} {c u : Nat} {st : Step}
    (hph : lookup s.phase c = some (.sleeping u st)) (h : Stage s c) : Stage (pollSleeping s c u st) c := by
  unfold pollSleeping
  split
  · unfold Stage at h
    rw [hph] at h
    obtain ⟨hev, ms, hd⟩ := h
    exact stage_startInner hev ⟨_, hd, by simp⟩
  · exact h

theorem stage_pollFresh {cfg : Cfg} {s : State} {c k tag : Nat} {st : Step} {d : Decision}
    (hph : lookup s.phase c = some (.fresh k tag st)) (h : Stage s c) : Stage (pollFresh cfg s c k tag st d) c := by
  unfold Stage at h
  rw [hph] at h
  unfold pollFresh
  -- the state after the allowed-check and `record`: no event about `c`, decision recorded
  have hevm : evsOf c (mark s c k).log = [] := by
    show evsOf c (s.log ++ [(TEv.firstPoll c k).toEv]) = []
    rw [evsOf_append, h.1]; simp [evsOf, about_marker]
  have hev0 : evsOf c (checked cfg (mark s c k) d).log = [] := by
    unfold checked
    split
    · exact hevm
    · show evsOf c ((mark s c k).log ++ [Ev.raw "choice-not-allowed"]) = []
      rw [evsOf_append, hevm]; simp [evsOf, about]
  generalize checked cfg (mark s c k) d = s0 at hev0
  have hev1 : evsOf c (record s0 c k d).log = [] := hev0
  have hd1 : lookup (record s0 c k d).decOf c = some d := by
    simp [record, lookup]
  generalize (record s0 c k d) = s1 at hev1 hd1
  cases d with
  | error =>
      unfold enact Stage
      rw [lookup_setPhase_same]
      show Final _ c (evsOf c (s1.log ++ [Ev.result c (injected tag)]))
      rw [evsOf_append, hev1]
      simp only [evsOf, about, List.filter, beq_self_eq_true, List.nil_append]
      exact Final.injected tag hd1
  | latency ms =>
      unfold enact
      apply stage_pollSleeping (lookup_setPhase_same _ c _)
      unfold Stage
      rw [lookup_setPhase_same]
      exact ⟨hev1, ms, hd1⟩
  | pass =>
      unfold enact
      exact stage_startInner hev1 ⟨_, hd1, by simp⟩

theorem inv_of_touches {s s' : State} {c : Nat} (hinv : Inv s) (ht : Touches c s s') (hc : Stage s' c) :
    Inv s' := by
  intro c'
  by_cases hne : c = c'
  · subst hne; exact hc
  · exact stage_other hne ht (hinv c')

theorem step_inv (cfg : Cfg) (s : State) (op : Op) (hinv : Inv s) : Inv (stepS cfg s op) := by
  cases op with
  | adv ms => exact hinv
  | dropsvc => exact hinv
  | arrive c k tag st =>
      simp only [stepS]
      split
      · exact hinv
      · rename_i hk
        apply inv_of_touches hinv (touches_setPhase c s _)
        have hnone : lookup s.phase c = none := by
          simp only [known, Bool.or_eq_true, not_or, Bool.not_eq_true, Option.isSome_eq_false_iff, Option.isNone_iff_eq_none] at hk
          exact hk.2
        have := hinv c
        unfold Stage at this ⊢
        rw [hnone] at this
        rw [lookup_setPhase_same]
        exact this
  | poll c d =>
      simp only [stepS]
      split
      · rename_i k tag st hph
        split
        · rename_i d
          exact inv_of_touches hinv (touches_pollFresh cfg s c k tag st d) (stage_pollFresh hph (hinv c))
        · apply inv_of_touches hinv (touches_notAllowed c s)
          have := hinv c
          have hph' : lookup (emit s [Ev.raw "choice-not-allowed"]).phase c = some (.fresh k tag st) := hph
          unfold Stage at this ⊢
          rw [hph] at this
          rw [hph']
          refine ⟨?_, this.2⟩
          show evsOf c (s.log ++ [Ev.raw "choice-not-allowed"]) = []
          rw [evsOf_append, this.1]; simp [evsOf, about]
      · rename_i u st hph
        exact inv_of_touches hinv (touches_pollSleeping s c u st) (stage_pollSleeping hph (hinv c))
      · rename_i k t out hph
        exact inv_of_touches hinv (touches_pollInner s c k t out) (stage_pollInner hph (hinv c))
      · exact hinv
  | drop c =>
      simp only [stepS]
      split
      · rename_i k tag st hph
        apply inv_of_touches hinv (touches_setPhase c s _)
        have := hinv c
        unfold Stage at this ⊢
        rw [hph] at this
        rw [lookup_setPhase_same]
        show Final _ c (evsOf c s.log)
        rw [this.1]; exact Final.cancelled
      · rename_i u st hph
        apply inv_of_touches hinv (touches_setPhase c s _)
        have := hinv c
        unfold Stage at this ⊢
        rw [hph] at this
        rw [lookup_setPhase_same]
        show Final _ c (evsOf c s.log)
        rw [this.1]; exact Final.cancelled
      · rename_i k t out hph
        have hab : ∀ e ∈ [Ev.innerDrop c k], about e = some c := by intro e he; simp at he; subst he; rfl
        apply inv_of_touches hinv ((touches_emit c s _ (about_of_all hab)).trans (touches_setPhase c _ _))
        have := hinv c
        unfold Stage at this ⊢
        rw [hph] at this
        rw [lookup_setPhase_same]
        show Final _ c (evsOf c (emit s [Ev.innerDrop c k]).log)
        rw [evsOf_emit_same hab, this.1]
        exact Final.dropped k this.2
      · exact hinv

theorem inv_init : Inv init := by
  intro c; simp [Stage, init, lookup, evsOf]

theorem foldl_inv (cfg : Cfg) (ops : List Op) (s : State) (h : Inv s) : Inv (ops.foldl (stepS cfg) s) := by
  induction ops generalizing s with
  | nil => exact h
  | cons op tl ih => exact ih _ (step_inv cfg s op h)

theorem inv_reachable (cfg : Cfg) (ops : List Op) : Inv (run cfg ops) :=
  foldl_inv cfg ops init inv_init

/-- in every reachable state: a request that reached the inner service has a recorded decision,
and it is not "inject an error" -/
theorem inner_call_decision (cfg : Cfg) (ops : List Op) (c k : Nat) (hmem : Ev.innerCall c k ∈ (run cfg ops).log) :
    ∃ dec, lookup (run cfg ops).decOf c = some dec ∧ dec ≠ .error := by
  have hm : Ev.innerCall c k ∈ evsOf c (run cfg ops).log := mem_evsOf.mpr ⟨hmem, rfl⟩
  have h := inv_reachable cfg ops c
  unfold Stage at h
  split at h
  · rw [h.1] at hm; simp at hm
  · rw [h.1] at hm; simp at hm
  · rw [h.1] at hm; simp at hm
  · exact h.2
  · generalize evsOf c (run cfg ops).log = l at h hm
    cases h with
    | cancelled => simp at hm
    | injected tag h => simp [injected] at hm
    | dropped k' h => exact h
    | completed k' out h => exact h

/-- in every reachable state: a request whose decision was "inject an error" has no inner call -/
theorem error_no_inner_call (cfg : Cfg) (ops : List Op) (c k : Nat)
    (hd : lookup (run cfg ops).decOf c = some .error) : Ev.innerCall c k ∉ (run cfg ops).log := by
  intro hmem
  obtain ⟨dec, h1, h2⟩ := inner_call_decision cfg ops c k hmem
  rw [hd] at h1; injection h1 with h1; exact h2 h1.symm

/-! ### ghost fields: decisions are taken only in first polls -/

theorem pollInner_ghost (s : State) (c k t : Nat) (out : Out) :
    (pollInner s c k t out).decs = s.decs ∧ (pollInner s c k t out).decOf = s.decOf := by
  unfold pollInner; split <;> exact ⟨rfl, rfl⟩

theorem startInner_ghost (s : State) (c : Nat) (st : Step) :
    (startInner s c st).decs = s.decs ∧ (startInner s c st).decOf = s.decOf := by
  unfold startInner
  exact ⟨(pollInner_ghost _ _ _ _ _).1, (pollInner_ghost _ _ _ _ _).2⟩

theorem pollSleeping_ghost (s : State) (c u : Nat) (st : Step) :
    (pollSleeping s c u st).decs = s.decs ∧ (pollSleeping s c u st).decOf = s.decOf := by
  unfold pollSleeping; split
  · exact startInner_ghost s c st
  · exact ⟨rfl, rfl⟩

theorem enact_ghost (s : State) (c tag : Nat) (st : Step) (dec : Decision) :
    (enact s c tag st dec).decs = s.decs ∧ (enact s c tag st dec).decOf = s.decOf := by
  cases dec with
  | error => exact ⟨rfl, rfl⟩
  | latency ms => exact ⟨(pollSleeping_ghost _ _ _ _).1, (pollSleeping_ghost _ _ _ _).2⟩
  | pass => exact startInner_ghost s c st

theorem checked_ghost (cfg : Cfg) (s : State) (d : Decision) :
    (checked cfg s d).decs = s.decs ∧ (checked cfg s d).decOf = s.decOf := by
  unfold checked; split <;> exact ⟨rfl, rfl⟩

theorem pollFresh_decs (cfg : Cfg) (s : State) (c k tag : Nat) (st : Step) (d : Decision) :
    (pollFresh cfg s c k tag st d).decs = s.decs ++ [(k, d)] := by
  unfold pollFresh
  rw [(enact_ghost _ _ _ _ _).1]
  show (checked cfg (mark s c k) d).decs ++ _ = _
  rw [(checked_ghost cfg _ d).1]; rfl

theorem pollFresh_decOf (cfg : Cfg) (s : State) (c k tag : Nat) (st : Step) (d : Decision) :
    (pollFresh cfg s c k tag st d).decOf = (c, d) :: s.decOf := by
  unfold pollFresh
  rw [(enact_ghost _ _ _ _ _).2]
  show (c, _) :: (checked cfg (mark s c k) d).decOf = _
  rw [(checked_ghost cfg _ d).2]; rfl

def isFresh (s : State) (c : Nat) : Bool :=
  match lookup s.phase c with
  | some (.fresh _ _ _) => true
  | _ => false

/-- the service a request that has not been polled yet was made on -/
def svcOfFresh (s : State) (c : Nat) : Nat :=
  match lookup s.phase c with
  | some (.fresh k _ _) => k
  | _ => 0

/-- every step other than a first poll with a reported decision leaves the ghost decision fields alone -/
theorem step_ghost_unchanged (cfg : Cfg) (s : State) (op : Op)
    (h : ∀ c d, op = .poll c (some d) → isFresh s c = false) :
    (stepS cfg s op).decs = s.decs ∧ (stepS cfg s op).decOf = s.decOf := by
  cases op with
  | adv ms => exact ⟨rfl, rfl⟩
  | dropsvc => exact ⟨rfl, rfl⟩
  | arrive c k tag st => simp only [stepS]; split <;> exact ⟨rfl, rfl⟩
  | drop c => simp only [stepS]; split <;> exact ⟨rfl, rfl⟩
  | poll c d =>
      simp only [stepS]
      split
      · rename_i k tag st hph
        cases d with
        | none => exact ⟨rfl, rfl⟩
        | some d =>
            have := h c d rfl
            simp [isFresh, hph] at this
      · exact pollSleeping_ghost _ _ _ _
      · exact pollInner_ghost _ _ _ _ _
      · exact ⟨rfl, rfl⟩

theorem step_fresh (cfg : Cfg) (s : State) (c : Nat) (d : Decision) (h : isFresh s c = true) :
    (stepS cfg s (.poll c (some d))).decs = s.decs ++ [(svcOfFresh s c, d)] ∧
    (stepS cfg s (.poll c (some d))).decOf = (c, d) :: s.decOf := by
  unfold isFresh at h
  simp only [stepS, svcOfFresh]
  split at h <;> try (simp at h)
  rename_i k tag st hph
  simp only [hph]
  exact ⟨pollFresh_decs cfg s c k tag st d, pollFresh_decOf cfg s c k tag st d⟩

/-- every recorded decision is the decision reported with some first poll of the run -/
theorem decision_from_obs (cfg : Cfg) (ops : List Op) (c : Nat) (dec : Decision)
    (h : lookup (run cfg ops).decOf c = some dec) : Op.poll c (some dec) ∈ ops := by
  -- generalised over the start state and a superset `all` of the operations
  have gen : ∀ (all ops : List Op) (s : State), (∀ op ∈ ops, op ∈ all) →
      (∀ c dec, lookup s.decOf c = some dec → Op.poll c (some dec) ∈ all) →
      (∀ c dec, lookup (ops.foldl (stepS cfg) s).decOf c = some dec → Op.poll c (some dec) ∈ all) := by
    intro all ops
    induction ops with
    | nil => intro s _ hs; exact hs
    | cons op tl ih =>
        intro s hsub hs
        apply ih (stepS cfg s op) (fun o ho => hsub o (List.mem_cons_of_mem _ ho))
        intro c dec hl
        by_cases hf : ∃ c' d, op = .poll c' (some d) ∧ isFresh s c' = true
        · obtain ⟨c', d, hop, hfr⟩ := hf
          subst hop
          rw [(step_fresh cfg s c' d hfr).2] at hl
          simp only [lookup] at hl
          split at hl
          · rename_i heq
            injection hl with hl
            subst heq
            subst hl
            exact hsub _ (List.mem_cons_self ..)
          · exact hs c dec hl
        · have hun := step_ghost_unchanged cfg s op (by
            intro c' d hop
            cases hfr : isFresh s c' with
            | false => rfl
            | true => exact absurd ⟨c', d, hop, hfr⟩ hf)
          rw [hun.2] at hl
          exact hs c dec hl
  exact gen ops ops init (fun _ h => h) (by intro c dec h; simp [init, lookup] at h) c dec h

/-- a poll of request `c` leaves the other requests' phase, decision and events alone -/
theorem touches_poll (cfg : Cfg) (s : State) (c : Nat) (d : Option Decision) : Touches c s (stepS cfg s (.poll c d)) := by
  simp only [stepS]
  split
  · split
    · exact touches_pollFresh cfg s c _ _ _ _
    · exact touches_notAllowed c s
  · exact touches_pollSleeping s c _ _
  · exact touches_pollInner s c _ _ _
  · exact Touches.refl c s

/-! ## 3. decisions fed from an arbitrary stream per service

`σ k i` is the decision of the `i`-th request to be first polled on service `k` — ANY function: the theorems
below hold for every `σ`. "Deterministic function of the seed and the order of requests" is: the layer's
decisions are those of a run fed from the stream the seed stands for (`decisions_are_stream`); equally seeded
services are services with equal streams. -/

/-- operations without annotations; the decision of a first poll is the next entry of the stream of the service
the request was made on -/
inductive ROp
  | arrive (c svc tag : Nat) (st : Step)
  | poll (c : Nat)
  | drop (c : Nat)
  | adv (ms : Nat)
  | dropsvc

/-- the operation the machine sees -/
def annotate (σ : Nat → Nat → Decision) (s : State) : ROp → Op
  | .arrive c k tag st => .arrive c k tag st
  | .drop c => .drop c
  | .adv ms => .adv ms
  | .dropsvc => .dropsvc
  | .poll c =>
      if isFresh s c then .poll c (some (σ (svcOfFresh s c) (decsOn s (svcOfFresh s c)).length))
      else .poll c none

def stepD (σ : Nat → Nat → Decision) (cfg : Cfg) (s : State) (op : ROp) : State := stepS cfg s (annotate σ s op)

def runD (σ : Nat → Nat → Decision) (cfg : Cfg) (ops : List ROp) : State := ops.foldl (stepD σ cfg) init

theorem decsOn_snoc_same (s s' : State) (k : Nat) (d : Decision) (h : s'.decs = s.decs ++ [(k, d)]) :
    decsOn s' k = decsOn s k ++ [d] := by
  simp [decsOn, h, List.filter_append]

theorem decsOn_snoc_other (s s' : State) (k j : Nat) (d : Decision) (h : s'.decs = s.decs ++ [(k, d)]) (hne : k ≠ j) :
    decsOn s' j = decsOn s j := by
  simp [decsOn, h, List.filter_append, hne]

theorem decsOn_same (s s' : State) (j : Nat) (h : s'.decs = s.decs) : decsOn s' j = decsOn s j := by
  simp [decsOn, h]

/-- **A step on a request of one service leaves the decisions of every other service alone.** -/
theorem step_other_service (cfg : Cfg) (s : State) (c : Nat) (d : Option Decision) (j : Nat)
    (h : svcOfFresh s c ≠ j) : decsOn (stepS cfg s (.poll c d)) j = decsOn s j := by
  by_cases hf : isFresh s c = true
  · cases d with
    | some d => exact decsOn_snoc_other s _ _ j d (step_fresh cfg s c d hf).1 h
    | none => exact decsOn_same s _ j (step_ghost_unchanged cfg s _ (by intro c' d' hh; cases hh)).1
  · have hf' : isFresh s c = false := by simpa using hf
    exact decsOn_same s _ j (step_ghost_unchanged cfg s _ (by intro c' d' hh; cases hh; exact hf')).1

/-- invariant of a run fed from `σ`: on every service the decisions taken are the prefix of its stream -/
def Fed (σ : Nat → Nat → Decision) (s : State) : Prop :=
  ∀ k, decsOn s k = (List.range (decsOn s k).length).map (σ k)

theorem stepD_fed (σ : Nat → Nat → Decision) (cfg : Cfg) (s : State) (op : ROp) (h : Fed σ s) :
    Fed σ (stepD σ cfg s op) := by
  have keep : ∀ o : Op, (∀ c d, o = .poll c (some d) → isFresh s c = false) → Fed σ (stepS cfg s o) := by
    intro o ho k
    rw [decsOn_same s _ k (step_ghost_unchanged cfg s o ho).1]
    exact h k
  cases op with
  | arrive c k tag st => exact keep _ (by intro c' d hh; cases hh)
  | drop c => exact keep _ (by intro c' d hh; cases hh)
  | adv ms => exact keep _ (by intro c' d hh; cases hh)
  | dropsvc => exact keep _ (by intro c' d hh; cases hh)
  | poll c =>
      simp only [stepD, annotate]
      split
      · rename_i hf
        have hs := (step_fresh cfg s c (σ (svcOfFresh s c) (decsOn s (svcOfFresh s c)).length) hf).1
        intro k
        by_cases hk : svcOfFresh s c = k
        · subst hk
          rw [decsOn_snoc_same s _ _ _ hs, List.length_append, List.length_singleton, List.range_succ,
            List.map_append, ← h (svcOfFresh s c)]
          rfl
        · rw [decsOn_snoc_other s _ _ k _ hs hk]
          exact h k
      · exact keep _ (by intro c' d hh; cases hh)

theorem runD_fed (σ : Nat → Nat → Decision) (cfg : Cfg) (ops : List ROp) : Fed σ (runD σ cfg ops) := by
  have gen : ∀ (ops : List ROp) (s : State), Fed σ s → Fed σ (ops.foldl (stepD σ cfg) s) := by
    intro ops
    induction ops with
    | nil => intro s h; exact h
    | cons op tl ih => intro s h; exact ih _ (stepD_fed σ cfg s op h)
  exact gen ops init (by intro k; simp [decsOn, init])

/-- every decision a run fed from `σ` reports with a first poll is an entry of `σ` -/
theorem annotate_from_stream (σ : Nat → Nat → Decision) (s : State) (op : ROp) (c : Nat) (d : Decision)
    (h : annotate σ s op = .poll c (some d)) : ∃ k i, d = σ k i := by
  cases op with
  | poll c' =>
      simp only [annotate] at h
      split at h
      · injection h with _ h2
        injection h2 with h2
        exact ⟨_, _, h2.symm⟩
      · injection h with _ h2
        cases h2
  | arrive c' k tag st => cases h
  | drop c' => cases h
  | adv ms => cases h
  | dropsvc => cases h

/-- the annotated operation list of a run fed from `σ` (what the machine is given, step by step) -/
def annotated (σ : Nat → Nat → Decision) (cfg : Cfg) : State → List ROp → List Op
  | _, [] => []
  | s, op :: tl => annotate σ s op :: annotated σ cfg (stepD σ cfg s op) tl

theorem foldl_annotated (σ : Nat → Nat → Decision) (cfg : Cfg) (ops : List ROp) (s : State) :
    ops.foldl (stepD σ cfg) s = (annotated σ cfg s ops).foldl (stepS cfg) s := by
  induction ops generalizing s with
  | nil => rfl
  | cons op tl ih => exact ih (stepD σ cfg s op)

/-- a run fed from `σ` IS a run of the machine on the annotated operations -/
theorem runD_eq_run (σ : Nat → Nat → Decision) (cfg : Cfg) (ops : List ROp) :
    runD σ cfg ops = run cfg (annotated σ cfg init ops) :=
  foldl_annotated σ cfg ops init

theorem annotated_from_stream (σ : Nat → Nat → Decision) (cfg : Cfg) (ops : List ROp) (s : State) (c : Nat) (d : Decision)
    (h : Op.poll c (some d) ∈ annotated σ cfg s ops) : ∃ k i, d = σ k i := by
  induction ops generalizing s with
  | nil => simp [annotated] at h
  | cons op tl ih =>
      simp only [annotated, List.mem_cons] at h
      rcases h with h | h
      · exact annotate_from_stream σ s op c d h.symm
      · exact ih _ h

/-! ### today's decision function as a stream -/

/-- generator state after `n` decisions of today's decision function -/
def genAfter {γ : Type} (G : Gen γ) (cfg : Cfg) : γ → Nat → γ
  | g, 0 => g
  | g, n + 1 => genAfter G cfg (decideG G cfg g).2 n

/-- the `i`-th decision of a service whose generator starts in state `g` (today's decision function) -/
def genStream {γ : Type} (G : Gen γ) (cfg : Cfg) (g : γ) (i : Nat) : Decision :=
  (decideG G cfg (genAfter G cfg g i)).1

theorem genAfter_succ {γ : Type} (G : Gen γ) (cfg : Cfg) (g : γ) (n : Nat) :
    genAfter G cfg g (n + 1) = (decideG G cfg (genAfter G cfg g n)).2 := by
  induction n generalizing g with
  | zero => rfl
  | succ n ih => exact ih (decideG G cfg g).2

theorem streamG_succ {γ : Type} (G : Gen γ) (cfg : Cfg) (g : γ) (n : Nat) :
    streamG G cfg g (n + 1) = streamG G cfg g n ++ [(decideG G cfg (genAfter G cfg g n)).1] := by
  induction n generalizing g with
  | zero => rfl
  | succ n ih =>
      show (decideG G cfg g).1 :: streamG G cfg (decideG G cfg g).2 (n + 1) = _
      rw [ih (decideG G cfg g).2]; rfl

theorem streamG_length {γ : Type} (G : Gen γ) (cfg : Cfg) (g : γ) (n : Nat) : (streamG G cfg g n).length = n := by
  induction n generalizing g with
  | zero => rfl
  | succ n ih => simp [streamG, ih]

theorem streamG_eq_map {γ : Type} (G : Gen γ) (cfg : Cfg) (g : γ) (n : Nat) :
    streamG G cfg g n = (List.range n).map (genStream G cfg g) := by
  induction n with
  | zero => rfl
  | succ n ih => rw [streamG_succ, ih, List.range_succ, List.map_append]; rfl

/-- every entry of today's stream over a lawful generator is a decision the property allows -/
theorem genStream_allowed {γ : Type} (G : Gen γ) (cfg : Cfg) (g : γ) (hL : Lawful cfg G) (i : Nat) :
    allowedDec cfg (genStream G cfg g i) = true :=
  decideG_allowed G cfg _ hL

/-- the first event of `inner.call(req).await` is the inner call, with the next serial -/
theorem startInner_log (s : State) (c : Nat) (st : Step) :
    ∃ rest, (startInner s c st).log = s.log ++ Ev.innerCall c s.serial :: rest := by
  unfold startInner pollInner
  split
  · exact ⟨outcomeEvents c s.serial st.out, by simp [setPhase, emit]⟩
  · exact ⟨[], by simp [setPhase, emit]⟩

/-- a generator within the contract, for non-vacuity examples: a counter; rolls alternate
between 0 and 1 − 2⁻⁵³, range draws return the lower bound -/
def counterGen : Gen Nat where
  nextF := fun n => (if n % 2 = 0 then 0 else P53 - 1, n + 1)
  nextR := fun lo _ n => (lo, n + 1)

theorem equations_realised : True := by
  have := @decideG.eq_1
  have := @enact.eq_1
  have := @enact.eq_2
  have := @enact.eq_3
  have := @pollFresh.eq_1
  have := @pollSleeping.eq_1
  have := @startInner.eq_1
  have := @pollInner.eq_1
  have := @checked.eq_1
  have := @record.eq_1
  have := @emit.eq_1
  have := @mark.eq_1
  have := @TEv.toEv.eq_1
  have := @setPhase.eq_1
  have := @allowedDec.eq_1
  have := @inBounds.eq_1
  have := @decsOn.eq_1
  have := @annotate.eq_1
  have := @injected.eq_1
  trivial

end TR.Chaos
