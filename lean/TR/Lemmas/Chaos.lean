import TR.Model.Chaos
/-!
# Chaos: helper lemmas for C19

1. the decision block `decideG` over an arbitrary generator, under the contracts of `rand`;
2. `decideDraws` (draws as inputs) agrees with `decideG` on the view of the generator;
3. the poll-level machine: per-request trace stages (an injected error never reaches the inner
   service), and the decisions of a run with a threaded generator are the seed's decision stream.
-/
namespace TR.Chaos

/-- the contracts of `rand` the model relies on: `random::<f64>() < 1`, and
`random_range(min..=max) ∈ [min,max]` for the configured (non-empty) range -/
structure Lawful {γ : Type} (cfg : Cfg) (G : Gen γ) : Prop where
  roll : ∀ g, (G.nextF g).1 < P53
  range : cfg.minMs ≤ cfg.maxMs → ∀ g, cfg.minMs ≤ (G.nextR cfg.minMs cfg.maxMs g).1 ∧
            (G.nextR cfg.minMs cfg.maxMs g).1 ≤ cfg.maxMs

/-! ## 1. the decision block -/

theorem decideG_zero {γ : Type} (G : Gen γ) (cfg : Cfg) (g : γ) (he : cfg.eT = 0) (hl : cfg.lT = 0) :
    decideG G cfg g = (.pass, g) := by
  simp [decideG, he, hl]

theorem decideG_error_iff {γ : Type} (G : Gen γ) (cfg : Cfg) (g : γ) :
    (decideG G cfg g).1 = .error ↔ cfg.eT > 0 ∧ (G.nextF g).1 < cfg.eT := by
  unfold decideG
  by_cases he : cfg.eT > 0
  · simp only [he, if_true, true_and]
    by_cases hr : (G.nextF g).1 < cfg.eT
    · simp [hr]
    · simp only [hr, if_false, iff_false]
      split <;> simp
  · have : cfg.eT = 0 := by omega
    simp only [this, Nat.lt_irrefl, if_false, Nat.not_lt_zero, false_and, iff_false]
    split <;> simp

theorem decideG_error_state {γ : Type} (G : Gen γ) (cfg : Cfg) (g : γ) (h : (decideG G cfg g).1 = .error) :
    (decideG G cfg g).2 = (G.nextF g).2 := by
  have ⟨he, hr⟩ := (decideG_error_iff G cfg g).mp h
  unfold decideG
  have hnot : ¬ (cfg.lT > 0 ∧ (G.nextF g).1 ≥ cfg.eT) := by omega
  simp [he, hr, hnot]

theorem decideG_one {γ : Type} (G : Gen γ) (cfg : Cfg) (g : γ) (hL : Lawful cfg G) (he : cfg.eT = P53) :
    decideG G cfg g = (.error, (G.nextF g).2) := by
  have hr := hL.roll g
  have h1 : (decideG G cfg g).1 = .error := (decideG_error_iff G cfg g).mpr ⟨by rw [he]; decide, by rw [he]; exact hr⟩
  have h2 := decideG_error_state G cfg g h1
  exact Prod.ext h1 h2

theorem decideG_latency {γ : Type} (G : Gen γ) (cfg : Cfg) (g : γ) (ms : Nat)
    (h : (decideG G cfg g).1 = .latency ms) :
    (cfg.maxMs > cfg.minMs ∧ ∃ g', ms = (G.nextR cfg.minMs cfg.maxMs g').1) ∨
    (cfg.maxMs ≤ cfg.minMs ∧ ms = cfg.minMs) := by
  unfold decideG at h
  by_cases hlt : (if cfg.eT > 0 then G.nextF g else (P53, g)).1 < cfg.eT
  · simp [hlt] at h
  · simp only [hlt, if_false] at h
    by_cases hc : cfg.lT > 0 ∧ (if cfg.eT > 0 then G.nextF g else (P53, g)).1 ≥ cfg.eT
    · simp only [hc, and_self, if_true] at h
      by_cases hl : (G.nextF (if cfg.eT > 0 then G.nextF g else (P53, g)).2).1 < cfg.lT
      · simp only [hl, if_true] at h
        by_cases hm : cfg.maxMs > cfg.minMs
        · simp only [hm, if_true] at h
          injection h with h
          exact Or.inl ⟨hm, _, h.symm⟩
        · simp only [hm, if_false] at h
          injection h with h
          exact Or.inr ⟨by omega, h.symm⟩
      · simp [hl] at h
    · simp [hc] at h

theorem decideG_latency_range {γ : Type} (G : Gen γ) (cfg : Cfg) (g : γ) (ms : Nat) (hL : Lawful cfg G)
    (h : (decideG G cfg g).1 = .latency ms) :
    (cfg.minMs ≤ cfg.maxMs → cfg.minMs ≤ ms ∧ ms ≤ cfg.maxMs) ∧ (cfg.maxMs ≤ cfg.minMs → ms = cfg.minMs) := by
  rcases decideG_latency G cfg g ms h with ⟨hm, g', rfl⟩ | ⟨hm, rfl⟩
  · exact ⟨fun hle => hL.range hle g', fun hle => by omega⟩
  · exact ⟨fun hle => by omega, fun _ => rfl⟩

/-! ## 2. draws as inputs -/

/-- what the harness reports: the next draws of the generator in state `g` -/
def view {γ : Type} (G : Gen γ) (cfg : Cfg) (g : γ) : Draws :=
  { r1 := (G.nextF g).1
    r2 := (G.nextF (G.nextF g).2).1
    g1 := (G.nextR cfg.minMs cfg.maxMs (G.nextF g).2).1
    g2 := (G.nextR cfg.minMs cfg.maxMs (G.nextF (G.nextF g).2).2).1 }

theorem decideG_view {γ : Type} (G : Gen γ) (cfg : Cfg) (g : γ) :
    (decideDraws cfg (view G cfg g)).1 = (decideG G cfg g).1 := by
  unfold decideDraws decideG scriptGen view
  by_cases he : cfg.eT > 0 <;> by_cases hl : cfg.lT > 0 <;> by_cases hm : cfg.maxMs > cfg.minMs <;>
    simp [he, hl, hm] <;> (repeat' split) <;> simp_all

theorem allowed_view {γ : Type} (G : Gen γ) (cfg : Cfg) (g : γ) (hL : Lawful cfg G) :
    allowed cfg (view G cfg g) = true := by
  unfold allowed view inRange
  have h1 := hL.roll g
  have h2 := hL.roll (G.nextF g).2
  by_cases hm : cfg.maxMs > cfg.minMs
  · have hle : cfg.minMs ≤ cfg.maxMs := by omega
    have a := hL.range hle (G.nextF g).2
    have b := hL.range hle (G.nextF (G.nextF g).2).2
    simp [h1, h2, hm, a, b]
  · simp [h1, h2, hm]

/-- the flat decision in closed form -/
theorem decideDraws_eq (cfg : Cfg) (d : Draws) :
    decideDraws cfg d =
      if cfg.eT > 0 ∧ d.r1 < cfg.eT then (.error, 1)
      else if cfg.lT > 0 then
        if (if cfg.eT > 0 then d.r2 else d.r1) < cfg.lT then
          if cfg.maxMs > cfg.minMs then
            (.latency (if cfg.eT > 0 then d.g2 else d.g1), (if cfg.eT > 0 then 1 else 0) + 2)
          else (.latency cfg.minMs, (if cfg.eT > 0 then 1 else 0) + 1)
        else (.pass, (if cfg.eT > 0 then 1 else 0) + 1)
      else (.pass, if cfg.eT > 0 then 1 else 0) := by
  unfold decideDraws decideG scriptGen
  by_cases he : cfg.eT > 0 <;> by_cases hl : cfg.lT > 0 <;> by_cases hm : cfg.maxMs > cfg.minMs <;>
    simp [he, hl, hm] <;> (repeat' split) <;> simp_all <;> omega

/-! ## 3. the poll-level machine -/

/-- the request an event is about (`probe`/`raw` lines are about none) -/
def about : Ev → Option Nat
  | .innerCall c _ => some c
  | .innerCallX c _ _ _ => some c
  | .innerDone c _ _ => some c
  | .innerDrop c _ => some c
  | .result c _ => some c
  | _ => none

def evsOf (c : Nat) (l : List Ev) : List Ev := l.filter (fun e => about e == some c)

@[simp] theorem evsOf_append (c : Nat) (a b : List Ev) : evsOf c (a ++ b) = evsOf c a ++ evsOf c b := by
  simp [evsOf]

theorem mem_evsOf {c : Nat} {l : List Ev} {e : Ev} : e ∈ evsOf c l ↔ e ∈ l ∧ about e = some c := by
  simp [evsOf]

theorem evsOf_all {c : Nat} {l : List Ev} (h : ∀ e ∈ l, about e = some c) : evsOf c l = l := by
  unfold evsOf
  apply List.filter_eq_self.mpr
  intro e he; simp [h e he]

theorem evsOf_foreign {c c' : Nat} {l : List Ev} (h : ∀ e ∈ l, ∀ x, about e = some x → x = c') (hne : c' ≠ c) :
    evsOf c l = [] := by
  unfold evsOf
  apply List.filter_eq_nil_iff.mpr
  intro e he
  simp only [beq_iff_eq]
  intro hab
  exact hne (h e he c hab).symm

theorem outcomeEvents_about (c k : Nat) (out : Out) : ∀ e ∈ outcomeEvents c k out, about e = some c := by
  intro e he
  cases out <;> simp [outcomeEvents] at he
  all_goals (rcases he with rfl | rfl <;> rfl)

/-- shapes of a finished or cancelled request's trace -/
inductive Final (dm : List (Nat × Decision)) (c : Nat) : List Ev → Prop
  | cancelled : Final dm c []                       -- dropped before any inner call (unpolled or asleep)
  | injected (tag : Nat) (h : lookup dm c = some .error) : Final dm c [.result c (injected tag)]
  | dropped (k : Nat) (h : ∃ dec, lookup dm c = some dec ∧ dec ≠ .error) : Final dm c [.innerCall c k, .innerDrop c k]
  | completed (k : Nat) (out : Out) (h : ∃ dec, lookup dm c = some dec ∧ dec ≠ .error) :
      Final dm c (.innerCall c k :: outcomeEvents c k out)

def Stage (s : State) (c : Nat) : Prop :=
  match lookup s.phase c with
  | none => evsOf c s.log = [] ∧ lookup s.decOf c = none
  | some (.fresh _ _) => evsOf c s.log = [] ∧ lookup s.decOf c = none
  | some (.sleeping _ _) => evsOf c s.log = [] ∧ ∃ ms, lookup s.decOf c = some (.latency ms)
  | some (.inner k _ _) => evsOf c s.log = [.innerCall c k] ∧ ∃ dec, lookup s.decOf c = some dec ∧ dec ≠ .error
  | some .done => Final s.decOf c (evsOf c s.log)

def Inv (s : State) : Prop := ∀ c, Stage s c

theorem lookup_setPhase_same (s : State) (c : Nat) (p : Phase) : lookup (setPhase s c p).phase c = some p := by
  simp [setPhase, lookup]

/-- a helper that works on request `c` leaves the other requests' phase, decision and events alone -/
structure Touches (c : Nat) (s s' : State) : Prop where
  phase : ∀ c', c ≠ c' → lookup s'.phase c' = lookup s.phase c'
  dec : ∀ c', c ≠ c' → lookup s'.decOf c' = lookup s.decOf c'
  log : ∃ evs, s'.log = s.log ++ evs ∧ ∀ e ∈ evs, ∀ x, about e = some x → x = c

theorem Touches.refl (c : Nat) (s : State) : Touches c s s :=
  ⟨fun _ _ => rfl, fun _ _ => rfl, ⟨[], by simp, by simp⟩⟩

theorem Touches.trans {c : Nat} {s1 s2 s3 : State} (h1 : Touches c s1 s2) (h2 : Touches c s2 s3) :
    Touches c s1 s3 := by
  refine ⟨fun c' hne => by rw [h2.phase c' hne, h1.phase c' hne],
          fun c' hne => by rw [h2.dec c' hne, h1.dec c' hne], ?_⟩
  obtain ⟨e1, hl1, ha1⟩ := h1.log
  obtain ⟨e2, hl2, ha2⟩ := h2.log
  refine ⟨e1 ++ e2, by rw [hl2, hl1, List.append_assoc], ?_⟩
  intro e he
  rcases List.mem_append.mp he with h | h
  · exact ha1 e h
  · exact ha2 e h

theorem touches_setPhase (c : Nat) (s : State) (p : Phase) : Touches c s (setPhase s c p) :=
  ⟨fun c' hne => by simp [setPhase, lookup, hne], fun _ _ => rfl, ⟨[], by simp [setPhase], by simp⟩⟩

theorem touches_emit (c : Nat) (s : State) (evs : List Ev) (h : ∀ e ∈ evs, ∀ x, about e = some x → x = c) :
    Touches c s (emit s evs) :=
  ⟨fun _ _ => rfl, fun _ _ => rfl, ⟨evs, rfl, h⟩⟩

theorem touches_record (c : Nat) (s : State) (dec : Decision) (n : Nat) : Touches c s (record s c dec n) :=
  ⟨fun _ _ => rfl, fun c' hne => by simp [record, lookup, hne], ⟨[], by simp [record], by simp⟩⟩

theorem about_of_all {c : Nat} {evs : List Ev} (h : ∀ e ∈ evs, about e = some c) :
    ∀ e ∈ evs, ∀ x, about e = some x → x = c := by
  intro e he x hx; rw [h e he] at hx; injection hx with hx; exact hx.symm

theorem touches_pollInner (s : State) (c k t : Nat) (out : Out) : Touches c s (pollInner s c k t out) := by
  unfold pollInner
  split
  · exact (touches_emit c s _ (about_of_all (outcomeEvents_about c k out))).trans (touches_setPhase c _ _)
  · exact Touches.refl c s

theorem touches_startInner (s : State) (c : Nat) (st : Step) : Touches c s (startInner s c st) := by
  unfold startInner
  refine Touches.trans ?_ (touches_pollInner _ c _ _ _)
  refine Touches.trans (s2 := emit { s with serial := s.serial + 1 } [.innerCall c s.serial]) ?_ (touches_setPhase c _ _)
  exact ⟨fun _ _ => rfl, fun _ _ => rfl,
    ⟨[.innerCall c s.serial], rfl, by intro e he x hx; simp at he; subst he; simp [about] at hx; exact hx.symm⟩⟩

theorem touches_pollSleeping (s : State) (c u : Nat) (st : Step) : Touches c s (pollSleeping s c u st) := by
  unfold pollSleeping
  split
  · exact touches_startInner s c st
  · exact Touches.refl c s

theorem touches_notAllowed (c : Nat) (s : State) : Touches c s (emit s [.raw "choice-not-allowed"]) :=
  touches_emit c s _ (by intro e he x hx; simp at he; subst he; simp [about] at hx)

theorem touches_pollFresh (cfg : Cfg) (s : State) (c tag : Nat) (st : Step) (d : Draws) :
    Touches c s (pollFresh cfg s c tag st d) := by
  unfold pollFresh
  have h0 : Touches c s (checked cfg s d) := by
    unfold checked
    split
    · exact Touches.refl c s
    · exact touches_notAllowed c s
  have h1 := h0.trans (touches_record c _ (decideDraws cfg d).1 (decideDraws cfg d).2)
  generalize (record (checked cfg s d) c (decideDraws cfg d).1 (decideDraws cfg d).2) = s1 at h1
  cases (decideDraws cfg d).1 with
  | error =>
      refine h1.trans ((touches_emit c _ _ ?_).trans (touches_setPhase c _ _))
      intro e he x hx; simp at he; subst he; simp [about] at hx; exact hx.symm
  | latency ms => exact h1.trans ((touches_setPhase c _ _).trans (touches_pollSleeping _ c _ st))
  | pass => exact h1.trans (touches_startInner _ c st)

theorem final_mono {dm dm' : List (Nat × Decision)} {c : Nat} {l : List Ev} (hd : lookup dm' c = lookup dm c)
    (h : Final dm c l) : Final dm' c l := by
  cases h with
  | cancelled => exact Final.cancelled
  | injected tag h => exact Final.injected tag (hd ▸ h)
  | dropped k h => exact Final.dropped k (hd ▸ h)
  | completed k out h => exact Final.completed k out (hd ▸ h)

theorem stage_other {s s' : State} {c c' : Nat} (hne : c ≠ c') (ht : Touches c s s') (h : Stage s c') :
    Stage s' c' := by
  obtain ⟨evs, hl, hab⟩ := ht.log
  have hev : evsOf c' s'.log = evsOf c' s.log := by
    rw [hl, evsOf_append, evsOf_foreign hab hne, List.append_nil]
  have hd := ht.dec c' hne
  unfold Stage at *
  rw [ht.phase c' hne, hev, hd]
  split at h <;> simp_all
  exact final_mono hd h

/-! ### the touched request -/

theorem evsOf_emit_same {c : Nat} {s : State} {evs : List Ev} (h : ∀ e ∈ evs, about e = some c) :
    evsOf c (emit s evs).log = evsOf c s.log ++ evs := by
  simp [emit, evsOf_all h]

theorem stage_pollInner {s : State} {c k t : Nat} {out : Out}
    (hph : lookup s.phase c = some (.inner k t out)) (h : Stage s c) : Stage (pollInner s c k t out) c := by
  unfold pollInner
  split
  · unfold Stage at h ⊢
    rw [hph] at h
    rw [lookup_setPhase_same]
    show Final _ c (evsOf c (emit s (outcomeEvents c k out)).log)
    rw [evsOf_emit_same (outcomeEvents_about c k out), h.1]
    exact Final.completed k out h.2
  · exact h

theorem stage_startInner {s : State} {c : Nat} {st : Step}
    (hev : evsOf c s.log = []) (hd : ∃ dec, lookup s.decOf c = some dec ∧ dec ≠ .error) : Stage (startInner s c st) c := by
  unfold startInner
  apply stage_pollInner (lookup_setPhase_same _ c _)
  unfold Stage
  rw [lookup_setPhase_same]
  refine ⟨?_, hd⟩
  show evsOf c (s.log ++ [Ev.innerCall c s.serial]) = _
  rw [evsOf_append, hev]
  simp [evsOf, about]

theorem stage_pollSleeping {s : State} {c u : Nat} {st : Step}
    (hph : lookup s.phase c = some (.sleeping u st)) (h : Stage s c) : Stage (pollSleeping s c u st) c := by
  unfold pollSleeping
  split
  · unfold Stage at h
    rw [hph] at h
    obtain ⟨hev, ms, hd⟩ := h
    exact stage_startInner hev ⟨_, hd, by simp⟩
  · exact h

theorem stage_pollFresh {cfg : Cfg} {s : State} {c tag : Nat} {st : Step} {d : Draws}
    (hph : lookup s.phase c = some (.fresh tag st)) (h : Stage s c) : Stage (pollFresh cfg s c tag st d) c := by
  unfold Stage at h
  rw [hph] at h
  unfold pollFresh
  -- the state after the allowed-check and `record`: no event about `c`, decision recorded
  have hev0 : evsOf c (checked cfg s d).log = [] := by
    unfold checked
    split
    · exact h.1
    · show evsOf c (s.log ++ [Ev.raw "choice-not-allowed"]) = []
      rw [evsOf_append, h.1]; simp [evsOf, about]
  generalize checked cfg s d = s0 at hev0
  have hev1 : evsOf c (record s0 c (decideDraws cfg d).1 (decideDraws cfg d).2).log = [] := hev0
  have hd1 : lookup (record s0 c (decideDraws cfg d).1 (decideDraws cfg d).2).decOf c = some (decideDraws cfg d).1 := by
    simp [record, lookup]
  generalize (record s0 c (decideDraws cfg d).1 (decideDraws cfg d).2) = s1 at hev1 hd1
  generalize (decideDraws cfg d).1 = dec at hd1
  cases dec with
  | error =>
      unfold enact Stage
      rw [lookup_setPhase_same]
      show Final _ c (evsOf c (s1.log ++ [Ev.result c (injected tag)]))
      rw [evsOf_append, hev1]
      simp only [evsOf, about, List.filter, beq_self_eq_true, List.nil_append]
      exact Final.injected tag hd1
  | latency ms =>
      unfold enact
      apply stage_pollSleeping (lookup_setPhase_same _ c _)
      unfold Stage
      rw [lookup_setPhase_same]
      exact ⟨hev1, ms, hd1⟩
  | pass =>
      unfold enact
      exact stage_startInner hev1 ⟨_, hd1, by simp⟩

theorem inv_of_touches {s s' : State} {c : Nat} (hinv : Inv s) (ht : Touches c s s') (hc : Stage s' c) :
    Inv s' := by
  intro c'
  by_cases hne : c = c'
  · subst hne; exact hc
  · exact stage_other hne ht (hinv c')

theorem step_inv (cfg : Cfg) (s : State) (op : Op) (hinv : Inv s) : Inv (stepS cfg s op) := by
  cases op with
  | adv ms => exact hinv
  | dropsvc => exact hinv
  | arrive c tag st =>
      simp only [stepS]
      split
      · exact hinv
      · rename_i hk
        apply inv_of_touches hinv (touches_setPhase c s _)
        have hnone : lookup s.phase c = none := by
          simp only [known, Bool.or_eq_true, not_or, Bool.not_eq_true, Option.isSome_eq_false_iff, Option.isNone_iff_eq_none] at hk
          exact hk.2
        have := hinv c
        unfold Stage at this ⊢
        rw [hnone] at this
        rw [lookup_setPhase_same]
        exact this
  | poll c d =>
      simp only [stepS]
      split
      · rename_i tag st hph
        split
        · rename_i d
          exact inv_of_touches hinv (touches_pollFresh cfg s c tag st d) (stage_pollFresh hph (hinv c))
        · apply inv_of_touches hinv (touches_notAllowed c s)
          have := hinv c
          have hph' : lookup (emit s [Ev.raw "choice-not-allowed"]).phase c = some (.fresh tag st) := hph
          unfold Stage at this ⊢
          rw [hph] at this
          rw [hph']
          refine ⟨?_, this.2⟩
          show evsOf c (s.log ++ [Ev.raw "choice-not-allowed"]) = []
          rw [evsOf_append, this.1]; simp [evsOf, about]
      · rename_i u st hph
        exact inv_of_touches hinv (touches_pollSleeping s c u st) (stage_pollSleeping hph (hinv c))
      · rename_i k t out hph
        exact inv_of_touches hinv (touches_pollInner s c k t out) (stage_pollInner hph (hinv c))
      · exact hinv
  | drop c =>
      simp only [stepS]
      split
      · rename_i tag st hph
        apply inv_of_touches hinv (touches_setPhase c s _)
        have := hinv c
        unfold Stage at this ⊢
        rw [hph] at this
        rw [lookup_setPhase_same]
        show Final _ c (evsOf c s.log)
        rw [this.1]; exact Final.cancelled
      · rename_i u st hph
        apply inv_of_touches hinv (touches_setPhase c s _)
        have := hinv c
        unfold Stage at this ⊢
        rw [hph] at this
        rw [lookup_setPhase_same]
        show Final _ c (evsOf c s.log)
        rw [this.1]; exact Final.cancelled
      · rename_i k t out hph
        have hab : ∀ e ∈ [Ev.innerDrop c k], about e = some c := by intro e he; simp at he; subst he; rfl
        apply inv_of_touches hinv ((touches_emit c s _ (about_of_all hab)).trans (touches_setPhase c _ _))
        have := hinv c
        unfold Stage at this ⊢
        rw [hph] at this
        rw [lookup_setPhase_same]
        show Final _ c (evsOf c (emit s [Ev.innerDrop c k]).log)
        rw [evsOf_emit_same hab, this.1]
        exact Final.dropped k this.2
      · exact hinv

theorem inv_init : Inv init := by
  intro c; simp [Stage, init, lookup, evsOf]

theorem foldl_inv (cfg : Cfg) (ops : List Op) (s : State) (h : Inv s) : Inv (ops.foldl (stepS cfg) s) := by
  induction ops generalizing s with
  | nil => exact h
  | cons op tl ih => exact ih _ (step_inv cfg s op h)

theorem inv_reachable (cfg : Cfg) (ops : List Op) : Inv (run cfg ops) :=
  foldl_inv cfg ops init inv_init

/-- in every reachable state: a request that reached the inner service has a recorded decision,
and it is not "inject an error" -/
theorem inner_call_decision (cfg : Cfg) (ops : List Op) (c k : Nat) (hmem : Ev.innerCall c k ∈ (run cfg ops).log) :
    ∃ dec, lookup (run cfg ops).decOf c = some dec ∧ dec ≠ .error := by
  have hm : Ev.innerCall c k ∈ evsOf c (run cfg ops).log := mem_evsOf.mpr ⟨hmem, rfl⟩
  have h := inv_reachable cfg ops c
  unfold Stage at h
  split at h
  · rw [h.1] at hm; simp at hm
  · rw [h.1] at hm; simp at hm
  · rw [h.1] at hm; simp at hm
  · exact h.2
  · generalize evsOf c (run cfg ops).log = l at h hm
    cases h with
    | cancelled => simp at hm
    | injected tag h => simp [injected] at hm
    | dropped k' h => exact h
    | completed k' out h => exact h

/-- in every reachable state: a request whose decision was "inject an error" has no inner call -/
theorem error_no_inner_call (cfg : Cfg) (ops : List Op) (c k : Nat)
    (hd : lookup (run cfg ops).decOf c = some .error) : Ev.innerCall c k ∉ (run cfg ops).log := by
  intro hmem
  obtain ⟨dec, h1, h2⟩ := inner_call_decision cfg ops c k hmem
  rw [hd] at h1; injection h1 with h1; exact h2 h1.symm

/-! ### ghost fields: decisions are taken only in first polls -/

theorem pollInner_ghost (s : State) (c k t : Nat) (out : Out) :
    (pollInner s c k t out).decs = s.decs ∧ (pollInner s c k t out).decOf = s.decOf := by
  unfold pollInner; split <;> exact ⟨rfl, rfl⟩

theorem startInner_ghost (s : State) (c : Nat) (st : Step) :
    (startInner s c st).decs = s.decs ∧ (startInner s c st).decOf = s.decOf := by
  unfold startInner
  exact ⟨(pollInner_ghost _ _ _ _ _).1, (pollInner_ghost _ _ _ _ _).2⟩

theorem pollSleeping_ghost (s : State) (c u : Nat) (st : Step) :
    (pollSleeping s c u st).decs = s.decs ∧ (pollSleeping s c u st).decOf = s.decOf := by
  unfold pollSleeping; split
  · exact startInner_ghost s c st
  · exact ⟨rfl, rfl⟩

theorem enact_ghost (s : State) (c tag : Nat) (st : Step) (dec : Decision) :
    (enact s c tag st dec).decs = s.decs ∧ (enact s c tag st dec).decOf = s.decOf := by
  cases dec with
  | error => exact ⟨rfl, rfl⟩
  | latency ms => exact ⟨(pollSleeping_ghost _ _ _ _).1, (pollSleeping_ghost _ _ _ _).2⟩
  | pass => exact startInner_ghost s c st

theorem checked_ghost (cfg : Cfg) (s : State) (d : Draws) :
    (checked cfg s d).decs = s.decs ∧ (checked cfg s d).decOf = s.decOf := by
  unfold checked; split <;> exact ⟨rfl, rfl⟩

theorem pollFresh_decs (cfg : Cfg) (s : State) (c tag : Nat) (st : Step) (d : Draws) :
    (pollFresh cfg s c tag st d).decs = s.decs ++ [(decideDraws cfg d).1] := by
  unfold pollFresh
  rw [(enact_ghost _ _ _ _ _).1]
  show (checked cfg s d).decs ++ _ = _
  rw [(checked_ghost cfg s d).1]

theorem pollFresh_decOf (cfg : Cfg) (s : State) (c tag : Nat) (st : Step) (d : Draws) :
    (pollFresh cfg s c tag st d).decOf = (c, (decideDraws cfg d).1) :: s.decOf := by
  unfold pollFresh
  rw [(enact_ghost _ _ _ _ _).2]
  show (c, _) :: (checked cfg s d).decOf = _
  rw [(checked_ghost cfg s d).2]

def isFresh (s : State) (c : Nat) : Bool :=
  match lookup s.phase c with
  | some (.fresh _ _) => true
  | _ => false

/-- every step other than a first poll with draws leaves the ghost decision fields alone -/
theorem step_ghost_unchanged (cfg : Cfg) (s : State) (op : Op)
    (h : ∀ c d, op = .poll c (some d) → isFresh s c = false) :
    (stepS cfg s op).decs = s.decs ∧ (stepS cfg s op).decOf = s.decOf := by
  cases op with
  | adv ms => exact ⟨rfl, rfl⟩
  | dropsvc => exact ⟨rfl, rfl⟩
  | arrive c tag st => simp only [stepS]; split <;> exact ⟨rfl, rfl⟩
  | drop c => simp only [stepS]; split <;> exact ⟨rfl, rfl⟩
  | poll c d =>
      simp only [stepS]
      split
      · rename_i tag st hph
        cases d with
        | none => exact ⟨rfl, rfl⟩
        | some d =>
            have := h c d rfl
            simp [isFresh, hph] at this
      · exact pollSleeping_ghost _ _ _ _
      · exact pollInner_ghost _ _ _ _ _
      · exact ⟨rfl, rfl⟩

theorem step_fresh (cfg : Cfg) (s : State) (c : Nat) (d : Draws) (h : isFresh s c = true) :
    (stepS cfg s (.poll c (some d))).decs = s.decs ++ [(decideDraws cfg d).1] ∧
    (stepS cfg s (.poll c (some d))).decOf = (c, (decideDraws cfg d).1) :: s.decOf := by
  unfold isFresh at h
  simp only [stepS]
  split at h <;> try (simp at h)
  rename_i tag st hph
  simp only [hph]
  exact ⟨pollFresh_decs cfg s c tag st d, pollFresh_decOf cfg s c tag st d⟩

/-- every recorded decision is `decideDraws` of the draws annotated to some first poll of the run -/
theorem decision_from_draws (cfg : Cfg) (ops : List Op) (c : Nat) (dec : Decision)
    (h : lookup (run cfg ops).decOf c = some dec) :
    ∃ d, Op.poll c (some d) ∈ ops ∧ dec = (decideDraws cfg d).1 := by
  -- generalised over the start state and a superset `all` of the operations
  have gen : ∀ (all ops : List Op) (s : State), (∀ op ∈ ops, op ∈ all) →
      (∀ c dec, lookup s.decOf c = some dec → ∃ d, Op.poll c (some d) ∈ all ∧ dec = (decideDraws cfg d).1) →
      (∀ c dec, lookup (ops.foldl (stepS cfg) s).decOf c = some dec →
        ∃ d, Op.poll c (some d) ∈ all ∧ dec = (decideDraws cfg d).1) := by
    intro all ops
    induction ops with
    | nil => intro s _ hs; exact hs
    | cons op tl ih =>
        intro s hsub hs
        apply ih (stepS cfg s op) (fun o ho => hsub o (List.mem_cons_of_mem _ ho))
        intro c dec hl
        by_cases hf : ∃ c' d, op = .poll c' (some d) ∧ isFresh s c' = true
        · obtain ⟨c', d, hop, hfr⟩ := hf
          subst hop
          rw [(step_fresh cfg s c' d hfr).2] at hl
          simp only [lookup] at hl
          split at hl
          · rename_i heq
            injection hl with hl
            subst heq
            exact ⟨d, hsub _ (List.mem_cons_self ..), hl.symm⟩
          · exact hs c dec hl
        · have hun := step_ghost_unchanged cfg s op (by
            intro c' d hop
            cases hfr : isFresh s c' with
            | false => rfl
            | true => exact absurd ⟨c', d, hop, hfr⟩ hf)
          rw [hun.2] at hl
          exact hs c dec hl
  exact gen ops ops init (fun _ h => h) (by intro c dec h; simp [init, lookup] at h) c dec h

/-! ### the generator threaded through a run: decisions are the seed's stream -/

/-- operations without annotations; the draws of a first poll are the view of the generator -/
inductive ROp
  | arrive (c tag : Nat) (st : Step)
  | poll (c : Nat)
  | drop (c : Nat)
  | adv (ms : Nat)
  | dropsvc

def stepR {γ : Type} (G : Gen γ) (cfg : Cfg) (sg : State × γ) : ROp → State × γ
  | .arrive c tag st => (stepS cfg sg.1 (.arrive c tag st), sg.2)
  | .drop c => (stepS cfg sg.1 (.drop c), sg.2)
  | .adv ms => (stepS cfg sg.1 (.adv ms), sg.2)
  | .dropsvc => (stepS cfg sg.1 .dropsvc, sg.2)
  | .poll c =>
      if isFresh sg.1 c then (stepS cfg sg.1 (.poll c (some (view G cfg sg.2))), (decideG G cfg sg.2).2)
      else (stepS cfg sg.1 (.poll c none), sg.2)

def runR {γ : Type} (G : Gen γ) (cfg : Cfg) (g : γ) (ops : List ROp) : State × γ :=
  ops.foldl (stepR G cfg) (init, g)

/-- generator state after `n` decisions -/
def genAfter {γ : Type} (G : Gen γ) (cfg : Cfg) : γ → Nat → γ
  | g, 0 => g
  | g, n + 1 => genAfter G cfg (decideG G cfg g).2 n

theorem genAfter_succ {γ : Type} (G : Gen γ) (cfg : Cfg) (g : γ) (n : Nat) :
    genAfter G cfg g (n + 1) = (decideG G cfg (genAfter G cfg g n)).2 := by
  induction n generalizing g with
  | zero => rfl
  | succ n ih => exact ih (decideG G cfg g).2

theorem streamG_succ {γ : Type} (G : Gen γ) (cfg : Cfg) (g : γ) (n : Nat) :
    streamG G cfg g (n + 1) = streamG G cfg g n ++ [(decideG G cfg (genAfter G cfg g n)).1] := by
  induction n generalizing g with
  | zero => rfl
  | succ n ih =>
      show (decideG G cfg g).1 :: streamG G cfg (decideG G cfg g).2 (n + 1) = _
      rw [ih (decideG G cfg g).2]; rfl

theorem streamG_length {γ : Type} (G : Gen γ) (cfg : Cfg) (g : γ) (n : Nat) : (streamG G cfg g n).length = n := by
  induction n generalizing g with
  | zero => rfl
  | succ n ih => simp [streamG, ih]

/-- invariant of a run with a threaded generator -/
def Synced {γ : Type} (G : Gen γ) (cfg : Cfg) (g0 : γ) (sg : State × γ) : Prop :=
  sg.1.decs = streamG G cfg g0 sg.1.decs.length ∧ sg.2 = genAfter G cfg g0 sg.1.decs.length

theorem stepR_synced {γ : Type} (G : Gen γ) (cfg : Cfg) (g0 : γ) (sg : State × γ) (op : ROp)
    (h : Synced G cfg g0 sg) : Synced G cfg g0 (stepR G cfg sg op) := by
  have keep : ∀ o : Op, (∀ c d, o = .poll c (some d) → isFresh sg.1 c = false) →
      Synced G cfg g0 (stepS cfg sg.1 o, sg.2) := by
    intro o ho
    have hun := step_ghost_unchanged cfg sg.1 o ho
    unfold Synced
    simp only [hun.1]
    exact h
  cases op with
  | arrive c tag st => exact keep _ (by intro c' d hh; cases hh)
  | drop c => exact keep _ (by intro c' d hh; cases hh)
  | adv ms => exact keep _ (by intro c' d hh; cases hh)
  | dropsvc => exact keep _ (by intro c' d hh; cases hh)
  | poll c =>
      simp only [stepR]
      split
      · rename_i hf
        have hs := (step_fresh cfg sg.1 c (view G cfg sg.2) hf).1
        unfold Synced
        simp only [hs, List.length_append, List.length_cons, List.length_nil]
        rw [decideG_view]
        obtain ⟨h1, h2⟩ := h
        refine ⟨?_, ?_⟩
        · rw [streamG_succ, ← h2, ← h1]
        · rw [genAfter_succ, ← h2]
      · exact keep _ (by intro c' d hh; cases hh)

theorem runR_synced {γ : Type} (G : Gen γ) (cfg : Cfg) (g : γ) (ops : List ROp) :
    Synced G cfg g (runR G cfg g ops) := by
  have gen : ∀ (ops : List ROp) (sg : State × γ), Synced G cfg g sg → Synced G cfg g (ops.foldl (stepR G cfg) sg) := by
    intro ops
    induction ops with
    | nil => intro sg h; exact h
    | cons op tl ih => intro sg h; exact ih _ (stepR_synced G cfg g sg op h)
  exact gen ops (init, g) ⟨rfl, rfl⟩

/-- the first event of `inner.call(req).await` is the inner call, with the next serial -/
theorem startInner_log (s : State) (c : Nat) (st : Step) :
    ∃ rest, (startInner s c st).log = s.log ++ Ev.innerCall c s.serial :: rest := by
  unfold startInner pollInner
  split
  · exact ⟨outcomeEvents c s.serial st.out, by simp [setPhase, emit]⟩
  · exact ⟨[], by simp [setPhase, emit]⟩

/-- a generator within the contract, for non-vacuity examples: a counter; rolls alternate
between 0 and 1 − 2⁻⁵³, range draws return the lower bound -/
def counterGen : Gen Nat where
  nextF := fun n => (if n % 2 = 0 then 0 else P53 - 1, n + 1)
  nextR := fun lo _ n => (lo, n + 1)

theorem equations_realised : True := by
  have := @decideDraws.eq_1
  have := @decideG.eq_1
  have := @enact.eq_1
  have := @enact.eq_2
  have := @enact.eq_3
  have := @pollFresh.eq_1
  have := @pollSleeping.eq_1
  have := @startInner.eq_1
  have := @pollInner.eq_1
  have := @checked.eq_1
  have := @record.eq_1
  have := @emit.eq_1
  have := @setPhase.eq_1
  have := @allowed.eq_1
  have := @inRange.eq_1
  have := @view.eq_1
  have := @scriptGen.eq_1
  have := @injected.eq_1
  trivial

end TR.Chaos
