import TR.Lemmas.Coalesce
/-!
# Coalesce (C11): dropping every service handle (`Op.dropsvc`, `manual dropsvc`)

The leader's call future owns an `Arc` of the in-flight table, so dropping the last
`CoalesceService` handle (and the layer) while calls are in flight changes nothing for them: it
only means that no further `Service::call` can be made. `closeSvc s` is `s` with `svcGone` set;
every operation other than an arrival commutes with it, and an arrival after it does nothing.
-/
namespace TR.Coalesce

/-- `s` after the last service handle has been dropped: no other field changes -/
def closeSvc (s : State) : State := { s with svcGone := true }

def Op.isArrive : Op → Bool
  | .arrive _ _ _ _ => true
  | _ => false

/-- the operations that are still possible without a service handle -/
def noArrivals (ops : List Op) : List Op := ops.filter (fun o => !o.isArrive)

theorem stepS_dropsvc (s : State) : stepS s .dropsvc = closeSvc s := rfl

theorem closeSvc_idem (s : State) : closeSvc (closeSvc s) = closeSvc s := rfl

/-- without a handle nobody can call: the arrival is refused, nothing changes -/
theorem stepS_closeSvc_arrive (s : State) (c key : Nat) (sc : Step) (cp : Bool) :
    stepS (closeSvc s) (.arrive c key sc cp) = closeSvc s := by
  simp [stepS, closeSvc]

theorem finishLeader_closeSvc (s : State) (c key k : Nat) (o : Out) :
    finishLeader (closeSvc s) c key k o = closeSvc (finishLeader s c key k o) := by
  cases o <;> rfl

theorem pollLeader_closeSvc (s : State) (c key k : Nat) :
    pollLeader (closeSvc s) c key k = closeSvc (pollLeader s c key k) := by
  unfold pollLeader
  show (match lookup s.doneAt c, lookup s.script c with
        | some t, some sc =>
            if s.now ≥ t ∧ sc.out ≠ Out.never then
              if s.bomb.contains c ∧ sc.out ≠ Out.panic then clonePanic (closeSvc s) c key k sc.out
              else finishLeader (closeSvc s) c key k sc.out
            else closeSvc s
        | _, _ => closeSvc s) = _
  generalize lookup s.doneAt c = a
  generalize lookup s.script c = b
  cases a <;> cases b <;> try rfl
  rename_i t sc
  show (if s.now ≥ t ∧ sc.out ≠ Out.never then
          if s.bomb.contains c ∧ sc.out ≠ Out.panic then clonePanic (closeSvc s) c key k sc.out
          else finishLeader (closeSvc s) c key k sc.out
        else closeSvc s)
     = closeSvc (if s.now ≥ t ∧ sc.out ≠ Out.never then
          if s.bomb.contains c ∧ sc.out ≠ Out.panic then clonePanic s c key k sc.out
          else finishLeader s c key k sc.out
        else s)
  split
  · split
    · rfl
    · exact finishLeader_closeSvc ..
  · rfl

theorem pollWaiter_closeSvc (s : State) (c l : Nat) :
    pollWaiter (closeSvc s) c l = closeSvc (pollWaiter s c l) := by
  unfold pollWaiter
  show (match lookup s.chan l with
        | some (.sent r) => resolveWaiter (takeWake (closeSvc s) c) c r
        | some .closed => resolveWaiter (takeWake (closeSvc s) c) c .cancelled
        | _ => selfWake (takeWake (closeSvc s) c) c) = _
  generalize lookup s.chan l = x
  cases x with
  | none => rfl
  | some ch => cases ch <;> rfl

/-- every operation other than an arrival does to a state without handles exactly what it does
to the same state with handles -/
theorem stepS_closeSvc_comm (s : State) (op : Op) (h : op.isArrive = false) :
    stepS (closeSvc s) op = closeSvc (stepS s op) := by
  cases op with
  | arrive c key sc cp => simp [Op.isArrive] at h
  | adv ms => rfl
  | dropsvc => rfl
  | bomb c => rfl
  | poll c =>
    simp only [stepS]
    show (if s.gone.contains c then closeSvc s else
          match lookup s.role c with
          | some (.leader key k) => pollLeader (closeSvc s) c key k
          | some (.waiter _ ldr) => pollWaiter (closeSvc s) c ldr
          | _ => closeSvc s) = _
    split
    · rfl
    · generalize lookup s.role c = r
      cases r with
      | none => rfl
      | some ro =>
        cases ro with
        | leader key k => exact pollLeader_closeSvc ..
        | waiter key l => exact pollWaiter_closeSvc ..
        | panicked key => rfl
  | drop c =>
    simp only [stepS]
    show (if s.gone.contains c then closeSvc s else
          match lookup s.role c with
          | some (.leader key k) => dropLeader (closeSvc s) c key k
          | some (.waiter _ _) => dropWaiter (closeSvc s) c
          | _ => closeSvc s) = _
    split
    · rfl
    · generalize lookup s.role c = r
      cases r with
      | none => rfl
      | some ro => cases ro <;> rfl

/-- from a state without handles, a sequence of operations has the effect of the same sequence
with its arrivals deleted -/
theorem foldl_closeSvc (ops : List Op) (s : State) :
    ops.foldl stepS (closeSvc s) = closeSvc ((noArrivals ops).foldl stepS s) := by
  induction ops generalizing s with
  | nil => rfl
  | cons o os ih =>
    cases ho : o.isArrive with
    | true =>
      have : noArrivals (o :: os) = noArrivals os := by simp [noArrivals, List.filter, ho]
      rw [this, List.foldl_cons]
      cases o with
      | arrive c key sc cp => rw [stepS_closeSvc_arrive]; exact ih s
      | _ => simp [Op.isArrive] at ho
    | false =>
      have : noArrivals (o :: os) = o :: noArrivals os := by simp [noArrivals, List.filter, ho]
      rw [this, List.foldl_cons, List.foldl_cons, stepS_closeSvc_comm s o ho]; exact ih _

theorem noArrivals_id {ops : List Op} (h : ∀ op ∈ ops, op.isArrive = false) : noArrivals ops = ops := by
  unfold noArrivals
  rw [List.filter_eq_self]
  intro op hop; simp [h op hop]

theorem noArrivals_append (a b : List Op) : noArrivals (a ++ b) = noArrivals a ++ noArrivals b := by
  simp [noArrivals]

end TR.Coalesce
