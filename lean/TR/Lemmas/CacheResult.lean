import TR.Lemmas.CacheLog
/-!
# Cache (C10): at most one result per caller

`ResInv`: a caller is parked with a cached value, or has an inner call in flight, or neither — never both;
as long as it is parked or in flight the log holds no `result` line for it; the step that delivers its
result removes it from the books. Hence the log holds at most one `result c …` per caller `c`, so "the
response of a hit" (`hit_returns_last_stored_response_of_its_key`) is *the* response of that request.
-/
namespace TR.Cache

def isResOf (c : Nat) : Ev → Bool
  | .result c' _ => c' == c
  | _ => false

theorem mem_del_ne {α : Type} {l : List (Nat × α)} {c : Nat} {q : Nat × α} (h : q ∈ del l c) : q ∈ l ∧ q.1 ≠ c := by
  have := List.mem_filter.mp h
  exact ⟨this.1, by simpa using this.2⟩

theorem res_of_count_zero {evs : List Ev} {c : Nat} (h : evs.countP (isResOf c) = 0) (r : Res) :
    Ev.result c r ∉ evs := by
  intro hm
  have := List.countP_eq_zero.mp h _ hm
  simp [isResOf] at this

theorem count_zero_of_no_res {evs : List Ev} {c : Nat} (h : ∀ r, Ev.result c r ∉ evs) :
    evs.countP (isResOf c) = 0 := by
  apply List.countP_eq_zero.mpr
  intro e he
  cases e <;> simp [isResOf]
  rename_i c' r
  intro hcc
  subst hcc
  exact h r he

structure ResInv (s : State) : Prop where
  hitsSeen  : ∀ q ∈ s.hits, q.1 ∈ s.seen
  pendSeen  : ∀ q ∈ s.pend, q.1 ∈ s.seen
  disj      : ∀ q ∈ s.hits, ∀ q' ∈ s.pend, q.1 ≠ q'.1
  resSeen   : ∀ c r, Ev.result c r ∈ s.log → c ∈ s.seen
  hitsNoRes : ∀ q ∈ s.hits, ∀ r, Ev.result q.1 r ∉ s.log
  pendNoRes : ∀ q ∈ s.pend, ∀ r, Ev.result q.1 r ∉ s.log
  resOnce   : ∀ c, s.log.countP (isResOf c) ≤ 1

/-- a step that only removes callers from the books and appends at most one result, for a caller `c0` that
is in the books, has no result yet, and is removed by the step -/
theorem ResInv.deliver {s : State} (s' : State) (h : ResInv s) (evs : List Ev) (c0 : Nat)
    (hlog : s'.log = s.log ++ evs) (hseen : s'.seen = s.seen)
    (hh : ∀ q ∈ s'.hits, q ∈ s.hits) (hp : ∀ q ∈ s'.pend, q ∈ s.pend)
    (h1 : ∀ c, c ≠ c0 → evs.countP (isResOf c) = 0) (h2 : evs.countP (isResOf c0) ≤ 1)
    (h3 : evs.countP (isResOf c0) = 0 ∨ ((∀ r, Ev.result c0 r ∉ s.log) ∧ c0 ∈ s.seen ∧
            (∀ q ∈ s'.hits, q.1 ≠ c0) ∧ (∀ q ∈ s'.pend, q.1 ≠ c0))) : ResInv s' := by
  have hnew : ∀ c r, Ev.result c r ∈ evs → c = c0 ∧ (∀ r, Ev.result c0 r ∉ s.log) ∧ c0 ∈ s.seen ∧
      (∀ q ∈ s'.hits, q.1 ≠ c0) ∧ (∀ q ∈ s'.pend, q.1 ≠ c0) := by
    intro c r hm
    have hc : c = c0 := by
      apply Classical.byContradiction
      intro hne
      exact res_of_count_zero (h1 c hne) r hm
    subst hc
    rcases h3 with h3 | h3
    · exact absurd hm (res_of_count_zero h3 r)
    · exact ⟨rfl, h3⟩
  refine ⟨?_, ?_, ?_, ?_, ?_, ?_, ?_⟩
  · intro q hq; rw [hseen]; exact h.hitsSeen q (hh q hq)
  · intro q hq; rw [hseen]; exact h.pendSeen q (hp q hq)
  · intro q hq q' hq'; exact h.disj q (hh q hq) q' (hp q' hq')
  · intro c r hm
    rw [hseen]
    rw [hlog] at hm
    rcases List.mem_append.mp hm with hm | hm
    · exact h.resSeen c r hm
    · obtain ⟨rfl, _, hs, _⟩ := hnew c r hm; exact hs
  · intro q hq r hm
    rw [hlog] at hm
    rcases List.mem_append.mp hm with hm | hm
    · exact h.hitsNoRes q (hh q hq) r hm
    · obtain ⟨hc, _, _, hnh, _⟩ := hnew _ r hm; exact hnh q hq hc
  · intro q hq r hm
    rw [hlog] at hm
    rcases List.mem_append.mp hm with hm | hm
    · exact h.pendNoRes q (hp q hq) r hm
    · obtain ⟨hc, _, _, _, hnp⟩ := hnew _ r hm; exact hnp q hq hc
  · intro c
    rw [hlog, List.countP_append]
    by_cases hc : c = c0
    · subst hc
      rcases h3 with h3 | h3
      · have := h.resOnce c; omega
      · have := count_zero_of_no_res h3.1; omega
    · have := h.resOnce c; have := h1 c hc; omega

/-- a new caller enters the books (parked or in flight); the new events contain no result -/
theorem ResInv.enter {s : State} (s' : State) (h : ResInv s) (evs : List Ev) (c : Nat) (hc : c ∉ s.seen)
    (hlog : s'.log = s.log ++ evs) (hseen : s'.seen = c :: s.seen)
    (hh : ∀ q ∈ s'.hits, q ∈ s.hits ∨ q.1 = c) (hp : ∀ q ∈ s'.pend, q ∈ s.pend ∨ q.1 = c)
    (hone : (∀ q ∈ s'.hits, q ∈ s.hits) ∨ (∀ q ∈ s'.pend, q ∈ s.pend))
    (hno : ∀ c' r, Ev.result c' r ∉ evs) : ResInv s' := by
  have hres : ∀ {c' r}, Ev.result c' r ∈ s'.log → Ev.result c' r ∈ s.log := by
    intro c' r hm
    rw [hlog] at hm
    rcases List.mem_append.mp hm with hm | hm
    · exact hm
    · exact absurd hm (hno c' r)
  have hcres : ∀ r, Ev.result c r ∉ s.log := fun r hm => hc (h.resSeen c r hm)
  refine ⟨?_, ?_, ?_, ?_, ?_, ?_, ?_⟩
  · intro q hq
    rw [hseen]
    rcases hh q hq with hq | hq
    · exact List.mem_cons_of_mem _ (h.hitsSeen q hq)
    · rw [hq]; exact List.mem_cons_self
  · intro q hq
    rw [hseen]
    rcases hp q hq with hq | hq
    · exact List.mem_cons_of_mem _ (h.pendSeen q hq)
    · rw [hq]; exact List.mem_cons_self
  · intro q hq q' hq' heq
    rcases hh q hq with g | g <;> rcases hp q' hq' with g' | g'
    · exact h.disj q g q' g' heq
    · exact hc (by rw [← g', ← heq]; exact h.hitsSeen q g)
    · exact hc (by rw [← g, heq]; exact h.pendSeen q' g')
    · rcases hone with ho | ho
      · exact hc (g ▸ h.hitsSeen q (ho q hq))
      · exact hc (g' ▸ h.pendSeen q' (ho q' hq'))
  · intro c' r hm
    rw [hseen]; exact List.mem_cons_of_mem _ (h.resSeen c' r (hres hm))
  · intro q hq r hm
    rcases hh q hq with g | g
    · exact h.hitsNoRes q g r (hres hm)
    · rw [g] at hm; exact hcres r (hres hm)
  · intro q hq r hm
    rcases hp q hq with g | g
    · exact h.pendNoRes q g r (hres hm)
    · rw [g] at hm; exact hcres r (hres hm)
  · intro c'
    rw [hlog, List.countP_append, count_zero_of_no_res (fun r => hno c' r)]
    exact h.resOnce c'

theorem arrive_resinv {cfg : Cfg} {s : State} (c key svc : Nat) (sc : Step) (h : ResInv s) :
    ResInv (arrive cfg s c key svc sc) := by
  unfold arrive
  split
  · exact h
  · rename_i hseen
    have hc := mem_seen_of_contains hseen
    simp only []
    split
    · refine h.enter _ [reqEv c key svc] c hc rfl rfl ?_ (fun q hq => Or.inl hq) (Or.inr (fun q hq => hq)) ?_
      · intro q hq
        simp only [arriveHit, emit, List.mem_cons] at hq
        rcases hq with rfl | hq
        · exact Or.inr rfl
        · exact Or.inl hq
      · intro c' r hm; simp only [List.mem_singleton] at hm; exact reqEv_ne_result _ _ _ _ _ hm.symm
    · refine h.enter _ [reqEv c key svc, .innerCall c s.serial] c hc rfl rfl (fun q hq => Or.inl hq) ?_
        (Or.inl (fun q hq => hq)) ?_
      · intro q hq
        simp only [arriveMiss, emit, List.mem_cons] at hq
        rcases hq with rfl | hq
        · exact Or.inr rfl
        · exact Or.inl hq
      · intro c' r hm
        simp only [List.mem_cons, List.not_mem_nil, or_false] at hm
        rcases hm with hm | hm
        · exact reqEv_ne_result _ _ _ _ _ hm.symm
        · cases hm

theorem countP_okEvs (c k : Nat) (b : Bool) (c' : Nat) :
    (okEvs c k b).countP (isResOf c') = if c = c' then 1 else 0 := by
  cases b <;> by_cases hcc : c = c' <;> simp [okEvs, isResOf, hcc]

theorem poll_resinv {cfg : Cfg} {s : State} (c w : Nat) (h : ResInv s) : ResInv (poll cfg s c w) := by
  unfold poll
  split
  · rename_i v hv
    have hm := lookup_mem hv
    refine h.deliver (pollHit s c v) [.result c (.ok v)] c rfl rfl (fun q hq => mem_del hq) (fun q hq => hq)
      ?_ (by simp [isResOf]) (Or.inr ⟨h.hitsNoRes _ hm, h.hitsSeen _ hm, fun q hq => (mem_del_ne hq).2, ?_⟩)
    · intro c' hne; simp [isResOf, Ne.symm hne]
    · intro q hq heq; exact h.disj _ hm q hq heq.symm
  · split
    · rename_i p hp
      have hm := lookup_mem hp
      have hfin : ∀ q ∈ s.hits, q.1 ≠ c := fun q hq heq => h.disj q hq _ hm heq
      have hright : (∀ r, Ev.result c r ∉ s.log) ∧ c ∈ s.seen ∧ (∀ q ∈ s.hits, q.1 ≠ c) ∧
          (∀ q ∈ del s.pend c, q.1 ≠ c) :=
        ⟨h.pendNoRes _ hm, h.pendSeen _ hm, hfin, fun q hq => (mem_del_ne hq).2⟩
      unfold pollPend
      split
      · split
        · refine h.deliver (completeOk cfg s c p w) _ c (completeOk_log cfg s c w p) rfl (fun q hq => hq)
            (fun q hq => mem_del hq) ?_ ?_ (Or.inr hright)
          · intro c' hne; rw [countP_okEvs]; simp [Ne.symm hne]
          · rw [countP_okEvs]; simp
        · refine h.deliver (completeFail s c p _) [.innerDone c p.k p.out, .result c _] c rfl rfl (fun q hq => hq)
            (fun q hq => mem_del hq) ?_ (by simp [isResOf]) (Or.inr hright)
          intro c' hne; simp [isResOf, Ne.symm hne]
        · refine h.deliver (completeFail s c p _) [.innerDone c p.k p.out, .result c _] c rfl rfl (fun q hq => hq)
            (fun q hq => mem_del hq) ?_ (by simp [isResOf]) (Or.inr hright)
          intro c' hne; simp [isResOf, Ne.symm hne]
        · exact h
      · exact h
    · exact h

theorem dropC_resinv {s : State} (c : Nat) (h : ResInv s) : ResInv (dropC s c) := by
  unfold dropC
  split
  · exact h.deliver { s with hits := del s.hits c } [] c (by simp) rfl (fun q hq => mem_del hq) (fun q hq => hq)
      (by simp) (by simp) (Or.inl (by simp))
  · split
    · rename_i p _
      exact h.deliver (emit { s with pend := del s.pend c } [.innerDrop c p.k]) [.innerDrop c p.k] c rfl rfl
        (fun q hq => hq) (fun q hq => mem_del hq) (by simp [isResOf]) (by simp [isResOf]) (Or.inl (by simp [isResOf]))
    · exact h

theorem step_resinv {cfg : Cfg} {s : State} (op : Op) (h : ResInv s) : ResInv (stepS cfg s op) := by
  cases op with
  | adv ms =>
    exact h.deliver { s with now := s.now + ms } [] 0 (by simp) rfl (fun q hq => hq) (fun q hq => hq)
      (by simp) (by simp) (Or.inl (by simp))
  | arrive c key svc sc => exact arrive_resinv c key svc sc h
  | poll c w => exact poll_resinv c w h
  | drop c => exact dropC_resinv c h

theorem init_resinv : ResInv init := by
  refine ⟨?_, ?_, ?_, ?_, ?_, ?_, ?_⟩ <;> simp [init]

theorem resinv_reachable (cfg : Cfg) (ops : List Op) : ResInv (run cfg ops) := by
  unfold run
  suffices ∀ s, ResInv s → ResInv (ops.foldl (stepS cfg) s) from this _ init_resinv
  induction ops with
  | nil => intro s h; exact h
  | cons o os ih => intro s h; exact ih _ (step_resinv o h)

end TR.Cache
