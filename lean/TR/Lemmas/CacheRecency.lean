import TR.Lemmas.CacheLog
/-!
# Cache (C10), LRU: "least recently used" read off the event log

The ghost field `used` of an entry is a tick of the store's private access counter; `SInv.lru` says the LRU
list is sorted by it. Nothing there says what an *access* is in terms of what can be observed. This file
defines recency **from the log**:

* an event of the log is an **access of key `k`** (`IsAccess`) when it is the echo `req c key=k …` of a
  request that was served from the cache (its caller `c` never made an inner call), or the successful
  completion `inner_done c v ok` of a request for `k` (its response is stored at that moment);
  a request that misses — the key is absent, or its entry has expired and is removed — is not an access;
* `AccessedAfter log k k'`: behind the **last** access of `k` in the log there is an access of `k'`;

and proves (`RInv`, for every reachable state under LRU) that every resident key has been accessed and that
the container lists the resident keys most recently accessed first. The victim of an insert into a full
store is the last element of that list.
-/
namespace TR.Cache

/-- event `e` is an access of key `k` (relative to the log it is part of) -/
def IsAccess (log : List Ev) (k : Nat) (e : Ev) : Prop :=
  (∃ c svc, e = reqEv c k svc ∧ ∀ v, Ev.innerCall c v ∉ log) ∨
  (∃ c v, e = Ev.innerDone c v .ok ∧ ReqKey log c k)

/-- `a`, at `log = p ++ a :: q`, is the last access of `k` -/
def LastAccess (log : List Ev) (k : Nat) (p : List Ev) (a : Ev) (q : List Ev) : Prop :=
  log = p ++ a :: q ∧ IsAccess log k a ∧ ∀ b ∈ q, ¬ IsAccess log k b

/-- `k` has been accessed -/
def Accessed (log : List Ev) (k : Nat) : Prop := ∃ p a q, LastAccess log k p a q

/-- `k'` has been accessed after the last access of `k` -/
def AccessedAfter (log : List Ev) (k k' : Nat) : Prop :=
  ∃ p a q, LastAccess log k p a q ∧ ∃ b ∈ q, IsAccess log k' b

/-- the echoes and inner calls among `evs` are of callers that `log` does not know -/
def NewCallers (log evs : List Ev) : Prop :=
  FreshReqs log evs ∧ ∀ c v, Ev.innerCall c v ∈ evs → ∀ k svc, reqEv c k svc ∉ log

theorem newCallers_quiet {log evs : List Ev} (hq : ∀ e ∈ evs, Quiet e) : NewCallers log evs :=
  ⟨freshReqs_quiet hq, fun c v hm => absurd rfl ((hq _ hm).2 c v)⟩

/-- whether an event of the log is an access does not change when the log grows by a step -/
theorem isAccess_append_iff {log evs : List Ev} (hn : NewCallers log evs) {e : Ev} (he : e ∈ log) (k : Nat) :
    IsAccess (log ++ evs) k e ↔ IsAccess log k e := by
  constructor
  · rintro (⟨c, svc, rfl, hno⟩ | ⟨c, v, rfl, hr⟩)
    · exact Or.inl ⟨c, svc, rfl, fun v hv => hno v (List.mem_append_left _ hv)⟩
    · exact Or.inr ⟨c, v, rfl, reqKey_of_append hn.1 he hr⟩
  · rintro (⟨c, svc, rfl, hno⟩ | ⟨c, v, rfl, hr⟩)
    · refine Or.inl ⟨c, svc, rfl, ?_⟩
      intro v hv
      rcases List.mem_append.mp hv with hv | hv
      · exact hno v hv
      · exact hn.2 c v hv k svc he
    · exact Or.inr ⟨c, v, rfl, hr.mono evs⟩

theorem LastAccess.append {log evs p q : List Ev} {a : Ev} {k : Nat} (h : LastAccess log k p a q)
    (hn : NewCallers log evs) (hno : ∀ b ∈ evs, ¬ IsAccess (log ++ evs) k b) :
    LastAccess (log ++ evs) k p a (q ++ evs) := by
  obtain ⟨hl, ha, hq⟩ := h
  refine ⟨by rw [hl]; simp, (isAccess_append_iff hn (by rw [hl]; simp) k).mpr ha, ?_⟩
  intro b hb
  rcases List.mem_append.mp hb with hb | hb
  · have : b ∈ log := by rw [hl]; simp [hb]
    exact fun hh => hq b hb ((isAccess_append_iff hn this k).mp hh)
  · exact hno b hb

theorem Accessed.append {log evs : List Ev} {k : Nat} (h : Accessed log k) (hn : NewCallers log evs)
    (hno : ∀ b ∈ evs, ¬ IsAccess (log ++ evs) k b) : Accessed (log ++ evs) k := by
  obtain ⟨p, a, q, hl⟩ := h
  exact ⟨p, a, q ++ evs, hl.append hn hno⟩

theorem AccessedAfter.append {log evs : List Ev} {k k' : Nat} (h : AccessedAfter log k k') (hn : NewCallers log evs)
    (hno : ∀ b ∈ evs, ¬ IsAccess (log ++ evs) k b) : AccessedAfter (log ++ evs) k k' := by
  obtain ⟨p, a, q, hl, b, hb, hbk⟩ := h
  refine ⟨p, a, q ++ evs, hl.append hn hno, b, List.mem_append_left _ hb, ?_⟩
  have : b ∈ log := by rw [hl.1]; simp [hb]
  exact (isAccess_append_iff hn this k').mpr hbk

/-- a key accessed by a new event has been accessed after every key the new events do not access -/
theorem AccessedAfter.of_new {log evs : List Ev} {k k' : Nat} (h : Accessed log k) (hn : NewCallers log evs)
    (hno : ∀ b ∈ evs, ¬ IsAccess (log ++ evs) k b) {a : Ev} (ha : a ∈ evs) (hak : IsAccess (log ++ evs) k' a) :
    AccessedAfter (log ++ evs) k k' := by
  obtain ⟨p, a', q, hl⟩ := h
  exact ⟨p, a', q ++ evs, hl.append hn hno, a, List.mem_append_right _ ha, hak⟩

/-! ## the recency invariant of the LRU container -/

structure RInv (s : State) : Prop where
  acc : ∀ e ∈ s.store, Accessed s.log e.key
  ord : s.store.Pairwise (fun a b => AccessedAfter s.log b.key a.key)

/-- a step whose new events access no key and which at most removes entries -/
theorem RInv.noaccess {s : State} (s' : State) (h : RInv s) (evs : List Ev) (hlog : s'.log = s.log ++ evs)
    (hn : NewCallers s.log evs) (hno : ∀ k, ∀ b ∈ evs, ¬ IsAccess (s.log ++ evs) k b)
    (hsub : s'.store.Sublist s.store) : RInv s' := by
  constructor
  · intro e he
    rw [hlog]
    exact (h.acc e (hsub.subset he)).append hn (hno e.key)
  · rw [hlog]
    exact (h.ord.sublist hsub).imp (fun {a b} hab => hab.append hn (hno b.key))

/-- a step whose new events access exactly key `k`, and which puts `k`'s entry in front of (some of) the
other entries -/
theorem RInv.access {s : State} (s' : State) (h : RInv s) (evs : List Ev) (hlog : s'.log = s.log ++ evs)
    (hn : NewCallers s.log evs) (k : Nat) (hno : ∀ k', k' ≠ k → ∀ b ∈ evs, ¬ IsAccess (s.log ++ evs) k' b)
    (a : Ev) (ha : a ∈ evs) (hak : IsAccess (s.log ++ evs) k a) (hacc : Accessed (s.log ++ evs) k)
    (e' : Entry) (l : List Entry) (hst : s'.store = e' :: l) (hk : e'.key = k) (hsub : l.Sublist s.store)
    (hl : ∀ x ∈ l, x.key ≠ k) : RInv s' := by
  constructor
  · intro e he
    rw [hst, List.mem_cons] at he
    rw [hlog]
    rcases he with rfl | he
    · rw [hk]; exact hacc
    · exact (h.acc e (hsub.subset he)).append hn (hno e.key (hl e he))
  · rw [hst, hlog, List.pairwise_cons]
    constructor
    · intro x hx
      rw [hk]
      exact AccessedAfter.of_new (h.acc x (hsub.subset hx)) hn (hno x.key (hl x hx)) ha hak
    · exact (h.ord.sublist hsub).imp_of_mem (fun {a b} _ hb hab => hab.append hn (hno b.key (hl b hb)))

/-! ### what the events of each step access -/

theorem isAccess_req {log : List Ev} {k c key svc : Nat} (h : IsAccess log k (reqEv c key svc)) :
    k = key ∧ ∀ v, Ev.innerCall c v ∉ log := by
  rcases h with ⟨c', svc', he, hno⟩ | ⟨c', v, he, _⟩
  · obtain ⟨rfl, rfl, _⟩ := reqEv_inj he
    exact ⟨rfl, hno⟩
  · exact absurd he (reqEv_ne_done _ _ _ _ _ _)

theorem not_isAccess_quiet_nodone {log : List Ev} {k : Nat} {e : Ev} (hq : Quiet e)
    (hd : ∀ c v, e ≠ Ev.innerDone c v .ok) : ¬ IsAccess log k e := by
  rintro (⟨c, svc, he, _⟩ | ⟨c, v, he, _⟩)
  · exact hq.1 c k svc he
  · exact hd c v he

theorem not_isAccess_call {log : List Ev} {k c v : Nat} : ¬ IsAccess log k (Ev.innerCall c v) := by
  rintro (⟨c', svc, he, _⟩ | ⟨c', v', he, _⟩)
  · exact reqEv_ne_call _ _ _ _ _ he.symm
  · cases he

/-! ### shapes of the LRU container's operations -/

theorem storeGet_miss_sublist {cfg : Cfg} {now tick k : Nat} {items : List Entry}
    (h : (storeGet cfg now tick items k).2 = none) : (storeGet cfg now tick items k).1.Sublist items := by
  rw [storeGet_eq] at h ⊢
  unfold storeGetC at h ⊢
  split
  · exact List.Sublist.refl _
  · rename_i e hf
    simp only [hf] at h
    split
    · exact rm_sublist k items
    · rename_i hx; simp [hx] at h

theorem storeGet_lru_hit {cfg : Cfg} (hp : cfg.policy = .lru) {now tick k v : Nat} {items : List Entry}
    (h : (storeGet cfg now tick items k).2 = some v) :
    ∃ e : Entry, e.key = k ∧ (storeGet cfg now tick items k).1 = { e with used := tick } :: rm k items := by
  rw [storeGet_eq] at h ⊢
  unfold storeGetC at h ⊢
  split
  · rename_i hf; simp [hf] at h
  · rename_i e hf
    simp only [hf] at h
    have hk := (find_some hf).2
    split
    · rename_i hx; simp [hx] at h
    · exact ⟨e, hk, by rw [hp, ← hk]; rfl⟩

theorem insertLru_shape (cap : Nat) (items : List Entry) (e : Entry) :
    ∃ l, (insertLru cap items e).items = e :: l ∧ l.Sublist items ∧ ∀ x ∈ l, x.key ≠ e.key := by
  unfold insertLru
  split
  · exact ⟨rm e.key items, rfl, rm_sublist _ _, fun x hx => (mem_rm.mp hx).2⟩
  · rename_i hs
    have hn := find_none (find_none_of_not_isSome hs)
    split
    · exact ⟨items.dropLast, rfl, List.dropLast_sublist _, fun x hx => hn x ((List.dropLast_sublist _).subset hx)⟩
    · exact ⟨items, rfl, List.Sublist.refl _, hn⟩

/-- the victim of an LRU insert (new key, full store) is the last entry of the list -/
theorem insertLru_victim_last {cap : Nat} {items : List Entry} {e : Entry} (hc : 0 < cap)
    (hnone : find items e.key = none) (hfull : items.length ≥ cap) :
    ∃ ys v, items = ys ++ [v] ∧ (insertLru cap items e).victim = some v := by
  have hne : items ≠ [] := by intro h0; subst h0; simp at hfull; omega
  obtain ⟨v, hv⟩ : ∃ v, items.getLast? = some v := by
    cases hl : items.getLast? with
    | some v => exact ⟨v, rfl⟩
    | none => exact absurd (List.getLast?_eq_none_iff.mp hl) hne
  obtain ⟨ys, hys⟩ := List.getLast?_eq_some_iff.mp hv
  exact ⟨ys, v, hys, by simp [insertLru, hnone, hfull, hv]⟩

/-! ### helper by helper -/

theorem arriveHit_rinv {cfg : Cfg} (hp : cfg.policy = .lru) {s : State} (c key svc v : Nat) (hc : c ∉ s.seen)
    (hv : (storeGet cfg s.now s.tick s.store key).2 = some v) (hl : LInv s) (h : RInv s) :
    RInv (arriveHit s c key svc (storeGet cfg s.now s.tick s.store key).1 v) := by
  obtain ⟨e, hek, hst⟩ := storeGet_lru_hit hp hv
  have hn : NewCallers s.log [reqEv c key svc] := by
    constructor
    · intro c' k svc' hm v' o hd
      simp only [List.mem_singleton] at hm
      rw [(reqEv_inj hm).1] at hd
      exact hc (hl.doneSeen hd)
    · intro c' v' hm; simp only [List.mem_singleton] at hm; exact absurd hm.symm (reqEv_ne_call _ _ _ _ _)
  have hnocall : ∀ v', Ev.innerCall c v' ∉ s.log ++ [reqEv c key svc] := by
    intro v' hm
    simp only [List.mem_append, List.mem_singleton] at hm
    rcases hm with hm | hm
    · exact hc (hl.callSeen c v' hm).1
    · exact reqEv_ne_call _ _ _ _ _ hm.symm
  have hak : IsAccess (s.log ++ [reqEv c key svc]) key (reqEv c key svc) := Or.inl ⟨c, svc, rfl, hnocall⟩
  refine h.access _ [reqEv c key svc] rfl hn key ?_ (reqEv c key svc) (by simp) hak
    ⟨s.log, _, [], rfl, hak, by simp⟩ { e with used := s.tick } (rm key s.store) hst hek (rm_sublist _ _)
    (fun x hx => (mem_rm.mp hx).2)
  intro k' hk' b hb hacc
  simp only [List.mem_singleton] at hb
  subst hb
  exact hk' (isAccess_req hacc).1

theorem arriveMiss_rinv {cfg : Cfg} {s : State} (c key svc : Nat) (sc : Step) (hc : c ∉ s.seen)
    (hv : (storeGet cfg s.now s.tick s.store key).2 = none) (hl : LInv s) (h : RInv s) :
    RInv (arriveMiss s c key svc (storeGet cfg s.now s.tick s.store key).1 sc) := by
  have hn : NewCallers s.log [reqEv c key svc, .innerCall c s.serial] := by
    constructor
    · intro c' k svc' hm v' o hd
      simp only [List.mem_cons, List.not_mem_nil, or_false] at hm
      rcases hm with hm | hm
      · rw [(reqEv_inj hm).1] at hd
        exact hc (hl.doneSeen hd)
      · exact reqEv_ne_call _ _ _ _ _ hm
    · intro c' v' hm k svc' hr
      simp only [List.mem_cons, List.not_mem_nil, or_false] at hm
      rcases hm with hm | hm
      · exact reqEv_ne_call _ _ _ _ _ hm.symm
      · cases hm
        exact hc (hl.reqSeen c k svc' hr)
  refine h.noaccess _ [reqEv c key svc, .innerCall c s.serial] rfl hn ?_ (storeGet_miss_sublist hv)
  intro k b hb hacc
  simp only [List.mem_cons, List.not_mem_nil, or_false] at hb
  rcases hb with rfl | rfl
  · exact (isAccess_req hacc).2 s.serial (by simp)
  · exact not_isAccess_call hacc

theorem arrive_rinv {cfg : Cfg} (hp : cfg.policy = .lru) {s : State} (c key svc : Nat) (sc : Step)
    (hl : LInv s) (h : RInv s) : RInv (arrive cfg s c key svc sc) := by
  unfold arrive
  split
  · exact h
  · rename_i hseen
    simp only []
    split
    · rename_i v hv
      exact arriveHit_rinv hp c key svc v (mem_seen_of_contains hseen) hv hl h
    · rename_i hv
      exact arriveMiss_rinv c key svc sc (mem_seen_of_contains hseen) hv hl h

theorem rinv_quiet_nodone {s : State} (s' : State) (h : RInv s) (evs : List Ev) (hlog : s'.log = s.log ++ evs)
    (hq : ∀ e ∈ evs, Quiet e) (hd : ∀ e ∈ evs, ∀ c v, e ≠ Ev.innerDone c v .ok)
    (hst : s'.store = s.store) : RInv s' :=
  h.noaccess s' evs hlog (newCallers_quiet hq) (fun _ b hb => not_isAccess_quiet_nodone (hq b hb) (hd b hb))
    (by rw [hst]; exact List.Sublist.refl _)

theorem completeOk_rinv {cfg : Cfg} (hpol : cfg.policy = .lru) {s : State} (c w : Nat) (p : Pend)
    (hp : (c, p) ∈ s.pend) (hl : LInv s) (h : RInv s) : RInv (completeOk cfg s c p w) := by
  have hlog := completeOk_log cfg s c w p
  have hst : (completeOk cfg s c p w).store = (storeInsert cfg s.now s.tick s.store p.key p.k w).items := rfl
  generalize (storeInsert cfg s.now s.tick s.store p.key p.k w).choiceOk = b at hlog
  rw [storeInsert_lru hpol] at hst
  obtain ⟨l, hitems, hsub, hkeys⟩ := insertLru_shape cfg.cap s.store
    { key := p.key, val := p.k, ins := s.now, cnt := 1, used := s.tick, born := s.tick }
  rw [hitems] at hst
  have hq := okEvs_quiet c p.k b
  have hck : ReqKey s.log c p.key := (hl.pendLog _ hp).2
  have hak : IsAccess (s.log ++ okEvs c p.k b) p.key (Ev.innerDone c p.k .ok) :=
    Or.inr ⟨c, p.k, rfl, hck.mono _⟩
  refine h.access _ (okEvs c p.k b) hlog (newCallers_quiet hq) p.key ?_ (Ev.innerDone c p.k .ok)
    (by simp [okEvs]) hak ?_ _ l hst rfl hsub hkeys
  · intro k' hk' e he hacc
    rcases hacc with ⟨c', svc, hee, _⟩ | ⟨c', v, hee, hr⟩
    · exact (hq e he).1 c' k' svc hee
    · subst hee
      obtain ⟨rfl, _, _⟩ := okEvs_done he
      exact hk' (hl.reqFun _ _ _ ((reqKey_append_quiet hq).mp hr) hck)
  · refine ⟨s.log, _, (if b then [] else [Ev.raw "choice-not-allowed"]) ++ [Ev.result c (.ok p.k)], by simp [okEvs], hak, ?_⟩
    intro e he
    have hqe : Quiet e := hq e (by simp only [okEvs, List.append_assoc]; simp [he])
    apply not_isAccess_quiet_nodone hqe
    intro c' v' hee
    subst hee
    cases b <;> simp at he

theorem completeFail_rinv {s : State} (c : Nat) (p : Pend) (r : Res) (ho : p.out ≠ .ok) (h : RInv s) :
    RInv (completeFail s c p r) := by
  refine rinv_quiet_nodone _ h [.innerDone c p.k p.out, .result c r] rfl ?_ ?_ rfl
  · intro e he; simp at he; rcases he with rfl | rfl; exact quiet_done _ _ _; exact quiet_result _ _
  · intro e he c' v' hee
    subst hee
    simp only [List.mem_cons, List.not_mem_nil, or_false, Ev.innerDone.injEq] at he
    rcases he with he | he
    · exact ho he.2.2.symm
    · cases he

theorem pollPend_rinv {cfg : Cfg} (hpol : cfg.policy = .lru) {s : State} (c w : Nat) (p : Pend)
    (hp : (c, p) ∈ s.pend) (hl : LInv s) (h : RInv s) : RInv (pollPend cfg s c p w) := by
  unfold pollPend
  split
  · split
    · exact completeOk_rinv hpol c w p hp hl h
    · rename_i kd ho
      exact completeFail_rinv c p _ (by rw [ho]; simp) h
    · rename_i ho
      exact completeFail_rinv c p _ (by rw [ho]; simp) h
    · exact h
  · exact h

theorem poll_rinv {cfg : Cfg} (hpol : cfg.policy = .lru) {s : State} (c w : Nat) (hl : LInv s) (h : RInv s) :
    RInv (poll cfg s c w) := by
  unfold poll
  split
  · rename_i v _
    exact rinv_quiet_nodone _ h [.result c (.ok v)] rfl
      (by intro e he; simp at he; subst he; exact quiet_result _ _)
      (by intro e he c' v' hee; subst hee; simp at he) rfl
  · split
    · rename_i p hp
      exact pollPend_rinv hpol c w p (lookup_mem hp) hl h
    · exact h

theorem dropC_rinv {s : State} (c : Nat) (h : RInv s) : RInv (dropC s c) := by
  unfold dropC
  split
  · exact rinv_quiet_nodone _ h [] (by simp) (by simp) (by simp) rfl
  · split
    · rename_i p _
      exact rinv_quiet_nodone _ h [.innerDrop c p.k] rfl
        (by intro e he; simp at he; subst he; exact quiet_drop _ _)
        (by intro e he c' v' hee; subst hee; simp at he) rfl
    · exact h

theorem step_rinv {cfg : Cfg} (hpol : cfg.policy = .lru) {s : State} (op : Op) (hl : LInv s) (h : RInv s) :
    RInv (stepS cfg s op) := by
  cases op with
  | adv ms => exact rinv_quiet_nodone _ h [] (by simp [stepS]) (by simp) (by simp) rfl
  | arrive c key svc sc => exact arrive_rinv hpol c key svc sc hl h
  | poll c w => exact poll_rinv hpol c w hl h
  | drop c => exact dropC_rinv c h

theorem init_rinv : RInv init := ⟨by simp [init], by simp [init]⟩

/-- under LRU every reachable state satisfies the recency invariant -/
theorem rinv_reachable (cfg : Cfg) (hpol : cfg.policy = .lru) (ops : List Op) : RInv (run cfg ops) := by
  unfold run
  suffices ∀ s, (Inv1 cfg s ∧ Inv2 s ∧ Inv3 s) → LInv s → RInv s → RInv (ops.foldl (stepS cfg) s) from
    this _ (init_inv cfg) init_linv init_rinv
  induction ops with
  | nil => intro s _ _ hr; exact hr
  | cons o os ih =>
    intro s hi hl hr
    exact ih _ (step_inv o hi.1 hi.2.1 hi.2.2) (step_linv o hl hi.2.1) (step_rinv hpol o hl hr)

end TR.Cache
