import TR.Lemmas.CircuitRefine
/-!
# Sequential histories inside the full model

`seqRun` (CircuitRefine.lean) drives the transcribed `Circuit` directly: `try_acquire`, then `record`. The correspondence
check validates `run` / `stepS` — callers that arrive, are polled, wait for their inner call. `opsOf` writes a sequential
history as the operations a sequential client performs (`arrive c`, `poll c`, `adv dur`, `poll c` per call — exactly what
`gen/circuit.py: gen_seq` generates); `seq_embeds` proves that `run` on those operations ends in the circuit and at the instant
the sequential driver computes, so the refinement theorem is a theorem about `run`.

The client is *patient*: it lets the `dur` ticks its call would have taken pass whatever the answer (the generated histories
advance the clock after a rejected call too). `seqStepP` / `specStepP` are `seqStep` / `specStep` with that one difference:
a rejected `call fail dur` is followed by `wait dur`.
-/
namespace TR.Circuit
open TR.Spec

/-- the scripted outcome that every classifier of the model (`cfg.cls`) classifies as `fail` (with tag 0) -/
def outOf (fail : Bool) : Out := if fail then .err 1 else .ok

theorem classify_outOf (cfg : Cfg) (fail : Bool) : classify cfg (outOf fail) 0 = fail := by
  unfold classify outOf
  cases fail <;> (rcases h : cfg.cls with _ | _ | n <;> simp)

/-- the operations caller `c` performs for one action -/
def opsOfAct (c : Nat) : Act → List Op
  | .call fail dur => [.arrive c ⟨dur, outOf fail⟩ 0, .poll c, .adv dur, .poll c]
  | .wait ms => [.adv ms]
  | .forceOpen => [.forceOpen]
  | .forceClosed => [.forceClosed]
  | .reset => [.reset]

/-- a sequential history as operations of the full model: action number `i` is performed by caller `c + i` -/
def opsOf (c : Nat) : List Act → List Op
  | [] => []
  | a :: as => opsOfAct c a ++ opsOf (c + 1) as

/-- one action of a patient client on the transcribed circuit -/
def seqStepP (cfg : Cfg) (p : Circuit × Nat) : Act → Circuit × Nat
  | .call fail dur =>
      if (tryAcquire cfg p.1 p.2).2.1 then seqStep cfg p (.call fail dur)
      else seqStep cfg (seqStep cfg p (.call fail dur)) (.wait dur)
  | a => seqStep cfg p a

/-- … and on the documented machine -/
def specStepP (cfg : Cfg) (p : Breaker × Nat) : Act → Breaker × Nat
  | .call fail dur =>
      if (p.1.arrive cfg p.2).2 then specStep cfg p (.call fail dur)
      else specStep cfg (specStep cfg p (.call fail dur)) (.wait dur)
  | a => specStep cfg p a

def seqRunP (cfg : Cfg) (acts : List Act) : Circuit × Nat := acts.foldl (seqStepP cfg) ({}, 0)
def specRunP (cfg : Cfg) (acts : List Act) : Breaker × Nat := acts.foldl (specStepP cfg) ({}, 0)

/-- in a sequential history the admission bit of the transcribed circuit is the documented one -/
theorem seq_admission_bit (cfg : Cfg) (p : Circuit × Nat) (h : SeqInv cfg p) :
    (tryAcquire cfg p.1 p.2).2.1 = ((abs p.1).arrive cfg p.2).2 := by
  obtain ⟨_, r2, r3⟩ := tryAcquire_refines cfg p.2 p.1
  by_cases hh : p.1.st = .halfOpen
  · rw [r3 hh]
    have hq := h.quiet hh
    have hlt : p.1.hoAdmitted < cfg.permitted := by omega
    have hst : (abs p.1).st = .halfOpen := hh
    simp [Breaker.arrive, hst, hlt]
  · exact r2 hh

theorem seqStepP_inv (cfg : Cfg) (p : Circuit × Nat) (a : Act) (h : SeqInv cfg p) : SeqInv cfg (seqStepP cfg p a) := by
  cases a with
  | call fail dur =>
    simp only [seqStepP]
    split
    · exact seqStep_inv cfg p _ h
    · exact seqStep_inv cfg _ _ (seqStep_inv cfg p _ h)
  | wait ms => exact seqStep_inv cfg p (.wait ms) h
  | forceOpen => exact seqStep_inv cfg p .forceOpen h
  | forceClosed => exact seqStep_inv cfg p .forceClosed h
  | reset => exact seqStep_inv cfg p .reset h

theorem seqStepP_refines (cfg : Cfg) (p : Circuit × Nat) (a : Act) (h : SeqInv cfg p) :
    (abs (seqStepP cfg p a).1, (seqStepP cfg p a).2) = specStepP cfg (abs p.1, p.2) a := by
  cases a with
  | call fail dur =>
    simp only [seqStepP, specStepP]
    rw [← seq_admission_bit cfg p h]
    split
    · exact seqStep_refines cfg p _ h
    · rw [seqStep_refines cfg _ _ (seqStep_inv cfg p _ h), seqStep_refines cfg p _ h]
  | wait ms => exact seqStep_refines cfg p (.wait ms) h
  | forceOpen => exact seqStep_refines cfg p .forceOpen h
  | forceClosed => exact seqStep_refines cfg p .forceClosed h
  | reset => exact seqStep_refines cfg p .reset h

theorem seqP_refines_from (cfg : Cfg) (acts : List Act) (p : Circuit × Nat) (h : SeqInv cfg p) :
    (abs (acts.foldl (seqStepP cfg) p).1, (acts.foldl (seqStepP cfg) p).2) = acts.foldl (specStepP cfg) (abs p.1, p.2) := by
  induction acts generalizing p with
  | nil => rfl
  | cons a as ih =>
    simp only [List.foldl_cons]
    rw [ih _ (seqStepP_inv cfg p a h), seqStepP_refines cfg p a h]

/-! ## the embedding -/

/-- between two actions of a sequential client nobody is in flight, the wrapped service is ready, no health task is queued,
and the callers still to come have not been seen -/
structure Quies (s : State) (c : Nat) : Prop where
  fresh   : s.fresh = []
  running : s.running = []
  falling : s.falling = []
  gate    : s.gate = .up
  seen    : ∀ x ∈ s.seen, x < c

theorem record_own (cfg : Cfg) (c : Circuit) (fail : Bool) (dur now : Nat) (own : Bool) (h : c.st ≠ .halfOpen) :
    record cfg c fail dur now own = record cfg c fail dur now true := by
  rw [record_st_not_half cfg c fail dur now own h, record_st_not_half cfg c fail dur now true h]

theorem not_seen (s : State) (c : Nat) (h : ∀ x ∈ s.seen, x < c) : s.seen.contains c = false := by
  rw [Bool.eq_false_iff]
  intro hc
  have := h c (by simpa using hc)
  omega

theorem due_ms (cfg : Cfg) (hm : cfg.msTicks = 1) (now lat : Nat) : due cfg now lat = now + lat := by
  unfold due
  split
  · omega
  · simp [hm]

/-- the caller's first poll when the breaker admits it and the inner call takes no time: admission, inner call, completion and
the recording of the outcome are one step -/
theorem pollRunning_single (cfg : Cfg) (s : State) (r : Caller) (hr : s.running = [r]) (hd : s.now ≥ r.doneAt)
    (hn : r.out ≠ .never) (hp : r.out ≠ .panic) :
    (pollRunning cfg s r.c).circ = (record cfg s.circ (classify cfg r.out r.tag) (s.now - r.start) s.now
        (decide (r.ep = some s.circ.episode ∧ s.circ.st = .halfOpen))).1 ∧
    (pollRunning cfg s r.c).now = s.now ∧ (pollRunning cfg s r.c).running = [] ∧
    (pollRunning cfg s r.c).fresh = s.fresh ∧ (pollRunning cfg s r.c).falling = s.falling ∧
    (pollRunning cfg s r.c).gate = s.gate ∧ (pollRunning cfg s r.c).seen = s.seen := by
  have hfind : findRunning s.running r.c = some r := by simp [findRunning, hr]
  unfold pollRunning
  simp only [hfind, hd, hn, ne_eq, not_false_eq_true, and_self, if_true]
  unfold complete
  split
  · rename_i h; exact absurd h hp
  · simp [emit, hr]

theorem pollRunning_wait (cfg : Cfg) (s : State) (r : Caller) (hr : s.running = [r]) (hd : ¬ s.now ≥ r.doneAt) :
    pollRunning cfg s r.c = s := by
  have hfind : findRunning s.running r.c = some r := by simp [findRunning, hr]
  unfold pollRunning
  simp [hfind, hd]

theorem poll_nobody (cfg : Cfg) (s : State) (c : Nat) (h1 : s.fresh = []) (h2 : s.running = []) (h3 : s.falling = []) :
    stepS cfg s (.poll c) = s := by
  simp [stepS, findFresh, findFalling, pollRunning, findRunning, h1, h2, h3]

/-- one `call fail dur` of a sequential client, performed on the full model from a quiescent state -/
theorem block_call (cfg : Cfg) (hm : cfg.msTicks = 1) (s : State) (c : Nat) (fail : Bool) (dur : Nat) (hq : Quies s c) :
    Quies ((opsOfAct c (.call fail dur)).foldl (stepS cfg) s) (c + 1) ∧
    (((opsOfAct c (.call fail dur)).foldl (stepS cfg) s).circ, ((opsOfAct c (.call fail dur)).foldl (stepS cfg) s).now)
      = seqStepP cfg (s.circ, s.now) (.call fail dur) := by
  -- the arrival
  have h1 : stepS cfg s (.arrive c ⟨dur, outOf fail⟩ 0)
      = { s with fresh := [{ c := c, sc := ⟨dur, outOf fail⟩, tag := 0 }], seen := c :: s.seen } := by
    simp only [stepS, not_seen s c hq.seen, Bool.false_eq_true, if_false, hq.gate, if_true, hq.fresh, List.nil_append]
  generalize hs1 : ({ s with fresh := [{ c := c, sc := ⟨dur, outOf fail⟩, tag := 0 }], seen := c :: s.seen } : State) = s1 at h1
  have e_circ : s1.circ = s.circ := by rw [← hs1]
  have e_now : s1.now = s.now := by rw [← hs1]
  have e_run : s1.running = [] := by rw [← hs1]; exact hq.running
  have e_fall : s1.falling = [] := by rw [← hs1]; exact hq.falling
  have e_gate : s1.gate = .up := by rw [← hs1]; exact hq.gate
  have e_fresh : s1.fresh = [{ c := c, sc := ⟨dur, outOf fail⟩, tag := 0 }] := by rw [← hs1]
  have e_seen : s1.seen = c :: s.seen := by rw [← hs1]
  have hseen : ∀ x ∈ c :: s.seen, x < c + 1 := by
    intro x hx
    rcases List.mem_cons.mp hx with rfl | hx
    · omega
    · have := hq.seen x hx; omega
  -- the first poll
  have h2 : stepS cfg s1 (.poll c) = pollFresh cfg s1 { c := c, sc := ⟨dur, outOf fail⟩, tag := 0 } := by
    simp [stepS, findFresh, e_fresh]
  simp only [opsOfAct, List.foldl_cons, List.foldl_nil, h1, h2, seqStepP, seqStep]
  unfold pollFresh
  simp only
  cases hok : (tryAcquire cfg s.circ s.now).2.1 with
  | true =>
    have hok1 : (tryAcquire cfg s1.circ s1.now).2.1 = true := by rw [e_circ, e_now]; exact hok
    rw [admitStep_ok cfg s1 _ hok1]
    simp only [if_true]
    generalize hr : (Caller.mk c s1.serial s1.now (due cfg s1.now dur) (outOf fail) 0
      (if (tryAcquire cfg s1.circ s1.now).1.st = .halfOpen then some (tryAcquire cfg s1.circ s1.now).1.episode else none)) = r
    have hrc : r.c = c := by rw [← hr]
    have ha_run : (admitted cfg s1 { c := c, sc := ⟨dur, outOf fail⟩, tag := 0 }).running = [r] := by
      simp [admitted, e_run, hr]
    have ha_circ : (admitted cfg s1 { c := c, sc := ⟨dur, outOf fail⟩, tag := 0 }).circ = (tryAcquire cfg s.circ s.now).1 := by
      simp [admitted, e_circ, e_now]
    have ha_now : (admitted cfg s1 { c := c, sc := ⟨dur, outOf fail⟩, tag := 0 }).now = s.now := by simp [admitted, e_now]
    have ha_fresh : (admitted cfg s1 { c := c, sc := ⟨dur, outOf fail⟩, tag := 0 }).fresh = [] := by
      simp [admitted, e_fresh]
    have ha_fall : (admitted cfg s1 { c := c, sc := ⟨dur, outOf fail⟩, tag := 0 }).falling = [] := by simp [admitted, e_fall]
    have ha_gate : (admitted cfg s1 { c := c, sc := ⟨dur, outOf fail⟩, tag := 0 }).gate = .up := by simp [admitted, e_gate]
    have ha_seen : (admitted cfg s1 { c := c, sc := ⟨dur, outOf fail⟩, tag := 0 }).seen = c :: s.seen := by simp [admitted, e_seen]
    generalize admitted cfg s1 { c := c, sc := ⟨dur, outOf fail⟩, tag := 0 } = s2 at ha_run ha_circ ha_now ha_fresh ha_fall ha_gate ha_seen
    have hout : r.out = outOf fail := by rw [← hr]
    have htag : r.tag = 0 := by rw [← hr]
    have hstart : r.start = s.now := by rw [← hr]; exact e_now
    have hdone : r.doneAt = s.now + dur := by rw [← hr]; simp [due_ms cfg hm, e_now]
    have hnn : r.out ≠ .never := by rw [hout]; unfold outOf; cases fail <;> simp
    have hnp : r.out ≠ .panic := by rw [hout]; unfold outOf; cases fail <;> simp
    have hep : r.ep = if (tryAcquire cfg s.circ s.now).1.st = .halfOpen then some (tryAcquire cfg s.circ s.now).1.episode else none := by
      rw [← hr, e_circ, e_now]
    -- the recording, whenever it happens, is the sequential driver's
    have hrec : ∀ (now : Nat),
        (record cfg (tryAcquire cfg s.circ s.now).1 (classify cfg r.out r.tag) (now - r.start) now
          (decide (r.ep = some (tryAcquire cfg s.circ s.now).1.episode ∧ (tryAcquire cfg s.circ s.now).1.st = .halfOpen))).1
        = (record cfg (tryAcquire cfg s.circ s.now).1 fail (now - s.now) now true).1 := by
      intro now
      rw [hout, htag, classify_outOf, hstart]
      by_cases hh : (tryAcquire cfg s.circ s.now).1.st = .halfOpen
      · rw [hep, if_pos hh]; simp [hh]
      · rw [record_own cfg _ _ _ _ _ hh]
    subst hrc
    by_cases hd0 : dur = 0
    · -- the inner call takes no time: everything happens in the first poll
      subst hd0
      have hd : s2.now ≥ r.doneAt := by rw [ha_now, hdone]; omega
      obtain ⟨p1, p2, p3, p4, p5, p6, p7⟩ := pollRunning_single cfg s2 r ha_run hd hnn hnp
      have hq3 : stepS cfg (stepS cfg (pollRunning cfg s2 r.c) (.adv 0)) (.poll r.c) = pollRunning cfg s2 r.c := by
        have : stepS cfg (pollRunning cfg s2 r.c) (.adv 0) = pollRunning cfg s2 r.c := rfl
        rw [this]
        exact poll_nobody cfg _ _ (by rw [p4, ha_fresh]) p3 (by rw [p5, ha_fall])
      rw [hq3]
      refine ⟨⟨by rw [p4, ha_fresh], p3, by rw [p5, ha_fall], by rw [p6, ha_gate], by rw [p7, ha_seen]; exact hseen⟩, ?_⟩
      rw [p1, p2, ha_circ, ha_now, hrec]
      simp
    · -- the inner call is still running after the first poll; the second poll, `dur` later, finds it finished
      have hd : ¬ s2.now ≥ r.doneAt := by rw [ha_now, hdone]; omega
      rw [pollRunning_wait cfg s2 r ha_run hd]
      have hadv : stepS cfg s2 (.adv dur) = { s2 with now := s2.now + dur } := rfl
      rw [hadv]
      have hpoll : stepS cfg { s2 with now := s2.now + dur } (.poll r.c) = pollRunning cfg { s2 with now := s2.now + dur } r.c := by
        simp [stepS, findFresh, findFalling, ha_fresh, ha_fall]
      rw [hpoll]
      have hd' : ({ s2 with now := s2.now + dur } : State).now ≥ r.doneAt := by
        show s2.now + dur ≥ r.doneAt
        rw [ha_now, hdone]; omega
      obtain ⟨p1, p2, p3, p4, p5, p6, p7⟩ := pollRunning_single cfg { s2 with now := s2.now + dur } r ha_run hd' hnn hnp
      refine ⟨⟨by rw [p4]; exact ha_fresh, p3, by rw [p5]; exact ha_fall, by rw [p6]; exact ha_gate,
        by rw [p7]; show ∀ x ∈ s2.seen, x < r.c + 1; rw [ha_seen]; exact hseen⟩, ?_⟩
      rw [p1, p2]
      show ((record cfg s2.circ _ (s2.now + dur - r.start) (s2.now + dur) _).1, s2.now + dur) = _
      rw [ha_circ, ha_now, hrec]
      simp
  | false =>
    have hok1 : (tryAcquire cfg s1.circ s1.now).2.1 = false := by rw [e_circ, e_now]; exact hok
    -- rejected: answered in this very step; the client lets `dur` pass anyway
    have hrej : (admitStep cfg s1 { c := c, sc := ⟨dur, outOf fail⟩, tag := 0 }).2 = false ∧
        (admitStep cfg s1 { c := c, sc := ⟨dur, outOf fail⟩, tag := 0 }).1.circ = (tryAcquire cfg s.circ s.now).1 ∧
        (admitStep cfg s1 { c := c, sc := ⟨dur, outOf fail⟩, tag := 0 }).1.now = s.now ∧
        (admitStep cfg s1 { c := c, sc := ⟨dur, outOf fail⟩, tag := 0 }).1.fresh = [] ∧
        (admitStep cfg s1 { c := c, sc := ⟨dur, outOf fail⟩, tag := 0 }).1.running = [] ∧
        (admitStep cfg s1 { c := c, sc := ⟨dur, outOf fail⟩, tag := 0 }).1.falling = [] ∧
        (admitStep cfg s1 { c := c, sc := ⟨dur, outOf fail⟩, tag := 0 }).1.gate = .up ∧
        (admitStep cfg s1 { c := c, sc := ⟨dur, outOf fail⟩, tag := 0 }).1.seen = c :: s.seen := by
      unfold admitStep
      simp only [hok1, Bool.false_eq_true, if_false]
      split
      · unfold startFallback
        simp [emit, e_circ, e_now, e_fresh, e_run, e_fall, e_gate, e_seen]
      · simp [emit, e_circ, e_now, e_fresh, e_run, e_fall, e_gate, e_seen]
    obtain ⟨r0, r1, r2, r3, r4, r5, r6, r7⟩ := hrej
    simp only [r0, Bool.false_eq_true, if_false]
    generalize (admitStep cfg s1 { c := c, sc := ⟨dur, outOf fail⟩, tag := 0 }).1 = s2 at r1 r2 r3 r4 r5 r6 r7
    have hadv : stepS cfg s2 (.adv dur) = { s2 with now := s2.now + dur } := rfl
    rw [hadv, poll_nobody cfg { s2 with now := s2.now + dur } c r3 r4 r5]
    refine ⟨⟨r3, r4, r5, r6, by show ∀ x ∈ s2.seen, x < c + 1; rw [r7]; exact hseen⟩, ?_⟩
    show (s2.circ, s2.now + dur) = _
    rw [r1, r2]

theorem block_act (cfg : Cfg) (hm : cfg.msTicks = 1) (s : State) (c : Nat) (a : Act) (hq : Quies s c) :
    Quies ((opsOfAct c a).foldl (stepS cfg) s) (c + 1) ∧
    (((opsOfAct c a).foldl (stepS cfg) s).circ, ((opsOfAct c a).foldl (stepS cfg) s).now) = seqStepP cfg (s.circ, s.now) a := by
  have hseen : ∀ x ∈ s.seen, x < c + 1 := fun x hx => Nat.lt_succ_of_lt (hq.seen x hx)
  cases a with
  | call fail dur => exact block_call cfg hm s c fail dur hq
  | wait ms => exact ⟨⟨hq.fresh, hq.running, hq.falling, hq.gate, hseen⟩, rfl⟩
  | forceOpen => exact ⟨⟨hq.fresh, hq.running, hq.falling, hq.gate, hseen⟩, rfl⟩
  | forceClosed => exact ⟨⟨hq.fresh, hq.running, hq.falling, hq.gate, hseen⟩, rfl⟩
  | reset => exact ⟨⟨hq.fresh, hq.running, hq.falling, hq.gate, hseen⟩, rfl⟩

theorem embeds_from (cfg : Cfg) (hm : cfg.msTicks = 1) (acts : List Act) (s : State) (c : Nat) (hq : Quies s c) :
    (((opsOf c acts).foldl (stepS cfg) s).circ, ((opsOf c acts).foldl (stepS cfg) s).now)
      = acts.foldl (seqStepP cfg) (s.circ, s.now) := by
  induction acts generalizing s c with
  | nil => rfl
  | cons a as ih =>
    obtain ⟨h1, h2⟩ := block_act cfg hm s c a hq
    simp only [opsOf, List.foldl_append, List.foldl_cons]
    rw [ih _ _ h1, h2]

end TR.Circuit
