import TR.Lemmas.Reconnect
import TR.Lemmas.ReconnectHistory
/-!
# Reconnect (C16): construction paths, accessors, several layer values (helper lemmas)

* the two counters of `ReconnectState` that the service writes only in `mark_connected` (`attempts`, `last_connected`):
  what a transition / a step can do to them (`CountOK`), hence `last_connected = 0` and `attempts ≤ #increment_attempts`
  in every reachable state;
* a request that was just polled is never left sleeping past the end of its back-off (`polled_sleeper_not_due`): nothing
  is waited beyond the policy's delay — a zero delay is no wait at all;
* what `config().policy().delay_for_attempt(n)` reports is what the service waits (`deterministic_delay`);
* `connection_errors_only()`: the kinds it accepts (`connAccepts_iff`);
* `ReconnectConfig::default()`: a request never gives up (`expected_default`);
* several layer values: every invariant of one instance holds for each instance of a multi-layer run (`multi_inv`), and a
  step on one instance leaves the others alone (`instOf_other`).
-/
namespace TR.Reconnect

/-! ## the counters `attempts` and `last_connected` -/

/-- what a transition of a call future may do to the counters: `last_connected` stays 0, `attempts` is left alone or
reset -/
def CountOK (w w' : Shared) : Prop := (w.lastConn = 0 → w'.lastConn = 0) ∧ w'.attempts ≤ w.attempts

theorem countOK_refl (w : Shared) : CountOK w w := ⟨id, Nat.le_refl _⟩

theorem countOK_trans {a b d : Shared} (h1 : CountOK a b) (h2 : CountOK b d) : CountOK a d :=
  ⟨fun h => h2.1 (h1.1 h), Nat.le_trans h2.2 h1.2⟩

theorem onError_count {cfg : Cfg} {c : Nat} {st : Caller} {w : Shared} {kd k : Nat} :
    CountOK w (onError cfg c st w kd k).2 := by
  unfold onError
  split
  · simp [CountOK, finish, emit]
  · simp only
    split
    · simp [CountOK, finish, emit, mark]
    · split <;> simp [CountOK, finish, emit, mark]

theorem trans_count {cfg : Cfg} {c : Nat} {st : Caller} {w : Shared} {p : Caller × Shared}
    (ht : trans cfg c st w = some p) : CountOK w p.2 := by
  unfold trans at ht
  split at ht
  · unfold transCalling at ht
    split at ht
    · simp at ht
    · split at ht
      · simp at ht
      · simp at ht; subst ht; simp [CountOK, finish, emit, mark]
      · simp at ht; subst ht; simp [CountOK, finish, emit]
      · simp at ht; subst ht
        rename_i k _ _ _ kd _
        exact @onError_count cfg c st (emit [.done c k (.err kd)] w) kd k
  · unfold transSleeping at ht
    split at ht
    · simp at ht
    · split at ht
      · simp at ht; subst ht; exact countOK_refl w
      · split at ht
        · simp at ht; subst ht; simp [CountOK, finish, emit, mark]
        · simp at ht
  · unfold transReadying at ht
    split at ht
    · simp at ht
    · split at ht
      · simp at ht
      · simp at ht; subst ht; simp [CountOK, startCall, emit, popScript]
      · simp at ht; subst ht; simp [CountOK, finish, emit, popScript]
  · simp at ht

theorem loop_count {cfg : Cfg} {c : Nat} (n : Nat) {st : Caller} {w : Shared} :
    CountOK w (loop cfg c n st w).2 := by
  induction n generalizing st w with
  | zero => exact countOK_refl w
  | succ n ih =>
    unfold loop
    split
    · exact countOK_refl w
    · rename_i st' w' ht
      exact countOK_trans (trans_count ht) ih

def isIncr : Op → Bool
  | .incr => true
  | _ => false

/-- one operation: `last_connected` stays 0; `attempts` grows by exactly one with `increment_attempts` and never
otherwise -/
theorem stepS_count (cfg : Cfg) (s : State) (op : Op) :
    (s.sh.lastConn = 0 → (stepS cfg s op).sh.lastConn = 0) ∧
    (stepS cfg s op).sh.attempts ≤ s.sh.attempts + (if isIncr op then 1 else 0) := by
  cases op with
  | adv ms => exact ⟨id, Nat.le_refl _⟩
  | probe => exact ⟨id, Nat.le_refl _⟩
  | incr => exact ⟨id, Nat.le_refl _⟩
  | inner sc r => exact ⟨id, Nat.le_refl _⟩
  | arrive c plan =>
    simp only [stepS]
    split
    · exact ⟨id, Nat.le_refl _⟩
    · cases hra : readyAns s.sh <;> exact ⟨id, Nat.le_refl _⟩
  | poll c obs =>
    simp only [stepS]
    split
    · rename_i st hst
      have := @loop_count cfg c (fuel st) st { s.sh with obs := obs }
      exact ⟨this.1, this.2⟩
    · exact ⟨id, Nat.le_refl _⟩
  | drop c =>
    simp only [stepS]
    split
    · rename_i st hst
      unfold dropCaller
      split <;> exact ⟨id, Nat.le_refl _⟩
    · exact ⟨id, Nat.le_refl _⟩

theorem foldl_count (cfg : Cfg) (ops : List Op) (s : State) :
    (s.sh.lastConn = 0 → (ops.foldl (stepS cfg) s).sh.lastConn = 0) ∧
    (ops.foldl (stepS cfg) s).sh.attempts ≤ s.sh.attempts + ops.countP isIncr := by
  induction ops generalizing s with
  | nil => exact ⟨id, Nat.le_refl _⟩
  | cons o os ih =>
    have h1 := stepS_count cfg s o
    have h2 := ih (stepS cfg s o)
    refine ⟨fun h => h2.1 (h1.1 h), ?_⟩
    simp only [List.foldl_cons, List.countP_cons]
    have := h2.2
    split at h1 <;> rename_i hi <;> simp [hi] <;> omega

/-- the application's `increment_attempts()` adds one to the counter and touches nothing else -/
theorem incr_only_counts (cfg : Cfg) (s : State) :
    (stepS cfg s .incr).sh.attempts = s.sh.attempts + 1 ∧ (stepS cfg s .incr).sh.conn = s.sh.conn ∧
    (stepS cfg s .incr).sh.log = s.sh.log ∧ (stepS cfg s .incr).callers = s.callers := ⟨rfl, rfl, rfl, rfl⟩

/-! ## nothing is waited beyond the back-off -/

/-- after a poll of request `c`, if `c` is (still) backing off then the end of its back-off lies in the future: a
request whose back-off has ended — in particular one whose policy delay was 0 — has gone on within that poll -/
theorem polled_sleeper_not_due (cfg : Cfg) (s : State) (hs : AllGood cfg s) (c : Nat) (obs : List Nat) (st' : Caller)
    (wake : Nat) (h : lookup (stepS cfg s (.poll c obs)).callers c = some st') (hph : st'.phase = .sleeping wake) :
    (stepS cfg s (.poll c obs)).sh.now < wake := by
  simp only [stepS] at h ⊢
  cases hst : lookup s.callers c with
  | none =>
    simp only [hst] at h
    simp at h
  | some st =>
    simp only [hst] at h ⊢
    rw [lookup_cons] at h
    simp at h
    have hc := pollCaller_complete cfg c st { s.sh with obs := obs }
    have hg : Good cfg (pollCaller cfg c st { s.sh with obs := obs }).1 := loop_good _ (hs c st hst)
    rw [h] at hc hg
    unfold trans at hc
    rw [hph] at hc
    simp only [transSleeping] at hc
    split at hc
    · assumption
    · split at hc
      · simp at hc
      · obtain ⟨_, _, _, _, kd, _, _, _, _, hl, _⟩ := hg.sleeping wake hph
        rw [hl] at hc
        simp at hc

/-- … and if `c` is waiting for the inner service's readiness after its back-off, the inner service is still recovering
from a call (its `poll_ready` is pending): otherwise the poll would have made the retry, or ended the request with the
readiness error -/
theorem polled_readying_inner_pending (cfg : Cfg) (s : State) (c : Nat) (obs : List Nat) (st' : Caller)
    (wake : Nat) (h : lookup (stepS cfg s (.poll c obs)).callers c = some st') (hph : st'.phase = .readying wake) :
    (stepS cfg s (.poll c obs)).sh.now < wake ∨
      (stepS cfg s (.poll c obs)).sh.now < (stepS cfg s (.poll c obs)).sh.busyUntil := by
  simp only [stepS] at h ⊢
  cases hst : lookup s.callers c with
  | none =>
    simp only [hst] at h
    simp at h
  | some st =>
    simp only [hst] at h ⊢
    rw [lookup_cons] at h
    simp at h
    have hc := pollCaller_complete cfg c st { s.sh with obs := obs }
    rw [h] at hc
    unfold trans at hc
    rw [hph] at hc
    simp only [transReadying] at hc
    split at hc
    · left; assumption
    · right
      split at hc
      · rename_i hra
        unfold readyAns at hra
        split at hra
        · assumption
        · split at hra <;> simp at hra
      · simp at hc
      · simp at hc

/-! ## the `result` events of the log are the results of the requests -/

/-- the `result` events of `l'` are those of `l` -/
def SameRes (l l' : List REv) : Prop := ∀ c r, REv.result c r ∈ l' ↔ REv.result c r ∈ l

/-- the `result` events of `l'` are those of `l` and `result c r0` -/
def PlusRes (c : Nat) (r0 : RRes) (l l' : List REv) : Prop :=
  ∀ c' r, REv.result c' r ∈ l' ↔ (REv.result c' r ∈ l ∨ (c' = c ∧ r = r0))

/-- one transition of an unfinished request: it stays unfinished and adds no `result` event, or it finishes with `r0`
and adds exactly `result c r0` -/
def ResStep (c : Nat) (w : Shared) (p : Caller × Shared) : Prop :=
  (p.1.result = none ∧ SameRes w.log p.2.log) ∨
  (∃ r0, p.1.result = some r0 ∧ p.1.phase = .done ∧ PlusRes c r0 w.log p.2.log)

theorem finish_res {c : Nat} {r0 : RRes} {st : Caller} {w w0 : Shared} (h : SameRes w0.log w.log) :
    ResStep c w0 (finish c r0 st w) := by
  refine Or.inr ⟨r0, rfl, rfl, ?_⟩
  intro c' r
  simp only [finish, emit, List.mem_append, List.mem_singleton, REv.result.injEq]
  rw [h c' r]

theorem onError_res {cfg : Cfg} {c : Nat} {st : Caller} {w w0 : Shared} {kd k : Nat} (hr : st.result = none)
    (h : SameRes w0.log w.log) : ResStep c w0 (onError cfg c st w kd k) := by
  unfold onError
  split
  · exact finish_res h
  · simp only
    split
    · exact finish_res (w := mark c .disconnected w) h
    · split
      · exact finish_res (w := mark c .disconnected w) h
      · refine Or.inl ⟨by simpa using hr, ?_⟩
        intro c' r
        simp only [emit, mark, List.mem_append, List.mem_singleton]
        rw [← h c' r]
        simp
      · refine Or.inl ⟨by simpa using hr, ?_⟩
        intro c' r
        simp only [mark]
        exact h c' r

theorem sameRes_emit_nonres (w : Shared) (e : REv) (he : ∀ c r, e ≠ REv.result c r) :
    SameRes w.log (emit [e] w).log := by
  intro c r
  simp only [emit, List.mem_append, List.mem_singleton]
  constructor
  · rintro (h | h)
    · exact h
    · exact absurd h.symm (he c r)
  · exact Or.inl

theorem trans_res {cfg : Cfg} {c : Nat} {st : Caller} {w : Shared} {p : Caller × Shared} (hr : st.result = none)
    (ht : trans cfg c st w = some p) : ResStep c w p := by
  unfold trans at ht
  split at ht
  · rename_i k d o hph
    unfold transCalling at ht
    split at ht
    · simp at ht
    · split at ht
      · simp at ht
      · simp at ht; subst ht
        exact finish_res (w := mark c .connected (emit [.done c k .ok] w)) (w0 := w)
          (sameRes_emit_nonres w _ (by intro _ _ h; cases h))
      · simp at ht; subst ht
        exact finish_res (w := emit [.done c k .panic] w) (w0 := w)
          (sameRes_emit_nonres w _ (by intro _ _ h; cases h))
      · rename_i kd
        simp at ht; subst ht
        exact onError_res hr (sameRes_emit_nonres w _ (by intro _ _ h; cases h))
  · rename_i wk hph
    unfold transSleeping at ht
    split at ht
    · simp at ht
    · split at ht
      · simp at ht; subst ht
        exact Or.inl ⟨hr, fun _ _ => Iff.rfl⟩
      · split at ht
        · simp at ht; subst ht
          exact finish_res (w := mark c .connected w) (w0 := w) (fun _ _ => Iff.rfl)
        · simp at ht
  · rename_i wk hph
    unfold transReadying at ht
    split at ht
    · simp at ht
    · split at ht
      · simp at ht
      · simp at ht; subst ht
        refine Or.inl ⟨by simpa [startCall] using hr, ?_⟩
        intro c' r
        simp [startCall, emit, popScript]
      · simp at ht; subst ht
        exact finish_res (w := emit [.readyErr] (popScript w)) (w0 := w)
          (sameRes_emit_nonres (popScript w) _ (by intro _ _ h; cases h))
  · simp at ht

theorem loop_of_done {cfg : Cfg} {c : Nat} (n : Nat) {st : Caller} {w : Shared} (h : st.phase = .done) :
    loop cfg c n st w = (st, w) := by
  cases n with
  | zero => rfl
  | succ n => unfold loop; simp [trans, h]

/-- a whole poll of request `c`: the `result` events it adds are exactly the result it reaches, if it had none -/
def ResLoop (c : Nat) (st : Caller) (w : Shared) (p : Caller × Shared) : Prop :=
  (p.1.result = st.result ∨ st.result = none) ∧
  ∀ c' r, REv.result c' r ∈ p.2.log ↔ (REv.result c' r ∈ w.log ∨ (c' = c ∧ p.1.result = some r ∧ st.result = none))

theorem loop_res {cfg : Cfg} {c : Nat} (n : Nat) {st : Caller} {w : Shared} (hd : st.result ≠ none → st.phase = .done) :
    ResLoop c st w (loop cfg c n st w) := by
  cases hr : st.result with
  | some r0 =>
    rw [loop_of_done n (hd (by simp [hr]))]
    exact ⟨Or.inl rfl, fun c' r => by simp [hr]⟩
  | none =>
    induction n generalizing st w with
    | zero => exact ⟨Or.inr hr, fun c' r => by simp [loop, hr]⟩
    | succ n ih =>
      unfold loop
      split
      · exact ⟨Or.inr hr, fun c' r => by simp [hr]⟩
      · rename_i st' w' ht
        rcases trans_res hr ht with ⟨h1, h2⟩ | ⟨r0, h1, h2, h3⟩
        · have h1' : st'.result = none := h1
          have := ih (st := st') (w := w') (fun hne => absurd h1' hne) h1'
          refine ⟨Or.inr hr, fun c' r => ?_⟩
          rw [this.2 c' r, h2 c' r]
          simp [h1', hr]
        · have h1' : st'.result = some r0 := h1
          rw [loop_of_done n h2]
          refine ⟨Or.inr hr, fun c' r => ?_⟩
          rw [h3 c' r]
          simp only [h1', hr, Option.some.injEq, and_true]
          constructor
          · rintro (h | ⟨h, h'⟩)
            · exact Or.inl h
            · exact Or.inr ⟨h, h'.symm⟩
          · rintro (h | ⟨h, h'⟩)
            · exact Or.inl h
            · exact Or.inr ⟨h, h'.symm⟩

/-- the log's `result` events are the requests' results -/
def ResOK (s : State) : Prop :=
  ∀ c r, REv.result c r ∈ s.sh.log ↔ ∃ st, lookup s.callers c = some st ∧ st.result = some r

theorem stepS_resOK {cfg : Cfg} {s : State} (op : Op) (hg : AllGood cfg s) (h : ResOK s) : ResOK (stepS cfg s op) := by
  cases op with
  | adv ms => exact h
  | incr => exact h
  | inner sc r => exact h
  | probe =>
    intro c r
    show REv.result c r ∈ (emit [.probe s.sh.conn] s.sh).log ↔ ∃ st, lookup s.callers c = some st ∧ st.result = some r
    rw [← h c r]
    simp [emit]
  | arrive c plan =>
    simp only [stepS]
    split
    · exact h
    · rename_i hnone
      have hno : ∀ r, REv.result c r ∉ s.sh.log := by
        intro r hin
        obtain ⟨st, hl, _⟩ := (h c r).1 hin
        rw [hnone] at hl
        simp at hl
      cases hra : readyAns s.sh <;>
      · intro c' r
        dsimp only
        rw [lookup_cons]
        by_cases hcc : c = c'
        · subst hcc
          simp [startCall, emit, popScript, newCaller, refused, hno]
          try exact eq_comm
        · simp only [hcc, if_false]
          rw [← h c' r]
          have : ¬ c' = c := fun e => hcc e.symm
          simp [startCall, emit, popScript, this]
  | poll c obs =>
    simp only [stepS]
    split
    · rename_i st hst
      have hd : st.result ≠ none → st.phase = .done := by
        intro hne
        cases hr : st.result with
        | none => exact absurd hr hne
        | some r0 => exact ((hg c st hst).final r0 hr).1
      obtain ⟨h1, h2⟩ := @loop_res cfg c (fuel st) st { s.sh with obs := obs } hd
      intro c' r
      rw [lookup_cons]
      show REv.result c' r ∈ (pollCaller cfg c st { s.sh with obs := obs }).2.log ↔ _
      unfold pollCaller
      rw [h2 c' r]
      have hold := h c' r
      by_cases hcc : c = c'
      · subst hcc
        simp only [if_true]
        rw [hold, hst]
        simp only [Option.some.injEq, exists_eq_left', true_and]
        constructor
        · rintro (hh | ⟨hh, _⟩)
          · rcases h1 with h1 | h1
            · rw [h1]; exact hh
            · rw [h1] at hh; simp at hh
          · exact hh
        · intro hh
          rcases h1 with h1 | h1
          · left; rw [← h1]; exact hh
          · right; exact ⟨hh, h1⟩
      · simp only [hcc, if_false]
        rw [hold]
        have : ¬ c' = c := fun e => hcc e.symm
        simp [this]
    · exact h
  | drop c =>
    simp only [stepS]
    split
    · rename_i st hst
      have hlog : ∀ c' r, REv.result c' r ∈ (dropCaller c st s.sh).2.log ↔ REv.result c' r ∈ s.sh.log := by
        intro c' r
        unfold dropCaller
        split <;> simp [emit]
      have hres : (dropCaller c st s.sh).1.result = st.result := by unfold dropCaller; split <;> rfl
      intro c' r
      rw [lookup_cons, hlog c' r, h c' r]
      by_cases hcc : c = c'
      · subst hcc
        simp [hst, hres]
      · simp [hcc]
    · exact h

theorem resOK_reachable (cfg : Cfg) (ops : List Op) : ResOK (run cfg ops) := by
  have key : ∀ (ops : List Op) (s : State), AllGood cfg s → ResOK s → ResOK (ops.foldl (stepS cfg) s) := by
    intro ops
    induction ops with
    | nil => intro s _ h; exact h
    | cons o os ih => intro s hg h; exact ih _ (stepS_allGood o hg) (stepS_resOK o hg h)
  exact key ops _ (by intro c st h; simp [init, lookup] at h) (by intro c r; simp [init, lookup])

/-! ## the first test of `transReadying` is dead -/

/-- a transition of a call future does not move the clock -/
theorem onError_now {cfg : Cfg} {c : Nat} {st : Caller} {w : Shared} {kd k : Nat} :
    (onError cfg c st w kd k).2.now = w.now := by
  unfold onError
  split
  · rfl
  · simp only
    split
    · rfl
    · split <;> rfl

/-- a request waits for readiness only after its back-off is over -/
def TimelyC (st : Caller) (w : Shared) : Prop := ∀ wake, st.phase = .readying wake → wake ≤ w.now

theorem trans_timely {cfg : Cfg} {c : Nat} {st : Caller} {w : Shared} {p : Caller × Shared}
    (ht : trans cfg c st w = some p) : p.2.now = w.now ∧ TimelyC p.1 p.2 := by
  unfold trans at ht
  split at ht
  · unfold transCalling at ht
    split at ht
    · simp at ht
    · split at ht
      · simp at ht
      · simp at ht; subst ht; exact ⟨rfl, fun wk h => by simp [finish] at h⟩
      · simp at ht; subst ht; exact ⟨rfl, fun wk h => by simp [finish] at h⟩
      · rename_i k _ _ _ kd _
        simp at ht; subst ht
        refine ⟨@onError_now cfg c st (emit [.done c k (.err kd)] w) kd k, ?_⟩
        intro wk h
        exfalso
        revert h
        unfold onError
        split
        · simp [finish]
        · simp only
          split
          · simp [finish]
          · split <;> simp [finish]
  · rename_i wk hph
    unfold transSleeping at ht
    split at ht
    · simp at ht
    · rename_i hnow
      split at ht
      · simp at ht; subst ht
        refine ⟨rfl, ?_⟩
        intro wk' h
        simp at h
        show wk' ≤ w.now
        omega
      · split at ht
        · simp at ht; subst ht; exact ⟨rfl, fun wk h => by simp [finish] at h⟩
        · simp at ht
  · unfold transReadying at ht
    split at ht
    · simp at ht
    · split at ht
      · simp at ht
      · simp at ht; subst ht; exact ⟨rfl, fun wk h => by simp [startCall] at h⟩
      · simp at ht; subst ht; exact ⟨rfl, fun wk h => by simp [finish] at h⟩
  · simp at ht

theorem loop_timely {cfg : Cfg} {c : Nat} (n : Nat) {st : Caller} {w : Shared} (h : TimelyC st w) :
    (loop cfg c n st w).2.now = w.now ∧ TimelyC (loop cfg c n st w).1 (loop cfg c n st w).2 := by
  induction n generalizing st w with
  | zero => exact ⟨rfl, h⟩
  | succ n ih =>
    unfold loop
    split
    · exact ⟨rfl, h⟩
    · rename_i st' w' ht
      obtain ⟨h1, h2⟩ := trans_timely ht
      obtain ⟨h3, h4⟩ := ih h2
      exact ⟨h3.trans h1, h4⟩

def Timely (s : State) : Prop := ∀ c st, lookup s.callers c = some st → TimelyC st s.sh

theorem stepS_timely {cfg : Cfg} {s : State} (op : Op) (h : Timely s) : Timely (stepS cfg s op) := by
  cases op with
  | adv ms =>
    intro c st hl wk hph
    have := h c st hl wk hph
    simp only [stepS]
    omega
  | probe => exact h
  | incr => exact h
  | inner sc r => exact h
  | arrive c plan =>
    simp only [stepS]
    split
    · exact h
    · cases hra : readyAns s.sh <;>
      · intro c' st' hl
        dsimp only at hl ⊢
        rw [lookup_cons] at hl
        split at hl
        · simp at hl; rw [← hl]
          intro wk hh
          simp [startCall, newCaller, refused] at hh
        · exact h c' st' hl
  | poll c obs =>
    simp only [stepS]
    split
    · rename_i st hst
      have h0 : TimelyC st { s.sh with obs := obs } := h c st hst
      obtain ⟨h1, h2⟩ := @loop_timely cfg c (fuel st) st { s.sh with obs := obs } h0
      intro c' st' hl
      rw [lookup_cons] at hl
      split at hl
      · simp at hl; rw [← hl]
        exact h2
      · intro wk hph
        have := h c' st' hl wk hph
        show wk ≤ (pollCaller cfg c st { s.sh with obs := obs }).2.now
        unfold pollCaller
        rw [h1]
        exact this
    · exact h
  | drop c =>
    simp only [stepS]
    split
    · rename_i st hst
      have hnow : (dropCaller c st s.sh).2.now = s.sh.now := by unfold dropCaller; split <;> rfl
      intro c' st' hl
      rw [lookup_cons] at hl
      split at hl
      · simp at hl; rw [← hl]
        intro wk hph
        exfalso
        revert hph
        unfold dropCaller
        split <;> simp
      · intro wk hph
        rw [hnow]
        exact h c' st' hl wk hph
    · exact h

theorem timely_reachable (cfg : Cfg) (ops : List Op) : Timely (run cfg ops) := by
  have key : ∀ (ops : List Op) (s : State), Timely s → Timely (ops.foldl (stepS cfg) s) := by
    intro ops
    induction ops with
    | nil => intro s h; exact h
    | cons o os ih => intro s h; exact ih _ (stepS_timely o h)
  exact key ops _ (by intro c st h; simp [init, lookup] at h)

/-! ## the delay the accessor reports is the delay that is waited -/

def Policy.deterministic : Policy → Bool
  | .fixed _ => true
  | .exp _ _ => true
  | .custom _ => true
  | _ => false

theorem deterministic_delay {p : Policy} {a d : Nat} (obs : List Nat) (hd : p.deterministic = true)
    (h : p.allowed a d = true) : nextDelay p a obs = .delay d obs := by
  cases p with
  | none => simp [Policy.deterministic] at hd
  | jitter i c pct => simp [Policy.deterministic] at hd
  | fixed n => simp [Policy.allowed] at h; simp [nextDelay, h]
  | exp i c => simp [Policy.allowed] at h; simp [nextDelay, h]
  | custom f => simp [Policy.allowed] at h; simp [nextDelay, h]

/-! ## `connection_errors_only()` -/

theorem connAccepts_small : ∀ kd, kd < 16 → (connAccepts kd = true ↔ kd ∈ [4, 5, 6, 7, 8, 11, 14]) := by decide

theorem kindText_big (kd : Nat) (h : 16 ≤ kd) : kindText kd = "" := by
  unfold kindText
  split <;> first | omega | rfl

/-- the scripted error kinds that `connection_errors_only()` classifies as connection failures: 4 "Broken pipe (os error
32)", 5 "Connection reset by peer…", 6 "connection aborted", 7 "…is not connected…", 8 "Connection refused…", 11 "BROKEN
PIPE", 14 "upstream said: Connection Refused" — and none of 9 "connection timed out", 10 "disconnected", 12 "connection
 reset" (two blanks), 13 "host unreachable", 15 "brokenpipe", nor any kind without a text -/
theorem connAccepts_iff (kd : Nat) : connAccepts kd = true ↔ kd ∈ [4, 5, 6, 7, 8, 11, 14] := by
  by_cases h : kd < 16
  · exact connAccepts_small kd h
  · have h16 : 16 ≤ kd := by omega
    have : connAccepts kd = false := by
      unfold connAccepts
      rw [kindText_big kd h16]
      decide
    rw [this]
    simp
    omega

/-! ## the default configuration -/

theorem expected_default (hd : CallRec) (n : Nat) (r : RRes) (h : expected defaultCfg hd n = some r) :
    r = .ok hd.k ∨ r = .panic := by
  unfold expected at h
  split at h
  · simp at h; exact Or.inl h.symm
  · simp at h; exact Or.inr h.symm
  · simp at h
  · simp [defaultCfg, exceeded, Policy.has] at h

/-! ## several layer values -/

theorem sync_self (s : State) : sync s.sh.now s.sh.serial s = s := by
  cases s with
  | mk sh callers => cases sh; rfl

/-- the state kept for layer value `j` (before it sees the world's clock and call counter) -/
def stored (m : Multi) (j : Nat) : State := (lookup m.insts j).getD init

theorem instOf_eq (m : Multi) (j : Nat) : instOf m j = sync m.now m.serial (stored m j) := rfl

theorem stored_self (cfg : Cfg) (m : Multi) (i : Nat) (op : Op) :
    stored (stepM cfg m (i, op)) i = stepS cfg (instOf m i) op := by
  simp [stored, stepM, lookup_cons]

theorem stored_other (cfg : Cfg) (m : Multi) (i j : Nat) (op : Op) (h : j ≠ i) :
    stored (stepM cfg m (i, op)) j = stored m j := by
  have : ¬ i = j := fun e => h e.symm
  simp [stored, stepM, lookup_cons, this]

/-- the instance an operation was applied to is the result of the single-layer step -/
theorem instOf_self (cfg : Cfg) (m : Multi) (i : Nat) (op : Op) :
    instOf (stepM cfg m (i, op)) i = stepS cfg (instOf m i) op := by
  rw [instOf_eq, stored_self]
  exact sync_self _

/-- the other instances keep everything but the world's clock and call counter -/
theorem instOf_other (cfg : Cfg) (m : Multi) (i j : Nat) (op : Op) (h : j ≠ i) :
    instOf (stepM cfg m (i, op)) j
      = sync (stepM cfg m (i, op)).now (stepM cfg m (i, op)).serial (stored m j) := by
  rw [instOf_eq, stored_other cfg m i j op h]

/-- a property of single-layer states that does not depend on clock and call counter, holds initially and is preserved
by every single-layer step holds for every instance of every multi-layer run -/
theorem multi_inv {P : State → Prop} (cfg : Cfg) (hsync : ∀ n k s, P s → P (sync n k s)) (hinit : P init)
    (hstep : ∀ s op, P s → P (stepS cfg s op)) (ops : List (Nat × Op)) (j : Nat) :
    P (instOf (runM cfg ops) j) := by
  have key : ∀ (ops : List (Nat × Op)) (m : Multi), (∀ j, P (stored m j)) → ∀ j, P (stored (ops.foldl (stepM cfg) m) j) := by
    intro ops
    induction ops with
    | nil => intro m h; exact h
    | cons o os ih =>
      intro m h
      apply ih
      intro j
      obtain ⟨i, op⟩ := o
      by_cases hj : j = i
      · subst hj
        rw [stored_self]
        exact hstep _ _ (hsync _ _ _ (h j))
      · rw [stored_other cfg m i j op hj]
        exact h j
  rw [instOf_eq]
  apply hsync
  apply key
  intro j
  simp [stored, lookup]
  exact hinit

end TR.Reconnect
