import TR.Lemmas.Chaos
/-!
# Chaos: what every seed's decision stream satisfies in bulk (the oracles of the stress search)

The real-thread stress scenario of the harness (`manual stress`) compares tallies and multisets of
decisions. Under the model's atomicity assumption (the rolls of one request are drawn atomically:
the generator's mutex) the decisions of `k` requests are `streamG G cfg g k` in whatever order the
threads' first polls are serialised; this file proves what that stream looks like at the extremes and
that its tallies always pass the model's check `stressAllowed`.
-/
namespace TR.Chaos

theorem tally_total (l : List Decision) : (tally l).ne + (tally l).nl + (tally l).np = l.length := by
  induction l with
  | nil => rfl
  | cons d tl ih =>
      simp only [tally] at ih ⊢
      cases d <;> simp [List.countP_cons, Decision.isLat] <;> omega

/-- every entry of the stream is the decision of `decideG` in some generator state -/
theorem streamG_mem {γ : Type} (G : Gen γ) (cfg : Cfg) (g : γ) (n : Nat) (d : Decision)
    (h : d ∈ streamG G cfg g n) : ∃ g', d = (decideG G cfg g').1 := by
  induction n generalizing g with
  | zero => simp [streamG] at h
  | succ n ih =>
      simp only [streamG, List.mem_cons] at h
      rcases h with h | h
      · exact ⟨g, h⟩
      · exact ih _ h

theorem decideG_latency_pos {γ : Type} (G : Gen γ) (cfg : Cfg) (g : γ) (ms : Nat)
    (h : (decideG G cfg g).1 = .latency ms) : cfg.lT > 0 := by
  unfold decideG at h
  by_cases hl : cfg.lT > 0
  · exact hl
  · exfalso
    have hn : ¬ (cfg.lT > 0 ∧ (if cfg.eT > 0 then G.nextF g else (P53, g)).1 ≥ cfg.eT) := fun x => hl x.1
    by_cases hlt : (if cfg.eT > 0 then G.nextF g else (P53, g)).1 < cfg.eT
    · simp [hlt] at h
    · simp [hlt, hn] at h

theorem decideG_pass_rate {γ : Type} (G : Gen γ) (cfg : Cfg) (g : γ) (hL : Lawful cfg G)
    (h : (decideG G cfg g).1 = .pass) : cfg.lT ≠ P53 := by
  intro hl
  unfold decideG at h
  by_cases hlt : (if cfg.eT > 0 then G.nextF g else (P53, g)).1 < cfg.eT
  · simp [hlt] at h
  · have hp : (0 : Nat) < P53 := by decide
    have hc : cfg.lT > 0 ∧ (if cfg.eT > 0 then G.nextF g else (P53, g)).1 ≥ cfg.eT := ⟨by omega, by omega⟩
    have hr : (G.nextF (if cfg.eT > 0 then G.nextF g else (P53, g)).2).1 < cfg.lT := by rw [hl]; exact hL.roll _
    simp only [hlt, if_false, hc, and_self, if_true, hr] at h
    by_cases hm : cfg.maxMs > cfg.minMs <;> simp [hm] at h

/-- error rate 1: the stream is "error" throughout, for every seed and every length -/
theorem streamG_all_error {γ : Type} (G : Gen γ) (cfg : Cfg) (g : γ) (hL : Lawful cfg G) (he : cfg.eT = P53)
    (n : Nat) : streamG G cfg g n = List.replicate n .error := by
  induction n generalizing g with
  | zero => rfl
  | succ n ih => simp only [streamG, decideG_one G cfg g hL he, ih, List.replicate_succ]

/-- both rates 0: the stream is "pass" throughout -/
theorem streamG_all_pass {γ : Type} (G : Gen γ) (cfg : Cfg) (g : γ) (he : cfg.eT = 0) (hl : cfg.lT = 0)
    (n : Nat) : streamG G cfg g n = List.replicate n .pass := by
  induction n generalizing g with
  | zero => rfl
  | succ n ih => simp only [streamG, decideG_zero G cfg g he hl, ih, List.replicate_succ]

/-- the tallies of the first `k` decisions of every lawful seed's stream pass the model's check -/
theorem stress_tally_allowed {γ : Type} (G : Gen γ) (cfg : Cfg) (g : γ) (hL : Lawful cfg G) (k : Nat) :
    stressAllowed cfg k (tally (streamG G cfg g k)) = true := by
  have htot := tally_total (streamG G cfg g k)
  rw [streamG_length] at htot
  have h1 : cfg.eT = P53 → (tally (streamG G cfg g k)).ne = k := by
    intro he
    have hall : ∀ d ∈ streamG G cfg g k, (d == Decision.error) = true := by
      intro d hd
      rw [streamG_all_error G cfg g hL he k] at hd
      rw [List.eq_of_mem_replicate hd]; rfl
    have hc := List.countP_eq_length.mpr hall
    simp only [tally]
    rw [hc, streamG_length]
  have h2 : cfg.eT = 0 → (tally (streamG G cfg g k)).ne = 0 := by
    intro he
    simp only [tally, List.countP_eq_zero]
    intro d hd hbad
    obtain ⟨g', rfl⟩ := streamG_mem G cfg g k d hd
    have := (decideG_error_iff G cfg g').mp (by simpa using hbad)
    omega
  have h3 : cfg.lT = 0 → (tally (streamG G cfg g k)).nl = 0 := by
    intro hl
    simp only [tally, List.countP_eq_zero]
    intro d hd hbad
    obtain ⟨g', rfl⟩ := streamG_mem G cfg g k d hd
    cases hdec : (decideG G cfg g').1 with
    | latency ms => have := decideG_latency_pos G cfg g' ms hdec; omega
    | error => rw [hdec] at hbad; simp [Decision.isLat] at hbad
    | pass => rw [hdec] at hbad; simp [Decision.isLat] at hbad
  have h4 : cfg.lT = P53 → (tally (streamG G cfg g k)).np = 0 := by
    intro hl
    simp only [tally, List.countP_eq_zero]
    intro d hd hbad
    obtain ⟨g', rfl⟩ := streamG_mem G cfg g k d hd
    exact decideG_pass_rate G cfg g' hL (by simpa using hbad) hl
  unfold stressAllowed
  simp only [Bool.and_eq_true, Bool.or_eq_true, Bool.not_eq_true', decide_eq_true_eq, decide_eq_false_iff_not]
  refine ⟨⟨⟨⟨htot, ?_⟩, ?_⟩, ?_⟩, ?_⟩
  · by_cases h : cfg.eT = P53
    · exact Or.inr (h1 h)
    · exact Or.inl h
  · by_cases h : cfg.eT = 0
    · exact Or.inr (h2 h)
    · exact Or.inl h
  · by_cases h : cfg.lT = 0
    · exact Or.inr (h3 h)
    · exact Or.inl h
  · by_cases h : cfg.lT = P53
    · exact Or.inr (h4 h)
    · exact Or.inl h

theorem equations_realised_stress : True := by
  have := @tally.eq_1
  have := @stressAllowed.eq_1
  have := @stressLine.eq_1
  have := @parseTally.eq_1
  trivial

end TR.Chaos
