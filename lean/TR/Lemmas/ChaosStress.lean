import TR.Lemmas.Chaos
/-!
# Chaos: what every seed's decision stream satisfies in bulk (the oracles of the stress search)

The real-thread stress scenario of the harness (`manual stress`) compares tallies and multisets of
decisions. Under the model's atomicity assumption (the rolls of one request are drawn atomically:
the generator's mutex) the decisions of `k` requests are `streamG G cfg g k` in whatever order the
threads' first polls are serialised; this file proves what that stream looks like at the extremes and
that its tallies always pass the model's check `stressAllowed`.
-/
namespace TR.Chaos

theorem tally_total (l : List Decision) : (tally l).ne + (tally l).nl + (tally l).np = l.length := by
  induction l with
  | nil => rfl
  | cons d tl ih =>
      simp only [tally] at ih ⊢
      cases d <;> simp [List.countP_cons, Decision.isLat] <;> omega

/-- every entry of the stream is the decision of `decideG` in some generator state -/
theorem streamG_mem {γ : Type} (G : Gen γ) (cfg : Cfg) (g : γ) (n : Nat) (d : Decision)
    (h : d ∈ streamG G cfg g n) : ∃ g', d = (decideG G cfg g').1 := by
  induction n generalizing g with
  | zero => simp [streamG] at h
  | succ n ih =>
      simp only [streamG, List.mem_cons] at h
      rcases h with h | h
      · exact ⟨g, h⟩
      · exact ih _ h

/-- error rate 1: the stream is "error" throughout, for every seed and every length -/
theorem streamG_all_error {γ : Type} (G : Gen γ) (cfg : Cfg) (g : γ) (hL : Lawful cfg G) (he : cfg.eT = P53)
    (n : Nat) : streamG G cfg g n = List.replicate n .error := by
  induction n generalizing g with
  | zero => rfl
  | succ n ih => simp only [streamG, decideG_one G cfg g hL he, ih, List.replicate_succ]

/-- both rates 0: the stream is "pass" throughout -/
theorem streamG_all_pass {γ : Type} (G : Gen γ) (cfg : Cfg) (g : γ) (he : cfg.eT = 0) (hl : cfg.lT = 0)
    (n : Nat) : streamG G cfg g n = List.replicate n .pass := by
  induction n generalizing g with
  | zero => rfl
  | succ n ih => simp only [streamG, decideG_zero G cfg g he hl, ih, List.replicate_succ]

/-- **The model's check of a stress run accepts every list of allowed decisions**, whatever function produced
them: one decision per call; error rate 1 ⇒ all fail; error rate 0 ⇒ none fails; latency rate 0 ⇒ none is delayed;
latency rate 1 ⇒ none passes undelayed. -/
theorem allowed_tally (cfg : Cfg) (l : List Decision) (hall : ∀ d ∈ l, allowedDec cfg d = true) :
    stressAllowed cfg l.length (tally l) = true := by
  have htot := tally_total l
  have h1 : cfg.eT = P53 → (tally l).ne = l.length := by
    intro he
    have hall' : ∀ d ∈ l, (d == Decision.error) = true := by
      intro d hd
      have := hall d hd
      cases d with
      | error => rfl
      | latency ms => simp [allowedDec, he] at this
      | pass => simp [allowedDec, he] at this
    simp only [tally]
    exact List.countP_eq_length.mpr hall'
  have h2 : cfg.eT = 0 → (tally l).ne = 0 := by
    intro he
    simp only [tally, List.countP_eq_zero]
    intro d hd hbad
    have := hall d hd
    have hd' : d = .error := by simpa using hbad
    subst hd'
    simp [allowedDec, he] at this
  have h3 : cfg.lT = 0 → (tally l).nl = 0 := by
    intro hl
    simp only [tally, List.countP_eq_zero]
    intro d hd hbad
    have := hall d hd
    cases d with
    | latency ms => simp [allowedDec, hl] at this
    | error => simp [Decision.isLat] at hbad
    | pass => simp [Decision.isLat] at hbad
  have h4 : cfg.lT = P53 → (tally l).np = 0 := by
    intro hl
    simp only [tally, List.countP_eq_zero]
    intro d hd hbad
    have := hall d hd
    have hd' : d = .pass := by simpa using hbad
    subst hd'
    simp [allowedDec, hl] at this
  unfold stressAllowed
  simp only [Bool.and_eq_true, Bool.or_eq_true, Bool.not_eq_true', decide_eq_true_eq, decide_eq_false_iff_not]
  refine ⟨⟨⟨⟨htot, ?_⟩, ?_⟩, ?_⟩, ?_⟩
  · by_cases h : cfg.eT = P53
    · exact Or.inr (h1 h)
    · exact Or.inl h
  · by_cases h : cfg.eT = 0
    · exact Or.inr (h2 h)
    · exact Or.inl h
  · by_cases h : cfg.lT = 0
    · exact Or.inr (h3 h)
    · exact Or.inl h
  · by_cases h : cfg.lT = P53
    · exact Or.inr (h4 h)
    · exact Or.inl h

/-- the tallies of the first `k` decisions of every lawful seed's stream (today's decision function) pass the
model's check -/
theorem stress_tally_allowed {γ : Type} (G : Gen γ) (cfg : Cfg) (g : γ) (hL : Lawful cfg G) (k : Nat) :
    stressAllowed cfg k (tally (streamG G cfg g k)) = true := by
  have h := allowed_tally cfg (streamG G cfg g k) (by
    intro d hd
    obtain ⟨g', rfl⟩ := streamG_mem G cfg g k d hd
    exact decideG_allowed G cfg g' hL)
  rw [streamG_length] at h
  exact h

theorem equations_realised_stress : True := by
  have := @tally.eq_1
  have := @stressAllowed.eq_1
  have := @stressLine.eq_1
  have := @parseTally.eq_1
  trivial

end TR.Chaos
