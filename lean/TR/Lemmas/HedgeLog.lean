import TR.Lemmas.HedgeTrace
/-!
# Hedge — facts about the timestamped log of reachable states (C12), derived from the bridge `SB`
-/
namespace TR.Hedge

/-! ## the trace is the log; its instants never decrease -/

theorem foldl_fireOne_log (ks : List Fire) : ∀ s : State, ∃ E, (ks.foldl fireOne s).log = s.log ++ E := by
  induction ks with
  | nil => intro s; exact ⟨[], by simp⟩
  | cons k tl ih =>
    intro s
    obtain ⟨E2, h2⟩ := ih (fireOne s k)
    have h1 : ∃ E1, (fireOne s k).log = s.log ++ E1 := by
      cases k with
      | done k => exact ⟨_, rfl⟩
      | rdy c i =>
        show ∃ E1, (readyOne s c i).log = s.log ++ E1
        unfold readyOne
        split
        · exact ⟨[], by simp⟩
        · exact ⟨_, rfl⟩
    obtain ⟨E1, h1⟩ := h1
    exact ⟨E1 ++ E2, by rw [List.foldl_cons, h2, h1, List.append_assoc]⟩

theorem stepS_log (cfg : Cfg) (s : State) (op : Op) : ∃ E, (stepS cfg s op).log = s.log ++ E := by
  cases op with
  | arrive c plan warm =>
    show ∃ E, (arriveS s c plan warm).log = s.log ++ E
    unfold arriveS; split <;> exact ⟨[], by simp⟩
  | poll c =>
    show ∃ E, (pollS cfg s c).log = s.log ++ E
    unfold pollS
    split
    · exact ⟨[], by simp⟩
    · exact ⟨_, rfl⟩
  | drop c =>
    show ∃ E, (dropS s c).log = s.log ++ E
    unfold dropS; split <;> exact ⟨[], by simp⟩
  | adv ms order =>
    show ∃ E, (advS s ms order).log = s.log ++ E
    unfold advS
    dsimp only
    split
    · exact foldl_fireOne_log _ _
    · obtain ⟨E, h⟩ := foldl_fireOne_log (canonicalOrder (due { s with now := s.now + ms }))
        { s with now := s.now + ms, log := s.log ++ [Ev.raw "choice-not-allowed"] }
      exact ⟨[Ev.raw "choice-not-allowed"] ++ E, by rw [h]; simp⟩
  | refused c k v => exact ⟨_, rfl⟩

theorem stepS_now_le (cfg : Cfg) (s : State) (op : Op) : s.now ≤ (stepS cfg s op).now := by
  cases op with
  | arrive c plan warm =>
    show s.now ≤ (arriveS s c plan warm).now
    unfold arriveS; split <;> exact Nat.le_refl _
  | poll c =>
    show s.now ≤ (pollS cfg s c).now
    unfold pollS; split <;> exact Nat.le_refl _
  | drop c =>
    show s.now ≤ (dropS s c).now
    unfold dropS; split <;> exact Nat.le_refl _
  | adv ms order =>
    show s.now ≤ (advS s ms order).now
    unfold advS
    dsimp only
    split
    · rw [foldl_fireOne_now]; exact Nat.le_add_right _ _
    · rw [foldl_fireOne_now]; exact Nat.le_add_right _ _
  | refused c k v => exact Nat.le_refl _

theorem stamp_snd (t : Nat) (evs : List Ev) : (stamp t evs).map (·.2) = evs := by
  simp [stamp, Function.comp_def]

theorem stamp_pairwise (t : Nat) (evs : List Ev) : (stamp t evs).Pairwise (fun x y => x.1 ≤ y.1) := by
  induction evs with
  | nil => exact List.Pairwise.nil
  | cons e es ih =>
    show ((t, e) :: stamp t es).Pairwise _
    rw [List.pairwise_cons]
    exact ⟨fun y hy => by rw [(mem_stamp.mp hy).1]; exact Nat.le_refl _, ih⟩

/-- forgetting the instants gives `State.log`, the log the correspondence check compares -/
theorem trace_log (cfg : Cfg) (ops : List Op) : (trace cfg ops).map (·.2) = (run cfg ops).log := by
  induction ops using snoc_induction with
  | h0 => rfl
  | hs l op ih =>
    obtain ⟨E, hE⟩ := stepS_log cfg (run cfg l) op
    rw [trace_snoc, run_snoc, List.map_append, ih, newEvents_of_log cfg _ op E hE, stamp_snd, hE]

/-- the instants of the trace never decrease, and none lies in the future -/
theorem trace_sorted (cfg : Cfg) (ops : List Op) :
    (trace cfg ops).Pairwise (fun x y => x.1 ≤ y.1) ∧ ∀ x ∈ trace cfg ops, x.1 ≤ (run cfg ops).now := by
  induction ops using snoc_induction with
  | h0 => exact ⟨List.Pairwise.nil, fun _ hx => nomatch hx⟩
  | hs l op ih =>
    rw [trace_snoc, run_snoc]
    have hle := stepS_now_le cfg (run cfg l) op
    refine ⟨?_, ?_⟩
    · rw [List.pairwise_append]
      refine ⟨ih.1, ?_, ?_⟩
      · exact stamp_pairwise _ _
      · intro x hx y hy
        rw [(mem_stamp.mp hy).1]; exact Nat.le_trans (ih.2 x hx) hle
    · intro x hx
      rcases List.mem_append.mp hx with q | q
      · exact Nat.le_trans (ih.2 x q) hle
      · rw [(mem_stamp.mp q).1]; exact Nat.le_refl _

/-! ## reading the bridge off a reachable state -/

theorem bridge_of (cfg : Cfg) (hmax : 1 ≤ cfg.max) (ops : List Op) (c : Nat) (cl : Call)
    (h : lookup (run cfg ops).calls c = some cl) : AB c (trace cfg ops) cl ∧ RB c (trace cfg ops) cl :=
  (bridge_reachable cfg hmax ops).some c cl h

theorem quiet_of (cfg : Cfg) (hmax : 1 ≤ cfg.max) (ops : List Op) (c : Nat)
    (h : lookup (run cfg ops).calls c = none) : Quiet c (trace cfg ops) :=
  (bridge_reachable cfg hmax ops).none c h

/-- what a resolved call's result means (the clause of `ResInv` for the result at hand) -/
theorem result_spec (cfg : Cfg) (hmax : 1 ≤ cfg.max) (ops : List Op) (c : Nat) (cl : Call)
    (h : lookup (run cfg ops).calls c = some cl) (t : Nat) (r : Res) (hr : cl.result = some (t, r)) :
    ResOk cfg cl t r ∧ t ≤ (run cfg ops).now := by
  obtain ⟨c', hm⟩ := lookup_mem h
  have hi := (inv_reachable cfg hmax ops _ hm).rs
  have hp : cl.phase = .done := by
    apply Classical.byContradiction; intro hn
    rw [hi.noRes hn] at hr; cases hr
  obtain ⟨t', r', h1, h2, _, h4⟩ := hi.res hp
  rw [hr] at h1; cases h1
  exact ⟨h4, h2⟩

theorem mem_callResults {c t : Nat} {r : Res} {tr : List (Nat × Ev)} :
    (t, r) ∈ callResults c tr ↔ (t, Ev.result c r) ∈ tr ∧ nonInner r = true := by
  unfold callResults
  rw [List.mem_filterMap]
  constructor
  · rintro ⟨x, hx, hf⟩
    unfold resOf at hf
    split at hf
    · rename_i c' r' he
      split at hf
      · rename_i hc
        simp only [Option.some.injEq, Prod.mk.injEq] at hf
        obtain ⟨rfl, rfl⟩ := hf
        refine ⟨?_, hc.2⟩
        rw [← hc.1, ← he]; exact hx
      · cases hf
    · cases hf
  · rintro ⟨hx, hn⟩
    exact ⟨(t, Ev.result c r), hx, by simp [resOf, hn]⟩

/-- a `HedgeError::Inner` result in the log is the answer to a refused readiness poll of the operation list -/
theorem inner_result_origin (cfg : Cfg) (hmax : 1 ≤ cfg.max) (ops : List Op) (t c k v : Nat)
    (h : (t, Ev.result c (.inner k v)) ∈ trace cfg ops) : Op.refused c k v ∈ ops := by
  induction ops using snoc_induction with
  | h0 => cases h
  | hs l op ih =>
    rw [trace_snoc] at h
    rcases List.mem_append.mp h with q | q
    · exact List.mem_append_left _ (ih q)
    · by_cases hop : ∃ c' k' v', op = .refused c' k' v'
      · obtain ⟨c', k', v', rfl⟩ := hop
        have : newEvents cfg (run cfg l) (.refused c' k' v') = [Ev.result c' (.inner k' v')] :=
          newEvents_of_log _ _ _ _ rfl
        rw [this] at q
        have := (mem_stamp.mp q).2
        simp only [List.mem_singleton, Ev.result.injEq, Res.inner.injEq] at this
        obtain ⟨rfl, rfl, rfl⟩ := this
        simp
      · have hop' : ∀ c k v, op ≠ .refused c k v := fun c k v e => hop ⟨c, k, v, e⟩
        obtain ⟨E, hl, _, ho⟩ := stepS_ok (cfg := cfg) op (bridge_reachable cfg hmax l) (inv_reachable cfg hmax l) hop'
        rw [newEvents_of_log cfg _ op E hl] at q
        obtain ⟨c', hc'⟩ := ho _ (mem_stamp.mp q).2
        exact absurd hc'.2 (by simp [nonInner])

/-- the `result` lines of caller `c`, whatever they carry -/
def resultLines (c : Nat) (tr : List (Nat × Ev)) : List (Nat × Ev) :=
  tr.filter fun x => match x.2 with
    | .result c' _ => decide (c' = c)
    | _ => false

theorem resultLines_length {c : Nat} {tr : List (Nat × Ev)}
    (h : ∀ t k v, (t, Ev.result c (.inner k v)) ∉ tr) : (resultLines c tr).length = (callResults c tr).length := by
  induction tr with
  | nil => rfl
  | cons x tl ih =>
    have ih' := ih (fun t k v hm => h t k v (List.mem_cons_of_mem _ hm))
    obtain ⟨t, e⟩ := x
    unfold resultLines callResults at ih' ⊢
    rw [List.filter_cons, List.filterMap_cons]
    cases e with
    | result c' r =>
      by_cases hc : c' = c
      · subst hc
        have hn : nonInner r = true := by
          cases r with
          | inner k v => exact absurd List.mem_cons_self (h t k v)
          | _ => rfl
        simp [resOf, hn]; exact ih'
      · simp [resOf, hc]; exact ih'
    | _ => simpa [resOf] using ih'

/-- the first element a `filterMap` yields comes from the first element of the list that yields anything -/
theorem filterMap_head {α β : Type} (f : α → Option β) (v : β) : ∀ l : List α, (l.filterMap f).head? = some v →
    ∃ p1 x p2, l = p1 ++ x :: p2 ∧ f x = some v ∧ ∀ y ∈ p1, f y = none
  | [], h => by simp at h
  | a :: tl, h => by
    rw [List.filterMap_cons] at h
    cases hf : f a with
    | some b =>
      rw [hf] at h
      simp only [List.head?_cons, Option.some.injEq] at h
      subst h
      exact ⟨[], a, tl, rfl, hf, fun _ hy => nomatch hy⟩
    | none =>
      rw [hf] at h
      obtain ⟨p1, x, p2, e, hx, hp⟩ := filterMap_head f v tl h
      refine ⟨a :: p1, x, p2, by rw [e]; rfl, hx, ?_⟩
      intro y hy
      rcases List.mem_cons.mp hy with q | q
      · subst q; exact hf
      · exact hp y q

theorem okOf_some {c k : Nat} {x : Nat × Ev} (h : okOf c x = some k) : x.2 = Ev.innerDone c k .ok := by
  unfold okOf at h
  split at h
  · rename_i c' k' he
    split at h
    · rename_i hc; cases h; rw [he, hc]
    · cases h
  · cases h

theorem okOf_none {c : Nat} {x : Nat × Ev} (h : okOf c x = none) : ∀ k, x.2 ≠ Ev.innerDone c k .ok := by
  intro k he
  unfold okOf at h
  rw [he] at h
  simp at h

/-- the serials of the `inner_call` lines are those of `callsOf` on the plain log -/
theorem callPairs_serials (c : Nat) (tr : List (Nat × Ev)) :
    (callPairs c tr).map (·.2) = callsOf c (tr.map (·.2)) := by
  induction tr with
  | nil => rfl
  | cons x tl ih =>
    obtain ⟨t, e⟩ := x
    unfold callPairs callsOf at ih ⊢
    rw [List.filterMap_cons, List.map_cons, List.filterMap_cons]
    cases e with
    | innerCall c' k =>
      by_cases hc : c' = c
      · simp only [pairOf, callOf, hc, if_true, List.map_cons]; rw [ih]
      · simp only [pairOf, callOf, hc, if_false]; exact ih
    | _ => simpa only [pairOf, callOf] using ih

/-- a list splits at an element that occurs in it -/
theorem split_of_mem {α : Type} {x : α} {l : List α} (h : x ∈ l) : ∃ pre post, l = pre ++ x :: post :=
  List.append_of_mem h

/-- in a list sorted by instant, what stands before a line is not later than it -/
theorem sorted_before {tr pre post : List (Nat × Ev)} {x y : Nat × Ev}
    (hs : tr.Pairwise (fun a b => a.1 ≤ b.1)) (e : tr = pre ++ x :: post) (hy : y ∈ pre) : y.1 ≤ x.1 := by
  rw [e, List.pairwise_append] at hs
  exact hs.2.2 y hy x (by simp)

/-- attempt number `n` of a request: the record whose `idx` is `n`, started at the `n`-th start instant -/
theorem attempt_of_number {c : Nat} {tr : List (Nat × Ev)} {cl : Call} (h : AB c tr cl) (n : Nat)
    (hn : n < cl.attempts.length) :
    ∃ a ∈ cl.attempts, a.idx = n ∧ a.startAt = (startsAsc cl).getD n 0 := by
  have hlen : n < cl.attempts.reverse.length := by simpa using hn
  have hidx : cl.attempts.reverse.map (·.idx) = List.range cl.attempts.length := by
    rw [List.map_reverse, h.idxs, List.reverse_reverse]
  refine ⟨cl.attempts.reverse[n], List.mem_reverse.mp (List.getElem_mem hlen), ?_, ?_⟩
  · have : (cl.attempts.reverse.map (·.idx))[n]'(by simpa using hn) = n := by
      simp only [hidx, List.getElem_range]
    simpa using this
  · have : startsAsc cl = cl.attempts.reverse.map (·.startAt) := by simp [startsAsc, starts]
    rw [this, List.getD_eq_getElem?_getD, List.getElem?_map, List.getElem?_eq_getElem hlen]
    rfl

end TR.Hedge
