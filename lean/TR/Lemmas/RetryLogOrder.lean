import TR.Lemmas.RetryLog
/-!
# Retry: what the shape of a request's lines says about their order (consequences of `TR.Lemmas.RetryLog`)

From `Shape` (one closed block per failed-and-retried attempt, then a tail by phase): a canonical form for every request
that has made a call (`shape_canon`); which `inner_call` / `inner_done` lines the log holds, with their instants
(`call_line_iff`, `done_line_iff`); two consecutive attempts are two consecutive blocks (`consecutive_attempts`); with a
budget every `inner_call` line but the first is immediately preceded, among the request's lines, by a `grant` line
(`grant_precedes_retry`); a `refused` line is followed by the `result` line and nothing else (`refusal_shape`); a `result`
line is the last line, and what stands before it (`result_shape`).
-/
namespace TR.Retry

/-- every attempt of the list has been observed -/
def AllSeen (l : List Att) : Prop := ∀ a ∈ l, ∃ t, a.seen = some t

/-- an `inner_call` or `inner_done` line -/
def isCD : Line → Bool
  | (_, .innerCall _ _) => true
  | (_, .innerDone _ _ _) => true
  | _ => false

theorem closed_append (cfg : Cfg) (c : Nat) (l1 l2 : List Att) :
    closed cfg c (l1 ++ l2) = closed cfg c l2 ++ closed cfg c l1 := by
  induction l1 with
  | nil => simp [closed]
  | cons a tl ih => simp [closed, ih, List.append_assoc]

theorem block_eq_cons (cfg : Cfg) (c : Nat) (a : Att) :
    block cfg c a = (a.start, REv.innerCall c a.k) :: (block cfg c a).tail := by
  simp [block]

theorem mem_closed {cfg : Cfg} {c : Nat} {x : Line} : ∀ {l : List Att}, x ∈ closed cfg c l ↔ ∃ a ∈ l, x ∈ block cfg c a
  | [] => by simp [closed]
  | a :: tl => by
      simp only [closed, List.mem_append, mem_closed (l := tl), List.mem_cons]
      constructor
      · rintro (⟨b, hb, hx⟩ | hx)
        · exact ⟨b, Or.inr hb, hx⟩
        · exact ⟨a, Or.inl rfl, hx⟩
      · rintro ⟨b, hb | hb, hx⟩
        · subst hb; exact Or.inr hx
        · exact Or.inl ⟨b, hb, hx⟩

theorem mem_block_call {cfg : Cfg} {c c' t k : Nat} {a : Att} :
    (t, REv.innerCall c' k) ∈ block cfg c a ↔ c' = c ∧ a.start = t ∧ a.k = k := by
  unfold block
  split <;> simp <;> constructor <;> rintro ⟨h1, h2, h3⟩ <;> simp [h1, h2, h3]

theorem mem_block_done {cfg : Cfg} {c c' t k : Nat} {o : Out} {a : Att} :
    (t, REv.innerDone c' k o) ∈ block cfg c a ↔ c' = c ∧ a.seen.getD 0 = t ∧ a.k = k ∧ a.out = o := by
  unfold block
  split <;> simp <;> constructor <;> rintro ⟨h1, h2, h3, h4⟩ <;> simp [h1, h2, h3, h4]

theorem call_not_in_block_tail {cfg : Cfg} {c c' t k : Nat} {a : Att} :
    (t, REv.innerCall c' k) ∉ (block cfg c a).tail := by
  unfold block
  split <;> simp

theorem withdraw_false_not_in_closed {cfg : Cfg} {c c' t : Nat} {l : List Att} :
    (t, REv.withdraw c' false) ∉ closed cfg c l := by
  rw [mem_closed]
  rintro ⟨a, _, hx⟩
  unfold block at hx
  split at hx <;> simp at hx

theorem result_not_in_closed {cfg : Cfg} {c c' t : Nat} {r : Res} {l : List Att} :
    (t, REv.result c' r) ∉ closed cfg c l := by
  rw [mem_closed]
  rintro ⟨a, _, hx⟩
  unfold block at hx
  split at hx <;> simp at hx

theorem mem_closed_call {cfg : Cfg} {c t k : Nat} {l : List Att} :
    (t, REv.innerCall c k) ∈ closed cfg c l ↔ ∃ a ∈ l, a.start = t ∧ a.k = k := by
  rw [mem_closed]
  constructor
  · rintro ⟨a, ha, hx⟩
    exact ⟨a, ha, (mem_block_call.mp hx).2⟩
  · rintro ⟨a, ha, hx⟩
    exact ⟨a, ha, mem_block_call.mpr ⟨rfl, hx⟩⟩

theorem mem_closed_done {cfg : Cfg} {c t k : Nat} {o : Out} {l : List Att} (hl : AllSeen l) :
    (t, REv.innerDone c k o) ∈ closed cfg c l ↔ ∃ a ∈ l, a.seen = some t ∧ a.k = k ∧ a.out = o := by
  rw [mem_closed]
  constructor
  · rintro ⟨a, ha, hx⟩
    obtain ⟨_, h1, h2, h3⟩ := mem_block_done.mp hx
    obtain ⟨t', ht'⟩ := hl a ha
    rw [ht'] at h1
    simp at h1
    subst h1
    exact ⟨a, ha, ht', h2, h3⟩
  · rintro ⟨a, ha, h1, h2, h3⟩
    exact ⟨a, ha, mem_block_done.mpr ⟨rfl, by simp [h1], h2, h3⟩⟩

/-- the `inner_call` lines of the closed blocks: one per attempt, oldest first -/
theorem callsOf_closed (cfg : Cfg) (c : Nat) : ∀ l : List Att, callsOf c (closed cfg c l) = (l.map (·.k)).reverse
  | [] => rfl
  | a :: tl => by
      simp only [closed, callsOf_append, callsOf_closed cfg c tl, block, List.map_cons, List.reverse_cons]
      congr 1
      split <;> simp [callsOf_cons, isCallOf, callsOf]

/-- with a budget, the closed blocks end with the grant of the next retry -/
theorem closed_ends_with_grant {cfg : Cfg} (c : Nat) (hb : cfg.budget.isSome = true) (a : Att) (tl : List Att) :
    ∃ X t, closed cfg c (a :: tl) = X ++ [(t, REv.withdraw c true)] :=
  ⟨closed cfg c tl ++ [(a.start, .innerCall c a.k), (a.seen.getD 0, .innerDone c a.k a.out)], a.seen.getD 0,
    by simp [closed, block, hb]⟩

/-! ## the canonical form -/

/-- a request without an attempt has no line -/
theorem shape_nil {cfg : Cfg} {c : Nat} {cl : Caller} {P : List Line} (h : CInv cfg cl) (hs : Shape cfg c cl P)
    (ha : cl.atts = []) : P = [] := by
  have hph := h.phase
  cases hp : cl.phase with
  | fresh => simpa [Shape, hp] using hs
  | calling k due o =>
    simp only [PhaseInv, hp] at hph
    obtain ⟨a, tl, ha', _⟩ := hph
    rw [ha] at ha'; cases ha'
  | sleeping u =>
    simp only [PhaseInv, hp] at hph
    obtain ⟨a, tl, t, d, ds, ha', _⟩ := hph
    rw [ha] at ha'; cases ha'
  | done =>
    simp only [PhaseInv, hp] at hph
    obtain ⟨a, tl, t, ha', _⟩ := hph
    rw [ha] at ha'; cases ha'
  | unready =>
    simp only [PhaseInv, hp] at hph
    obtain ⟨a, tl, t, ha', _⟩ := hph
    rw [ha] at ha'; cases ha'
  | dropped =>
    simp only [Shape, hp] at hs
    rcases hs with ⟨hs, _⟩ | ⟨a, tl, t, ha', _⟩
    · simpa [ha, closed] using hs
    · rw [ha] at ha'; cases ha'

/-- **Canonical form.** The lines of a request whose newest attempt is `a` (earlier ones `tl`, all observed) are the closed
blocks of `tl`, the `inner_call` line of `a` at `a.start`, and a rest `Z` without `inner_call` lines, which starts with the
`inner_done` line of `a` at `a.seen` iff `a` has been observed and holds no other `inner_done` line. -/
theorem shape_canon {cfg : Cfg} {c : Nat} {cl : Caller} {P : List Line} {a : Att} {tl : List Att}
    (h : CInv cfg cl) (hs : Shape cfg c cl P) (ha : cl.atts = a :: tl) :
    AllSeen tl ∧ ∃ Z, P = closed cfg c tl ++ (a.start, REv.innerCall c a.k) :: Z ∧
      (∀ t c' k, (t, REv.innerCall c' k) ∉ Z) ∧
      ((a.seen = none ∧ ∀ x ∈ Z, isCD x = false) ∨
       (∃ t W, a.seen = some t ∧ Z = (t, REv.innerDone c a.k a.out) :: W ∧ ∀ x ∈ W, isCD x = false)) := by
  have hh := h.hist
  rw [ha] at hh
  refine ⟨fun q hq => (hist_tail hh q hq).2, ?_⟩
  have hph := h.phase
  -- the rest after an observed newest attempt in a closed list
  have closedCase : ∀ t, a.seen = some t → P = closed cfg c (a :: tl) →
      ∃ Z, P = closed cfg c tl ++ (a.start, REv.innerCall c a.k) :: Z ∧
        (∀ t c' k, (t, REv.innerCall c' k) ∉ Z) ∧
        ((a.seen = none ∧ ∀ x ∈ Z, isCD x = false) ∨
         (∃ t W, a.seen = some t ∧ Z = (t, REv.innerDone c a.k a.out) :: W ∧ ∀ x ∈ W, isCD x = false)) := by
    intro t hseen hP
    refine ⟨(block cfg c a).tail, by rw [hP, closed, block_eq_cons]; simp, fun _ _ _ => call_not_in_block_tail, ?_⟩
    right
    refine ⟨t, if cfg.budget.isSome then [(t, REv.withdraw c true)] else [], hseen, ?_, ?_⟩
    · simp [block, hseen]
    · intro x hx
      split at hx <;> simp at hx
      subst hx; rfl
  cases hp : cl.phase with
  | fresh =>
    simp only [PhaseInv, hp] at hph
    rw [ha] at hph; cases hph.1
  | calling k due o =>
    simp only [Shape, hp] at hs
    simp only [PhaseInv, hp] at hph
    obtain ⟨a', tl', ha', hP⟩ := hs
    obtain ⟨a'', tl'', ha'', _, _, _, hseen, _⟩ := hph
    rw [ha] at ha' ha''; cases ha'; cases ha''
    exact ⟨[], hP, by simp, Or.inl ⟨hseen, by simp⟩⟩
  | sleeping u =>
    simp only [Shape, hp] at hs
    simp only [PhaseInv, hp] at hph
    obtain ⟨a', tl', t, d, ds, ha', hseen, _⟩ := hph
    rw [ha] at ha'; cases ha'
    exact closedCase t hseen (by rw [hs, ha])
  | done =>
    simp only [Shape, hp] at hs
    obtain ⟨a', tl', t, r, g, ha', hseen, _, hP, _⟩ := hs
    rw [ha] at ha'; cases ha'
    refine ⟨(t, REv.innerDone c a.k a.out) :: ((g.map fun x => ((t, REv.withdraw c x) : Line)) ++ [(t, REv.result c r)]),
      by simp [hP], ?_, Or.inr ⟨t, _, hseen, rfl, ?_⟩⟩
    · intro t' c' k'
      simp
    · intro x hx
      rw [List.mem_append, List.mem_map, List.mem_singleton] at hx
      rcases hx with ⟨g', _, rfl⟩ | rfl <;> rfl
  | unready =>
    simp only [Shape, hp] at hs
    obtain ⟨t, ts, d, hP, hseen, _, _⟩ := hs
    rw [ha] at hseen hP
    simp at hseen
    refine ⟨(block cfg c a).tail ++ [(t, REv.result c readyErr)], by rw [hP, closed, block_eq_cons]; simp, ?_, ?_⟩
    · intro t' c' k' hm
      simp at hm
      exact call_not_in_block_tail hm
    · right
      refine ⟨ts, (if cfg.budget.isSome then [(ts, REv.withdraw c true)] else []) ++ [(t, REv.result c readyErr)], hseen, ?_, ?_⟩
      · simp [block, hseen]
      · intro x hx
        simp at hx
        rcases hx with ⟨_, hx⟩ | hx
        · subst hx; rfl
        · subst hx; rfl
  | dropped =>
    simp only [Shape, hp] at hs
    rcases hs with ⟨hP, hseen⟩ | ⟨a', tl', t, ha', hseen, hP⟩
    · obtain ⟨t, ht⟩ := hseen a (by simp [ha])
      exact closedCase t ht (by rw [hP, ha])
    · rw [ha] at ha'; cases ha'
      refine ⟨[(t, REv.innerDrop c a.k)], by simp [hP], by simp, Or.inl ⟨hseen, ?_⟩⟩
      intro x hx
      simp at hx
      subst hx; rfl

/-! ## which `inner_call` / `inner_done` lines the log holds -/

theorem call_line_iff {cfg : Cfg} {c : Nat} {cl : Caller} {P : List Line} (h : CInv cfg cl) (hs : Shape cfg c cl P)
    (t k : Nat) : (t, REv.innerCall c k) ∈ P ↔ ∃ a ∈ cl.atts, a.start = t ∧ a.k = k := by
  cases ha : cl.atts with
  | nil => simp [shape_nil h hs ha]
  | cons a tl =>
    obtain ⟨_, Z, hP, hZ, _⟩ := shape_canon h hs ha
    rw [hP]
    simp only [List.mem_append, List.mem_cons, mem_closed_call]
    constructor
    · rintro (⟨b, hb, hx⟩ | hx | hx)
      · exact ⟨b, Or.inr hb, hx⟩
      · simp at hx
        exact ⟨a, Or.inl rfl, hx.1.symm, hx.2.symm⟩
      · exact absurd hx (hZ _ _ _)
    · rintro ⟨b, hb | hb, h1, h2⟩
      · subst hb; right; left; simp [h1, h2]
      · exact Or.inl ⟨b, hb, h1, h2⟩

theorem done_line_iff {cfg : Cfg} {c : Nat} {cl : Caller} {P : List Line} (h : CInv cfg cl) (hs : Shape cfg c cl P)
    (t k : Nat) (o : Out) :
    (t, REv.innerDone c k o) ∈ P ↔ ∃ a ∈ cl.atts, a.seen = some t ∧ a.k = k ∧ a.out = o := by
  cases ha : cl.atts with
  | nil => simp [shape_nil h hs ha]
  | cons a tl =>
    obtain ⟨hall, Z, hP, _, hZ⟩ := shape_canon h hs ha
    rw [hP]
    simp only [List.mem_append, List.mem_cons, mem_closed_done hall]
    constructor
    · rintro (⟨b, hb, hx⟩ | hx | hx)
      · exact ⟨b, Or.inr hb, hx⟩
      · simp at hx
      · rcases hZ with ⟨_, hZ⟩ | ⟨t', W, hseen, hZ', hW⟩
        · have := hZ _ hx; simp [isCD] at this
        · rw [hZ'] at hx
          simp only [List.mem_cons] at hx
          rcases hx with hx | hx
          · simp at hx
            obtain ⟨h1, h2, h3⟩ := hx
            exact ⟨a, Or.inl rfl, by rw [hseen, h1], h2.symm, h3.symm⟩
          · have := hW _ hx; simp [isCD] at this
    · rintro ⟨b, hb | hb, h1, h2, h3⟩
      · subst hb
        rcases hZ with ⟨hnone, _⟩ | ⟨t', W, hseen, hZ', _⟩
        · rw [hnone] at h1; cases h1
        · rw [hseen] at h1
          simp at h1
          right; right
          rw [hZ']
          simp [h1, h2, h3]
      · exact Or.inl ⟨b, hb, h1, h2, h3⟩

/-! ## two consecutive attempts are two consecutive blocks -/

/-- For any two consecutive attempts `q`, `p` of a request, its lines are: the closed blocks of the attempts before `q`, the
block of `q` — `inner_call`, `inner_done`, and with a budget the `grant` —, the `inner_call` line of `p`, and a rest. -/
theorem consecutive_attempts {cfg : Cfg} {c : Nat} {cl : Caller} {P : List Line} (h : CInv cfg cl)
    (hs : Shape cfg c cl P) (pre rest : List Att) (p q : Att) (hpq : cl.atts = pre ++ p :: q :: rest) :
    ∃ Y, P = closed cfg c rest ++ block cfg c q ++ (p.start, REv.innerCall c p.k) :: Y := by
  cases pre with
  | nil =>
    obtain ⟨_, Z, hP, _⟩ := shape_canon h hs (a := p) (tl := q :: rest) (by simpa using hpq)
    exact ⟨Z, by rw [hP, closed]⟩
  | cons x pre' =>
    obtain ⟨_, Z, hP, _⟩ := shape_canon h hs (a := x) (tl := pre' ++ p :: q :: rest) (by simpa using hpq)
    refine ⟨(block cfg c p).tail ++ closed cfg c pre' ++ (x.start, REv.innerCall c x.k) :: Z, ?_⟩
    rw [hP, closed_append, closed, closed]
    conv => lhs; rw [block_eq_cons cfg c p]
    simp [List.append_assoc]

/-! ## every retry is preceded by its grant -/

theorem grant_precedes_call_closed {cfg : Cfg} {c : Nat} (hb : cfg.budget.isSome = true) :
    ∀ (l : List Att) (X : List Line) (t c' k : Nat) (Y : List Line),
      closed cfg c l = X ++ (t, REv.innerCall c' k) :: Y →
      X = [] ∨ ∃ X' t', X = X' ++ [(t', REv.withdraw c true)] := by
  intro l
  induction l with
  | nil => intro X t c' k Y hx; simp [closed] at hx
  | cons a tl ih =>
    intro X t c' k Y hx
    have atTl : X = closed cfg c tl → X = [] ∨ ∃ X' t', X = X' ++ [(t', REv.withdraw c true)] := by
      intro hX
      cases tl with
      | nil => left; simpa [closed] using hX
      | cons b tl' =>
        right
        obtain ⟨X', t', he⟩ := closed_ends_with_grant c hb b tl'
        exact ⟨X', t', by rw [hX, he]⟩
    simp only [closed] at hx
    rw [List.append_eq_append_iff] at hx
    rcases hx with ⟨a', hX, hB⟩ | ⟨c'', hT, hB⟩
    · cases a' with
      | nil => exact atTl (by simpa using hX)
      | cons x a'' =>
        exfalso
        have : (t, REv.innerCall c' k) ∈ (block cfg c a).tail := by
          rw [hB]; simp
        exact call_not_in_block_tail this
    · cases c'' with
      | nil => exact atTl (by simpa using hT.symm)
      | cons y c3 =>
        simp only [List.cons_append, List.cons.injEq] at hB
        obtain ⟨hy, _⟩ := hB
        subst hy
        exact ih X t c' k c3 hT

/-- **With a budget, the line right before an `inner_call` line of a request — among the request's lines — is a `grant`
line of that request**, unless it is the request's first line. -/
theorem grant_precedes_retry {cfg : Cfg} {c : Nat} {cl : Caller} {P : List Line} (h : CInv cfg cl)
    (hs : Shape cfg c cl P) (hb : cfg.budget.isSome = true) (X : List Line) (t c' k : Nat) (Y : List Line)
    (hP : P = X ++ (t, REv.innerCall c' k) :: Y) :
    X = [] ∨ ∃ X' t', X = X' ++ [(t', REv.withdraw c true)] := by
  cases ha : cl.atts with
  | nil =>
    have := shape_nil h hs ha
    rw [this] at hP
    simp at hP
  | cons a tl =>
    obtain ⟨_, Z, hP', hZ, _⟩ := shape_canon h hs ha
    rw [hP'] at hP
    have atTl : X = closed cfg c tl → X = [] ∨ ∃ X' t', X = X' ++ [(t', REv.withdraw c true)] := by
      intro hX
      cases tl with
      | nil => left; simpa [closed] using hX
      | cons b tl' =>
        right
        obtain ⟨X', t', he⟩ := closed_ends_with_grant c hb b tl'
        exact ⟨X', t', by rw [hX, he]⟩
    rw [List.append_eq_append_iff] at hP
    rcases hP with ⟨a', hX, hB⟩ | ⟨c'', hT, hB⟩
    · cases a' with
      | nil => exact atTl (by simpa using hX)
      | cons x a'' =>
        exfalso
        simp only [List.cons_append, List.cons.injEq] at hB
        have : (t, REv.innerCall c' k) ∈ Z := by rw [hB.2]; simp
        exact hZ _ _ _ this
    · cases c'' with
      | nil => exact atTl (by simpa using hT.symm)
      | cons y c3 =>
        simp only [List.cons_append, List.cons.injEq] at hB
        obtain ⟨hy, _⟩ := hB
        subst hy
        exact grant_precedes_call_closed hb tl X t c' k c3 hT

/-! ## a refusal ends the request; the result line -/

/-- A `refused` line of request `c` at `t`: the request is finished, and its lines end with the `inner_call` of its newest
attempt, the `inner_done` of that attempt at `t`, the `refused` line at `t`, and the `result` line at `t` carrying that
attempt's outcome. -/
theorem refusal_shape {cfg : Cfg} {c : Nat} {cl : Caller} {P : List Line} (h : CInv cfg cl) (hs : Shape cfg c cl P)
    (t : Nat) (hm : (t, REv.withdraw c false) ∈ P) :
    ∃ a tl, cl.atts = a :: tl ∧ cl.phase = .done ∧ a.seen = some t ∧ cl.grants.head? = some false ∧
      Retryable cfg a ∧ tl.length + 2 ≤ cl.maxA ∧
      P = closed cfg c tl ++ [(a.start, REv.innerCall c a.k), (t, REv.innerDone c a.k a.out),
                              (t, REv.withdraw c false), (t, REv.result c (resOf a.k a.out))] := by
  have hph := h.phase
  cases hp : cl.phase with
  | fresh => simp only [Shape, hp] at hs; rw [hs] at hm; simp at hm
  | calling k due o =>
    simp only [Shape, hp] at hs
    obtain ⟨a, tl, _, hP⟩ := hs
    rw [hP] at hm
    simp at hm
    exact absurd hm withdraw_false_not_in_closed
  | sleeping u =>
    simp only [Shape, hp] at hs
    rw [hs] at hm
    exact absurd hm withdraw_false_not_in_closed
  | done =>
    simp only [Shape, hp] at hs
    simp only [PhaseInv, hp] at hph
    obtain ⟨a, tl, t0, r, g, ha, hseen, hres, hP, hg⟩ := hs
    obtain ⟨a', tl', _, ha', _, hres', _⟩ := hph
    rw [ha] at ha'; cases ha'
    rw [hres] at hres'
    simp at hres'
    rcases hg with ⟨hg, _⟩ | ⟨hg, hhead, hret, hroom⟩
    · rw [hP, hg] at hm
      simp at hm
      exact absurd hm withdraw_false_not_in_closed
    · rw [hP, hg] at hm
      simp at hm
      rcases hm with hm | hm
      · exact absurd hm withdraw_false_not_in_closed
      · subst hm
        exact ⟨a, tl, ha, rfl, hseen, hhead, hret, hroom, by rw [hP, hg, hres']; simp⟩
  | unready =>
    simp only [Shape, hp] at hs
    obtain ⟨t', ts, d, hP, _⟩ := hs
    rw [hP] at hm
    simp at hm
    exact absurd hm withdraw_false_not_in_closed
  | dropped =>
    simp only [Shape, hp] at hs
    rcases hs with ⟨hP, _⟩ | ⟨a, tl, t', _, _, hP⟩
    · rw [hP] at hm
      exact absurd hm withdraw_false_not_in_closed
    · rw [hP] at hm
      simp at hm
      exact absurd hm withdraw_false_not_in_closed

/-- A `result` line of request `c` at `t` is the request's last line. Before it stand the `inner_call` and `inner_done`
lines of the newest attempt `a` and at most one budget line, and either (finished on an outcome) the result is that
attempt's outcome, delivered at the instant of the `inner_done` line, the budget line if any being a refusal; or (ended by a
readiness error) the result is that error, the budget line (with a budget) is the grant of the retry that was not made, and
the result comes no earlier than the end of the back-off. -/
theorem result_shape {cfg : Cfg} {c : Nat} {cl : Caller} {P : List Line} (h : CInv cfg cl) (hs : Shape cfg c cl P)
    (t : Nat) (r : Res) (hm : (t, REv.result c r) ∈ P) :
    ∃ a tl ts W, cl.atts = a :: tl ∧ a.seen = some ts ∧
      P = closed cfg c tl ++ [(a.start, REv.innerCall c a.k), (ts, REv.innerDone c a.k a.out)] ++ W ++ [(t, REv.result c r)] ∧
      ((cl.phase = .done ∧ r = resOf a.k a.out ∧ ts = t ∧
          ((W = [] ∧ cl.grants.head? ≠ some false) ∨ (W = [(t, REv.withdraw c false)] ∧ cl.grants.head? = some false))) ∨
       (cl.phase = .unready ∧ r = readyErr ∧
          W = (if cfg.budget.isSome then [(ts, REv.withdraw c true)] else []) ∧
          ∃ d, cl.sleeps.head? = some d ∧ ts + ceilMs d ≤ t)) := by
  have hph := h.phase
  cases hp : cl.phase with
  | fresh => simp only [Shape, hp] at hs; rw [hs] at hm; simp at hm
  | calling k due o =>
    simp only [Shape, hp] at hs
    obtain ⟨a, tl, _, hP⟩ := hs
    rw [hP] at hm
    simp at hm
    exact absurd hm result_not_in_closed
  | sleeping u =>
    simp only [Shape, hp] at hs
    rw [hs] at hm
    exact absurd hm result_not_in_closed
  | done =>
    simp only [Shape, hp] at hs
    simp only [PhaseInv, hp] at hph
    obtain ⟨a, tl, t0, r0, g, ha, hseen, hres, hP, hg⟩ := hs
    obtain ⟨a', tl', _, ha', _, hres', _⟩ := hph
    rw [ha] at ha'; cases ha'
    rw [hres] at hres'
    simp at hres'
    have hmem : t = t0 ∧ r = r0 := by
      rw [hP] at hm
      simp at hm
      rcases hm with hm | hm
      · exact absurd hm result_not_in_closed
      · exact hm
    obtain ⟨e1, e2⟩ := hmem
    subst e1; subst e2
    refine ⟨a, tl, t, g.map fun x => ((t, REv.withdraw c x) : Line), ha, hseen, by rw [hP], Or.inl ⟨rfl, hres', rfl, ?_⟩⟩
    rcases hg with ⟨hg, hh⟩ | ⟨hg, hh, _⟩
    · left; exact ⟨by simp [hg], hh⟩
    · right; exact ⟨by simp [hg], hh⟩
  | unready =>
    simp only [Shape, hp] at hs
    obtain ⟨t', ts, d, hP, hseen, hd, hle⟩ := hs
    cases ha : cl.atts with
    | nil => rw [ha] at hseen; simp at hseen
    | cons a tl =>
      rw [ha] at hseen hP
      simp at hseen
      have hmem : t = t' ∧ r = readyErr := by
        rw [hP] at hm
        simp at hm
        rcases hm with hm | hm
        · exact absurd hm result_not_in_closed
        · exact hm
      obtain ⟨e1, e2⟩ := hmem
      subst e1; subst e2
      refine ⟨a, tl, ts, if cfg.budget.isSome then [(ts, REv.withdraw c true)] else [], rfl, hseen, ?_,
        Or.inr ⟨rfl, rfl, rfl, d, hd, hle⟩⟩
      rw [hP]
      simp [closed, block, hseen]
  | dropped =>
    simp only [Shape, hp] at hs
    rcases hs with ⟨hP, _⟩ | ⟨a, tl, t', _, _, hP⟩
    · rw [hP] at hm
      exact absurd hm result_not_in_closed
    · rw [hP] at hm
      simp at hm
      exact absurd hm result_not_in_closed

end TR.Retry
