import TR.Lemmas.CacheRecency
import TR.Lemmas.CacheFifo
/-!
# Cache (C10), LFU and FIFO: "since the entry was inserted", over the history

The LFU count `cnt` is container state and the FIFO position is the list order, but *what they count / order*
is the history: the **number of accesses since the insert that created the entry** (LFU), the **order of
those inserts** (FIFO). Both speak about the moment a key became resident, which no single log line shows (an
eviction or a lazy expiry-removal writes nothing to the log), so they are stated over the history `ops`:

* `ResidentSince cfg ops k n` — operation number `n` of `ops` inserted `k`: `k` is absent after the first `n`
  operations and present after every longer prefix of `ops`, up to all of it (`n` is unique);
* `CountAcc log k q d` — the events `q` contain exactly `d` accesses of `k` (`IsAccess`, the notion of
  `TR.Lemmas.CacheRecency`: echo of a request served from the cache, or successful completion of a request for `k`);
* `lfu_count_since_insertion` — under LFU, after any history, every resident entry `e` has
  `e.cnt = ` number of accesses of `e.key` among the log events written since its insertion;
* `fifo_order_is_insertion_order` — under FIFO the queue lists the resident keys in the order of their insertions.
-/
namespace TR.Cache

/-! ## residency since an insertion -/

def ResidentSince (cfg : Cfg) (ops : List Op) (k n : Nat) : Prop :=
  n < ops.length ∧ find (run cfg (ops.take n)).store k = none ∧
  ∀ m, n < m → m ≤ ops.length → (find (run cfg (ops.take m)).store k).isSome = true

theorem ResidentSince.unique {cfg : Cfg} {ops : List Op} {k n n' : Nat}
    (h : ResidentSince cfg ops k n) (h' : ResidentSince cfg ops k n') : n = n' := by
  rcases Nat.lt_trichotomy n n' with hlt | heq | hgt
  · have := h.2.2 n' hlt (Nat.le_of_lt h'.1)
    rw [h'.2.1] at this; simp at this
  · exact heq
  · have := h'.2.2 n hgt (Nat.le_of_lt h.1)
    rw [h.2.1] at this; simp at this

theorem ResidentSince.snoc_keep {cfg : Cfg} {ops : List Op} {k n : Nat} (h : ResidentSince cfg ops k n) (op : Op)
    (hr : (find (run cfg (ops ++ [op])).store k).isSome = true) : ResidentSince cfg (ops ++ [op]) k n := by
  obtain ⟨hn, h0, hm⟩ := h
  refine ⟨by simp; omega, by rw [List.take_append_of_le_length (Nat.le_of_lt hn)]; exact h0, ?_⟩
  intro m hnm hml
  by_cases hle : m ≤ ops.length
  · rw [List.take_append_of_le_length hle]; exact hm m hnm hle
  · rw [List.take_of_length_le (by simp at hml ⊢; omega)]; exact hr

theorem ResidentSince.snoc_new {cfg : Cfg} {ops : List Op} {k : Nat} (op : Op)
    (h0 : find (run cfg ops).store k = none)
    (hr : (find (run cfg (ops ++ [op])).store k).isSome = true) : ResidentSince cfg (ops ++ [op]) k ops.length := by
  refine ⟨by simp, by rw [List.take_append_of_le_length (Nat.le_refl _), List.take_length]; exact h0, ?_⟩
  intro m hnm hml
  rw [List.take_of_length_le (by simp at hml ⊢; omega)]; exact hr

theorem take_snoc_lt {ops : List Op} {n : Nat} (op : Op) (hn : n < ops.length) :
    (ops ++ [op]).take n = ops.take n := List.take_append_of_le_length (Nat.le_of_lt hn)

/-! ## counting accesses -/

inductive CountAcc (log : List Ev) (k : Nat) : List Ev → Nat → Prop
  | nil : CountAcc log k [] 0
  | hit {e : Ev} {q : List Ev} {n : Nat} : IsAccess log k e → CountAcc log k q n → CountAcc log k (e :: q) (n + 1)
  | skip {e : Ev} {q : List Ev} {n : Nat} : ¬ IsAccess log k e → CountAcc log k q n → CountAcc log k (e :: q) n

theorem CountAcc.unique {log : List Ev} {k : Nat} {q : List Ev} {n n' : Nat}
    (h : CountAcc log k q n) (h' : CountAcc log k q n') : n = n' := by
  induction h generalizing n' with
  | nil => cases h'; rfl
  | hit ha _ ih =>
    cases h' with
    | hit _ h2 => rw [ih h2]
    | skip hn _ => exact absurd ha hn
  | skip hn _ ih =>
    cases h' with
    | hit ha _ => exact absurd ha hn
    | skip _ h2 => exact ih h2

theorem CountAcc.append {log : List Ev} {k : Nat} {q1 q2 : List Ev} {n1 n2 : Nat}
    (h1 : CountAcc log k q1 n1) (h2 : CountAcc log k q2 n2) : CountAcc log k (q1 ++ q2) (n1 + n2) := by
  induction h1 with
  | nil => simpa using h2
  | @hit e q n ha _ ih =>
    have : n + 1 + n2 = (n + n2) + 1 := by omega
    rw [this]
    exact .hit ha ih
  | skip hn _ ih => exact .skip hn ih

theorem countAcc_zero {log : List Ev} {k : Nat} {q : List Ev} (h : ∀ b ∈ q, ¬ IsAccess log k b) :
    CountAcc log k q 0 := by
  induction q with
  | nil => exact .nil
  | cons a tl ih => exact .skip (h a (by simp)) (ih (fun b hb => h b (by simp [hb])))

theorem countAcc_one {log : List Ev} {k : Nat} {a : Ev} {rest : List Ev} (ha : IsAccess log k a)
    (h : ∀ b ∈ rest, ¬ IsAccess log k b) : CountAcc log k (a :: rest) 1 :=
  .hit ha (countAcc_zero h)

/-- counting over events of the log is not disturbed when the log grows by a step -/
theorem CountAcc.grow {log evs : List Ev} {k : Nat} {q : List Ev} {n : Nat} (h : CountAcc log k q n)
    (hn : NewCallers log evs) (hq : ∀ e ∈ q, e ∈ log) : CountAcc (log ++ evs) k q n := by
  induction h with
  | nil => exact .nil
  | @hit e q n ha _ ih =>
    exact .hit ((isAccess_append_iff hn (hq e (by simp)) k).mpr ha) (ih (fun x hx => hq x (by simp [hx])))
  | @skip e q n hna _ ih =>
    exact .skip (fun hh => hna ((isAccess_append_iff hn (hq e (by simp)) k).mp hh))
      (ih (fun x hx => hq x (by simp [hx])))

/-! ## what the events of a step access -/

theorem hit_evs {s : State} (c key svc : Nat) (hc : c ∉ s.seen) (hl : LInv s) :
    NewCallers s.log [reqEv c key svc] ∧ CountAcc (s.log ++ [reqEv c key svc]) key [reqEv c key svc] 1 ∧
    ∀ k', k' ≠ key → ∀ b ∈ [reqEv c key svc], ¬ IsAccess (s.log ++ [reqEv c key svc]) k' b := by
  refine ⟨⟨?_, ?_⟩, countAcc_one (Or.inl ⟨c, svc, rfl, ?_⟩) (by simp), ?_⟩
  · intro c' k svc' hm v' o hd
    simp only [List.mem_singleton] at hm
    rw [(reqEv_inj hm).1] at hd
    exact hc (hl.doneSeen hd)
  · intro c' v' hm; simp only [List.mem_singleton] at hm; exact absurd hm.symm (reqEv_ne_call _ _ _ _ _)
  · intro v' hm
    simp only [List.mem_append, List.mem_singleton] at hm
    rcases hm with hm | hm
    · exact hc (hl.callSeen c v' hm).1
    · exact reqEv_ne_call _ _ _ _ _ hm.symm
  · intro k' hk' b hb hacc
    simp only [List.mem_singleton] at hb
    subst hb
    exact hk' (isAccess_req hacc).1

theorem miss_evs {s : State} (c key svc : Nat) (hc : c ∉ s.seen) (hl : LInv s) :
    NewCallers s.log [reqEv c key svc, .innerCall c s.serial] ∧
    ∀ k, ∀ b ∈ [reqEv c key svc, Ev.innerCall c s.serial],
      ¬ IsAccess (s.log ++ [reqEv c key svc, .innerCall c s.serial]) k b := by
  refine ⟨⟨?_, ?_⟩, ?_⟩
  · intro c' k svc' hm v' o hd
    simp only [List.mem_cons, List.not_mem_nil, or_false] at hm
    rcases hm with hm | hm
    · rw [(reqEv_inj hm).1] at hd
      exact hc (hl.doneSeen hd)
    · exact reqEv_ne_call _ _ _ _ _ hm
  · intro c' v' hm k svc' hr
    simp only [List.mem_cons, List.not_mem_nil, or_false] at hm
    rcases hm with hm | hm
    · exact reqEv_ne_call _ _ _ _ _ hm.symm
    · cases hm
      exact hc (hl.reqSeen c k svc' hr)
  · intro k b hb hacc
    simp only [List.mem_cons, List.not_mem_nil, or_false] at hb
    rcases hb with rfl | rfl
    · exact (isAccess_req hacc).2 s.serial (by simp)
    · exact not_isAccess_call hacc

theorem okEvs_cons (c k : Nat) (b : Bool) :
    okEvs c k b = Ev.innerDone c k .ok :: ((if b then [] else [Ev.raw "choice-not-allowed"]) ++ [Ev.result c (.ok k)]) := by
  cases b <;> rfl

theorem ok_evs {s : State} (c : Nat) (p : Pend) (b : Bool) (hp : (c, p) ∈ s.pend) (hl : LInv s) :
    CountAcc (s.log ++ okEvs c p.k b) p.key (okEvs c p.k b) 1 ∧
    ∀ k', k' ≠ p.key → ∀ e ∈ okEvs c p.k b, ¬ IsAccess (s.log ++ okEvs c p.k b) k' e := by
  have hq := okEvs_quiet c p.k b
  have hck : ReqKey s.log c p.key := (hl.pendLog _ hp).2
  constructor
  · rw [okEvs_cons]
    refine countAcc_one (Or.inr ⟨c, p.k, rfl, hck.mono _⟩) ?_
    · intro e he
      have hqe : Quiet e := hq e (by rw [okEvs_cons]; simp [he])
      apply not_isAccess_quiet_nodone hqe
      intro c' v' hee
      subst hee
      cases b <;> simp at he
  · intro k' hk' e he hacc
    rcases hacc with ⟨c', svc, hee, _⟩ | ⟨c', v, hee, hr⟩
    · exact (hq e he).1 c' k' svc hee
    · subst hee
      obtain ⟨rfl, _, _⟩ := okEvs_done he
      exact hk' (hl.reqFun _ _ _ ((reqKey_append_quiet hq).mp hr) hck)

theorem quiet_nodone_evs {log evs : List Ev} (hq : ∀ e ∈ evs, Quiet e)
    (hd : ∀ e ∈ evs, ∀ c v, e ≠ Ev.innerDone c v .ok) :
    NewCallers log evs ∧ ∀ k, ∀ b ∈ evs, ¬ IsAccess (log ++ evs) k b :=
  ⟨newCallers_quiet hq, fun _ b hb => not_isAccess_quiet_nodone (hq b hb) (hd b hb)⟩

/-! ## LFU: what one step does to the counts -/

/-- one step of the service, LFU: the new events `evs`, and for every entry of the new store either the old
entry of that key with its count raised by the number of accesses of the key among `evs`, or — the key was
absent — a count equal to that number -/
def LfuStep (s s' : State) : Prop :=
  ∃ evs, s'.log = s.log ++ evs ∧ NewCallers s.log evs ∧
    ∀ e' ∈ s'.store, ∃ d, CountAcc s'.log e'.key evs d ∧
      ((∃ e ∈ s.store, e.key = e'.key ∧ e'.cnt = e.cnt + d) ∨ (find s.store e'.key = none ∧ e'.cnt = d))

theorem LfuStep.refl (s : State) : LfuStep s s :=
  ⟨[], by simp, newCallers_quiet (by simp), fun e' he' => ⟨0, .nil, Or.inl ⟨e', he', rfl, rfl⟩⟩⟩

theorem LfuStep.of_noaccess {s : State} (s' : State) (evs : List Ev) (hlog : s'.log = s.log ++ evs)
    (hn : NewCallers s.log evs) (hno : ∀ k, ∀ b ∈ evs, ¬ IsAccess (s.log ++ evs) k b)
    (hsub : ∀ e' ∈ s'.store, e' ∈ s.store) : LfuStep s s' := by
  refine ⟨evs, hlog, hn, ?_⟩
  intro e' he'
  exact ⟨0, by rw [hlog]; exact countAcc_zero (hno e'.key), Or.inl ⟨e', hsub e' he', rfl, rfl⟩⟩

theorem LfuStep.of_access {s : State} (s' : State) (evs : List Ev) (hlog : s'.log = s.log ++ evs)
    (hn : NewCallers s.log evs) (k : Nat) (hone : CountAcc (s.log ++ evs) k evs 1)
    (hoth : ∀ k', k' ≠ k → ∀ b ∈ evs, ¬ IsAccess (s.log ++ evs) k' b)
    (hst : ∀ e' ∈ s'.store, (e'.key ≠ k ∧ e' ∈ s.store) ∨
      (e'.key = k ∧ ((∃ e ∈ s.store, e.key = k ∧ e'.cnt = e.cnt + 1) ∨ (find s.store k = none ∧ e'.cnt = 1)))) :
    LfuStep s s' := by
  refine ⟨evs, hlog, hn, ?_⟩
  intro e' he'
  rcases hst e' he' with ⟨hk, hm⟩ | ⟨hk, hc⟩
  · exact ⟨0, by rw [hlog]; exact countAcc_zero (hoth e'.key hk), Or.inl ⟨e', hm, rfl, rfl⟩⟩
  · refine ⟨1, by rw [hlog, hk]; exact hone, ?_⟩
    rcases hc with ⟨e, he, hek, hcnt⟩ | ⟨hnone, hcnt⟩
    · exact Or.inl ⟨e, he, by rw [hek, hk], hcnt⟩
    · exact Or.inr ⟨by rw [hk]; exact hnone, hcnt⟩

/-- entries of an in-place update of the entry under `k` that raises its count by one -/
theorem upd_count_mem {k : Nat} {f : Entry → Entry} {items : List Entry} {e' : Entry}
    (h : e' ∈ upd k f items) (hfk : ∀ x, (f x).key = x.key) (hfc : ∀ x, (f x).cnt = x.cnt + 1) :
    (e'.key ≠ k ∧ e' ∈ items) ∨ (e'.key = k ∧ ∃ e ∈ items, e.key = k ∧ e'.cnt = e.cnt + 1) := by
  obtain ⟨x, hx, rfl⟩ := mem_upd h
  by_cases hk : x.key = k
  · rw [if_pos hk]; exact Or.inr ⟨by rw [hfk]; exact hk, x, hx, hk, hfc x⟩
  · rw [if_neg hk]; exact Or.inl ⟨hk, hx⟩

theorem storeGet_lfu_hit {cfg : Cfg} (hp : cfg.policy = .lfu) {now tick k v : Nat} {items : List Entry}
    (h : (storeGet cfg now tick items k).2 = some v) :
    (storeGet cfg now tick items k).1 = upd k (fun x => { x with cnt := x.cnt + 1 }) items := by
  rw [storeGet_eq] at h ⊢
  unfold storeGetC at h ⊢
  split
  · rename_i hf; simp [hf] at h
  · rename_i e hf
    simp only [hf] at h
    have hk := (find_some hf).2
    split
    · rename_i hx; simp [hx] at h
    · rw [hp, ← hk]; rfl

theorem insertLfu_count_mem {cap w : Nat} {items : List Entry} {e e' : Entry} (hc : e.cnt = 1)
    (h : e' ∈ (insertLfu cap items e w).items) :
    (e'.key ≠ e.key ∧ e' ∈ items) ∨
    (e'.key = e.key ∧ ((∃ x ∈ items, x.key = e.key ∧ e'.cnt = x.cnt + 1) ∨ (find items e.key = none ∧ e'.cnt = 1))) := by
  unfold insertLfu at h
  split at h
  · rcases upd_count_mem h (fun _ => rfl) (fun _ => rfl) with g | ⟨g1, g2⟩
    · exact Or.inl g
    · exact Or.inr ⟨g1, Or.inl g2⟩
  · rename_i hs
    have hn := find_none_of_not_isSome hs
    have hnew : ∀ {l : List Entry}, l.Sublist items → e' ∈ l ++ [e] →
        (e'.key ≠ e.key ∧ e' ∈ items) ∨
        (e'.key = e.key ∧ ((∃ x ∈ items, x.key = e.key ∧ e'.cnt = x.cnt + 1) ∨ (find items e.key = none ∧ e'.cnt = 1))) := by
      intro l hl hm
      simp only [List.mem_append, List.mem_singleton] at hm
      rcases hm with hm | rfl
      · exact Or.inl ⟨find_none hn e' (hl.subset hm), hl.subset hm⟩
      · exact Or.inr ⟨rfl, Or.inr ⟨hn, hc⟩⟩
    split at h
    · split at h
      · exact hnew (rm_sublist _ _) h
      · exact hnew (List.Sublist.refl _) h
    · exact hnew (List.Sublist.refl _) h

theorem arrive_lfuStep {cfg : Cfg} (hpol : cfg.policy = .lfu) {s : State} (c key svc : Nat) (sc : Step)
    (hl : LInv s) : LfuStep s (arrive cfg s c key svc sc) := by
  unfold arrive
  split
  · exact LfuStep.refl s
  · rename_i hseen
    have hc := mem_seen_of_contains hseen
    simp only []
    split
    · rename_i v hv
      obtain ⟨hn, hone, hoth⟩ := hit_evs c key svc hc hl
      refine LfuStep.of_access _ [reqEv c key svc] rfl hn key hone hoth ?_
      intro e' he'
      change e' ∈ (storeGet cfg s.now s.tick s.store key).1 at he'
      rw [storeGet_lfu_hit hpol hv] at he'
      rcases upd_count_mem he' (fun _ => rfl) (fun _ => rfl) with g | ⟨g1, g2⟩
      · exact Or.inl g
      · exact Or.inr ⟨g1, Or.inl g2⟩
    · rename_i hv
      obtain ⟨hn, hno⟩ := miss_evs c key svc hc hl
      exact LfuStep.of_noaccess _ [reqEv c key svc, .innerCall c s.serial] rfl hn hno
        (fun e' he' => (storeGet_miss_sublist hv).subset he')

theorem lfuStep_quiet {s : State} (s' : State) (evs : List Ev) (hlog : s'.log = s.log ++ evs)
    (hq : ∀ e ∈ evs, Quiet e) (hd : ∀ e ∈ evs, ∀ c v, e ≠ Ev.innerDone c v .ok) (hst : s'.store = s.store) :
    LfuStep s s' :=
  LfuStep.of_noaccess s' evs hlog (quiet_nodone_evs hq hd).1 (quiet_nodone_evs hq hd).2
    (fun e' he' => by rw [hst] at he'; exact he')

theorem completeFail_lfuStep {s : State} (c : Nat) (p : Pend) (r : Res) (ho : p.out ≠ .ok) :
    LfuStep s (completeFail s c p r) := by
  refine lfuStep_quiet _ [.innerDone c p.k p.out, .result c r] rfl ?_ ?_ rfl
  · intro e he; simp at he; rcases he with rfl | rfl; exact quiet_done _ _ _; exact quiet_result _ _
  · intro e he c' v' hee
    subst hee
    simp only [List.mem_cons, List.not_mem_nil, or_false, Ev.innerDone.injEq] at he
    rcases he with he | he
    · exact ho he.2.2.symm
    · cases he

theorem completeOk_lfuStep {cfg : Cfg} (hpol : cfg.policy = .lfu) {s : State} (c w : Nat) (p : Pend)
    (hp : (c, p) ∈ s.pend) (hl : LInv s) : LfuStep s (completeOk cfg s c p w) := by
  have hlog := completeOk_log cfg s c w p
  have hst : (completeOk cfg s c p w).store = (storeInsert cfg s.now s.tick s.store p.key p.k w).items := rfl
  generalize (storeInsert cfg s.now s.tick s.store p.key p.k w).choiceOk = b at hlog
  rw [storeInsert_lfu hpol] at hst
  obtain ⟨hone, hoth⟩ := ok_evs c p b hp hl
  refine LfuStep.of_access _ (okEvs c p.k b) hlog (newCallers_quiet (okEvs_quiet _ _ _)) p.key hone hoth ?_
  intro e' he'
  rw [hst] at he'
  exact insertLfu_count_mem rfl he'

theorem poll_lfuStep {cfg : Cfg} (hpol : cfg.policy = .lfu) {s : State} (c w : Nat) (hl : LInv s) :
    LfuStep s (poll cfg s c w) := by
  unfold poll
  split
  · rename_i v _
    exact lfuStep_quiet _ [.result c (.ok v)] rfl
      (by intro e he; simp at he; subst he; exact quiet_result _ _)
      (by intro e he c' v' hee; subst hee; simp at he) rfl
  · split
    · rename_i p hp
      unfold pollPend
      split
      · split
        · exact completeOk_lfuStep hpol c w p (lookup_mem hp) hl
        · rename_i kd ho
          exact completeFail_lfuStep c p _ (by rw [ho]; simp)
        · rename_i ho
          exact completeFail_lfuStep c p _ (by rw [ho]; simp)
        · exact LfuStep.refl s
      · exact LfuStep.refl s
    · exact LfuStep.refl s

theorem dropC_lfuStep {s : State} (c : Nat) : LfuStep s (dropC s c) := by
  unfold dropC
  split
  · exact lfuStep_quiet _ [] (by simp) (by simp) (by simp) rfl
  · split
    · rename_i p _
      exact lfuStep_quiet _ [.innerDrop c p.k] rfl
        (by intro e he; simp at he; subst he; exact quiet_drop _ _)
        (by intro e he c' v' hee; subst hee; simp at he) rfl
    · exact LfuStep.refl s

/-- **every operation, every state, LFU**: the counts move by the accesses of the step's own log lines -/
theorem step_lfuStep {cfg : Cfg} (hpol : cfg.policy = .lfu) {s : State} (op : Op) (hl : LInv s) :
    LfuStep s (stepS cfg s op) := by
  cases op with
  | adv ms => exact lfuStep_quiet _ [] (by simp [stepS]) (by simp) (by simp) rfl
  | arrive c key svc sc => exact arrive_lfuStep hpol c key svc sc hl
  | poll c w => exact poll_lfuStep hpol c w hl
  | drop c => exact dropC_lfuStep c

/-! ## over the history -/

/-- the count of a resident entry is the number of accesses of its key among the log lines written since the
operation that inserted it -/
def CountedSince (cfg : Cfg) (ops : List Op) (e : Entry) : Prop :=
  ∃ n q, ResidentSince cfg ops e.key n ∧ (run cfg ops).log = (run cfg (ops.take n)).log ++ q ∧
    CountAcc (run cfg ops).log e.key q e.cnt

theorem countedSince_snoc {cfg : Cfg} (hpol : cfg.policy = .lfu) (ops : List Op) (op : Op)
    (ih : ∀ e ∈ (run cfg ops).store, CountedSince cfg ops e) :
    ∀ e ∈ (run cfg (ops ++ [op])).store, CountedSince cfg (ops ++ [op]) e := by
  have hl := (log_inv_reachable cfg ops).1
  obtain ⟨evs, hlog, hn, hst⟩ := step_lfuStep hpol op hl
  rw [← run_snoc] at hlog hst
  intro e' he'
  have hres : (find (run cfg (ops ++ [op])).store e'.key).isSome = true := find_isSome_of_mem he' rfl
  obtain ⟨d, hd, hcase⟩ := hst e' he'
  rcases hcase with ⟨e, he, hek, hcnt⟩ | ⟨hnone, hcnt⟩
  · obtain ⟨n, q, hrs, hq, hc⟩ := ih e he
    rw [hek] at hrs hc
    refine ⟨n, q ++ evs, hrs.snoc_keep op hres, ?_, ?_⟩
    · rw [take_snoc_lt op hrs.1, hlog, hq]; simp
    · rw [hcnt]
      refine CountAcc.append ?_ hd
      rw [hlog]
      exact hc.grow hn (fun x hx => by rw [hq]; simp [hx])
  · refine ⟨ops.length, evs, ResidentSince.snoc_new op hnone hres, ?_, ?_⟩
    · rw [List.take_append_of_le_length (Nat.le_refl _), List.take_length]; exact hlog
    · rw [hcnt]; exact hd

theorem run_nil (cfg : Cfg) : run cfg [] = init := rfl

/-- **LFU: `cnt` = number of accesses since insertion**, after any history -/
theorem lfu_count_since_insertion (cfg : Cfg) (hpol : cfg.policy = .lfu) (ops : List Op) :
    ∀ e ∈ (run cfg ops).store, CountedSince cfg ops e := by
  suffices ∀ rest pre, (∀ e ∈ (run cfg pre).store, CountedSince cfg pre e) →
      ∀ e ∈ (run cfg (pre ++ rest)).store, CountedSince cfg (pre ++ rest) e by
    have := this ops [] (by simp [run_nil, init])
    simpa using this
  intro rest
  induction rest with
  | nil => intro pre h; simpa using h
  | cons o os ih =>
    intro pre h
    have := ih (pre ++ [o]) (countedSince_snoc hpol pre o h)
    simpa using this

/-! ## FIFO: the queue is in the order of the insertions -/

/-- `a`'s key was inserted before `b`'s -/
def InsertedBefore (cfg : Cfg) (ops : List Op) (a b : Nat) : Prop :=
  ∃ na nb, ResidentSince cfg ops a na ∧ ResidentSince cfg ops b nb ∧ na < nb

structure FInv (cfg : Cfg) (ops : List Op) : Prop where
  res : ∀ e ∈ (run cfg ops).store, ∃ n, ResidentSince cfg ops e.key n
  ord : ((run cfg ops).store.map (·.key)).Pairwise (InsertedBefore cfg ops)

theorem keys_of_slots {q q' : List Entry} (h : q'.map slot = q.map slot) : q'.map (·.key) = q.map (·.key) := by
  have := congrArg (List.map Prod.fst) h
  simpa [List.map_map, Function.comp_def, slot] using this

theorem finv_snoc {cfg : Cfg} (hpol : cfg.policy = .fifo) (ops : List Op) (op : Op) (h : FInv cfg ops) :
    FInv cfg (ops ++ [op]) := by
  have hq := step_fifo_queue cfg hpol (run cfg ops) op
  rw [← run_snoc] at hq
  have hres' : ∀ e' ∈ (run cfg (ops ++ [op])).store, (find (run cfg (ops ++ [op])).store e'.key).isSome = true :=
    fun e' he' => find_isSome_of_mem he' rfl
  -- a key of the old store that is still resident keeps its insertion
  have keep : ∀ k, (∃ n, ResidentSince cfg ops k n) → k ∈ (run cfg (ops ++ [op])).store.map (·.key) →
      ∃ n, ResidentSince cfg (ops ++ [op]) k n := by
    intro k ⟨n, hn⟩ hk
    obtain ⟨e', he', rfl⟩ := List.mem_map.mp hk
    exact ⟨n, hn.snoc_keep op (hres' e' he')⟩
  have resk : ∀ k ∈ (run cfg ops).store.map (·.key), ∃ n, ResidentSince cfg ops k n := by
    intro k hk
    obtain ⟨e, he, rfl⟩ := List.mem_map.mp hk
    exact h.res e he
  have ordKeep : ∀ {a b : Nat}, a ∈ (run cfg (ops ++ [op])).store.map (·.key) →
      b ∈ (run cfg (ops ++ [op])).store.map (·.key) → InsertedBefore cfg ops a b →
      InsertedBefore cfg (ops ++ [op]) a b := by
    intro a b ha hb ⟨na, nb, h1, h2, hlt⟩
    obtain ⟨ea, hea, rfl⟩ := List.mem_map.mp ha
    obtain ⟨eb, heb, rfl⟩ := List.mem_map.mp hb
    exact ⟨na, nb, h1.snoc_keep op (hres' ea hea), h2.snoc_keep op (hres' eb heb), hlt⟩
  -- the common part: the new key list is a sublist `l` of the old one, possibly followed by one new key
  have main : ∀ (l : List Nat) (newk : List Nat), (run cfg (ops ++ [op])).store.map (·.key) = l ++ newk →
      l.Sublist ((run cfg ops).store.map (·.key)) →
      (∀ k ∈ newk, find (run cfg ops).store k = none) → newk.length ≤ 1 → FInv cfg (ops ++ [op]) := by
    intro l newk hkeys hsub hnew hlen
    have hmemk : ∀ k, k ∈ l ++ newk → k ∈ (run cfg (ops ++ [op])).store.map (·.key) := by
      intro k hk; rw [hkeys]; exact hk
    have newres : ∀ k ∈ newk, ResidentSince cfg (ops ++ [op]) k ops.length := by
      intro k hk
      obtain ⟨e', he', hek⟩ := List.mem_map.mp (hmemk k (List.mem_append_right _ hk))
      have := hres' e' he'
      rw [hek] at this
      exact ResidentSince.snoc_new op (hnew k hk) this
    constructor
    · intro e' he'
      have hk : e'.key ∈ l ++ newk := by rw [← hkeys]; exact List.mem_map.mpr ⟨e', he', rfl⟩
      rcases List.mem_append.mp hk with hk | hk
      · exact keep _ (resk _ (hsub.subset hk)) (hmemk _ (List.mem_append_left _ hk))
      · exact ⟨ops.length, newres _ hk⟩
    · rw [hkeys, List.pairwise_append]
      refine ⟨?_, ?_, ?_⟩
      · exact (h.ord.sublist hsub).imp_of_mem (fun {a b} ha hb hab =>
          ordKeep (hmemk _ (List.mem_append_left _ ha)) (hmemk _ (List.mem_append_left _ hb)) hab)
      · match newk, hlen with
        | [], _ => exact List.Pairwise.nil
        | [x], _ => exact List.pairwise_singleton _ _
      · intro a ha b hb
        obtain ⟨na, hna⟩ := resk a (hsub.subset ha)
        obtain ⟨na', hna'⟩ := keep a ⟨na, hna⟩ (hmemk _ (List.mem_append_left _ ha))
        have : na' = na := (hna.snoc_keep op (by
          obtain ⟨e', he', hek⟩ := List.mem_map.mp (hmemk _ (List.mem_append_left _ ha))
          rw [← hek]; exact hres' e' he')).unique hna' |>.symm
        exact ⟨na', ops.length, hna', newres b hb, by rw [this]; exact hna.1⟩
  cases hq with
  | same hs =>
    refine main ((run cfg ops).store.map (·.key)) [] (by rw [keys_of_slots hs]; simp) (List.Sublist.refl _) (by simp) (by simp)
  | expire e hf hexp hs =>
    refine main ((rm e.key (run cfg ops).store).map (·.key)) [] (by rw [hs]; simp) ((rm_sublist _ _).map _) (by simp) (by simp)
  | push e hnew hb hroom hs =>
    refine main ((run cfg ops).store.map (·.key)) [e.key] (by rw [hs]; simp) (List.Sublist.refl _) ?_ (by simp)
    intro k hk; simp only [List.mem_singleton] at hk; rw [hk]; exact hnew
  | evict e hnew hb hfull hs =>
    refine main ((run cfg ops).store.tail.map (·.key)) [e.key] (by rw [hs]; simp) ((List.tail_sublist _).map _) ?_ (by simp)
    intro k hk; simp only [List.mem_singleton] at hk; rw [hk]; exact hnew

/-- **FIFO: the queue lists the resident keys in the order of their insertions**, after any history -/
theorem fifo_order_is_insertion_order (cfg : Cfg) (hpol : cfg.policy = .fifo) (ops : List Op) : FInv cfg ops := by
  suffices ∀ rest pre, FInv cfg pre → FInv cfg (pre ++ rest) by
    have := this ops [] ⟨by simp [run_nil, init], by simp [run_nil, init]⟩
    simpa using this
  intro rest
  induction rest with
  | nil => intro pre h; simpa using h
  | cons o os ih =>
    intro pre h
    have := ih (pre ++ [o]) (finv_snoc hpol pre o h)
    simpa using this

end TR.Cache
