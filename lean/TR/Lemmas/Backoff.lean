import TR.Model.Backoff
/-!
# Back-off: monotonicity of the exact value, correctness of the early-exit evaluation,
arithmetic of the jitter envelope (helper lemmas for C14)
-/
namespace TR.Backoff

theorem expo_mono {a b : Nat} (h : a ≤ b) : expo a ≤ expo b := by
  unfold expo; omega

theorem expo_le (a : Nat) : expo a ≤ i32Max := by unfold expo; omega

theorem expo_of_le {a : Nat} (h : a ≤ i32Max) : expo a = a := by unfold expo; omega

theorem expo_of_ge {a : Nat} (h : i32Max ≤ a) : expo a = i32Max := by unfold expo; omega

/-- one more factor `p/q ≥ 1` does not decrease the floor -/
theorem rawE_step (i p q e : Nat) (hq : 0 < q) (hpq : q ≤ p) :
    i * p ^ e / q ^ e ≤ i * p ^ (e + 1) / q ^ (e + 1) := by
  have h1 : i * p ^ e / q ^ e = i * p ^ e * q / (q ^ e * q) := (Nat.mul_div_mul_right _ _ hq).symm
  have h2 : i * p ^ (e + 1) = i * p ^ e * p := by rw [Nat.pow_succ, Nat.mul_assoc]
  rw [h1, h2, Nat.pow_succ]
  exact Nat.div_le_div_right (Nat.mul_le_mul_left _ hpq)

theorem rawE_mono (i p q : Nat) (hq : 0 < q) (hpq : q ≤ p) (e d : Nat) :
    i * p ^ e / q ^ e ≤ i * p ^ (e + d) / q ^ (e + d) := by
  induction d with
  | zero => exact Nat.le_refl _
  | succ d ih => exact Nat.le_trans ih (rawE_step i p q (e + d) hq hpq)

theorem raw_mono (cfg : Cfg) (hv : cfg.Valid) {a b : Nat} (h : a ≤ b) : raw cfg a ≤ raw cfg b := by
  unfold raw
  have he := expo_mono h
  obtain ⟨d, hd⟩ := Nat.exists_eq_add_of_le he
  rw [hd]
  exact rawE_mono _ _ _ hv.den_pos hv.ge_one _ _

theorem ideal_mono (cfg : Cfg) (hv : cfg.Valid) {a b : Nat} (h : a ≤ b) : ideal cfg a ≤ ideal cfg b := by
  unfold ideal
  have := raw_mono cfg hv h
  omega

/-- the early-exit loop computes the capped floor -/
theorem go_eq (cap i p q : Nat) (hq : 0 < q) (hpq : q ≤ p) : ∀ f k,
    go cap p q f (i * p ^ k) (q ^ k) = min (i * p ^ (k + f) / q ^ (k + f)) cap := by
  intro f
  induction f with
  | zero => intro k; simp [go]
  | succ f ih =>
    intro k
    unfold go
    split
    · rename_i hc
      have := rawE_mono i p q hq hpq k (f + 1)
      omega
    · have h1 : i * p ^ k * p = i * p ^ (k + 1) := by rw [Nat.pow_succ, Nat.mul_assoc]
      have h2 : q ^ k * q = q ^ (k + 1) := by rw [Nat.pow_succ]
      rw [h1, h2, ih (k + 1)]
      have : k + 1 + f = k + (f + 1) := by omega
      rw [this]

/-- the driver's evaluation is the specification -/
theorem idealExec_eq (cfg : Cfg) (hv : cfg.Valid) (a : Nat) : idealExec cfg a = ideal cfg a := by
  unfold idealExec ideal raw
  split
  · rename_i h
    rcases h with h | h
    · have hpos : 0 < cfg.den ^ expo a := Nat.pow_pos hv.den_pos
      rw [h, Nat.mul_div_cancel _ hpos]
    · rw [h]; simp
  · have := go_eq cfg.capNs cfg.initial cfg.num cfg.den hv.den_pos hv.ge_one (expo a) 0
    simp at this
    exact this

/-! ## the effective exponent -/

theorem goP_fst (cap p q : Nat) : ∀ f n d k, (goP cap p q f n d k).1 = go cap p q f n d := by
  intro f
  induction f with
  | zero => intro n d k; simp [goP, go]
  | succ f ih =>
    intro n d k
    unfold goP go
    split
    · rfl
    · exact ih _ _ _

theorem goP_snd (cap p q : Nat) : ∀ f n d k, k ≤ (goP cap p q f n d k).2 ∧ (goP cap p q f n d k).2 ≤ k + f := by
  intro f
  induction f with
  | zero => intro n d k; simp [goP]
  | succ f ih =>
    intro n d k
    unfold goP
    split
    · simp
    · have := ih (n * p) (d * q) (k + 1)
      omega

theorem idealExecP_fst (cfg : Cfg) (a : Nat) : (idealExecP cfg a).1 = idealExec cfg a := by
  unfold idealExecP idealExec
  split
  · rfl
  · exact goP_fst _ _ _ _ _ _ _

/-- the effective exponent never exceeds the exponent the code uses -/
theorem effExp_le (cfg : Cfg) (a : Nat) : effExp cfg a ≤ expo a := by
  unfold effExp idealExecP
  split
  · exact Nat.zero_le _
  · have := (goP_snd cfg.capNs cfg.num cfg.den (expo a) cfg.initial 1 0).2
    omega

/-- the effective exponent stops at the first exponent at which the exact value has reached the cap: if it is smaller
than the exponent of the attempt, the exact value IS the cap -/
theorem goP_stopped (cap p q : Nat) : ∀ f n d k, (goP cap p q f n d k).2 < k + f → (goP cap p q f n d k).1 = cap := by
  intro f
  induction f with
  | zero => intro n d k h; have := (goP_snd cap p q 0 n d k).1; omega
  | succ f ih =>
    intro n d k h
    unfold goP at h ⊢
    split
    · rfl
    · rename_i hc
      rw [if_neg hc] at h
      exact ih _ _ _ (by omega)

theorem tolE_eq_tol (x e : Nat) (h : e ≤ 4092) : tolE x e = tol x := by
  unfold tolE tol
  have h1 : max 8192 (2 * e + 8) = 8192 := by omega
  rw [h1]
  have : x * 8192 / 2 ^ 53 = x / 2 ^ 40 := by
    have h2 : (2 : Nat) ^ 53 = 8192 * 2 ^ 40 := by decide
    rw [h2, Nat.mul_comm x 8192]
    exact Nat.mul_div_mul_left _ _ (by decide)
  omega

theorem nearE_spec {v x e : Nat} (h : nearE v x e = true) : v ≤ x + tolE x e ∧ x ≤ v + tolE x e := by
  simpa [nearE] using h

/-! ## floor characterisation -/

theorem raw_floor (cfg : Cfg) (hv : cfg.Valid) (a : Nat) :
    raw cfg a * cfg.den ^ expo a ≤ cfg.initial * cfg.num ^ expo a ∧
    cfg.initial * cfg.num ^ expo a < (raw cfg a + 1) * cfg.den ^ expo a := by
  unfold raw
  have hpos : 0 < cfg.den ^ expo a := Nat.pow_pos hv.den_pos
  constructor
  · exact Nat.div_mul_le_self _ _
  · have h1 := Nat.div_add_mod (cfg.initial * cfg.num ^ expo a) (cfg.den ^ expo a)
    have h2 := Nat.mod_lt (cfg.initial * cfg.num ^ expo a) hpos
    rw [Nat.add_mul, Nat.one_mul, Nat.mul_comm _ (cfg.den ^ expo a)]
    omega

/-! ## jitter arithmetic -/

theorem jitterLo_le (x pct : Nat) : jitterLo x pct ≤ x := by
  unfold jitterLo
  apply Nat.div_le_of_le_mul
  rw [Nat.mul_comm 100 x]
  exact Nat.mul_le_mul_left _ (by omega)

theorem le_jitterHi (x pct : Nat) : x ≤ jitterHi x pct := by
  unfold jitterHi
  rw [Nat.le_div_iff_mul_le (by omega)]
  exact Nat.mul_le_mul_left _ (by omega)

theorem jitterHi_le (x pct : Nat) (h : pct ≤ 100) : jitterHi x pct ≤ 2 * x := by
  unfold jitterHi
  apply Nat.div_le_of_le_mul
  have : x * (100 + pct) ≤ x * 200 := Nat.mul_le_mul_left _ (by omega)
  omega

theorem jittered_bounds (x pct r s : Nat) (hr : r ≤ s) :
    jitterLo x pct ≤ jittered x pct r s ∧ jittered x pct r s ≤ jitterHi x pct := by
  unfold jittered
  have hlo := jitterLo_le x pct
  have hhi := le_jitterHi x pct
  refine ⟨Nat.le_add_right _ _, ?_⟩
  have : (jitterHi x pct - jitterLo x pct) * r / s ≤ jitterHi x pct - jitterLo x pct := by
    apply Nat.div_le_of_le_mul
    rw [Nat.mul_comm s]
    exact Nat.mul_le_mul_left _ hr
  omega

/-! ## the envelope accepted for observed values -/

theorem near_spec {v x : Nat} (h : near v x = true) : v ≤ x + tol x ∧ x ≤ v + tol x := by
  simpa [near] using h

/-! ## (B) totality of the repaired code over any arithmetic satisfying the laws -/

theorem nextInterval_total (fl : FloatLike) (initial : Nat) (mult : fl.F) (attempt : Nat) (max : Option Nat)
    (hmax : ∀ c, max = some c → c ≤ durMax) :
    ∃ d, nextInterval fl initial mult attempt max = .dur d ∧ d ≤ max.getD durMax := by
  have hcap : max.getD durMax ≤ durMax := by
    cases max with
    | none => exact Nat.le_refl _
    | some c => exact hmax c rfl
  unfold nextInterval
  simp only
  split
  · exact ⟨0, rfl, Nat.zero_le _⟩
  · split
    · exact ⟨_, rfl, Nat.le_refl _⟩
    · rename_i hlt
      have hlt' : fl.lt (fl.mul (fl.ofDur initial) (fl.powi mult (expo attempt))) (fl.ofDur (max.getD durMax)) = true := by
        simpa using hlt
      split
      · exact ⟨0, rfl, Nat.zero_le _⟩
      · rename_i hle
        have htop := fl.lt_ofDur_top _ _ hcap hlt'
        have hnz : fl.lt (fl.mul (fl.ofDur initial) (fl.powi mult (expo attempt))) fl.zero = false := by
          cases hz : fl.lt (fl.mul (fl.ofDur initial) (fl.powi mult (expo attempt))) fl.zero with
          | false => rfl
          | true => exact absurd (fl.lt_le _ _ hz) hle
        have hdef := fl.toDur_defined _ htop hnz
        split
        · rename_i d _
          exact ⟨min d (max.getD durMax), rfl, Nat.min_le_right _ _⟩
        · rename_i hnone
          rw [hnone] at hdef
          simp at hdef

theorem randomize_total (fl : FloatLike) (r : fl.F) : ∃ d, randomize fl r = .dur d := by
  unfold randomize
  simp only
  split
  · rename_i hlt
    have hdef := fl.toDur_defined _ hlt (fl.max_zero_nonneg r)
    split
    · exact ⟨_, rfl⟩
    · rename_i hnone
      rw [hnone] at hdef
      simp at hdef
  · exact ⟨_, rfl⟩

/-! ## proofs of the C14 statements that unfold model definitions (kept here so that the property file
contains statements only) -/

/-- the configuration underlying a kind is valid -/
def KindValid : Kind → Prop
  | .exp cfg => cfg.Valid
  | .rand cfg _ _ => cfg.Valid
  | _ => True


theorem ideal_capped_aux (cfg : Cfg) (a : Nat) : ideal cfg a ≤ cfg.capNs := by
  unfold ideal; omega

theorem ideal_no_overflow_aux (cfg : Cfg) (a : Nat) (hc : ∀ c, cfg.cap = some c → c ≤ durMax) :
    ideal cfg a ≤ durMax := by
  have := ideal_capped_aux cfg a
  have : cfg.capNs ≤ durMax := by
    unfold Cfg.capNs
    cases h : cfg.cap with
    | none => exact Nat.le_refl _
    | some c => exact hc c h
  omega

theorem ideal_exact_below_cap_aux (cfg : Cfg) (hv : cfg.Valid) (a : Nat) (h : raw cfg a < cfg.capNs) :
    ideal cfg a = cfg.initial * cfg.num ^ expo a / cfg.den ^ expo a ∧
    ideal cfg a * cfg.den ^ expo a ≤ cfg.initial * cfg.num ^ expo a ∧
    cfg.initial * cfg.num ^ expo a < (ideal cfg a + 1) * cfg.den ^ expo a := by
  have hi : ideal cfg a = raw cfg a := by unfold ideal; omega
  rw [hi]
  exact ⟨rfl, raw_floor cfg hv a⟩

theorem ideal_constant_beyond_i32_aux (cfg : Cfg) (a : Nat) (h : i32Max ≤ a) : ideal cfg a = ideal cfg i32Max := by
  unfold ideal raw
  rw [expo_of_ge h, expo_of_ge (Nat.le_refl _)]

theorem ideal_cap_reached_forever_aux (cfg : Cfg) (hv : cfg.Valid) (a b : Nat) (h : cfg.capNs ≤ raw cfg a)
    (hab : a ≤ b) : ideal cfg b = cfg.capNs := by
  have := raw_mono cfg hv hab
  unfold ideal; omega

theorem ideal_cap_below_initial_aux (cfg : Cfg) (hv : cfg.Valid) (h : cfg.capNs ≤ cfg.initial) (a : Nat) :
    ideal cfg a = cfg.capNs := by
  apply ideal_cap_reached_forever_aux cfg hv 0 a _ (Nat.zero_le _)
  simp [raw, expo]
  exact h

theorem ideal_zero_initial_aux (cfg : Cfg) (h : cfg.initial = 0) (a : Nat) : ideal cfg a = 0 := by
  simp [ideal, raw, h]

theorem policy_capped_aux (k : Kind) (a v : Nat) (h : k.base a = some v) : v ≤ k.bound := by
  cases k with
  | none => simp [Kind.base] at h
  | fixed d => simp [Kind.base] at h; simp [Kind.bound, h]
  | exp cfg => simp [Kind.base] at h; rw [← h]; exact ideal_capped_aux cfg a
  | rand cfg fn fd => simp [Kind.base] at h; rw [← h]; exact ideal_capped_aux cfg a

theorem policy_monotone_aux (k : Kind) (hv : KindValid k) (a b va vb : Nat) (hab : a ≤ b)
    (ha : k.base a = some va) (hb : k.base b = some vb) : va ≤ vb := by
  cases k with
  | none => simp [Kind.base] at ha
  | fixed d => simp [Kind.base] at ha hb; omega
  | exp cfg => simp [Kind.base] at ha hb; rw [← ha, ← hb]; exact ideal_mono cfg hv hab
  | rand cfg fn fd => simp [Kind.base] at ha hb; rw [← ha, ← hb]; exact ideal_mono cfg hv hab

theorem allowed_choice_sound_aux (cfg : Cfg) (hv : cfg.Valid) (a v : Nat) (h : allowedExp cfg a v = true) :
    v ≤ cfg.capNs ∧ v ≤ ideal cfg a + tolE (ideal cfg a) (effExp cfg a) ∧ ideal cfg a ≤ v + tolE (ideal cfg a) (effExp cfg a) := by
  unfold allowedExp at h
  rw [idealExecP_fst, idealExec_eq cfg hv] at h
  split at h
  · have hv' : v = ideal cfg a := by simpa using h
    subst hv'
    exact ⟨ideal_capped_aux cfg a, Nat.le_add_right _ _, Nat.le_add_right _ _⟩
  · simp at h
    exact ⟨h.1, nearE_spec h.2⟩

theorem jittered_ideal_bounded_aux (cfg : Cfg) (a pct r s : Nat) (hp : pct ≤ 100) (hr : r ≤ s) :
    jittered (ideal cfg a) pct r s ≤ 2 * cfg.capNs := by
  have h1 := ((show jitterLo (ideal cfg a) pct ≤ jittered (ideal cfg a) pct r s ∧ jittered (ideal cfg a) pct r s ≤ jitterHi (ideal cfg a) pct ∧ jitterLo (ideal cfg a) pct ≤ ideal cfg a ∧ ideal cfg a ≤ jitterHi (ideal cfg a) pct ∧ jitterHi (ideal cfg a) pct ≤ 2 * ideal cfg a from ⟨(jittered_bounds _ pct r s hr).1, (jittered_bounds _ pct r s hr).2, jitterLo_le _ pct, le_jitterHi _ pct, jitterHi_le _ pct hp⟩))
  have h2 := ideal_capped_aux cfg a
  omega

/-! ## jitter with an arbitrary rational factor `fn/fd` -/

theorem jitterLo_eq_Q (x pct : Nat) : jitterLo x pct = jitterLoQ x pct 100 := rfl
theorem jitterHi_eq_Q (x pct : Nat) : jitterHi x pct = jitterHiQ x pct 100 := rfl
theorem jittered_eq_Q (x pct r s : Nat) : jittered x pct r s = jitteredQ x pct 100 r s := rfl

theorem jitterLoQ_le (x fn fd : Nat) : jitterLoQ x fn fd ≤ x := by
  unfold jitterLoQ
  apply Nat.div_le_of_le_mul
  rw [Nat.mul_comm fd x]
  exact Nat.mul_le_mul_left _ (Nat.sub_le _ _)

theorem le_jitterHiQ (x fn fd : Nat) (hd : 0 < fd) : x ≤ jitterHiQ x fn fd := by
  unfold jitterHiQ
  rw [Nat.le_div_iff_mul_le hd]
  exact Nat.mul_le_mul_left _ (Nat.le_add_right _ _)

theorem jitterHiQ_le (x fn fd : Nat) (h : fn ≤ fd) : jitterHiQ x fn fd ≤ 2 * x := by
  unfold jitterHiQ
  apply Nat.div_le_of_le_mul
  have : x * (fd + fn) ≤ x * (2 * fd) := Nat.mul_le_mul_left _ (by omega)
  calc x * (fd + fn) ≤ x * (2 * fd) := this
    _ = fd * (2 * x) := by rw [Nat.mul_comm 2 fd, ← Nat.mul_assoc, Nat.mul_comm x fd, Nat.mul_assoc, Nat.mul_comm x 2]

theorem jitteredQ_bounds (x fn fd r s : Nat) (hd : 0 < fd) (hr : r ≤ s) :
    jitterLoQ x fn fd ≤ jitteredQ x fn fd r s ∧ jitteredQ x fn fd r s ≤ jitterHiQ x fn fd := by
  unfold jitteredQ
  have hlo := jitterLoQ_le x fn fd
  have hhi := le_jitterHiQ x fn fd hd
  refine ⟨Nat.le_add_right _ _, ?_⟩
  have : (jitterHiQ x fn fd - jitterLoQ x fn fd) * r / s ≤ jitterHiQ x fn fd - jitterLoQ x fn fd := by
    apply Nat.div_le_of_le_mul
    rw [Nat.mul_comm s]
    exact Nat.mul_le_mul_left _ hr
  omega

/-- a factor 0 leaves the value alone -/
theorem jitterQ_zero (x fd : Nat) (hd : 0 < fd) : jitterLoQ x 0 fd = x ∧ jitterHiQ x 0 fd = x := by
  unfold jitterLoQ jitterHiQ
  simp [Nat.mul_div_cancel _ hd]

/-- what the constructor stores is a factor in `[0,1]` whenever it is a number at all (`fd = 0 = fn` is NaN) -/
theorem clampFactor_le (fn fd : Nat) : (clampFactor fn fd).1 ≤ (clampFactor fn fd).2 := by
  unfold clampFactor; split <;> simp <;> omega

theorem clampFactor_pos (fn fd : Nat) (h : 0 < fn ∨ 0 < fd) : 0 < (clampFactor fn fd).2 := by
  unfold clampFactor; split <;> simp <;> omega

theorem clampFactor_id (fn fd : Nat) (h : fn ≤ fd) : clampFactor fn fd = (fn, fd) := by
  unfold clampFactor; split
  · omega
  · rfl

theorem allowed_rand_sound_aux (cfg : Cfg) (hv : cfg.Valid) (fn fd a v : Nat) (h : allowedRand cfg fn fd a v = true) :
    jitterLoQ (ideal cfg a) fn fd ≤ v + tolE (ideal cfg a) (effExp cfg a) + 1 ∧
    v ≤ jitterHiQ (ideal cfg a) fn fd + 2 * tolE (ideal cfg a) (effExp cfg a) + 1 ∧ v ≤ durMax := by
  unfold allowedRand at h
  rw [idealExecP_fst, idealExec_eq cfg hv] at h
  simp at h
  exact ⟨h.1.1, h.1.2, h.2⟩

/-! ## the exact region -/

theorem pow2Of_spec {num den j : Nat} (h : pow2Of num den = some j) : num = 2 ^ j * den := by
  unfold pow2Of at h
  have := List.find?_some h
  simpa using this

/-- with a multiplier `2^j` the un-capped value is `initial · 2^(j·e)`, an integer: no rounding anywhere -/
theorem raw_pow2 (cfg : Cfg) (j : Nat) (hd : 0 < cfg.den) (h : cfg.num = 2 ^ j * cfg.den) (a : Nat) :
    raw cfg a = cfg.initial * 2 ^ (j * expo a) := by
  unfold raw
  rw [h, Nat.mul_pow, ← Nat.pow_mul, ← Nat.mul_assoc]
  exact Nat.mul_div_cancel _ (Nat.pow_pos hd)

theorem exactRegion_valid {cfg : Cfg} (h : exactRegion cfg = true) : cfg.Valid := by
  unfold exactRegion at h
  simp at h
  obtain ⟨⟨⟨⟨hd, _⟩, _⟩, _⟩, hp⟩ := h
  obtain ⟨j, hj⟩ := Option.isSome_iff_exists.mp hp
  have := pow2Of_spec hj
  refine ⟨hd, ?_⟩
  rw [this]
  exact Nat.le_mul_of_pos_left _ (Nat.pow_pos (by decide))

/-! ## the history of accepted observations is monotone in the attempt number -/

/-- every two accepted observations of one configuration are ordered like their attempt numbers
(in particular: the same attempt, the same value) -/
def HistMono (l : List (Nat × Nat)) : Prop := ∀ p ∈ l, ∀ q ∈ l, p.1 ≤ q.1 → p.2 ≤ q.2

theorem obsOk_spec {a v : Nat} {l : List (Nat × Nat)} (h : obsOk a v l = true) :
    ∀ p ∈ l, (p.1 ≤ a → p.2 ≤ v) ∧ (a ≤ p.1 → v ≤ p.2) := by
  intro p hp
  unfold obsOk at h
  have := (List.all_eq_true.mp h) p hp
  simp at this
  constructor
  · intro h1; rcases this.1 with h2 | h2
    · omega
    · exact h2
  · intro h1; rcases this.2 with h2 | h2
    · omega
    · exact h2

theorem HistMono_cons {a v : Nat} {l : List (Nat × Nat)} (hl : HistMono l) (h : obsOk a v l = true) :
    HistMono ((a, v) :: l) := by
  have hs := obsOk_spec h
  intro p hp q hq hpq
  rcases List.mem_cons.mp hp with rfl | hp' <;> rcases List.mem_cons.mp hq with rfl | hq'
  · exact Nat.le_refl _
  · exact (hs q hq').2 hpq
  · exact (hs p hp').1 hpq
  · exact hl p hp' q hq' hpq

def HistInv (h : Hist) : Prop := ∀ cfg, HistMono (histGet h cfg)

theorem histGet_set_same (h : Hist) (cfg : Cfg) (l : List (Nat × Nat)) : histGet (histSet h cfg l) cfg = l := by
  induction h with
  | nil => simp [histSet, histGet]
  | cons hd tl ih =>
    obtain ⟨c, l0⟩ := hd
    unfold histSet
    split
    · rename_i hc; simp [histGet, hc]
    · rename_i hc; simp [histGet, hc, ih]

theorem histGet_set_other (h : Hist) (cfg c' : Cfg) (l : List (Nat × Nat)) (hne : c' ≠ cfg) :
    histGet (histSet h cfg l) c' = histGet h c' := by
  induction h with
  | nil => simp [histSet, histGet]; intro h; exact absurd h.symm hne
  | cons hd tl ih =>
    obtain ⟨c, l0⟩ := hd
    unfold histSet
    split
    · rename_i hc
      subst hc
      have : ¬ c = c' := fun h => hne h.symm
      simp [histGet, this]
    · rename_i hc
      simp only [histGet]
      split
      · rfl
      · exact ih

theorem HistInv_nil : HistInv [] := by
  intro cfg p hp; simp [histGet] at hp

theorem record_HistInv {h h' : Hist} {k : Kind} {a : Nat} {o : Obs} (hi : HistInv h) (hr : record h k a o = some h') :
    HistInv h' := by
  cases k <;> cases o <;> simp [record] at hr <;> try (subst hr; exact hi)
  rename_i cfg v
  obtain ⟨hok, rfl⟩ := hr
  intro c'
  by_cases hc : c' = cfg
  · subst hc
    rw [histGet_set_same]
    exact HistMono_cons (hi c') hok
  · rw [histGet_set_other _ _ _ _ hc]
    exact hi c'

theorem record_keeps {h h' : Hist} {k : Kind} {a : Nat} {o : Obs} (hr : record h k a o = some h') (cfg : Cfg)
    (p : Nat × Nat) (hp : p ∈ histGet h cfg) : p ∈ histGet h' cfg := by
  cases k <;> cases o <;> simp [record] at hr <;> try (subst hr; exact hp)
  rename_i c v
  obtain ⟨_, rfl⟩ := hr
  by_cases hc : cfg = c
  · subst hc
    rw [histGet_set_same]
    exact List.mem_cons_of_mem _ hp
  · rw [histGet_set_other _ _ _ _ hc]
    exact hp

theorem record_exp {h h' : Hist} {cfg : Cfg} {a v : Nat} (hr : record h (.exp cfg) a (.ns v) = some h') :
    (a, v) ∈ histGet h' cfg := by
  simp [record] at hr
  obtain ⟨_, rfl⟩ := hr
  rw [histGet_set_same]
  exact List.mem_cons_self

/-- one `probe backoff` line keeps the invariant -/
theorem probe_HistInv (st : St) (ws : List String) (h : HistInv st.hist) : HistInv (probe st ws).1.hist := by
  unfold probe
  simp only
  split
  · split
    · rename_i h' hr
      exact record_HistInv h hr
    · exact h
  · exact h

/-- an accepted un-jittered observation is allowed for its kind and recorded … -/
theorem probe_records (st : St) (ws : List String) (cfg : Cfg) (v : Nat)
    (hk : parseKind (kvMerge st.hdr (parseKv ws)) = .exp cfg) (ho : parseObs ws = .ns v)
    (hacc : (probe st ws).2 ≠ [.raw "choice-not-allowed"]) :
    ((kvMerge st.hdr (parseKv ws)).nat "attempt" 0, v) ∈ histGet (probe st ws).1.hist cfg ∧
    allowedExp cfg ((kvMerge st.hdr (parseKv ws)).nat "attempt" 0) v = true := by
  unfold probe at hacc ⊢
  simp only [hk, ho] at hacc ⊢
  split
  · rename_i hall
    split
    · rename_i h' hr
      exact ⟨record_exp hr, by simpa [Kind.allowed] using hall⟩
    · rename_i hno
      simp [hall, hno] at hacc
  · rename_i hall
    simp [hall] at hacc

/-- … and nothing recorded is ever forgotten -/
theorem probe_keeps (st : St) (ws : List String) (cfg : Cfg) (p : Nat × Nat) (hp : p ∈ histGet st.hist cfg) :
    p ∈ histGet (probe st ws).1.hist cfg := by
  unfold probe
  simp only
  split
  · split
    · rename_i h' hr
      exact record_keeps hr cfg p hp
    · exact hp
  · exact hp

/-- the whole run of the driver's machine -/
def runM (st : St) (ops : List (List String)) : St := ops.foldl (fun s ws => (machine.step s ws).1) st

theorem step_HistInv (st : St) (ws : List String) (h : HistInv st.hist) : HistInv (machine.step st ws).1.hist := by
  show HistInv (match ws with | "probe" :: "backoff" :: rest => probe st rest | _ => (st, [])).1.hist
  split
  · exact probe_HistInv st _ h
  · exact h

theorem runM_HistInv (ops : List (List String)) (st : St) (h : HistInv st.hist) : HistInv (runM st ops).hist := by
  induction ops generalizing st with
  | nil => exact h
  | cons ws tl ih => exact ih _ (step_HistInv st ws h)

/-! ## the builder: a fold of setters whose result depends only on the last value of each setting -/

/-- the setter is a `multiplier(..)` (otherwise a `max_interval(..)`) -/
def Setter.isMult : Setter → Bool
  | .mult _ _ => true
  | .cap _ => false

/-- the multiplier set last in a chain, if any -/
def lastMult : List Setter → Option (Nat × Nat)
  | [] => none
  | s :: tl =>
    match lastMult tl with
    | some r => some r
    | none =>
      match s with
      | .mult p q => some (p, q)
      | .cap _ => none

/-- the maximum set last in a chain, if any -/
def lastCap : List Setter → Option Nat
  | [] => none
  | s :: tl =>
    match lastCap tl with
    | some r => some r
    | none =>
      match s with
      | .cap c => some c
      | .mult _ _ => none

/-- `cfg` with its multiplier / maximum replaced where a value is given -/
def ofLast (cfg : Cfg) (m : Option (Nat × Nat)) (c : Option Nat) : Cfg :=
  { initial := cfg.initial, num := (m.getD (cfg.num, cfg.den)).1, den := (m.getD (cfg.num, cfg.den)).2,
    cap := match c with | some x => some x | none => cfg.cap }

theorem foldl_last (l : List Setter) (cfg : Cfg) :
    l.foldl applySetter cfg = ofLast cfg (lastMult l) (lastCap l) := by
  induction l generalizing cfg with
  | nil => rfl
  | cons s tl ih =>
    simp only [List.foldl_cons]
    rw [ih]
    cases s with
    | mult p q =>
      simp only [lastMult, lastCap]
      cases lastMult tl <;> cases lastCap tl <;> simp [ofLast, applySetter]
    | cap c =>
      simp only [lastMult, lastCap]
      cases lastMult tl <;> cases lastCap tl <;> simp [ofLast, applySetter]

/-- the result of a chain is determined by the last multiplier and the last maximum in it -/
theorem build_last (i : Nat) (l : List Setter) : build i l = ofLast (newCfg i) (lastMult l) (lastCap l) :=
  foldl_last l (newCfg i)

theorem lastMult_append (l r : List Setter) :
    lastMult (l ++ r) = match lastMult r with | some x => some x | none => lastMult l := by
  induction l with
  | nil => simp [lastMult]; cases lastMult r <;> rfl
  | cons s tl ih =>
    simp only [List.cons_append, lastMult, ih]
    cases lastMult r <;> simp

theorem lastCap_append (l r : List Setter) :
    lastCap (l ++ r) = match lastCap r with | some x => some x | none => lastCap l := by
  induction l with
  | nil => simp [lastCap]; cases lastCap r <;> rfl
  | cons s tl ih =>
    simp only [List.cons_append, lastCap, ih]
    cases lastCap r <;> simp

theorem lastMult_none_of (l : List Setter) (h : ∀ s ∈ l, s.isMult = false) : lastMult l = none := by
  induction l with
  | nil => rfl
  | cons s tl ih =>
    simp only [lastMult, ih (fun s' hs' => h s' (List.mem_cons_of_mem _ hs'))]
    have hs := h s List.mem_cons_self
    cases s <;> simp_all [Setter.isMult]

theorem lastCap_none_of (l : List Setter) (h : ∀ s ∈ l, s.isMult = true) : lastCap l = none := by
  induction l with
  | nil => rfl
  | cons s tl ih =>
    simp only [lastCap, ih (fun s' hs' => h s' (List.mem_cons_of_mem _ hs'))]
    have hs := h s List.mem_cons_self
    cases s <;> simp_all [Setter.isMult]

/-- a `multiplier(p/q)` after which no other `multiplier` follows is the last one, whatever else stands around it -/
theorem lastMult_append_cons (pre post : List Setter) (p q : Nat) (h : ∀ s ∈ post, s.isMult = false) :
    lastMult (pre ++ .mult p q :: post) = some (p, q) := by
  rw [lastMult_append]
  simp [lastMult, lastMult_none_of post h]

theorem lastCap_append_cons (pre post : List Setter) (c : Nat) (h : ∀ s ∈ post, s.isMult = true) :
    lastCap (pre ++ .cap c :: post) = some c := by
  rw [lastCap_append]
  simp [lastCap, lastCap_none_of post h]

/-- two adjacent setters of different settings may be exchanged -/
theorem last_swap (pre post : List Setter) (s t : Setter) (h : s.isMult ≠ t.isMult) :
    lastMult (pre ++ s :: t :: post) = lastMult (pre ++ t :: s :: post) ∧
    lastCap (pre ++ s :: t :: post) = lastCap (pre ++ t :: s :: post) := by
  rw [lastMult_append, lastMult_append, lastCap_append, lastCap_append]
  cases s <;> cases t <;> simp [Setter.isMult] at h <;>
    (simp only [lastMult, lastCap]; cases lastMult post <;> cases lastCap post <;> simp)

/-- of two adjacent setters of the same setting only the second counts -/
theorem last_override (pre post : List Setter) (s t : Setter) (h : s.isMult = t.isMult) :
    lastMult (pre ++ s :: t :: post) = lastMult (pre ++ t :: post) ∧
    lastCap (pre ++ s :: t :: post) = lastCap (pre ++ t :: post) := by
  rw [lastMult_append, lastMult_append, lastCap_append, lastCap_append]
  cases s <;> cases t <;> simp [Setter.isMult] at h <;>
    (simp only [lastMult, lastCap]; cases lastMult post <;> cases lastCap post <;> simp)

theorem ofLast_capNs (cfg : Cfg) (m : Option (Nat × Nat)) (c : Nat) : (ofLast cfg m (some c)).capNs = c := rfl

end TR.Backoff
