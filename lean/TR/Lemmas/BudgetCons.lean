import TR.Model.Budget
/-!
# Conservation for EVERY configuration (no well-formedness hypothesis)

`TR.Lemmas.Budget` proves conservation, the cap and linearizability together, under `WF cfg` (needed for the cap only).
Conservation itself needs nothing: a grant takes `cost` from a balance the thread has seen to cover it and that the
compare-exchange found unchanged; a deposit adds at most `amount`. This file proves it for arbitrary `cfg` — initial
balance above the maximum, decrease factor above one, anything.
-/
namespace TR.Budget

/-- the only register fact conservation needs: a thread about to compare-exchange loaded a balance that covers the cost -/
def casOK (cfg : Cfg) (t : Thread) : Prop :=
  match t.pc with
  | .cas reg => reg ≥ cfg.cost
  | _ => True

structure Inv0 (cfg : Cfg) (s : State) : Prop where
  cons : s.granted * cfg.cost + s.tokens ≤ cfg.initial + s.deposits * cfg.amount
  regs : ∀ (i : Nat) (t : Thread), s.threads[i]? = some t → casOK cfg t

theorem stepThread_cons (cfg : Cfg) (s : State) (tid : Nat) (t : Thread) (h : Inv0 cfg s) (ht : casOK cfg t) :
    (stepThread cfg s tid t).1.granted * cfg.cost + (stepThread cfg s tid t).1.tokens
        ≤ cfg.initial + (stepThread cfg s tid t).1.deposits * cfg.amount ∧
      casOK cfg (stepThread cfg s tid t).2 ∧ (stepThread cfg s tid t).1.threads = s.threads := by
  have hc := h.cons
  unfold stepThread
  split
  · exact ⟨hc, ht, rfl⟩
  · -- W load
    unfold wLoad
    split
    · split
      · exact ⟨hc, by simp [casOK], rfl⟩
      · exact ⟨hc, by simp [casOK, Thread.finish], rfl⟩
    · rename_i hge
      exact ⟨hc, by simp only [casOK]; omega, rfl⟩
  · -- W cas
    rename_i rest reg hp hpcs
    have hreg : reg ≥ cfg.cost := by simpa [casOK, hpcs] using ht
    unfold wCas
    split
    · rename_i heq
      refine ⟨?_, by simp [casOK, Thread.finish], rfl⟩
      show (s.granted + 1) * cfg.cost + (reg - cfg.cost) ≤ cfg.initial + s.deposits * cfg.amount
      rw [Nat.add_mul]; omega
    · exact ⟨hc, by simp [casOK], rfl⟩
  · exact ⟨hc, by simp [casOK], rfl⟩
  · exact ⟨hc, by simp [casOK, Thread.finish], rfl⟩
  · -- D start
    split
    · exact ⟨hc, by simp [casOK], rfl⟩
    · unfold dRmwToken
      refine ⟨?_, by simp [casOK, Thread.finish], rfl⟩
      show s.granted * cfg.cost + min (s.tokens + cfg.amount) cfg.maxTokens ≤ cfg.initial + (s.deposits + 1) * cfg.amount
      have := Nat.min_le_left (s.tokens + cfg.amount) cfg.maxTokens
      rw [Nat.add_mul]; omega
  · -- D (AIMD) rmw
    rename_i rest cp hp hpcs
    unfold dRmwAimd
    refine ⟨?_, by simp [casOK], rfl⟩
    show s.granted * cfg.cost + min (s.tokens + cfg.amount) cp ≤ cfg.initial + (s.deposits + 1) * cfg.amount
    have := Nat.min_le_left (s.tokens + cfg.amount) cp
    rw [Nat.add_mul]; omega
  · exact ⟨hc, by simp [casOK], rfl⟩
  · exact ⟨hc, by simp [casOK, Thread.finish], rfl⟩
  · exact ⟨hc, by simp [casOK], rfl⟩

theorem step_inv0 (cfg : Cfg) (s : State) (tid : Nat) (h : Inv0 cfg s) : Inv0 cfg (step cfg s tid) := by
  unfold step
  split
  · exact ⟨h.cons, h.regs⟩
  · rename_i t hget
    split
    · exact ⟨h.cons, h.regs⟩
    · obtain ⟨hc, hr, hth⟩ := stepThread_cons cfg s tid t h (h.regs tid t hget)
      refine ⟨hc, ?_⟩
      intro i t' hi
      simp only at hi
      rw [hth] at hi
      by_cases hit : i = tid
      · subst hit
        have hlt : i < s.threads.length := (List.getElem?_eq_some_iff.mp hget).1
        rw [List.getElem?_set_self hlt] at hi
        cases hi
        exact hr
      · rw [List.getElem?_set_ne (Ne.symm hit)] at hi
        exact h.regs i t' hi

theorem init_inv0 (cfg : Cfg) (progs : List (List BOp)) : Inv0 cfg (init cfg progs) := by
  refine ⟨by simp [init], ?_⟩
  intro i t hi
  simp only [init, List.getElem?_map] at hi
  cases hp : progs[i]? with
  | none => simp [hp] at hi
  | some p =>
    simp [hp] at hi
    subst hi
    simp [casOK]

theorem run_inv0 (cfg : Cfg) (progs : List (List BOp)) (sched : List Nat) : Inv0 cfg (run cfg progs sched) := by
  unfold run
  suffices ∀ s, Inv0 cfg s → Inv0 cfg (sched.foldl (step cfg) s) from this _ (init_inv0 cfg progs)
  induction sched with
  | nil => intro s h; exact h
  | cons x xs ih => intro s h; exact ih _ (step_inv0 cfg s x h)

theorem drain_inv0 (cfg : Cfg) (fuel : Nat) (s : State) (h : Inv0 cfg s) : Inv0 cfg (drain cfg fuel s) := by
  induction fuel generalizing s with
  | zero => exact h
  | succ n ih =>
    unfold drain
    split
    · exact h
    · exact ih _ (step_inv0 cfg s _ h)

end TR.Budget
