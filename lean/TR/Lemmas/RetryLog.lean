import TR.Lemmas.Retry
/-!
# Retry: the timestamped event log, request by request (the bridge from the ghost history to the compared log)

`linesOf c log` are the lines of request `c` in the log — its `inner_call`, `inner_done`, `inner_drop`, `result` and
`budget c grant|refused` lines, each with its instant, in the order of the log.  `Shape` says what they are, phase by
phase, in terms of the request's ghost record: a *closed* prefix — one block `inner_call, inner_done[, budget grant]`
per attempt that failed and was followed by a back-off (`closed`, `block`) — and a tail that depends on the phase.
`linv_reachable`: every reachable state has that shape, for every request.  Everything the theorems of C05 say about
the ghost fields `Att.start`, `Att.seen`, `Att.out`, `Caller.grants`, `Caller.result` is thereby a statement about
lines of the compared log.
-/
namespace TR.Retry

/-! ## the lines of one request -/

/-- is this a line of request `c`? -/
def ofReq (c : Nat) : Line → Bool
  | (_, .innerCall c' _) => c' == c
  | (_, .innerDone c' _ _) => c' == c
  | (_, .innerDrop c' _) => c' == c
  | (_, .result c' _) => c' == c
  | (_, .withdraw c' _) => c' == c
  | _ => false

/-- the lines of request `c`, in the order of the log -/
def linesOf (c : Nat) (l : List Line) : List Line := l.filter (ofReq c)

@[simp] theorem linesOf_nil (c : Nat) : linesOf c [] = [] := rfl
@[simp] theorem linesOf_append (c : Nat) (a b : List Line) : linesOf c (a ++ b) = linesOf c a ++ linesOf c b := by
  simp [linesOf]
theorem linesOf_cons (c : Nat) (x : Line) (l : List Line) :
    linesOf c (x :: l) = if ofReq c x then x :: linesOf c l else linesOf c l := by
  simp only [linesOf, List.filter_cons]

@[simp] theorem linesOf_withdraw (c now : Nat) (gs : List Bool) :
    linesOf c (gs.map fun g => ((now, REv.withdraw c g) : Line)) = gs.map fun g => ((now, REv.withdraw c g) : Line) := by
  induction gs with
  | nil => rfl
  | cons g tl ih => simp [linesOf_cons, ofReq, ih]

theorem linesOf_withdraw_ne (c c' now : Nat) (hne : c' ≠ c) (gs : List Bool) :
    linesOf c' (gs.map fun g => ((now, REv.withdraw c g) : Line)) = [] := by
  have : ¬ c = c' := fun e => hne e.symm
  induction gs with
  | nil => rfl
  | cons g tl ih => simp [linesOf_cons, ofReq, ih, this]

@[simp] theorem linesOf_ite_raw (c now : Nat) (p : Prop) [Decidable p] (m : String) :
    linesOf c (if p then [] else [((now, REv.raw m) : Line)]) = [] := by
  split <;> simp [linesOf_cons, ofReq]

/-! ## the shape of a request's lines -/

/-- the lines of an attempt whose failure was observed (at `a.seen`) and answered by a back-off: the call, its outcome,
and — with a budget — the grant of the retry, at the instant of the failure -/
def block (cfg : Cfg) (c : Nat) (a : Att) : List Line :=
  [(a.start, .innerCall c a.k), (a.seen.getD 0, .innerDone c a.k a.out)] ++
    (if cfg.budget.isSome then [(a.seen.getD 0, .withdraw c true)] else [])

/-- … of a list of such attempts (newest first), oldest block first -/
def closed (cfg : Cfg) (c : Nat) : List Att → List Line
  | [] => []
  | a :: tl => closed cfg c tl ++ block cfg c a

/-- What the lines `P` of request `c` are, given its record `cl`:

* never polled: none;
* inner call in flight: the closed blocks of the earlier attempts, then the `inner_call` line of the newest;
* in a back-off: the closed blocks of all attempts (the last line is the grant, with a budget);
* finished on an outcome: closed blocks of the earlier attempts, then `inner_call`, `inner_done`, possibly the refusal
  of the budget (only after an error the predicate accepts, with attempts left), and the `result`, the last three at one
  instant;
* ended by a readiness error: the closed blocks of all attempts, then the `result` line, no earlier than the end of the
  back-off;
* dropped: the closed blocks of all attempts (dropped before the first poll or in a back-off), or those of the earlier
  attempts followed by `inner_call`, `inner_drop` (dropped with the inner call in flight). -/
def Shape (cfg : Cfg) (c : Nat) (cl : Caller) (P : List Line) : Prop :=
  match cl.phase with
  | .fresh => P = []
  | .calling _ _ _ => ∃ a tl, cl.atts = a :: tl ∧ P = closed cfg c tl ++ [(a.start, .innerCall c a.k)]
  | .sleeping _ => P = closed cfg c cl.atts
  | .done =>
      ∃ a tl t r g, cl.atts = a :: tl ∧ a.seen = some t ∧ cl.result = some r ∧
        P = closed cfg c tl ++ [(a.start, .innerCall c a.k), (t, .innerDone c a.k a.out)] ++
              (g.map fun x => ((t, REv.withdraw c x) : Line)) ++ [(t, .result c r)] ∧
        ((g = [] ∧ cl.grants.head? ≠ some false) ∨
         (g = [false] ∧ cl.grants.head? = some false ∧ Retryable cfg a ∧ tl.length + 2 ≤ cl.maxA))
  | .unready =>
      ∃ t ts d, P = closed cfg c cl.atts ++ [(t, .result c readyErr)] ∧
        (cl.atts.head?.bind (·.seen)) = some ts ∧ cl.sleeps.head? = some d ∧ ts + ceilMs d ≤ t
  | .dropped =>
      (P = closed cfg c cl.atts ∧ ∀ a, cl.atts.head? = some a → ∃ t, a.seen = some t) ∨
      ∃ a tl t, cl.atts = a :: tl ∧ a.seen = none ∧ P = closed cfg c tl ++ [(a.start, .innerCall c a.k), (t, .innerDrop c a.k)]

/-- the answers and the readiness script a poll brings along are not part of the shape -/
theorem shape_env {cfg : Cfg} {c : Nat} {cl : Caller} {P : List Line} (h : Shape cfg c cl P) (ds : List Nat)
    (r : List Char) : Shape cfg c { cl with choices := ds, rdy := r } P := h

theorem shape_new (cfg : Cfg) (c m : Nat) (plan : List Step) : Shape cfg c { maxA := m, plan := plan } [] := by
  simp [Shape]

/-! ## one loop iteration -/

/-- the budget is asked last: a refusal means the predicate accepted the error and attempts were left -/
theorem classify_refused {cfg : Cfg} {b : BState} {maxA att : Nat} {o : Out}
    (h : (classify cfg b maxA att o).grants = [false]) :
    (∃ kd, o = .err kd ∧ cfg.pred kd = true) ∧ att + 2 ≤ maxA := by
  unfold classify at h
  cases o with
  | ok => cases hb : cfg.budget <;> simp [hb] at h
  | panic => simp at h
  | never => simp at h
  | err kd =>
    by_cases hp : cfg.pred kd = false
    · simp [hp] at h
    · by_cases hm : maxA ≤ att + 1
      · simp [hp, hm] at h
      · refine ⟨⟨kd, rfl, by simpa using hp⟩, by omega⟩

theorem tickC_shape {cfg : Cfg} {now serial : Nat} {b : BState} {c : Nat} {cl : Caller} {o : Outp} {P : List Line}
    (h : CInv cfg cl) (hs : Shape cfg c cl P) (ht : tickC cfg now serial b c cl = some o) :
    Shape cfg c o.cl (P ++ linesOf c o.evs) := by
  have hph := h.phase
  unfold tickC at ht
  split at ht
  · -- fresh: the first call
    rename_i hp
    simp at ht; subst ht
    simp only [Shape, hp] at hs
    simp only [PhaseInv, hp] at hph
    subst hs
    simp only [Shape, startCall, hph.1]
    exact ⟨_, _, rfl, by simp [closed, linesOf_cons, ofReq]⟩
  · -- calling: the outcome is observed
    rename_i k due out hp
    split at ht
    · simp at ht; subst ht
      simp only [Shape, hp] at hs
      simp only [PhaseInv, hp] at hph
      obtain ⟨a, tl, ha, hP⟩ := hs
      obtain ⟨a', tl', ha', hk, ho, _, _, _⟩ := hph
      rw [ha] at ha'
      cases ha'
      have hg := h.grantsLive (by simp [hp])
      simp only [observe]
      split
      · -- stop
        rename_i hv
        obtain ⟨hgr, _⟩ := classify_stop hv
        simp only [Shape, ha, seenNow]
        refine ⟨_, _, now, resOf k out, (classify cfg b cl.maxA cl.attempt out).grants, rfl, rfl, rfl, ?_, ?_⟩
        · subst hP
          simp [linesOf_cons, ofReq, hk, ho]
        · rcases hgr with hgr | ⟨_, hgr⟩
          · left
            refine ⟨hgr, ?_⟩
            rw [hgr]
            intro hf
            cases hgl : cl.grants with
            | nil => simp [hgl] at hf
            | cons x xs =>
              have := hg x (by simp [hgl])
              simp [hgl] at hf
              rw [hf] at this; cases this
          · right
            obtain ⟨⟨kd, hkd, hpred⟩, hroom⟩ := classify_refused hgr
            have hatt := h.attempt
            rw [ha] at hatt
            simp at hatt
            exact ⟨hgr, by simp [hgr], ⟨kd, by simp [ho, hkd], hpred⟩, by omega⟩
      · -- retry
        rename_i hv
        obtain ⟨_, _, _, hgr⟩ := classify_retry hv
        simp only [Shape, ha, seenNow, closed, block]
        subst hP
        rcases hgr with ⟨hnone, hgr⟩ | ⟨hsome, hgr⟩
        · simp [linesOf_cons, ofReq, hk, ho, hgr, hnone]
        · have : cfg.budget.isSome = true := by
            cases hb : cfg.budget with
            | none => exact absurd hb hsome
            | some _ => rfl
          simp [linesOf_cons, ofReq, hk, ho, hgr, this]
    · simp at ht
  · -- sleeping: the retry, or the readiness error
    rename_i u hp
    split at ht
    · rename_i hu
      simp at ht; subst ht
      simp only [Shape, hp] at hs
      simp only [PhaseInv, hp] at hph
      obtain ⟨a, tl, t, d, ds, ha, hseen, hsd, hu', _, _, _⟩ := hph
      subst hs
      unfold retryCall
      split
      · simp only [Shape, startCall]
        exact ⟨_, _, rfl, by simp [linesOf_cons, ofReq]⟩
      · simp only [Shape]
        refine ⟨now, t, d, by simp [linesOf_cons, ofReq], by simp [ha, hseen], by simp [hsd], ?_⟩
        have := hu.1
        omega
    · simp at ht
  · simp at ht
  · simp at ht
  · simp at ht

/-- a loop iteration of request `c` writes no line of another request -/
theorem tickC_foreign {cfg : Cfg} {now serial : Nat} {b : BState} {c c' : Nat} {cl : Caller} {o : Outp}
    (ht : tickC cfg now serial b c cl = some o) (hne : c' ≠ c) : linesOf c' o.evs = [] := by
  have hn : ¬ c = c' := fun e => hne e.symm
  unfold tickC at ht
  split at ht
  · simp at ht; subst ht
    simp [startCall, linesOf_cons, ofReq, hn]
  · split at ht
    · simp at ht; subst ht
      simp only [observe]
      split <;> simp [linesOf_cons, ofReq, hn, linesOf_withdraw_ne c c' now hne]
    · simp at ht
  · split at ht
    · simp at ht; subst ht
      unfold retryCall
      split <;> simp [startCall, linesOf_cons, ofReq, hn]
    · simp at ht
  · simp at ht
  · simp at ht
  · simp at ht

theorem loopC_shape {cfg : Cfg} {now c : Nat} (f : Nat) :
    ∀ {serial : Nat} {b : BState} {cl : Caller} {P : List Line}, CInv cfg cl → Shape cfg c cl P →
      Shape cfg c (loopC cfg now c f serial b cl).cl (P ++ linesOf c (loopC cfg now c f serial b cl).evs) := by
  induction f with
  | zero => intro serial b cl P _ hs; simpa [loopC] using hs
  | succ f ih =>
    intro serial b cl P h hs
    unfold loopC
    cases ht : tickC cfg now serial b c cl with
    | none => simpa using hs
    | some o =>
      have t1 := tickC_trans h ht
      have s1 := tickC_shape h hs ht
      have := ih (serial := o.serial) (b := o.b) t1.inv s1
      simpa [List.append_assoc] using this

theorem loopC_foreign {cfg : Cfg} {now c c' : Nat} (hne : c' ≠ c) (f : Nat) :
    ∀ {serial : Nat} {b : BState} {cl : Caller}, linesOf c' (loopC cfg now c f serial b cl).evs = [] := by
  induction f with
  | zero => intro serial b cl; simp [loopC]
  | succ f ih =>
    intro serial b cl
    unfold loopC
    cases ht : tickC cfg now serial b c cl with
    | none => simp
    | some o =>
      have h1 := tickC_foreign ht hne
      have h2 := ih (serial := o.serial) (b := o.b) (cl := o.cl)
      simp [h1, h2]

/-! ## every reachable state -/

/-- the lines of every request have the shape its record says; an unknown request has no line -/
def LInv (cfg : Cfg) (s : State) : Prop :=
  ∀ c, match lookup s.callers c with
    | some cl => Shape cfg c cl (linesOf c s.log)
    | none => linesOf c s.log = []

theorem linv_init (cfg : Cfg) : LInv cfg (init cfg) := by
  intro c; simp [init, lookup]

/-- lines that belong to no request leave every request's lines alone -/
theorem linv_emit_neutral {cfg : Cfg} {s : State} {evs : List REv} (h : LInv cfg s) (b : BState) (d o : Nat)
    (h1 : ∀ c t, linesOf c (evs.map fun e => ((t, e) : Line)) = []) :
    LInv cfg (emit { s with b := b, deposits := d, others := o } evs) := by
  intro c
  have := h c
  simpa [emit, h1] using this

theorem linv_step {cfg : Cfg} {s : State} (hi : SInv cfg s) (h : LInv cfg s) (op : Op) : LInv cfg (stepS cfg s op) := by
  have neutral : ∀ (b : BState) (d o : Nat) (e : REv), (∀ c t, ofReq c (t, e) = false) →
      LInv cfg (emit { s with b := b, deposits := d, others := o } [e]) := by
    intro b d o e h1
    exact linv_emit_neutral h b d o (by intro c t; simp [linesOf_cons, h1])
  cases op with
  | adv ms => exact h
  | arrive c ma plan =>
    simp only [stepS, arriveS]
    cases hl : lookup s.callers c with
    | some _ => exact h
    | none =>
      intro c'
      have := h c'
      by_cases hc : c = c'
      · subst hc
        simp only [hl] at this
        simp only [lookup, if_true, this]
        exact shape_new cfg c _ plan
      · simpa [lookup, hc] using this
  | poll c ds =>
    simp only [stepS, pollS]
    cases hl : lookup s.callers c with
    | none => exact h
    | some cl =>
      intro c'
      have := h c'
      by_cases hcc : c' = c
      · subst hcc
        simp only [hl] at this
        have hc := cinv_env (hi.all _ (mem_of_lookup hl)) ds s.rdy
        have t := loopC_shape (cfg := cfg) (now := s.now) (c := c') (fuel cl) (serial := s.serial) (b := s.b)
          hc (shape_env this ds s.rdy)
        simpa [lookup_modify_self hl] using t
      · have hf := loopC_foreign (cfg := cfg) (now := s.now) hcc (fuel cl) (serial := s.serial) (b := s.b)
          (cl := { cl with choices := ds, rdy := s.rdy })
        simpa [lookup_modify_ne hcc, hf] using this
  | drop c =>
    simp only [stepS, dropS]
    cases hl : lookup s.callers c with
    | none => exact h
    | some cl =>
      simp only []
      split
      · exact h
      · exact h
      · exact h
      · rename_i k due o hp
        intro c'
        have := h c'
        by_cases hcc : c' = c
        · subst hcc
          simp only [hl] at this
          simp only [Shape, hp] at this
          obtain ⟨a, tl, ha, hP⟩ := this
          have hph := (hi.all _ (mem_of_lookup hl)).phase
          simp only [PhaseInv, hp] at hph
          obtain ⟨a', tl', ha', hk, _, _, hseen, _⟩ := hph
          rw [ha] at ha'; cases ha'
          simp only [emit, lookup_modify_self hl]
          simp only [Shape]
          right
          exact ⟨a, tl, s.now, ha, hseen, by simp [hP, linesOf_cons, ofReq, hk]⟩
        · have hn : ¬ c = c' := fun e => hcc e.symm
          simpa [emit, lookup_modify_ne hcc, linesOf_cons, ofReq, hn] using this
      · rename_i hnd hnu hnr hnc
        intro c'
        have := h c'
        by_cases hcc : c' = c
        · subst hcc
          simp only [hl] at this
          simp only [lookup_modify_self hl]
          simp only [Shape]
          left
          have hph := (hi.all _ (mem_of_lookup hl)).phase
          cases hp : cl.phase with
          | fresh =>
            simp only [Shape, hp] at this
            simp only [PhaseInv, hp] at hph
            simp [this, hph.1, closed]
          | sleeping u =>
            simp only [PhaseInv, hp] at hph
            obtain ⟨a, tl, t, d, ds, ha, hseen, _⟩ := hph
            refine ⟨by simpa [Shape, hp] using this, ?_⟩
            intro a' ha'
            rw [ha] at ha'
            simp at ha'
            subst ha'
            exact ⟨t, hseen⟩
          | calling k due o => exact absurd hp (hnc k due o)
          | done => exact absurd hp hnd
          | unready => exact absurd hp hnu
          | dropped => exact absurd hp hnr
        · simpa [lookup_modify_ne hcc] using this
  | probeBalance =>
    simp only [stepS]
    split
    · exact neutral s.b s.deposits s.others _ (fun _ _ => rfl)
    · exact neutral s.b s.deposits s.others _ (fun _ _ => rfl)
  | probeLimit => exact neutral s.b s.deposits s.others _ (fun _ _ => rfl)
  | deposit =>
    simp only [stepS]
    split
    · exact neutral _ _ s.others _ (fun _ _ => rfl)
    · exact neutral s.b s.deposits s.others _ (fun _ _ => rfl)
  | withdraw =>
    simp only [stepS]
    split
    · exact neutral _ s.deposits _ _ (fun _ _ => rfl)
    · exact neutral s.b s.deposits s.others _ (fun _ _ => rfl)
  | invalid => exact neutral s.b s.deposits s.others _ (fun _ _ => rfl)

theorem linv_reachable (cfg : Cfg) (ops : List Op) : LInv cfg (run cfg ops) := by
  have := foldl_inv (cfg := cfg) (fun s => SInv cfg s ∧ LInv cfg s)
    (fun s op hp => ⟨sinv_step hp.1 op, linv_step hp.1 hp.2 op⟩) ops (init cfg) ⟨sinv_init cfg, linv_init cfg⟩
  exact this.2

/-! ## the instants of the lines are the instants the driver prints -/

theorem tickC_stamps {cfg : Cfg} {now serial : Nat} {b : BState} {c : Nat} {cl : Caller} {o : Outp}
    (ht : tickC cfg now serial b c cl = some o) : ∀ p ∈ o.evs, p.1 = now := by
  unfold tickC at ht
  split at ht
  · simp at ht; subst ht; simp [startCall]
  · split at ht
    · simp at ht; subst ht
      simp only [observe]
      split
      · intro p hp
        simp only [List.mem_cons, List.mem_append, List.mem_map, List.not_mem_nil, or_false] at hp
        rcases hp with (rfl | ⟨g, _, rfl⟩) | rfl <;> rfl
      · intro p hp
        simp only [List.mem_cons, List.mem_append, List.mem_map] at hp
        rcases hp with (rfl | ⟨g, _, rfl⟩) | hp
        · rfl
        · rfl
        · split at hp
          · simp at hp
          · simp at hp; subst hp; rfl
    · simp at ht
  · split at ht
    · simp at ht; subst ht
      unfold retryCall
      split <;> simp [startCall]
    · simp at ht
  · simp at ht
  · simp at ht
  · simp at ht

theorem loopC_stamps {cfg : Cfg} {now c : Nat} (f : Nat) :
    ∀ {serial : Nat} {b : BState} {cl : Caller}, ∀ p ∈ (loopC cfg now c f serial b cl).evs, p.1 = now := by
  induction f with
  | zero => intro serial b cl p hp; simp [loopC] at hp
  | succ f ih =>
    intro serial b cl p hp
    unfold loopC at hp
    cases ht : tickC cfg now serial b c cl with
    | none => simp [ht] at hp
    | some o =>
      simp only [ht, List.mem_append] at hp
      rcases hp with hp | hp
      · exact tickC_stamps ht p hp
      · exact ih p hp

/-- every operation only appends to the log, and what it appends carries the instant of the state it leads to — the
instant the driver prints in front of the line (`Driver.applyStep`: `t={now st'}`) -/
theorem step_log (cfg : Cfg) (s : State) (op : Op) :
    ∃ evs, (stepS cfg s op).log = s.log ++ evs ∧ ∀ p ∈ evs, p.1 = (stepS cfg s op).now := by
  cases op with
  | adv ms => exact ⟨[], by simp [stepS], by simp⟩
  | arrive c ma plan =>
    refine ⟨[], ?_, by simp⟩
    simp only [stepS, arriveS]; split <;> simp
  | poll c ds =>
    simp only [stepS, pollS]
    split
    · exact ⟨[], by simp, by simp⟩
    · exact ⟨_, rfl, loopC_stamps _⟩
  | drop c =>
    simp only [stepS, dropS]
    split
    · exact ⟨[], by simp, by simp⟩
    · split
      · exact ⟨[], by simp, by simp⟩
      · exact ⟨[], by simp, by simp⟩
      · exact ⟨[], by simp, by simp⟩
      · exact ⟨_, rfl, by simp [emit]⟩
      · exact ⟨[], by simp, by simp⟩
  | probeBalance => simp only [stepS]; split <;> exact ⟨_, rfl, by simp [emit]⟩
  | probeLimit => exact ⟨_, rfl, by simp [stepS, emit]⟩
  | deposit => simp only [stepS]; split <;> exact ⟨_, rfl, by simp [emit]⟩
  | withdraw => simp only [stepS]; split <;> exact ⟨_, rfl, by simp [emit]⟩
  | invalid => exact ⟨_, rfl, by simp [stepS, emit]⟩

/-! ## without a budget there is no budget line -/

theorem classify_grants_none {cfg : Cfg} (hb : cfg.budget = none) (b : BState) (maxA att : Nat) (o : Out) :
    (classify cfg b maxA att o).grants = [] := by
  unfold classify
  cases o with
  | ok => simp [hb]
  | panic => simp
  | never => simp
  | err kd =>
    by_cases hp : cfg.pred kd = false
    · simp [hp]
    · by_cases hm : maxA ≤ att + 1
      · simp [hp, hm]
      · simp [hp, hm, hb]

/-- no line of the list is a budget line -/
def NoBudgetLine (l : List Line) : Prop := ∀ t c g, (t, REv.withdraw c g) ∉ l

theorem tickC_no_budget_line {cfg : Cfg} (hb : cfg.budget = none) {now serial : Nat} {b : BState} {c : Nat} {cl : Caller}
    {o : Outp} (ht : tickC cfg now serial b c cl = some o) : NoBudgetLine o.evs := by
  intro t c' g
  unfold tickC at ht
  split at ht
  · simp at ht; subst ht; simp [startCall]
  · split at ht
    · simp at ht; subst ht
      simp only [observe, classify_grants_none hb]
      split
      · simp
      · split <;> simp
    · simp at ht
  · split at ht
    · simp at ht; subst ht
      unfold retryCall
      split <;> simp [startCall]
    · simp at ht
  · simp at ht
  · simp at ht
  · simp at ht

theorem loopC_no_budget_line {cfg : Cfg} (hb : cfg.budget = none) {now c : Nat} (f : Nat) :
    ∀ {serial : Nat} {b : BState} {cl : Caller}, NoBudgetLine (loopC cfg now c f serial b cl).evs := by
  induction f with
  | zero => intro serial b cl t c' g; simp [loopC]
  | succ f ih =>
    intro serial b cl t c' g
    unfold loopC
    cases ht : tickC cfg now serial b c cl with
    | none => simp
    | some o =>
      have h1 := tickC_no_budget_line hb ht t c' g
      have h2 := ih (serial := o.serial) (b := o.b) (cl := o.cl) t c' g
      simp [h1, h2]

theorem no_budget_line_step {cfg : Cfg} (hb : cfg.budget = none) {s : State} (h : NoBudgetLine s.log) (op : Op) :
    NoBudgetLine (stepS cfg s op).log := by
  intro t c g
  have h0 := h t c g
  cases op with
  | adv ms => exact h0
  | arrive c' ma plan => simp only [stepS, arriveS]; split <;> exact h0
  | poll c' ds =>
    simp only [stepS, pollS]
    split
    · exact h0
    · rename_i cl hl
      have := loopC_no_budget_line hb (now := s.now) (c := c') (fuel cl) (serial := s.serial) (b := s.b)
        (cl := { cl with choices := ds, rdy := s.rdy }) t c g
      simp [h0, this]
  | drop c' =>
    simp only [stepS, dropS]
    split
    · exact h0
    · split
      · exact h0
      · exact h0
      · exact h0
      · simp [emit, h0]
      · exact h0
  | probeBalance => simp only [stepS]; split <;> simp [emit, h0, noop]
  | probeLimit => simp [stepS, emit, h0]
  | deposit => simp only [stepS]; split <;> simp [emit, h0, noop]
  | withdraw => simp only [stepS]; split <;> simp [emit, h0, noop]
  | invalid => simp [stepS, emit, h0, noop]

theorem no_budget_line_reachable {cfg : Cfg} (hb : cfg.budget = none) (ops : List Op) : NoBudgetLine (run cfg ops).log :=
  foldl_inv (cfg := cfg) (fun s => NoBudgetLine s.log) (fun _ op h => no_budget_line_step hb h op) ops (init cfg)
    (by intro t c g; simp [init])

/-! ## a readiness error between attempts -/

/-- the poll that meets a failing readiness poll after the back-off: the request ends with that error; the budget, the
number of deposits, the serial counter, the request's grants and attempts are what they were -/
theorem poll_sleeping_unready_state {cfg : Cfg} {s : State} {c u : Nat} {cl : Caller} (ds : List Nat)
    (hl : lookup s.callers c = some cl) (hp : cl.phase = .sleeping u) (hu : u ≤ s.now)
    (hrec : recovered cfg cl.atts s.now = true) (hr : (readyOf s.rdy).1 = false) :
    (pollS cfg s c ds).deposits = s.deposits ∧
    ∃ cl', lookup (pollS cfg s c ds).callers c = some cl' ∧ cl'.phase = .unready ∧ cl'.grants = cl.grants ∧
      cl'.atts = cl.atts ∧ cl'.result = some readyErr := by
  have hcl : (loopC cfg s.now c (fuel cl) s.serial s.b { cl with choices := ds, rdy := s.rdy }).deps = 0 ∧
      (loopC cfg s.now c (fuel cl) s.serial s.b { cl with choices := ds, rdy := s.rdy }).cl.phase = .unready ∧
      (loopC cfg s.now c (fuel cl) s.serial s.b { cl with choices := ds, rdy := s.rdy }).cl.grants = cl.grants ∧
      (loopC cfg s.now c (fuel cl) s.serial s.b { cl with choices := ds, rdy := s.rdy }).cl.atts = cl.atts ∧
      (loopC cfg s.now c (fuel cl) s.serial s.b { cl with choices := ds, rdy := s.rdy }).cl.result = some readyErr := by
    simp only [fuel_succ]
    unfold loopC
    simp only [tickC, hp, hu, hrec, and_self, if_true, retryCall, hr]
    unfold loopC
    simp [tickC]
  simp only [pollS, hl]
  exact ⟨by simp [hcl.1], _, lookup_modify_self hl, hcl.2.1, hcl.2.2.1, hcl.2.2.2.1, hcl.2.2.2.2⟩

/-- grants obtained so far by all requests -/
def totalGrants (s : State) : Nat := gsum (fun cl => ctTrue cl.grants) s.callers

theorem totalGrants_eq (s : State) : totalGrants s = gsum (fun cl => ctTrue cl.grants) s.callers := rfl

/-! ## the budget lines of a request are its recorded grants -/

def isWdOf (c : Nat) : Line → Option Bool
  | (_, .withdraw c' g) => if c' = c then some g else none
  | _ => none

/-- the answers on the budget lines of request `c`, in the order of the log -/
def withdrawsOf (c : Nat) (l : List Line) : List Bool := l.filterMap (isWdOf c)

@[simp] theorem withdrawsOf_nil (c : Nat) : withdrawsOf c [] = [] := rfl
@[simp] theorem withdrawsOf_append (c : Nat) (a b : List Line) :
    withdrawsOf c (a ++ b) = withdrawsOf c a ++ withdrawsOf c b := by
  simp [withdrawsOf, List.filterMap_append]
theorem withdrawsOf_cons (c : Nat) (x : Line) (l : List Line) :
    withdrawsOf c (x :: l) = (isWdOf c x).toList ++ withdrawsOf c l := by
  simp only [withdrawsOf, List.filterMap_cons]; cases isWdOf c x <;> simp

@[simp] theorem withdrawsOf_map_self (c now : Nat) (gs : List Bool) :
    withdrawsOf c (gs.map fun g => ((now, REv.withdraw c g) : Line)) = gs := by
  induction gs with
  | nil => rfl
  | cons g tl ih => simp [withdrawsOf_cons, isWdOf, ih]

theorem withdrawsOf_map_ne (c c' now : Nat) (hne : c' ≠ c) (gs : List Bool) :
    withdrawsOf c' (gs.map fun g => ((now, REv.withdraw c g) : Line)) = [] := by
  have : ¬ c = c' := fun e => hne e.symm
  induction gs with
  | nil => rfl
  | cons g tl ih => simp [withdrawsOf_cons, isWdOf, ih, this]

@[simp] theorem withdrawsOf_ite_raw (c now : Nat) (p : Prop) [Decidable p] (m : String) :
    withdrawsOf c (if p then [] else [((now, REv.raw m) : Line)]) = [] := by
  split <;> simp [withdrawsOf_cons, isWdOf]

/-- the loop asks the budget at most once per outcome -/
theorem classify_grants_short (cfg : Cfg) (b : BState) (maxA att : Nat) (o : Out) :
    (classify cfg b maxA att o).grants.reverse = (classify cfg b maxA att o).grants := by
  unfold classify
  cases o with
  | ok => cases hb : cfg.budget <;> simp
  | panic => simp
  | never => simp
  | err kd =>
    by_cases hp : cfg.pred kd = false
    · simp [hp]
    · by_cases hm : maxA ≤ att + 1
      · simp [hp, hm]
      · cases hb : cfg.budget with
        | none => simp [hp, hm]
        | some bu => by_cases hw : (bu.withdraw b).1 = true <;> simp [hp, hm, hw]

theorem tickC_withdraws {cfg : Cfg} {now serial : Nat} {b : BState} {c : Nat} {cl : Caller} {o : Outp}
    (ht : tickC cfg now serial b c cl = some o) :
    cl.grants.reverse ++ withdrawsOf c o.evs = o.cl.grants.reverse ∧ ∀ c', c' ≠ c → withdrawsOf c' o.evs = [] := by
  unfold tickC at ht
  split at ht
  · simp at ht; subst ht
    exact ⟨by simp [startCall, withdrawsOf_cons, isWdOf], by intro c' _; simp [startCall, withdrawsOf_cons, isWdOf]⟩
  · split at ht
    · simp at ht; subst ht
      simp only [observe]
      split
      · refine ⟨by simp [withdrawsOf_cons, isWdOf, classify_grants_short], ?_⟩
        intro c' hne
        simp [withdrawsOf_cons, isWdOf, withdrawsOf_map_ne c c' now hne]
      · refine ⟨by simp [withdrawsOf_cons, isWdOf, classify_grants_short], ?_⟩
        intro c' hne
        simp [withdrawsOf_cons, isWdOf, withdrawsOf_map_ne c c' now hne]
    · simp at ht
  · split at ht
    · simp at ht; subst ht
      unfold retryCall
      split
      · exact ⟨by simp [startCall, withdrawsOf_cons, isWdOf], by intro c' _; simp [startCall, withdrawsOf_cons, isWdOf]⟩
      · exact ⟨by simp [withdrawsOf_cons, isWdOf], by intro c' _; simp [withdrawsOf_cons, isWdOf]⟩
    · simp at ht
  · simp at ht
  · simp at ht
  · simp at ht

theorem loopC_withdraws {cfg : Cfg} {now c : Nat} (f : Nat) :
    ∀ {serial : Nat} {b : BState} {cl : Caller},
      cl.grants.reverse ++ withdrawsOf c (loopC cfg now c f serial b cl).evs = (loopC cfg now c f serial b cl).cl.grants.reverse ∧
      ∀ c', c' ≠ c → withdrawsOf c' (loopC cfg now c f serial b cl).evs = [] := by
  induction f with
  | zero => intro serial b cl; simp [loopC]
  | succ f ih =>
    intro serial b cl
    unfold loopC
    cases ht : tickC cfg now serial b c cl with
    | none => simp
    | some o =>
      have h1 := tickC_withdraws ht
      have h2 := ih (serial := o.serial) (b := o.b) (cl := o.cl)
      refine ⟨?_, ?_⟩
      · simp only [withdrawsOf_append, ← List.append_assoc, h1.1, h2.1]
      · intro c' hne
        simp [h1.2 c' hne, h2.2 c' hne]

/-- the grants of request `c` according to its record, oldest first -/
def grantsOfC (s : State) (c : Nat) : List Bool :=
  match lookup s.callers c with
  | some cl => cl.grants.reverse
  | none => []

/-- the budget lines of every request are its recorded answers, in order -/
def WInv (s : State) : Prop := ∀ c, withdrawsOf c s.log = grantsOfC s c

theorem winv_step {cfg : Cfg} {s : State} (h : WInv s) (op : Op) : WInv (stepS cfg s op) := by
  have neutral : ∀ (b : BState) (d o : Nat) (e : REv), (∀ c t, isWdOf c (t, e) = none) →
      WInv (emit { s with b := b, deposits := d, others := o } [e]) := by
    intro b d o e h1 c
    have := h c
    simpa [emit, withdrawsOf_cons, h1, grantsOfC] using this
  cases op with
  | adv ms => exact h
  | arrive c ma plan =>
    simp only [stepS, arriveS]
    cases hl : lookup s.callers c with
    | some _ => exact h
    | none =>
      intro c'
      have := h c'
      by_cases hc : c = c'
      · subst hc; simpa [grantsOfC, lookup, hl] using this
      · simpa [grantsOfC, lookup, hc] using this
  | poll c ds =>
    simp only [stepS, pollS]
    cases hl : lookup s.callers c with
    | none => exact h
    | some cl =>
      have t := loopC_withdraws (cfg := cfg) (now := s.now) (c := c) (fuel cl) (serial := s.serial) (b := s.b)
        (cl := { cl with choices := ds, rdy := s.rdy })
      intro c'
      have := h c'
      by_cases hcc : c' = c
      · subst hcc
        have h2 := t.1
        simp only [grantsOfC, hl] at this
        simp only [grantsOfC, lookup_modify_self hl, withdrawsOf_append, this]
        exact h2
      · have h2 := t.2 c' hcc
        simpa [grantsOfC, lookup_modify_ne hcc, h2] using this
  | drop c =>
    simp only [stepS, dropS]
    cases hl : lookup s.callers c with
    | none => exact h
    | some cl =>
      simp only []
      split
      · exact h
      · exact h
      · exact h
      · intro c'
        have := h c'
        by_cases hcc : c' = c
        · subst hcc
          simpa [emit, grantsOfC, lookup_modify_self hl, hl, withdrawsOf_cons, isWdOf] using this
        · simpa [emit, grantsOfC, lookup_modify_ne hcc, withdrawsOf_cons, isWdOf] using this
      · intro c'
        have := h c'
        by_cases hcc : c' = c
        · subst hcc
          simpa [grantsOfC, lookup_modify_self hl, hl] using this
        · simpa [grantsOfC, lookup_modify_ne hcc] using this
  | probeBalance =>
    simp only [stepS]
    split
    · exact neutral s.b s.deposits s.others _ (fun _ _ => rfl)
    · exact neutral s.b s.deposits s.others _ (fun _ _ => rfl)
  | probeLimit => exact neutral s.b s.deposits s.others _ (fun _ _ => rfl)
  | deposit =>
    simp only [stepS]
    split
    · exact neutral _ _ s.others _ (fun _ _ => rfl)
    · exact neutral s.b s.deposits s.others _ (fun _ _ => rfl)
  | withdraw =>
    simp only [stepS]
    split
    · exact neutral _ s.deposits _ _ (fun _ _ => rfl)
    · exact neutral s.b s.deposits s.others _ (fun _ _ => rfl)
  | invalid => exact neutral s.b s.deposits s.others _ (fun _ _ => rfl)

theorem winv_reachable (cfg : Cfg) (ops : List Op) : WInv (run cfg ops) :=
  foldl_inv (cfg := cfg) WInv (fun _ op h => winv_step h op) ops (init cfg)
    (by intro c; simp [init, grantsOfC, lookup])

/-! ## the instants of the log never decrease -/

/-- every line carries an instant that has been reached, and the instants never decrease along the log -/
def MonoLog (s : State) : Prop := (∀ p ∈ s.log, p.1 ≤ s.now) ∧ s.log.Pairwise (fun a b => a.1 ≤ b.1)

theorem now_mono (cfg : Cfg) (s : State) (op : Op) : s.now ≤ (stepS cfg s op).now := by
  cases op with
  | adv ms => simp [stepS]
  | arrive c ma plan => simp only [stepS, arriveS]; split <;> simp
  | poll c ds => simp only [stepS, pollS]; split <;> simp
  | drop c =>
    simp only [stepS, dropS]
    split
    · simp
    · split <;> simp [emit]
  | probeBalance => simp only [stepS]; split <;> simp [emit]
  | probeLimit => simp [stepS, emit]
  | deposit => simp only [stepS]; split <;> simp [emit]
  | withdraw => simp only [stepS]; split <;> simp [emit]
  | invalid => simp [stepS, emit]

theorem monoLog_step {cfg : Cfg} {s : State} (h : MonoLog s) (op : Op) : MonoLog (stepS cfg s op) := by
  obtain ⟨evs, h1, h2⟩ := step_log cfg s op
  have hn := now_mono cfg s op
  refine ⟨?_, ?_⟩
  · intro p hp
    rw [h1, List.mem_append] at hp
    rcases hp with hp | hp
    · exact Nat.le_trans (h.1 p hp) hn
    · exact Nat.le_of_eq (h2 p hp)
  · rw [h1, List.pairwise_append]
    refine ⟨h.2, ?_, ?_⟩
    · rw [List.pairwise_iff_forall_sublist]
      intro a b hab
      have ha := h2 a (hab.subset (by simp))
      have hb := h2 b (hab.subset (by simp))
      omega
    · intro a ha b hb
      have := h.1 a ha
      have := h2 b hb
      omega

theorem monoLog_reachable (cfg : Cfg) (ops : List Op) : MonoLog (run cfg ops) :=
  foldl_inv (cfg := cfg) MonoLog (fun _ op h => monoLog_step h op) ops (init cfg) (by simp [MonoLog, init])

end TR.Retry
