import TR.Model.Retry
/-!
# Retry: per-request invariant, log/ghost agreement, budget conservation (helper lemmas for C05)
-/
namespace TR.Retry

/-! ## association list: `lookup` / `modify` -/

theorem lookup_modify_self {l : List (Nat × Caller)} {c : Nat} {old v : Caller}
    (h : lookup l c = some old) : lookup (modify l c v) c = some v := by
  induction l with
  | nil => simp [lookup] at h
  | cons p tl ih =>
    obtain ⟨k, x⟩ := p
    by_cases hk : k = c
    · simp [modify, lookup, hk]
    · simp [lookup, hk] at h
      simp [modify, lookup, hk, ih h]

theorem lookup_modify_ne {l : List (Nat × Caller)} {c c' : Nat} {v : Caller} (hne : c' ≠ c) :
    lookup (modify l c v) c' = lookup l c' := by
  induction l with
  | nil => simp [modify]
  | cons p tl ih =>
    obtain ⟨k, x⟩ := p
    by_cases hk : k = c
    · subst hk
      have : ¬ k = c' := fun h => hne h.symm
      simp [modify, lookup, this]
    · by_cases hk' : k = c'
      · subst hk'
        simp [modify, lookup, hk]
      · simp [modify, lookup, hk, hk', ih]

/-- sum of a per-request quantity over all requests -/
def gsum (f : Caller → Nat) : List (Nat × Caller) → Nat
  | [] => 0
  | (_, x) :: tl => f x + gsum f tl

theorem gsum_modify {f : Caller → Nat} {l : List (Nat × Caller)} {c : Nat} {old v : Caller}
    (h : lookup l c = some old) : gsum f (modify l c v) + f old = gsum f l + f v := by
  induction l with
  | nil => simp [lookup] at h
  | cons p tl ih =>
    obtain ⟨k, x⟩ := p
    by_cases hk : k = c
    · simp [lookup, hk] at h
      subst h
      simp [modify, gsum, hk]; omega
    · simp [lookup, hk] at h
      have := ih h
      simp [modify, gsum, hk]; omega

theorem gsum_le {f g : Caller → Nat} {l : List (Nat × Caller)}
    (h : ∀ p ∈ l, f p.2 ≤ g p.2) : gsum f l ≤ gsum g l := by
  induction l with
  | nil => simp [gsum]
  | cons p tl ih =>
    obtain ⟨k, x⟩ := p
    have h1 := h (k, x) (by simp)
    have h2 := ih (fun p hp => h p (by simp [hp]))
    simp [gsum] at *; omega

theorem mem_of_lookup {l : List (Nat × Caller)} {c : Nat} {cl : Caller}
    (h : lookup l c = some cl) : (c, cl) ∈ l := by
  induction l with
  | nil => simp [lookup] at h
  | cons p tl ih =>
    obtain ⟨k, x⟩ := p
    by_cases hk : k = c
    · simp [lookup, hk] at h; subst h; subst hk; simp
    · simp [lookup, hk] at h; simp [ih h]

theorem mem_modify {l : List (Nat × Caller)} {c : Nat} {v : Caller} {p : Nat × Caller}
    (h : p ∈ modify l c v) : p ∈ l ∨ p.2 = v := by
  induction l with
  | nil => simp [modify] at h
  | cons q tl ih =>
    obtain ⟨k, x⟩ := q
    by_cases hk : k = c
    · simp [modify, hk] at h
      rcases h with h | h
      · right; simp [h]
      · left; simp [h]
    · simp [modify, hk] at h
      rcases h with h | h
      · left; simp [h]
      · rcases ih h with h' | h'
        · left; simp [h']
        · right; exact h'

/-! ## the loop's verdict -/

theorem classify_retry {cfg : Cfg} {b : BState} {maxA att : Nat} {o : Out}
    (h : (classify cfg b maxA att o).v = .retry) :
    (∃ kd, o = .err kd ∧ cfg.pred kd = true) ∧ att + 2 ≤ maxA ∧ (classify cfg b maxA att o).deps = 0 ∧
    ((cfg.budget = none ∧ (classify cfg b maxA att o).grants = []) ∨
     (cfg.budget ≠ none ∧ (classify cfg b maxA att o).grants = [true])) := by
  unfold classify at h ⊢
  cases o with
  | ok => cases hb : cfg.budget <;> simp [hb] at h
  | panic => simp at h
  | never => simp at h
  | err kd =>
    by_cases hp : cfg.pred kd = false
    · simp [hp] at h
    · by_cases hm : maxA ≤ att + 1
      · simp [hp, hm] at h
      · cases hb : cfg.budget with
        | none => simp [hp, hm]; omega
        | some bu =>
          by_cases hw : (bu.withdraw b).1 = true
          · simp [hp, hm, hw]; omega
          · simp [hp, hm, hb, hw] at h

theorem classify_stop {cfg : Cfg} {b : BState} {maxA att : Nat} {o : Out}
    (h : (classify cfg b maxA att o).v = .stop) :
    ((classify cfg b maxA att o).grants = [] ∨
      (cfg.budget ≠ none ∧ (classify cfg b maxA att o).grants = [false])) ∧
    (o = .ok ∨ o = .panic ∨ o = .never ∨
      ∃ kd, o = .err kd ∧ (cfg.pred kd = false ∨ maxA ≤ att + 1 ∨
        (cfg.budget ≠ none ∧ (classify cfg b maxA att o).grants = [false]))) := by
  unfold classify at h ⊢
  cases o with
  | ok => cases hb : cfg.budget <;> simp
  | panic => simp
  | never => simp
  | err kd =>
    by_cases hp : cfg.pred kd = false
    · simp [hp]
    · by_cases hm : maxA ≤ att + 1
      · simp [hp, hm]
      · cases hb : cfg.budget with
        | none => simp [hp, hm, hb] at h
        | some bu =>
          by_cases hw : (bu.withdraw b).1 = true
          · simp [hp, hm, hb, hw] at h
          · simp [hp, hm, hw]

/-! ## the per-request invariant -/

def ctTrue (l : List Bool) : Nat := l.count true

/-- the attempt failed with an error the predicate accepts -/
def Retryable (cfg : Cfg) (a : Att) : Prop := ∃ kd, a.out = .err kd ∧ cfg.pred kd = true

/-- the timer never rounds down: the rounded delay (ms) covers the configured one (µs) -/
theorem le_ceilMs (us : Nat) : us ≤ ceilMs us * 1000 := by
  unfold ceilMs; omega

/-- … and it rounds up to the *first* millisecond boundary: less than one millisecond is added -/
theorem ceilMs_lt (us : Nat) : ceilMs us * 1000 < us + 1000 := by
  unfold ceilMs; omega

theorem ceilMs_zero : ceilMs 0 = 0 := by decide

/-- a timer armed at `t` (ms) for `b` µs fires at the first millisecond boundary at or after `t·1000 + b` µs -/
theorem ceil_window (t u b : Nat) (hu : u = t + ceilMs b) :
    t * 1000 + b ≤ u * 1000 ∧ u * 1000 < t * 1000 + b + 1000 ∧ (0 < b → t < u) := by
  subst hu; unfold ceilMs; omega

/-- whole milliseconds are kept -/
theorem ceilMs_whole (ms : Nat) : ceilMs (ms * 1000) = ms := by
  unfold ceilMs; omega

theorem ceilMs_mono {a b : Nat} (h : a ≤ b) : ceilMs a ≤ ceilMs b := by
  unfold ceilMs; omega

/-- rounding a `Duration` (ns) up to µs never shortens it, and adds less than a microsecond -/
theorem le_ceilUs (ns : Nat) : ns ≤ ceilUs ns * 1000 ∧ ceilUs ns * 1000 < ns + 1000 := by
  unfold ceilUs; omega

theorem ceilUs_mono {a b : Nat} (h : a ≤ b) : ceilUs a ≤ ceilUs b := by
  unfold ceilUs; omega

/-- `Duration::MAX` in the model's unit -/
theorem ceilUs_durMax : ceilUs durMaxNs = durMaxUs := by decide

/-- whatever the interval function answered, the delay slept lies in the policy's envelope -/
theorem pick_bounds (cfg : Cfg) (k : Nat) (ch : Option Nat) :
    cfg.backoff k ≤ pick cfg k ch ∧ pick cfg k ch ≤ cfg.backoff k + cfg.spread k := by
  cases ch with
  | none => simp [pick]
  | some ns => simp only [pick]; omega

/-- an answer inside the envelope is slept as it is (in µs, rounded up) -/
theorem pick_of_ok (cfg : Cfg) (k ns : Nat) (h : okChoice cfg k (some ns) = true) : pick cfg k (some ns) = ceilUs ns := by
  simp [okChoice] at h
  simp only [pick]; omega

/-- an exact policy (`spread k = 0`) sleeps its value whatever was observed -/
theorem pick_exact (cfg : Cfg) (k : Nat) (ch : Option Nat) (h : cfg.spread k = 0) : pick cfg k ch = cfg.backoff k := by
  have := pick_bounds cfg k ch; omega

/-- `[f (n-1), …, f 1, f 0]` -/
def boList (f : Nat → Nat) : Nat → List Nat
  | 0 => []
  | n + 1 => f n :: boList f n

/-- the delays handed to `sleep` (newest first) lie in the envelope of their retry number: the oldest is the answer
for retry 0, … -/
def SleepsOK (cfg : Cfg) : List Nat → Prop
  | [] => True
  | d :: tl => cfg.backoff tl.length ≤ d ∧ d ≤ cfg.backoff tl.length + cfg.spread tl.length ∧ SleepsOK cfg tl

/-- for an exact policy (no jitter, not float-computed: `spread = 0`) the delays are the configured ones -/
theorem sleepsOK_exact {cfg : Cfg} (hx : ∀ k, cfg.spread k = 0) :
    ∀ {l : List Nat}, SleepsOK cfg l → l = boList cfg.backoff l.length := by
  intro l
  induction l with
  | nil => intro _; rfl
  | cons d tl ih =>
    intro h
    simp only [SleepsOK] at h
    have := hx tl.length
    simp only [List.length_cons, boList]
    rw [← ih h.2.2]
    congr 1; omega

/-- Well-formed attempt history (newest first): attempts are numbered 0,1,2,…; an inner call is
observed no earlier than it is ready; every attempt that has a successor failed with an error the
predicate accepts, was observed at some instant `t` (ms), and its successor started no earlier than
`t + ⌈wait/1000⌉` ms, `wait` (µs) being the delay the interval function answered for retry `idx` — inside the policy's
envelope `[backoff idx, backoff idx + spread idx]` — (the timer rounds it up); attempt number `i` has the outcome and the latency of step `i` of the request's
script (`ok` at once when the script is exhausted, as the harness's inner service does). -/
def Hist (cfg : Cfg) (script : List Step) : List Att → Prop
  | [] => True
  | a :: tl =>
      a.idx = tl.length ∧ a.out = (script.getD a.idx { lat := 0, out := .ok }).out ∧
      a.due = a.start + (script.getD a.idx { lat := 0, out := .ok }).lat ∧
      (∀ t, a.seen = some t → a.due ≤ t) ∧
      (∀ p, tl.head? = some p → Retryable cfg p ∧ cfg.backoff p.idx ≤ a.wait ∧ a.wait ≤ cfg.backoff p.idx + cfg.spread p.idx ∧
        ∃ t, p.seen = some t ∧ t + ceilMs a.wait ≤ a.start) ∧
      Hist cfg script tl

/-- why a finished request stopped at attempt `a` -/
def StopReason (cfg : Cfg) (cl : Caller) (a : Att) : Prop :=
  a.out = .ok ∨ a.out = .panic ∨
  ∃ kd, a.out = .err kd ∧
    (cfg.pred kd = false ∨ cl.maxA ≤ a.idx + 1 ∨ (cfg.budget ≠ none ∧ cl.grants.head? = some false))

def PhaseInv (cfg : Cfg) (cl : Caller) : Prop :=
  match cl.phase with
  | .fresh => cl.atts = [] ∧ cl.sleeps = []
  | .calling k due o =>
      ∃ a tl, cl.atts = a :: tl ∧ a.k = k ∧ a.out = o ∧ a.due = due ∧ a.seen = none ∧
        cl.sleeps.length = tl.length
  | .sleeping u =>
      ∃ a tl t d ds, cl.atts = a :: tl ∧ a.seen = some t ∧ cl.sleeps = d :: ds ∧ u = t + ceilMs d ∧ Retryable cfg a ∧
        ds.length = tl.length ∧ tl.length + 2 ≤ cl.maxA
  | .done =>
      ∃ a tl t, cl.atts = a :: tl ∧ a.seen = some t ∧ cl.result = some (resOf a.k a.out) ∧
        a.out ≠ .never ∧ StopReason cfg cl a ∧ cl.sleeps.length = tl.length
  | .unready =>
      ∃ a tl t, cl.atts = a :: tl ∧ a.seen = some t ∧ cl.result = some readyErr ∧ Retryable cfg a ∧
        cl.sleeps.length = tl.length + 1 ∧ tl.length + 2 ≤ cl.maxA
  | .dropped => True

structure CInv (cfg : Cfg) (cl : Caller) : Prop where
  attempt     : cl.attempt = cl.atts.length - 1
  hist        : Hist cfg cl.plan0 cl.atts
  planInv     : cl.plan = cl.plan0.drop cl.atts.length
  bound       : cl.atts.length ≤ max 1 cl.maxA
  sleeps      : SleepsOK cfg cl.sleeps
  sleepsLen   : cl.atts.length ≤ cl.sleeps.length + 1 ∧ cl.sleeps.length ≤ cl.atts.length
  grantsTail  : ∀ g ∈ cl.grants.tail, g = true
  grantsLive  : cl.phase ≠ .done → ∀ g ∈ cl.grants, g = true
  grantsNone  : cfg.budget = none → cl.grants = []
  grantsCount : cfg.budget ≠ none → ctTrue cl.grants = cl.sleeps.length
  resultDone  : cl.result ≠ none → cl.phase = .done ∨ cl.phase = .unready
  phase       : PhaseInv cfg cl

theorem cinv_new (cfg : Cfg) (m : Nat) (plan : List Step) : CInv cfg { maxA := m, plan := plan } := by
  constructor <;> simp [Hist, SleepsOK, PhaseInv, ctTrue]

/-- the answers and the readiness script a poll brings along are not part of the invariant -/
theorem cinv_env {cfg : Cfg} {cl : Caller} (h : CInv cfg cl) (ds : List Nat) (r : List Char) :
    CInv cfg { cl with choices := ds, rdy := r } :=
  ⟨h.attempt, h.hist, h.planInv, h.bound, h.sleeps, h.sleepsLen, h.grantsTail, h.grantsLive, h.grantsNone,
   h.grantsCount, h.resultDone, h.phase⟩

theorem headD_drop (l : List Step) (n : Nat) (d : Step) : (l.drop n).headD d = l.getD n d := by
  simp [List.headD_eq_head?_getD, List.head?_drop, List.getD_eq_getElem?_getD]

theorem hist_seenNow {cfg : Cfg} {sc : List Step} {now : Nat} {a : Att} {tl : List Att}
    (h : Hist cfg sc (a :: tl)) (hd : a.due ≤ now) : Hist cfg sc (seenNow now (a :: tl)) := by
  simp only [Hist, seenNow] at h ⊢
  obtain ⟨h1, h2, h3, _, h5, h6⟩ := h
  refine ⟨h1, h2, h3, ?_, h5, h6⟩
  intro t ht; simp at ht; omega

/-- the first attempt: `fresh → calling 0` -/
theorem startCall_fresh_inv {cfg : Cfg} {now serial : Nat} {b : BState} {c : Nat} {cl : Caller}
    (h : CInv cfg cl) (hp : cl.phase = .fresh) : CInv cfg (startCall now serial b c cl 0).cl := by
  have hph := h.phase
  simp only [PhaseInv, hp] at hph
  obtain ⟨ha, hs⟩ := hph
  have hg := h.grantsLive (by simp [hp])
  have hr : cl.result = none := by
    cases hres : cl.result with
    | none => rfl
    | some r => have := h.resultDone (by simp [hres]); simp [hp] at this
  have hpl := h.planInv
  rw [ha] at hpl
  constructor
  · simp [startCall, ha]
  · simp only [startCall, ha, Hist, hpl, headD_drop]
    simp
  · simp [startCall, ha, hpl]
  · simp [startCall, ha]; omega
  · simpa [startCall] using h.sleeps
  · simp [startCall, ha, hs]
  · simpa [startCall] using h.grantsTail
  · intro _; simpa [startCall] using hg
  · simpa [startCall] using h.grantsNone
  · simpa [startCall] using h.grantsCount
  · simp [startCall, hr]
  · simp only [startCall, PhaseInv, ha]
    exact ⟨_, _, rfl, rfl, rfl, rfl, rfl, by simp [hs]⟩

/-- a retry: `sleeping → calling (attempt+1)` once the back-off has elapsed and the service instance is ready again;
`sleeping → unready` when that readiness poll fails -/
theorem retryCall_inv {cfg : Cfg} {now serial : Nat} {b : BState} {c u : Nat} {cl : Caller}
    (h : CInv cfg cl) (hp : cl.phase = .sleeping u) (hu : u ≤ now) :
    CInv cfg (retryCall now serial b c cl).cl := by
  have hph := h.phase
  simp only [PhaseInv, hp] at hph
  obtain ⟨a, tl, t, d, ds, ha, hseen, hsd, hu', hret, hsl, hroom⟩ := hph
  have hg := h.grantsLive (by simp [hp])
  have hatt := h.attempt
  have hh := h.hist
  have hr : cl.result = none := by
    cases hres : cl.result with
    | none => rfl
    | some r => have := h.resultDone (by simp [hres]); simp [hp] at this
  rw [ha] at hatt hh
  simp at hatt
  have hpl := h.planInv
  rw [ha] at hpl
  have hso := h.sleeps
  rw [hsd] at hso
  simp only [SleepsOK] at hso
  have hidx : a.idx = tl.length := hh.1
  have hlo : cfg.backoff a.idx ≤ d := by rw [hidx, ← hsl]; exact hso.1
  have hhi : d ≤ cfg.backoff a.idx + cfg.spread a.idx := by rw [hidx, ← hsl]; exact hso.2.1
  unfold retryCall
  split
  · constructor
    · simp [startCall, ha, hatt]
    · simp only [startCall, ha, Hist, hpl, headD_drop]
      refine ⟨by simp [hatt], by simp [hatt], by simp [hatt], by simp, ?_, hh⟩
      intro p hp'
      simp at hp'; subst hp'
      exact ⟨hret, by simpa [hsd] using hlo, by simpa [hsd] using hhi, t, hseen, by simp [hsd]; omega⟩
    · simp [startCall, ha, hpl]
    · simp [startCall, ha]; omega
    · simpa [startCall] using h.sleeps
    · simp [startCall, ha, hsd, hsl]
    · simpa [startCall] using h.grantsTail
    · intro _; simpa [startCall] using hg
    · simpa [startCall] using h.grantsNone
    · simpa [startCall] using h.grantsCount
    · simp [startCall, hr]
    · simp only [startCall, PhaseInv, ha]
      exact ⟨_, _, rfl, rfl, rfl, rfl, rfl, by simp [hsd, hsl]⟩
  · constructor
    · simpa using h.attempt
    · simpa using h.hist
    · simpa using h.planInv
    · simpa using h.bound
    · simpa using h.sleeps
    · simpa using h.sleepsLen
    · simpa using h.grantsTail
    · intro _; simpa using hg
    · simpa using h.grantsNone
    · simpa using h.grantsCount
    · simp
    · simp only [PhaseInv]
      refine ⟨a, tl, t, ha, hseen, ?_, hret, ?_, hroom⟩
      · trivial
      · simp [hsd, hsl]

theorem length_seenNow (now : Nat) (l : List Att) : (seenNow now l).length = l.length := by
  cases l <;> simp [seenNow]

theorem map_k_seenNow (now : Nat) (l : List Att) : (seenNow now l).map (·.k) = l.map (·.k) := by
  cases l <;> simp [seenNow]

theorem ctTrue_cons_true (l : List Bool) : ctTrue (true :: l) = ctTrue l + 1 := by simp [ctTrue]
theorem ctTrue_cons_false (l : List Bool) : ctTrue (false :: l) = ctTrue l := by simp [ctTrue]

/-- the outcome of the running attempt is observed: `calling → done | sleeping` -/
theorem observe_inv {cfg : Cfg} {now serial : Nat} {b : BState} {c k due : Nat} {o : Out} {cl : Caller}
    (h : CInv cfg cl) (hp : cl.phase = .calling k due o) (hd : due ≤ now) (hn : o ≠ .never) :
    CInv cfg (observe cfg now serial b c cl k o).cl := by
  have hph := h.phase
  simp only [PhaseInv, hp] at hph
  obtain ⟨a, tl, ha, hk, ho, hdue, hseen, hsl⟩ := hph
  have hg := h.grantsLive (by simp [hp])
  have hatt := h.attempt
  have hh := h.hist
  have hb := h.bound
  have hr : cl.result = none := by
    cases hres : cl.result with
    | none => rfl
    | some r => have := h.resultDone (by simp [hres]); simp [hp] at this
  rw [ha] at hatt hh hb
  simp at hatt
  have hidx : a.idx = tl.length := hh.1
  have hh' : Hist cfg cl.plan0 (seenNow now (a :: tl)) := hist_seenNow hh (by omega)
  have hpl := h.planInv
  simp only [observe]
  split
  · -- stop
    rename_i hv
    obtain ⟨hgr, hwhy⟩ := classify_stop hv
    constructor
    · simp [ha, seenNow, hatt]
    · simpa [ha] using hh'
    · simpa [length_seenNow] using hpl
    · simpa [ha, seenNow] using hb
    · simpa using h.sleeps
    · simp [ha, seenNow, hsl]
    · rcases hgr with hgr | ⟨_, hgr⟩
      · simpa [hgr] using h.grantsTail
      · simpa [hgr] using hg
    · simp
    · intro hnone
      rcases hgr with hgr | ⟨hne, _⟩
      · simpa [hgr] using h.grantsNone hnone
      · exact absurd hnone hne
    · intro hne
      rcases hgr with hgr | ⟨_, hgr⟩
      · simpa [hgr] using h.grantsCount hne
      · simpa [hgr, ctTrue_cons_false] using h.grantsCount hne
    · simp
    · simp only [PhaseInv, ha, seenNow]
      refine ⟨_, _, now, rfl, rfl, by simp [hk, ho], by simpa [ho] using hn, ?_, by simpa using hsl⟩
      unfold StopReason
      rcases hwhy with hw | hw | hw | ⟨kd, hkd, hw⟩
      · left; simp [ho, hw]
      · right; left; simp [ho, hw]
      · exact absurd hw hn
      · right; right
        refine ⟨kd, by simp [ho, hkd], ?_⟩
        rcases hw with hw | hw | ⟨hne, hw⟩
        · left; exact hw
        · right; left; simp [hidx]; omega
        · right; right; exact ⟨hne, by simp [hw]⟩
  · -- retry
    rename_i hv
    obtain ⟨⟨kd, hkd, hpred⟩, hroom, _, hgr⟩ := classify_retry hv
    constructor
    · simp [ha, seenNow, hatt]
    · simpa [ha] using hh'
    · simpa [length_seenNow] using hpl
    · simpa [ha, seenNow] using hb
    · simp only [SleepsOK]
      have hb := pick_bounds cfg cl.attempt cl.choices.head?
      have he : cl.attempt = cl.sleeps.length := by rw [hatt, hsl]
      rw [← he]
      exact ⟨hb.1, hb.2, h.sleeps⟩
    · simp [ha, seenNow, hsl]
    · rcases hgr with ⟨_, hgr⟩ | ⟨_, hgr⟩
      · simpa [hgr] using h.grantsTail
      · simpa [hgr] using hg
    · intro _
      rcases hgr with ⟨_, hgr⟩ | ⟨_, hgr⟩
      · simpa [hgr] using hg
      · simpa [hgr] using hg
    · intro hnone
      rcases hgr with ⟨_, hgr⟩ | ⟨hne, _⟩
      · simpa [hgr] using h.grantsNone hnone
      · exact absurd hnone hne
    · intro hne
      rcases hgr with ⟨hnone, _⟩ | ⟨_, hgr⟩
      · exact absurd hnone hne
      · simp [hgr, ctTrue_cons_true, h.grantsCount hne]
    · simp [hr]
    · simp only [PhaseInv, ha, seenNow]
      exact ⟨_, _, now, _, _, rfl, rfl, rfl, rfl, ⟨kd, by simp [ho, hkd], hpred⟩, hsl, by omega⟩

/-! ## the event log and the ghost history agree -/

def isCallOf (c : Nat) : Line → Option Nat
  | (_, .innerCall c' k) => if c' = c then some k else none
  | _ => none

/-- the serials of the `inner_call` events of request `c` in a trace, in order -/
def callsOf (c : Nat) (l : List Line) : List Nat := l.filterMap (isCallOf c)

/-- the serials of the attempts of a request according to its ghost history, oldest first -/
def serials (cl : Caller) : List Nat := (cl.atts.map (·.k)).reverse

def resultOf (c : Nat) : Line → Option Res
  | (_, .result c' r) => if c' = c then some r else none
  | _ => none

/-- the results delivered to request `c` in a trace -/
def resultsOf (c : Nat) (l : List Line) : List Res := l.filterMap (resultOf c)

/-- the budget's answers are neither inner calls nor results -/
@[simp] theorem filterMap_isCallOf_withdraw (c now c' : Nat) (gs : List Bool) :
    List.filterMap (isCallOf c) (gs.map fun g => ((now, REv.withdraw c' g) : Line)) = [] := by
  induction gs with
  | nil => rfl
  | cons g tl ih => simp [List.filterMap_cons, isCallOf, ih]
@[simp] theorem filterMap_resultOf_withdraw (c now c' : Nat) (gs : List Bool) :
    List.filterMap (resultOf c) (gs.map fun g => ((now, REv.withdraw c' g) : Line)) = [] := by
  induction gs with
  | nil => rfl
  | cons g tl ih => simp [List.filterMap_cons, resultOf, ih]
@[simp] theorem callsOf_withdraw (c now c' : Nat) (gs : List Bool) :
    callsOf c (gs.map fun g => ((now, REv.withdraw c' g) : Line)) = [] := filterMap_isCallOf_withdraw c now c' gs
@[simp] theorem resultsOf_withdraw (c now c' : Nat) (gs : List Bool) :
    resultsOf c (gs.map fun g => ((now, REv.withdraw c' g) : Line)) = [] := filterMap_resultOf_withdraw c now c' gs

theorem callsOf_cons (c : Nat) (x : Line) (l : List Line) : callsOf c (x :: l) = (isCallOf c x).toList ++ callsOf c l := by
  simp only [callsOf, List.filterMap_cons]; cases isCallOf c x <;> simp
theorem resultsOf_cons (c : Nat) (x : Line) (l : List Line) : resultsOf c (x :: l) = (resultOf c x).toList ++ resultsOf c l := by
  simp only [resultsOf, List.filterMap_cons]; cases resultOf c x <;> simp

@[simp] theorem callsOf_ite_raw (c now : Nat) (p : Prop) [Decidable p] (m : String) :
    callsOf c (if p then [] else [((now, REv.raw m) : Line)]) = [] := by
  split <;> simp [callsOf, isCallOf]
@[simp] theorem resultsOf_ite_raw (c now : Nat) (p : Prop) [Decidable p] (m : String) :
    resultsOf c (if p then [] else [((now, REv.raw m) : Line)]) = [] := by
  split <;> simp [resultsOf, resultOf]

@[simp] theorem callsOf_append (c : Nat) (a b : List Line) : callsOf c (a ++ b) = callsOf c a ++ callsOf c b := by
  simp [callsOf, List.filterMap_append]
@[simp] theorem resultsOf_append (c : Nat) (a b : List Line) : resultsOf c (a ++ b) = resultsOf c a ++ resultsOf c b := by
  simp [resultsOf, List.filterMap_append]
@[simp] theorem callsOf_nil (c : Nat) : callsOf c [] = [] := rfl
@[simp] theorem resultsOf_nil (c : Nat) : resultsOf c [] = [] := rfl

/-- what a sequence of loop iterations of request `c`, from `cl` to `o`, guarantees -/
structure Trans (cfg : Cfg) (c : Nat) (cl : Caller) (o : Outp) : Prop where
  inv     : CInv cfg o.cl
  calls   : serials cl ++ callsOf c o.evs = serials o.cl
  results : cl.result.toList ++ resultsOf c o.evs = o.cl.result.toList
  others  : ∀ c', c' ≠ c → callsOf c' o.evs = [] ∧ resultsOf c' o.evs = []
  maxA    : o.cl.maxA = cl.maxA ∧ o.cl.plan0 = cl.plan0

theorem result_none_of_not_done {cfg : Cfg} {cl : Caller} (h : CInv cfg cl) (hp : cl.phase ≠ .done)
    (hp' : cl.phase ≠ .unready) : cl.result = none := by
  cases hres : cl.result with
  | none => rfl
  | some r => rcases h.resultDone (by simp [hres]) with e | e <;> contradiction

theorem tickC_trans {cfg : Cfg} {now serial : Nat} {b : BState} {c : Nat} {cl : Caller} {o : Outp}
    (h : CInv cfg cl) (ht : tickC cfg now serial b c cl = some o) : Trans cfg c cl o := by
  unfold tickC at ht
  split at ht
  · -- fresh
    rename_i hp
    simp at ht; subst ht
    refine ⟨startCall_fresh_inv h hp, ?_, ?_, ?_, ?_⟩
    · simp [startCall, callsOf, isCallOf, serials]
    · simp [startCall, resultsOf, resultOf]
    · intro c' hne
      have : ¬ c = c' := fun e => hne e.symm
      simp [startCall, callsOf, isCallOf, resultsOf, resultOf, this]
    · simp [startCall]
  · -- calling
    rename_i k due out hp
    split at ht
    · rename_i hc
      simp at ht; subst ht
      have hr := result_none_of_not_done h (by simp [hp]) (by simp [hp])
      refine ⟨observe_inv h hp hc.1 hc.2, ?_, ?_, ?_, ?_⟩
      · simp only [observe]; split <;> simp [callsOf_cons, isCallOf, serials, map_k_seenNow]
      · simp only [observe]; split <;> simp [resultsOf_cons, resultOf, hr]
      · intro c' hne
        have : ¬ c = c' := fun e => hne e.symm
        simp only [observe]; split <;> simp [callsOf_cons, isCallOf, resultsOf_cons, resultOf, this]
      · simp only [observe]; split <;> simp
    · simp at ht
  · -- sleeping
    rename_i u hp
    split at ht
    · rename_i hu
      simp at ht; subst ht
      have hr := result_none_of_not_done h (by simp [hp]) (by simp [hp])
      refine ⟨retryCall_inv h hp hu.1, ?_, ?_, ?_, ?_⟩
      · unfold retryCall; split <;> simp [startCall, callsOf, isCallOf, serials]
      · unfold retryCall; split <;> simp [startCall, resultsOf, resultOf, hr]
      · intro c' hne
        have : ¬ c = c' := fun e => hne e.symm
        unfold retryCall; split <;> simp [startCall, callsOf, isCallOf, resultsOf, resultOf, this]
      · unfold retryCall; split <;> simp [startCall]
    · simp at ht
  · simp at ht
  · simp at ht
  · simp at ht

theorem loopC_trans {cfg : Cfg} {now c : Nat} (f : Nat) :
    ∀ {serial : Nat} {b : BState} {cl : Caller}, CInv cfg cl →
      Trans cfg c cl (loopC cfg now c f serial b cl) := by
  induction f with
  | zero =>
    intro serial b cl h
    exact ⟨h, by simp [loopC], by simp [loopC], by simp [loopC], rfl, rfl⟩
  | succ f ih =>
    intro serial b cl h
    unfold loopC
    cases ht : tickC cfg now serial b c cl with
    | none => exact ⟨h, by simp, by simp, by simp, rfl, rfl⟩
    | some o =>
      have t1 := tickC_trans h ht
      have t2 := ih (serial := o.serial) (b := o.b) t1.inv
      refine ⟨t2.inv, ?_, ?_, ?_, ?_⟩
      · have h1 := t1.calls; have h2 := t2.calls
        simp only [callsOf_append, ← List.append_assoc, h1, h2]
      · have h1 := t1.results; have h2 := t2.results
        simp only [resultsOf_append, ← List.append_assoc, h1, h2]
      · intro c' hne
        have h1 := t1.others c' hne; have h2 := t2.others c' hne
        simp [h1, h2]
      · simp [t2.maxA.1, t1.maxA.1, t2.maxA.2, t1.maxA.2]

/-! ## the invariant of every reachable state -/

/-- serials of the inner calls made so far by request `c` according to the ghost history -/
def nCalls (s : State) (c : Nat) : List Nat :=
  match lookup s.callers c with
  | some cl => serials cl
  | none => []

/-- the result delivered to request `c` according to the ghost history -/
def resOfC (s : State) (c : Nat) : Option Res :=
  match lookup s.callers c with
  | some cl => cl.result
  | none => none

structure SInv (cfg : Cfg) (s : State) : Prop where
  all     : ∀ p ∈ s.callers, CInv cfg p.2
  calls   : ∀ c, callsOf c s.log = nCalls s c
  results : ∀ c, resultsOf c s.log = (resOfC s c).toList

theorem drop_inv {cfg : Cfg} {cl : Caller} (h : CInv cfg cl) (hp : cl.phase ≠ .done) (hp' : cl.phase ≠ .unready) :
    CInv cfg { cl with phase := .dropped } := by
  have hr := result_none_of_not_done h hp hp'
  constructor
  · exact h.attempt
  · exact h.hist
  · exact h.planInv
  · exact h.bound
  · exact h.sleeps
  · exact h.sleepsLen
  · exact h.grantsTail
  · intro _; exact h.grantsLive hp
  · exact h.grantsNone
  · exact h.grantsCount
  · simp [hr]
  · simp [PhaseInv]

/-- events that are neither an inner call nor a result leave the per-request counts alone -/
theorem sinv_emit_neutral {cfg : Cfg} {s : State} {evs : List REv} (h : SInv cfg s)
    (b : BState) (d o : Nat)
    (h1 : ∀ c t, callsOf c (evs.map fun e => ((t, e) : Line)) = [])
    (h2 : ∀ c t, resultsOf c (evs.map fun e => ((t, e) : Line)) = []) :
    SInv cfg (emit { s with b := b, deposits := d, others := o } evs) := by
  refine ⟨h.all, ?_, ?_⟩
  · intro c; have := h.calls c; simp [emit, nCalls, h1] at *; exact this
  · intro c; have := h.results c; simp [emit, resOfC, h2] at *; exact this

theorem sinv_init (cfg : Cfg) : SInv cfg (init cfg) := by
  refine ⟨by simp [init], ?_, ?_⟩ <;> intro c <;> simp [init, nCalls, resOfC, lookup]

theorem sinv_arrive {cfg : Cfg} {s : State} (h : SInv cfg s) (c : Nat) (ma : Option Nat) (plan : List Step) :
    SInv cfg (arriveS cfg s c ma plan) := by
  unfold arriveS
  cases hl : lookup s.callers c with
  | some _ => exact h
  | none =>
    refine ⟨?_, ?_, ?_⟩
    · intro p hp
      simp at hp
      rcases hp with hp | hp
      · subst hp; exact cinv_new cfg _ _
      · exact h.all p hp
    · intro c'
      have := h.calls c'
      by_cases hc : c = c'
      · subst hc; simp [nCalls, lookup, hl] at *; exact this
      · simp [nCalls, lookup, hc] at *; exact this
    · intro c'
      have := h.results c'
      by_cases hc : c = c'
      · subst hc; simp [resOfC, lookup, hl] at *; exact this
      · simp [resOfC, lookup, hc] at *; exact this

theorem sinv_poll {cfg : Cfg} {s : State} (h : SInv cfg s) (c : Nat) (ds : List Nat) : SInv cfg (pollS cfg s c ds) := by
  unfold pollS
  cases hl : lookup s.callers c with
  | none => exact h
  | some cl =>
    have hc := cinv_env (h.all _ (mem_of_lookup hl)) ds s.rdy
    have t := loopC_trans (cfg := cfg) (now := s.now) (c := c) (fuel cl) (serial := s.serial) (b := s.b) hc
    refine ⟨?_, ?_, ?_⟩
    · intro p hp
      rcases mem_modify hp with hp | hp
      · exact h.all p hp
      · rw [hp]; exact t.inv
    · intro c'
      have := h.calls c'
      by_cases hcc : c' = c
      · subst hcc
        have h2 := t.calls
        rw [show serials ({ cl with choices := ds, rdy := s.rdy } : Caller) = serials cl from rfl] at h2
        simp [nCalls, lookup_modify_self hl, hl] at *
        rw [this, h2]
      · have h2 := (t.others c' hcc).1
        simp [nCalls, lookup_modify_ne hcc, h2] at *
        exact this
    · intro c'
      have := h.results c'
      by_cases hcc : c' = c
      · subst hcc
        have h2 := t.results
        rw [show ({ cl with choices := ds, rdy := s.rdy } : Caller).result = cl.result from rfl] at h2
        simp [resOfC, lookup_modify_self hl, hl] at *
        rw [this, h2]
      · have h2 := (t.others c' hcc).2
        simp [resOfC, lookup_modify_ne hcc, h2] at *
        exact this

theorem sinv_modify_dropped {cfg : Cfg} {s : State} (h : SInv cfg s) {c : Nat} {cl : Caller}
    (hl : lookup s.callers c = some cl) (hp : cl.phase ≠ .done) (hpu : cl.phase ≠ .unready) (evs : List REv)
    (h1 : ∀ c t, callsOf c (evs.map fun e => ((t, e) : Line)) = [])
    (h2 : ∀ c t, resultsOf c (evs.map fun e => ((t, e) : Line)) = []) :
    SInv cfg (emit { s with callers := modify s.callers c { cl with phase := .dropped } } evs) := by
  have hc := h.all _ (mem_of_lookup hl)
  refine ⟨?_, ?_, ?_⟩
  · intro p hp'
    rcases mem_modify hp' with hp' | hp'
    · exact h.all p hp'
    · rw [hp']; exact drop_inv hc hp hpu
  · intro c'
    have := h.calls c'
    by_cases hcc : c' = c
    · subst hcc; simp [emit, nCalls, lookup_modify_self hl, hl, h1] at *; exact this
    · simp [emit, nCalls, lookup_modify_ne hcc, h1] at *; exact this
  · intro c'
    have := h.results c'
    by_cases hcc : c' = c
    · subst hcc; simp [emit, resOfC, lookup_modify_self hl, hl, h2] at *; exact this
    · simp [emit, resOfC, lookup_modify_ne hcc, h2] at *; exact this

theorem emit_nil (s : State) : emit s [] = s := by simp [emit]

theorem sinv_drop {cfg : Cfg} {s : State} (h : SInv cfg s) (c : Nat) : SInv cfg (dropS s c) := by
  unfold dropS
  split
  · exact h
  · rename_i cl hl
    split
    · exact h
    · exact h
    · exact h
    · rename_i k due o hp
      exact sinv_modify_dropped h hl (by simp [hp]) (by simp [hp]) _ (by intro c t; simp [callsOf, isCallOf])
        (by intro c t; simp [resultsOf, resultOf])
    · rename_i hnd hnu _ _
      have := sinv_modify_dropped h hl (fun e => hnd e) (fun e => hnu e) [] (by simp) (by simp)
      rwa [emit_nil] at this

theorem sinv_step {cfg : Cfg} {s : State} (h : SInv cfg s) (op : Op) : SInv cfg (stepS cfg s op) := by
  have neutral : ∀ (b : BState) (d o : Nat) (e : REv), (∀ c t, isCallOf c (t, e) = none) →
      (∀ c t, resultOf c (t, e) = none) →
      SInv cfg (emit { s with b := b, deposits := d, others := o } [e]) := by
    intro b d o e h1 h2
    exact sinv_emit_neutral h b d o (by intro c t; simp [callsOf, h1])
      (by intro c t; simp [resultsOf, h2])
  cases op with
  | adv ms => exact ⟨h.all, h.calls, h.results⟩
  | arrive c ma plan => exact sinv_arrive h c ma plan
  | poll c ds => exact sinv_poll h c ds
  | drop c => exact sinv_drop h c
  | probeBalance =>
    simp only [stepS]
    split
    · exact neutral s.b s.deposits s.others _ (fun _ _ => rfl) (fun _ _ => rfl)
    · exact neutral s.b s.deposits s.others _ (fun _ _ => rfl) (fun _ _ => rfl)
  | probeLimit => exact neutral s.b s.deposits s.others _ (fun _ _ => rfl) (fun _ _ => rfl)
  | deposit =>
    simp only [stepS]
    split
    · exact neutral _ _ s.others _ (fun _ _ => rfl) (fun _ _ => rfl)
    · exact neutral s.b s.deposits s.others _ (fun _ _ => rfl) (fun _ _ => rfl)
  | withdraw =>
    simp only [stepS]
    split
    · exact neutral _ s.deposits _ _ (fun _ _ => rfl) (fun _ _ => rfl)
    · exact neutral s.b s.deposits s.others _ (fun _ _ => rfl) (fun _ _ => rfl)
  | invalid => exact neutral s.b s.deposits s.others _ (fun _ _ => rfl) (fun _ _ => rfl)

theorem foldl_inv {cfg : Cfg} (P : State → Prop) (hstep : ∀ s op, P s → P (stepS cfg s op))
    (ops : List Op) : ∀ s, P s → P (ops.foldl (stepS cfg) s) := by
  induction ops with
  | nil => intro s h; exact h
  | cons op tl ih => intro s h; exact ih _ (hstep s op h)

/-- every reachable state satisfies the invariant -/
theorem sinv_reachable (cfg : Cfg) (ops : List Op) : SInv cfg (run cfg ops) :=
  foldl_inv (SInv cfg) (fun _ op h => sinv_step h op) ops _ (sinv_init cfg)

/-! ## conservation of the shared budget (sequential semantics) -/

/-- every grant takes at least `cost` tokens, a refusal creates none, a deposit adds at most `amount` -/
structure Conserving (cost amount : Nat) (bu : Budget) : Prop where
  grant   : ∀ b, (bu.withdraw b).1 = true → (bu.withdraw b).2.tokens + cost ≤ b.tokens
  refuse  : ∀ b, (bu.withdraw b).1 = false → (bu.withdraw b).2.tokens ≤ b.tokens
  deposit : ∀ b, (bu.deposit b).tokens ≤ b.tokens + amount

theorem bucket_conserving (maxT : Nat) : Conserving 1 1 (bucket maxT) := by
  constructor
  · intro b h
    by_cases hc : 1 ≤ b.tokens
    · simp [bucket, hc]
    · simp [bucket, hc] at h
  · intro b h
    by_cases hc : 1 ≤ b.tokens
    · simp [bucket, hc] at h
    · simp [bucket, hc]
  · intro b; simp only [bucket]; omega

theorem aimd_conserving (minB maxB dep wd q : Nat) : Conserving wd dep (aimd minB maxB dep wd q) := by
  constructor
  · intro b h
    by_cases hc : b.tokens < wd
    · simp [aimd, hc] at h
    · simp [aimd, hc]; omega
  · intro b h
    by_cases hc : b.tokens < wd
    · simp [aimd, hc]
    · simp [aimd, hc] at h
  · intro b; simp only [aimd]; omega

/-- the configured budget (if any) is conserving -/
def BudgetOK (cost amount : Nat) (cfg : Cfg) : Prop := ∀ bu, cfg.budget = some bu → Conserving cost amount bu

/-- tokens taken by request `cl` so far -/
def spent (cost : Nat) (cl : Caller) : Nat := ctTrue cl.grants * cost

theorem ctTrue_append (a b : List Bool) : ctTrue (a ++ b) = ctTrue a + ctTrue b := by
  simp [ctTrue, List.count_append]

theorem classify_conserve {cfg : Cfg} {cost amount : Nat} (hb : BudgetOK cost amount cfg)
    (b : BState) (maxA att : Nat) (o : Out) :
    ctTrue (classify cfg b maxA att o).grants * cost + (classify cfg b maxA att o).b.tokens
      ≤ b.tokens + (classify cfg b maxA att o).deps * amount := by
  unfold classify
  cases o with
  | ok =>
    cases hbu : cfg.budget with
    | none => simp [ctTrue]
    | some bu => have := (hb bu hbu).deposit b; simp [ctTrue]; omega
  | panic => simp [ctTrue]
  | never => simp [ctTrue]
  | err kd =>
    by_cases hp : cfg.pred kd = false
    · simp [hp, ctTrue]
    · by_cases hm : maxA ≤ att + 1
      · simp [hp, hm, ctTrue]
      · cases hbu : cfg.budget with
        | none => simp [hp, hm, ctTrue]
        | some bu =>
          by_cases hw : (bu.withdraw b).1 = true
          · have := (hb bu hbu).grant b hw; simp [hp, hm, hw, ctTrue]; omega
          · have := (hb bu hbu).refuse b (by simpa using hw); simp [hp, hm, hw, ctTrue]; omega

theorem tickC_conserve {cfg : Cfg} {cost amount : Nat} (hb : BudgetOK cost amount cfg)
    {now serial : Nat} {b : BState} {c : Nat} {cl : Caller} {o : Outp}
    (ht : tickC cfg now serial b c cl = some o) :
    spent cost o.cl + o.b.tokens ≤ spent cost cl + b.tokens + o.deps * amount := by
  unfold tickC at ht
  split at ht
  · simp at ht; subst ht; simp [startCall, spent]
  · split at ht
    · simp at ht; subst ht
      have := classify_conserve hb b cl.maxA cl.attempt (by assumption)
      simp only [observe]
      split <;> simp [spent, ctTrue_append, Nat.add_mul] <;> omega
    · simp at ht
  · split at ht
    · simp at ht; subst ht
      unfold retryCall; split <;> simp [startCall, spent]
    · simp at ht
  · simp at ht
  · simp at ht
  · simp at ht

theorem loopC_conserve {cfg : Cfg} {cost amount : Nat} (hb : BudgetOK cost amount cfg) {now c : Nat} (f : Nat) :
    ∀ {serial : Nat} {b : BState} {cl : Caller},
      spent cost (loopC cfg now c f serial b cl).cl + (loopC cfg now c f serial b cl).b.tokens
        ≤ spent cost cl + b.tokens + (loopC cfg now c f serial b cl).deps * amount := by
  induction f with
  | zero => intro serial b cl; simp [loopC]
  | succ f ih =>
    intro serial b cl
    unfold loopC
    cases ht : tickC cfg now serial b c cl with
    | none => simp
    | some o =>
      have h1 := tickC_conserve hb ht
      have h2 := ih (serial := o.serial) (b := o.b) (cl := o.cl)
      simp [Nat.add_mul]; omega

/-- conservation over all requests sharing the budget and its other users -/
def GInv (cost amount : Nat) (cfg : Cfg) (s : State) : Prop :=
  gsum (spent cost) s.callers + s.others * cost + s.b.tokens ≤ cfg.b0.tokens + s.deposits * amount

theorem ginv_step {cfg : Cfg} {cost amount : Nat} (hb : BudgetOK cost amount cfg) {s : State}
    (h : GInv cost amount cfg s) (op : Op) : GInv cost amount cfg (stepS cfg s op) := by
  unfold GInv at h ⊢
  cases op with
  | adv ms => exact h
  | arrive c ma plan =>
    simp only [stepS, arriveS]
    split
    · exact h
    · simp [gsum, spent, ctTrue]; exact h
  | poll c ds =>
    simp only [stepS, pollS]
    split
    · exact h
    · rename_i cl hl
      have h1 := loopC_conserve hb (now := s.now) (c := c) (fuel cl) (serial := s.serial) (b := s.b)
        (cl := { cl with choices := ds, rdy := s.rdy })
      have h2 := gsum_modify (f := spent cost)
        (v := (loopC cfg s.now c (fuel cl) s.serial s.b { cl with choices := ds, rdy := s.rdy }).cl) hl
      rw [show spent cost ({ cl with choices := ds, rdy := s.rdy } : Caller) = spent cost cl from rfl] at h1
      simp [Nat.add_mul]; omega
  | drop c =>
    simp only [stepS, dropS]
    split
    · exact h
    · rename_i cl hl
      split
      · exact h
      · exact h
      · exact h
      · have h2 := gsum_modify (f := spent cost) (v := { cl with phase := .dropped }) hl
        simp [emit, spent] at *; omega
      · have h2 := gsum_modify (f := spent cost) (v := { cl with phase := .dropped }) hl
        simp [spent] at *; omega
  | probeBalance => simp only [stepS]; split <;> simpa [emit] using h
  | probeLimit => simpa [stepS, emit] using h
  | deposit =>
    simp only [stepS]
    split
    · rename_i bu hbu
      have := (hb bu hbu).deposit s.b
      simp [emit, Nat.add_mul]; omega
    · simpa [emit] using h
  | withdraw =>
    simp only [stepS]
    split
    · rename_i bu hbu
      by_cases hw : (bu.withdraw s.b).1 = true
      · have := (hb bu hbu).grant s.b hw
        simp [emit, hw, Nat.add_mul]; omega
      · have := (hb bu hbu).refuse s.b (by simpa using hw)
        simp [emit, hw]; omega
    · simpa [emit] using h
  | invalid => simpa [stepS, emit] using h

theorem ginv_reachable {cfg : Cfg} {cost amount : Nat} (hb : BudgetOK cost amount cfg) (ops : List Op) :
    GInv cost amount cfg (run cfg ops) :=
  foldl_inv (GInv cost amount cfg) (fun _ op h => ginv_step hb h op) ops _
    (by simp [GInv, init, gsum])

theorem gsum_mul (f : Caller → Nat) (k : Nat) (l : List (Nat × Caller)) :
    gsum (fun cl => f cl * k) l = gsum f l * k := by
  induction l with
  | nil => simp [gsum]
  | cons p tl ih => obtain ⟨c, x⟩ := p; simp [gsum, ih, Nat.add_mul]

/-- retries made so far by a request: its inner calls after the first -/
def retries (cl : Caller) : Nat := cl.atts.length - 1

/-- retries made so far by all requests -/
def totalRetries (s : State) : Nat := gsum retries s.callers

theorem retries_eq (cl : Caller) : retries cl = cl.atts.length - 1 := rfl
theorem totalRetries_eq (s : State) : totalRetries s = gsum retries s.callers := rfl

/-! ## consequences of the history invariant -/

theorem hist_tail {cfg : Cfg} {sc : List Step} : ∀ {tl : List Att} {a : Att}, Hist cfg sc (a :: tl) →
    ∀ q ∈ tl, Retryable cfg q ∧ ∃ t, q.seen = some t := by
  intro tl
  induction tl with
  | nil => intro a _ q hq; simp at hq
  | cons b tl' ih =>
    intro a h q hq
    simp only [Hist] at h
    obtain ⟨_, _, _, _, h5, h6⟩ := h
    simp at hq
    rcases hq with hq | hq
    · subst hq
      obtain ⟨hr, _, _, t, ht, _⟩ := h5 q (by simp)
      exact ⟨hr, t, ht⟩
    · exact ih (by simpa [Hist] using h6) q hq

theorem hist_member {cfg : Cfg} {sc : List Step} : ∀ (pre : List Att) {l : List Att} {a : Att} {rest : List Att},
    Hist cfg sc l → l = pre ++ a :: rest →
    a.idx = rest.length ∧ a.out = (sc.getD a.idx { lat := 0, out := .ok }).out ∧
    a.due = a.start + (sc.getD a.idx { lat := 0, out := .ok }).lat ∧ (∀ t, a.seen = some t → a.due ≤ t) := by
  intro pre
  induction pre with
  | nil =>
    intro l a rest h hl
    subst hl
    simp only [List.nil_append, Hist] at h
    exact ⟨h.1, h.2.1, h.2.2.1, h.2.2.2.1⟩
  | cons x pre' ih =>
    intro l a rest h hl
    subst hl
    simp only [List.cons_append, Hist] at h
    exact ih h.2.2.2.2.2 rfl

theorem hist_adjacent {cfg : Cfg} {sc : List Step} : ∀ (pre : List Att) {l : List Att} {p q : Att} {rest : List Att},
    Hist cfg sc l → l = pre ++ p :: q :: rest →
    Retryable cfg q ∧ p.idx = q.idx + 1 ∧ cfg.backoff q.idx ≤ p.wait ∧ p.wait ≤ cfg.backoff q.idx + cfg.spread q.idx ∧
      ∃ t, q.seen = some t ∧ q.due ≤ t ∧ t + ceilMs p.wait ≤ p.start := by
  intro pre
  induction pre with
  | nil =>
    intro l p q rest h hl
    subst hl
    simp only [List.nil_append, Hist] at h
    obtain ⟨h1, _, _, _, h5, hq1, _, _, hq4, _⟩ := h
    obtain ⟨hr, hlo, hhi, t, ht, hle⟩ := h5 q (by simp)
    exact ⟨hr, by simp at h1; omega, hlo, hhi, t, ht, hq4 t ht, hle⟩
  | cons x pre' ih =>
    intro l p q rest h hl
    subst hl
    simp only [List.cons_append, Hist] at h
    exact ih h.2.2.2.2.2 rfl

/-! ## what one poll does, phase by phase -/

theorem fuel_succ (cl : Caller) : fuel cl = (2 * cl.maxA + 3) + 1 := by simp [fuel]

/-- the first poll of a request calls the inner service in that very step -/
theorem poll_fresh_calls {cfg : Cfg} {s : State} {c : Nat} {cl : Caller} (ds : List Nat)
    (hl : lookup s.callers c = some cl) (hp : cl.phase = .fresh) :
    ∃ rest, (pollS cfg s c ds).log = s.log ++ (s.now, REv.innerCall c s.serial) :: rest := by
  simp only [pollS, hl, fuel_succ]
  unfold loopC
  simp only [tickC, hp]
  exact ⟨_, by simp [startCall]; rfl⟩

/-- a request whose back-off has elapsed calls the inner service as soon as it is polled, if the service instance
answers the readiness poll with "ready" -/
theorem poll_sleeping_calls {cfg : Cfg} {s : State} {c u : Nat} {cl : Caller} (ds : List Nat)
    (hl : lookup s.callers c = some cl) (hp : cl.phase = .sleeping u) (hu : u ≤ s.now)
    (hrec : recovered cfg cl.atts s.now = true) (hr : (readyOf s.rdy).1 = true) :
    ∃ rest, (pollS cfg s c ds).log = s.log ++ (s.now, REv.innerCall c s.serial) :: rest := by
  simp only [pollS, hl, fuel_succ]
  unfold loopC
  simp only [tickC, hp, hu, hrec, and_self, if_true, retryCall, hr]
  exact ⟨_, by simp [startCall]; rfl⟩

/-- … and if the readiness poll fails, the request ends with that error: no inner call, no budget operation -/
theorem poll_sleeping_unready {cfg : Cfg} {s : State} {c u : Nat} {cl : Caller} (ds : List Nat)
    (hl : lookup s.callers c = some cl) (hp : cl.phase = .sleeping u) (hu : u ≤ s.now)
    (hrec : recovered cfg cl.atts s.now = true) (hr : (readyOf s.rdy).1 = false) :
    (pollS cfg s c ds).log = s.log ++ [(s.now, REv.result c readyErr)] ∧ (pollS cfg s c ds).b = s.b ∧
    (pollS cfg s c ds).serial = s.serial := by
  simp only [pollS, hl, fuel_succ]
  unfold loopC
  simp only [tickC, hp, hu, hrec, and_self, if_true, retryCall, hr]
  unfold loopC
  simp [tickC]

/-- before the end of the back-off — and while the service instance is still recovering — a poll does nothing at all -/
theorem poll_sleeping_waits {cfg : Cfg} {s : State} {c u : Nat} {cl : Caller} (ds : List Nat)
    (hl : lookup s.callers c = some cl) (hp : cl.phase = .sleeping u)
    (hu : s.now < u ∨ recovered cfg cl.atts s.now = false) :
    (pollS cfg s c ds).log = s.log ∧ (pollS cfg s c ds).b = s.b ∧ (pollS cfg s c ds).serial = s.serial := by
  have : ¬ (u ≤ s.now ∧ recovered cfg cl.atts s.now = true) := by
    rcases hu with hu | hu
    · omega
    · intro h
      rw [hu] at h; cases h.2
  simp only [pollS, hl, fuel_succ]
  unfold loopC
  simp [tickC, hp, this]

/-- a finished request never acts again -/
theorem poll_done_inert {cfg : Cfg} {s : State} {c : Nat} {cl : Caller} (ds : List Nat)
    (hl : lookup s.callers c = some cl) (hp : cl.phase = .done ∨ cl.phase = .unready) :
    (pollS cfg s c ds).log = s.log ∧ (pollS cfg s c ds).b = s.b ∧ (pollS cfg s c ds).serial = s.serial := by
  simp only [pollS, hl, fuel_succ]
  unfold loopC
  rcases hp with hp | hp <;> simp [tickC, hp]

theorem observe_evs (cfg : Cfg) (now serial : Nat) (b : BState) (c : Nat) (cl : Caller) (k : Nat) (o : Out) :
    ∃ rest, (observe cfg now serial b c cl k o).evs = (now, REv.innerDone c k o) :: rest := by
  simp only [observe]
  split <;> exact ⟨_, rfl⟩

/-- the outcome of a ready inner call is observed by the poll in that very step -/
theorem poll_calling_observes {cfg : Cfg} {s : State} {c k due : Nat} {o : Out} {cl : Caller} (ds : List Nat)
    (hl : lookup s.callers c = some cl) (hp : cl.phase = .calling k due o) (hd : due ≤ s.now)
    (hn : o ≠ .never) :
    ∃ rest, (pollS cfg s c ds).log = s.log ++ (s.now, REv.innerDone c k o) :: rest := by
  have ht : tickC cfg s.now s.serial s.b c { cl with choices := ds, rdy := s.rdy }
      = some (observe cfg s.now s.serial s.b c { cl with choices := ds, rdy := s.rdy } k o) := by
    have : due ≤ s.now ∧ o ≠ .never := ⟨hd, hn⟩
    simp [tickC, hp, this]
  obtain ⟨rest, hr⟩ := observe_evs cfg s.now s.serial s.b c { cl with choices := ds, rdy := s.rdy } k o
  simp only [pollS, hl, fuel_succ]
  unfold loopC
  simp only [ht, hr]
  exact ⟨_, by rw [List.cons_append]⟩

/-! ## the loop fuel never cuts a poll short -/

/-- a bound on the loop iterations a request can still make -/
def rank (cl : Caller) : Nat :=
  match cl.phase with
  | .fresh => 2 * max 1 cl.maxA + 1
  | .calling _ _ _ => 2 * (max 1 cl.maxA - cl.atts.length) + 2
  | .sleeping _ => 2 * (max 1 cl.maxA - cl.atts.length) + 1
  | .done => 0
  | .unready => 0
  | .dropped => 0

theorem rank_le_fuel (cl : Caller) : rank cl ≤ fuel cl := by
  unfold rank fuel
  split <;> omega

theorem tickC_rank {cfg : Cfg} {now serial : Nat} {b : BState} {c : Nat} {cl : Caller} {o : Outp}
    (h : CInv cfg cl) (ht : tickC cfg now serial b c cl = some o) : rank o.cl < rank cl := by
  have hph := h.phase
  unfold tickC at ht
  split at ht
  · rename_i hp
    simp at ht; subst ht
    simp only [PhaseInv, hp] at hph
    simp [rank, hp, startCall, hph.1]; omega
  · rename_i k due out hp
    split at ht
    · simp at ht; subst ht
      simp only [observe]
      split
      · simp [rank, hp]
      · simp [rank, hp, length_seenNow]
    · simp at ht
  · rename_i u hp
    split at ht
    · simp at ht; subst ht
      simp only [PhaseInv, hp] at hph
      obtain ⟨a, tl, t, d, ds, ha, _, _, _, _, _, hroom⟩ := hph
      unfold retryCall
      split
      · simp [rank, hp, startCall, ha]; omega
      · simp [rank, hp]
    · simp at ht
  · simp at ht
  · simp at ht
  · simp at ht

theorem tickC_none_of_rank_zero {cfg : Cfg} {now serial : Nat} {b : BState} {c : Nat} {cl : Caller}
    (h : rank cl = 0) : tickC cfg now serial b c cl = none := by
  unfold rank at h
  unfold tickC
  split at h <;> simp_all

theorem loopC_blocked {cfg : Cfg} {now c : Nat} (f : Nat) :
    ∀ {serial : Nat} {b : BState} {cl : Caller}, CInv cfg cl → rank cl ≤ f →
      tickC cfg now (loopC cfg now c f serial b cl).serial (loopC cfg now c f serial b cl).b c
        (loopC cfg now c f serial b cl).cl = none := by
  induction f with
  | zero =>
    intro serial b cl _ hr
    simp only [loopC]
    exact tickC_none_of_rank_zero (by omega)
  | succ f ih =>
    intro serial b cl h hr
    unfold loopC
    cases ht : tickC cfg now serial b c cl with
    | none => simpa using ht
    | some o =>
      have t1 := tickC_trans h ht
      have hlt := tickC_rank h ht
      have := ih (serial := o.serial) (b := o.b) t1.inv (by omega)
      simpa using this

/-- After a poll the request is genuinely blocked (waiting for the inner call or for the end of
the back-off) or finished: one more loop iteration is impossible, so the fuel of `pollS` is never
what stops the loop. -/
theorem poll_runs_until_blocked {cfg : Cfg} {s : State} {c : Nat} {cl : Caller} (ds : List Nat) (hs : SInv cfg s)
    (hl : lookup s.callers c = some cl) :
    ∃ cl', lookup (pollS cfg s c ds).callers c = some cl' ∧
      tickC cfg (pollS cfg s c ds).now (pollS cfg s c ds).serial (pollS cfg s c ds).b c cl' = none := by
  have hc : CInv cfg { cl with choices := ds, rdy := s.rdy } := cinv_env (hs.all _ (mem_of_lookup hl)) ds s.rdy
  have hb := loopC_blocked (cfg := cfg) (now := s.now) (c := c) (fuel cl) (serial := s.serial) (b := s.b)
    hc (rank_le_fuel cl)
  refine ⟨(loopC cfg s.now c (fuel cl) s.serial s.b { cl with choices := ds, rdy := s.rdy }).cl, ?_, ?_⟩
  · simp only [pollS, hl]; exact lookup_modify_self hl
  · simp only [pollS, hl]; exact hb

/-! ## a readiness error needs an erring inner service -/

theorem readyOf_sub : ∀ (l : List Char) (ch : Char), ch ∈ (readyOf l).2 → ch ∈ l
  | [], ch, h => by simp [readyOf] at h
  | x :: rest, ch, h => by
      unfold readyOf at h
      split at h
      · exact List.mem_cons_of_mem _ (readyOf_sub rest ch h)
      · exact List.mem_cons_of_mem _ h

/-- the readiness poll before a retry fails only if the script of the inner service's answers contains an error -/
theorem readyOf_false : ∀ (l : List Char), (readyOf l).1 = false → 'e' ∈ l
  | [], h => by simp [readyOf] at h
  | x :: rest, h => by
      unfold readyOf at h
      split at h
      · exact List.mem_cons_of_mem _ (readyOf_false rest h)
      · simp at h; simp [h]

theorem tickC_rdy {cfg : Cfg} {now serial : Nat} {b : BState} {c : Nat} {cl : Caller} {o : Outp}
    (ht : tickC cfg now serial b c cl = some o) :
    (∀ ch ∈ o.cl.rdy, ch ∈ cl.rdy) ∧ (o.cl.phase = .unready → 'e' ∈ cl.rdy) := by
  unfold tickC at ht
  split at ht
  · simp at ht; subst ht; simp [startCall]
  · split at ht
    · simp at ht; subst ht
      simp only [observe]
      split <;> simp
    · simp at ht
  · split at ht
    · simp at ht; subst ht
      unfold retryCall
      split
      · exact ⟨by simpa [startCall] using readyOf_sub cl.rdy, by simp [startCall]⟩
      · rename_i hr
        exact ⟨by simpa using readyOf_sub cl.rdy, fun _ => readyOf_false cl.rdy (by simpa using hr)⟩
    · simp at ht
  · simp at ht
  · simp at ht
  · simp at ht

theorem loopC_rdy {cfg : Cfg} {now c : Nat} (f : Nat) :
    ∀ {serial : Nat} {b : BState} {cl : Caller},
      (∀ ch ∈ (loopC cfg now c f serial b cl).cl.rdy, ch ∈ cl.rdy) ∧
      ((loopC cfg now c f serial b cl).cl.phase = .unready → cl.phase = .unready ∨ 'e' ∈ cl.rdy) := by
  induction f with
  | zero => intro serial b cl; exact ⟨by simp [loopC], fun h => Or.inl (by simpa [loopC] using h)⟩
  | succ f ih =>
    intro serial b cl
    unfold loopC
    cases ht : tickC cfg now serial b c cl with
    | none => exact ⟨by simp, fun h => Or.inl (by simpa using h)⟩
    | some o =>
      have h1 := tickC_rdy ht
      have h2 := ih (serial := o.serial) (b := o.b) (cl := o.cl)
      refine ⟨fun ch hch => h1.1 ch (h2.1 ch (by simpa using hch)), fun hu => ?_⟩
      rcases h2.2 (by simpa using hu) with e | e
      · exact Or.inr (h1.2 e)
      · exact Or.inr (h1.1 _ e)

/-- what is left of the readiness script is part of the configured one, and a request ended by a readiness error
witnesses an error in it -/
def RInv (cfg : Cfg) (s : State) : Prop :=
  (∀ ch ∈ s.rdy, ch ∈ cfg.rdy) ∧ ∀ p ∈ s.callers, p.2.phase = .unready → 'e' ∈ cfg.rdy

theorem rinv_step {cfg : Cfg} {s : State} (h : RInv cfg s) (op : Op) : RInv cfg (stepS cfg s op) := by
  cases op with
  | adv ms => exact h
  | arrive c ma plan =>
    simp only [stepS, arriveS]
    split
    · exact h
    · refine ⟨h.1, ?_⟩
      intro p hp
      simp at hp
      rcases hp with hp | hp
      · subst hp; simp
      · exact h.2 p hp
  | poll c ds =>
    simp only [stepS, pollS]
    split
    · exact h
    · rename_i cl hl
      have t := loopC_rdy (cfg := cfg) (now := s.now) (c := c) (fuel cl) (serial := s.serial) (b := s.b)
        (cl := { cl with choices := ds, rdy := s.rdy })
      refine ⟨fun ch hch => h.1 ch (t.1 ch hch), ?_⟩
      intro p hp hu
      rcases mem_modify hp with hp | hp
      · exact h.2 p hp hu
      · rw [hp] at hu
        rcases t.2 hu with e | e
        · exact h.2 _ (mem_of_lookup hl) e
        · exact h.1 _ e
  | drop c =>
    simp only [stepS, dropS]
    split
    · exact h
    · rename_i cl hl
      split
      · exact h
      · exact h
      · exact h
      · refine ⟨h.1, ?_⟩
        intro p hp hu
        rcases mem_modify hp with hp | hp
        · exact h.2 p hp hu
        · rw [hp] at hu; simp at hu
      · refine ⟨h.1, ?_⟩
        intro p hp hu
        rcases mem_modify hp with hp | hp
        · exact h.2 p hp hu
        · rw [hp] at hu; simp at hu
  | probeBalance => simp only [stepS]; split <;> exact h
  | probeLimit => exact h
  | deposit => simp only [stepS]; split <;> exact h
  | withdraw => simp only [stepS]; split <;> exact h
  | invalid => exact h

theorem rinv_reachable (cfg : Cfg) (ops : List Op) : RInv cfg (run cfg ops) :=
  foldl_inv (RInv cfg) (fun _ op h => rinv_step h op) ops _ (by simp [RInv, init])

/-! ## `max_attempts` and the script of a request are fixed when it arrives -/

theorem arrive_sets {cfg : Cfg} {s : State} {c : Nat} {ma : Option Nat} {plan : List Step}
    (h : lookup s.callers c = none) :
    ∃ cl, lookup (arriveS cfg s c ma plan).callers c = some cl ∧
      cl.maxA = (if cfg.dyn then ma.getD cfg.max else cfg.max) ∧ cl.plan0 = plan ∧ cl.phase = .fresh := by
  simp [arriveS, h, lookup]

theorem step_keeps {cfg : Cfg} {s : State} {c : Nat} {cl : Caller} (hs : SInv cfg s)
    (h : lookup s.callers c = some cl) (op : Op) :
    ∃ cl', lookup (stepS cfg s op).callers c = some cl' ∧ cl'.maxA = cl.maxA ∧ cl'.plan0 = cl.plan0 := by
  cases op with
  | adv ms => exact ⟨cl, h, rfl, rfl⟩
  | arrive c' ma plan =>
    simp only [stepS, arriveS]
    split
    · exact ⟨cl, h, rfl, rfl⟩
    · rename_i hn
      have : ¬ c' = c := by intro e; subst e; simp [h] at hn
      exact ⟨cl, by simp [lookup, this, h], rfl, rfl⟩
  | poll c' ds =>
    simp only [stepS, pollS]
    split
    · exact ⟨cl, h, rfl, rfl⟩
    · rename_i cl0 hl
      by_cases hc : c = c'
      · subst hc
        rw [h] at hl; cases hl
        have hci : CInv cfg { cl with choices := ds, rdy := s.rdy } := cinv_env (hs.all _ (mem_of_lookup h)) ds s.rdy
        have t := loopC_trans (cfg := cfg) (now := s.now) (c := c) (fuel cl) (serial := s.serial) (b := s.b) hci
        exact ⟨_, lookup_modify_self h, t.maxA.1, t.maxA.2⟩
      · exact ⟨cl, by simp [lookup_modify_ne hc, h], rfl, rfl⟩
  | drop c' =>
    simp only [stepS, dropS]
    split
    · exact ⟨cl, h, rfl, rfl⟩
    · rename_i cl0 hl
      by_cases hc : c = c'
      · subst hc
        rw [h] at hl; cases hl
        split
        · exact ⟨cl, h, rfl, rfl⟩
        · exact ⟨cl, h, rfl, rfl⟩
        · exact ⟨cl, h, rfl, rfl⟩
        · exact ⟨{ cl with phase := .dropped }, by simp only [emit]; exact lookup_modify_self h, rfl, rfl⟩
        · exact ⟨{ cl with phase := .dropped }, lookup_modify_self h, rfl, rfl⟩
      · split
        · exact ⟨cl, h, rfl, rfl⟩
        · exact ⟨cl, h, rfl, rfl⟩
        · exact ⟨cl, h, rfl, rfl⟩
        · exact ⟨cl, by simp only [emit]; simp [lookup_modify_ne hc, h], rfl, rfl⟩
        · exact ⟨cl, by simp [lookup_modify_ne hc, h], rfl, rfl⟩
  | probeBalance => simp only [stepS]; split <;> exact ⟨cl, by simpa [emit] using h, rfl, rfl⟩
  | probeLimit => exact ⟨cl, by simpa [stepS, emit] using h, rfl, rfl⟩
  | deposit => simp only [stepS]; split <;> exact ⟨cl, by simpa [emit] using h, rfl, rfl⟩
  | withdraw => simp only [stepS]; split <;> exact ⟨cl, by simpa [emit] using h, rfl, rfl⟩
  | invalid => exact ⟨cl, by simpa [stepS, emit] using h, rfl, rfl⟩

theorem run_append (cfg : Cfg) (a b : List Op) : run cfg (a ++ b) = b.foldl (stepS cfg) (run cfg a) := by
  simp [run, List.foldl_append]

theorem sinv_foldl {cfg : Cfg} (ops : List Op) {s : State} (h : SInv cfg s) : SInv cfg (ops.foldl (stepS cfg) s) :=
  foldl_inv (SInv cfg) (fun _ op h => sinv_step h op) ops _ h

theorem foldl_keeps {cfg : Cfg} (ops : List Op) : ∀ {s : State} {c : Nat} {cl : Caller}, SInv cfg s →
    lookup s.callers c = some cl →
    ∃ cl', lookup (ops.foldl (stepS cfg) s).callers c = some cl' ∧ cl'.maxA = cl.maxA ∧ cl'.plan0 = cl.plan0 := by
  induction ops with
  | nil => intro s c cl _ h; exact ⟨cl, h, rfl, rfl⟩
  | cons op tl ih =>
    intro s c cl hs h
    obtain ⟨cl1, h1, hm, hp⟩ := step_keeps hs h op
    obtain ⟨cl2, h2, hm2, hp2⟩ := ih (sinv_step hs op) h1
    exact ⟨cl2, h2, by rw [hm2, hm], by rw [hp2, hp]⟩

/-! ## the builder: a fold in which the last setter of each setting wins -/

/-- which setting a setter writes: 0 the max-attempts source (`max_attempts` and `max_attempts_fn`), 1 the interval
function (`fixed_backoff` / `exponential_backoff` / `backoff`), 2 the predicate, 3 the budget -/
def Setter.slot : Setter → Nat
  | .maxA _ => 0
  | .maxFn _ => 0
  | .backoff _ => 1
  | .interval _ _ => 1
  | .pred _ => 2
  | .budget _ _ _ => 3

theorem foldl_max_keep (l : List Setter) (cfg : Cfg) (h : ∀ s ∈ l, s.slot ≠ 0) :
    (l.foldl applySetter cfg).max = cfg.max ∧ (l.foldl applySetter cfg).dyn = cfg.dyn := by
  induction l generalizing cfg with
  | nil => exact ⟨rfl, rfl⟩
  | cons s tl ih =>
    simp only [List.foldl_cons]
    rw [(ih _ (fun s' hs' => h s' (List.mem_cons_of_mem _ hs'))).1,
        (ih _ (fun s' hs' => h s' (List.mem_cons_of_mem _ hs'))).2]
    have hs := h s List.mem_cons_self
    cases s <;> simp_all [applySetter, Setter.slot]

theorem foldl_backoff_keep (l : List Setter) (cfg : Cfg) (h : ∀ s ∈ l, s.slot ≠ 1) :
    (l.foldl applySetter cfg).backoff = cfg.backoff := by
  induction l generalizing cfg with
  | nil => rfl
  | cons s tl ih =>
    simp only [List.foldl_cons]
    rw [ih _ (fun s' hs' => h s' (List.mem_cons_of_mem _ hs'))]
    have hs := h s List.mem_cons_self
    cases s <;> simp_all [applySetter, Setter.slot]

theorem foldl_spread_keep (l : List Setter) (cfg : Cfg) (h : ∀ s ∈ l, s.slot ≠ 1) :
    (l.foldl applySetter cfg).spread = cfg.spread := by
  induction l generalizing cfg with
  | nil => rfl
  | cons s tl ih =>
    simp only [List.foldl_cons]
    rw [ih _ (fun s' hs' => h s' (List.mem_cons_of_mem _ hs'))]
    have hs := h s List.mem_cons_self
    cases s <;> simp_all [applySetter, Setter.slot]

theorem foldl_pred_keep (l : List Setter) (cfg : Cfg) (h : ∀ s ∈ l, s.slot ≠ 2) :
    (l.foldl applySetter cfg).pred = cfg.pred := by
  induction l generalizing cfg with
  | nil => rfl
  | cons s tl ih =>
    simp only [List.foldl_cons]
    rw [ih _ (fun s' hs' => h s' (List.mem_cons_of_mem _ hs'))]
    have hs := h s List.mem_cons_self
    cases s <;> simp_all [applySetter, Setter.slot]

theorem foldl_budget_keep (l : List Setter) (cfg : Cfg) (h : ∀ s ∈ l, s.slot ≠ 3) :
    (l.foldl applySetter cfg).budget = cfg.budget ∧ (l.foldl applySetter cfg).b0 = cfg.b0 ∧
    (l.foldl applySetter cfg).aimd = cfg.aimd := by
  induction l generalizing cfg with
  | nil => exact ⟨rfl, rfl, rfl⟩
  | cons s tl ih =>
    simp only [List.foldl_cons]
    rw [(ih _ (fun s' hs' => h s' (List.mem_cons_of_mem _ hs'))).1,
        (ih _ (fun s' hs' => h s' (List.mem_cons_of_mem _ hs'))).2.1,
        (ih _ (fun s' hs' => h s' (List.mem_cons_of_mem _ hs'))).2.2]
    have hs := h s List.mem_cons_self
    cases s <;> simp_all [applySetter, Setter.slot]

theorem build_append_cons (pre post : List Setter) (s : Setter) :
    build (pre ++ s :: post) = post.foldl applySetter (applySetter (build pre) s) := by
  simp [build, List.foldl_append]

/-! ## where a request's `max_attempts` comes from -/

/-- an operation other than the arrival of `c` does not create the record of `c` -/
theorem step_none {cfg : Cfg} {s : State} {c : Nat} (h : lookup s.callers c = none) (op : Op)
    (hop : ∀ ma plan, op ≠ .arrive c ma plan) : lookup (stepS cfg s op).callers c = none := by
  cases op with
  | adv ms => exact h
  | arrive c' ma plan =>
    have hne : ¬ c' = c := by intro e; subst e; exact hop ma plan rfl
    simp only [stepS, arriveS]
    split
    · exact h
    · simp [lookup, hne, h]
  | poll c' ds =>
    simp only [stepS, pollS]
    split
    · exact h
    · rename_i cl0 hl
      have hne : c ≠ c' := by intro e; subst e; simp [h] at hl
      simp [lookup_modify_ne hne, h]
  | drop c' =>
    simp only [stepS, dropS]
    split
    · exact h
    · rename_i cl0 hl
      have hne : c ≠ c' := by intro e; subst e; simp [h] at hl
      split
      · exact h
      · exact h
      · exact h
      · simp only [emit]; simp [lookup_modify_ne hne, h]
      · simp [lookup_modify_ne hne, h]
  | probeBalance => simp only [stepS]; split <;> simpa [emit] using h
  | probeLimit => simpa [stepS, emit] using h
  | deposit => simp only [stepS]; split <;> simpa [emit] using h
  | withdraw => simp only [stepS]; split <;> simpa [emit] using h
  | invalid => simpa [stepS, emit] using h

/-- the `max_attempts` of every request of every reachable state is what the layer's source answered at its arrival:
the fixed value, or with `max_attempts_fn` the request's own value (the extractor's default without one) -/
theorem maxA_origin (cfg : Cfg) (ops : List Op) (c : Nat) (cl : Caller)
    (h : lookup (run cfg ops).callers c = some cl) :
    ∃ ma : Option Nat, cl.maxA = (if cfg.dyn then ma.getD cfg.max else cfg.max) := by
  have key : ∀ s, (SInv cfg s ∧ ∀ c cl, lookup s.callers c = some cl →
        ∃ ma : Option Nat, cl.maxA = (if cfg.dyn then ma.getD cfg.max else cfg.max)) →
      ∀ op, (SInv cfg (stepS cfg s op) ∧ ∀ c cl, lookup (stepS cfg s op).callers c = some cl →
        ∃ ma : Option Nat, cl.maxA = (if cfg.dyn then ma.getD cfg.max else cfg.max)) := by
    intro s ⟨hs, hq⟩ op
    refine ⟨sinv_step hs op, ?_⟩
    intro c cl hl
    cases h0 : lookup s.callers c with
    | some cl0 =>
      obtain ⟨cl1, h1, hm, _⟩ := step_keeps hs h0 op
      rw [h1] at hl; cases hl
      obtain ⟨ma, hma⟩ := hq c cl0 h0
      exact ⟨ma, by rw [hm, hma]⟩
    | none =>
      by_cases hop : ∃ ma plan, op = .arrive c ma plan
      · obtain ⟨ma, plan, rfl⟩ := hop
        obtain ⟨cl1, h1, hm, _⟩ := arrive_sets (cfg := cfg) (ma := ma) (plan := plan) h0
        have h1' : lookup (stepS cfg s (.arrive c ma plan)).callers c = some cl1 := by simpa [stepS] using h1
        rw [h1'] at hl; cases hl
        exact ⟨ma, hm⟩
      · have := step_none (cfg := cfg) h0 op (by intro ma plan e; exact hop ⟨ma, plan, e⟩)
        rw [this] at hl; cases hl
  have := foldl_inv (cfg := cfg) (fun s => SInv cfg s ∧ ∀ c cl, lookup s.callers c = some cl →
        ∃ ma : Option Nat, cl.maxA = (if cfg.dyn then ma.getD cfg.max else cfg.max))
      (fun s op hp => key s hp op) ops (init cfg) ⟨sinv_init cfg, by intro c cl hl; simp [init, lookup] at hl⟩
  exact this.2 c cl h

end TR.Retry
